import Andes.Model.PerUnit
import Andes.Gen.PuCoeff
import Mathlib.Tactic.FieldSimp
import Mathlib.Tactic.Ring
import Mathlib.Tactic.NormNum.OfScientific
import Mathlib.Algebra.Order.Field.Basic
import Mathlib.Data.List.Basic

set_option linter.unusedSectionVars false

/-! Lemmas for `Andes/Props/C11.lean`: list surgery (`modAt`, `zipWith`), the invariants of the
alteration model and their preservation by each operation. -/
namespace Andes.PerUnit

/-! ## list surgery -/

theorem mem_modAt {β : Type} (f : β → β) : ∀ (l : List β) (i : Nat) (x : β),
    x ∈ modAt l i f → x ∈ l ∨ ∃ y, l[i]? = some y ∧ x = f y
  | [], _, x, h => by simp [modAt] at h
  | a :: l, 0, x, h => by
    simp only [modAt, List.mem_cons] at h
    rcases h with rfl | h
    · exact Or.inr ⟨a, by simp, rfl⟩
    · exact Or.inl (List.mem_cons_of_mem _ h)
  | a :: l, i + 1, x, h => by
    simp only [modAt, List.mem_cons] at h
    rcases h with rfl | h
    · exact Or.inl (by simp)
    · rcases mem_modAt f l i x h with h | ⟨y, hy, rfl⟩
      · exact Or.inl (List.mem_cons_of_mem _ h)
      · exact Or.inr ⟨y, by simpa using hy, rfl⟩

theorem forall_modAt {β : Type} {P : β → Prop} (f : β → β) (l : List β) (i : Nat)
    (hl : ∀ x ∈ l, P x) (hf : ∀ y, l[i]? = some y → P (f y)) : ∀ x ∈ modAt l i f, P x := by
  intro x hx
  rcases mem_modAt f l i x hx with h | ⟨y, hy, rfl⟩
  · exact hl x h
  · exact hf y hy

theorem modAt_length {β : Type} (f : β → β) : ∀ (l : List β) (i : Nat), (modAt l i f).length = l.length
  | [], _ => rfl
  | _ :: _, 0 => rfl
  | _ :: l, i + 1 => by simp [modAt, modAt_length f l i]

theorem modAt_get_same {β : Type} (f : β → β) : ∀ (l : List β) (i : Nat), (modAt l i f)[i]? = l[i]?.map f
  | [], _ => rfl
  | _ :: _, 0 => rfl
  | _ :: l, i + 1 => by simpa [modAt] using modAt_get_same f l i

theorem modAt_get_other {β : Type} (f : β → β) : ∀ (l : List β) (i j : Nat), i ≠ j → (modAt l i f)[j]? = l[j]?
  | [], _, _, _ => rfl
  | _ :: _, 0, 0, h => absurd rfl h
  | _ :: _, 0, j + 1, _ => rfl
  | _ :: _, i + 1, 0, _ => rfl
  | _ :: l, i + 1, j + 1, h => by simpa [modAt] using modAt_get_other f l i j (by omega)

theorem mem_zipWith_exists {β γ δ : Type} (g : β → γ → δ) : ∀ (bs : List β) (cs : List γ) (x : δ),
    x ∈ List.zipWith g bs cs → ∃ b c, c ∈ cs ∧ x = g b c
  | [], _, x, h => by simp at h
  | _ :: _, [], x, h => by simp at h
  | b :: bs, c :: cs, x, h => by
    simp only [List.zipWith_cons_cons, List.mem_cons] at h
    rcases h with rfl | h
    · exact ⟨b, c, by simp, rfl⟩
    · obtain ⟨b', c', hc, rfl⟩ := mem_zipWith_exists g bs cs x h
      exact ⟨b', c', List.mem_cons_of_mem _ hc, rfl⟩

/-! ## invariants -/

variable {K : Type} [Field K]

theorem one_lit [CharZero K] : (1.0 : K) = 1 := by norm_num

/-- both representations of one entry agree: `v = vin * pu_coeff` -/
def Cell.Ok (c : Cell K) : Prop := c.v = c.vin * c.pu

def Param.Ok (p : Param K) : Prop := ∀ c ∈ p.cells, c.Ok

/-- the model is set up and every entry of every parameter satisfies `v = vin * pu_coeff` -/
def Mdl.Consistent (m : Mdl K) : Prop := m.isSetup = true ∧ ∀ p ∈ m.params, p.Ok

/-- `dae.Tf` and `Teye` carry the current value of every time-constant parameter -/
def Cell.TfOk (c : Cell K) : Prop := c.tf = c.v ∧ c.teye = c.v

def Mdl.TfInv (m : Mdl K) : Prop :=
  (m.addressed = true → m.isSetup = true) ∧
  (m.addressed = true → ∀ p ∈ m.params, p.tc = true → ∀ c ∈ p.cells, c.TfOk)

theorem setupCell_ok [CharZero K] (k : Option K) (c : Cell K) : (setupCell k c).Ok := by
  cases k with
  | none => simp [setupCell, Cell.Ok, one_lit]
  | some k => simp [setupCell, Cell.Ok]

theorem mem_setupCells (m : Mdl K) (ks : List Kind) : ∀ (cs : List (Cell K)) (i : Nat) (x : Cell K),
    x ∈ setupCells m ks i cs → ∃ k c, c ∈ cs ∧ x = setupCell k c
  | [], _, x, h => by simp [setupCells] at h
  | c :: cs, i, x, h => by
    simp only [setupCells, List.mem_cons] at h
    rcases h with rfl | h
    · exact ⟨_, c, by simp, rfl⟩
    · obtain ⟨k, c', hc, rfl⟩ := mem_setupCells m ks cs (i + 1) x h
      exact ⟨k, c', List.mem_cons_of_mem _ hc, rfl⟩

theorem setupCell_vin (k : Option K) (c : Cell K) : (setupCell k c).vin = c.v := by
  cases k <;> rfl

theorem setupCells_vin (m : Mdl K) (ks : List Kind) : ∀ (cs : List (Cell K)) (i : Nat),
    (setupCells m ks i cs).map (·.vin) = cs.map (·.v)
  | [], _ => rfl
  | c :: cs, i => by simp [setupCells, setupCell_vin, setupCells_vin m ks cs (i + 1)]

theorem setupParam_ok [CharZero K] (m : Mdl K) (p : Param K) : (setupParam m p).Ok := by
  intro c hc
  obtain ⟨k, c0, _, rfl⟩ := mem_setupCells _ _ _ _ _ hc
  exact setupCell_ok _ _

theorem doSetup_consistent [CharZero K] (m : Mdl K) : (doSetup m).Consistent := by
  refine ⟨rfl, ?_⟩
  intro p hp
  simp only [doSetup, List.mem_map] at hp
  obtain ⟨q, _, rfl⟩ := hp
  exact setupParam_ok _ _

theorem doSetup_isSetup (m : Mdl K) : (doSetup m).isSetup = true := rfl
theorem doSetup_addressed (m : Mdl K) : (doSetup m).addressed = m.addressed := rfl

/-- a cell-wise update of one entry keeps a cell-wise invariant of all parameters -/
theorem modCell_forall {P : Cell K → Prop} (m : Mdl K) (p uid : Nat) (f : Param K → Cell K → Cell K)
    (h : ∀ q ∈ m.params, ∀ c ∈ q.cells, P c)
    (hf : ∀ q c, m.params[p]? = some q → q.cells[uid]? = some c → P (f q c)) :
    ∀ q ∈ (modCell m p uid f).params, ∀ c ∈ q.cells, P c := by
  simp only [modCell]
  refine forall_modAt _ _ _ h ?_
  intro q hq
  refine forall_modAt _ _ _ (h q (List.mem_of_getElem? hq)) ?_
  intro c hc
  exact hf q c hq hc

theorem modCell_isSetup (m : Mdl K) (p uid : Nat) (f : Param K → Cell K → Cell K) :
    (modCell m p uid f).isSetup = m.isSetup := rfl
theorem modCell_addressed (m : Mdl K) (p uid : Nat) (f : Param K → Cell K → Cell K) :
    (modCell m p uid f).addressed = m.addressed := rfl

/-- a cell-wise update that does not touch the parameter's flags: statements quantified over the
parameters with `tc` set -/
theorem modCell_forall_tc {P : Cell K → Prop} (m : Mdl K) (p uid : Nat) (f : Param K → Cell K → Cell K)
    (h : ∀ q ∈ m.params, q.tc = true → ∀ c ∈ q.cells, P c)
    (hf : ∀ q c, m.params[p]? = some q → q.tc = true → q.cells[uid]? = some c → P (f q c)) :
    ∀ q ∈ (modCell m p uid f).params, q.tc = true → ∀ c ∈ q.cells, P c := by
  simp only [modCell]
  refine forall_modAt (P := fun q : Param K => q.tc = true → ∀ c ∈ q.cells, P c) _ _ _ h ?_
  intro q hq htc
  refine forall_modAt _ _ _ (h q (List.mem_of_getElem? hq) htc) ?_
  intro c hc
  exact hf q c hq htc hc

end Andes.PerUnit
