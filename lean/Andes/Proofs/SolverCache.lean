import Andes.Model.SolverCache
import Mathlib.Tactic.FieldSimp
import Mathlib.Tactic.Ring
import Mathlib.Tactic.Linarith
import Mathlib.Data.List.Basic

/-! Lemmas about the solver-cache model: invariants of the worker state over arbitrary histories. -/
namespace Andes.SolverCache

section
variable {M V P : Type} [DecidableEq P] (S : Sys M V P)

/-- the patterns in `Q` are mutually compatible for `lib`: two different ones are always told apart by
`umfpack.numeric` (for KLU this forces all patterns in `Q` to be equal) -/
def Compat (lib : Lib) (Q : P → Prop) : Prop :=
  ∀ q q', Q q → Q q' → q ≠ q' → lib = .umfpack ∧ S.detects q q' = true

/-- loop invariant of a SuiteSparse worker: no contract-violating call so far, and the cached symbolic
factor (if it is going to be used) belongs to a pattern in `Q` -/
def SsInv (Q : P → Prop) (s : St M P) : Prop :=
  s.dead = false ∧ (s.factorize = true ∨ ∃ q, s.F = some q ∧ Q q)

omit [DecidableEq P] in
theorem ssInv_init (lib : Lib) (hl : lib ≠ .spsolve) (Q : P → Prop) : SsInv Q (init M P lib) := by
  cases lib <;> simp_all [init, SsInv]

/-- the first `_numeric` call of `solve` on a state satisfying the invariant is inside the contract -/
theorem numeric_cases (lib : Lib) (Q : P → Prop) (hc : Compat S lib Q) (s : St M P) (hs : SsInv Q s)
    (A : M) (hA : Q (S.pat A)) :
    (numeric S lib (ssF0 S s A) A = .ok ∧ S.reg A = true) ∨
    (numeric S lib (ssF0 S s A) A = .arith ∧ S.reg A = false) ∨
    (numeric S lib (ssF0 S s A) A = .valueError ∧ lib = .umfpack) := by
  obtain ⟨_, hF⟩ := hs
  unfold ssF0 numeric
  rcases hF with hf | ⟨q, hq, hQ⟩
  · simp only [hf, if_true]
    cases h : S.reg A <;> simp
  · by_cases hf : s.factorize = true
    · simp only [hf, if_true]
      cases h : S.reg A <;> simp
    · simp only [hf, hq]
      by_cases hp : q = S.pat A
      · cases h : S.reg A <;> simp [hp]
      · have := hc q (S.pat A) hQ hA hp
        simp [hp, this.1, this.2]

theorem ssSolveSt_inv (lib : Lib) (Q : P → Prop) (hc : Compat S lib Q) (s : St M P) (hs : SsInv Q s)
    (A : M) (hA : Q (S.pat A)) : SsInv Q (ssSolveSt S lib s A) := by
  have hd := hs.1
  have hF0 : ∃ q, ssF0 S s A = some q ∧ Q q := by
    unfold ssF0
    rcases hs.2 with hf | ⟨q, hq, hQ⟩
    · exact ⟨S.pat A, by simp [hf], hA⟩
    · by_cases hf : s.factorize = true
      · exact ⟨S.pat A, by simp [hf], hA⟩
      · exact ⟨q, by simp [hf, hq], hQ⟩
  rcases numeric_cases S lib Q hc s hs A hA with h | h | h
  · refine ⟨by simp [ssSolveSt, ssSolveDead, h.1, hd], Or.inr ?_⟩
    simpa [ssSolveSt, ssSolveF, h.1] using hF0
  · refine ⟨by simp [ssSolveSt, ssSolveDead, h.1, hd], Or.inr ?_⟩
    simpa [ssSolveSt, ssSolveF, h.1] using hF0
  · refine ⟨by simp [ssSolveSt, ssSolveDead, h.1, hd], Or.inr ⟨S.pat A, ?_, hA⟩⟩
    simp [ssSolveSt, ssSolveF, h.1]

/-- the invariant is preserved by every operation whose matrix has a pattern in `Q` -/
theorem stepSt_inv (lib : Lib) (hl : lib ≠ .spsolve) (Q : P → Prop) (hc : Compat S lib Q) (s : St M P)
    (hs : SsInv Q s) (op : Op M V) (hop : ∀ A b, op = .solve A b → Q (S.pat A)) :
    SsInv Q (stepSt S lib s op) := by
  cases op with
  | solve A b =>
    have hd := hs.1
    cases lib with
    | spsolve => exact absurd rfl hl
    | klu => simpa [stepSt, hd] using ssSolveSt_inv S .klu Q hc s hs A (hop A b rfl)
    | umfpack => simpa [stepSt, hd] using ssSolveSt_inv S .umfpack Q hc s hs A (hop A b rfl)
  | linsolve A b => simpa [stepSt] using hs
  | clear => cases lib <;> simp_all [stepSt, SsInv]
  | setFactorize => simp_all [stepSt, SsInv]
  | setNewA => simpa [stepSt, SsInv] using hs

theorem mem_solved_of (A : M) (b : V) : ∀ (ops : List (Op M V)), Op.solve A b ∈ ops → A ∈ solved ops
  | [], h => by simp at h
  | op :: ops, h => by
    cases op with
    | solve A' b' =>
      simp only [List.mem_cons, Op.solve.injEq] at h
      rcases h with ⟨rfl, _⟩ | h
      · simp [solved]
      · simp [solved, mem_solved_of A b ops h]
    | linsolve A' b' => simpa [solved] using mem_solved_of A b ops (by simpa using h)
    | clear => simpa [solved] using mem_solved_of A b ops (by simpa using h)
    | setFactorize => simpa [solved] using mem_solved_of A b ops (by simpa using h)
    | setNewA => simpa [solved] using mem_solved_of A b ops (by simpa using h)

theorem runSt_inv (lib : Lib) (hl : lib ≠ .spsolve) (Q : P → Prop) (hc : Compat S lib Q) :
    ∀ (ops : List (Op M V)) (s : St M P), SsInv Q s → (∀ B ∈ solved ops, Q (S.pat B)) →
      SsInv Q (runSt S lib s ops)
  | [], s, hs, _ => by simpa [runSt] using hs
  | op :: ops, s, hs, hq => by
    unfold runSt
    apply runSt_inv lib hl Q hc ops
    · apply stepSt_inv S lib hl Q hc s hs op
      intro A b h
      exact hq A (mem_solved_of A b (op :: ops) (by simp [h]))
    · intro B hB
      apply hq B
      cases op <;> simp_all [solved]

/-- on a state satisfying the invariant, `solve` on a regular matrix of a compatible pattern returns the
solution for THAT matrix -/
theorem ssSolveOut_regular (lib : Lib) (Q : P → Prop) (hc : Compat S lib Q) (s : St M P) (hs : SsInv Q s)
    (A : M) (b : V) (hA : Q (S.pat A)) (hreg : S.reg A = true) :
    ssSolveOut S lib s A b = .vec (S.sol A b) := by
  rcases numeric_cases S lib Q hc s hs A hA with h | h | h
  · simp [ssSolveOut, h.1]
  · simp [hreg] at h
  · simp [ssSolveOut, h.1, hreg]

/-! ### SciPy worker -/

theorem sp_dead (s : St M P) (op : Op M V) (h : s.dead = false) : (stepSt S .spsolve s op).dead = false := by
  cases op <;> simp [stepSt, spSolveSt, h]
  split <;> simp_all

theorem sp_runSt_dead : ∀ (ops : List (Op M V)) (s : St M P), s.dead = false →
    (runSt S .spsolve s ops).dead = false
  | [], s, h => by simpa [runSt] using h
  | op :: ops, s, h => by
    unfold runSt
    exact sp_runSt_dead ops _ (sp_dead S s op h)

omit [DecidableEq P] in
theorem init_dead (lib : Lib) : (init M P lib).dead = false := by cases lib <;> rfl

/-- a pending refresh request survives everything except a successful `solve` -/
theorem sp_refresh_persists (s : St M P) (op : Op M V) (h : spRefresh s = true)
    (hop : ∀ B b, op = .solve B b → S.reg B = false) : spRefresh (stepSt S .spsolve s op) = true := by
  cases op with
  | solve B b =>
    have := hop B b rfl
    by_cases hd : s.dead = true <;> simp [stepSt, spSolveSt, this, h, hd]
  | linsolve B b => simpa [stepSt] using h
  | clear => simpa [stepSt] using h
  | setFactorize => simp [stepSt, spRefresh]
  | setNewA => simp [stepSt, spRefresh]

theorem sp_refresh_run : ∀ (ops : List (Op M V)) (s : St M P), spRefresh s = true →
    (∀ op ∈ ops, ∀ B b, op = .solve B b → S.reg B = false) → spRefresh (runSt S .spsolve s ops) = true
  | [], s, h, _ => by simpa [runSt] using h
  | op :: ops, s, h, hops => by
    unfold runSt
    apply sp_refresh_run ops
    · exact sp_refresh_persists S s op h (hops op (by simp))
    · intro o ho
      exact hops o (by simp [ho])

/-- "no refresh pending, LU of `L` cached" is preserved by everything except a flag write -/
def SpStale (L : M) (s : St M P) : Prop := spRefresh s = false ∧ s.lu = some L ∧ s.dead = false

theorem sp_stale_step (L : M) (s : St M P) (op : Op M V) (h : SpStale L s) (hop : isFlag op = false) :
    SpStale L (stepSt S .spsolve s op) := by
  obtain ⟨h1, h2, h3⟩ := h
  cases op with
  | solve B b => simp [stepSt, spSolveSt, h1, h3, SpStale, h2]
  | linsolve B b => simp [stepSt, SpStale, h1, h2, h3]
  | clear => simp [stepSt, SpStale, h1, h2, h3]
  | setFactorize => simp [isFlag] at hop
  | setNewA => simp [isFlag] at hop

theorem sp_stale_run (L : M) : ∀ (ops : List (Op M V)) (s : St M P), SpStale L s →
    (∀ op ∈ ops, isFlag op = false) → SpStale L (runSt S .spsolve s ops)
  | [], s, h, _ => by simpa [runSt] using h
  | op :: ops, s, h, hops => by
    unfold runSt
    apply sp_stale_run L ops
    · exact sp_stale_step S L s op h (hops op (by simp))
    · intro o ho
      exact hops o (by simp [ho])

theorem runSt_append (lib : Lib) : ∀ (a c : List (Op M V)) (s : St M P),
    runSt S lib s (a ++ c) = runSt S lib (runSt S lib s a) c
  | [], c, s => by simp [runSt]
  | op :: a, c, s => by simp [runSt, runSt_append lib a c]

end

/-! ### 2x2 rational matrices: the contract `A * sol A b = b` holds for the Cramer solve -/

structure M2 where
  a : ℚ
  b : ℚ
  c : ℚ
  d : ℚ

def M2.det (A : M2) : ℚ := A.a * A.d - A.b * A.c
def M2.mul (A : M2) (v : ℚ × ℚ) : ℚ × ℚ := (A.a * v.1 + A.b * v.2, A.c * v.1 + A.d * v.2)
def M2.sol (A : M2) (v : ℚ × ℚ) : ℚ × ℚ :=
  ((v.1 * A.d - A.b * v.2) / A.det, (A.a * v.2 - v.1 * A.c) / A.det)

/-- structural pattern of a 2x2 matrix whose zero entries are not stored -/
def M2.pattern (A : M2) : List Bool := [decide (A.a ≠ 0), decide (A.b ≠ 0), decide (A.c ≠ 0), decide (A.d ≠ 0)]

def sys2 (detects : List Bool → List Bool → Bool) : Sys M2 (ℚ × ℚ) (List Bool) where
  pat := M2.pattern
  reg := fun A => decide (A.det ≠ 0)
  sol := M2.sol
  nan := fun v => v      -- irrelevant for the contract
  detects := detects

theorem m2_contract (A : M2) (v : ℚ × ℚ) (h : A.det ≠ 0) : A.mul (A.sol v) = v := by
  have h' : A.a * A.d - A.b * A.c ≠ 0 := h
  unfold M2.mul M2.sol M2.det
  refine Prod.ext ?_ ?_
  · simp only
    rw [mul_div_assoc', mul_div_assoc', ← add_div, div_eq_iff h']
    ring
  · simp only
    rw [mul_div_assoc', mul_div_assoc', ← add_div, div_eq_iff h']
    ring

/-! ### A tiny symbolic back end for concrete witnesses: matrix = (id, pattern id, regular) -/

inductive Tag
  | rhs | sol (id : Nat) | nan
deriving DecidableEq, Repr

structure TMat where
  id : Nat
  pat : Nat
  reg : Bool
deriving DecidableEq, Repr

/-- `und` = pattern pairs UMFPACK does not tell apart -/
def tsys (und : List (Nat × Nat)) : Sys TMat Tag Nat where
  pat := TMat.pat
  reg := TMat.reg
  sol := fun A _ => .sol A.id
  nan := fun _ => .nan
  detects := fun p q => !(und.contains (p, q))

end Andes.SolverCache
