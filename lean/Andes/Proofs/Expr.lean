import Andes.Model.Expr
import Mathlib.Analysis.SpecialFunctions.Trigonometric.Basic
import Mathlib.Analysis.SpecialFunctions.Trigonometric.Arctan
import Mathlib.Analysis.SpecialFunctions.Pow.Real
import Mathlib.Analysis.SpecialFunctions.Sqrt
import Mathlib.Analysis.SpecialFunctions.Complex.Arg
import Mathlib.Data.Real.Sign
import Mathlib.Tactic.Ring
import Mathlib.Tactic.Linarith
import Mathlib.Tactic.FieldSimp
import Mathlib.Tactic.NormNum

/-! Real-number semantics of `Andes.Expr` and the tactic portfolio used by the generated obligations. -/
namespace Andes.Expr

noncomputable def Fn1.evalR : Fn1 → ℝ → ℝ
  | .sin => Real.sin | .cos => Real.cos | .tan => Real.tan | .exp => Real.exp | .log => Real.log
  | .sqrt => Real.sqrt | .abs => fun x => |x| | .arctan => Real.arctan
  | .sign => Real.sign

/-- truth value of a real "boolean" -/
noncomputable def ind (p : Prop) [Decidable p] : ℝ := if p then 1 else 0

noncomputable def evalR (ρ : Nat → ℝ) : Expr → ℝ
  | num q => (q : ℝ)
  | var i => ρ i
  | pi => Real.pi
  | nan => 0
  | add a b => evalR ρ a + evalR ρ b
  | sub a b => evalR ρ a - evalR ρ b
  | mul a b => evalR ρ a * evalR ρ b
  | div a b => evalR ρ a / evalR ρ b
  | neg a => - evalR ρ a
  | pow a n => evalR ρ a ^ n
  | rpow a b => Real.rpow (evalR ρ a) (evalR ρ b)
  | un f a => Fn1.evalR f (evalR ρ a)
  | atan2 a b => Complex.arg ⟨evalR ρ b, evalR ρ a⟩
  | lt a b => ind (evalR ρ a < evalR ρ b)
  | le a b => ind (evalR ρ a ≤ evalR ρ b)
  | band a b => ind (evalR ρ a ≠ 0 ∧ evalR ρ b ≠ 0)
  | bor a b => ind (evalR ρ a ≠ 0 ∨ evalR ρ b ≠ 0)
  | bnot a => ind (evalR ρ a = 0)
  | ite c a b => if evalR ρ c ≠ 0 then evalR ρ a else evalR ρ b

/-- unfold the deep embedding to a plain real expression -/
macro "andes_unfold" : tactic =>
  `(tactic| simp only [evalR, Fn1.evalR, ind, Rat.cast_zero, Rat.cast_one, Rat.cast_ofNat, Rat.cast_natCast,
      Rat.cast_div, Rat.cast_neg, Rat.cast_intCast, Nat.cast_ofNat, Int.cast_ofNat, Int.cast_neg, Rat.cast_mul,
      Rat.cast_add, Rat.cast_sub, Rat.cast_inv, Rat.cast_pow])

/-- trigonometric expansion (SymPy rewrites the parity of sin/cos arguments) -/
macro "andes_trig" : tactic =>
  `(tactic| simp only [Real.sin_add, Real.cos_add, Real.sin_sub, Real.cos_sub, Real.sin_neg, Real.cos_neg])

/-- the portfolio for "generated expression ≡ declared expression"; every member must CLOSE the goal
(`ring1`, never `ring`, whose `ring_nf` fall-back can leave goals) -/
macro "andes_equiv" : tactic =>
  `(tactic| first | rfl | (andes_unfold <;>
             first
              | rfl
              | ring1
              | (andes_trig; ring1)
              | (norm_num; done)
              | (norm_num; ring1)
              | (split_ifs <;> first | ring1 | (norm_num; done) | (norm_num; ring1) | (simp_all; done) | (exfalso; simp_all; done) | (exfalso; linarith))
              | (field_simp; ring1)
              | (norm_num; andes_trig; ring1)
              | (simp; done)
              | (simp; ring1)
              | (ring_nf; done)
              | (norm_num; ring_nf; done)))

end Andes.Expr
