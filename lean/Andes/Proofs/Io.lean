import Andes.Model.Io
import Mathlib.Tactic.Linarith
import Mathlib.Data.List.Basic
import Mathlib.Data.List.Pairwise

/-! Lemmas about the case-data model (`Andes/Model/Io.lean`). -/
namespace Andes.Io

section
variable {α : Type} [Scal α] [ScalLaws α]

theorem ofInt_lt_zero (z : Int) : (Scal.ofInt z : α) < zero ↔ z < 0 := ScalLaws.ofInt_lt z 0
theorem zero_lt_ofInt (z : Int) : (zero : α) < Scal.ofInt z ↔ 0 < z := ScalLaws.ofInt_lt 0 z

/-- a stored float that none of the corrections of its parameter would touch -/
def GoodF (p : NumSpec α) (x : α) : Prop :=
  (p.nonZero = true → x < zero ∨ (zero : α) < x) ∧ (p.nonPos = true → ¬ (zero : α) < x) ∧
  (p.nonNeg = true → ¬ x < (zero : α))

theorem sanitize_good (p : NumSpec α) (x : α) (h : GoodF p x) : sanitize p (.flt x) = .ok (.flt x) := by
  obtain ⟨h1, h2, h3⟩ := h
  have e1 : fixZero p (.flt x) = .flt x := by
    unfold fixZero Val.isZero
    by_cases hz : p.nonZero = true
    · have := h1 hz
      simp [hz]; grind
    · simp [hz]
  have e2 : fixPos p (.flt x) = .ok (.flt x) := by
    unfold fixPos Val.isPos
    by_cases hz : p.nonPos = true
    · have := h2 hz
      simp [hz, this]
    · simp [hz]
  have e3 : fixNeg p (.flt x) = .ok (.flt x) := by
    unfold fixNeg Val.isNeg
    by_cases hz : p.nonNeg = true
    · have := h3 hz
      simp [hz, this]
    · simp [hz]
  simp [sanitize, numAdd, nanToNone, fillDefault, corrections, Val.isFloat, e1, e2, e3, toArr, bind, Except.bind]

theorem goodF_ofInt (p : NumSpec α) (z : Int)
    (h : (p.nonZero = true → z ≠ 0) ∧ (p.nonPos = true → z ≤ 0) ∧ (p.nonNeg = true → 0 ≤ z)) :
    GoodF p (Scal.ofInt z : α) := by
  obtain ⟨h1, h2, h3⟩ := h
  refine ⟨fun hz => ?_, fun hz => ?_, fun hz => ?_⟩
  · rw [ofInt_lt_zero, zero_lt_ofInt]; have := h1 hz; omega
  · rw [zero_lt_ofInt]; have := h2 hz; omega
  · rw [ofInt_lt_zero]; have := h3 hz; omega

theorem goodF_big (p : NumSpec α) (h : p.nonPos = false) : GoodF p (big : α) := by
  refine ⟨fun _ => Or.inr ?_, fun hz => by simp [h] at hz, fun _ => ?_⟩
  · show (zero : α) < Scal.ofInt 100000000; rw [zero_lt_ofInt]; omega
  · show ¬ (Scal.ofInt 100000000 : α) < zero; rw [ofInt_lt_zero]; omega

theorem goodF_nbig (p : NumSpec α) (h : p.nonNeg = false) : GoodF p (nbig : α) := by
  refine ⟨fun _ => Or.inl ?_, fun _ => ?_, fun hz => by simp [h] at hz⟩
  · show (Scal.ofInt (-100000000) : α) < zero; rw [ofInt_lt_zero]; omega
  · show ¬ (zero : α) < Scal.ofInt (-100000000); rw [zero_lt_ofInt]; omega

/-- what `sanitize` can return -/
inductive Stored (p : NumSpec α) : Val α → Prop where
  | good (x : α) (h : GoodF p x) : Stored p (.flt x)
  | nan (hd : p.default = .none ∨ p.default = .nan) (hm : p.mandatory = false) : Stored p .nan

theorem sanitize_stored_eq (p : NumSpec α) (w : Val α) (h : Stored p w) : sanitize p w = .ok w := by
  cases h with
  | good x h => exact sanitize_good p x h
  | nan hd hm =>
    rcases hd with hd | hd <;>
      simp [sanitize, numAdd, nanToNone, fillDefault, hd, hm, corrections, Val.isFloat, toArr, bind, Except.bind,
        fixZero, Val.isZero, fixPos, Val.isPos, fixNeg, Val.isNeg]

/-- the stored image of the default -/
theorem default_stored (p : NumSpec α) (hok : defaultOkB p = true) (hm : (p.default = .none ∨ p.default = .nan) → p.mandatory = false) (w : Val α)
    (h : toArr p.default = .ok w) : Stored p w := by
  unfold defaultOkB at hok
  cases hd : p.default with
  | none => simp [hd, toArr] at h; subst h; exact .nan (Or.inl hd) (hm (Or.inl hd))
  | nan => simp [hd, toArr] at h; subst h; exact .nan (Or.inr hd) (hm (Or.inr hd))
  | pinf => simp [hd] at hok
  | ninf => simp [hd] at hok
  | str s => simp [hd, toArr] at h
  | int z =>
    simp [hd, toArr] at h hok; subst h
    exact .good _ (goodF_ofInt p z ⟨by grind, by grind, by grind⟩)
  | flt x =>
    simp [hd, toArr] at h hok; subst h
    exact .good _ ⟨by grind, by grind, by grind⟩

omit [ScalLaws α] in
theorem fixPos_cases (p : NumSpec α) (v u : Val α) (h : fixPos p v = .ok u) :
    (u = p.default ∧ v.isPos = some true ∧ p.nonPos = true) ∨ (u = v ∧ ∃ b, v.isPos = some b ∧ (b && p.nonPos) = false) := by
  unfold fixPos at h
  split at h
  · simp at h
  · rename_i b hb
    by_cases hc : (b && p.nonPos) = true
    · simp [hc] at h; subst h; simp at hc; left; simp [hc, hb]
    · simp [hc] at h; subst h; right; refine ⟨rfl, b, hb, by simpa using hc⟩

omit [ScalLaws α] in
theorem fixNeg_cases (p : NumSpec α) (v u : Val α) (h : fixNeg p v = .ok u) :
    (u = p.default ∧ v.isNeg = some true ∧ p.nonNeg = true) ∨ (u = v ∧ ∃ b, v.isNeg = some b ∧ (b && p.nonNeg) = false) := by
  unfold fixNeg at h
  split at h
  · simp at h
  · rename_i b hb
    by_cases hc : (b && p.nonNeg) = true
    · simp [hc] at h; subst h; simp at hc; left; simp [hc, hb]
    · simp [hc] at h; subst h; right; refine ⟨rfl, b, hb, by simpa using hc⟩

omit [ScalLaws α] in
theorem corrections_flt (p : NumSpec α) (x : α) (u : Val α) (h : corrections p (.flt x) = .ok u) :
    (u = p.default ∧ (p.nonZero = true ∨ p.nonPos = true ∨ p.nonNeg = true)) ∨ (u = .flt x ∧ GoodF p x) := by
  simp only [corrections, Val.isFloat, if_true, bind, Except.bind] at h
  split at h
  · simp at h
  · rename_i v2 h2
    rcases fixNeg_cases p v2 u h with ⟨hu, -, hf⟩ | ⟨hu, b3, hb3, hc3⟩
    · exact Or.inl ⟨hu, by simp [hf]⟩
    · subst hu
      by_cases hz : ((Val.flt x : Val α).isZero && p.nonZero) = true
      · have hfz : fixZero p (.flt x) = p.default := by simp [fixZero, hz]
        rw [hfz] at h2
        have hnz : p.nonZero = true := by simp at hz; exact hz.2
        rcases fixPos_cases p _ u h2 with ⟨hu, -, -⟩ | ⟨hu, -, -, -⟩
        · exact Or.inl ⟨hu, by simp [hnz]⟩
        · exact Or.inl ⟨hu, by simp [hnz]⟩
      · have hfz : fixZero p (.flt x) = .flt x := by simp [fixZero, hz]
        rw [hfz] at h2
        rcases fixPos_cases p _ u h2 with ⟨hu, -, hf⟩ | ⟨hu, b2, hb2, hc2⟩
        · exact Or.inl ⟨hu, by simp [hf]⟩
        · right
          subst hu
          refine ⟨rfl, ?_, ?_, ?_⟩
          · intro hnz; simp [Val.isZero, hnz] at hz; grind
          · intro hnp; simp [Val.isPos] at hb2; simp [hnp] at hc2; subst hc2; simpa using hb2
          · intro hnn; simp [Val.isNeg] at hb3; simp [hnn] at hc3; subst hc3; simpa using hb3

omit [ScalLaws α] in
theorem corrections_pinf (p : NumSpec α) (u : Val α) (h : corrections p (.pinf) = .ok u) :
    (u = p.default ∧ p.nonPos = true) ∨ (u = .pinf ∧ p.nonPos = false) := by
  simp only [corrections, Val.isFloat, if_true, bind, Except.bind, fixZero, Val.isZero, Bool.false_and] at h
  cases hp : p.nonPos
  · simp [fixPos, Val.isPos, hp, fixNeg, Val.isNeg] at h; exact Or.inr ⟨h.symm, rfl⟩
  · simp [fixPos, Val.isPos, hp] at h
    rcases fixNeg_cases p _ u h with ⟨hu, -, -⟩ | ⟨hu, -, -, -⟩ <;> exact Or.inl ⟨hu, rfl⟩

omit [ScalLaws α] in
theorem corrections_ninf (p : NumSpec α) (u : Val α) (h : corrections p (.ninf) = .ok u) :
    (u = p.default ∧ p.nonNeg = true) ∨ (u = .ninf ∧ p.nonNeg = false) := by
  simp only [corrections, Val.isFloat, if_true, bind, Except.bind, fixZero, Val.isZero, Bool.false_and] at h
  simp [fixPos, Val.isPos] at h
  rcases fixNeg_cases p _ u h with ⟨hu, -, hf⟩ | ⟨hu, b, hb, hc⟩
  · exact Or.inl ⟨hu, hf⟩
  · simp [Val.isNeg] at hb; subst hb; simp at hc; exact Or.inr ⟨hu, hc⟩

theorem defaultOk_none_noflags (p : NumSpec α) (hok : defaultOkB p = true) (hd : p.default = .none ∨ p.default = .nan) :
    p.nonZero = false ∧ p.nonPos = false ∧ p.nonNeg = false := by
  unfold defaultOkB at hok; rcases hd with hd | hd <;> simp [hd] at hok <;> exact ⟨hok.1.1, hok.1.2, hok.2⟩

/-- every value `sanitize` returns is a stored value of its parameter (no int input out of range) -/
theorem sanitize_stored (p : NumSpec α) (v w : Val α) (hok : defaultOkB p = true)
    (hv : intViolates p v = false) (h : sanitize p v = .ok w) : Stored p w := by
  simp only [sanitize, bind, Except.bind] at h
  split at h
  · simp at h
  rename_i u hu
  -- the default branch
  have hdef : ∀ (hm : (p.default = .none ∨ p.default = .nan) → p.mandatory = false), u = p.default → Stored p w :=
    fun hm e => default_stored p hok hm w (e ▸ h)
  have hflag : (p.nonZero = true ∨ p.nonPos = true ∨ p.nonNeg = true) → (p.default = .none ∨ p.default = .nan) → p.mandatory = false := by
    intro hf hd
    have := defaultOk_none_noflags p hok hd
    simp [this] at hf
  simp only [numAdd, bind, Except.bind] at hu
  split at hu
  · simp at hu
  rename_i v1 hv1
  split at hu
  · simp at hu
  rename_i v2 hc
  rename' hu => hu2
  have hcd : ∀ u', corrections p p.default = .ok u' → u' = p.default := by
    intro u' hc
    cases hd : p.default with
    | flt x => rw [hd] at hc; rcases corrections_flt p x u' hc with ⟨e, -⟩ | ⟨e, -⟩ <;> simp [e, hd]
    | pinf => unfold defaultOkB at hok; simp [hd] at hok
    | ninf => unfold defaultOkB at hok; simp [hd] at hok
    | nan =>
      rw [hd] at hc
      simp [corrections, Val.isFloat, fixZero, Val.isZero, fixPos, Val.isPos, fixNeg, Val.isNeg, bind, Except.bind] at hc
      exact hc.symm
    | none => rw [hd] at hc; simp [corrections, Val.isFloat] at hc; exact hc.symm
    | int z => rw [hd] at hc; simp [corrections, Val.isFloat] at hc; exact hc.symm
    | str z => rw [hd] at hc; simp [corrections, Val.isFloat] at hc; exact hc.symm
  -- the second `_sanitize` pass changes nothing: a `None`/NaN reaching it is the default itself
  have hsecond : ((v2 = .none ∨ v2 = .nan) → v2 = p.default) → u = v2 := by
    intro hv2
    cases v2 with
    | none =>
      have e := hv2 (Or.inl rfl)
      simp only [nanToNone, fillDefault] at hu2
      by_cases hm : p.mandatory = true
      · simp [hm] at hu2
      · simp [hm] at hu2; rw [← hu2, ← e]
    | nan =>
      have e := hv2 (Or.inr rfl)
      simp only [nanToNone, fillDefault] at hu2
      by_cases hm : p.mandatory = true
      · simp [hm] at hu2
      · simp [hm] at hu2; rw [← hu2, ← e]
    | _ => simp [nanToNone, fillDefault] at hu2; exact hu2.symm
  have hv2 : (v2 = .none ∨ v2 = .nan) → v2 = p.default := by
    intro hnn
    cases v with
    | none =>
      simp only [nanToNone, fillDefault] at hv1
      by_cases hm : p.mandatory = true
      · simp [hm] at hv1
      · simp [hm] at hv1; subst hv1; exact hcd v2 hc
    | nan =>
      simp only [nanToNone, fillDefault] at hv1
      by_cases hm : p.mandatory = true
      · simp [hm] at hv1
      · simp [hm] at hv1; subst hv1; exact hcd v2 hc
    | str s => simp [nanToNone, fillDefault] at hv1; subst hv1; simp [corrections, Val.isFloat] at hc; subst hc; simp at hnn
    | int z => simp [nanToNone, fillDefault] at hv1; subst hv1; simp [corrections, Val.isFloat] at hc; subst hc; simp at hnn
    | flt x =>
      simp [nanToNone, fillDefault] at hv1; subst hv1
      rcases corrections_flt p x v2 hc with ⟨e, -⟩ | ⟨e, -⟩
      · exact e
      · subst e; simp at hnn
    | pinf =>
      simp [nanToNone, fillDefault] at hv1; subst hv1
      rcases corrections_pinf p v2 hc with ⟨e, -⟩ | ⟨e, -⟩
      · exact e
      · subst e; simp at hnn
    | ninf =>
      simp [nanToNone, fillDefault] at hv1; subst hv1
      rcases corrections_ninf p v2 hc with ⟨e, -⟩ | ⟨e, -⟩
      · exact e
      · subst e; simp at hnn
  have hu : corrections p v1 = .ok u := by rw [hsecond hv2]; exact hc
  have hmiss : nanToNone v = .none → Stored p w := by
    intro e
    rw [e] at hv1
    simp only [fillDefault] at hv1
    by_cases hm : p.mandatory = true
    · simp [hm] at hv1
    · simp [hm] at hv1; subst hv1
      exact hdef (fun _ => by simpa using hm) (hcd u hu)
  cases v with
  | none => exact hmiss rfl
  | nan => exact hmiss rfl
  | str s =>
    simp [nanToNone, fillDefault] at hv1; subst hv1
    simp [corrections, Val.isFloat] at hu; subst hu; simp [toArr] at h
  | int z =>
    simp [nanToNone, fillDefault] at hv1; subst hv1
    simp [corrections, Val.isFloat] at hu; subst hu; simp [toArr] at h; subst h
    simp [intViolates] at hv
    exact .good _ (goodF_ofInt p z ⟨by grind, by grind, by grind⟩)
  | flt x =>
    simp [nanToNone, fillDefault] at hv1; subst hv1
    rcases corrections_flt p x u hu with ⟨e, hf⟩ | ⟨e, hg⟩
    · exact hdef (hflag hf) e
    · subst e; simp [toArr] at h; subst h; exact .good x hg
  | pinf =>
    simp [nanToNone, fillDefault] at hv1; subst hv1
    rcases corrections_pinf p u hu with ⟨e, hf⟩ | ⟨e, hg⟩
    · exact hdef (hflag (by simp [hf])) e
    · subst e; simp [toArr] at h; subst h; exact .good _ (goodF_big p hg)
  | ninf =>
    simp [nanToNone, fillDefault] at hv1; subst hv1
    rcases corrections_ninf p u hu with ⟨e, hf⟩ | ⟨e, hg⟩
    · exact hdef (hflag (by simp [hf])) e
    · subst e; simp [toArr] at h; subst h; exact .good _ (goodF_nbig p hg)

/-- per-cell hypothesis of the round trip: no int out of range for a numeric parameter -/
def cellOk : PSpec α → Val α → Bool
  | .num s, v => !intViolates s v
  | _, _ => true

def rowOk : List (PSpec α) → List (Val α) → Bool
  | [], _ => true
  | p :: ps, vs => cellOk p (vs.head?.getD .none) && rowOk ps vs.tail

def specOk : PSpec α → Bool
  | .num s => defaultOkB s
  | _ => true

omit [ScalLaws α] in
theorem dataAdd_fix (d : Val α) (m : Bool) (v w : Val α) (xlsx : Bool) (h : dataAdd d m v = .ok w) :
    dataAdd d m (fileCell xlsx w) = .ok w := by
  unfold dataAdd at h ⊢
  cases m <;> cases v <;> simp [nanToNone, fillDefault] at h <;> subst h <;>
    first
      | (cases xlsx <;> simp [fileCell, nanToNone, fillDefault]; done)
      | (cases d <;> cases xlsx <;> simp [fileCell, nanToNone, fillDefault])

theorem cellAdd_fix (idx : Key) (p : PSpec α) (v w : Val α) (xlsx : Bool) (hs : specOk p = true)
    (hv : cellOk p v = true) (h : cellAdd idx p v = .ok w) : cellAdd idx p (fileCell xlsx w) = .ok w := by
  cases p with
  | num s =>
    simp only [cellAdd] at h ⊢
    have hst := sanitize_stored s v w hs (by simpa [cellOk] using hv) h
    have : fileCell xlsx w = w := by cases hst <;> simp [fileCell]
    rw [this]; exact sanitize_stored_eq s w hst
  | data d m => exact dataAdd_fix d m v w xlsx h
  | name =>
    simp only [cellAdd] at h ⊢
    cases v <;> cases idx <;> simp [nameFix, Key.toVal, dataAdd, nanToNone, fillDefault] at h <;> subst h <;>
      cases xlsx <;> simp [fileCell, nameFix, Key.toVal, dataAdd, nanToNone, fillDefault]

theorem addCells_fix (idx : Key) (xlsx : Bool) : ∀ (ps : List (PSpec α)) (vs ws : List (Val α)),
    (∀ p ∈ ps, specOk p = true) → rowOk ps vs = true → addCells idx ps vs = .ok ws →
    addCells idx ps (ws.map (fileCell xlsx)) = .ok ws
  | [], vs, ws, _, _, h => by simp [addCells] at h ⊢; exact h
  | p :: ps, vs, ws, hs, hr, h => by
    simp only [addCells, bind, Except.bind] at h
    split at h
    · simp at h
    rename_i w hw
    split at h
    · simp at h
    rename_i ws' hws
    simp at h; subst h
    simp only [rowOk, Bool.and_eq_true] at hr
    have h1 := cellAdd_fix idx p _ w xlsx (hs p (by simp)) hr.1 hw
    have h2 := addCells_fix idx xlsx ps vs.tail ws' (fun q hq => hs q (by simp [hq])) hr.2 hws
    simp [addCells, h1, h2, bind, Except.bind]


theorem fresh_spec (model : String) (used : List Key) (count : Nat) :
    ∃ k, fresh model used count = .auto model k ∧ count < k ∧ Key.auto model k ∉ used := by
  fun_induction fresh model used count with
  | case1 used count h ih =>
    obtain ⟨k, hk, hlt, hnm⟩ := ih
    refine ⟨k, hk, by omega, ?_⟩
    intro hmem
    apply hnm
    have hne : Key.auto model k ≠ Key.auto model (count + 1) := by
      intro e; injection e with _ e2; omega
    exact (List.mem_erase_of_ne hne).mpr hmem
  | case2 used count h => exact ⟨count + 1, rfl, by omega, h⟩

theorem nextIdx_spec (used : List Key) (model : String) (idx : Key) :
    nextIdx used model idx ≠ .none ∧ nextIdx used model idx ∉ used := by
  unfold nextIdx
  split
  · rename_i h; exact h
  · obtain ⟨k, hk, -, hnm⟩ := fresh_spec model used used.length
    rw [hk]; exact ⟨by simp, hnm⟩

theorem nextIdx_keep (used : List Key) (model : String) (idx : Key) (h1 : idx ≠ .none) (h2 : idx ∉ used) :
    nextIdx used model idx = idx := by
  unfold nextIdx; simp [h1, h2]

variable (specs : String → Option (ModelSpec α))

/-- a device as `load` leaves it: known model, a real idx, cells that re-add to themselves through either file kind -/
def DevOk (d : Dev α) : Prop :=
  ∃ m, specs d.model = some m ∧ d.idx ≠ .none ∧
    ∀ xlsx, addCells d.idx m.params (d.cells.map (fileCell xlsx)) = .ok d.cells

/-- distinct idx inside a group -/
def Distinct (a b : Dev α) : Prop := grpOf specs a.model = grpOf specs b.model → a.idx ≠ b.idx

def Wf (s : List (Dev α)) : Prop := (∀ d ∈ s, DevOk specs d) ∧ s.Pairwise (Distinct specs)

omit [ScalLaws α] in
theorem not_mem_usedIn (s : List (Dev α)) (d : Dev α) (h : ∀ a ∈ s, Distinct specs a d) :
    d.idx ∉ usedIn specs s d.model := by
  intro hm
  simp only [usedIn, List.mem_map, List.mem_filter, beq_iff_eq] at hm
  obtain ⟨a, ⟨ha, hg⟩, hi⟩ := hm
  exact h a ha hg hi

omit [ScalLaws α] in
theorem sysAdd_exported (xlsx : Bool) (s : List (Dev α)) (d : Dev α) (hd : DevOk specs d)
    (h : ∀ a ∈ s, Distinct specs a d) : sysAdd specs s (exportDev xlsx d) = .ok (s ++ [d]) := by
  obtain ⟨m, hm, hne, hre⟩ := hd
  have hk := nextIdx_keep (usedIn specs s d.model) d.model d.idx hne (not_mem_usedIn specs s d h)
  simp [sysAdd, exportDev, hm, hk, hre xlsx, bind, Except.bind]

omit [ScalLaws α] in
/-- re-reading the exported rows of well-formed devices rebuilds exactly these devices -/
theorem loadFrom_exported (xlsx : Bool) : ∀ (l pre : List (Dev α)), Wf specs (pre ++ l) →
    loadFrom specs pre (l.map (exportDev xlsx)) = .ok (pre ++ l)
  | [], pre, _ => by simp [loadFrom]
  | d :: l, pre, hw => by
    have hd : DevOk specs d := hw.1 d (by simp)
    have hdis : ∀ a ∈ pre, Distinct specs a d := by
      intro a ha
      have := (List.pairwise_append.mp hw.2).2.2 a ha d (by simp)
      exact this
    have ih := loadFrom_exported xlsx l (pre ++ [d]) (by simpa using hw)
    simp [loadFrom, sysAdd_exported specs xlsx pre d hd hdis, bind, Except.bind]
    simpa using ih

/-- every parameter default is acceptable and the table has no int out of range -/
def SpecsOk : Prop := ∀ name m, specs name = some m → ∀ p ∈ m.params, specOk p = true

def TableOk (t : List (Row α)) : Prop := ∀ r ∈ t, ∀ m, specs r.model = some m → rowOk m.params r.cells = true

theorem sysAdd_wf (hs : SpecsOk specs) (s s' : List (Dev α)) (r : Row α)
    (hr : ∀ m, specs r.model = some m → rowOk m.params r.cells = true)
    (hw : Wf specs s) (h : sysAdd specs s r = .ok s') : Wf specs s' := by
  unfold sysAdd at h
  split at h
  · simp at h; subst h; exact hw
  rename_i m hm
  simp only [bind, Except.bind] at h
  split at h
  · simp at h
  rename_i cells hc
  simp at h; subst h
  obtain ⟨hn, hu⟩ := nextIdx_spec (usedIn specs s r.model) r.model r.idx
  have hdev : DevOk specs ⟨r.model, nextIdx (usedIn specs s r.model) r.model r.idx, cells⟩ :=
    ⟨m, hm, hn, fun xlsx => addCells_fix _ xlsx m.params r.cells cells (hs r.model m hm) (hr m hm) hc⟩
  refine ⟨?_, ?_⟩
  · intro d hd
    rcases List.mem_append.mp hd with hd | hd
    · exact hw.1 d hd
    · simp at hd; subst hd; exact hdev
  · refine List.pairwise_append.mpr ⟨hw.2, by simp, ?_⟩
    intro a ha b hb
    simp at hb; subst hb
    intro hg hi
    apply hu
    simp only [usedIn, List.mem_map, List.mem_filter, beq_iff_eq]
    exact ⟨a, ⟨ha, hg⟩, hi⟩

theorem loadFrom_wf (hs : SpecsOk specs) : ∀ (t : List (Row α)) (s s' : List (Dev α)), TableOk specs t →
    Wf specs s → loadFrom specs s t = .ok s' → Wf specs s'
  | [], s, s', _, hw, h => by simp [loadFrom] at h; subst h; exact hw
  | r :: t, s, s', ht, hw, h => by
    simp only [loadFrom, bind, Except.bind] at h
    split at h
    · simp at h
    rename_i s1 h1
    exact loadFrom_wf hs t s1 s' (fun r' hr' => ht r' (by simp [hr']))
      (sysAdd_wf specs hs s s1 r (ht r (by simp)) hw h1) h

omit [ScalLaws α] in
theorem distinct_symm (a b : Dev α) (h : Distinct specs a b) : Distinct specs b a :=
  fun hg hi => h hg.symm hi.symm

omit [ScalLaws α] in
theorem wf_reorder (order : List String) (hn : order.Nodup) (s : List (Dev α)) (hw : Wf specs s) :
    Wf specs (reorder order s) := by
  refine ⟨?_, ?_⟩
  · intro d hd
    simp only [reorder, List.mem_flatMap, List.mem_filter] at hd
    obtain ⟨_, _, hd, _⟩ := hd
    exact hw.1 d hd
  · unfold reorder
    rw [List.pairwise_flatMap]
    refine ⟨fun m _ => hw.2.sublist List.filter_sublist, ?_⟩
    refine List.Pairwise.imp_of_mem (fun {m1 m2} _ _ hne x hx y hy => ?_) hn
    simp only [List.mem_filter, beq_iff_eq] at hx hy
    have hxy : x ≠ y := by intro e; subst e; exact hne (hx.2.symm.trans hy.2)
    have : Std.Symm (Distinct specs) := ⟨fun a b h => distinct_symm specs a b h⟩
    exact hw.2.forall hx.1 hy.1 hxy


omit [ScalLaws α] in
theorem devsOf_reorder_not_mem (m : String) (s : List (Dev α)) : ∀ (order : List String), m ∉ order →
    devsOf m (reorder order s) = []
  | [], _ => by simp [reorder, devsOf]
  | a :: rest, h => by
    have ih := devsOf_reorder_not_mem m s rest (by simp at h; exact h.2)
    have ha : a ≠ m := by intro e; simp [e] at h
    simp only [reorder, devsOf, List.flatMap_cons, List.filter_append] at ih ⊢
    rw [ih, List.filter_filter]
    simp
    intro d _ h1 h2; exact ha (h2.symm.trans h1)

omit [ScalLaws α] in
theorem devsOf_reorder (m : String) (s : List (Dev α)) : ∀ (order : List String), order.Nodup → m ∈ order →
    devsOf m (reorder order s) = devsOf m s
  | [], _, h => by simp at h
  | a :: rest, hn, h => by
    have hn' := List.nodup_cons.mp hn
    by_cases ha : a = m
    · subst ha
      have := devsOf_reorder_not_mem a s rest hn'.1
      simp only [reorder, devsOf, List.flatMap_cons, List.filter_append] at this ⊢
      rw [this, List.filter_filter]; simp
    · have hm : m ∈ rest := by simpa [Ne.symm ha] using h
      have ih := devsOf_reorder m s rest hn'.2 hm
      simp only [reorder, devsOf, List.flatMap_cons, List.filter_append] at ih ⊢
      rw [ih, List.filter_filter]
      simp
      intro d _ h1 h2; exact ha (h2.symm.trans h1)

end
end Andes.Io
