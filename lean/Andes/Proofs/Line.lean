import Andes.Gen.PFlowEqs
import Mathlib.Analysis.SpecialFunctions.Trigonometric.Basic
import Mathlib.Tactic.Ring
import Mathlib.Tactic.FieldSimp
import Mathlib.Tactic.Linarith
import Mathlib.Tactic.NormNum.OfScientific

/-!
# The complex π-model of a branch and the generated `Line` equations (lemmas for C01)

`S12g`, `S21g`: complex power entering a branch at the from / to bus, ideal transformer
`m = tap·e^{jφ}` at the from side, series admittance `ghk + j bhk`, shunt `gs + j bs` at the respective side
(the from-side shunt sits behind the ideal transformer: the MATPOWER/PSAT convention ANDES documents).
Closed forms are proved over `ℂ` and then split into real and imaginary parts.
-/
namespace Andes.PFlow
open Complex

noncomputable instance : Trig ℝ := ⟨Real.sin, Real.cos⟩

theorem trig_sin (x : ℝ) : (Trig.sin x : ℝ) = Real.sin x := rfl
theorem trig_cos (x : ℝ) : (Trig.cos x : ℝ) = Real.cos x := rfl

/-- from-side complex power `V₁·conj(I₁)`, `I₁ = ((V₁/m − V₂)·y + (V₁/m)·y_s)/conj m` -/
noncomputable def S12g (v1 a1 v2 a2 ghk bhk gs bs tap phi : ℝ) : ℂ :=
  let V1 : ℂ := v1 * exp (a1 * I)
  let V2 : ℂ := v2 * exp (a2 * I)
  let m : ℂ := tap * exp (phi * I)
  let y : ℂ := ghk + bhk * I
  let ys : ℂ := gs + bs * I
  V1 * starRingEnd ℂ (((V1 / m - V2) * y + (V1 / m) * ys) / (starRingEnd ℂ m))

/-- to-side complex power `V₂·conj(I₂)`, `I₂ = (V₂ − V₁/m)·y + V₂·y_s` -/
noncomputable def S21g (v1 a1 v2 a2 ghk bhk gs bs tap phi : ℝ) : ℂ :=
  let V1 : ℂ := v1 * exp (a1 * I)
  let V2 : ℂ := v2 * exp (a2 * I)
  let m : ℂ := tap * exp (phi * I)
  let y : ℂ := ghk + bhk * I
  let ys : ℂ := gs + bs * I
  V2 * starRingEnd ℂ ((V2 - V1 / m) * y + V2 * ys)

theorem conj_expI (x : ℝ) : starRingEnd ℂ (exp (x * I)) = exp (-(x * I)) := by
  rw [← exp_conj]; simp

theorem S12g_closed (v1 a1 v2 a2 ghk bhk gs bs tap phi : ℝ) (ht : tap ≠ 0) :
    S12g v1 a1 v2 a2 ghk bhk gs bs tap phi =
      (v1 ^ 2 / tap ^ 2 : ℝ) * ((ghk + gs : ℝ) - (bhk + bs : ℝ) * I)
        - (v1 * v2 / tap : ℝ) * ((ghk : ℂ) - bhk * I) * exp ((a1 - a2 - phi : ℝ) * I) := by
  have hm : (tap : ℂ) ≠ 0 := by exact_mod_cast ht
  have e1 := exp_ne_zero ((a1 : ℂ) * I)
  have e2 := exp_ne_zero ((a2 : ℂ) * I)
  have e3 := exp_ne_zero ((phi : ℂ) * I)
  have hsplit : exp (((a1 - a2 - phi : ℝ) : ℂ) * I)
      = exp (a1 * I) * (exp (a2 * I))⁻¹ * (exp (phi * I))⁻¹ := by
    rw [← exp_neg, ← exp_neg, ← exp_add, ← exp_add]; congr 1; push_cast; ring
  unfold S12g
  simp only [map_div₀, map_mul, map_add, map_sub, map_inv₀, conj_ofReal, conj_I, conj_expI, exp_neg, inv_inv]
  rw [hsplit]
  push_cast
  field_simp
  ring

theorem S21g_closed (v1 a1 v2 a2 ghk bhk gs bs tap phi : ℝ) (ht : tap ≠ 0) :
    S21g v1 a1 v2 a2 ghk bhk gs bs tap phi =
      (v2 ^ 2 : ℝ) * ((ghk + gs : ℝ) - (bhk + bs : ℝ) * I)
        - (v1 * v2 / tap : ℝ) * ((ghk : ℂ) - bhk * I) * exp ((-(a1 - a2 - phi) : ℝ) * I) := by
  have hm : (tap : ℂ) ≠ 0 := by exact_mod_cast ht
  have e1 := exp_ne_zero ((a1 : ℂ) * I)
  have e2 := exp_ne_zero ((a2 : ℂ) * I)
  have e3 := exp_ne_zero ((phi : ℂ) * I)
  have hsplit : exp (((-(a1 - a2 - phi) : ℝ) : ℂ) * I)
      = (exp (a1 * I))⁻¹ * exp (a2 * I) * exp (phi * I) := by
    rw [← exp_neg, ← exp_add, ← exp_add]; congr 1; push_cast; ring
  unfold S21g
  simp only [map_div₀, map_mul, map_add, map_sub, map_inv₀, conj_ofReal, conj_I, conj_expI, exp_neg, inv_inv]
  rw [hsplit]
  push_cast
  field_simp
  ring

theorem P12g (v1 a1 v2 a2 ghk bhk gs bs tap phi : ℝ) (ht : tap ≠ 0) :
    (S12g v1 a1 v2 a2 ghk bhk gs bs tap phi).re =
      v1 ^ 2 * (gs + ghk) * (1 / tap / tap) -
        v1 * v2 * (ghk * Real.cos (a1 - a2 - phi) + bhk * Real.sin (a1 - a2 - phi)) * (1 / tap) := by
  rw [S12g_closed _ _ _ _ _ _ _ _ _ _ ht]
  simp only [sub_re, mul_re, ofReal_re, ofReal_im, exp_ofReal_mul_I_re, exp_ofReal_mul_I_im,
    I_re, I_im, mul_im, sub_im, zero_mul, mul_zero, sub_zero, mul_one, zero_sub, add_zero]
  field_simp
  ring

theorem Q12g (v1 a1 v2 a2 ghk bhk gs bs tap phi : ℝ) (ht : tap ≠ 0) :
    (S12g v1 a1 v2 a2 ghk bhk gs bs tap phi).im =
      -v1 ^ 2 * (bs + bhk) * (1 / tap / tap) -
        v1 * v2 * (ghk * Real.sin (a1 - a2 - phi) - bhk * Real.cos (a1 - a2 - phi)) * (1 / tap) := by
  rw [S12g_closed _ _ _ _ _ _ _ _ _ _ ht]
  simp only [sub_re, mul_re, ofReal_re, ofReal_im, exp_ofReal_mul_I_re, exp_ofReal_mul_I_im,
    I_re, I_im, mul_im, sub_im, zero_mul, mul_zero, sub_zero, mul_one, zero_sub, add_zero]
  field_simp
  ring

theorem P21g (v1 a1 v2 a2 ghk bhk gs bs tap phi : ℝ) (ht : tap ≠ 0) :
    (S21g v1 a1 v2 a2 ghk bhk gs bs tap phi).re =
      v2 ^ 2 * (gs + ghk) -
        v1 * v2 * (ghk * Real.cos (a1 - a2 - phi) - bhk * Real.sin (a1 - a2 - phi)) * (1 / tap) := by
  rw [S21g_closed _ _ _ _ _ _ _ _ _ _ ht]
  simp only [sub_re, mul_re, ofReal_re, ofReal_im, exp_ofReal_mul_I_re, exp_ofReal_mul_I_im,
    I_re, I_im, mul_im, sub_im, zero_mul, mul_zero, sub_zero, mul_one, zero_sub, add_zero,
    Real.cos_neg, Real.sin_neg]
  field_simp
  ring

theorem Q21g (v1 a1 v2 a2 ghk bhk gs bs tap phi : ℝ) (ht : tap ≠ 0) :
    (S21g v1 a1 v2 a2 ghk bhk gs bs tap phi).im =
      -v2 ^ 2 * (bs + bhk) +
        v1 * v2 * (ghk * Real.sin (a1 - a2 - phi) + bhk * Real.cos (a1 - a2 - phi)) * (1 / tap) := by
  rw [S21g_closed _ _ _ _ _ _ _ _ _ _ ht]
  simp only [sub_re, mul_re, ofReal_re, ofReal_im, exp_ofReal_mul_I_re, exp_ofReal_mul_I_im,
    I_re, I_im, mul_im, sub_im, zero_mul, mul_zero, sub_zero, mul_one, zero_sub, add_zero,
    Real.cos_neg, Real.sin_neg]
  field_simp
  ring


/-! ### the π-model of one `Line` device from its input data -/
open Andes.Gen.PFlowEqs

noncomputable def phasor (v a : ℝ) : ℂ := v * exp (a * I)
noncomputable def Sfrom (V1 V2 m y ys : ℂ) : ℂ := V1 * starRingEnd ℂ (((V1 / m - V2) * y + (V1 / m) * ys) / (starRingEnd ℂ m))
noncomputable def Sto (V1 V2 m y ys : ℂ) : ℂ := V2 * starRingEnd ℂ ((V2 - V1 / m) * y + V2 * ys)
noncomputable def yser (d : LineP ℝ) : ℂ := (d.u : ℂ) / (((d.r + 1e-8 : ℝ) : ℂ) + ((d.x + 1e-8 : ℝ) : ℂ) * I)
noncomputable def yh (d : LineP ℝ) : ℂ := (d.u : ℂ) * (((d.g1 + d.g / 2 : ℝ) : ℂ) + ((d.b1 + d.b / 2 : ℝ) : ℂ) * I)
noncomputable def yk (d : LineP ℝ) : ℂ := (d.u : ℂ) * (((d.g2 + d.g / 2 : ℝ) : ℂ) + ((d.b2 + d.b / 2 : ℝ) : ℂ) * I)

theorem yhk_is_quotient (d : LineP ℝ) :
    ((Line_ghk d : ℝ) : ℂ) + ((Line_bhk d : ℝ) : ℂ) * I = yser d := by
  unfold yser Line_ghk Line_bhk Line_yhk_re Line_yhk_im
  generalize d.r + 1e-8 = c
  generalize d.x + 1e-8 = e
  by_cases h : c * c + e * e = 0
  · have hc : c = 0 := by nlinarith [mul_self_nonneg c, mul_self_nonneg e]
    have he : e = 0 := by nlinarith [mul_self_nonneg c, mul_self_nonneg e]
    subst hc; subst he; simp
  · have hne : ((c : ℂ) + (e : ℂ) * I) ≠ 0 := by
      intro h0
      have h1 := congrArg Complex.re h0
      have h2 := congrArg Complex.im h0
      simp at h1 h2
      apply h; rw [h1, h2]; ring
    rw [eq_div_iff hne]
    have h' : c ^ 2 + e ^ 2 ≠ 0 := by rw [pow_two, pow_two]; exact h
    apply Complex.ext
    · simp only [mul_re, add_re, add_im, mul_im, ofReal_re, ofReal_im, I_re, I_im]
      field_simp; ring
    · simp only [mul_re, add_re, add_im, mul_im, ofReal_re, ofReal_im, I_re, I_im]
      field_simp; ring

theorem Sfrom_eq (v1 a1 v2 a2 ghk bhk gs bs tap phi : ℝ) :
    Sfrom (phasor v1 a1) (phasor v2 a2) (phasor tap phi) ((ghk : ℂ) + bhk * I) ((gs : ℂ) + bs * I)
      = S12g v1 a1 v2 a2 ghk bhk gs bs tap phi := rfl
theorem Sto_eq (v1 a1 v2 a2 ghk bhk gs bs tap phi : ℝ) :
    Sto (phasor v1 a1) (phasor v2 a2) (phasor tap phi) ((ghk : ℂ) + bhk * I) ((gs : ℂ) + bs * I)
      = S21g v1 a1 v2 a2 ghk bhk gs bs tap phi := rfl

theorem yh_eq (d : LineP ℝ) : yh d = ((d.u * Line_gh d : ℝ) : ℂ) + ((d.u * Line_bh d : ℝ) : ℂ) * I := by
  unfold yh Line_gh Line_bh; push_cast; norm_num; ring

theorem yk_eq (d : LineP ℝ) : yk d = ((d.u * Line_gk d : ℝ) : ℂ) + ((d.u * Line_bk d : ℝ) : ℂ) * I := by
  unfold yk Line_gk Line_bk; push_cast; norm_num; ring


theorem one_lit : (1.0 : ℝ) = 1 := by norm_num

theorem u_ghk (d : LineP ℝ) (hu : d.u = 0 ∨ d.u = 1) : d.u * Line_ghk d = Line_ghk d := by
  unfold Line_ghk Line_yhk_re; rcases hu with h | h <;> rw [h] <;> simp
theorem u_bhk (d : LineP ℝ) (hu : d.u = 0 ∨ d.u = 1) : d.u * Line_bhk d = Line_bhk d := by
  unfold Line_bhk Line_yhk_im; rcases hu with h | h <;> rw [h] <;> simp


theorem yk_eq_yh (d : LineP ℝ) (hg : d.g1 = d.g2) (hb : d.b1 = d.b2) : yk d = yh d := by
  unfold yk yh; rw [hg, hb]

/-- replacing the shunt at the to side changes the to-side power by `|V₂|²·conj(Δy)` -/
theorem Sto_shunt_diff (V1 V2 m y ys ys' : ℂ) :
    Sto V1 V2 m y ys - Sto V1 V2 m y ys' = V2 * starRingEnd ℂ V2 * starRingEnd ℂ (ys - ys') := by
  unfold Sto; simp only [map_add, map_sub, map_mul]; ring

theorem phasor_mul_conj (v a : ℝ) : phasor v a * starRingEnd ℂ (phasor v a) = ((v ^ 2 : ℝ) : ℂ) := by
  unfold phasor
  rw [map_mul, conj_ofReal, conj_expI, exp_neg]
  have := exp_ne_zero ((a : ℂ) * I)
  push_cast; field_simp

theorem re_sum_map {β : Type} (l : List β) (F : β → ℂ) : ((l.map F).sum).re = (l.map (fun e => (F e).re)).sum := by
  induction l with
  | nil => simp
  | cons a l ih => simp [ih]
theorem im_sum_map {β : Type} (l : List β) (F : β → ℂ) : ((l.map F).sum).im = (l.map (fun e => (F e).im)).sum := by
  induction l with
  | nil => simp
  | cons a l ih => simp [ih]

end Andes.PFlow
