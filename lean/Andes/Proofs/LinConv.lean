import Mathlib.Analysis.SpecialFunctions.Exponential
import Mathlib.Analysis.SpecialFunctions.Exp
import Mathlib.Tactic.Ring
import Mathlib.Tactic.Linarith
import Mathlib.Tactic.FieldSimp
import Mathlib.Tactic.NormNum
import Mathlib.Tactic.Positivity

/-!
# Global convergence of the two implicit rules on the linear test problem (any grid)

`x' = lam * x`, `lam ≤ 0`, a grid of step sizes `hs` (any length, any positive sizes with
`h * |lam| ≤ 1`): the numerical amplification is the product of the one-step factors
`trapR (h * lam)` (trapezoidal) resp. `beR (h * lam)` (backward Euler), the exact one is
`exp (lam * hs.sum)`.  The error of the product is bounded by the SUM of the one-step errors
(all factors have modulus `≤ 1`), which gives the global orders 2 and 1.
-/
namespace Andes.LinConv

open Real

/-- one-step amplification factor of the trapezoidal rule -/
noncomputable def trapR (z : ℝ) : ℝ := (1 + z / 2) / (1 - z / 2)
/-- one-step amplification factor of backward Euler -/
noncomputable def beR (z : ℝ) : ℝ := 1 / (1 - z)

theorem exp_taylor3 (z : ℝ) (hz : |z| ≤ 1) : |exp z - (1 + z + z ^ 2 / 2)| ≤ |z| ^ 3 * (2 / 9) := by
  have h := Real.exp_bound hz (n := 3) (by norm_num)
  have e : (∑ m ∈ Finset.range 3, z ^ m / (m.factorial : ℝ)) = 1 + z + z ^ 2 / 2 := by
    simp [Finset.sum_range_succ, Nat.factorial]; try ring
  rw [e] at h
  have c : ((Nat.succ 3 : ℕ) : ℝ) / ((Nat.factorial 3 : ℕ) * (3 : ℕ)) = 2 / 9 := by
    norm_num [Nat.factorial]
  calc |exp z - (1 + z + z ^ 2 / 2)| ≤ |z| ^ 3 * (((Nat.succ 3 : ℕ) : ℝ) / ((Nat.factorial 3 : ℕ) * (3 : ℕ))) := h
    _ = |z| ^ 3 * (2 / 9) := by rw [c]

theorem exp_taylor2 (z : ℝ) (hz : |z| ≤ 1) : |exp z - (1 + z)| ≤ |z| ^ 2 * (3 / 4) := by
  have h := Real.exp_bound hz (n := 2) (by norm_num)
  have e : (∑ m ∈ Finset.range 2, z ^ m / (m.factorial : ℝ)) = 1 + z := by
    simp [Finset.sum_range_succ, Nat.factorial]
  rw [e] at h
  have c : ((Nat.succ 2 : ℕ) : ℝ) / ((Nat.factorial 2 : ℕ) * (2 : ℕ)) = 3 / 4 := by
    norm_num [Nat.factorial]
  calc |exp z - (1 + z)| ≤ |z| ^ 2 * (((Nat.succ 2 : ℕ) : ℝ) / ((Nat.factorial 2 : ℕ) * (2 : ℕ))) := h
    _ = |z| ^ 2 * (3 / 4) := by rw [c]

/-- the trapezoidal factor differs from the second-order Taylor polynomial by `z³ / (4 (1 - z/2))` -/
theorem trapR_sub_taylor (z : ℝ) (hz : 1 - z / 2 ≠ 0) :
    trapR z - (1 + z + z ^ 2 / 2) = z ^ 3 / (4 * (1 - z / 2)) := by
  have h2 : (2 : ℝ) - z ≠ 0 := by intro h; apply hz; linarith
  unfold trapR; field_simp; ring

/-- **local error of the trapezoidal rule**, order 3, on the stable side -/
theorem trapR_local (z : ℝ) (h0 : z ≤ 0) (h1 : -1 ≤ z) : |trapR z - exp z| ≤ |z| ^ 3 / 2 := by
  have hz : |z| ≤ 1 := abs_le.mpr ⟨h1, by linarith⟩
  have hd : (1 : ℝ) ≤ 1 - z / 2 := by linarith
  have hd0 : 1 - z / 2 ≠ 0 := by linarith
  have a : |trapR z - (1 + z + z ^ 2 / 2)| ≤ |z| ^ 3 / 4 := by
    rw [trapR_sub_taylor z hd0, abs_div, abs_pow]
    have hpos : (0 : ℝ) < 4 * (1 - z / 2) := by linarith
    rw [abs_of_pos hpos]
    have hz3 : (0 : ℝ) ≤ |z| ^ 3 := by positivity
    rw [div_le_div_iff₀ hpos (by norm_num : (0 : ℝ) < 4)]
    nlinarith
  have b := exp_taylor3 z hz
  have t : |trapR z - exp z| ≤ |trapR z - (1 + z + z ^ 2 / 2)| + |exp z - (1 + z + z ^ 2 / 2)| := by
    have := abs_sub_le (trapR z) (1 + z + z ^ 2 / 2) (exp z)
    rwa [abs_sub_comm (1 + z + z ^ 2 / 2) (exp z)] at this
  have hz3 : (0 : ℝ) ≤ |z| ^ 3 := by positivity
  linarith

/-- `1/(1-z) - (1+z) = z²/(1-z)` -/
theorem beR_sub_taylor (z : ℝ) (hz : 1 - z ≠ 0) : beR z - (1 + z) = z ^ 2 / (1 - z) := by
  unfold beR; field_simp; ring

/-- **local error of backward Euler**, order 2, on the stable side -/
theorem beR_local (z : ℝ) (h0 : z ≤ 0) (h1 : -1 ≤ z) : |beR z - exp z| ≤ |z| ^ 2 * 2 := by
  have hz : |z| ≤ 1 := abs_le.mpr ⟨h1, by linarith⟩
  have hd : (1 : ℝ) ≤ 1 - z := by linarith
  have hd0 : 1 - z ≠ 0 := by linarith
  have a : |beR z - (1 + z)| ≤ |z| ^ 2 := by
    rw [beR_sub_taylor z hd0, abs_div, abs_pow]
    have hpos : (0 : ℝ) < 1 - z := by linarith
    rw [abs_of_pos hpos, div_le_iff₀ hpos]
    have hz2 : (0 : ℝ) ≤ |z| ^ 2 := by positivity
    nlinarith
  have b := exp_taylor2 z hz
  have t : |beR z - exp z| ≤ |beR z - (1 + z)| + |exp z - (1 + z)| := by
    have := abs_sub_le (beR z) (1 + z) (exp z)
    rwa [abs_sub_comm (1 + z) (exp z)] at this
  have hz2 : (0 : ℝ) ≤ |z| ^ 2 := by positivity
  linarith

theorem trapR_abs_le_one (z : ℝ) (h0 : z ≤ 0) : |trapR z| ≤ 1 := by
  unfold trapR
  have hpos : (0 : ℝ) < 1 - z / 2 := by linarith
  rw [abs_div, abs_of_pos hpos, div_le_one hpos, abs_le]
  constructor <;> linarith

theorem beR_abs_le_one (z : ℝ) (h0 : z ≤ 0) : |beR z| ≤ 1 := by
  unfold beR
  have hpos : (0 : ℝ) < 1 - z := by linarith
  rw [abs_div, abs_of_pos hpos, abs_one, div_le_one hpos]
  linarith

theorem exp_abs_le_one (z : ℝ) (h0 : z ≤ 0) : |exp z| ≤ 1 := by
  rw [abs_of_pos (exp_pos z)]; exact exp_le_one_iff.mpr h0

/-- products of factors of modulus `≤ 1`: the error of the product is at most the sum of the errors -/
theorem prod_sub_prod_le (l : List (ℝ × ℝ)) (h : ∀ p ∈ l, |p.1| ≤ 1 ∧ |p.2| ≤ 1) :
    |(l.map Prod.fst).prod - (l.map Prod.snd).prod| ≤ (l.map (fun p => |p.1 - p.2|)).sum ∧
      |(l.map Prod.snd).prod| ≤ 1 := by
  induction l with
  | nil => simp
  | cons p l ih =>
    obtain ⟨ih1, ih2⟩ := ih (fun q hq => h q (List.mem_cons_of_mem _ hq))
    obtain ⟨hp1, hp2⟩ := h p List.mem_cons_self
    simp only [List.map_cons, List.prod_cons, List.sum_cons]
    constructor
    · have e : p.1 * (l.map Prod.fst).prod - p.2 * (l.map Prod.snd).prod
          = p.1 * ((l.map Prod.fst).prod - (l.map Prod.snd).prod) + (p.1 - p.2) * (l.map Prod.snd).prod := by
        ring
      rw [e]
      calc |p.1 * ((l.map Prod.fst).prod - (l.map Prod.snd).prod) + (p.1 - p.2) * (l.map Prod.snd).prod|
          ≤ |p.1 * ((l.map Prod.fst).prod - (l.map Prod.snd).prod)| + |(p.1 - p.2) * (l.map Prod.snd).prod| :=
            abs_add_le _ _
        _ = |p.1| * |(l.map Prod.fst).prod - (l.map Prod.snd).prod| + |p.1 - p.2| * |(l.map Prod.snd).prod| := by
            rw [abs_mul, abs_mul]
        _ ≤ 1 * |(l.map Prod.fst).prod - (l.map Prod.snd).prod| + |p.1 - p.2| * 1 := by
            gcongr
        _ ≤ |p.1 - p.2| + (l.map (fun p => |p.1 - p.2|)).sum := by linarith
    · rw [abs_mul]
      calc |p.2| * |(l.map Prod.snd).prod| ≤ 1 * 1 := by gcongr
        _ = 1 := by norm_num

/-- numerical amplification over a grid of step sizes -/
noncomputable def trapProd (lam : ℝ) (hs : List ℝ) : ℝ := (hs.map (fun h => trapR (h * lam))).prod
noncomputable def beProd (lam : ℝ) (hs : List ℝ) : ℝ := (hs.map (fun h => beR (h * lam))).prod

theorem exp_grid (lam : ℝ) (hs : List ℝ) : exp (lam * hs.sum) = (hs.map (fun h => exp (h * lam))).prod := by
  have : lam * hs.sum = (hs.map (fun h => h * lam)).sum := by
    induction hs with
    | nil => simp
    | cons a t ih => simp only [List.sum_cons, List.map_cons, mul_add, ih]; ring
  rw [this, Real.exp_list_sum, List.map_map]; rfl

/-- sum of the cubes of the steps is at most `hmax² * T` -/
theorem sum_cubes_le (hs : List ℝ) (hmax : ℝ) (hpos : ∀ h ∈ hs, 0 ≤ h ∧ h ≤ hmax) :
    (hs.map (fun h => h ^ 3)).sum ≤ hmax ^ 2 * hs.sum := by
  induction hs with
  | nil => simp
  | cons a t ih =>
    have ha := hpos a List.mem_cons_self
    have iht := ih (fun h hh => hpos h (List.mem_cons_of_mem _ hh))
    simp only [List.map_cons, List.sum_cons]
    have : a ^ 3 ≤ hmax ^ 2 * a := by
      have h2 : a ^ 2 ≤ hmax ^ 2 := by nlinarith [ha.1, ha.2]
      nlinarith [ha.1]
    linarith

theorem sum_squares_le (hs : List ℝ) (hmax : ℝ) (hpos : ∀ h ∈ hs, 0 ≤ h ∧ h ≤ hmax) :
    (hs.map (fun h => h ^ 2)).sum ≤ hmax * hs.sum := by
  induction hs with
  | nil => simp
  | cons a t ih =>
    have ha := hpos a List.mem_cons_self
    have iht := ih (fun h hh => hpos h (List.mem_cons_of_mem _ hh))
    simp only [List.map_cons, List.sum_cons]
    have : a ^ 2 ≤ hmax * a := by nlinarith [ha.1, ha.2]
    linarith

/-- **global error of the trapezoidal rule on any grid**: for `lam ≤ 0`, steps `0 ≤ h ≤ hmax` with
`hmax * |lam| ≤ 1`, the amplification over the grid differs from `exp (lam * T)` (`T = Σ h`) by at most
`|lam|³ * hmax² * T / 2` — second order in the largest step, uniformly in the number of steps. -/
theorem trapezoid_global_second_order (lam hmax : ℝ) (hs : List ℝ) (hl : lam ≤ 0)
    (hpos : ∀ h ∈ hs, 0 ≤ h ∧ h ≤ hmax) (hsmall : hmax * |lam| ≤ 1) :
    |trapProd lam hs - exp (lam * hs.sum)| ≤ |lam| ^ 3 * hmax ^ 2 * hs.sum / 2 := by
  rw [exp_grid]
  unfold trapProd
  have habs : |lam| = -lam := abs_of_nonpos hl
  set l : List (ℝ × ℝ) := hs.map (fun h => (trapR (h * lam), exp (h * lam))) with hl_def
  have e1 : l.map Prod.fst = hs.map (fun h => trapR (h * lam)) := by
    rw [hl_def, List.map_map]; rfl
  have e2 : l.map Prod.snd = hs.map (fun h => exp (h * lam)) := by
    rw [hl_def, List.map_map]; rfl
  have zle : ∀ h ∈ hs, h * lam ≤ 0 ∧ -1 ≤ h * lam := by
    intro h hh
    obtain ⟨h0, h1⟩ := hpos h hh
    constructor
    · exact mul_nonpos_of_nonneg_of_nonpos h0 hl
    · have : h * (-lam) ≤ hmax * (-lam) := by
        apply mul_le_mul_of_nonneg_right h1; linarith
      rw [habs] at hsmall; linarith
  have hfac : ∀ p ∈ l, |p.1| ≤ 1 ∧ |p.2| ≤ 1 := by
    intro p hp
    rw [hl_def, List.mem_map] at hp
    obtain ⟨h, hh, rfl⟩ := hp
    exact ⟨trapR_abs_le_one _ (zle h hh).1, exp_abs_le_one _ (zle h hh).1⟩
  have main := (prod_sub_prod_le l hfac).1
  rw [e1, e2] at main
  have bound : (l.map (fun p => |p.1 - p.2|)).sum ≤ (hs.map (fun h => |lam| ^ 3 / 2 * h ^ 3)).sum := by
    rw [hl_def, List.map_map]
    apply List.sum_le_sum
    intro h hh
    obtain ⟨z0, z1⟩ := zle h hh
    have := trapR_local (h * lam) z0 z1
    have e : |h * lam| ^ 3 / 2 = |lam| ^ 3 / 2 * h ^ 3 := by
      rw [abs_mul, abs_of_nonneg (hpos h hh).1]; ring
    rw [e] at this
    show |trapR (h * lam) - exp (h * lam)| ≤ |lam| ^ 3 / 2 * h ^ 3
    exact this
  have fac : (hs.map (fun h => |lam| ^ 3 / 2 * h ^ 3)).sum = |lam| ^ 3 / 2 * (hs.map (fun h => h ^ 3)).sum := by
    rw [← List.sum_map_mul_left]
  have sc := sum_cubes_le hs hmax hpos
  have lnn : (0 : ℝ) ≤ |lam| ^ 3 / 2 := by positivity
  calc |(hs.map (fun h => trapR (h * lam))).prod - (hs.map (fun h => exp (h * lam))).prod|
      ≤ (l.map (fun p => |p.1 - p.2|)).sum := main
    _ ≤ |lam| ^ 3 / 2 * (hs.map (fun h => h ^ 3)).sum := by rw [← fac]; exact bound
    _ ≤ |lam| ^ 3 / 2 * (hmax ^ 2 * hs.sum) := by gcongr
    _ = |lam| ^ 3 * hmax ^ 2 * hs.sum / 2 := by ring

/-- **global error of backward Euler on any grid**: first order in the largest step -/
theorem backeuler_global_first_order (lam hmax : ℝ) (hs : List ℝ) (hl : lam ≤ 0)
    (hpos : ∀ h ∈ hs, 0 ≤ h ∧ h ≤ hmax) (hsmall : hmax * |lam| ≤ 1) :
    |beProd lam hs - exp (lam * hs.sum)| ≤ 2 * |lam| ^ 2 * hmax * hs.sum := by
  rw [exp_grid]
  unfold beProd
  have habs : |lam| = -lam := abs_of_nonpos hl
  set l : List (ℝ × ℝ) := hs.map (fun h => (beR (h * lam), exp (h * lam))) with hl_def
  have e1 : l.map Prod.fst = hs.map (fun h => beR (h * lam)) := by
    rw [hl_def, List.map_map]; rfl
  have e2 : l.map Prod.snd = hs.map (fun h => exp (h * lam)) := by
    rw [hl_def, List.map_map]; rfl
  have zle : ∀ h ∈ hs, h * lam ≤ 0 ∧ -1 ≤ h * lam := by
    intro h hh
    obtain ⟨h0, h1⟩ := hpos h hh
    constructor
    · exact mul_nonpos_of_nonneg_of_nonpos h0 hl
    · have : h * (-lam) ≤ hmax * (-lam) := by
        apply mul_le_mul_of_nonneg_right h1; linarith
      rw [habs] at hsmall; linarith
  have hfac : ∀ p ∈ l, |p.1| ≤ 1 ∧ |p.2| ≤ 1 := by
    intro p hp
    rw [hl_def, List.mem_map] at hp
    obtain ⟨h, hh, rfl⟩ := hp
    exact ⟨beR_abs_le_one _ (zle h hh).1, exp_abs_le_one _ (zle h hh).1⟩
  have main := (prod_sub_prod_le l hfac).1
  rw [e1, e2] at main
  have bound : (l.map (fun p => |p.1 - p.2|)).sum ≤ (hs.map (fun h => |lam| ^ 2 * 2 * h ^ 2)).sum := by
    rw [hl_def, List.map_map]
    apply List.sum_le_sum
    intro h hh
    obtain ⟨z0, z1⟩ := zle h hh
    have := beR_local (h * lam) z0 z1
    have e : |h * lam| ^ 2 * 2 = |lam| ^ 2 * 2 * h ^ 2 := by
      rw [abs_mul, abs_of_nonneg (hpos h hh).1]; ring
    rw [e] at this
    show |beR (h * lam) - exp (h * lam)| ≤ |lam| ^ 2 * 2 * h ^ 2
    exact this
  have fac : (hs.map (fun h => |lam| ^ 2 * 2 * h ^ 2)).sum = |lam| ^ 2 * 2 * (hs.map (fun h => h ^ 2)).sum := by
    rw [← List.sum_map_mul_left]
  have sc := sum_squares_le hs hmax hpos
  have lnn : (0 : ℝ) ≤ |lam| ^ 2 * 2 := by positivity
  calc |(hs.map (fun h => beR (h * lam))).prod - (hs.map (fun h => exp (h * lam))).prod|
      ≤ (l.map (fun p => |p.1 - p.2|)).sum := main
    _ ≤ |lam| ^ 2 * 2 * (hs.map (fun h => h ^ 2)).sum := by rw [← fac]; exact bound
    _ ≤ |lam| ^ 2 * 2 * (hmax * hs.sum) := by gcongr
    _ = 2 * |lam| ^ 2 * hmax * hs.sum := by ring

/-- **two grids over the same interval** (a single run and a run split into resumed segments, or the
same run at two step sizes): the two numerical answers differ by at most the sum of the two error bounds. -/
theorem trapezoid_two_grids (lam h1 h2 : ℝ) (g1 g2 : List ℝ) (hl : lam ≤ 0)
    (p1 : ∀ h ∈ g1, 0 ≤ h ∧ h ≤ h1) (p2 : ∀ h ∈ g2, 0 ≤ h ∧ h ≤ h2)
    (s1 : h1 * |lam| ≤ 1) (s2 : h2 * |lam| ≤ 1) (hT : g1.sum = g2.sum) :
    |trapProd lam g1 - trapProd lam g2| ≤ |lam| ^ 3 * (h1 ^ 2 + h2 ^ 2) * g1.sum / 2 := by
  have a := trapezoid_global_second_order lam h1 g1 hl p1 s1
  have b := trapezoid_global_second_order lam h2 g2 hl p2 s2
  rw [← hT] at b
  have := abs_sub_le (trapProd lam g1) (exp (lam * g1.sum)) (trapProd lam g2)
  rw [abs_sub_comm (exp (lam * g1.sum)) (trapProd lam g2)] at this
  calc |trapProd lam g1 - trapProd lam g2|
      ≤ |trapProd lam g1 - exp (lam * g1.sum)| + |trapProd lam g2 - exp (lam * g1.sum)| := this
    _ ≤ |lam| ^ 3 * h1 ^ 2 * g1.sum / 2 + |lam| ^ 3 * h2 ^ 2 * g1.sum / 2 := add_le_add a b
    _ = |lam| ^ 3 * (h1 ^ 2 + h2 ^ 2) * g1.sum / 2 := by ring

end Andes.LinConv
