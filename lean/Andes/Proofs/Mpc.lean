import Andes.Model.Mpc
import Mathlib.Tactic.Linarith
import Mathlib.Tactic.Ring
import Mathlib.Tactic.NormNum
import Mathlib.Tactic.FieldSimp
import Mathlib.Algebra.Order.Field.Rat

/-! Lemmas about the MATPOWER / PSS/E record arithmetic over `ℚ`. -/
namespace Andes.Mpc

theorem lit0 : (0.0 : ℚ) = 0 := by norm_num
theorem lit1 : (1.0 : ℚ) = 1 := by norm_num
theorem lit2 : (2.0 : ℚ) = 2 := by norm_num
theorem lit100 : (100.0 : ℚ) = 100 := by norm_num
theorem lit110 : (110.0 : ℚ) = 110 := by norm_num

/-- no connected device of the list sits on bus `b` -/
theorem busLoadP_none (b : Int) : ∀ (ps : List (PQ ℚ)), (ps.any (fun q => q.bus == b)) = false → busLoadP ps b = 0
  | [], _ => by simp [busLoadP, lit0]
  | p :: ps, h => by
    simp only [List.any_cons, Bool.or_eq_false_iff] at h
    simp [busLoadP, h.1, busLoadP_none b ps h.2]

theorem foldl_sumOn (f : PQ ℚ → ℚ) (b : Int) : ∀ (ps : List (PQ ℚ)) (acc : ℚ),
    ps.foldl (fun acc p => if p.bus == b then acc + (if p.u == 1 then f p else 0.0) else acc) acc
      = acc + sumOn f b ps
  | [], acc => by simp [sumOn, lit0]
  | p :: ps, acc => by
    unfold sumOn
    simp only [List.foldl_cons]
    rw [foldl_sumOn f b ps, foldl_sumOn f b ps (if p.bus == b then (0.0 : ℚ) + _ else 0.0)]
    split_ifs <;> simp [lit0] <;> ring

/-- **the exported bus load is the total connected load at the bus** (times the base), for ANY list of loads:
several loads on a bus, loads out of service -/
theorem exportPd_eq (base : ℚ) (b : Int) : ∀ (ps : List (PQ ℚ)), exportPd base ps b = busLoadP ps b * base
  | [] => by simp [exportPd, sumOn, busLoadP, lit0]
  | p :: ps => by
    have ih := exportPd_eq base b ps
    unfold exportPd at ih ⊢
    unfold sumOn
    simp only [List.foldl_cons]
    rw [foldl_sumOn]
    by_cases hb : p.bus = b <;> by_cases hu : p.u = 1 <;> simp [busLoadP, hb, hu, ih, lit0] <;> ring

end Andes.Mpc
