import Andes.Model.Mpc
import Mathlib.Tactic.Linarith
import Mathlib.Tactic.Ring
import Mathlib.Tactic.NormNum
import Mathlib.Tactic.FieldSimp
import Mathlib.Algebra.Order.Field.Rat

/-! Lemmas about the MATPOWER / PSS/E record arithmetic over `ℚ`. -/
namespace Andes.Mpc

theorem lit0 : (0.0 : ℚ) = 0 := by norm_num
theorem lit1 : (1.0 : ℚ) = 1 := by norm_num
theorem lit2 : (2.0 : ℚ) = 2 := by norm_num
theorem lit100 : (100.0 : ℚ) = 100 := by norm_num
theorem lit110 : (110.0 : ℚ) = 110 := by norm_num

/-- no connected device of the list sits on bus `b` -/
theorem busLoadP_none (b : Int) : ∀ (ps : List (PQ ℚ)), (ps.any (fun q => q.bus == b)) = false → busLoadP ps b = 0
  | [], _ => by simp [busLoadP, lit0]
  | p :: ps, h => by
    simp only [List.any_cons, Bool.or_eq_false_iff] at h
    simp [busLoadP, h.1, busLoadP_none b ps h.2]

theorem lastOn_none (f : PQ ℚ → ℚ) (b : Int) : ∀ (ps : List (PQ ℚ)), (ps.any (fun q => q.bus == b)) = false → lastOn f b ps = 0
  | [], _ => by simp [lastOn, lit0]
  | p :: ps, h => by
    simp only [List.any_cons, Bool.or_eq_false_iff] at h
    simp [lastOn, h.1, lastOn_none f b ps h.2]

/-- at most one load per bus, all connected -/
def OneOnlinePerBus (ps : List (PQ ℚ)) : Prop := ps.Pairwise (fun a b => a.bus ≠ b.bus) ∧ ∀ p ∈ ps, p.u = 1

theorem exportPd_eq (base : ℚ) (b : Int) : ∀ (ps : List (PQ ℚ)), OneOnlinePerBus ps →
    exportPd base ps b = busLoadP ps b * base
  | [], _ => by simp [exportPd, lastOn, busLoadP, lit0]
  | p :: ps, h => by
    have hp := List.pairwise_cons.mp h.1
    have ih := exportPd_eq base b ps ⟨hp.2, fun q hq => h.2 q (by simp [hq])⟩
    have hu : p.u = 1 := h.2 p (by simp)
    unfold exportPd at ih ⊢
    by_cases hb : p.bus = b
    · have hnone : (ps.any (fun q => q.bus == b)) = false := by
        rw [List.any_eq_false]; intro q hq; simp; intro e; exact hp.1 q hq (hb.trans e.symm)
      simp [lastOn, busLoadP, hb, hnone, hu, busLoadP_none b ps hnone]
    · simp [lastOn, busLoadP, hb, ih]

end Andes.Mpc
