import Andes.Proofs.Discrete

/-! # The bounded delay buffer refines an unbounded history (scalar type `ℚ`) -/
namespace Andes.Delay
open Andes.Discrete

theorem setLast_of_ne_nil {l : List ℚ} (h : l ≠ []) (x : ℚ) : setLast l x = l.dropLast ++ [x] := by
  cases l with
  | nil => exact absurd rfl h
  | cons a l => rfl

theorem setLast_length {l : List ℚ} (h : l ≠ []) (x : ℚ) : (setLast l x).length = l.length := by
  rw [setLast_of_ne_nil h]
  have : 0 < l.length := List.length_pos_of_ne_nil h
  simp; omega

theorem setLast_ne_nil {l : List ℚ} (h : l ≠ []) (x : ℚ) : setLast l x ≠ [] := by
  rw [setLast_of_ne_nil h]; simp

theorem lastOr_append_singleton (l : List ℚ) (x d : ℚ) : lastOr (l ++ [x]) d = x := by
  simp [lastOr]

theorem lastOr_setLast {l : List ℚ} (h : l ≠ []) (x d : ℚ) : lastOr (setLast l x) d = x := by
  rw [setLast_of_ne_nil h, lastOr_append_singleton]

theorem setLast_append {m : List ℚ} (h : m ≠ []) (pre : List ℚ) (x : ℚ) :
    setLast (pre ++ m) x = pre ++ setLast m x := by
  have h' : pre ++ m ≠ [] := by simp [h]
  rw [setLast_of_ne_nil h', setLast_of_ne_nil h, List.dropLast_append_of_ne_nil h, List.append_assoc]

/-- the unbounded reference: the last stamp and ALL slot values, oldest first -/
structure Hist where
  last : ℚ
  vals : List ℚ

/-- the documented memory semantics: a call at `t = 0` initialises every slot, an advancing stamp opens a
new slot, a repeated or rewound stamp overwrites the newest slot -/
def histCall (d : Nat) (h : Hist) (tq u : ℚ) : Hist :=
  match branch tq h.last with
  | .zero => { h with vals := List.replicate (d + 1) u }
  | .rewind => { last := tq, vals := setLast h.vals u }
  | .same => { h with vals := setLast h.vals u }
  | .adv => { last := tq, vals := h.vals ++ [u] }
  | .none => h

/-- the value `d` slots before the newest one -/
def histOut (d : Nat) (h : Hist) : ℚ := h.vals.getD (h.vals.length - (d + 1)) 0

def histInit (d : Nat) : Hist := ⟨0.0, List.replicate (d + 1) 0.0⟩

structure Refines (d : Nat) (s : Dl ℚ) (h : Hist) : Prop where
  tne : s.t ≠ []
  last : lastOr s.t 0.0 = h.last
  len : s.mem.length = d + 1
  suffix : ∃ pre, h.vals = pre ++ s.mem

theorem refines_init (d : Nat) : Refines d (initStep d) (histInit d) := by
  refine ⟨?_, ?_, ?_, ⟨[], ?_⟩⟩
  · simp [initStep]
  · simp [initStep, histInit, lastOr, List.getLast?_replicate]
  · simp [initStep]
  · simp [initStep, histInit]

theorem out_of_suffix (d : Nat) (mem pre : List ℚ) (hl : mem.length = d + 1) :
    headOr mem 0.0 = (pre ++ mem).getD ((pre ++ mem).length - (d + 1)) 0 := by
  have : (pre ++ mem).length - (d + 1) = pre.length := by simp [hl]
  rw [this]
  cases mem with
  | nil => simp at hl
  | cons a m => simp [headOr, List.getD]

theorem refines_step (d : Nat) (s : Dl ℚ) (h : Hist) (hr : Refines d s h) (tq u : ℚ) :
    Refines d (stepCall s tq u) (histCall d h tq u) ∧
    (stepCall s tq u).v = histOut d (histCall d h tq u) := by
  obtain ⟨pre, hp⟩ := hr.suffix
  have hmne : s.mem ≠ [] := by intro h0; have := hr.len; simp [h0] at this
  have key : ∀ (t' mem' : List ℚ) (h' : Hist) (pre' : List ℚ), t' ≠ [] → lastOr t' 0.0 = h'.last →
      mem'.length = d + 1 → h'.vals = pre' ++ mem' →
      Refines d { t := t', mem := mem', v := headOr mem' 0.0, rewind := isRewind s tq, bad := s.bad } h' ∧
      headOr mem' 0.0 = histOut d h' := by
    intro t' mem' h' pre' h1 h2 h3 h4
    refine ⟨⟨h1, h2, h3, ⟨pre', h4⟩⟩, ?_⟩
    unfold histOut; rw [h4]; exact out_of_suffix d mem' pre' h3
  unfold stepCall stepT stepMem histCall
  rw [hr.last]
  cases hb : branch tq h.last with
  | zero =>
    refine key _ _ _ [] hr.tne hr.last (by simp [hr.len]) ?_
    simp [List.map_const', hr.len]
  | rewind =>
    refine key _ _ _ pre (setLast_ne_nil hr.tne _) (lastOr_setLast hr.tne _ _) ?_ ?_
    · rw [setLast_length hmne, hr.len]
    · show setLast h.vals u = _
      rw [hp, setLast_append hmne]
  | same =>
    refine key _ _ _ pre hr.tne hr.last ?_ ?_
    · rw [setLast_length hmne, hr.len]
    · show setLast h.vals u = _
      rw [hp, setLast_append hmne]
  | adv =>
    cases hm : s.mem with
    | nil => exact absurd hm hmne
    | cons a m =>
      refine key _ _ _ (pre ++ [a]) (by simp) (lastOr_append_singleton _ _ _) ?_ ?_
      · have := hr.len; rw [hm] at this; simpa using this
      · show h.vals ++ [u] = _
        rw [hp, hm]; simp
  | none =>
    exact key _ _ _ pre hr.tne hr.last hr.len hp

end Andes.Delay
