import Andes.Model.Address
import Mathlib.Data.List.Basic
import Mathlib.Data.List.Perm.Basic
import Mathlib.Data.List.Nodup
import Mathlib.Data.List.Range
import Mathlib.Tactic.Linarith
import Mathlib.Tactic.Ring

/-! Lemmas for C10 (address assignment). -/
namespace Andes.Address

/-! ### `np.arange` and `DAE.request_address` -/

theorem arange_one (a n : Nat) : arange a (a + n) 1 = List.range' a n := by
  unfold arange
  have : (a + n - a + 1 - 1) / 1 = n := by simp
  rw [this]
  apply List.ext_getElem
  · simp
  · intro i h1 h2
    simp

theorem arange_collate (b k nd nv : Nat) (hk : k < nv) :
    arange (b + k) (b + nd * nv) nv = (List.range nd).map (fun d => b + k + d * nv) := by
  unfold arange
  have : (b + nd * nv - (b + k) + nv - 1) / nv = nd := by
    apply Nat.div_eq_of_lt_le
    · omega
    · rw [Nat.add_mul, Nat.one_mul]
      rcases Nat.eq_zero_or_pos nd with h0 | hnd
      · subst h0; omega
      · have : nv ≤ nd * nv := Nat.le_mul_of_pos_left nv hnd
        omega
  rw [this]

/-- the address of variable `k`, device `d` in a block that starts at `b` -/
def slot (b nd nv : Nat) (c : Bool) (k d : Nat) : Nat := if c then b + (d * nv + k) else b + (k * nd + d)

theorem requestAddress_eq (b nd nv : Nat) (c : Bool) :
    requestAddress b nd nv c = (List.range nv).map (fun k => (List.range nd).map (fun d => slot b nd nv c k d)) := by
  unfold requestAddress slot
  cases c
  · simp only [Bool.false_eq_true, if_false]
    apply List.map_congr_left
    intro k _
    have : b + (k + 1) * nd = b + k * nd + nd := by rw [Nat.add_mul]; omega
    rw [this, arange_one, List.range'_eq_map_range]
    apply List.map_congr_left
    intro d _; omega
  · simp only [if_true]
    apply List.map_congr_left
    intro k hk
    rw [arange_collate b k nd nv (List.mem_range.mp hk)]
    apply List.map_congr_left
    intro d _; omega

theorem radix_lt {Q R q r : Nat} (hq : q < Q) (hr : r < R) : q * R + r < Q * R := by
  have : (q + 1) * R ≤ Q * R := Nat.mul_le_mul_right R hq
  rw [Nat.add_mul] at this; omega

theorem radix_inj {R q r q' r' : Nat} (hr : r < R) (hr' : r' < R) (h : q * R + r = q' * R + r') :
    q = q' ∧ r = r' := by
  have h1 : (q * R + r) / R = q := by
    rw [Nat.add_comm, Nat.add_mul_div_right _ _ (by omega), Nat.div_eq_of_lt hr]; simp
  have h2 : (q' * R + r') / R = q' := by
    rw [Nat.add_comm, Nat.add_mul_div_right _ _ (by omega), Nat.div_eq_of_lt hr']; simp
  have : q = q' := by rw [← h1, ← h2, h]
  subst this
  exact ⟨rfl, by omega⟩

theorem radix_ex {Q R x : Nat} (hx : x < Q * R) : ∃ q < Q, ∃ r < R, x = q * R + r := by
  have hR : 0 < R := by
    rcases Nat.eq_zero_or_pos R with h | h
    · subst h; simp at hx
    · exact h
  refine ⟨x / R, (Nat.div_lt_iff_lt_mul hR).mpr hx, x % R, Nat.mod_lt _ hR, ?_⟩
  have := Nat.div_add_mod x R
  rw [Nat.mul_comm] at this; omega

theorem slot_inj {b nd nv : Nat} {c : Bool} {k d k' d' : Nat} (hk : k < nv) (hd : d < nd) (hk' : k' < nv)
    (hd' : d' < nd) (h : slot b nd nv c k d = slot b nd nv c k' d') : k = k' ∧ d = d' := by
  unfold slot at h
  cases c
  · simp only [Bool.false_eq_true, if_false] at h
    have := radix_inj hd hd' (by omega : k * nd + d = k' * nd + d')
    exact this
  · simp only [if_true] at h
    have := radix_inj hk hk' (by omega : d * nv + k = d' * nv + k')
    exact ⟨this.2, this.1⟩

theorem slot_range {b nd nv : Nat} {c : Bool} {k d : Nat} (hk : k < nv) (hd : d < nd) :
    b ≤ slot b nd nv c k d ∧ slot b nd nv c k d < b + nd * nv := by
  unfold slot
  cases c
  · simp only [Bool.false_eq_true, if_false]
    have := radix_lt hk hd
    rw [Nat.mul_comm nv nd] at this; omega
  · simp only [if_true]
    have := radix_lt hd hk
    omega

theorem slot_surj {b nd nv : Nat} (c : Bool) {a : Nat} (h1 : b ≤ a) (h2 : a < b + nd * nv) :
    ∃ k < nv, ∃ d < nd, a = slot b nd nv c k d := by
  unfold slot
  cases c
  · simp only [Bool.false_eq_true, if_false]
    obtain ⟨q, hq, r, hr, e⟩ := radix_ex (Q := nv) (R := nd) (x := a - b) (by rw [Nat.mul_comm]; omega)
    exact ⟨q, hq, r, hr, by omega⟩
  · simp only [if_true]
    obtain ⟨q, hq, r, hr, e⟩ := radix_ex (Q := nd) (R := nv) (x := a - b) (by omega)
    exact ⟨r, hr, q, hq, by omega⟩

theorem mem_requestAddress_flatten (b nd nv : Nat) (c : Bool) (a : Nat) :
    a ∈ (requestAddress b nd nv c).flatten ↔ ∃ k < nv, ∃ d < nd, a = slot b nd nv c k d := by
  rw [requestAddress_eq]
  simp only [List.mem_flatten, List.mem_map, List.mem_range]
  constructor
  · rintro ⟨l, ⟨k, hk, rfl⟩, ha⟩
    simp only [List.mem_map, List.mem_range] at ha
    obtain ⟨d, hd, rfl⟩ := ha
    exact ⟨k, hk, d, hd, rfl⟩
  · rintro ⟨k, hk, d, hd, rfl⟩
    exact ⟨_, ⟨k, hk, rfl⟩, by simp only [List.mem_map, List.mem_range]; exact ⟨d, hd, rfl⟩⟩

theorem requestAddress_flatten_nodup (b nd nv : Nat) (c : Bool) : (requestAddress b nd nv c).flatten.Nodup := by
  rw [requestAddress_eq, List.nodup_flatten]
  constructor
  · intro l hl
    simp only [List.mem_map, List.mem_range] at hl
    obtain ⟨k, hk, rfl⟩ := hl
    rw [List.nodup_map_iff_inj_on List.nodup_range]
    intro d hd d' hd' h
    exact (slot_inj hk (List.mem_range.mp hd) hk (List.mem_range.mp hd') h).2
  · rw [List.pairwise_map]
    apply List.Pairwise.imp_of_mem _ (List.pairwise_lt_range)
    intro k k' hk hk' hlt
    rw [List.disjoint_left]
    intro a ha ha'
    simp only [List.mem_map, List.mem_range] at ha ha'
    obtain ⟨d, hd, rfl⟩ := ha
    obtain ⟨d', hd', e⟩ := ha'
    have := (slot_inj (List.mem_range.mp hk') hd' (List.mem_range.mp hk) hd e).1
    omega

/-- **`request_address` hands out exactly the block `[b, b + ndev·nvar)`** -/
theorem requestAddress_flatten_perm (b nd nv : Nat) (c : Bool) :
    (requestAddress b nd nv c).flatten.Perm (List.range' b (nd * nv)) := by
  rw [List.perm_ext_iff_of_nodup (requestAddress_flatten_nodup b nd nv c) (List.nodup_range' 1)]
  intro a
  rw [mem_requestAddress_flatten, List.mem_range'_1]
  constructor
  · rintro ⟨k, hk, d, hd, rfl⟩
    exact slot_range hk hd
  · rintro ⟨h1, h2⟩
    exact slot_surj c h1 h2

theorem requestAddress_length (b nd nv : Nat) (c : Bool) : (requestAddress b nd nv c).length = nv := by
  rw [requestAddress_eq]; simp

theorem requestAddress_inner_length (b nd nv : Nat) (c : Bool) (l : List Nat) (h : l ∈ requestAddress b nd nv c) :
    l.length = nd := by
  rw [requestAddress_eq] at h
  simp only [List.mem_map, List.mem_range] at h
  obtain ⟨k, _, rfl⟩ := h
  simp

theorem requestAddress_get (b nd nv : Nat) (c : Bool) (k d : Nat) (hk : k < nv) (hd : d < nd) :
    ((requestAddress b nd nv c)[k]?).bind (fun l => l[d]?) = some (slot b nd nv c k d) := by
  rw [requestAddress_eq]
  simp [hk, hd]

/-! ### Phase 1 -/

theorem countX_ge (sel : Mdl → Bool) (ms : List Mdl) : ∀ n, n ≤ countX sel n ms := by
  induction ms with
  | nil => intro n; simp [countX]
  | cons md rest ih =>
    intro n; unfold countX
    split_ifs
    · exact le_trans (Nat.le_add_right _ _) (ih _)
    · exact ih _

theorem countY_ge (sel : Mdl → Bool) (ms : List Mdl) : ∀ n, n ≤ countY sel n ms := by
  induction ms with
  | nil => intro n; simp [countY]
  | cons md rest ih =>
    intro n; unfold countY
    split_ifs
    · exact le_trans (Nat.le_add_right _ _) (ih _)
    · exact ih _

theorem xAddrs_cons (m : Mdl) (ms : List Mdl) : xAddrs (m :: ms) = m.xa.flatten ++ xAddrs ms := by
  simp [xAddrs]
theorem yAddrs_cons (m : Mdl) (ms : List Mdl) : yAddrs (m :: ms) = m.ya.flatten ++ yAddrs ms := by
  simp [yAddrs]

/-- models that are about to be addressed carry no address yet -/
def Fresh (sel : Mdl → Bool) (ms : List Mdl) : Prop := ∀ m ∈ ms, needs sel m = true → m.xa = [] ∧ m.ya = []

/-- after phase 1 the state addresses are the old ones plus exactly the block `[n, countX)` -/
theorem phase1_xperm (sel : Mdl → Bool) (ms : List Mdl) : ∀ n m, Fresh sel ms →
    (xAddrs (phase1 sel n m ms)).Perm (xAddrs ms ++ List.range' n (countX sel n ms - n)) := by
  induction ms with
  | nil => intro n m _; simp [phase1, countX, xAddrs]
  | cons md rest ih =>
    intro n m hf
    have hf' : Fresh sel rest := fun x hx => hf x (List.mem_cons_of_mem _ hx)
    unfold phase1 countX
    split_ifs with hn
    · have h0 := (hf md List.mem_cons_self hn).1
      rw [xAddrs_cons, xAddrs_cons, h0]
      simp only [List.flatten_nil, List.nil_append]
      have ih' := ih (n + md.idx.length * md.states.length) (m + md.idx.length * md.algebs.length) hf'
      have hge := countX_ge sel rest (n + md.idx.length * md.states.length)
      have hsplit : List.range' n (countX sel (n + md.idx.length * md.states.length) rest - n) =
          List.range' n (md.idx.length * md.states.length) ++
          List.range' (n + md.idx.length * md.states.length)
            (countX sel (n + md.idx.length * md.states.length) rest - (n + md.idx.length * md.states.length)) := by
        have := @List.range'_append n (md.idx.length * md.states.length)
          (countX sel (n + md.idx.length * md.states.length) rest - (n + md.idx.length * md.states.length)) 1
        simp only [Nat.one_mul] at this
        rw [this]; congr 1; omega
      rw [hsplit]
      refine ((requestAddress_flatten_perm n _ _ _).append ih').trans ?_
      rw [← List.append_assoc, ← List.append_assoc]
      exact List.Perm.append_right _ List.perm_append_comm
    · rw [xAddrs_cons, xAddrs_cons, List.append_assoc]
      exact List.Perm.append_left _ (ih n m hf')

theorem phase1_yperm (sel : Mdl → Bool) (ms : List Mdl) : ∀ n m, Fresh sel ms →
    (yAddrs (phase1 sel n m ms)).Perm (yAddrs ms ++ List.range' m (countY sel m ms - m)) := by
  induction ms with
  | nil => intro n m _; simp [phase1, countY, yAddrs]
  | cons md rest ih =>
    intro n m hf
    have hf' : Fresh sel rest := fun x hx => hf x (List.mem_cons_of_mem _ hx)
    unfold phase1 countY
    split_ifs with hn
    · have h0 := (hf md List.mem_cons_self hn).2
      rw [yAddrs_cons, yAddrs_cons, h0]
      simp only [List.flatten_nil, List.nil_append]
      have ih' := ih (n + md.idx.length * md.states.length) (m + md.idx.length * md.algebs.length) hf'
      have hge := countY_ge sel rest (m + md.idx.length * md.algebs.length)
      have hsplit : List.range' m (countY sel (m + md.idx.length * md.algebs.length) rest - m) =
          List.range' m (md.idx.length * md.algebs.length) ++
          List.range' (m + md.idx.length * md.algebs.length)
            (countY sel (m + md.idx.length * md.algebs.length) rest - (m + md.idx.length * md.algebs.length)) := by
        have := @List.range'_append m (md.idx.length * md.algebs.length)
          (countY sel (m + md.idx.length * md.algebs.length) rest - (m + md.idx.length * md.algebs.length)) 1
        simp only [Nat.one_mul] at this
        rw [this]; congr 1; omega
      rw [hsplit]
      refine ((requestAddress_flatten_perm m _ _ _).append ih').trans ?_
      rw [← List.append_assoc, ← List.append_assoc]
      exact List.Perm.append_right _ List.perm_append_comm
    · rw [yAddrs_cons, yAddrs_cons, List.append_assoc]
      exact List.Perm.append_left _ (ih n m hf')

/-- the data of a model that addressing never changes -/
structure SameStatic (a b : Mdl) : Prop where
  name : a.name = b.name
  group : a.group = b.group
  pflow : a.pflow = b.pflow
  tds : a.tds = b.tds
  collate : a.collate = b.collate
  inUse : a.inUse = b.inUse
  idx : a.idx = b.idx
  states : a.states = b.states
  algebs : a.algebs = b.algebs

theorem SameStatic.rfl' (a : Mdl) : SameStatic a a := ⟨rfl, rfl, rfl, rfl, rfl, rfl, rfl, rfl, rfl⟩
theorem SameStatic.trans {a b c : Mdl} (h1 : SameStatic a b) (h2 : SameStatic b c) : SameStatic a c :=
  ⟨h1.name.trans h2.name, h1.group.trans h2.group, h1.pflow.trans h2.pflow, h1.tds.trans h2.tds,
   h1.collate.trans h2.collate, h1.inUse.trans h2.inUse, h1.idx.trans h2.idx, h1.states.trans h2.states,
   h1.algebs.trans h2.algebs⟩

/-- what phase 1 does to the model at a given position: untouched, or given a fresh block -/
theorem phase1_getElem? (sel : Mdl → Bool) (ms : List Mdl) : ∀ (n m i : Nat) (md : Mdl), ms[i]? = some md →
    ∃ md' : Mdl, (phase1 sel n m ms)[i]? = some md' ∧ SameStatic md' md ∧
      md'.exts = md.exts ∧ md'.addressed = md.addressed ∧
      (needs sel md = false → md'.xa = md.xa ∧ md'.ya = md.ya) ∧
      (needs sel md = true → ∃ bx by', md'.xa = requestAddress bx md.idx.length md.states.length md.collate ∧
         md'.ya = requestAddress by' md.idx.length md.algebs.length md.collate) := by
  induction ms with
  | nil => intro n m i md h; simp at h
  | cons hd rest ih =>
    intro n m i md h
    cases i with
    | zero =>
      simp only [List.getElem?_cons_zero, Option.some.injEq] at h
      subst h
      unfold phase1
      split_ifs with hn
      · exact ⟨_, List.getElem?_cons_zero, ⟨rfl, rfl, rfl, rfl, rfl, rfl, rfl, rfl, rfl⟩, rfl, rfl,
          fun h => by simp [hn] at h, fun _ => ⟨_, _, rfl, rfl⟩⟩
      · exact ⟨_, List.getElem?_cons_zero, SameStatic.rfl' _, rfl, rfl,
          fun _ => ⟨rfl, rfl⟩, fun h => by simp [h] at hn⟩
    | succ j =>
      simp only [List.getElem?_cons_succ] at h
      unfold phase1
      split_ifs with hn
      · obtain ⟨md', h1, h2⟩ := ih _ _ j md h
        exact ⟨md', by simpa using h1, h2⟩
      · obtain ⟨md', h1, h2⟩ := ih _ _ j md h
        exact ⟨md', by simpa using h1, h2⟩

theorem phase1_length (sel : Mdl → Bool) (ms : List Mdl) : ∀ n m, (phase1 sel n m ms).length = ms.length := by
  induction ms with
  | nil => intro n m; simp [phase1]
  | cons hd rest ih => intro n m; unfold phase1; split_ifs <;> simp [ih]

/-! ### Phases 2 and 3 leave the internal addresses alone -/

def noExt (m : Mdl) : Mdl := { m with exts := [] }

theorem linkAt_noExt (ms : List Mdl) (mi ei : Nat) : (linkAt ms mi ei).map noExt = ms.map noExt := by
  unfold linkAt
  split
  · rename_i md hmd
    split
    · apply List.ext_getElem?
      intro j
      simp only [List.getElem?_map, List.getElem?_set]
      by_cases h : mi = j
      · subst h
        have hlt : mi < ms.length := by
          by_contra hc
          rw [List.getElem?_eq_none (by omega)] at hmd
          cases hmd
        have hm : ms[mi] = md := by
          have := List.getElem?_eq_getElem hlt
          rw [this] at hmd; exact Option.some.inj hmd
        simp [hlt, noExt, hm]
      · simp [h]
    · rfl
  · rfl

theorem foldl_frame {α β γ : Type} (f : α → β → α) (g : α → γ) (h : ∀ a b, g (f a b) = g a) (l : List β) :
    ∀ a, g (l.foldl f a) = g a := by
  induction l with
  | nil => intro a; rfl
  | cons x xs ih => intro a; simp only [List.foldl_cons]; rw [ih, h]

theorem phase2Model_noExt (sel : Mdl → Bool) (ms : List Mdl) (mi : Nat) :
    (phase2Model sel ms mi).map noExt = ms.map noExt := by
  unfold phase2Model
  split
  · split_ifs
    · exact foldl_frame (fun acc ei => linkAt acc mi ei) (fun l => l.map noExt) (fun a b => linkAt_noExt a mi b) _ ms
    · rfl
  · rfl

theorem phase2_noExt (sel : Mdl → Bool) (ms : List Mdl) : (phase2 sel ms).map noExt = ms.map noExt := by
  unfold phase2
  exact foldl_frame (phase2Model sel) (fun l => l.map noExt) (fun a b => phase2Model_noExt sel a b) _ ms

theorem noExt_getElem? {ms ms' : List Mdl} (h : ms'.map noExt = ms.map noExt) (i : Nat) (md : Mdl)
    (hi : ms[i]? = some md) : ∃ md' : Mdl, ms'[i]? = some md' ∧ noExt md' = noExt md := by
  have := congrArg (fun l => l[i]?) h
  simp only [List.getElem?_map, hi, Option.map_some] at this
  cases h' : ms'[i]? with
  | none => rw [h'] at this; simp at this
  | some md' => rw [h'] at this; simp at this; exact ⟨md', rfl, this⟩

theorem noExt_proj {γ : Type} (f : Mdl → γ) (hf : ∀ m, f (noExt m) = f m) {a b : Mdl} (h : noExt a = noExt b) :
    f a = f b := by rw [← hf a, ← hf b, h]

theorem noExt_fields {a b : Mdl} (h : noExt a = noExt b) :
    SameStatic a b ∧ a.addressed = b.addressed ∧ a.xa = b.xa ∧ a.ya = b.ya :=
  ⟨⟨noExt_proj Mdl.name (fun _ => rfl) h, noExt_proj Mdl.group (fun _ => rfl) h,
    noExt_proj Mdl.pflow (fun _ => rfl) h, noExt_proj Mdl.tds (fun _ => rfl) h,
    noExt_proj Mdl.collate (fun _ => rfl) h, noExt_proj Mdl.inUse (fun _ => rfl) h,
    noExt_proj Mdl.idx (fun _ => rfl) h, noExt_proj Mdl.states (fun _ => rfl) h,
    noExt_proj Mdl.algebs (fun _ => rfl) h⟩, noExt_proj Mdl.addressed (fun _ => rfl) h,
    noExt_proj Mdl.xa (fun _ => rfl) h, noExt_proj Mdl.ya (fun _ => rfl) h⟩

/-- membership in the `models` dict depends on the model's static data only -/
def SelStatic (sel : Mdl → Bool) : Prop := ∀ a b, SameStatic a b → sel a = sel b

theorem needs_congr {sel : Mdl → Bool} (hs : SelStatic sel) {a b : Mdl} (h : SameStatic a b)
    (ha : a.addressed = b.addressed) : needs sel a = needs sel b := by
  unfold needs; rw [hs a b h, ha, h.idx]

theorem phase3_getElem? (sel : Mdl → Bool) (ms : List Mdl) : ∀ (p q i : Nat) (md : Mdl), ms[i]? = some md →
    ∃ md' : Mdl, (phase3 sel p q ms)[i]? = some md' ∧ SameStatic md' md ∧ md'.xa = md.xa ∧ md'.ya = md.ya ∧
      md'.addressed = (md.addressed || needs sel md) := by
  induction ms with
  | nil => intro p q i md h; simp at h
  | cons hd rest ih =>
    intro p q i md h
    cases i with
    | zero =>
      simp only [List.getElem?_cons_zero, Option.some.injEq] at h
      subst h
      unfold phase3
      split_ifs with hn
      · exact ⟨_, List.getElem?_cons_zero, ⟨rfl, rfl, rfl, rfl, rfl, rfl, rfl, rfl, rfl⟩, rfl, rfl, by simp [hn]⟩
      · exact ⟨_, List.getElem?_cons_zero, SameStatic.rfl' _, rfl, rfl, by simp at hn; simp [hn]⟩
    | succ j =>
      simp only [List.getElem?_cons_succ] at h
      unfold phase3
      split_ifs with hn
      · obtain ⟨md', h1, h2⟩ := ih _ _ j md h
        exact ⟨md', by simpa using h1, h2⟩
      · obtain ⟨md', h1, h2⟩ := ih _ _ j md h
        exact ⟨md', by simpa using h1, h2⟩

theorem phase3_length (sel : Mdl → Bool) (ms : List Mdl) : ∀ p q, (phase3 sel p q ms).length = ms.length := by
  induction ms with
  | nil => intro p q; simp [phase3]
  | cons hd rest ih => intro p q; unfold phase3; split_ifs <;> simp [ih]

theorem phase2_length (sel : Mdl → Bool) (ms : List Mdl) : (phase2 sel ms).length = ms.length := by
  have := congrArg List.length (phase2_noExt sel ms)
  simpa using this

/-- two lists of models with the same address arrays position by position have the same flat views -/
theorem xAddrs_congr {ms ms' : List Mdl} (h : ms'.map (·.xa) = ms.map (·.xa)) : xAddrs ms' = xAddrs ms := by
  have e : ∀ l : List Mdl, xAddrs l = (l.map (·.xa)).flatMap List.flatten := by
    intro l; simp [xAddrs, List.flatMap_map]
  rw [e, e, h]

theorem yAddrs_congr {ms ms' : List Mdl} (h : ms'.map (·.ya) = ms.map (·.ya)) : yAddrs ms' = yAddrs ms := by
  have e : ∀ l : List Mdl, yAddrs l = (l.map (·.ya)).flatMap List.flatten := by
    intro l; simp [yAddrs, List.flatMap_map]
  rw [e, e, h]

theorem map_eq_of_getElem? {α β : Type} (f : α → β) (l l' : List α) (hl : l'.length = l.length)
    (h : ∀ (i : Nat) (a : α), l[i]? = some a → ∃ a' : α, l'[i]? = some a' ∧ f a' = f a) : l'.map f = l.map f := by
  apply List.ext_getElem?
  intro i
  simp only [List.getElem?_map]
  cases hi : l[i]? with
  | none =>
    have : l'[i]? = none := by
      rw [List.getElem?_eq_none_iff] at hi ⊢; omega
    rw [this]
  | some a =>
    obtain ⟨a', h1, h2⟩ := h i a hi
    rw [h1]; simp [h2]

/-! ### The invariant of `set_address` -/

theorem setAddress_length (sel : Mdl → Bool) (s : Sys) : (setAddress sel s).models.length = s.models.length := by
  simp [setAddress, phase3_length, phase2_length, phase1_length]

/-- what `set_address` does to the model at position `i` -/
theorem setAddress_getElem? (sel : Mdl → Bool) (hs : SelStatic sel) (s : Sys) (i : Nat) (md : Mdl)
    (h : s.models[i]? = some md) :
    ∃ md' : Mdl, (setAddress sel s).models[i]? = some md' ∧ SameStatic md' md ∧
      md'.addressed = (md.addressed || needs sel md) ∧
      (needs sel md = false → md'.xa = md.xa ∧ md'.ya = md.ya) ∧
      (needs sel md = true → ∃ bx by', md'.xa = requestAddress bx md.idx.length md.states.length md.collate ∧
         md'.ya = requestAddress by' md.idx.length md.algebs.length md.collate) := by
  obtain ⟨m1, h1, st1, _, ad1, keep1, new1⟩ := phase1_getElem? sel s.models s.dae.n s.dae.m i md h
  obtain ⟨m2, h2, e2⟩ := noExt_getElem? (phase2_noExt sel (phase1 sel s.dae.n s.dae.m s.models)) i m1 h1
  obtain ⟨st2, ad2, xa2, ya2⟩ := noExt_fields e2
  obtain ⟨m3, h3, st3, xa3, ya3, ad3⟩ := phase3_getElem? sel _ s.dae.p s.dae.q i m2 h2
  have hn : needs sel m2 = needs sel md := needs_congr hs (st2.trans st1) (ad2.trans ad1)
  refine ⟨m3, h3, st3.trans (st2.trans st1), ?_, ?_, ?_⟩
  · rw [ad3, hn, ad2, ad1]
  · intro hh
    obtain ⟨k1, k2⟩ := keep1 hh
    exact ⟨by rw [xa3, xa2, k1], by rw [ya3, ya2, k2]⟩
  · intro hh
    obtain ⟨bx, by', k1, k2⟩ := new1 hh
    exact ⟨bx, by', by rw [xa3, xa2, k1], by rw [ya3, ya2, k2]⟩

theorem setAddress_map_xa (sel : Mdl → Bool) (s : Sys) :
    (setAddress sel s).models.map (·.xa) = (phase1 sel s.dae.n s.dae.m s.models).map (·.xa) := by
  apply map_eq_of_getElem?
  · simp [setAddress, phase3_length, phase2_length]
  · intro i m1 h1
    obtain ⟨m2, h2, e2⟩ := noExt_getElem? (phase2_noExt sel (phase1 sel s.dae.n s.dae.m s.models)) i m1 h1
    obtain ⟨m3, h3, _, xa3, _, _⟩ := phase3_getElem? sel _ s.dae.p s.dae.q i m2 h2
    exact ⟨m3, h3, by rw [xa3, (noExt_fields e2).2.2.1]⟩

theorem setAddress_map_ya (sel : Mdl → Bool) (s : Sys) :
    (setAddress sel s).models.map (·.ya) = (phase1 sel s.dae.n s.dae.m s.models).map (·.ya) := by
  apply map_eq_of_getElem?
  · simp [setAddress, phase3_length, phase2_length]
  · intro i m1 h1
    obtain ⟨m2, h2, e2⟩ := noExt_getElem? (phase2_noExt sel (phase1 sel s.dae.n s.dae.m s.models)) i m1 h1
    obtain ⟨m3, h3, _, _, ya3, _⟩ := phase3_getElem? sel _ s.dae.p s.dae.q i m2 h2
    exact ⟨m3, h3, by rw [ya3, (noExt_fields e2).2.2.2]⟩

structure Inv (s : Sys) : Prop where
  xperm : (xAddrs s.models).Perm (List.range s.dae.n)
  yperm : (yAddrs s.models).Perm (List.range s.dae.m)
  fresh : ∀ m ∈ s.models, m.addressed = false → m.xa = [] ∧ m.ya = []
  shape : ∀ m ∈ s.models, m.addressed = true →
    m.xa.length = m.states.length ∧ (∀ a ∈ m.xa, a.length = m.idx.length) ∧
    m.ya.length = m.algebs.length ∧ (∀ a ∈ m.ya, a.length = m.idx.length)

theorem inv_fresh_sel {s : Sys} (hI : Inv s) (sel : Mdl → Bool) : Fresh sel s.models := by
  intro m hm hn
  apply hI.fresh m hm
  unfold needs at hn
  simp at hn
  exact hn.1.2

theorem range_append_range' (n k : Nat) : List.range n ++ List.range' n k = List.range (n + k) := by
  rw [List.range_eq_range', List.range_eq_range']
  have := @List.range'_append 0 n k 1
  simpa using this

theorem setAddress_n (sel : Mdl → Bool) (s : Sys) : (setAddress sel s).dae.n = countX sel s.dae.n s.models := rfl
theorem setAddress_m (sel : Mdl → Bool) (s : Sys) : (setAddress sel s).dae.m = countY sel s.dae.m s.models := rfl

/-- the new state addresses are the old ones plus exactly `[n_old, n_new)` -/
theorem setAddress_xperm (sel : Mdl → Bool) (s : Sys) (hI : Inv s) :
    (xAddrs (setAddress sel s).models).Perm
      (xAddrs s.models ++ List.range' s.dae.n ((setAddress sel s).dae.n - s.dae.n)) := by
  rw [xAddrs_congr (setAddress_map_xa sel s), setAddress_n]
  exact phase1_xperm sel s.models s.dae.n s.dae.m (inv_fresh_sel hI sel)

theorem setAddress_yperm (sel : Mdl → Bool) (s : Sys) (hI : Inv s) :
    (yAddrs (setAddress sel s).models).Perm
      (yAddrs s.models ++ List.range' s.dae.m ((setAddress sel s).dae.m - s.dae.m)) := by
  rw [yAddrs_congr (setAddress_map_ya sel s), setAddress_m]
  exact phase1_yperm sel s.models s.dae.n s.dae.m (inv_fresh_sel hI sel)

theorem setAddress_inv (sel : Mdl → Bool) (hs : SelStatic sel) (s : Sys) (hI : Inv s) : Inv (setAddress sel s) := by
  have orig : ∀ m' ∈ (setAddress sel s).models, ∃ (i : Nat) (md : Mdl), s.models[i]? = some md ∧
      (setAddress sel s).models[i]? = some m' := by
    intro m' hm'
    obtain ⟨i, hi⟩ := List.mem_iff_getElem?.mp hm'
    have hlt : i < s.models.length := by
      rw [← setAddress_length sel s]
      by_contra hc
      rw [List.getElem?_eq_none (by omega)] at hi; cases hi
    exact ⟨i, s.models[i], List.getElem?_eq_getElem hlt, hi⟩
  refine ⟨?_, ?_, ?_, ?_⟩
  · have h := setAddress_xperm sel s hI
    have hge : s.dae.n ≤ (setAddress sel s).dae.n := countX_ge sel s.models s.dae.n
    refine h.trans ?_
    have e : (setAddress sel s).dae.n = s.dae.n + ((setAddress sel s).dae.n - s.dae.n) := by omega
    conv_rhs => rw [e, ← range_append_range']
    exact List.Perm.append_right _ hI.xperm
  · have h := setAddress_yperm sel s hI
    have hge : s.dae.m ≤ (setAddress sel s).dae.m := countY_ge sel s.models s.dae.m
    refine h.trans ?_
    have e : (setAddress sel s).dae.m = s.dae.m + ((setAddress sel s).dae.m - s.dae.m) := by omega
    conv_rhs => rw [e, ← range_append_range']
    exact List.Perm.append_right _ hI.yperm
  · intro m' hm' had
    obtain ⟨i, md, hmd, hi⟩ := orig m' hm'
    obtain ⟨md', h1, _, ad, keep, _⟩ := setAddress_getElem? sel hs s i md hmd
    rw [hi] at h1; cases h1
    rw [had] at ad
    have h2 : md.addressed = false ∧ needs sel md = false := by
      cases h3 : md.addressed <;> cases h4 : needs sel md <;> rw [h3, h4] at ad <;> simp at ad <;> simp
    obtain ⟨k1, k2⟩ := keep h2.2
    have := hI.fresh md (List.mem_of_getElem? hmd) h2.1
    exact ⟨k1.trans this.1, k2.trans this.2⟩
  · intro m' hm' had
    obtain ⟨i, md, hmd, hi⟩ := orig m' hm'
    obtain ⟨md', h1, st, ad, keep, new⟩ := setAddress_getElem? sel hs s i md hmd
    rw [hi] at h1; cases h1
    cases hn : needs sel md with
    | false =>
      obtain ⟨k1, k2⟩ := keep hn
      have hadd : md.addressed = true := by rw [had, hn] at ad; simpa using ad.symm
      have := hI.shape md (List.mem_of_getElem? hmd) hadd
      rw [k1, k2, st.states, st.algebs, st.idx]; exact this
    | true =>
      obtain ⟨bx, by', k1, k2⟩ := new hn
      rw [k1, k2, st.states, st.algebs, st.idx]
      exact ⟨requestAddress_length _ _ _ _, requestAddress_inner_length _ _ _ _,
             requestAddress_length _ _ _ _, requestAddress_inner_length _ _ _ _⟩

/-! ### From the flat permutation to the function `(model, variable, device) ↦ address` -/

theorem flatMap_nodup_inj {α β : Type} (f : α → List β) (l : List α) (h : (l.flatMap f).Nodup) :
    ∀ (i j : Nat) (a b : α), l[i]? = some a → l[j]? = some b → ∀ x, x ∈ f a → x ∈ f b → i = j := by
  induction l with
  | nil => intro i j a b hi; simp at hi
  | cons c cs ih =>
    intro i j a b hi hj x hx hy
    rw [List.flatMap_cons, List.nodup_append] at h
    obtain ⟨_, h2, h3⟩ := h
    have inr : ∀ (k : Nat) (d : α), cs[k]? = some d → x ∈ f d → x ∈ cs.flatMap f := by
      intro k d hk hd
      exact List.mem_flatMap.mpr ⟨d, List.mem_of_getElem? hk, hd⟩
    cases i with
    | zero =>
      cases j with
      | zero => rfl
      | succ j' =>
        simp only [List.getElem?_cons_zero, Option.some.injEq] at hi
        simp only [List.getElem?_cons_succ] at hj
        subst hi
        exact absurd rfl (h3 x hx x (inr j' b hj hy))
    | succ i' =>
      cases j with
      | zero =>
        simp only [List.getElem?_cons_zero, Option.some.injEq] at hj
        simp only [List.getElem?_cons_succ] at hi
        subst hj
        exact absurd rfl (h3 x hy x (inr i' a hi hx))
      | succ j' =>
        simp only [List.getElem?_cons_succ] at hi hj
        rw [ih h2 i' j' a b hi hj x hx hy]

theorem flatMap_nodup_part {α β : Type} (f : α → List β) (l : List α) (h : (l.flatMap f).Nodup) (a : α)
    (ha : a ∈ l) : (f a).Nodup := (List.nodup_flatMap.mp h).1 a ha

theorem getElem?_nodup_inj {l : List Nat} (h : l.Nodup) {i j : Nat} {a : Nat} (hi : l[i]? = some a)
    (hj : l[j]? = some a) : i = j := by
  obtain ⟨hi', e1⟩ := List.getElem?_eq_some_iff.mp hi
  obtain ⟨hj', e2⟩ := List.getElem?_eq_some_iff.mp hj
  exact (List.Nodup.getElem_inj_iff h).mp (e1.trans e2.symm)

/-- injectivity of the address map, from `Nodup` of the flat view -/
theorem xAddr_inj (ms : List Mdl) (h : (xAddrs ms).Nodup) (mi vi di mi' vi' di' a : Nat)
    (h1 : xAddr ms mi vi di = some a) (h2 : xAddr ms mi' vi' di' = some a) : mi = mi' ∧ vi = vi' ∧ di = di' := by
  unfold xAddr at h1 h2
  simp only [Option.bind_eq_some_iff] at h1 h2
  obtain ⟨m, hm, l, hl, ha⟩ := h1
  obtain ⟨m', hm', l', hl', ha'⟩ := h2
  have mem1 : a ∈ m.xa.flatten := List.mem_flatten.mpr ⟨l, List.mem_of_getElem? hl, List.mem_of_getElem? ha⟩
  have mem2 : a ∈ m'.xa.flatten := List.mem_flatten.mpr ⟨l', List.mem_of_getElem? hl', List.mem_of_getElem? ha'⟩
  unfold xAddrs at h
  have e1 : mi = mi' := flatMap_nodup_inj (fun m : Mdl => m.xa.flatten) ms h mi mi' m m' hm hm' a mem1 mem2
  subst e1
  rw [hm] at hm'; cases hm'
  have hn : (m.xa.flatMap id).Nodup := by
    have := flatMap_nodup_part (fun m : Mdl => m.xa.flatten) ms h m (List.mem_of_getElem? hm)
    rw [List.flatMap_id]; exact this
  have e2 : vi = vi' := flatMap_nodup_inj id m.xa hn vi vi' l l' hl hl' a (List.mem_of_getElem? ha)
    (List.mem_of_getElem? ha')
  subst e2
  rw [hl] at hl'; cases hl'
  have hl_nd : l.Nodup := flatMap_nodup_part id m.xa hn l (List.mem_of_getElem? hl)
  exact ⟨rfl, rfl, getElem?_nodup_inj hl_nd ha ha'⟩

theorem yAddr_inj (ms : List Mdl) (h : (yAddrs ms).Nodup) (mi vi di mi' vi' di' a : Nat)
    (h1 : yAddr ms mi vi di = some a) (h2 : yAddr ms mi' vi' di' = some a) : mi = mi' ∧ vi = vi' ∧ di = di' := by
  unfold yAddr at h1 h2
  simp only [Option.bind_eq_some_iff] at h1 h2
  obtain ⟨m, hm, l, hl, ha⟩ := h1
  obtain ⟨m', hm', l', hl', ha'⟩ := h2
  have mem1 : a ∈ m.ya.flatten := List.mem_flatten.mpr ⟨l, List.mem_of_getElem? hl, List.mem_of_getElem? ha⟩
  have mem2 : a ∈ m'.ya.flatten := List.mem_flatten.mpr ⟨l', List.mem_of_getElem? hl', List.mem_of_getElem? ha'⟩
  unfold yAddrs at h
  have e1 : mi = mi' := flatMap_nodup_inj (fun m : Mdl => m.ya.flatten) ms h mi mi' m m' hm hm' a mem1 mem2
  subst e1
  rw [hm] at hm'; cases hm'
  have hn : (m.ya.flatMap id).Nodup := by
    have := flatMap_nodup_part (fun m : Mdl => m.ya.flatten) ms h m (List.mem_of_getElem? hm)
    rw [List.flatMap_id]; exact this
  have e2 : vi = vi' := flatMap_nodup_inj id m.ya hn vi vi' l l' hl hl' a (List.mem_of_getElem? ha)
    (List.mem_of_getElem? ha')
  subst e2
  rw [hl] at hl'; cases hl'
  have hl_nd : l.Nodup := flatMap_nodup_part id m.ya hn l (List.mem_of_getElem? hl)
  exact ⟨rfl, rfl, getElem?_nodup_inj hl_nd ha ha'⟩

theorem xAddr_of_mem (ms : List Mdl) (a : Nat) (h : a ∈ xAddrs ms) : ∃ mi vi di, xAddr ms mi vi di = some a := by
  unfold xAddrs at h
  obtain ⟨m, hm, ha⟩ := List.mem_flatMap.mp h
  obtain ⟨l, hl, hal⟩ := List.mem_flatten.mp ha
  obtain ⟨mi, hmi⟩ := List.mem_iff_getElem?.mp hm
  obtain ⟨vi, hvi⟩ := List.mem_iff_getElem?.mp hl
  obtain ⟨di, hdi⟩ := List.mem_iff_getElem?.mp hal
  exact ⟨mi, vi, di, by simp [xAddr, hmi, hvi, hdi]⟩

theorem yAddr_of_mem (ms : List Mdl) (a : Nat) (h : a ∈ yAddrs ms) : ∃ mi vi di, yAddr ms mi vi di = some a := by
  unfold yAddrs at h
  obtain ⟨m, hm, ha⟩ := List.mem_flatMap.mp h
  obtain ⟨l, hl, hal⟩ := List.mem_flatten.mp ha
  obtain ⟨mi, hmi⟩ := List.mem_iff_getElem?.mp hm
  obtain ⟨vi, hvi⟩ := List.mem_iff_getElem?.mp hl
  obtain ⟨di, hdi⟩ := List.mem_iff_getElem?.mp hal
  exact ⟨mi, vi, di, by simp [yAddr, hmi, hvi, hdi]⟩

theorem mem_of_xAddr (ms : List Mdl) (mi vi di a : Nat) (h : xAddr ms mi vi di = some a) : a ∈ xAddrs ms := by
  unfold xAddr at h
  simp only [Option.bind_eq_some_iff] at h
  obtain ⟨m, hm, l, hl, ha⟩ := h
  exact List.mem_flatMap.mpr ⟨m, List.mem_of_getElem? hm,
    List.mem_flatten.mpr ⟨l, List.mem_of_getElem? hl, List.mem_of_getElem? ha⟩⟩

theorem mem_of_yAddr (ms : List Mdl) (mi vi di a : Nat) (h : yAddr ms mi vi di = some a) : a ∈ yAddrs ms := by
  unfold yAddr at h
  simp only [Option.bind_eq_some_iff] at h
  obtain ⟨m, hm, l, hl, ha⟩ := h
  exact List.mem_flatMap.mpr ⟨m, List.mem_of_getElem? hm,
    List.mem_flatten.mpr ⟨l, List.mem_of_getElem? hl, List.mem_of_getElem? ha⟩⟩

/-! ### Names -/

theorem writeNames_cons (names : List String) (kv : Nat × String) (kvs : List (Nat × String)) :
    writeNames names (kv :: kvs) = writeNames (names.set kv.1 kv.2) kvs := rfl

theorem writeNames_length (kvs : List (Nat × String)) : ∀ names, (writeNames names kvs).length = names.length := by
  induction kvs with
  | nil => intro names; rfl
  | cons kv kvs ih => intro names; rw [writeNames_cons, ih]; simp

theorem writeNames_other (kvs : List (Nat × String)) : ∀ (names : List String) (a : Nat),
    a ∉ kvs.map (·.1) → (writeNames names kvs)[a]? = names[a]? := by
  induction kvs with
  | nil => intro names a _; rfl
  | cons kv kvs ih =>
    intro names a h
    simp only [List.map_cons, List.mem_cons, not_or] at h
    rw [writeNames_cons, ih _ a h.2, List.getElem?_set]
    simp [Ne.symm h.1]

/-- every written pair is there afterwards, provided no address is written twice -/
theorem writeNames_get (kvs : List (Nat × String)) : ∀ (names : List String), (kvs.map (·.1)).Nodup →
    ∀ kv ∈ kvs, kv.1 < names.length → (writeNames names kvs)[kv.1]? = some kv.2 := by
  induction kvs with
  | nil => intro names _ kv h; simp at h
  | cons kv0 kvs ih =>
    intro names hnd kv hkv hlt
    simp only [List.map_cons, List.nodup_cons] at hnd
    rw [writeNames_cons]
    rcases List.mem_cons.mp hkv with h | h
    · subst h
      rw [writeNames_other kvs _ _ hnd.1, List.getElem?_set]
      simp [hlt]
    · exact ih _ hnd.2 kv h (by simpa using hlt)

theorem zip_map_snd_sublist {α β : Type} : ∀ (l1 : List α) (l2 : List β), ((l1.zip l2).map Prod.snd).Sublist l2 := by
  intro l1
  induction l1 with
  | nil => intro l2; simp
  | cons a l1 ih =>
    intro l2
    cases l2 with
    | nil => simp
    | cons b l2 => simp only [List.zip_cons_cons, List.map_cons]; exact (ih l2).cons₂ b

theorem slotsOfVars_keys_sublist (mdl : String) (idx : List Idx) : ∀ (vars : List String) (as : List (List Nat)),
    ((slotsOfVars mdl idx vars as).map Prod.fst).Sublist as.flatten := by
  intro vars
  induction vars with
  | nil => intro as; simp [slotsOfVars]
  | cons v vars ih =>
    intro as
    cases as with
    | nil => simp [slotsOfVars]
    | cons a as =>
      unfold slotsOfVars
      simp only [List.zip_cons_cons, List.flatMap_cons, List.map_append, List.flatten_cons]
      apply List.Sublist.append
      · have : List.map Prod.fst (List.map (fun ia : Idx × Nat => (ia.2, slotName v mdl ia.1)) (idx.zip a)) =
            (idx.zip a).map Prod.snd := by simp
        rw [this]; exact zip_map_snd_sublist idx a
      · exact ih as

theorem modelSlots_keys_sublist (sel : Mdl → Bool) (ms : List Mdl) :
    (((ms.filter sel).flatMap Mdl.xSlots).map Prod.fst).Sublist (xAddrs ms) := by
  induction ms with
  | nil => simp [xAddrs]
  | cons m ms ih =>
    rw [xAddrs_cons, List.filter_cons]
    split_ifs
    · simp only [List.flatMap_cons, List.map_append]
      exact List.Sublist.append (slotsOfVars_keys_sublist _ _ _ _) ih
    · exact ih.trans (List.sublist_append_right _ _)

theorem modelSlots_keys_sublist_y (sel : Mdl → Bool) (ms : List Mdl) :
    (((ms.filter sel).flatMap Mdl.ySlots).map Prod.fst).Sublist (yAddrs ms) := by
  induction ms with
  | nil => simp [yAddrs]
  | cons m ms ih =>
    rw [yAddrs_cons, List.filter_cons]
    split_ifs
    · simp only [List.flatMap_cons, List.map_append]
      exact List.Sublist.append (slotsOfVars_keys_sublist _ _ _ _) ih
    · exact ih.trans (List.sublist_append_right _ _)

/-! ### Links -/

theorem uidOf_get (l : List Idx) (i : Idx) : ∀ u, uidOf l i = some u → l[u]? = some i := by
  induction l with
  | nil => intro u h; simp [uidOf] at h
  | cons j rest ih =>
    intro u h
    unfold uidOf at h
    split_ifs at h with hj
    · cases h; simp [hj]
    · simp only [Option.map_eq_some_iff] at h
      obtain ⟨u', hu', rfl⟩ := h
      simpa using ih u' hu'

theorem uidOf_of_get (l : List Idx) (hnd : l.Nodup) (i : Idx) : ∀ u, l[u]? = some i → uidOf l i = some u := by
  induction l with
  | nil => intro u h; simp at h
  | cons j rest ih =>
    intro u h
    rw [List.nodup_cons] at hnd
    unfold uidOf
    cases u with
    | zero => simp at h; simp [h]
    | succ u' =>
      simp only [List.getElem?_cons_succ] at h
      have hne : j ≠ i := by
        intro e; subst e; exact hnd.1 (List.mem_of_getElem? h)
      simp [hne, ih hnd.2 u' h]

theorem mapM_get {α β : Type} (f : α → Option β) : ∀ (l : List α) (r : List β), l.mapM f = some r →
    ∀ (j : Nat) (x : α), l[j]? = some x → ∃ y, r[j]? = some y ∧ f x = some y := by
  intro l
  induction l with
  | nil => intro r _ j x hx; simp at hx
  | cons a l ih =>
    intro r h j x hx
    rw [List.mapM_cons] at h
    cases hfa : f a with
    | none => rw [hfa] at h; simp at h
    | some y0 =>
      rw [hfa] at h
      cases hl : l.mapM f with
      | none => rw [hl] at h; simp at h
      | some r0 =>
        rw [hl] at h
        simp at h
        subst h
        cases j with
        | zero => simp at hx; subst hx; exact ⟨y0, by simp, hfa⟩
        | succ j' =>
          simp only [List.getElem?_cons_succ] at hx ⊢
          exact ih r0 hl j' x hx

theorem mapM_length {α β : Type} (f : α → Option β) : ∀ (l : List α) (r : List β), l.mapM f = some r →
    r.length = l.length := by
  intro l
  induction l with
  | nil => intro r h; simp at h; subst h; rfl
  | cons a l ih =>
    intro r h
    rw [List.mapM_cons] at h
    cases hfa : f a with
    | none => rw [hfa] at h; simp at h
    | some y0 =>
      rw [hfa] at h
      cases hl : l.mapM f with
      | none => rw [hl] at h; simp at h
      | some r0 =>
        rw [hl] at h; simp at h; subst h
        simp [ih r0 hl]

end Andes.Address
