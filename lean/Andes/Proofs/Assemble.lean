import Andes.Model.Assemble
import Andes.Proofs.Line
import Mathlib.Data.Real.Basic
import Mathlib.Data.List.Basic
import Mathlib.Algebra.BigOperators.Group.List.Basic
import Mathlib.Tactic.Ring
import Mathlib.Tactic.FieldSimp
import Mathlib.Tactic.Linarith
import Mathlib.Tactic.NormNum.OfScientific

namespace Andes.PFlow

theorem zero_lit : (0.0 : ℝ) = 0 := by norm_num

/-- the sum of all contributions addressed to `k` -/
def sumAt (cs : List (Nat × ℝ)) (k : Nat) : ℝ := (cs.map (fun c => if c.1 = k then c.2 else 0)).sum

theorem sumAt_nil (k : Nat) : sumAt [] k = 0 := rfl
theorem sumAt_cons (c : Nat × ℝ) (cs : List (Nat × ℝ)) (k : Nat) :
    sumAt (c :: cs) k = (if c.1 = k then c.2 else 0) + sumAt cs k := by simp [sumAt]
theorem sumAt_append (a b : List (Nat × ℝ)) (k : Nat) : sumAt (a ++ b) k = sumAt a k + sumAt b k := by
  simp [sumAt]
theorem sumAt_map {β : Type} (l : List β) (f : β → Nat) (g : β → ℝ) (k : Nat) :
    sumAt (l.map (fun e => (f e, g e))) k = (l.map (fun e => if f e = k then g e else 0)).sum := by
  simp [sumAt, Function.comp_def]
theorem sumAt_perm {a b : List (Nat × ℝ)} (h : a.Perm b) (k : Nat) : sumAt a k = sumAt b k :=
  (h.map _).sum_eq

theorem sum_map_zero {β : Type} (l : List β) (f : β → ℝ) (h : ∀ x ∈ l, f x = 0) : (l.map f).sum = 0 := by
  induction l with
  | nil => rfl
  | cons a l ih =>
    simp only [List.map_cons, List.sum_cons]
    rw [h a (by simp), ih (fun x hx => h x (by simp [hx]))]; ring

theorem addAt_length (l : List ℝ) (i : Nat) (x : ℝ) : (addAt l i x).length = l.length := by
  induction l generalizing i with
  | nil => rfl
  | cons a l ih => cases i <;> simp [addAt, ih]

theorem getD_addAt (l : List ℝ) (i : Nat) (x : ℝ) (k : Nat) (hk : k < l.length) :
    (addAt l i x).getD k 0 = l.getD k 0 + (if i = k then x else 0) := by
  induction l generalizing i k with
  | nil => simp at hk
  | cons a l ih =>
    cases i with
    | zero => cases k with
      | zero => simp [addAt]
      | succ k => simp [addAt]
    | succ i => cases k with
      | zero => simp [addAt]
      | succ k =>
        simp only [addAt, List.getD_cons_succ]
        rw [ih i k (by simpa using hk)]
        simp

theorem foldl_addAt_length (cs : List (Nat × ℝ)) (g : List ℝ) :
    (cs.foldl (fun g c => addAt g c.1 c.2) g).length = g.length := by
  induction cs generalizing g with
  | nil => rfl
  | cons c cs ih => simp [ih, addAt_length]

theorem foldl_addAt_getD (cs : List (Nat × ℝ)) (g : List ℝ) (k : Nat) (hk : k < g.length) :
    (cs.foldl (fun g c => addAt g c.1 c.2) g).getD k 0 = g.getD k 0 + sumAt cs k := by
  induction cs generalizing g with
  | nil => simp [sumAt]
  | cons c cs ih =>
    simp only [List.foldl_cons]
    rw [ih _ (by rw [addAt_length]; exact hk), getD_addAt _ _ _ _ hk, sumAt_cons]; ring

theorem scatter_length (n : Nat) (cs : List (Nat × ℝ)) : (scatter n cs).length = n := by
  unfold scatter; rw [foldl_addAt_length]; simp

/-- **`np.add.at` accumulates**: entry `k` of the scattered array is the sum of the contributions
addressed to `k`, for every list of contributions -/
theorem scatter_getD (n : Nat) (cs : List (Nat × ℝ)) (k : Nat) (hk : k < n) :
    (scatter n cs).getD k 0 = sumAt cs k := by
  unfold scatter
  rw [foldl_addAt_getD _ _ _ (by simpa using hk)]
  simp [zero_lit, List.getD_eq_getElem?_getD, hk]


theorem sumAt_map_ne {β : Type} (l : List β) (f : β → Nat) (g : β → ℝ) (k : Nat) (h : ∀ e ∈ l, f e ≠ k) :
    sumAt (l.map (fun e => (f e, g e))) k = 0 := by
  rw [sumAt_map]; exact sum_map_zero _ _ (fun e he => if_neg (h e he))

open Andes.Gen.PFlowEqs

/-- every device sits at an existing bus -/
structure RNet.WF (r : RNet ℝ) : Prop where
  pqs : ∀ e ∈ r.pqs, e.pos < r.nb
  pvs : ∀ e ∈ r.pvs, e.pos < r.nb
  slacks : ∀ e ∈ r.slacks, e.pos < r.nb
  shunts : ∀ e ∈ r.shunts, e.pos < r.nb
  lines : ∀ e ∈ r.lines, e.p1 < r.nb ∧ e.p2 < r.nb

/-- sum of the active-power (`a`) equations of the devices connected to bus `k` -/
noncomputable def busP (r : RNet ℝ) (y : List ℝ) (k : Nat) : ℝ :=
  (r.pqs.map (fun e => if e.pos = k then PQ_a e.d e.z (yAt y e.pos) (yAt y (r.nb + e.pos)) else 0)).sum +
  (r.pvs.zipIdx.map (fun ek => if ek.1.pos = k then
      PV_a ek.1.d ek.1.zq (yAt y ek.1.pos) (yAt y (r.nb + ek.1.pos)) (yAt y (r.qPV ek.2)) else 0)).sum +
  (r.slacks.zipIdx.map (fun ek => if ek.1.pos = k then
      Slack_a ek.1.d ek.1.zq ek.1.zp (yAt y ek.1.pos) (yAt y (r.nb + ek.1.pos)) (yAt y (r.qSl ek.2)) (yAt y (r.pSl ek.2)) else 0)).sum +
  (r.shunts.map (fun e => if e.pos = k then Shunt_a e.d (yAt y e.pos) (yAt y (r.nb + e.pos)) else 0)).sum +
  (r.lines.map (fun e => if e.p1 = k then
      Line_a1 e.d (yAt y e.p1) (yAt y (r.nb + e.p1)) (yAt y e.p2) (yAt y (r.nb + e.p2)) else 0)).sum +
  (r.lines.map (fun e => if e.p2 = k then
      Line_a2 e.d (yAt y e.p1) (yAt y (r.nb + e.p1)) (yAt y e.p2) (yAt y (r.nb + e.p2)) else 0)).sum

/-- sum of the reactive-power (`v`) equations of the devices connected to bus `k` -/
noncomputable def busQ (r : RNet ℝ) (y : List ℝ) (k : Nat) : ℝ :=
  (r.pqs.map (fun e => if e.pos = k then PQ_v e.d e.z (yAt y e.pos) (yAt y (r.nb + e.pos)) else 0)).sum +
  (r.pvs.zipIdx.map (fun ek => if ek.1.pos = k then
      PV_v ek.1.d ek.1.zq (yAt y ek.1.pos) (yAt y (r.nb + ek.1.pos)) (yAt y (r.qPV ek.2)) else 0)).sum +
  (r.slacks.zipIdx.map (fun ek => if ek.1.pos = k then
      Slack_v ek.1.d ek.1.zq ek.1.zp (yAt y ek.1.pos) (yAt y (r.nb + ek.1.pos)) (yAt y (r.qSl ek.2)) (yAt y (r.pSl ek.2)) else 0)).sum +
  (r.shunts.map (fun e => if e.pos = k then Shunt_v e.d (yAt y e.pos) (yAt y (r.nb + e.pos)) else 0)).sum +
  (r.lines.map (fun e => if e.p1 = k then
      Line_v1 e.d (yAt y e.p1) (yAt y (r.nb + e.p1)) (yAt y e.p2) (yAt y (r.nb + e.p2)) else 0)).sum +
  (r.lines.map (fun e => if e.p2 = k then
      Line_v2 e.d (yAt y e.p1) (yAt y (r.nb + e.p1)) (yAt y e.p2) (yAt y (r.nb + e.p2)) else 0)).sum

theorem gRaw_length (r : RNet ℝ) (y : List ℝ) : (gRaw r y).length = r.size := scatter_length _ _

theorem gRaw_bus_a (r : RNet ℝ) (y : List ℝ) (k : Nat) (hk : k < r.nb) :
    (gRaw r y).getD k 0 = busP r y k := by
  unfold gRaw
  rw [scatter_getD _ _ _ (by unfold RNet.size; omega)]
  unfold contribs busP
  simp only [sumAt_append]
  have z1 : sumAt (cPQv r y) k = 0 := sumAt_map_ne _ _ _ _ (fun e _ => by omega)
  have z2 : sumAt (cPVv r y) k = 0 := sumAt_map_ne _ _ _ _ (fun e _ => by omega)
  have z3 : sumAt (cSlv r y) k = 0 := sumAt_map_ne _ _ _ _ (fun e _ => by omega)
  have z4 : sumAt (cShv r y) k = 0 := sumAt_map_ne _ _ _ _ (fun e _ => by omega)
  have z5 : sumAt (cLv1 r y) k = 0 := sumAt_map_ne _ _ _ _ (fun e _ => by omega)
  have z6 : sumAt (cLv2 r y) k = 0 := sumAt_map_ne _ _ _ _ (fun e _ => by omega)
  have z7 : sumAt (cPVq r y) k = 0 := sumAt_map_ne _ _ _ _ (fun e _ => by unfold RNet.qPV; omega)
  have z8 : sumAt (cSlq r y) k = 0 := sumAt_map_ne _ _ _ _ (fun e _ => by unfold RNet.qSl; omega)
  have z9 : sumAt (cSlp r y) k = 0 := sumAt_map_ne _ _ _ _ (fun e _ => by unfold RNet.pSl; omega)
  rw [z1, z2, z3, z4, z5, z6, z7, z8, z9]
  unfold cPQa cPVa cSla cSha cLa1 cLa2
  simp only [sumAt_map]
  ring

theorem gRaw_bus_v (r : RNet ℝ) (y : List ℝ) (wf : r.WF) (k : Nat) (hk : k < r.nb) :
    (gRaw r y).getD (r.nb + k) 0 = busQ r y k := by
  unfold gRaw
  rw [scatter_getD _ _ _ (by unfold RNet.size; omega)]
  unfold contribs busQ
  simp only [sumAt_append]
  have z1 : sumAt (cPQa r y) (r.nb + k) = 0 := sumAt_map_ne _ _ _ _ (fun e he => by have := wf.pqs e he; omega)
  have z2 : sumAt (cPVa r y) (r.nb + k) = 0 :=
    sumAt_map_ne _ _ _ _ (fun e he => by have := wf.pvs e.1 (List.fst_mem_of_mem_zipIdx he); omega)
  have z3 : sumAt (cSla r y) (r.nb + k) = 0 :=
    sumAt_map_ne _ _ _ _ (fun e he => by have := wf.slacks e.1 (List.fst_mem_of_mem_zipIdx he); omega)
  have z4 : sumAt (cSha r y) (r.nb + k) = 0 := sumAt_map_ne _ _ _ _ (fun e he => by have := wf.shunts e he; omega)
  have z5 : sumAt (cLa1 r y) (r.nb + k) = 0 := sumAt_map_ne _ _ _ _ (fun e he => by have := wf.lines e he; omega)
  have z6 : sumAt (cLa2 r y) (r.nb + k) = 0 := sumAt_map_ne _ _ _ _ (fun e he => by have := wf.lines e he; omega)
  have z7 : sumAt (cPVq r y) (r.nb + k) = 0 := sumAt_map_ne _ _ _ _ (fun e _ => by unfold RNet.qPV; omega)
  have z8 : sumAt (cSlq r y) (r.nb + k) = 0 := sumAt_map_ne _ _ _ _ (fun e _ => by unfold RNet.qSl; omega)
  have z9 : sumAt (cSlp r y) (r.nb + k) = 0 := sumAt_map_ne _ _ _ _ (fun e _ => by unfold RNet.pSl; omega)
  rw [z1, z2, z3, z4, z5, z6, z7, z8, z9]
  unfold cPQv cPVv cSlv cShv cLv1 cLv2
  simp only [sumAt_map, Nat.add_left_cancel_iff]
  ring

theorem zeroAt_length (l : List ℝ) (i : Nat) : (zeroAt l i).length = l.length := by
  induction l generalizing i with
  | nil => rfl
  | cons a l ih => cases i <;> simp [zeroAt, ih]

theorem getD_zeroAt_ne (l : List ℝ) (i k : Nat) (h : i ≠ k) : (zeroAt l i).getD k 0 = l.getD k 0 := by
  induction l generalizing i k with
  | nil => simp [zeroAt]
  | cons a l ih =>
    cases i with
    | zero => cases k with
      | zero => exact absurd rfl h
      | succ k => simp [zeroAt]
    | succ i => cases k with
      | zero => simp [zeroAt]
      | succ k => simp only [zeroAt, List.getD_cons_succ]; exact ih i k (by omega)

theorem getD_zeroAt_self (l : List ℝ) (i : Nat) : (zeroAt l i).getD i 0 = 0 := by
  induction l generalizing i with
  | nil => simp [zeroAt]
  | cons a l ih =>
    cases i with
    | zero => simp [zeroAt, zero_lit]
    | succ i => simp only [zeroAt, List.getD_cons_succ]; exact ih i

/-- `g_islands` leaves every row that is not a bus equation of an islanded bus untouched -/
theorem gIslands_getD_of_not_mem (nb : Nat) (g : List ℝ) (isl : List Nat) (j : Nat)
    (h : ∀ p ∈ isl, p ≠ j ∧ nb + p ≠ j) : (gIslands nb g isl).getD j 0 = g.getD j 0 := by
  unfold gIslands
  induction isl generalizing g with
  | nil => rfl
  | cons p isl ih =>
    simp only [List.foldl_cons]
    rw [ih _ (fun q hq => h q (by simp [hq]))]
    have := h p (by simp)
    rw [getD_zeroAt_ne _ _ _ this.2, getD_zeroAt_ne _ _ _ this.1]

theorem busPos_map (ρ : Idx → Idx) (hρ : Function.Injective ρ) (ids : List Idx) (i : Idx) :
    busPos (ids.map ρ) (ρ i) = busPos ids i := by
  unfold busPos
  induction ids with
  | nil => rfl
  | cons a l ih =>
    have hb : (ρ a == ρ i) = (a == i) := by rw [Bool.eq_iff_iff]; simp [hρ.eq_iff]
    simp [List.idxOf_cons, hb, ih]

theorem busPos_map' (ρ : Idx → Idx) (hρ : Function.Injective ρ) {β : Type} (bs : List (Idx × β)) (i : Idx) :
    busPos ((bs.map (fun b => (ρ b.1, b.2))).map (·.1)) (ρ i) = busPos (bs.map (·.1)) i := by
  have := busPos_map ρ hρ (bs.map (·.1)) i
  rw [List.map_map] at this
  rw [List.map_map]
  exact this

/-- the same network with every index renamed by `ρ` (e.g. numbers ↔ strings) -/
def renameNet (ρ : Idx → Idx) (net : Net ℝ) : Net ℝ :=
  { sb := net.sb
    buses := net.buses.map (fun b => (ρ b.1, b.2))
    pqs := net.pqs.map (fun e => { e with bus := ρ e.bus })
    pvs := net.pvs.map (fun e => { e with bus := ρ e.bus })
    slacks := net.slacks.map (fun e => { e with bus := ρ e.bus })
    shunts := net.shunts.map (fun e => { e with bus := ρ e.bus })
    lines := net.lines.map (fun e => { e with bus1 := ρ e.bus1, bus2 := ρ e.bus2 })
    islanded := net.islanded }

/-- in-band operation and well-formed branch data -/
structure RNet.Normal (r : RNet ℝ) : Prop where
  line_u : ∀ e ∈ r.lines, e.d.u = 0 ∨ e.d.u = 1
  line_tap : ∀ e ∈ r.lines, e.d.tap ≠ 0
  pq_band : ∀ e ∈ r.pqs, e.z.zi = 1 ∧ e.z.zl = 0 ∧ e.z.zu = 0

/-- every branch has the same shunt at both ends (the case in which the to-side equations are right) -/
def RNet.SymShunts (r : RNet ℝ) : Prop := ∀ e ∈ r.lines, e.d.g1 = e.d.g2 ∧ e.d.b1 = e.d.b2

open Complex in
/-- complex power leaving bus `k` into the devices described by the input data, minus the generation
there: loads `u(p0 + j q0)`, shunts `u v² conj(g + jb)`, both ends of every branch by the complex π-model,
`PV` generation `u(p0 + j q)`, `Slack` generation `u(p + j q)` -/
noncomputable def Sbus (r : RNet ℝ) (y : List ℝ) (k : Nat) : ℂ :=
  (r.pqs.map (fun e => if e.pos = k then (((e.d.u * e.d.p0 : ℝ) : ℂ) + ((e.d.u * e.d.q0 : ℝ) : ℂ) * I) else 0)).sum +
  (r.pvs.zipIdx.map (fun ek => if ek.1.pos = k then
      -(((ek.1.d.u * ek.1.d.p0 : ℝ) : ℂ) + ((ek.1.d.u * yAt y (r.qPV ek.2) : ℝ) : ℂ) * I) else 0)).sum +
  (r.slacks.zipIdx.map (fun ek => if ek.1.pos = k then
      -(((ek.1.d.u * yAt y (r.pSl ek.2) : ℝ) : ℂ) + ((ek.1.d.u * yAt y (r.qSl ek.2) : ℝ) : ℂ) * I) else 0)).sum +
  (r.shunts.map (fun e => if e.pos = k then
      ((e.d.u * yAt y (r.nb + e.pos) ^ 2 : ℝ) : ℂ) * starRingEnd ℂ ((e.d.g : ℂ) + (e.d.b : ℂ) * I) else 0)).sum +
  (r.lines.map (fun e => if e.p1 = k then
      Sfrom (phasor (yAt y (r.nb + e.p1)) (yAt y e.p1)) (phasor (yAt y (r.nb + e.p2)) (yAt y e.p2))
        (phasor e.d.tap e.d.phi) (yser e.d) (yh e.d) else 0)).sum +
  (r.lines.map (fun e => if e.p2 = k then
      Sto (phasor (yAt y (r.nb + e.p1)) (yAt y e.p1)) (phasor (yAt y (r.nb + e.p2)) (yAt y e.p2))
        (phasor e.d.tap e.d.phi) (yser e.d) (yk e.d) else 0)).sum

end Andes.PFlow
