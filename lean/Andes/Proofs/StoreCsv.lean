import Andes.Model.Store
import Mathlib.Tactic.Linarith
import Mathlib.Tactic.NormNum
import Mathlib.Tactic.Ring
import Mathlib.Algebra.Order.Field.Rat
import Mathlib.Data.List.Basic
import Mathlib.Data.List.Range
/-! The csv replay loop of `Andes/Model/Store.lean` over exact rationals: closed form of the accepted steps. -/
namespace Andes.Store

theorem zero_lit : (0.0 : ℚ) = 0 := by norm_num

/-- from a loop head with `k_csv = j`, stamp `T`: the remaining passes store `(T, j)` and then every later
csv row under its own time -/
theorem csvLoop_from (times : List ℚ) (tf : ℚ) (N : Nat) (hN : times.length = N)
    (hlast : times[N - 1]? = some tf) (hinc : times.Pairwise (· < ·)) :
    ∀ (m j : Nat) (T H : ℚ) (acc : List (ℚ × Nat)) (fuel : Nat), j + m + 1 = N →
      T - H < tf → (m ≠ 0 → T < tf) → (m = 0 → T = tf) → m + 2 ≤ fuel →
      csvLoop times tf fuel ⟨T, H, j⟩ acc =
        (acc ++ (T, j) :: (List.range' (j + 1) m).map (fun k => (times.getD k 0, k)), false) := by
  intro m
  induction m with
  | zero =>
    intro j T H acc fuel hj hg _ hT hf
    obtain ⟨f, rfl⟩ : ∃ f, fuel = f + 2 := ⟨fuel - 2, by omega⟩
    have hnone : times[j + 1]? = none := by
      apply List.getElem?_eq_none; omega
    have hTT : T = tf := hT rfl
    simp only [csvLoop, hg, ↓reduceIte, csvCalcH, hnone, zero_lit, add_zero, sub_zero]
    subst hTT
    simp
  | succ m ih =>
    intro j T H acc fuel hj hg hT _ hf
    obtain ⟨f, rfl⟩ : ∃ f, fuel = f + 1 := ⟨fuel - 1, by omega⟩
    have hlt : j + 1 < times.length := by omega
    have hsome : times[j + 1]? = some times[j + 1] := List.getElem?_eq_getElem hlt
    have hx : times.getD (j + 1) 0 = times[j + 1] := by simp [List.getD_eq_getElem?_getD, hsome]
    have hTlt : T < tf := hT (by omega)
    simp only [csvLoop, hg, ↓reduceIte, csvCalcH, hsome]
    have hsum : T + (times[j + 1] - T) = times[j + 1] := by ring
    rw [hsum]
    have hlastlt : N - 1 < times.length := by omega
    have htf : times[N - 1] = tf := by
      have := List.getElem?_eq_getElem hlastlt
      rw [this] at hlast; exact Option.some.inj hlast
    rw [ih (j + 1) times[j + 1] (times[j + 1] - T) (acc ++ [(T, j)]) f (by omega) (by linarith)
      (fun hm => by
        have hjl : j + 1 < N - 1 := by omega
        have := (List.pairwise_iff_getElem.mp hinc) (j + 1) (N - 1) hlt hlastlt hjl
        rw [htf] at this; exact this)
      (fun hm => by
        have hjl : j + 1 = N - 1 := by omega
        simp only [hjl]; exact htf)
      (by omega)]
    simp [List.range'_succ, List.getD_eq_getElem?_getD, hsome]

/-- closed form of a replay: for a csv with at least 3 rows and strictly increasing non-negative times the
accepted steps are `(0, row 1)` followed by `(τ_k, row k)` for `k = 2 … N-1`, and the loop terminates -/
theorem csvSteps_closed (times : List ℚ) (hN : 3 ≤ times.length) (hinc : times.Pairwise (· < ·))
    (h0 : 0 ≤ times.getD 0 0) :
    csvSteps times =
      ((0, 1) :: (List.range' 2 (times.length - 2)).map (fun k => (times.getD k 0, k)), false) := by
  have hlast : times.getLast? = times[times.length - 1]? := List.getLast?_eq_getElem? (l := times)
  have hl1 : times.length - 1 < times.length := by omega
  have hsome : times[times.length - 1]? = some times[times.length - 1] := List.getElem?_eq_getElem hl1
  have h1 : (1 : Nat) < times.length := by omega
  have h0' : (0 : Nat) < times.length := by omega
  have hs1 : times[0 + 1]? = some times[1] := List.getElem?_eq_getElem h1
  have ht0 : times.getD 0 0 = times[0] := by simp [List.getD_eq_getElem?_getD, List.getElem?_eq_getElem h0']
  have hp := List.pairwise_iff_getElem.mp hinc
  have h01 : times[0] < times[1] := hp 0 1 h0' h1 (by omega)
  have h1l : times[1] < times[times.length - 1] := hp 1 (times.length - 1) h1 hl1 (by omega)
  rw [ht0] at h0
  unfold csvSteps
  rw [hlast, hsome]
  simp only [csvInit, csvCalcH, hs1, zero_lit]
  have := csvLoop_from times times[times.length - 1] times.length rfl hsome hinc (times.length - 2) 1 0
    (times[1] - 0) [] (times.length + 2) (by omega) (by linarith) (fun _ => by linarith) (fun h => by omega)
    (by omega)
  rw [this]
  simp

end Andes.Store
