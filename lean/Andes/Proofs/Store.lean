import Andes.Model.Store
import Mathlib.Data.List.Basic
import Mathlib.Data.List.Induction
import Mathlib.Tactic.Linarith
/-! Lemmas about the storage model (`Andes/Model/Store.lean`). -/
set_option linter.unusedSectionVars false
set_option linter.unusedVariables false
namespace Andes.Store

section dict
variable {τ ρ : Type} [BEq τ] [LawfulBEq τ]

theorem dictSet_fresh (k : τ) (v : ρ) (l : List (τ × ρ)) (h : ∀ p ∈ l, p.1 ≠ k) :
    dictSet k v l = l ++ [(k, v)] := by
  induction l with
  | nil => rfl
  | cons p r ih =>
    have hp : p.1 ≠ k := h p (by simp)
    have : (p.1 == k) = false := by simpa using hp
    simp [dictSet, this, ih (fun q hq => h q (by simp [hq]))]

/-- a repeated key replaces the value and adds no row -/
theorem dictSet_length_of_mem (k : τ) (v : ρ) (l : List (τ × ρ)) (h : ∃ p ∈ l, p.1 = k) :
    (dictSet k v l).length = l.length := by
  induction l with
  | nil => simp at h
  | cons p r ih =>
    by_cases hp : p.1 = k
    · simp [dictSet, hp]
    · have : (p.1 == k) = false := by simpa using hp
      obtain ⟨q, hq, hqk⟩ := h
      have hq' : q ∈ r := by
        rcases List.mem_cons.mp hq with rfl | hq'
        · exact absurd hqk hp
        · exact hq'
      simp [dictSet, this, ih ⟨q, hq', hqk⟩]

theorem dictSet_map {ρ' : Type} (f : ρ → ρ') (k : τ) (v : ρ) (l : List (τ × ρ)) :
    dictSet k (f v) (mapRows f l) = mapRows f (dictSet k v l) := by
  induction l with
  | nil => rfl
  | cons p r ih =>
    by_cases hp : (p.1 == k) = true
    · simp [dictSet, mapRows, hp]
    · have hp' : (p.1 == k) = false := by simpa using hp
      simp only [mapRows] at ih
      simp [dictSet, mapRows, hp', ih]

end dict

section machine
variable {τ ρ : Type} [BEq τ]

@[simp] theorem mapRows_length {ρ' : Type} (f : ρ → ρ') (l : List (τ × ρ)) : (mapRows f l).length = l.length := by
  simp [mapRows]
@[simp] theorem mapRows_drop {ρ' : Type} (f : ρ → ρ') (l : List (τ × ρ)) (n : Nat) :
    (mapRows f l).drop n = mapRows f (l.drop n) := by simp [mapRows]
@[simp] theorem mapRows_append {ρ' : Type} (f : ρ → ρ') (a b : List (τ × ρ)) :
    mapRows f (a ++ b) = mapRows f a ++ mapRows f b := by simp [mapRows]
@[simp] theorem mapRows_nil {ρ' : Type} (f : ρ → ρ') : mapRows f ([] : List (τ × ρ)) = [] := rfl
@[simp] theorem mapRows_isEmpty {ρ' : Type} (f : ρ → ρ') (l : List (τ × ρ)) :
    (mapRows f l).isEmpty = l.isEmpty := by cases l <;> simp [mapRows]

theorem kept_append (c : Cfg) (k : Nat) (a b : List (τ × ρ)) :
    kept c k (a ++ b) = kept c k a ++ kept c (k + a.length) b := by
  induction a generalizing k with
  | nil => simp [kept]
  | cons r rs ih =>
    simp only [List.cons_append, kept, List.length_cons]
    split <;> simp [ih, Nat.add_assoc, Nat.add_comm 1]

theorem kept_sublist (c : Cfg) (k : Nat) (a : List (τ × ρ)) : (kept c k a).Sublist a := by
  induction a generalizing k with
  | nil => simp [kept]
  | cons r rs ih =>
    simp only [kept]
    split
    · exact (ih _).cons_cons _
    · exact (ih _).cons _

theorem kept_map {ρ' : Type} (f : ρ → ρ') (c : Cfg) (k : Nat) (a : List (τ × ρ)) :
    kept c k (mapRows f a) = mapRows f (kept c k a) := by
  induction a generalizing k with
  | nil => rfl
  | cons r rs ih =>
    have : mapRows f (r :: rs) = (r.1, f r.2) :: mapRows f rs := rfl
    rw [this]
    simp only [kept]
    split
    · rw [ih]; rfl
    · exact ih _

/-! #### bookkeeping: `kcount` -/
@[simp] theorem writeNpz_kcount (c : Cfg) (s : St τ ρ) : (writeNpz c s).kcount = s.kcount := by
  unfold writeNpz touch unpack; split <;> [rfl; (split <;> [rfl; (split <;> rfl)])]
@[simp] theorem saveOutput_kcount (c : Cfg) (s : St τ ρ) : (saveOutput c s).kcount = s.kcount := by
  simp [saveOutput]
@[simp] theorem store_kcount (c : Cfg) (s : St τ ρ) (r : τ × ρ) : (store c s r).kcount = s.kcount := by
  unfold store; split <;> rfl
@[simp] theorem offload_kcount (c : Cfg) (s : St τ ρ) : (offload c s).kcount = s.kcount := by
  unfold offload reset; split
  · split <;> simp
  · rfl
@[simp] theorem step_kcount (c : Cfg) (s : St τ ρ) (r : τ × ρ) : (step c s r).kcount = s.kcount + 1 := by
  simp [step]
@[simp] theorem endRun_kcount (c : Cfg) (s : St τ ρ) : (endRun c s).kcount = s.kcount := by
  unfold endRun; split <;> simp [unpack]
theorem steps_kcount (c : Cfg) (s : St τ ρ) (rows : List (τ × ρ)) :
    (rows.foldl (step c) s).kcount = s.kcount + rows.length := by
  induction rows generalizing s with
  | nil => simp
  | cons r rs ih => simp [ih, Nat.add_assoc, Nat.add_comm 1]
theorem runSeg_kcount (c : Cfg) (s : St τ ρ) (rows : List (τ × ρ)) :
    (runSeg c s rows).kcount = s.kcount + rows.length := by
  simp [runSeg, steps_kcount]
theorem runSegs_kcount (c : Cfg) (s : St τ ρ) (segs : List (List (τ × ρ))) :
    (runSegs c s segs).kcount = s.kcount + segs.flatten.length := by
  induction segs generalizing s with
  | nil => simp [runSegs]
  | cons a r ih =>
    have : runSegs c s (a :: r) = runSegs c (runSeg c s a) r := rfl
    rw [this, ih, runSeg_kcount]; simp [Nat.add_assoc]

/-! #### naturality in the payload: every operation commutes with a map on the row values -/
section nat
variable [LawfulBEq τ] {ρ' : Type} (f : ρ → ρ')

theorem mapSt_cacheVal (s : St τ ρ) : cacheVal (mapSt f s) = mapRows f (cacheVal s) := by
  unfold cacheVal mapSt; cases s.cache <;> simp
theorem mapSt_fileRows (s : St τ ρ) : fileRows (mapSt f s) = mapRows f (fileRows s) := by
  unfold fileRows mapSt; cases s.file <;> simp
theorem mapSt_touch (s : St τ ρ) : touch (mapSt f s) = mapSt f (touch s) := by
  unfold touch; rw [mapSt_cacheVal]; simp [mapSt]
theorem mapSt_unpack (s : St τ ρ) : unpack (mapSt f s) = mapSt f (unpack s) := by
  simp [unpack, mapSt]
theorem mapSt_reset (s : St τ ρ) : reset (mapSt f s) = mapSt f (reset s) := by
  simp [reset, mapSt]

theorem mapSt_writeNpz (c : Cfg) (s : St τ ρ) : writeNpz c (mapSt f s) = mapSt f (writeNpz c s) := by
  unfold writeNpz
  rw [mapSt_touch, mapSt_cacheVal, mapSt_unpack, mapSt_fileRows]
  have h1 : (mapSt f s).append = s.append := rfl
  have h2 : (mapSt f s).idxPtr = s.idxPtr := rfl
  have h3 : (mapSt f s).mem = mapRows f s.mem := rfl
  rw [h1, h2, h3]
  split
  · simp [mapSt, touch]
  · split
    · simp [mapSt, touch]
    · simp only [mapRows_drop, mapRows_isEmpty, mapRows_length]
      split
      · rfl
      · simp [mapSt, unpack]

theorem mapSt_saveOutput (c : Cfg) (s : St τ ρ) : saveOutput c (mapSt f s) = mapSt f (saveOutput c s) := by
  unfold saveOutput
  simp only [mapSt_writeNpz, mapSt_cacheVal, mapRows_length]
  simp [mapSt]

theorem mapSt_store (c : Cfg) (s : St τ ρ) (r : τ × ρ) :
    store c (mapSt f s) (r.1, f r.2) = mapSt f (store c s r) := by
  unfold store
  have : (mapSt f s).kcount = s.kcount := rfl
  rw [this]
  split
  · have h3 : (mapSt f s).mem = mapRows f s.mem := rfl
    simp only [h3, dictSet_map]
    simp [mapSt]
  · rfl

theorem mapSt_offload (c : Cfg) (s : St τ ρ) : offload c (mapSt f s) = mapSt f (offload c s) := by
  unfold offload
  have h3 : (mapSt f s).mem.length = s.mem.length := by simp [mapSt]
  rw [h3]
  split
  · split
    · rw [mapSt_saveOutput, mapSt_reset]
    · rw [mapSt_reset]
  · rfl

theorem mapSt_step (c : Cfg) (s : St τ ρ) (r : τ × ρ) :
    step c (mapSt f s) (r.1, f r.2) = mapSt f (step c s r) := by
  unfold step
  rw [mapSt_store, mapSt_offload]
  simp [mapSt]

theorem mapSt_steps (c : Cfg) (s : St τ ρ) (rows : List (τ × ρ)) :
    (mapRows f rows).foldl (step c) (mapSt f s) = mapSt f (rows.foldl (step c) s) := by
  induction rows generalizing s with
  | nil => rfl
  | cons r rs ih =>
    have : mapRows f (r :: rs) = (r.1, f r.2) :: mapRows f rs := rfl
    rw [this]
    simp only [List.foldl_cons]
    rw [mapSt_step, ih]

theorem mapSt_endRun (c : Cfg) (s : St τ ρ) : endRun c (mapSt f s) = mapSt f (endRun c s) := by
  unfold endRun
  split
  · rw [mapSt_unpack, mapSt_saveOutput]
  · rw [mapSt_unpack]

theorem mapSt_runSeg (c : Cfg) (s : St τ ρ) (rows : List (τ × ρ)) :
    runSeg c (mapSt f s) (mapRows f rows) = mapSt f (runSeg c s rows) := by
  unfold runSeg; rw [mapSt_steps, mapSt_endRun]

theorem mapSt_runSegs (c : Cfg) (s : St τ ρ) (segs : List (List (τ × ρ))) :
    runSegs c (mapSt f s) (segs.map (mapRows f)) = mapSt f (runSegs c s segs) := by
  induction segs generalizing s with
  | nil => rfl
  | cons a r ih =>
    have h1 : runSegs c (mapSt f s) ((a :: r).map (mapRows f)) =
        runSegs c (runSeg c (mapSt f s) (mapRows f a)) (r.map (mapRows f)) := rfl
    have h2 : runSegs c s (a :: r) = runSegs c (runSeg c s a) r := rfl
    rw [h1, h2, mapSt_runSeg, ih]

end nat

/-! #### the off-loading invariant -/

/-- loop-head invariant in off-loading mode with output files and automatic saving; `K` = the rows that
are to be kept so far -/
structure InvL (s : St τ ρ) (K : List (τ × ρ)) : Prop where
  split : fileRows s ++ s.mem.drop s.idxPtr = K
  ptr : s.idxPtr ≤ s.mem.length
  first : s.append = false → s.cache = none ∧ s.file = none ∧ s.idxPtr = 0
  sub : ∀ r ∈ s.mem, r ∈ K

/-- what `save_output()` establishes: everything kept so far is on file -/
structure Flushed (s : St τ ρ) (K : List (τ × ρ)) : Prop where
  file : fileRows s = K
  ptr : s.idxPtr = s.mem.length
  app : s.append = true

theorem saveOutput_flushes (c : Cfg) (hl : c.limitStore = true) (s : St τ ρ) (K : List (τ × ρ))
    (hsplit : fileRows s ++ s.mem.drop s.idxPtr = K)
    (hfresh : s.append = false → cacheVal s = s.mem ∧ s.file = none ∧ s.idxPtr = 0) :
    Flushed (saveOutput c s) K ∧ (saveOutput c s).mem = s.mem := by
  unfold saveOutput writeNpz
  simp only [hl, Bool.not_true, Bool.false_eq_true, ↓reduceIte]
  by_cases ha : s.append = false
  · obtain ⟨h1, h2, h3⟩ := hfresh ha
    simp only [ha, Bool.not_false, ↓reduceIte]
    have hK : s.mem = K := by simpa [fileRows, h2, h3] using hsplit
    simp only [touch, h1]
    refine ⟨⟨?_, ?_, ?_⟩, ?_⟩ <;> simp [cacheVal, fileRows, h3, hK]
  · have ha' : s.append = true := by simpa using ha
    simp only [ha', Bool.not_true, Bool.false_eq_true, ↓reduceIte]
    by_cases he : (s.mem.drop s.idxPtr).isEmpty = true
    · simp only [he, ↓reduceIte]
      have : s.mem.drop s.idxPtr = [] := by simpa using he
      refine ⟨⟨?_, ?_, ?_⟩, ?_⟩ <;> simp [unpack, cacheVal, fileRows, ha'] <;> simpa [fileRows, this] using hsplit
    · simp only [he, Bool.false_eq_true, ↓reduceIte]
      refine ⟨⟨?_, ?_, ?_⟩, ?_⟩ <;> simp [unpack, cacheVal, fileRows, ha'] <;> simpa [fileRows] using hsplit

section inv
variable [LawfulBEq τ]

theorem InvL.kcount_irrel {s : St τ ρ} {K : List (τ × ρ)} (h : InvL s K) (n : Nat) :
    InvL { s with kcount := n } K := ⟨h.split, h.ptr, h.first, h.sub⟩

theorem store_inv (c : Cfg) (s : St τ ρ) (K : List (τ × ρ)) (r : τ × ρ) (h : InvL s K)
    (hfresh : ∀ p ∈ K, p.1 ≠ r.1) :
    InvL (store c s r) (K ++ (if keepNow c s.kcount then [r] else [])) := by
  unfold store
  by_cases hk : keepNow c s.kcount = true
  · simp only [hk, ↓reduceIte]
    have hd : dictSet r.1 r.2 s.mem = s.mem ++ [r] :=
      dictSet_fresh r.1 r.2 s.mem (fun p hp => hfresh p (h.sub p hp))
    refine ⟨?_, ?_, ?_, ?_⟩
    · show fileRows s ++ (dictSet r.1 r.2 s.mem).drop s.idxPtr = K ++ [r]
      rw [hd, List.drop_append_of_le_length h.ptr, ← List.append_assoc]
      have := h.split
      simp only [fileRows] at this ⊢
      rw [this]
    · show s.idxPtr ≤ (dictSet r.1 r.2 s.mem).length
      rw [hd]; have := h.ptr; simp; omega
    · exact h.first
    · intro q hq
      have hq' : q ∈ s.mem ++ [r] := by rw [← hd]; exact hq
      rcases List.mem_append.mp hq' with hq' | hq'
      · exact List.mem_append_left _ (h.sub q hq')
      · exact List.mem_append_right _ hq'
  · have hk' : keepNow c s.kcount = false := by simpa using hk
    simp only [hk', Bool.false_eq_true, ↓reduceIte, List.append_nil]
    exact h

theorem offload_inv (c : Cfg) (hl : c.limitStore = true) (ho : c.output = true) (s : St τ ρ)
    (K : List (τ × ρ)) (h : InvL s K) : InvL (offload c s) K := by
  unfold offload
  simp only [hl, ho, Bool.true_and, ↓reduceIte]
  by_cases hmx : c.maxStore ≤ s.mem.length
  · simp only [hmx, decide_true, ↓reduceIte]
    obtain ⟨hf, hm⟩ := saveOutput_flushes c hl s K h.split (fun ha => by
      obtain ⟨h1, h2, h3⟩ := h.first ha
      exact ⟨by simp [cacheVal, h1], h2, h3⟩)
    refine ⟨?_, ?_, ?_, ?_⟩
    · have : fileRows (reset (saveOutput c s)) = fileRows (saveOutput c s) := rfl
      show fileRows (reset (saveOutput c s)) ++ List.drop (reset (saveOutput c s)).idxPtr (reset (saveOutput c s)).mem = K
      rw [this, hf.file]; simp [reset]
    · simp [reset]
    · intro ha
      have : (reset (saveOutput c s)).append = (saveOutput c s).append := rfl
      rw [this, hf.app] at ha
      exact absurd ha (by simp)
    · simp [reset]
  · simp only [hmx, decide_false, Bool.false_eq_true, ↓reduceIte]
    exact h

theorem step_inv (c : Cfg) (hl : c.limitStore = true) (ho : c.output = true) (s : St τ ρ)
    (K : List (τ × ρ)) (r : τ × ρ) (h : InvL s K) (hfresh : ∀ p ∈ K, p.1 ≠ r.1) :
    InvL (step c s r) (K ++ (if keepNow c s.kcount then [r] else [])) := by
  unfold step
  exact (offload_inv c hl ho _ _ (store_inv c s K r h hfresh)).kcount_irrel _

theorem kept_cons_eq (c : Cfg) (k : Nat) (r : τ × ρ) (rs : List (τ × ρ)) :
    kept c k (r :: rs) = (if keepNow c k then [r] else []) ++ kept c (k + 1) rs := by
  simp only [kept]; split <;> simp

theorem steps_inv (c : Cfg) (hl : c.limitStore = true) (ho : c.output = true) (rows : List (τ × ρ))
    (s : St τ ρ) (K : List (τ × ρ)) (h : InvL s K)
    (hnd : ((K ++ kept c s.kcount rows).map Prod.fst).Nodup) :
    InvL (rows.foldl (step c) s) (K ++ kept c s.kcount rows) := by
  induction rows generalizing s K with
  | nil => simpa [kept] using h
  | cons r rs ih =>
    simp only [List.foldl_cons]
    rw [kept_cons_eq, ← List.append_assoc] at hnd ⊢
    have hfresh : keepNow c s.kcount = true → ∀ p ∈ K, p.1 ≠ r.1 := by
      intro hk p hp he
      simp only [hk, ↓reduceIte, List.map_append, List.map_cons, List.map_nil] at hnd
      have := (List.nodup_append.mp (List.nodup_append.mp hnd).1).2.2
      exact this p.1 (List.mem_map_of_mem hp) r.1 (by simp) he
    have h1 : InvL (step c s r) (K ++ (if keepNow c s.kcount then [r] else [])) := by
      by_cases hk : keepNow c s.kcount = true
      · exact step_inv c hl ho s K r h (hfresh hk)
      · -- the row is not stored: freshness is not needed
        have hk' : keepNow c s.kcount = false := by simpa using hk
        unfold step store
        simp only [hk', Bool.false_eq_true, ↓reduceIte, List.append_nil]
        exact (offload_inv c hl ho _ _ h).kcount_irrel _
    have := ih (step c s r) _ h1 (by simpa [step_kcount] using hnd)
    simpa [step_kcount] using this

theorem endRun_inv (c : Cfg) (hl : c.limitStore = true) (ho : c.output = true) (ha : c.auto = true)
    (s : St τ ρ) (K : List (τ × ρ)) (h : InvL s K) : InvL (endRun c s) K ∧ Flushed (endRun c s) K := by
  unfold endRun
  simp only [ho, ha, Bool.and_self, ↓reduceIte]
  obtain ⟨hf, hm⟩ := saveOutput_flushes c hl (unpack s) K (by simpa [unpack, fileRows] using h.split)
    (fun hap => by
      obtain ⟨h1, h2, h3⟩ := h.first hap
      exact ⟨by simp [cacheVal, unpack], h2, h3⟩)
  have hm' : (saveOutput c (unpack s)).mem = s.mem := hm
  refine ⟨⟨?_, ?_, ?_, ?_⟩, hf⟩
  · rw [hf.file, hf.ptr]; simp
  · rw [hf.ptr]
  · intro hap; rw [hf.app] at hap; exact absurd hap (by simp)
  · rw [hm']; exact h.sub

theorem runSeg_inv (c : Cfg) (hl : c.limitStore = true) (ho : c.output = true) (ha : c.auto = true)
    (rows : List (τ × ρ)) (s : St τ ρ) (K : List (τ × ρ)) (h : InvL s K)
    (hnd : ((K ++ kept c s.kcount rows).map Prod.fst).Nodup) :
    InvL (runSeg c s rows) (K ++ kept c s.kcount rows) ∧ Flushed (runSeg c s rows) (K ++ kept c s.kcount rows) :=
  endRun_inv c hl ho ha _ _ (steps_inv c hl ho rows s K h hnd)

theorem runSegs_inv (c : Cfg) (hl : c.limitStore = true) (ho : c.output = true) (ha : c.auto = true)
    (segs : List (List (τ × ρ))) (s : St τ ρ) (K : List (τ × ρ)) (h : InvL s K)
    (hnd : ((K ++ kept c s.kcount segs.flatten).map Prod.fst).Nodup) :
    InvL (runSegs c s segs) (K ++ kept c s.kcount segs.flatten) := by
  induction segs generalizing s K with
  | nil => simpa [runSegs, kept] using h
  | cons a r ih =>
    have h2 : runSegs c s (a :: r) = runSegs c (runSeg c s a) r := rfl
    rw [h2]
    simp only [List.flatten_cons, kept_append, ← List.append_assoc] at hnd ⊢
    have hnd1 : ((K ++ kept c s.kcount a).map Prod.fst).Nodup := by
      rw [List.map_append] at hnd; exact (List.nodup_append.mp hnd).1
    have h1 := (runSeg_inv c hl ho ha a s K h hnd1).1
    have := ih (runSeg c s a) _ h1 (by simpa [runSeg_kcount] using hnd)
    simpa [runSeg_kcount] using this

theorem init_inv : InvL (init : St τ ρ) [] := ⟨rfl, Nat.le_refl _, fun _ => ⟨rfl, rfl, rfl⟩, by simp [init]⟩

/-! #### memory is always a suffix of what is to be kept (every mode) -/

/-- `K = pre ++ mem` for some `pre` -/
def SuffixOf (s : St τ ρ) (K : List (τ × ρ)) : Prop := ∃ pre, K = pre ++ s.mem

theorem writeNpz_mem (c : Cfg) (s : St τ ρ) : (writeNpz c s).mem = s.mem := by
  unfold writeNpz touch unpack; split <;> [rfl; (split <;> [rfl; (split <;> rfl)])]
theorem saveOutput_mem (c : Cfg) (s : St τ ρ) : (saveOutput c s).mem = s.mem := by
  simp [saveOutput, writeNpz_mem]

theorem store_suffix (c : Cfg) (s : St τ ρ) (K : List (τ × ρ)) (r : τ × ρ) (h : SuffixOf s K)
    (hfresh : ∀ p ∈ K, p.1 ≠ r.1) :
    SuffixOf (store c s r) (K ++ (if keepNow c s.kcount then [r] else [])) := by
  obtain ⟨pre, hp⟩ := h
  unfold store
  by_cases hk : keepNow c s.kcount = true
  · simp only [hk, ↓reduceIte]
    have hd : dictSet r.1 r.2 s.mem = s.mem ++ [r] :=
      dictSet_fresh r.1 r.2 s.mem (fun p hpm => hfresh p (by rw [hp]; exact List.mem_append_right _ hpm))
    exact ⟨pre, by show K ++ [r] = pre ++ dictSet r.1 r.2 s.mem; rw [hd, hp, List.append_assoc]⟩
  · have hk' : keepNow c s.kcount = false := by simpa using hk
    simp only [hk', Bool.false_eq_true, ↓reduceIte, List.append_nil]
    exact ⟨pre, hp⟩

theorem offload_suffix (c : Cfg) (s : St τ ρ) (K : List (τ × ρ)) (h : SuffixOf s K) :
    SuffixOf (offload c s) K := by
  unfold offload
  split
  · exact ⟨K, by simp [reset]⟩
  · exact h

theorem steps_suffix (c : Cfg) (rows : List (τ × ρ)) (s : St τ ρ) (K : List (τ × ρ)) (h : SuffixOf s K)
    (hnd : ((K ++ kept c s.kcount rows).map Prod.fst).Nodup) :
    SuffixOf (rows.foldl (step c) s) (K ++ kept c s.kcount rows) := by
  induction rows generalizing s K with
  | nil => simpa [kept] using h
  | cons r rs ih =>
    simp only [List.foldl_cons]
    rw [kept_cons_eq, ← List.append_assoc] at hnd ⊢
    have h1 : SuffixOf (step c s r) (K ++ (if keepNow c s.kcount then [r] else [])) := by
      by_cases hk : keepNow c s.kcount = true
      · have hfresh : ∀ p ∈ K, p.1 ≠ r.1 := by
          intro p hp he
          simp only [hk, ↓reduceIte, List.map_append, List.map_cons, List.map_nil] at hnd
          have := (List.nodup_append.mp (List.nodup_append.mp hnd).1).2.2
          exact this p.1 (List.mem_map_of_mem hp) r.1 (by simp) he
        obtain ⟨pre, hp⟩ := offload_suffix c _ _ (store_suffix c s K r h hfresh)
        exact ⟨pre, hp⟩
      · have hk' : keepNow c s.kcount = false := by simpa using hk
        obtain ⟨pre, hp⟩ := offload_suffix c s K h
        unfold step store
        simp only [hk', Bool.false_eq_true, ↓reduceIte, List.append_nil]
        exact ⟨pre, hp⟩
    have := ih (step c s r) _ h1 (by simpa [step_kcount] using hnd)
    simpa [step_kcount] using this

theorem endRun_mem (c : Cfg) (s : St τ ρ) : (endRun c s).mem = s.mem := by
  unfold endRun; split <;> simp [saveOutput_mem, unpack]

theorem runSegs_suffix (c : Cfg) (segs : List (List (τ × ρ))) (s : St τ ρ) (K : List (τ × ρ))
    (h : SuffixOf s K) (hnd : ((K ++ kept c s.kcount segs.flatten).map Prod.fst).Nodup) :
    SuffixOf (runSegs c s segs) (K ++ kept c s.kcount segs.flatten) := by
  induction segs generalizing s K with
  | nil => simpa [runSegs, kept] using h
  | cons a r ih =>
    have h2 : runSegs c s (a :: r) = runSegs c (runSeg c s a) r := rfl
    rw [h2]
    simp only [List.flatten_cons, kept_append, ← List.append_assoc] at hnd ⊢
    have hnd1 : ((K ++ kept c s.kcount a).map Prod.fst).Nodup := by
      rw [List.map_append] at hnd; exact (List.nodup_append.mp hnd).1
    have h1 : SuffixOf (runSeg c s a) (K ++ kept c s.kcount a) := by
      obtain ⟨pre, hp⟩ := steps_suffix c a s K h hnd1
      exact ⟨pre, by simpa [runSeg, endRun_mem] using hp⟩
    have := ih (runSeg c s a) _ h1 (by simpa [runSeg_kcount] using hnd)
    simpa [runSeg_kcount] using this

/-! #### without off-loading nothing ever leaves memory -/
theorem offload_noLimit (c : Cfg) (hl : c.limitStore = false) (s : St τ ρ) : offload c s = s := by
  simp [offload, hl]

theorem steps_mem_noLimit (c : Cfg) (hl : c.limitStore = false) (rows : List (τ × ρ)) (s : St τ ρ)
    (hnd : ((s.mem ++ kept c s.kcount rows).map Prod.fst).Nodup) :
    (rows.foldl (step c) s).mem = s.mem ++ kept c s.kcount rows := by
  induction rows generalizing s with
  | nil => simp [kept]
  | cons r rs ih =>
    simp only [List.foldl_cons]
    rw [kept_cons_eq, ← List.append_assoc] at hnd ⊢
    have hm : (step c s r).mem = s.mem ++ (if keepNow c s.kcount then [r] else []) := by
      unfold step; rw [offload_noLimit c hl]; unfold store
      by_cases hk : keepNow c s.kcount = true
      · simp only [hk, ↓reduceIte]
        apply dictSet_fresh
        intro p hp he
        simp only [hk, ↓reduceIte, List.map_append, List.map_cons, List.map_nil] at hnd
        have := (List.nodup_append.mp (List.nodup_append.mp hnd).1).2.2
        exact this p.1 (List.mem_map_of_mem hp) r.1 (by simp) he
      · have hk' : keepNow c s.kcount = false := by simpa using hk
        simp [hk']
    have := ih (step c s r) (by rw [hm]; simpa [step_kcount] using hnd)
    rw [this, hm]; simp [step_kcount]

end inv

end machine


/-! ### output selection -/
section selection

theorem insU_mem (x : Nat) (l : List Nat) (y : Nat) : y ∈ insU x l ↔ y = x ∨ y ∈ l := by
  induction l with
  | nil => simp [insU]
  | cons z zs ih =>
    unfold insU
    split
    · simp
    · split
      · rename_i h1 h2; subst h2; simp
      · simp [ih]; tauto

theorem insU_sorted (x : Nat) (l : List Nat) (h : l.Pairwise (· < ·)) : (insU x l).Pairwise (· < ·) := by
  induction l with
  | nil => simp [insU]
  | cons z zs ih =>
    unfold insU
    have hz := List.pairwise_cons.mp h
    split
    · rename_i hxz
      refine List.pairwise_cons.mpr ⟨?_, h⟩
      intro a ha
      rcases List.mem_cons.mp ha with rfl | ha
      · exact hxz
      · exact Nat.lt_trans hxz (hz.1 a ha)
    · split
      · exact h
      · rename_i h1 h2
        refine List.pairwise_cons.mpr ⟨?_, ih hz.2⟩
        intro a ha
        rcases (insU_mem x zs a).mp ha with rfl | ha
        · omega
        · exact hz.1 a ha

theorem sortU_sorted (l : List Nat) : (sortU l).Pairwise (· < ·) := by
  induction l with
  | nil => simp [sortU]
  | cons x xs ih => exact insU_sorted x _ ih

theorem sortU_mem (l : List Nat) (y : Nat) : y ∈ sortU l ↔ y ∈ l := by
  induction l with
  | nil => simp [sortU]
  | cons x xs ih =>
    have : sortU (x :: xs) = insU x (sortU xs) := rfl
    rw [this, insU_mem, ih]; simp

/-- two strictly increasing lists with the same members are equal -/
theorem sorted_ext : ∀ (a b : List Nat), a.Pairwise (· < ·) → b.Pairwise (· < ·) → (∀ x, x ∈ a ↔ x ∈ b) → a = b
  | [], [], _, _, _ => rfl
  | [], y :: ys, _, _, h => by have := (h y).mpr (by simp); simp at this
  | x :: xs, [], _, _, h => by have := (h x).mp (by simp); simp at this
  | x :: xs, y :: ys, ha, hb, h => by
    have hax := List.pairwise_cons.mp ha
    have hby := List.pairwise_cons.mp hb
    have hxy : x = y := by
      have h1 : x ∈ y :: ys := (h x).mp (by simp)
      have h2 : y ∈ x :: xs := (h y).mpr (by simp)
      rcases List.mem_cons.mp h1 with h1 | h1
      · exact h1
      · rcases List.mem_cons.mp h2 with h2 | h2
        · exact h2.symm
        · have := hby.1 x h1; have := hax.1 y h2; omega
    subst hxy
    congr 1
    apply sorted_ext xs ys hax.2 hby.2
    intro z
    constructor
    · intro hz
      have : z ∈ x :: ys := (h z).mp (List.mem_cons_of_mem _ hz)
      rcases List.mem_cons.mp this with rfl | h'
      · have := hax.1 z hz; omega
      · exact h'
    · intro hz
      have : z ∈ x :: xs := (h z).mpr (List.mem_cons_of_mem _ hz)
      rcases List.mem_cons.mp this with rfl | h'
      · have := hby.1 z hz; omega
      · exact h'

theorem range_filter_map_getD (idx : List Nat) (p : Nat → Bool) :
    ((List.range idx.length).filter (fun j => p (idx.getD j 0))).map (fun j => idx.getD j 0) = idx.filter p := by
  induction idx using List.reverseRecOn with
  | nil => simp
  | append_singleton l a ih =>
    simp only [List.length_append, List.length_singleton, List.range_succ, List.filter_append, List.map_append]
    have h1 : (List.range l.length).filter (fun j => p ((l ++ [a]).getD j 0)) =
        (List.range l.length).filter (fun j => p (l.getD j 0)) := by
      apply List.filter_congr
      intro j hj
      have : j < l.length := List.mem_range.mp hj
      simp [List.getD_eq_getElem?_getD, List.getElem?_append_left this]
    have h2 : ∀ j ∈ (List.range l.length).filter (fun j => p (l.getD j 0)),
        (l ++ [a]).getD j 0 = l.getD j 0 := by
      intro j hj
      have : j < l.length := List.mem_range.mp (List.mem_filter.mp hj).1
      simp [List.getD_eq_getElem?_getD, List.getElem?_append_left this]
    rw [h1, List.map_congr_left h2, ih]
    congr 1
    have h3 : (l ++ [a]).getD l.length 0 = a := by simp [List.getD_eq_getElem?_getD]
    by_cases hp : p a = true
    · simp [List.filter_cons, h3, hp]
    · have hp' : p a = false := by simpa using hp
      simp [List.filter_cons, h3, hp']

end selection
end Andes.Store
