import Andes.Model.TdsLoop
import Mathlib.Tactic.Linarith
import Mathlib.Tactic.NormNum
import Mathlib.Algebra.Order.Field.Rat
import Mathlib.Data.List.Basic
import Mathlib.Data.List.Chain
import Mathlib.Data.List.Nodup
import Mathlib.Data.List.Range

/-! # Invariants of the TDS stepping loop (model `Andes.Tds`, scalar type `ℚ`)

The integrator verdicts are arbitrary; every statement is for all schedules, step-size settings and
verdict histories. -/
namespace Andes.Tds

/-- the hypotheses on a configuration -/
structure CfgOk (c : Cfg ℚ) : Prop where
  sorted : c.sw.Pairwise (· < ·)
  freqRaw_pos : 0 < c.freqRaw
  sysFreq_pos : 0 < c.sysFreq
  span : c.t0 < c.tf

/-- sanity of the step-size memory -/
structure SzOk (c : Cfg ℚ) (s : St ℚ) : Prop where
  dmin_pos : 0 < s.dmin
  dmin_le : s.dmin ≤ s.dmax
  fix_pos : s.fixt = true → 0 < c.tstep

theorem pmax_eq (a b : ℚ) : pmax a b = max a b := by unfold pmax; grind
theorem pmin_eq (a b : ℚ) : pmin a b = min a b := by unfold pmin; grind

theorem capFreq_pos (c : Cfg ℚ) (ok : CfgOk c) : 0 < capFreq c := by
  have := ok.freqRaw_pos; have := ok.sysFreq_pos
  unfold capFreq; split_ifs <;> assumption

theorem firstDmax0_pos (c : Cfg ℚ) (ok : CfgOk c) : 0 < firstDmax0 c := by
  have h1 := capFreq_pos c ok
  have h2 := ok.span
  have h3 : 0 < 1.0 / capFreq c := by
    have : (1.0 : ℚ) = 1 := by norm_num
    rw [this]; exact div_pos one_pos h1
  unfold firstDmax0 pmin pabs
  have h4 : ¬ (c.tf - c.t0 < 0.0) := by norm_num; linarith
  simp only [h4, if_false]
  split_ifs
  · have : (100.0 : ℚ) = 100 := by norm_num
    rw [this]; apply div_pos <;> linarith
  · exact h3

theorem firstDmin_pos (c : Cfg ℚ) (ok : CfgOk c) : 0 < firstDmin c := by
  have h1 := capFreq_pos c ok
  have h2 := firstDmax0_pos c ok
  have h3 : 0 < (1.0 / capFreq c) / 500.0 := by
    have : (1.0 : ℚ) = 1 := by norm_num
    have h5 : (500.0 : ℚ) = 500 := by norm_num
    rw [this, h5]; exact div_pos (div_pos one_pos h1) (by norm_num)
  have h4 : 0 < firstDmax0 c / 20.0 := by
    have : (20.0 : ℚ) = 20 := by norm_num
    rw [this]; exact div_pos h2 (by norm_num)
  unfold firstDmin pmin
  split_ifs <;> assumption

theorem firstDmin_le (c : Cfg ℚ) (ok : CfgOk c) (f : Bool) : firstDmin c ≤ firstDmax c f := by
  have h2 := firstDmax0_pos c ok
  have h4 : firstDmax0 c / 20.0 ≤ firstDmax0 c := by
    have : (20.0 : ℚ) = 20 := by norm_num
    rw [this]; linarith
  have h5 : firstDmin c ≤ firstDmax0 c := by
    unfold firstDmin pmin; split_ifs <;> linarith
  unfold firstDmax
  split_ifs <;> linarith

theorem firstFixt_pos (c : Cfg ℚ) (f : Bool) : firstFixt c f = true → 0 < c.tstep := by
  unfold firstFixt
  split_ifs with h
  · simp
  · intro _; norm_num at h; exact h

theorem firstDeltat_pos (c : Cfg ℚ) (ok : CfgOk c) (f : Bool) : 0 < firstDeltat c f := by
  unfold firstDeltat
  split_ifs with h
  · exact firstFixt_pos c f h
  · exact firstDmax0_pos c ok

/-- the step-size memory stays sane through `calc_h` -/
theorem calcH_sz (c : Cfg ℚ) (ok : CfgOk c) (s : St ℚ) (r : Bool)
    (h : isFirst s r = true ∨ SzOk c s) : SzOk c (calcH c s r) := by
  unfold calcH nextDmin nextDmax nextFixt
  by_cases hf : isFirst s r = true
  · simp only [hf, if_true]
    exact ⟨firstDmin_pos c ok, firstDmin_le c ok _, firstFixt_pos c _⟩
  · rcases h with h | h
    · exact absurd h hf
    · simp only [hf]
      exact ⟨h.dmin_pos, h.dmin_le, h.fix_pos⟩

theorem grow_pos (dmin dmax d : ℚ) (n : Nat) (h1 : 0 < dmin) (h2 : dmin ≤ dmax) (hd : 0 < d) :
    0 < grow dmin dmax d n := by
  unfold grow pmax pmin; grind

/-- unless `calc_h` declares the run busted, the new `deltat` is positive -/
theorem nextDeltat_pos (c : Cfg ℚ) (ok : CfgOk c) (s : St ℚ) (r : Bool)
    (h : isFirst s r = true ∨ (SzOk c s ∧ 0 < s.deltat))
    (hb : nextBusted c s r = false) : 0 < nextDeltat c s r := by
  unfold nextDeltat
  by_cases hf : isFirst s r = true
  · simp only [hf, if_true]; exact firstDeltat_pos c ok _
  · rcases h with h | ⟨hs, hd⟩
    · exact absurd h hf
    · have g := grow_pos s.dmin s.dmax s.deltat s.niter hs.dmin_pos hs.dmin_le hd
      have hp := hs.fix_pos
      have hm := hs.dmin_pos
      unfold nextBusted at hb
      simp only [hf] at hb ⊢
      unfold pmin
      grind

theorem nextBusted_mono (c : Cfg ℚ) (s : St ℚ) (r : Bool) (hb : s.busted = true) :
    nextBusted c s r = true := by
  unfold nextBusted; grind

end Andes.Tds

namespace Andes.Tds

/-- loop-head invariant -/
structure Inv (c : Cfg ℚ) (s : St ℚ) : Prop where
  hnn : 0 ≤ s.h
  sz : SzOk c s
  idxLe : s.idx ≤ c.sw.length
  stampsDec : s.stamps.Pairwise (· > ·)
  stampsLe : ∀ x ∈ s.stamps, x ≤ s.t - s.h
  pendEnd : ∀ j, s.idx ≤ j → ∀ x, c.sw[j]? = some x → s.t ≤ x
  pendBase : s.busted = false → ∀ j, s.idx ≤ j → ∀ x, c.sw[j]? = some x → s.t - s.h < x
  hpos : s.busted = false → s.t - s.h < c.tf → 0 < s.h
  dpos : s.busted = false → 0 < s.deltat
  tleTf : s.busted = false → s.t ≤ c.tf
  passed : ∀ j, j < s.idx → ∀ x, c.sw[j]? = some x → x ≤ s.t - s.h
  headEq : s.busted = false → ∀ p, s.stamps.head? = some p → p = s.t - s.h
  firedAll : s.fired = (List.range s.idx).reverse
  firedAt : ∀ j ∈ s.fired, ∃ x, c.sw[j]? = some x ∧ x ∈ s.stamps
  noCross : s.stamps.IsChain (fun (p q : ℚ) => ∀ (j : Nat) (x : ℚ), c.sw[j]? = some x → ¬ (q < x ∧ x < p))

-- ---------- small lemmas ----------

theorem sw_mono (c : Cfg ℚ) (ok : CfgOk c) {i j : Nat} {x y : ℚ} (hij : i < j)
    (hx : c.sw[i]? = some x) (hy : c.sw[j]? = some y) : x < y := by
  obtain ⟨hi, rfl⟩ := List.getElem?_eq_some_iff.mp hx
  obtain ⟨hj, rfl⟩ := List.getElem?_eq_some_iff.mp hy
  exact List.pairwise_iff_getElem.mp ok.sorted i j hi hj hij

theorem sw_mono_le (c : Cfg ℚ) (ok : CfgOk c) {i j : Nat} {x y : ℚ} (hij : i ≤ j)
    (hx : c.sw[i]? = some x) (hy : c.sw[j]? = some y) : x ≤ y := by
  rcases Nat.eq_or_lt_of_le hij with rfl | hlt
  · rw [hx] at hy; cases hy; exact le_refl _
  · exact le_of_lt (sw_mono c ok hlt hx hy)

theorem clip_spec (c : Cfg ℚ) (ok : CfgOk c) (t h : ℚ) (idx : Nat) (hh : 0 ≤ h)
    (hge : ∀ x, c.sw[idx]? = some x → t ≤ x) :
    0 ≤ clip c t h idx ∧ clip c t h idx ≤ h ∧
    ((∀ x, c.sw[idx]? = some x → t < x) → 0 < h → 0 < clip c t h idx) ∧
    (∀ j, idx ≤ j → ∀ x, c.sw[j]? = some x → t + clip c t h idx ≤ x) := by
  unfold clip
  cases hx : c.sw[idx]? with
  | none =>
    refine ⟨hh, le_refl _, fun _ h => h, ?_⟩
    intro j hj x hjx
    have h1 : c.sw.length ≤ idx := by simpa using hx
    have h2 : j < c.sw.length := (List.getElem?_eq_some_iff.mp hjx).1
    omega
  | some s =>
    have hts := hge s hx
    have hmono : ∀ j, idx ≤ j → ∀ x, c.sw[j]? = some x → s ≤ x :=
      fun j hj x hjx => sw_mono_le c ok hj hx hjx
    by_cases hc : s < t + h
    · simp only [hc, if_true]
      refine ⟨by linarith, by linarith, fun hs _ => by have := hs s rfl; linarith, ?_⟩
      intro j hj x hjx; have := hmono j hj x hjx; linarith
    · simp only [hc, if_false]
      refine ⟨hh, le_refl _, fun _ h => h, ?_⟩
      intro j hj x hjx; have := hmono j hj x hjx; push Not at hc; linarith

theorem hRaw_nonneg (c : Cfg ℚ) (t d : ℚ) : 0 ≤ hRaw c t d := by
  unfold hRaw pmax pmin; norm_num; split_ifs <;> linarith
theorem hRaw_pos (c : Cfg ℚ) (t d : ℚ) (hd : 0 < d) (ht : t < c.tf) : 0 < hRaw c t d := by
  unfold hRaw pmax pmin; norm_num; split_ifs <;> linarith
theorem hRaw_le (c : Cfg ℚ) (t d : ℚ) (ht : t ≤ c.tf) : t + hRaw c t d ≤ c.tf := by
  unfold hRaw pmax pmin; norm_num; split_ifs <;> linarith

theorem later_gt (c : Cfg ℚ) (ok : CfgOk c) (t : ℚ) (idx : Nat) (h : ∀ x, c.sw[idx]? = some x → t < x) :
    ∀ j, idx ≤ j → ∀ x, c.sw[j]? = some x → t < x := by
  intro j hj x hjx
  have hj' := (List.getElem?_eq_some_iff.mp hjx).1
  have hidx : idx < c.sw.length := by omega
  have h0 := h c.sw[idx] (by simp [hidx])
  have := sw_mono_le c ok hj (by simp [hidx] : c.sw[idx]? = some c.sw[idx]) hjx
  linarith

theorem skipIdx_of_lt (c : Cfg ℚ) (t : ℚ) (idx : Nat) (r : Bool) (h : ∀ x, c.sw[idx]? = some x → t < x) :
    skipIdx c t idx r = idx := by
  unfold skipIdx
  cases hx : c.sw[idx]? with
  | none => rfl
  | some x => have := h x hx; simp [ne_of_lt this]

theorem skipIdx_resume (c : Cfg ℚ) (t : ℚ) (idx : Nat) : skipIdx c t idx true = idx := by
  unfold skipIdx; cases c.sw[idx]? <;> simp

theorem doSwitch_spec (c : Cfg ℚ) (ok : CfgOk c) (s : St ℚ)
    (hpe : ∀ j, s.idx ≤ j → ∀ x, c.sw[j]? = some x → s.t ≤ x) (hil : s.idx ≤ c.sw.length) :
    let s' := doSwitch c s
    s'.t = s.t ∧ s'.h = s.h ∧ s'.deltat = s.deltat ∧ s'.niter = s.niter ∧ s'.converged = s.converged ∧
    s'.busted = s.busted ∧ s'.stamps = s.stamps ∧ s'.dmin = s.dmin ∧ s'.dmax = s.dmax ∧ s'.fixt = s.fixt ∧
    s'.kcount = s.kcount ∧ s'.idx ≤ c.sw.length ∧
    (∀ x, c.sw[s'.idx]? = some x → s.t < x) ∧
    ((s'.idx = s.idx ∧ s'.fired = s.fired) ∨
     (s'.idx = s.idx + 1 ∧ s'.fired = s.idx :: s.fired ∧ c.sw[s.idx]? = some s.t)) := by
  unfold doSwitch
  cases hx : c.sw[s.idx]? with
  | none => simp [hx, hil]
  | some x =>
    have hlt : s.idx < c.sw.length := (List.getElem?_eq_some_iff.mp hx).1
    by_cases ht : s.t = x
    · have hb : (s.t == x) = true := by simp [ht]
      simp only [hb, if_true]
      refine ⟨by simp, by simp, by simp, by simp, by simp, by simp, by simp, by simp, by simp, by simp, by simp,
        Nat.succ_le_of_lt hlt, ?_, Or.inr ⟨by simp, by simp, by simp [ht]⟩⟩
      intro y hy
      have := sw_mono c ok (Nat.lt_succ_self s.idx) hx hy
      linarith
    · have hb : (s.t == x) = false := by simp [ht]
      simp only [hb, Bool.false_eq_true, if_false]
      refine ⟨by simp, by simp, by simp, by simp, by simp, by simp, by simp, by simp, by simp, by simp, by simp,
        hil, ?_, Or.inl ⟨by simp, by simp⟩⟩
      intro y hy
      rw [hx] at hy; cases hy
      exact lt_of_le_of_ne (hpe s.idx (le_refl _) x hx) ht

end Andes.Tds

namespace Andes.Tds

/-- the custom-event half of `do_switch` touches only its own bookkeeping -/
theorem doSwitch'_spec (c : Cfg ℚ) (ok : CfgOk c) (s : St ℚ)
    (hpe : ∀ j, s.idx ≤ j → ∀ x, c.sw[j]? = some x → s.t ≤ x) (hil : s.idx ≤ c.sw.length) :
    let s' := doSwitch' c s
    s'.t = s.t ∧ s'.h = s.h ∧ s'.deltat = s.deltat ∧ s'.niter = s.niter ∧ s'.converged = s.converged ∧
    s'.busted = s.busted ∧ s'.stamps = s.stamps ∧ s'.dmin = s.dmin ∧ s'.dmax = s.dmax ∧ s'.fixt = s.fixt ∧
    s'.kcount = s.kcount ∧ s'.idx ≤ c.sw.length ∧
    (∀ x, c.sw[s'.idx]? = some x → s.t < x) ∧
    ((s'.idx = s.idx ∧ s'.fired = s.fired) ∨
     (s'.idx = s.idx + 1 ∧ s'.fired = s.idx :: s.fired ∧ c.sw[s.idx]? = some s.t)) := by
  have h := doSwitch_spec c ok s hpe hil
  simpa only [doSwitch', customSwitch] using h

/-- what `calc_h` guarantees when no switch time has to be skipped -/
theorem calcH_core (c : Cfg ℚ) (ok : CfgOk c) (s : St ℚ) (r : Bool)
    (hge : ∀ x, c.sw[s.idx]? = some x → s.t ≤ x)
    (hgt : r = false → ∀ x, c.sw[s.idx]? = some x → s.t < x)
    (hsz : isFirst s r = true ∨ SzOk c s) :
    let s' := calcH c s r
    s'.t = s.t ∧ s'.stamps = s.stamps ∧ s'.fired = s.fired ∧ s'.idx = s.idx ∧ s'.kcount = s.kcount ∧
    s'.niter = s.niter ∧ s'.converged = s.converged ∧ s'.busted = nextBusted c s r ∧
    0 ≤ s'.h ∧ SzOk c s' ∧
    (∀ j, s.idx ≤ j → ∀ x, c.sw[j]? = some x → s.t + s'.h ≤ x) ∧
    (s'.busted = false → (isFirst s r = true ∨ 0 < s.deltat) → 0 < s'.deltat) ∧
    (s'.busted = false → (isFirst s r = true ∨ 0 < s.deltat) → (∀ x, c.sw[s.idx]? = some x → s.t < x) →
        s.t < c.tf → 0 < s'.h) ∧
    (s.t ≤ c.tf → s.t + s'.h ≤ c.tf) := by
  have hskip : skipIdx c s.t s.idx r = s.idx := by
    cases r with
    | true => exact skipIdx_resume c s.t s.idx
    | false => exact skipIdx_of_lt c s.t s.idx false (hgt rfl)
  have hraw0 := hRaw_nonneg c s.t (nextDeltat c s r)
  obtain ⟨c0, c1, c2, c3⟩ := clip_spec c ok s.t (hRaw c s.t (nextDeltat c s r)) s.idx hraw0 hge
  have hdp : nextBusted c s r = false → (isFirst s r = true ∨ 0 < s.deltat) → 0 < nextDeltat c s r := by
    intro hb hd
    apply nextDeltat_pos c ok s r _ hb
    rcases hd with hd | hd
    · exact Or.inl hd
    · rcases hsz with h | h
      · exact Or.inl h
      · exact Or.inr ⟨h, hd⟩
  simp only [calcH, hskip]
  refine ⟨trivial, trivial, trivial, trivial, trivial, trivial, trivial, trivial, c0, ?_, c3, hdp, ?_, ?_⟩
  · have := calcH_sz c ok s r hsz; simpa only [calcH, hskip] using this
  · intro hb hd hs ht
    exact c2 hs (hRaw_pos c s.t _ (hdp hb hd) ht)
  · intro ht
    have := hRaw_le c s.t (nextDeltat c s r) ht
    linarith

end Andes.Tds

namespace Andes.Tds

def Guard (c : Cfg ℚ) (s : St ℚ) : Prop := s.t - s.h < c.tf ∧ s.busted = false

theorem guard_iff (c : Cfg ℚ) (s : St ℚ) : guard c s = true ↔ Guard c s := by
  unfold guard Guard; simp

theorem nextBusted_conv (c : Cfg ℚ) (s : St ℚ) (hc : s.converged = true) : nextBusted c s false = s.busted := by
  unfold nextBusted; simp [hc]

/-- the accepted step preserves the invariant -/
theorem iterOk_inv (c : Cfg ℚ) (ok : CfgOk c) (s : St ℚ) (v : Verdict) (hI : Inv c s) (hG : Guard c s) :
    Inv c (iterOk c s v) := by
  obtain ⟨hbase, hnb⟩ := hG
  have hh : 0 < s.h := hI.hpos hnb hbase
  set s1 : St ℚ := { s with converged := true, niter := v.niter, stamps := s.t :: s.stamps,
                            busted := s.busted || v.crit, customPending := s.customPending || v.custom } with hs1
  obtain ⟨e_t, e_h, e_d, e_n, e_c, e_b, e_st, e_dmin, e_dmax, e_fx, e_k, e_il, hgt, hcase⟩ :=
    doSwitch'_spec c ok s1 hI.pendEnd hI.idxLe
  set s2 := doSwitch' c s1 with hs2
  have hsz2 : SzOk c s2 := ⟨by rw [e_dmin]; exact hI.sz.dmin_pos, by rw [e_dmin, e_dmax]; exact hI.sz.dmin_le,
    by rw [e_fx]; exact hI.sz.fix_pos⟩
  have ht2 : s2.t = s.t := e_t
  have hst2 : s2.stamps = s.t :: s.stamps := e_st
  have hgt2 : ∀ x, c.sw[s2.idx]? = some x → s2.t < x := by rw [ht2]; exact hgt
  obtain ⟨k_t, k_st, k_f, k_i, k_k, k_n, k_c, k_b, k_h0, k_sz, k_pend, k_d, k_hp, k_tf⟩ :=
    calcH_core c ok s2 false (fun x hx => le_of_lt (hgt2 x hx)) (fun _ => hgt2) (Or.inr hsz2)
  set s3 := calcH c s2 false with hs3
  have hb3 : s3.busted = v.crit := by
    rw [k_b, nextBusted_conv c s2 (by rw [e_c]), e_b]; simp [hs1, hnb]
  have hd2 : 0 < s2.deltat := by rw [e_d]; exact hI.dpos hnb
  have hlater := later_gt c ok s.t s2.idx hgt
  have htf : s.t ≤ c.tf := hI.tleTf hnb
  refine
    { hnn := ?_, sz := ?_, idxLe := ?_, stampsDec := ?_, stampsLe := ?_, pendEnd := ?_, pendBase := ?_,
      hpos := ?_, dpos := ?_, tleTf := ?_, passed := ?_, headEq := ?_, firedAll := ?_, firedAt := ?_,
      noCross := ?_ }
  all_goals simp only [iterOk, ← hs1, ← hs2, ← hs3, add_sub_cancel_right]
  · exact k_h0
  · exact ⟨k_sz.dmin_pos, k_sz.dmin_le, k_sz.fix_pos⟩
  · rw [k_i]; exact e_il
  · rw [k_st, hst2]
    refine List.pairwise_cons.mpr ⟨?_, hI.stampsDec⟩
    intro x hx; have := hI.stampsLe x hx; linarith
  · intro x hx
    rw [k_st, hst2] at hx
    rw [k_t, ht2]
    rcases List.mem_cons.mp hx with rfl | hx
    · exact le_refl _
    · have := hI.stampsLe x hx; linarith
  · intro j hj x hjx
    rw [k_i] at hj; rw [k_t]
    exact k_pend j hj x hjx
  · intro _ j hj x hjx
    rw [k_i] at hj; rw [k_t, ht2]
    exact hlater j hj x hjx
  · intro hb hlt
    rw [k_t, ht2] at hlt
    exact k_hp hb (Or.inr hd2) hgt2 (by rw [ht2]; exact hlt)
  · intro hb; exact k_d hb (Or.inr hd2)
  · intro _; rw [k_t]; exact k_tf (by rw [ht2]; exact htf)
  · intro j hj x hjx
    rw [k_i] at hj; rw [k_t, ht2]
    rcases hcase with ⟨hi, _⟩ | ⟨hi, _, hsw⟩
    · rw [hi] at hj
      have := hI.passed j hj x hjx; linarith
    · rw [hi] at hj
      rcases Nat.lt_succ_iff_lt_or_eq.mp hj with hj | rfl
      · have := hI.passed j hj x hjx; linarith
      · have : c.sw[s.idx]? = some s.t := hsw
        rw [this] at hjx; cases hjx; exact le_refl _
  · intro _ p hp
    rw [k_st, hst2] at hp; simp at hp
    rw [k_t, ht2]; exact hp.symm
  · rw [k_f, k_i]
    rcases hcase with ⟨hi, hf⟩ | ⟨hi, hf, _⟩
    · rw [hi, hf]; exact hI.firedAll
    · rw [hi, hf, List.range_succ, List.reverse_append]; simp; exact hI.firedAll
  · intro j hj
    rw [k_f] at hj
    rw [k_st, hst2]
    rcases hcase with ⟨_, hf⟩ | ⟨_, hf, hsw⟩
    · rw [hf] at hj
      obtain ⟨x, hx, hxs⟩ := hI.firedAt j hj
      exact ⟨x, hx, List.mem_cons_of_mem _ hxs⟩
    · rw [hf] at hj
      rcases List.mem_cons.mp hj with rfl | hj
      · exact ⟨s.t, hsw, List.mem_cons_self⟩
      · obtain ⟨x, hx, hxs⟩ := hI.firedAt j hj
        exact ⟨x, hx, List.mem_cons_of_mem _ hxs⟩
  · rw [k_st, hst2]
    refine List.isChain_cons.mpr ⟨?_, hI.noCross⟩
    intro p hp j x hjx ⟨h1, h2⟩
    have hpe := hI.headEq hnb p hp
    by_cases hj : j < s.idx
    · have := hI.passed j hj x hjx; linarith
    · have := hI.pendEnd j (Nat.le_of_not_lt hj) x hjx; linarith

end Andes.Tds

namespace Andes.Tds

/-- the rejected step preserves the invariant -/
theorem iterFail_inv (c : Cfg ℚ) (ok : CfgOk c) (s : St ℚ) (v : Verdict) (hI : Inv c s) (hG : Guard c s) :
    Inv c (iterFail c s v false) := by
  obtain ⟨hbase, hnb⟩ := hG
  set s1 : St ℚ := { s with converged := false, niter := v.niter, t := s.t - s.h, busted := s.busted || v.nan,
                            customPending := s.customPending || v.custom }
    with hs1
  have hgt1 : ∀ x, c.sw[s1.idx]? = some x → s1.t < x := fun x hx => hI.pendBase hnb s.idx (le_refl _) x hx
  obtain ⟨k_t, k_st, k_f, k_i, k_k, k_n, k_c, k_b, k_h0, k_sz, k_pend, k_d, k_hp, k_tf⟩ :=
    calcH_core c ok s1 false (fun x hx => le_of_lt (hgt1 x hx)) (fun _ => hgt1)
      (Or.inr ⟨hI.sz.dmin_pos, hI.sz.dmin_le, hI.sz.fix_pos⟩)
  set s3 := calcH c s1 false with hs3
  have hd1 : 0 < s1.deltat := hI.dpos hnb
  have hlater := later_gt c ok s1.t s1.idx hgt1
  have ht1 : s1.t = s.t - s.h := rfl
  have hb_mono : s3.busted = false → s1.busted = false := by
    intro hb
    by_contra hne
    have : s1.busted = true := by simpa using hne
    have := nextBusted_mono c s1 false this
    rw [k_b, this] at hb; cases hb
  unfold iterFail
  simp only [Bool.false_eq_true, if_false, ← hs1, ← hs3]
  by_cases h0 : (s3.h == 0.0) = true
  · -- step size collapsed: the run is declared busted, time stays at the restored value
    simp only [h0, if_true]
    have hh0 : s3.h = 0 := by
      have : s3.h = 0.0 := by simpa using h0
      rw [this]; norm_num
    refine
      { hnn := ?_, sz := ?_, idxLe := ?_, stampsDec := ?_, stampsLe := ?_, pendEnd := ?_, pendBase := ?_,
        hpos := ?_, dpos := ?_, tleTf := ?_, passed := ?_, headEq := ?_, firedAll := ?_, firedAt := ?_,
        noCross := ?_ }
    · exact k_h0
    · exact ⟨k_sz.dmin_pos, k_sz.dmin_le, k_sz.fix_pos⟩
    · show s3.idx ≤ _; rw [k_i]; exact hI.idxLe
    · show s3.stamps.Pairwise _; rw [k_st]; exact hI.stampsDec
    · intro x hx
      have hx' : x ∈ s3.stamps := hx
      rw [k_st] at hx'
      show x ≤ s3.t - s3.h
      rw [k_t, hh0, ht1]; have := hI.stampsLe x hx'; linarith
    · intro j hj x hjx
      have hj' : s3.idx ≤ j := hj
      rw [k_i] at hj'
      show s3.t ≤ x
      rw [k_t]; exact le_of_lt (hlater j hj' x hjx)
    · intro hb; simp at hb
    · intro hb; simp at hb
    · intro hb; simp at hb
    · intro hb; simp at hb
    · intro j hj x hjx
      have hj' : j < s3.idx := hj
      rw [k_i] at hj'
      show x ≤ s3.t - s3.h
      rw [k_t, hh0, ht1]; have := hI.passed j hj' x hjx; linarith
    · intro hb; simp at hb
    · show s3.fired = (List.range s3.idx).reverse; rw [k_f, k_i]; exact hI.firedAll
    · intro j hj
      have hj' : j ∈ s3.fired := hj
      rw [k_f] at hj'
      show ∃ x, c.sw[j]? = some x ∧ x ∈ s3.stamps
      rw [k_st]; exact hI.firedAt j hj'
    · show s3.stamps.IsChain _; rw [k_st]; exact hI.noCross
  · simp only [h0, Bool.false_eq_true, if_false]
    have hne : s3.h ≠ 0 := by
      intro h; apply h0; rw [h]; norm_num
    refine
      { hnn := ?_, sz := ?_, idxLe := ?_, stampsDec := ?_, stampsLe := ?_, pendEnd := ?_, pendBase := ?_,
        hpos := ?_, dpos := ?_, tleTf := ?_, passed := ?_, headEq := ?_, firedAll := ?_, firedAt := ?_,
        noCross := ?_ }
    all_goals try simp only [add_sub_cancel_right]
    · exact k_h0
    · exact ⟨k_sz.dmin_pos, k_sz.dmin_le, k_sz.fix_pos⟩
    · rw [k_i]; exact hI.idxLe
    · rw [k_st]; exact hI.stampsDec
    · intro x hx; rw [k_st] at hx; rw [k_t, ht1]; exact hI.stampsLe x hx
    · intro j hj x hjx; rw [k_i] at hj; rw [k_t]; exact k_pend j hj x hjx
    · intro _ j hj x hjx; rw [k_i] at hj; rw [k_t]; exact hlater j hj x hjx
    · intro _ _; exact lt_of_le_of_ne k_h0 (Ne.symm hne)
    · intro hb; exact k_d hb (Or.inr hd1)
    · intro _; rw [k_t]; exact k_tf (by rw [ht1]; linarith)
    · intro j hj x hjx; rw [k_i] at hj; rw [k_t, ht1]; exact hI.passed j hj x hjx
    · intro hb p hp; rw [k_st] at hp; rw [k_t, ht1]; exact hI.headEq hnb p hp
    · rw [k_f, k_i]; exact hI.firedAll
    · intro j hj; rw [k_f] at hj; rw [k_st]; exact hI.firedAt j hj
    · rw [k_st]; exact hI.noCross

/-- under the invariant a loop pass with `h == 0` cannot happen while the guard holds -/
theorem pre_eq (c : Cfg ℚ) (s : St ℚ) (hI : Inv c s) : pre c s = s := by
  unfold pre
  by_cases hg : guard c s = true
  · obtain ⟨h1, h2⟩ := (guard_iff c s).mp hg
    have := hI.hpos h2 h1
    have hne : (s.h == 0.0) = false := by
      have : s.h ≠ 0.0 := by norm_num; exact ne_of_gt this
      simpa using this
    simp [hne]
  · simp [hg]

theorem iter_inv (c : Cfg ℚ) (ok : CfgOk c) (s : St ℚ) (v : Verdict) (hI : Inv c s) (hG : Guard c s) :
    Inv c (iter c s v) := by
  unfold iter
  split_ifs
  · exact iterOk_inv c ok s v hI hG
  · exact iterFail_inv c ok s v hI hG

/-- every state reached by the loop, for every verdict history, satisfies the invariant -/
theorem run_inv (c : Cfg ℚ) (ok : CfgOk c) : ∀ (vs : List Verdict) (s : St ℚ), Inv c s → Inv c (run c s vs) := by
  intro vs
  induction vs with
  | nil => intro s h; unfold run; rw [pre_eq c s h]; exact h
  | cons v vs ih =>
    intro s h
    unfold run
    rw [pre_eq c s h]
    split_ifs with hg
    · exact ih _ (iter_inv c ok s v h ((guard_iff c s).mp hg))
    · exact h

end Andes.Tds

namespace Andes.Tds

theorem isFirst_preInit (f r : Bool) : isFirst (preInit f : St ℚ) r = true := by
  unfold isFirst preInit; simp

/-- the state at the first loop head satisfies the invariant (no switch time at `t = 0`) -/
theorem init_inv (c : Cfg ℚ) (ok : CfgOk c) (f : Bool) (ht0 : 0 ≤ c.t0)
    (hsw : ∀ x ∈ c.sw, 0 < x) : Inv c (init c f) := by
  have z : (preInit f : St ℚ).t = 0 := by unfold preInit; norm_num
  have hgt : ∀ x, c.sw[(preInit f : St ℚ).idx]? = some x → (preInit f : St ℚ).t < x := by
    intro x hx; rw [z]; exact hsw x (List.mem_of_getElem? hx)
  obtain ⟨k_t, k_st, k_f, k_i, k_k, k_n, k_c, k_b, k_h0, k_sz, k_pend, k_d, k_hp, k_tf⟩ :=
    calcH_core c ok (preInit f) false (fun x hx => le_of_lt (hgt x hx)) (fun _ => hgt)
      (Or.inl (isFirst_preInit f false))
  have htf : (0 : ℚ) < c.tf := lt_of_le_of_lt ht0 ok.span
  have hb : (calcH c (preInit f) false).busted = false := by
    rw [k_b]; unfold nextBusted; simp [isFirst_preInit]; rfl
  have hfi := isFirst_preInit f false
  unfold init
  refine
    { hnn := k_h0, sz := k_sz, idxLe := ?_, stampsDec := ?_, stampsLe := ?_, pendEnd := ?_, pendBase := ?_,
      hpos := ?_, dpos := ?_, tleTf := ?_, passed := ?_, headEq := ?_, firedAll := ?_, firedAt := ?_,
      noCross := ?_ }
  · rw [k_i]; simp [preInit]
  · rw [k_st]; simp [preInit]
  · rw [k_st]; simp [preInit]
  · intro j _ x hjx; rw [k_t, z]; exact le_of_lt (hsw x (List.mem_of_getElem? hjx))
  · intro _ j _ x hjx
    rw [k_t, z]
    have := hsw x (List.mem_of_getElem? hjx)
    linarith
  · intro _ _
    exact k_hp hb (Or.inl hfi) hgt (by rw [z]; exact htf)
  · intro _; exact k_d hb (Or.inl hfi)
  · intro _; rw [k_t, z]; exact le_of_lt htf
  · intro j hj; rw [k_i] at hj; simp [preInit] at hj
  · intro _ p hp; rw [k_st] at hp; simp [preInit] at hp
  · rw [k_f, k_i]; simp [preInit]
  · intro j hj; rw [k_f] at hj; simp [preInit] at hj
  · rw [k_st]; simp [preInit]

/-- an un-busted state in which the loop has stopped sits exactly at the end time with `h = 0` -/
theorem stopped_at_tf (c : Cfg ℚ) (s : St ℚ) (hI : Inv c s) (hs : guard c s = false) (hb : s.busted = false) :
    s.t = c.tf ∧ s.h = 0 := by
  have h1 : ¬ (s.t - s.h < c.tf) := by
    intro h; have := (guard_iff c s).mpr ⟨h, hb⟩; rw [hs] at this; cases this
  have h2 := hI.tleTf hb
  have h3 := hI.hnn
  push Not at h1
  constructor <;> linarith

/-- `TDS.run` called again with a later end time: `init_resume` re-establishes the invariant -/
theorem resume_inv (c : Cfg ℚ) (tf' : ℚ) (ok' : CfgOk { c with tf := tf' }) (s : St ℚ) (hI : Inv c s)
    (hs : guard c s = false) (ht0 : 0 ≤ c.t0) (hsp : c.t0 < c.tf) (hle : c.tf ≤ tf') :
    Inv { c with tf := tf' } (resume { c with tf := tf' } s) := by
  set c' : Cfg ℚ := { c with tf := tf' } with hc'
  have hsw : c'.sw = c.sw := rfl
  by_cases hb : s.busted = false
  · -- normal continuation
    obtain ⟨ht, hh⟩ := stopped_at_tf c s hI hs hb
    have htpos : ¬ (s.t < 0.0) := by
      norm_num; linarith
    have hgt : ∀ x, c'.sw[s.idx]? = some x → s.t < x := by
      intro x hx
      have := hI.pendBase hb s.idx (le_refl _) x hx
      rw [hh] at this; linarith
    obtain ⟨k_t, k_st, k_f, k_i, k_k, k_n, k_c, k_b, k_h0, k_sz, k_pend, k_d, k_hp, k_tf⟩ :=
      calcH_core c' ok' s true (fun x hx => le_of_lt (hgt x hx)) (fun h => by cases h)
        (Or.inl (by unfold isFirst; simp))
    have hfi : isFirst s true = true := by unfold isFirst; simp
    have hlater := later_gt c' ok' s.t s.idx hgt
    unfold resume
    simp only [htpos, if_false]
    set s3 := calcH c' s true with hs3
    refine
      { hnn := ?_, sz := ?_, idxLe := ?_, stampsDec := ?_, stampsLe := ?_, pendEnd := ?_, pendBase := ?_,
        hpos := ?_, dpos := ?_, tleTf := ?_, passed := ?_, headEq := ?_, firedAll := ?_, firedAt := ?_,
        noCross := ?_ }
    all_goals try simp only [add_sub_cancel_right]
    · exact k_h0
    · exact ⟨k_sz.dmin_pos, k_sz.dmin_le, k_sz.fix_pos⟩
    · rw [k_i]; exact hI.idxLe
    · rw [k_st]; exact hI.stampsDec
    · intro x hx; rw [k_st] at hx; rw [k_t]; have := hI.stampsLe x hx; linarith
    · intro j hj x hjx; rw [k_i] at hj; rw [k_t]; exact k_pend j hj x hjx
    · intro _ j hj x hjx; rw [k_i] at hj; rw [k_t]; exact hlater j hj x hjx
    · intro hb3 hlt; rw [k_t] at hlt; exact k_hp hb3 (Or.inl hfi) hgt hlt
    · intro hb3; exact k_d hb3 (Or.inl hfi)
    · intro _; rw [k_t]; exact k_tf (by show s.t ≤ tf'; linarith)
    · intro j hj x hjx; rw [k_i] at hj; rw [k_t]; have := hI.passed j hj x hjx; linarith
    · intro _ p hp; rw [k_st] at hp; rw [k_t]; have := hI.headEq hb p hp; linarith
    · rw [k_f, k_i]; exact hI.firedAll
    · intro j hj; rw [k_f] at hj; rw [k_st]; exact hI.firedAt j hj
    · rw [k_st]; exact hI.noCross
  · -- a busted run stays busted; only the bookkeeping clauses remain
    have hbt : s.busted = true := by simpa using hb
    unfold resume
    by_cases hneg : s.t < 0.0
    · simp only [hneg, if_true]
      exact
        { hnn := hI.hnn, sz := ⟨hI.sz.dmin_pos, hI.sz.dmin_le, hI.sz.fix_pos⟩, idxLe := hI.idxLe,
          stampsDec := hI.stampsDec, stampsLe := hI.stampsLe, pendEnd := hI.pendEnd,
          pendBase := fun h => (by rw [hbt] at h; cases h), hpos := fun h => (by rw [hbt] at h; cases h),
          dpos := fun h => (by rw [hbt] at h; cases h), tleTf := fun h => (by rw [hbt] at h; cases h),
          passed := hI.passed, headEq := fun h => (by rw [hbt] at h; cases h), firedAll := hI.firedAll,
          firedAt := hI.firedAt, noCross := hI.noCross }
    · simp only [hneg, if_false]
      obtain ⟨k_t, k_st, k_f, k_i, k_k, k_n, k_c, k_b, k_h0, k_sz, k_pend, k_d, k_hp, k_tf⟩ :=
        calcH_core c' ok' s true (fun x hx => hI.pendEnd s.idx (le_refl _) x hx) (fun h => by cases h)
          (Or.inl (by unfold isFirst; simp))
      set s3 := calcH c' s true with hs3
      have hb3 : s3.busted = true := by rw [k_b]; exact nextBusted_mono c' s true hbt
      refine
        { hnn := ?_, sz := ?_, idxLe := ?_, stampsDec := ?_, stampsLe := ?_, pendEnd := ?_, pendBase := ?_,
          hpos := ?_, dpos := ?_, tleTf := ?_, passed := ?_, headEq := ?_, firedAll := ?_, firedAt := ?_,
          noCross := ?_ }
      all_goals try simp only [add_sub_cancel_right]
      · exact k_h0
      · exact ⟨k_sz.dmin_pos, k_sz.dmin_le, k_sz.fix_pos⟩
      · rw [k_i]; exact hI.idxLe
      · rw [k_st]; exact hI.stampsDec
      · intro x hx; rw [k_st] at hx; rw [k_t]; have := hI.stampsLe x hx; have := hI.hnn; linarith
      · intro j hj x hjx; rw [k_i] at hj; rw [k_t]; exact k_pend j hj x hjx
      · intro h; rw [hb3] at h; cases h
      · intro h; rw [hb3] at h; cases h
      · intro h; rw [hb3] at h; cases h
      · intro h; rw [hb3] at h; cases h
      · intro j hj x hjx; rw [k_i] at hj; rw [k_t]; have := hI.passed j hj x hjx; have := hI.hnn; linarith
      · intro h; rw [hb3] at h; cases h
      · rw [k_f, k_i]; exact hI.firedAll
      · intro j hj; rw [k_f] at hj; rw [k_st]; exact hI.firedAt j hj
      · rw [k_st]; exact hI.noCross

end Andes.Tds

namespace Andes.Tds

/-! ### `store_switch_times`: the list handed to the loop is strictly increasing and complete -/

theorem insertU_mem (x : ℚ) (l : List ℚ) (y : ℚ) : y ∈ insertU x l ↔ y = x ∨ y ∈ l := by
  induction l with
  | nil => simp [insertU]
  | cons z zs ih =>
    unfold insertU
    split_ifs with h1 h2
    · simp
    · have : x = z := by simpa using h2
      subst this; simp
    · simp [ih]; tauto

theorem insertU_sorted (x : ℚ) (l : List ℚ) (h : l.Pairwise (· < ·)) : (insertU x l).Pairwise (· < ·) := by
  induction l with
  | nil => simp [insertU]
  | cons z zs ih =>
    obtain ⟨hz, hzs⟩ := List.pairwise_cons.mp h
    unfold insertU
    split_ifs with h1 h2
    · refine List.pairwise_cons.mpr ⟨?_, h⟩
      intro y hy
      rcases List.mem_cons.mp hy with rfl | hy
      · exact h1
      · exact lt_trans h1 (hz y hy)
    · exact h
    · refine List.pairwise_cons.mpr ⟨?_, ih hzs⟩
      intro y hy
      rcases (insertU_mem x zs y).mp hy with rfl | hy
      · have h2' : ¬ (y = z) := by simpa using h2
        push Not at h1
        exact lt_of_le_of_ne h1 (Ne.symm h2')
      · exact hz y hy

theorem sortU_sorted (l : List ℚ) : (sortU l).Pairwise (· < ·) := by
  induction l with
  | nil => simp [sortU]
  | cons x xs ih => exact insertU_sorted x _ ih

theorem sortU_mem (l : List ℚ) (y : ℚ) : y ∈ sortU l ↔ y ∈ l := by
  induction l with
  | nil => simp [sortU]
  | cons x xs ih =>
    have : sortU (x :: xs) = insertU x (sortU xs) := rfl
    rw [this, insertU_mem, ih]; simp

theorem switchTimes_sorted (eps now : ℚ) (times : List ℚ) : (switchTimes eps now times).Pairwise (· < ·) :=
  sortU_sorted _

theorem switchTimes_mem (eps now : ℚ) (times : List ℚ) (y : ℚ) :
    y ∈ switchTimes eps now times ↔ now ≤ y ∧ (y ∈ times ∨ (∃ t ∈ times, y = t - eps) ∨ (∃ t ∈ times, y = t + eps)) := by
  unfold switchTimes
  rw [sortU_mem]
  simp only [List.mem_filter, List.mem_append, List.mem_map, decide_eq_true_eq]
  constructor
  · rintro ⟨h, hy⟩
    refine ⟨hy, ?_⟩
    rcases h with (h | ⟨t, ht, rfl⟩) | ⟨t, ht, rfl⟩
    · exact Or.inl h
    · exact Or.inr (Or.inl ⟨t, ht, rfl⟩)
    · exact Or.inr (Or.inr ⟨t, ht, rfl⟩)
  · rintro ⟨hy, h⟩
    refine ⟨?_, hy⟩
    rcases h with h | ⟨t, ht, rfl⟩ | ⟨t, ht, rfl⟩
    · exact Or.inl (Or.inl h)
    · exact Or.inl (Or.inr ⟨t, ht, rfl⟩)
    · exact Or.inr ⟨t, ht, rfl⟩

end Andes.Tds
