import Andes.Model.Discrete
import Andes.Model.Delay
import Mathlib.Tactic.Linarith
import Mathlib.Tactic.NormNum
import Mathlib.Tactic.FieldSimp
import Mathlib.Tactic.Ring
import Mathlib.Algebra.Order.Field.Rat
import Mathlib.Data.List.Basic
import Mathlib.Data.List.Nodup
import Mathlib.Data.List.Count
import Mathlib.Data.Rat.Floor

/-! # Lemmas about the discrete-component models (scalar type `ℚ`) -/
namespace Andes.Discrete

@[simp] theorem ofB_true : (ofB true : ℚ) = 1 := by simp [ofB]; norm_num
@[simp] theorem ofB_false : (ofB false : ℚ) = 0 := by simp [ofB]; norm_num
theorem zero_lit : (0.0 : ℚ) = 0 := by norm_num
theorem one_lit : (1.0 : ℚ) = 1 := by norm_num
theorem two_lit : (2.0 : ℚ) = 2 := by norm_num

theorem beq_iff (a b : ℚ) : (a == b) = true ↔ a = b := by simp

/-- `np.put` chain: an address that is not written keeps its value -/
theorem putAll_other (sets : List (Nat × ℚ)) : ∀ (xs : List ℚ) (a : Nat), (∀ p ∈ sets, p.1 ≠ a) →
    (putAll xs sets)[a]? = xs[a]? := by
  induction sets with
  | nil => intro xs a _; rfl
  | cons p ps ih =>
    intro xs a h
    have h1 : p.1 ≠ a := h p (by simp)
    have h2 : ∀ q ∈ ps, q.1 ≠ a := fun q hq => h q (by simp [hq])
    show (putAll (xs.set p.1 p.2) ps)[a]? = xs[a]?
    rw [ih _ a h2, List.getElem?_set_ne h1]

theorem putAll_length (sets : List (Nat × ℚ)) : ∀ (xs : List ℚ), (putAll xs sets).length = xs.length := by
  induction sets with
  | nil => intro xs; rfl
  | cons p ps ih => intro xs; show (putAll (xs.set p.1 p.2) ps).length = _; rw [ih]; simp

/-- with pairwise distinct addresses every written address ends up holding its value -/
theorem putAll_mem (sets : List (Nat × ℚ)) : ∀ (xs : List ℚ), (sets.map (·.1)).Nodup →
    ∀ p ∈ sets, p.1 < xs.length → (putAll xs sets)[p.1]? = some p.2 := by
  induction sets with
  | nil => intro xs _ p hp; simp at hp
  | cons q qs ih =>
    intro xs hnd p hp hlt
    simp only [List.map_cons, List.nodup_cons] at hnd
    show (putAll (xs.set q.1 q.2) qs)[p.1]? = some p.2
    rcases List.mem_cons.mp hp with rfl | hmem
    · rw [putAll_other qs _ p.1 (fun r hr heq => hnd.1 (by rw [← heq]; exact List.mem_map_of_mem hr))]
      simp [hlt]
    · exact ih _ hnd.2 p hmem (by simpa using hlt)

theorem zeroAll_eq (sets : List (Nat × ℚ)) : ∀ (q : List ℚ),
    zeroAll q sets = putAll q (sets.map (fun p => (p.1, (0 : ℚ)))) := by
  induction sets with
  | nil => intro q; rfl
  | cons p ps ih =>
    intro q
    show zeroAll (q.set p.1 0.0) ps = putAll (q.set p.1 0) _
    rw [ih, zero_lit]

/-! ### Selector -/
theorem npMax_eq (a b : ℚ) : npMax a b = max a b := by unfold npMax; grind
theorem npMin_eq (a b : ℚ) : npMin a b = min a b := by unfold npMin; grind

theorem foldl_max_ge (l : List ℚ) : ∀ a, a ≤ l.foldl npMax a ∧ (∀ x ∈ l, x ≤ l.foldl npMax a) ∧
    (l.foldl npMax a = a ∨ l.foldl npMax a ∈ l) := by
  induction l with
  | nil => intro a; simp
  | cons b l ih =>
    intro a
    obtain ⟨h1, h2, h3⟩ := ih (npMax a b)
    rw [npMax_eq] at h1 h2 h3
    simp only [List.foldl_cons, List.mem_cons, npMax_eq]
    refine ⟨le_trans (le_max_left a b) h1, ?_, ?_⟩
    · intro x hx
      rcases hx with rfl | hx
      · exact le_trans (le_max_right a x) h1
      · exact h2 x hx
    · rcases h3 with h3 | h3
      · rcases max_choice a b with hm | hm
        · left; rw [h3, hm]
        · right; left; rw [h3, hm]
      · right; right; exact h3

theorem foldl_min_le (l : List ℚ) : ∀ a, l.foldl npMin a ≤ a ∧ (∀ x ∈ l, l.foldl npMin a ≤ x) ∧
    (l.foldl npMin a = a ∨ l.foldl npMin a ∈ l) := by
  induction l with
  | nil => intro a; simp
  | cons b l ih =>
    intro a
    obtain ⟨h1, h2, h3⟩ := ih (npMin a b)
    rw [npMin_eq] at h1 h2 h3
    simp only [List.foldl_cons, List.mem_cons, npMin_eq]
    refine ⟨le_trans h1 (min_le_left a b), ?_, ?_⟩
    · intro x hx
      rcases hx with rfl | hx
      · exact le_trans h1 (min_le_right a x)
      · exact h2 x hx
    · rcases h3 with h3 | h3
      · rcases min_choice a b with hm | hm
        · left; rw [h3, hm]
        · right; left; rw [h3, hm]
      · right; right; exact h3

end Andes.Discrete
