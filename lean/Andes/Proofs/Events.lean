import Andes.Model.Events
import Mathlib.Data.List.Basic
import Mathlib.Tactic.Ring
import Mathlib.Algebra.Group.Nat.Even
import Mathlib.Tactic.Linarith

namespace Andes.Events

theorem flipAt_length (d : Nat) (u : List Bool) : (flipAt d u).length = u.length := by
  unfold flipAt; split <;> simp

theorem flipAt_get (d k : Nat) (u : List Bool) :
    (flipAt d u)[k]? = if k = d then u[k]?.map (!·) else u[k]? := by
  unfold flipAt
  split
  next b hb =>
    by_cases hk : k = d
    · subst hk
      obtain ⟨hlt, hget⟩ := List.getElem?_eq_some_iff.mp hb
      simp [hlt, hget]
    · simp [hk, List.getElem?_set_ne (Ne.symm hk)]
  next hb =>
    by_cases hk : k = d
    · subst hk; simp [hb]
    · simp [hk]

variable {α : Type} [BEq α]

theorem applyAt_length (ts : List (Toggle α)) (x : α) (u : List Bool) : (applyAt ts x u).length = u.length := by
  unfold applyAt
  induction ts generalizing u with
  | nil => rfl
  | cons t ts ih =>
    simp only [List.foldl_cons]
    rw [ih]; split_ifs
    · exact flipAt_length _ _
    · rfl

/-- the status of device `k` after the switch action at `x`: negated once per acting Toggle that
addresses `k`; every other device keeps its status -/
theorem applyAt_get (ts : List (Toggle α)) (x : α) (u : List Bool) (k : Nat) :
    (applyAt ts x u)[k]? = u[k]?.map (fun b => if Even (hits ts x k) then b else !b) := by
  unfold applyAt hits
  induction ts generalizing u with
  | nil => simp
  | cons t ts ih =>
    simp only [List.foldl_cons]
    rw [ih]
    by_cases ha : acts t x = true
    · by_cases hd : t.dev = k
      · subst hd
        simp only [ha, if_true, flipAt_get, List.filter_cons, Bool.true_and, beq_self_eq_true, List.length_cons]
        cases u[t.dev]? with
        | none => simp
        | some b =>
          simp only [Option.map_some, Nat.even_add_one]
          by_cases he : Even (List.filter (fun tg => acts tg x && tg.dev == t.dev) ts).length <;> simp [he]
      · have : (t.dev == k) = false := by simpa using hd
        simp only [ha, if_true, flipAt_get, List.filter_cons, this, Bool.and_false]
        have hk : ¬ k = t.dev := fun h => hd h.symm
        simp [hk]
    · have : acts t x = false := by simpa using ha
      simp [this]

/-- a device addressed by no acting Toggle is untouched -/
theorem applyAt_untouched (ts : List (Toggle α)) (x : α) (u : List Bool) (k : Nat) (h : hits ts x k = 0) :
    (applyAt ts x u)[k]? = u[k]? := by
  rw [applyAt_get, h]; cases u[k]? <;> simp

/-- disabled Toggles never act -/
theorem disabled_never_acts (tg : Toggle α) (x : α) (h : tg.u = false) : acts tg x = false := by
  unfold acts; simp [h]

end Andes.Events
