import Andes.Proofs.Expr
import Mathlib.Tactic.CasesM
import Mathlib.Analysis.SpecialFunctions.Trigonometric.Deriv
import Mathlib.Analysis.SpecialFunctions.Trigonometric.ArctanDeriv
import Mathlib.Analysis.SpecialFunctions.ExpDeriv
import Mathlib.Analysis.SpecialFunctions.Log.Deriv
import Mathlib.Analysis.SpecialFunctions.Pow.Deriv
import Mathlib.Analysis.Calculus.Deriv.Abs

/-! Symbolic derivative `D` of `Andes.Expr`, computed inside Lean, and its correctness
(`hasDerivAt_D`): what makes C03 a theorem instead of a finite-difference test. -/
namespace Andes.Expr

/-- well-definedness of `e` for differentiation with respect to variable `i` at `ρ`: denominators
non-zero, arguments of `sqrt`/`log`/`abs`/`sign`/`tan` away from their singular points, and the
conditions of comparisons / piecewise terms (and symbolic exponents, `atan2`) independent of `i` -/
def WD (ρ : Nat → ℝ) (i : Nat) : Expr → Prop
  | num _ | var _ | pi | nan => True
  | add a b | sub a b | mul a b => WD ρ i a ∧ WD ρ i b
  | div a b => WD ρ i a ∧ WD ρ i b ∧ evalR ρ b ≠ 0
  | neg a => WD ρ i a
  | pow a _ => WD ρ i a
  | rpow a b => WD ρ i a ∧ mentions i b = false ∧ 0 < evalR ρ a
  | un .sin a | un .cos a | un .exp a | un .arctan a => WD ρ i a
  | un .tan a => WD ρ i a ∧ Real.cos (evalR ρ a) ≠ 0
  | un .log a => WD ρ i a ∧ evalR ρ a ≠ 0
  | un .sqrt a => WD ρ i a ∧ evalR ρ a ≠ 0
  | un .abs a => WD ρ i a ∧ evalR ρ a ≠ 0
  | un .sign a => mentions i a = false
  | atan2 a b => mentions i a = false ∧ mentions i b = false
  | lt a b | le a b | band a b | bor a b => mentions i a = false ∧ mentions i b = false
  | bnot a => mentions i a = false
  | ite c a b => mentions i c = false ∧ WD ρ i a ∧ WD ρ i b

/-- an expression that does not mention variable `i` does not change when `ρ i` changes -/
theorem evalR_update_of_not_mentions (ρ : Nat → ℝ) (i : Nat) (t : ℝ) :
    ∀ e : Expr, mentions i e = false → evalR (Function.update ρ i t) e = evalR ρ e := by
  intro e
  induction e with
  | num q => intro _; rfl
  | var j =>
    intro h
    have : i ≠ j := by simpa [mentions] using h
    simp [evalR, Function.update_of_ne (Ne.symm this)]
  | pi => intro _; rfl
  | nan => intro _; rfl
  | add a b iha ihb | sub a b iha ihb | mul a b iha ihb | div a b iha ihb | rpow a b iha ihb
  | atan2 a b iha ihb | lt a b iha ihb | le a b iha ihb | band a b iha ihb | bor a b iha ihb =>
    intro h
    simp only [mentions, Bool.or_eq_false_iff] at h
    simp only [evalR, iha h.1, ihb h.2]
  | neg a iha | pow a n iha | un f a iha | bnot a iha =>
    intro h
    simp only [mentions] at h
    simp only [evalR, iha h]
  | ite c a b ihc iha ihb =>
    intro h
    simp only [mentions, Bool.or_eq_false_iff] at h
    simp only [evalR, ihc h.1.1, iha h.1.2, ihb h.2]

theorem hasDerivAt_const_of_not_mentions (ρ : Nat → ℝ) (i : Nat) (e : Expr) (h : mentions i e = false) :
    HasDerivAt (fun t => evalR (Function.update ρ i t) e) 0 (ρ i) := by
  have : (fun t => evalR (Function.update ρ i t) e) = fun _ => evalR ρ e := by
    funext t; exact evalR_update_of_not_mentions ρ i t e h
  rw [this]; exact hasDerivAt_const _ _

theorem evalR_num_zero (ρ : Nat → ℝ) : evalR ρ (num 0) = 0 := by simp [evalR]

/-- **the Lean-computed derivative is the derivative** of the real semantics, at every point where the
expression is well defined -/
theorem hasDerivAt_D (ρ : Nat → ℝ) (i : Nat) (e : Expr) (h : WD ρ i e) :
    HasDerivAt (fun t => evalR (Function.update ρ i t) e) (evalR ρ (D i e)) (ρ i) := by
  have hρ : Function.update ρ i (ρ i) = ρ := Function.update_eq_self i ρ
  induction e with
  | num q =>
    show HasDerivAt (fun _ => (q : ℝ)) ((0 : ℚ) : ℝ) (ρ i)
    simpa using hasDerivAt_const (ρ i) (q : ℝ)
  | pi =>
    show HasDerivAt (fun _ => Real.pi) ((0 : ℚ) : ℝ) (ρ i)
    simpa using hasDerivAt_const (ρ i) Real.pi
  | nan =>
    show HasDerivAt (fun _ => (0 : ℝ)) ((0 : ℚ) : ℝ) (ρ i)
    simpa using hasDerivAt_const (ρ i) (0 : ℝ)
  | var j =>
    by_cases hij : i = j
    · subst hij
      have : (fun t => evalR (Function.update ρ i t) (var i)) = fun t => t := by
        funext t; simp [evalR]
      rw [this]; simpa [evalR, D] using hasDerivAt_id' (ρ i)
    · have : (fun t => evalR (Function.update ρ i t) (var j)) = fun _ => ρ j := by
        funext t; simp [evalR, Function.update_of_ne (Ne.symm hij)]
      rw [this]; simpa [evalR, D, hij] using hasDerivAt_const (ρ i) (ρ j)
  | add a b iha ihb => exact (iha h.1).add (ihb h.2)
  | sub a b iha ihb => exact (iha h.1).sub (ihb h.2)
  | mul a b iha ihb =>
    have := (iha h.1).mul (ihb h.2)
    rw [hρ] at this
    exact this
  | div a b iha ihb =>
    have hb : evalR (Function.update ρ i (ρ i)) b ≠ 0 := by rw [hρ]; exact h.2.2
    have := (iha h.1).div (ihb h.2.1) hb
    rw [hρ] at this
    exact this
  | neg a iha => exact (iha h).neg
  | pow a n iha =>
    have := (iha h).pow n
    rw [hρ] at this
    refine HasDerivAt.congr_deriv (f' := (n : ℝ) * evalR ρ a ^ (n - 1) * evalR ρ (D i a)) this ?_
    show _ = ((n : ℚ) : ℝ) * evalR ρ a ^ (n - 1) * evalR ρ (D i a)
    push_cast; ring
  | rpow a b iha _ =>
    obtain ⟨ha, hb, hpos⟩ := h
    have hfun : (fun t => evalR (Function.update ρ i t) (rpow a b)) =
        fun t => (evalR (Function.update ρ i t) a) ^ (evalR ρ b) := by
      funext t; simp only [evalR, evalR_update_of_not_mentions ρ i t b hb]; rfl
    rw [hfun]
    have hne : evalR (Function.update ρ i (ρ i)) a ≠ 0 ∨ (1 : ℝ) ≤ evalR ρ b := by
      left; rw [hρ]; exact ne_of_gt hpos
    have := (iha ha).rpow_const (p := evalR ρ b) hne
    rw [hρ] at this
    refine HasDerivAt.congr_deriv this ?_
    show _ = evalR ρ b * Real.rpow (evalR ρ a) (evalR ρ b - ((1 : ℚ) : ℝ)) * evalR ρ (D i a)
    push_cast
    have : Real.rpow (evalR ρ a) (evalR ρ b - 1) = evalR ρ a ^ (evalR ρ b - 1) := rfl
    rw [this]; ring
  | un f a iha =>
    cases f with
    | sin => have := (iha h).sin; rw [hρ] at this; exact this
    | cos => have := (iha h).cos; rw [hρ] at this; exact this
    | exp => have := (iha h).exp; rw [hρ] at this; exact this
    | tan =>
      have hc : Real.cos (evalR (Function.update ρ i (ρ i)) a) ≠ 0 := by rw [hρ]; exact h.2
      have := (Real.hasDerivAt_tan hc).comp (ρ i) (iha h.1)
      rw [hρ] at this
      refine HasDerivAt.congr_deriv this ?_
      show _ = evalR ρ (D i a) / Real.cos (evalR ρ a) ^ 2
      ring
    | log =>
      have hc : evalR (Function.update ρ i (ρ i)) a ≠ 0 := by rw [hρ]; exact h.2
      have := (iha h.1).log hc
      rw [hρ] at this
      exact this
    | sqrt =>
      have hc : evalR (Function.update ρ i (ρ i)) a ≠ 0 := by rw [hρ]; exact h.2
      have := (iha h.1).sqrt hc
      rw [hρ] at this
      refine HasDerivAt.congr_deriv this ?_
      show _ = evalR ρ (D i a) / (((2 : ℚ) : ℝ) * √(evalR ρ a))
      push_cast; ring
    | abs =>
      have hc : evalR (Function.update ρ i (ρ i)) a ≠ 0 := by rw [hρ]; exact h.2
      have := (hasDerivAt_abs hc).comp (ρ i) (iha h.1)
      rw [hρ] at this
      refine HasDerivAt.congr_deriv this ?_
      show _ = Real.sign (evalR ρ a) * evalR ρ (D i a)
      rcases lt_or_gt_of_ne h.2 with hneg | hpos
      · rw [Real.sign_of_neg hneg, sign_neg hneg]; simp
      · rw [Real.sign_of_pos hpos, sign_pos hpos]; simp
    | arctan =>
      have := (iha h).arctan
      rw [hρ] at this
      refine HasDerivAt.congr_deriv this ?_
      show _ = evalR ρ (D i a) / (((1 : ℚ) : ℝ) + evalR ρ a ^ 2)
      push_cast; ring
    | sign =>
      have := hasDerivAt_const_of_not_mentions ρ i (un .sign a) (by simpa [mentions, WD] using h)
      simpa [D, evalR] using this
  | atan2 a b _ _ =>
    have := hasDerivAt_const_of_not_mentions ρ i (atan2 a b) (by simp [mentions, h.1, h.2])
    simpa [D, evalR] using this
  | lt a b _ _ =>
    have := hasDerivAt_const_of_not_mentions ρ i (lt a b) (by simp [mentions, h.1, h.2])
    simpa [D, evalR] using this
  | le a b _ _ =>
    have := hasDerivAt_const_of_not_mentions ρ i (le a b) (by simp [mentions, h.1, h.2])
    simpa [D, evalR] using this
  | band a b _ _ =>
    have := hasDerivAt_const_of_not_mentions ρ i (band a b) (by simp [mentions, h.1, h.2])
    simpa [D, evalR] using this
  | bor a b _ _ =>
    have := hasDerivAt_const_of_not_mentions ρ i (bor a b) (by simp [mentions, h.1, h.2])
    simpa [D, evalR] using this
  | bnot a _ =>
    have := hasDerivAt_const_of_not_mentions ρ i (bnot a) (by simpa [mentions, WD] using h)
    simpa [D, evalR] using this
  | ite c a b _ iha ihb =>
    obtain ⟨hc, ha, hb⟩ := h
    have hcond : ∀ t, evalR (Function.update ρ i t) c = evalR ρ c := fun t => evalR_update_of_not_mentions ρ i t c hc
    by_cases hz : evalR ρ c ≠ 0
    · have hf : (fun t => evalR (Function.update ρ i t) (ite c a b)) = fun t => evalR (Function.update ρ i t) a := by
        funext t; simp only [evalR, hcond t, hz, not_false_eq_true, if_true, ne_eq]
      rw [hf]
      have : evalR ρ (D i (ite c a b)) = evalR ρ (D i a) := by simp only [D, evalR, hz, not_false_eq_true, if_true, ne_eq]
      rw [this]; exact iha ha
    · have hf : (fun t => evalR (Function.update ρ i t) (ite c a b)) = fun t => evalR (Function.update ρ i t) b := by
        funext t; simp only [evalR, hcond t, hz, if_false]
      rw [hf]
      have : evalR ρ (D i (ite c a b)) = evalR ρ (D i b) := by simp only [D, evalR, hz, if_false]
      rw [this]; exact ihb hb

/-- unfold `D` and `evalR` -/
macro "andes_unfold_d" : tactic =>
  `(tactic| simp only [D, evalR, Fn1.evalR, ind, WD, mentions, if_true, if_false, reduceIte, Nat.reduceEqDiff,
      Nat.reduceSub, Rat.cast_zero, Rat.cast_one, Rat.cast_ofNat, Rat.cast_natCast, Rat.cast_div, Rat.cast_neg,
      Rat.cast_intCast, Nat.cast_ofNat, Int.cast_ofNat, Int.cast_neg, Rat.cast_mul, Rat.cast_add, Rat.cast_sub,
      Rat.cast_inv, Rat.cast_pow, Nat.cast_zero, Nat.cast_one, Nat.cast_succ] at *)

/-- portfolio for "generated Jacobian entry = D(declared equation)" -/
macro "andes_deriv" : tactic =>
  `(tactic| (andes_unfold_d <;>
             first
              | rfl
              | ring1
              | (andes_trig; ring1)
              | (norm_num; done)
              | (norm_num; ring1)
              | (field_simp; ring1)
              | (norm_num; andes_trig; ring1)
              | (split_ifs <;> first | ring1 | (norm_num; done) | (norm_num; ring1) | (field_simp; ring1) | (simp_all; done) | (exfalso; simp_all; done))
              | ((try simp only [true_and, and_true, and_self, ne_eq, pow_eq_zero_iff, OfNat.ofNat_ne_zero, not_false_eq_true] at *); (try casesm* _ ∧ _); field_simp; ring1)
              | ((try simp only [true_and, and_true, and_self, ne_eq, pow_eq_zero_iff, OfNat.ofNat_ne_zero, not_false_eq_true] at *); (try casesm* _ ∧ _); andes_trig; field_simp; ring1)
              | (simp; done)
              | (simp; ring1)
              | (norm_num; field_simp; ring1)
              | (ring_nf; done)))

macro "andes_deriv_zero" : tactic =>
  `(tactic| (andes_unfold_d <;> first | rfl | ring1 | (norm_num; done) | (field_simp; ring1) | (simp; done) | (ring_nf; done)))

end Andes.Expr
