import Andes.Model.Config
import Mathlib.Data.List.Basic
/-! Lemmas about the configuration model (`Andes/Model/Config.lean`). -/
namespace Andes.Config

variable {F : Type} {α : Type}

/-! ### association lists -/

@[simp] theorem aget_nil (k : String) : aget k ([] : List (String × α)) = none := rfl

theorem aget_cons (k k' : String) (v : α) (r : List (String × α)) :
    aget k ((k', v) :: r) = if k' = k then some v else aget k r := rfl

theorem aget_aset (k k' : String) (v : α) (l : List (String × α)) :
    aget k' (aset k v l) = if k' = k then some v else aget k' l := by
  induction l with
  | nil =>
    simp only [aset, aget_cons, aget_nil]
    by_cases h : k = k'
    · subst h; simp
    · have h' : ¬ k' = k := fun e => h e.symm
      simp [h, h']
  | cons p r ih =>
    obtain ⟨a, b⟩ := p
    simp only [aset]
    by_cases h : a = k
    · subst h
      simp only [if_true, aget_cons]
      by_cases h2 : a = k'
      · subst h2; simp
      · have h' : ¬ k' = a := fun e => h2 e.symm
        simp [h2, h']
    · simp only [h, if_false, aget_cons, ih]
      by_cases h2 : a = k'
      · subst h2; simp [h]
      · simp [h2]

theorem aget_aset_self (k : String) (v : α) (l : List (String × α)) : aget k (aset k v l) = some v := by
  simp [aget_aset]

theorem aget_aset_ne {k k' : String} (h : k' ≠ k) (v : α) (l : List (String × α)) :
    aget k' (aset k v l) = aget k' l := by
  simp [aget_aset, h]

theorem aget_append (k : String) (l1 l2 : List (String × α)) :
    aget k (l1 ++ l2) = match aget k l1 with | some v => some v | none => aget k l2 := by
  induction l1 with
  | nil => simp
  | cons p r ih =>
    obtain ⟨a, b⟩ := p
    simp only [List.cons_append, aget_cons]
    by_cases h : a = k <;> simp [h, ih]

theorem aget_filter_key (k : String) (p : String → Bool) (l : List (String × α)) :
    aget k (l.filter (fun kv => p kv.1)) = if p k then aget k l else none := by
  induction l with
  | nil => simp
  | cons q r ih =>
    obtain ⟨a, b⟩ := q
    cases hp : p a with
    | true =>
      simp only [List.filter_cons, hp, if_true, aget_cons, ih]
      by_cases h : a = k
      · subst h; simp [hp]
      · simp [h]
    | false =>
      have hf : List.filter (fun kv : String × α => p kv.1) ((a, b) :: r) = List.filter (fun kv => p kv.1) r := by
        simp [List.filter_cons, hp]
      rw [hf, ih, aget_cons]
      by_cases h : a = k
      · subst h; simp [hp]
      · simp [h]

theorem aget_map_val (k : String) (f : α → β) (l : List (String × α)) :
    aget k (l.map (fun kv => (kv.1, f kv.2))) = (aget k l).map f := by
  induction l with
  | nil => simp
  | cons q r ih =>
    obtain ⟨a, b⟩ := q
    simp only [List.map_cons, aget_cons, ih]
    by_cases h : a = k <;> simp [h]

theorem ahas_eq (k : String) (l : List (String × α)) : ahas k l = (aget k l).isSome := rfl

/-! ### `Config.add` -/

theorem Cfg.hasKey_of_not_reserved (c : Cfg F) {k : String} (hk : k ∉ reserved) :
    c.hasKey k = (aget k c.fields).isSome := by
  unfold Cfg.hasKey ahas
  have : reserved.contains k = false := by
    simpa [List.contains_iff_mem] using hk
  rw [this, Bool.false_or]

theorem Cfg.add1_name (N : Numerals F) (c : Cfg F) (kv : String × Val F) : (c.add1 N kv).name = c.name := by
  unfold Cfg.add1 Cfg.set; split <;> rfl

theorem Cfg.add1_alt (N : Numerals F) (c : Cfg F) (kv : String × Val F) : (c.add1 N kv).alt = c.alt := by
  unfold Cfg.add1 Cfg.set; split <;> rfl

theorem Cfg.add1_cache (N : Numerals F) (c : Cfg F) (kv : String × Val F) : (c.add1 N kv).cache = c.cache := by
  unfold Cfg.add1 Cfg.set; split <;> rfl

theorem Cfg.add_name (N : Numerals F) (c : Cfg F) (kvs : List (String × Val F)) : (c.add N kvs).name = c.name := by
  induction kvs generalizing c with
  | nil => rfl
  | cons kv r ih => simp only [Cfg.add, List.foldl_cons] at ih ⊢; rw [ih]; exact Cfg.add1_name N c kv

theorem Cfg.add_alt (N : Numerals F) (c : Cfg F) (kvs : List (String × Val F)) : (c.add N kvs).alt = c.alt := by
  induction kvs generalizing c with
  | nil => rfl
  | cons kv r ih => simp only [Cfg.add, List.foldl_cons] at ih ⊢; rw [ih]; exact Cfg.add1_alt N c kv

theorem Cfg.add_cache (N : Numerals F) (c : Cfg F) (kvs : List (String × Val F)) : (c.add N kvs).cache = c.cache := by
  induction kvs generalizing c with
  | nil => rfl
  | cons kv r ih => simp only [Cfg.add, List.foldl_cons] at ih ⊢; rw [ih]; exact Cfg.add1_cache N c kv

/-- the heart of "load before add": an existing key keeps its value, a new key takes the FIRST value offered -/
theorem Cfg.add_get (N : Numerals F) (c : Cfg F) (kvs : List (String × Val F)) {k : String} (hk : k ∉ reserved) :
    aget k (c.add N kvs).fields =
      match aget k c.fields with
      | some v => some v
      | none => (aget k kvs).map (coerce N) := by
  induction kvs generalizing c with
  | nil => simp only [Cfg.add, List.foldl_nil, aget_nil, Option.map_none]; cases aget k c.fields <;> rfl
  | cons kv r ih =>
    obtain ⟨a, b⟩ := kv
    have ih' := ih (c.add1 N (a, b))
    simp only [Cfg.add, List.foldl_cons] at ih' ⊢
    rw [ih']
    unfold Cfg.add1
    by_cases hh : c.hasKey a
    · simp only [hh, if_true, aget_cons]
      by_cases hak : a = k
      · subst hak
        rw [Cfg.hasKey_of_not_reserved c hk] at hh
        cases hg : aget a c.fields with
        | none => simp [hg] at hh
        | some v => rfl
      · simp [hak]
    · simp only [hh, Cfg.set, aget_cons]
      by_cases hak : a = k
      · subst hak
        rw [Cfg.hasKey_of_not_reserved c hk] at hh
        cases hg : aget a c.fields with
        | none => simp [aget_aset_self]
        | some v => simp [hg] at hh
      · have hka : k ≠ a := fun h => hak h.symm
        simp [aget_aset_ne hka, hak]

/-! ### `ConfigParser` -/

theorem Rc.items_get (rc : Rc) (name k : String) : aget k (rc.items name) = rc.lookup name k := by
  unfold Rc.items Rc.lookup
  rw [aget_append]
  cases h : aget k (rc.own name) with
  | some v => rfl
  | none =>
    have := aget_filter_key k (fun key => !ahas key (rc.own name)) rc.defaults
    simp only at this ⊢
    rw [this]
    simp [ahas_eq, h]

theorem Rc.own_setOpt {rc rc' : Rc} {sec key val : String} (h : rc.setOpt sec key val = .ok rc')
    (hs : isDefaultName sec = false) (s' : String) :
    rc'.own s' = if s' = sec then aset (lower key) val (rc.own sec) else rc.own s' := by
  unfold Rc.setOpt at h
  simp only [hs] at h
  cases hg : aget sec rc.sects with
  | none => simp [hg] at h
  | some own =>
    simp only [hg] at h
    injection h with h
    subst h
    unfold Rc.own
    simp only [aget_aset]
    by_cases hss : s' = sec
    · subst hss; simp [hg]
    · simp [hss]

theorem Rc.own_setOpt_default {rc rc' : Rc} {sec key val : String} (h : rc.setOpt sec key val = .ok rc')
    (hs : isDefaultName sec = true) (s' : String) : rc'.own s' = rc.own s' := by
  unfold Rc.setOpt at h
  simp only [hs, if_true] at h
  injection h with h
  subst h
  rfl

theorem Rc.own_addSection {rc rc' : Rc} {sec : String} (h : rc.addSection sec = .ok rc') (s' : String) :
    rc'.own s' = rc.own s' := by
  unfold Rc.addSection at h
  split at h
  · cases h
  · split at h
    · cases h
    · rename_i h1 h2
      injection h with h
      subst h
      unfold Rc.own
      simp only [aget_append]
      cases hg : aget s' rc.sects with
      | some v => rfl
      | none =>
        simp only [aget_cons, aget_nil]
        by_cases hss : sec = s' <;> simp [hss]

end Andes.Config
