import Andes.Model.Island
import Mathlib.Data.List.Basic
import Mathlib.Data.List.Nodup
import Mathlib.Data.List.Range
import Mathlib.Data.List.Perm.Subperm
import Mathlib.Logic.Relation
import Mathlib.Tactic.Linarith

/-! Lemmas about the island-detection model: the closure loop computes reachability classes, the outer
loop enumerates every class of the non-isolated vertices once and terminates, counting lemmas for the
break test, the start-bus scan. -/
namespace Andes.Island

/-! ### the graph -/

/-- an in-service series device joins `i` and `j` (the specification-level edge relation) -/
def Link (n : Nat) (es : List Edge) (i j : Nat) : Prop :=
  i < n ∧ j < n ∧ ∃ e ∈ es, e.u = true ∧ ((e.fr = i ∧ e.to = j) ∨ (e.to = i ∧ e.fr = j))

/-- `j` is an end of an in-service device -/
def Touched (es : List Edge) (j : Nat) : Prop := ∃ e ∈ es, e.u = true ∧ (e.fr = j ∨ e.to = j)

/-- the relation the sparse pattern of `temp` encodes -/
def E (n : Nat) (es : List Edge) (i j : Nat) : Prop := adj es i j = true ∧ i < n ∧ j < n

theorem adj_iff {es : List Edge} {i j : Nat} : adj es i j = true ↔
    ∃ e ∈ es, e.u = true ∧ ((e.fr = i ∧ e.to = j) ∨ (e.to = i ∧ e.fr = j) ∨ (e.fr = i ∧ e.fr = j) ∨ (e.to = i ∧ e.to = j)) := by
  simp [adj, List.any_eq_true, or_assoc]

theorem adj_symm (es : List Edge) (i j : Nat) : adj es i j = adj es j i := by
  rw [Bool.eq_iff_iff, adj_iff, adj_iff]
  constructor <;> (rintro ⟨e, he, hu, h⟩; refine ⟨e, he, hu, ?_⟩; omega)

theorem adj_self_iff {es : List Edge} {j : Nat} : adj es j j = true ↔ Touched es j := by
  rw [adj_iff]; unfold Touched
  constructor <;> (rintro ⟨e, he, hu, h⟩; refine ⟨e, he, hu, ?_⟩; omega)

theorem adj_touched_right {es : List Edge} {i j : Nat} (h : adj es i j = true) : Touched es j := by
  obtain ⟨e, he, hu, h⟩ := adj_iff.mp h
  exact ⟨e, he, hu, by omega⟩

theorem adj_touched_left {es : List Edge} {i j : Nat} (h : adj es i j = true) : Touched es i := by
  rw [adj_symm] at h; exact adj_touched_right h

theorem E_symm {n es i j} (h : E n es i j) : E n es j i := ⟨by rw [adj_symm]; exact h.1, h.2.2, h.2.1⟩

theorem deg_eq_zero_iff {es : List Edge} {j : Nat} : deg es j = 0 ↔ ¬ Touched es j := by
  unfold deg Touched
  simp only [Nat.add_eq_zero_iff, List.length_eq_zero_iff, List.filter_eq_nil_iff]
  constructor
  · rintro ⟨h1, h2⟩ ⟨e, he, hu, h⟩
    rcases h with h | h
    · exact h2 e he (by simp [hu, h])
    · exact h1 e he (by simp [hu, h])
  · intro h
    constructor <;> (intro e he hc; apply h; simp at hc; exact ⟨e, he, hc.1, by omega⟩)

theorem mem_islanded {n es j} : j ∈ islanded n es ↔ j < n ∧ ¬ Touched es j := by
  simp [islanded, List.mem_filter, deg_eq_zero_iff]

theorem islanded_nodup (n es) : (islanded n es).Nodup := (List.nodup_range (n := n)).filter _

theorem Link_symm {n es i j} (h : Link n es i j) : Link n es j i := by
  obtain ⟨hi, hj, e, he, hu, h⟩ := h
  exact ⟨hj, hi, e, he, hu, by omega⟩

theorem E_iff {n es i j} : E n es i j ↔ Link n es i j ∨ (i = j ∧ j < n ∧ Touched es j) := by
  unfold E Link Touched
  rw [adj_iff]
  constructor
  · rintro ⟨⟨e, he, hu, h⟩, hi, hj⟩
    rcases h with h | h | h | h
    · exact Or.inl ⟨hi, hj, e, he, hu, Or.inl h⟩
    · exact Or.inl ⟨hi, hj, e, he, hu, Or.inr h⟩
    · exact Or.inr ⟨by omega, hj, e, he, hu, by omega⟩
    · exact Or.inr ⟨by omega, hj, e, he, hu, by omega⟩
  · rintro (⟨hi, hj, e, he, hu, h⟩ | ⟨rfl, hj, e, he, hu, h⟩)
    · exact ⟨⟨e, he, hu, by omega⟩, hi, hj⟩
    · exact ⟨⟨e, he, hu, by omega⟩, hj, hj⟩

/-- reachability through the pattern of `temp` = reachability through in-service devices -/
theorem reach_E_iff_Link {n es s j} :
    Relation.ReflTransGen (E n es) s j ↔ Relation.ReflTransGen (Link n es) s j := by
  constructor
  · intro h
    induction h with
    | refl => exact .refl
    | tail _ hbc ih =>
      rcases E_iff.mp hbc with h | ⟨rfl, _⟩
      · exact ih.tail h
      · exact ih
  · intro h
    induction h with
    | refl => exact .refl
    | tail _ hbc ih => exact ih.tail (E_iff.mpr (Or.inl hbc))

/-! ### the closure loop -/

theorem mem_row {n es s j} : j ∈ row n es s ↔ j < n ∧ adj es s j = true := by
  simp [row, List.mem_filter]

theorem mem_nbrs {n es S j} : j ∈ nbrs n es S ↔ j < n ∧ ∃ i ∈ S, adj es i j = true := by
  simp [nbrs, List.mem_filter, List.any_eq_true]

theorem nbrs_nodup (n es S) : (nbrs n es S).Nodup := (List.nodup_range (n := n)).filter _
theorem row_nodup (n es s) : (row n es s).Nodup := (List.nodup_range (n := n)).filter _

/-- every member of a row pattern carries a self loop (an end of an in-service device) -/
def Good (n : Nat) (es : List Edge) (S : List Nat) : Prop :=
  S.Nodup ∧ ∀ i ∈ S, i < n ∧ adj es i i = true

theorem good_row (n es s) : Good n es (row n es s) :=
  ⟨row_nodup n es s, fun _ hi => ⟨(mem_row.mp hi).1, adj_self_iff.mpr (adj_touched_right (mem_row.mp hi).2)⟩⟩

theorem good_nbrs (n es S) : Good n es (nbrs n es S) :=
  ⟨nbrs_nodup n es S, fun i hi => by
    obtain ⟨hin, k, _, hk⟩ := mem_nbrs.mp hi
    exact ⟨hin, adj_self_iff.mpr (adj_touched_right hk)⟩⟩

theorem subset_nbrs {n es S} (hS : Good n es S) : S ⊆ nbrs n es S :=
  fun i hi => mem_nbrs.mpr ⟨(hS.2 i hi).1, i, hi, (hS.2 i hi).2⟩

theorem length_le_nbrs {n es S} (hS : Good n es S) : S.length ≤ (nbrs n es S).length :=
  (List.subperm_of_subset hS.1 (subset_nbrs hS)).length_le

theorem good_length_le {n es S} (hS : Good n es S) : S.length ≤ n := by
  have : S.Subperm (List.range n) := List.subperm_of_subset hS.1 (fun i hi => List.mem_range.mpr (hS.2 i hi).1)
  simpa using this.length_le

/-- when the entry count does not grow the pattern is closed under the edge relation -/
theorem stop_closed {n es S} (hS : Good n es S) (hlen : (nbrs n es S).length = S.length) :
    ∀ i ∈ nbrs n es S, ∀ j, E n es i j → j ∈ nbrs n es S := by
  have hperm : S.Perm (nbrs n es S) :=
    (List.subperm_of_subset hS.1 (subset_nbrs hS)).perm_of_length_le (le_of_eq hlen)
  intro i hi j hij
  exact mem_nbrs.mpr ⟨hij.2.2, i, hperm.mem_iff.mpr hi, hij.1⟩

/-- the inner loop terminates (fuel `n + 1` suffices for every graph) and returns a closed superset of its
seed in which everything is reachable from the seed -/
theorem closeLoop_spec (n es) : ∀ f S, Good n es S → n + 1 ≤ f + S.length →
    ∃ T, closeLoop n es f S = some T ∧ Good n es T ∧ S ⊆ T ∧
      (∀ i ∈ T, ∀ j, E n es i j → j ∈ T) ∧
      (∀ j ∈ T, ∃ i ∈ S, Relation.TransGen (E n es) i j) := by
  intro f
  induction f with
  | zero =>
    intro S hS hf
    have := good_length_le hS
    omega
  | succ f ih =>
    intro S hS hf
    unfold closeLoop
    simp only
    by_cases hlen : (nbrs n es S).length = S.length
    · simp only [hlen, beq_self_eq_true, if_true]
      refine ⟨_, rfl, good_nbrs n es S, subset_nbrs hS, stop_closed hS hlen, ?_⟩
      intro j hj
      obtain ⟨hjn, i, hi, hij⟩ := mem_nbrs.mp hj
      exact ⟨i, hi, .single ⟨hij, (hS.2 i hi).1, hjn⟩⟩
    · have hlt : S.length < (nbrs n es S).length := lt_of_le_of_ne (length_le_nbrs hS) (Ne.symm hlen)
      have hne : ((nbrs n es S).length == S.length) = false := by simpa using hlen
      simp only [hne]
      obtain ⟨T, hT, hgood, hsub, hclosed, hreach⟩ := ih (nbrs n es S) (good_nbrs n es S) (by omega)
      refine ⟨T, by simpa using hT, hgood, fun i hi => hsub (subset_nbrs hS hi), hclosed, ?_⟩
      intro j hj
      obtain ⟨k, hk, hkj⟩ := hreach j hj
      obtain ⟨hkn, i, hi, hik⟩ := mem_nbrs.mp hk
      exact ⟨i, hi, .head ⟨hik, (hS.2 i hi).1, hkn⟩ hkj⟩

theorem closed_contains_reach {n es} {T : List Nat} (hclosed : ∀ i ∈ T, ∀ j, E n es i j → j ∈ T) :
    ∀ i j, Relation.TransGen (E n es) i j → i ∈ T → j ∈ T := by
  intro i j h
  induction h with
  | single h => intro hi; exact hclosed _ hi _ h
  | tail _ h ih => intro hi; exact hclosed _ (ih hi) _ h

/-- `cons.J` after the inner loop = everything reachable from `s` in at least one step -/
theorem component_spec (n es) {s : Nat} (hs : s < n) :
    ∃ T, component n es s = some T ∧ Good n es T ∧ ∀ j, j ∈ T ↔ Relation.TransGen (E n es) s j := by
  obtain ⟨T, hT, hgood, hsub, hclosed, hreach⟩ :=
    closeLoop_spec n es (n + 1) (row n es s) (good_row n es s) (by omega)
  refine ⟨T, hT, hgood, fun j => ⟨?_, ?_⟩⟩
  · intro hj
    obtain ⟨i, hi, hij⟩ := hreach j hj
    exact .head ⟨(mem_row.mp hi).2, hs, (mem_row.mp hi).1⟩ hij
  · intro h
    rcases Relation.TransGen.head'_iff.mp h with ⟨k, hsk, hkj⟩
    have hk : k ∈ T := hsub (mem_row.mpr ⟨hsk.2.2, hsk.1⟩)
    rcases Relation.reflTransGen_iff_eq_or_transGen.mp hkj with rfl | hkj
    · exact hk
    · exact closed_contains_reach hclosed _ _ hkj hk

/-! ### counting -/

theorem count3 (p q : Nat → Bool) : ∀ l : List Nat, (∀ a ∈ l, ¬(p a = true ∧ q a = true)) →
    (l.filter p).length + (l.filter q).length + (l.filter fun a => !p a && !q a).length = l.length
  | [], _ => rfl
  | a :: l, h => by
    have ih := count3 p q l (fun b hb => h b (List.mem_cons_of_mem _ hb))
    have ha := h a (List.mem_cons_self ..)
    simp only [List.filter_cons]
    cases hp : p a <;> cases hq : q a <;> simp_all <;> omega

theorem filter_length_le (p p' : Nat → Bool) : ∀ l : List Nat, (∀ a ∈ l, p' a = true → p a = true) →
    (l.filter p').length ≤ (l.filter p).length
  | [], _ => by simp
  | a :: l, h => by
    have ih := filter_length_le p p' l (fun b hb => h b (List.mem_cons_of_mem _ hb))
    have ha := h a (List.mem_cons_self ..)
    simp only [List.filter_cons]
    cases hp : p a <;> cases hq : p' a <;> simp_all <;> omega

theorem filter_length_lt (p p' : Nat → Bool) : ∀ l : List Nat, (∀ a ∈ l, p' a = true → p a = true) →
    (∃ a ∈ l, p a = true ∧ p' a = false) → (l.filter p').length < (l.filter p).length
  | [], _, h => by simp at h
  | a :: l, h, hex => by
    have hl : ∀ b ∈ l, p' b = true → p b = true := fun b hb => h b (List.mem_cons_of_mem _ hb)
    have ha := h a (List.mem_cons_self ..)
    have hle := filter_length_le p p' l hl
    simp only [List.filter_cons]
    obtain ⟨b, hb, hpb, hpb'⟩ := hex
    rcases List.mem_cons.mp hb with rfl | hb
    · simp [hpb, hpb']; omega
    · have ih := filter_length_lt p p' l hl ⟨b, hb, hpb, hpb'⟩
      cases hp : p a <;> cases hq : p' a <;> simp_all <;> omega

theorem filter_contains_filter (p : Nat → Bool) (l : List Nat) :
    l.filter (fun v => (l.filter p).contains v) = l.filter p := by
  apply List.filter_congr
  intro v hv
  rw [Bool.eq_iff_iff]
  simp [List.mem_filter, hv]

/-- number of vertices that are neither isolated nor visited -/
def rest (n : Nat) (isl conn : List Nat) : Nat :=
  ((List.range n).filter fun v => !isl.contains v && !conn.contains v).length

theorem mem_unionPat {n a b j} : j ∈ unionPat n a b ↔ j < n ∧ (j ∈ a ∨ j ∈ b) := by
  simp [unionPat, List.mem_filter]

/-- the `break` test of the outer loop: every non-isolated vertex has been visited -/
theorem break_iff (n es) (conn c : List Nat)
    (hd : ∀ j ∈ unionPat n conn c, j ∉ islanded n es) :
    (n - (islanded n es).length ≤ (unionPat n conn c).length ↔ rest n (islanded n es) (unionPat n conn c) = 0) := by
  have h := count3 (fun v => (islanded n es).contains v) (fun v => (unionPat n conn c).contains v) (List.range n)
    (by intro a _ ⟨h1, h2⟩; simp at h1 h2; exact hd a h2 h1)
  have h1 : ((List.range n).filter fun v => (islanded n es).contains v).length = (islanded n es).length := by
    unfold islanded; rw [filter_contains_filter]
  have h2 : ((List.range n).filter fun v => (unionPat n conn c).contains v).length = (unionPat n conn c).length := by
    unfold unionPat; rw [filter_contains_filter]
  rw [h1, h2, List.length_range] at h
  unfold rest
  omega

theorem rest_pos_iff {n isl conn} : 0 < rest n isl conn ↔ ∃ v, v < n ∧ v ∉ isl ∧ v ∉ conn := by
  unfold rest
  rw [List.length_pos_iff_exists_mem]
  simp [List.mem_filter]

theorem rest_le (n isl conn) : rest n isl conn ≤ n := by
  unfold rest
  simpa using List.length_filter_le (fun v => !isl.contains v && !conn.contains v) (List.range n)

/-! ### the start-bus scan -/

theorem find_range' (p : Nat → Bool) : ∀ len s, (∃ v, s ≤ v ∧ v < s + len ∧ p v = true) →
    ∃ w, (List.range' s len).find? p = some w ∧ s ≤ w ∧ w < s + len ∧ p w = true ∧ ∀ i, s ≤ i → i < w → p i = false := by
  intro len
  induction len with
  | zero => rintro s ⟨v, h1, h2, _⟩; omega
  | succ len ih =>
    rintro s ⟨v, h1, h2, h3⟩
    rw [List.range'_succ, List.find?_cons]
    cases hp : p s with
    | true => exact ⟨s, rfl, le_refl _, by omega, hp, fun i _ _ => by omega⟩
    | false =>
      have hv : s + 1 ≤ v := by
        rcases Nat.eq_or_lt_of_le h1 with rfl | h
        · rw [hp] at h3; cases h3
        · exact h
      obtain ⟨w, hw, h4, h5, h6, h7⟩ := ih (s + 1) ⟨v, hv, by omega, h3⟩
      refine ⟨w, hw, by omega, by omega, h6, fun i hi hiw => ?_⟩
      rcases Nat.eq_or_lt_of_le hi with rfl | h
      · exact hp
      · exact h7 i h hiw

theorem scan_spec {n conn isl visit} (h : ∃ v, visit ≤ v ∧ v < n ∧ v ∉ conn ∧ v ∉ isl) :
    visit ≤ scan n conn isl visit ∧ scan n conn isl visit < n ∧ scan n conn isl visit ∉ conn ∧
    scan n conn isl visit ∉ isl ∧ ∀ i, visit ≤ i → i < scan n conn isl visit → i ∈ conn ∨ i ∈ isl := by
  obtain ⟨v, h1, h2, h3, h4⟩ := h
  obtain ⟨w, hw, h5, h6, h7, h8⟩ := find_range' (fun i => !(conn.contains i || isl.contains i)) (n - visit) visit
    ⟨v, h1, by omega, by simp [h3, h4]⟩
  unfold scan
  rw [hw]
  dsimp only
  simp at h7
  refine ⟨h5, by omega, h7.1, h7.2, fun i hi hiw => ?_⟩
  have := h8 i hi hiw
  simp at this
  tauto

/-! ### the outer loop -/

/-- reachability class of `s` as the loop computes it -/
abbrev R (n : Nat) (es : List Edge) (s j : Nat) : Prop := Relation.TransGen (E n es) s j

theorem R_symm {n es s j} (h : R n es s j) : R n es j s := by
  induction h with
  | single h => exact .single (E_symm h)
  | tail _ hbc ih => exact .head (E_symm hbc) ih

theorem R_self {n es s} (hs : s < n) (ht : Touched es s) : R n es s s :=
  .single ⟨adj_self_iff.mpr ht, hs, hs⟩

theorem R_right {n es s j} (h : R n es s j) : j < n ∧ Touched es j := by
  rcases Relation.TransGen.tail'_iff.mp h with ⟨k, _, hkj⟩
  exact ⟨hkj.2.2, adj_touched_right hkj.1⟩

/-- what is true of `island_sets` while and after the outer loop runs -/
structure Sets (n : Nat) (es : List Edge) (sets : List (List Nat)) : Prop where
  comp : ∀ c ∈ sets, ∃ s, s < n ∧ Touched es s ∧ ∀ j, j ∈ c ↔ R n es s j
  disj : sets.Pairwise List.Disjoint

structure Inv (n : Nat) (es : List Edge) (conn : List Nat) (sets : List (List Nat)) (visit : Nat) : Prop
    extends Sets n es sets where
  conn_iff : ∀ j, j ∈ conn ↔ ∃ c ∈ sets, j ∈ c
  visited : ∀ i < visit, i ∈ conn ∨ i ∈ islanded n es

/-- result of a successful run: classes, pairwise disjoint, covering every non-isolated vertex -/
structure Post (n : Nat) (es : List Edge) (sets : List (List Nat)) : Prop extends Sets n es sets where
  cover : ∀ v, v < n → Touched es v → ∃ c ∈ sets, v ∈ c

theorem not_islanded_iff {n es v} (hv : v < n) : v ∉ islanded n es ↔ Touched es v := by
  rw [mem_islanded]; tauto

theorem outer_main (n es) : ∀ f conn sets start visit, Inv n es conn sets visit →
    start < n → Touched es start → start ∉ conn → rest n (islanded n es) conn ≤ f →
    ∃ final, outer n es (islanded n es) f conn sets start visit = .ok final ∧ Post n es final := by
  intro f
  induction f with
  | zero =>
    intro conn sets start visit _ hs ht hc hr
    have : 0 < rest n (islanded n es) conn := rest_pos_iff.mpr ⟨start, hs, (not_islanded_iff hs).mpr ht, hc⟩
    omega
  | succ f ih =>
    intro conn sets start visit hinv hs ht hc hr
    have hnisl : start ∉ islanded n es := (not_islanded_iff hs).mpr ht
    obtain ⟨c, hcomp, hgood, hcmem⟩ := component_spec n es hs
    have hconn_lt : ∀ j ∈ conn, j < n ∧ Touched es j := by
      intro j hj
      obtain ⟨c', hc', hjc'⟩ := (hinv.conn_iff j).mp hj
      obtain ⟨s, _, _, hmem⟩ := hinv.comp c' hc'
      exact R_right ((hmem j).mp hjc')
    -- the new invariant
    have hsets' : Sets n es (sets ++ [c]) := by
      constructor
      · intro c' hc'
        rcases List.mem_append.mp hc' with h | h
        · exact hinv.comp c' h
        · rw [List.mem_singleton.mp h]; exact ⟨start, hs, ht, hcmem⟩
      · rw [List.pairwise_append]
        refine ⟨hinv.disj, List.pairwise_singleton _ _, ?_⟩
        intro c' hc' c'' hc'' j hj1 hj2
        rw [List.mem_singleton.mp hc''] at hj2
        obtain ⟨s, _, _, hmem⟩ := hinv.comp c' hc'
        have h1 : R n es s start := ((hmem j).mp hj1).trans (R_symm ((hcmem j).mp hj2))
        exact hc ((hinv.conn_iff start).mpr ⟨c', hc', (hmem start).mpr h1⟩)
    have hconn' : ∀ j, j ∈ unionPat n conn c ↔ ∃ c' ∈ sets ++ [c], j ∈ c' := by
      intro j
      rw [mem_unionPat]
      constructor
      · rintro ⟨_, h | h⟩
        · obtain ⟨c', hc', hj⟩ := (hinv.conn_iff j).mp h
          exact ⟨c', List.mem_append_left _ hc', hj⟩
        · exact ⟨c, by simp, h⟩
      · rintro ⟨c', hc', hj⟩
        rcases List.mem_append.mp hc' with h | h
        · have hjc : j ∈ conn := (hinv.conn_iff j).mpr ⟨c', h, hj⟩
          exact ⟨(hconn_lt j hjc).1, Or.inl hjc⟩
        · rw [List.mem_singleton.mp h] at hj
          exact ⟨(R_right ((hcmem j).mp hj)).1, Or.inr hj⟩
    have hd : ∀ j ∈ unionPat n conn c, j ∉ islanded n es := by
      intro j hj
      obtain ⟨c', hc', hjc'⟩ := (hconn' j).mp hj
      obtain ⟨s, _, _, hmem⟩ := hsets'.comp c' hc'
      have := R_right ((hmem j).mp hjc')
      exact (not_islanded_iff this.1).mpr this.2
    have hstart' : start ∈ unionPat n conn c := mem_unionPat.mpr ⟨hs, Or.inr ((hcmem start).mpr (R_self hs ht))⟩
    have hsub : ∀ j ∈ conn, j ∈ unionPat n conn c := fun j hj => mem_unionPat.mpr ⟨(hconn_lt j hj).1, Or.inl hj⟩
    rw [outer]
    have h1 : (islanded n es).contains start = false := by simpa using hnisl
    have h2 : ¬ n ≤ start := by omega
    simp only [h1, h2, hcomp, Bool.false_eq_true, if_false]
    by_cases hbrk : n - (islanded n es).length ≤ (unionPat n conn c).length
    · simp only [hbrk, if_true]
      refine ⟨_, rfl, hsets', ?_⟩
      intro v hv htv
      have h0 := (break_iff n es conn c hd).mp hbrk
      by_contra hcon
      have : 0 < rest n (islanded n es) (unionPat n conn c) :=
        rest_pos_iff.mpr ⟨v, hv, (not_islanded_iff hv).mpr htv, fun h => hcon ((hconn' v).mp h)⟩
      omega
    · simp only [hbrk, if_false]
      have hpos : 0 < rest n (islanded n es) (unionPat n conn c) := by
        rcases Nat.eq_zero_or_pos (rest n (islanded n es) (unionPat n conn c)) with h | h
        · exact absurd ((break_iff n es conn c hd).mpr h) hbrk
        · exact h
      obtain ⟨v, hv, hvi, hvc⟩ := rest_pos_iff.mp hpos
      have hvv : visit ≤ v := by
        by_contra hlt
        rcases hinv.visited v (by omega) with h | h
        · exact hvc (hsub v h)
        · exact hvi h
      obtain ⟨s1, s2, s3, s4, s5⟩ := scan_spec (n := n) (conn := unionPat n conn c) (isl := islanded n es)
        (visit := visit) ⟨v, hvv, hv, hvc, hvi⟩
      have hlt : rest n (islanded n es) (unionPat n conn c) < rest n (islanded n es) conn := by
        unfold rest
        apply filter_length_lt
        · intro a _ ha
          simp at ha ⊢
          exact ⟨ha.1, fun h => ha.2 (hsub a h)⟩
        · exact ⟨start, List.mem_range.mpr hs, by simp [hnisl, hc], by simp [hstart']⟩
      apply ih
      · exact { hsets' with
          conn_iff := hconn'
          visited := by
            intro i hi
            by_cases hiv : i < visit
            · rcases hinv.visited i hiv with h | h
              · exact Or.inl (hsub i h)
              · exact Or.inr h
            · exact s5 i (by omega) hi }
      · exact s2
      · exact (not_islanded_iff s2).mp s4
      · exact s3
      · omega

/-- the whole loop from its initial state: `IndexError` exactly when every bus is isolated, otherwise the
classes of the non-isolated vertices; the fuel never runs out -/
theorem outer_skip (n es) : ∀ f start, (∀ i < start, i ∈ islanded n es) → start ≤ n → (n - start) + n + 1 ≤ f →
    ((∀ v, v < n → v ∈ islanded n es) ∧ outer n es (islanded n es) f [] [] start 0 = .error .indexError) ∨
    ((∃ v, v < n ∧ v ∉ islanded n es) ∧ ∃ final, outer n es (islanded n es) f [] [] start 0 = .ok final ∧ Post n es final) := by
  intro f
  induction f with
  | zero => intro start _ _ hf; omega
  | succ f ih =>
    intro start hpre hle hf
    by_cases hisl : start ∈ islanded n es
    · have hlt : start < n := (mem_islanded.mp hisl).1
      have h1 : (islanded n es).contains start = true := by simpa using hisl
      rw [outer]
      simp only [h1, if_true]
      apply ih (start + 1) _ (by omega) (by omega)
      intro i hi
      rcases Nat.eq_or_lt_of_le (Nat.le_of_lt_succ hi) with rfl | h
      · exact hisl
      · exact hpre i h
    · by_cases hn : n ≤ start
      · left
        refine ⟨fun v hv => hpre v (by omega), ?_⟩
        rw [outer]
        simp [hisl, hn]
      · right
        have hs : start < n := by omega
        refine ⟨⟨start, hs, hisl⟩, ?_⟩
        apply outer_main
        · exact { comp := by simp, disj := List.Pairwise.nil, conn_iff := by simp, visited := by simp }
        · exact hs
        · exact (not_islanded_iff hs).mp hisl
        · simp
        · have := rest_le n (islanded n es) []
          omega

/-! ### slack classification -/

theorem mem_noswIslands {sl : List Slack} {sets : List (List Nat)} {i : Nat} :
    i ∈ noswIslands sl sets ↔ i < sets.length ∧ slackCount sl (sets.getD i []) = 0 := by
  unfold noswIslands noswCounter
  simp only [List.mem_filter, List.mem_range, beq_iff_eq]
  omega

theorem mem_mswIslands {sl : List Slack} {sets : List (List Nat)} {i : Nat} :
    i ∈ mswIslands sl sets ↔ i < sets.length ∧ 2 ≤ slackCount sl (sets.getD i []) := by
  unfold mswIslands noswCounter
  simp only [List.mem_filter, List.mem_range, decide_eq_true_eq]
  omega

/-- the loop guard `len(islanded_buses) < n` fails exactly when every bus is isolated -/
theorem guard_iff_all_islanded (n : Nat) (es : List Edge) :
    n ≤ (islanded n es).length ↔ ∀ v, v < n → v ∈ islanded n es := by
  have hle : (islanded n es).length ≤ n := by
    have := List.length_filter_le (fun j => deg es j == 0) (List.range n)
    simpa [islanded] using this
  constructor
  · intro h v hv
    have heq : ((List.range n).filter fun j => deg es j == 0).length = (List.range n).length := by
      have : (islanded n es).length = n := by omega
      simpa [islanded] using this
    have hall := List.length_filter_eq_length_iff.mp heq v (List.mem_range.mpr hv)
    exact List.mem_filter.mpr ⟨List.mem_range.mpr hv, hall⟩
  · intro h
    have heq : ((List.range n).filter fun j => deg es j == 0).length = (List.range n).length := by
      apply List.length_filter_eq_length_iff.mpr
      intro a ha
      have := h a (List.mem_range.mp ha)
      exact (List.mem_filter.mp this).2
    have : (islanded n es).length = n := by simpa [islanded] using heq
    omega

/-! ### ConnMan: any set of buses switched off, groups with any number of models -/

/-- does one of the first `nsrc` bus fields of `d` name one of the buses `bs`? -/
def attachedB (nsrc : Nat) (bs : List Nat) (d : Dev) : Bool :=
  (List.range nsrc).any fun k => bs.any fun b => d.buses[k]? == some b

/-- the specification of `act` on one device -/
def offIfAttached (nsrc : Nat) (bs : List Nat) (d : Dev) : Dev :=
  if attachedB nsrc bs d then { d with u := false } else d

theorem setOff_nil (g : Grp) : setOff g [] = g := by
  cases g; simp [setOff]

theorem actGroup_eq_setOff (g : Grp) (offs : List Nat) : actGroup g offs = setOff g (devicesFlat g offs) := by
  unfold actGroup
  by_cases he : devicesFlat g offs = []
  · simp [he, setOff_nil]
  · have h1 : (devicesFlat g offs).isEmpty = false := by simpa using he
    simp [h1]

/-- identifiers of the devices of a group -/
def grpIds (g : Grp) : List Nat := g.models.flatMap fun m => m.map (·.id)

theorem grpIds_eq (g : Grp) : grpIds g = g.models.flatten.map (·.id) := by
  unfold grpIds
  rw [List.map_flatten, List.flatMap_def]

/-- with distinct idx in the group, a device's idx is among the collected matches iff the device is attached to
one of the switched-off buses -/
theorem mem_ids_group {g : Grp} (hn : (grpIds g).Nodup) (bs : List Nat) {m : List Dev} {d : Dev}
    (hm : m ∈ g.models) (hd : d ∈ m) :
    d.id ∈ devicesFlat g bs ↔ attachedB g.nsrc bs d = true := by
  unfold attachedB devicesFlat firstMatches modelMatches
  simp only [List.mem_flatMap, List.mem_range, List.mem_map, List.mem_filter, List.any_eq_true, beq_iff_eq]
  rw [grpIds_eq] at hn
  have hdf : d ∈ g.models.flatten := List.mem_flatten.mpr ⟨m, hm, hd⟩
  constructor
  · rintro ⟨k, hk, b, hb, m', hm', d', ⟨hd', hbb⟩, hid⟩
    have hdf' : d' ∈ g.models.flatten := List.mem_flatten.mpr ⟨m', hm', hd'⟩
    have : d' = d := List.inj_on_of_nodup_map hn hdf' hdf hid
    exact ⟨k, hk, b, hb, this ▸ hbb⟩
  · rintro ⟨k, hk, b, hb, hbb⟩
    exact ⟨k, hk, b, hb, m, hm, d, ⟨hd, hbb⟩, rfl⟩

/-- `act` on one group, any buses off, distinct idx: exactly the attached devices go off, in EVERY model -/
theorem actGroup_spec {g : Grp} (hn : (grpIds g).Nodup) (bs : List Nat) :
    actGroup g bs = { g with models := g.models.map fun m => m.map (offIfAttached g.nsrc bs) } := by
  rw [actGroup_eq_setOff]
  unfold setOff
  congr 1
  apply List.map_congr_left
  intro m hm
  apply List.map_congr_left
  intro d hd
  unfold offIfAttached
  have := mem_ids_group hn bs hm hd
  by_cases ha : attachedB g.nsrc bs d = true
  · simp [ha, this.mpr ha]
  · have hni : d.id ∉ devicesFlat g bs := fun h => ha (this.mp h)
    simp [ha, hni]

theorem actGroups_spec (gs : List Grp) (bs : List Nat) (h : ∀ g ∈ gs, (grpIds g).Nodup) :
    actGroups gs bs = gs.map fun g => { g with models := g.models.map fun m => m.map (offIfAttached g.nsrc bs) } := by
  unfold actGroups
  apply List.map_congr_left
  intro g hg
  exact actGroup_spec (h g hg) bs

/-! ### neutralising isolated buses -/

section Neutral
variable {α : Type}

theorem gIslands_length (zero : α) (n : Nat) (isl : List Nat) (g : List α) :
    (gIslands zero n isl g).length = g.length := by simp [gIslands]

theorem gIslands_get (zero : α) (n : Nat) (isl : List Nat) (g : List α) (i : Nat) (hi : i < g.length) :
    (gIslands zero n isl g)[i]? = some (if i ∈ isl ∨ (n ≤ i ∧ i - n ∈ isl) then zero else g[i]) := by
  simp [gIslands, hi]

theorem zip_self_eq (l : List Nat) : l.zip l = l.map fun x => (x, x) := by
  induction l <;> simp_all

theorem zip_map_right_eq (l : List Nat) (f : Nat → Nat) : l.zip (l.map f) = l.map fun x => (x, f x) := by
  induction l <;> simp_all

theorem zip_map_left_eq (l : List Nat) (f : Nat → Nat) : (l.map f).zip l = l.map fun x => (f x, x) := by
  induction l <;> simp_all

theorem zip_map_both_eq (l : List Nat) (f : Nat → Nat) : (l.map f).zip (l.map f) = l.map fun x => (f x, f x) := by
  induction l <;> simp_all

/-- `ipset` seen from one stored entry -/
def setIf (pairs : List (Nat × Nat)) (i j : Nat) (v cur : α) : α := if pairs.contains (i, j) then v else cur

/-- value of the stored entry (i, j) after `j_islands` (the four `ipset` calls in program order) -/
def jVal (zero eps : α) (n : Nat) (isl : List Nat) (i j : Nat) (x : α) : α :=
  setIf ((isl.map (n + ·)).zip isl) i j zero
    (setIf ((isl.map (n + ·)).zip (isl.map (n + ·))) i j eps
      (setIf (isl.zip (isl.map (n + ·))) i j zero (setIf (isl.zip isl) i j eps x)))

theorem ipset_eq_map (v : α) (pairs : List (Nat × Nat)) (m : List (Nat × Nat × α)) :
    ipset v pairs m = m.map fun e => (e.1, e.2.1, setIf pairs e.1 e.2.1 v e.2.2) := by
  unfold ipset setIf
  apply List.map_congr_left
  intro e _
  split <;> rfl

/-- `j_islands` keeps the stored pattern and rewrites the values entry by entry -/
theorem jIslands_eq_map (zero eps : α) (n : Nat) (isl : List Nat) (gy : List (Nat × Nat × α)) (h : isl ≠ []) :
    jIslands zero eps n isl gy = gy.map fun e => (e.1, e.2.1, jVal zero eps n isl e.1 e.2.1 e.2.2) := by
  have : isl.isEmpty = false := by simpa using h
  simp only [jIslands, this, ipset_eq_map, List.map_map]
  rfl

theorem jVal_spec (zero eps : α) (n : Nat) (isl : List Nat) (hn : ∀ b ∈ isl, b < n) (i j : Nat) (x : α) :
    jVal zero eps n isl i j x =
      if (i ∈ isl ∧ j = i) ∨ (n ≤ i ∧ i - n ∈ isl ∧ j = i) then eps
      else if (i ∈ isl ∧ j = n + i) ∨ (j ∈ isl ∧ i = n + j) then zero
      else x := by
  have e1 : (∃ a ∈ isl, a = i ∧ a = j) ↔ (i ∈ isl ∧ j = i) := by
    constructor
    · rintro ⟨a, ha, rfl, rfl⟩; exact ⟨ha, rfl⟩
    · rintro ⟨h, rfl⟩; exact ⟨j, h, rfl, rfl⟩
  have e2 : (∃ a ∈ isl, a = i ∧ n + a = j) ↔ (i ∈ isl ∧ j = n + i) := by
    constructor
    · rintro ⟨a, ha, rfl, rfl⟩; exact ⟨ha, rfl⟩
    · rintro ⟨h, rfl⟩; exact ⟨i, h, rfl, rfl⟩
  have e3 : (∃ a ∈ isl, n + a = i ∧ n + a = j) ↔ (n ≤ i ∧ i - n ∈ isl ∧ j = i) := by
    constructor
    · rintro ⟨a, ha, rfl, rfl⟩; exact ⟨by omega, by simpa using ha, rfl⟩
    · rintro ⟨h1, h2, rfl⟩; exact ⟨j - n, h2, by omega, by omega⟩
  have e4 : (∃ a ∈ isl, n + a = i ∧ a = j) ↔ (j ∈ isl ∧ i = n + j) := by
    constructor
    · rintro ⟨a, ha, rfl, rfl⟩; exact ⟨ha, rfl⟩
    · rintro ⟨h, rfl⟩; exact ⟨j, h, rfl, rfl⟩
  unfold jVal setIf
  simp only [zip_map_both_eq]
  simp only [zip_map_right_eq, zip_map_left_eq]
  simp only [zip_self_eq, List.contains_iff_mem, List.mem_map, Prod.mk.injEq, e1, e2, e3, e4]
  by_cases h4 : (j ∈ isl ∧ i = n + j)
  · have n1 : ¬ (i ∈ isl ∧ j = i) := by
      rintro ⟨_, rfl⟩; have := hn _ h4.1; omega
    have n3 : ¬ (n ≤ i ∧ i - n ∈ isl ∧ j = i) := by
      rintro ⟨_, _, rfl⟩; have := hn _ h4.1; omega
    have m1 : ¬ ((i ∈ isl ∧ j = i) ∨ (n ≤ i ∧ i - n ∈ isl ∧ j = i)) := by
      rintro (h | h)
      · exact n1 h
      · exact n3 h
    rw [if_pos h4, if_neg m1, if_pos (Or.inr h4)]
  · rw [if_neg h4]
    by_cases h3 : (n ≤ i ∧ i - n ∈ isl ∧ j = i)
    · rw [if_pos h3, if_pos (Or.inr h3)]
    · rw [if_neg h3]
      by_cases h2 : (i ∈ isl ∧ j = n + i)
      · have n1 : ¬ (i ∈ isl ∧ j = i) := by
          rintro ⟨hi', rfl⟩; have := hn _ hi'; omega
        have m1 : ¬ ((i ∈ isl ∧ j = i) ∨ (n ≤ i ∧ i - n ∈ isl ∧ j = i)) := by
          rintro (h | h)
          · exact n1 h
          · exact h3 h
        rw [if_pos h2, if_neg m1, if_pos (Or.inl h2)]
      · rw [if_neg h2]
        by_cases h1 : (i ∈ isl ∧ j = i)
        · rw [if_pos h1, if_pos (Or.inl h1)]
        · have m1 : ¬ ((i ∈ isl ∧ j = i) ∨ (n ≤ i ∧ i - n ∈ isl ∧ j = i)) := by
            rintro (h | h)
            · exact h1 h
            · exact h3 h
          have m2 : ¬ ((i ∈ isl ∧ j = n + i) ∨ (j ∈ isl ∧ i = n + j)) := by
            rintro (h | h)
            · exact h2 h
            · exact h4 h
          rw [if_neg h1, if_neg m1, if_neg m2]

end Neutral

end Andes.Island
