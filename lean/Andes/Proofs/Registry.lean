import Andes.Model.Registry
import Std.Data.String.ToNat
import Mathlib.Data.List.Basic
import Mathlib.Data.List.Nodup
import Mathlib.Data.List.Perm.Subperm
import Mathlib.Tactic.Linarith

/-! Lemmas about the registry model (`Andes/Model/Registry.lean`). -/
namespace Andes.Registry

/-! ## automatic names -/

theorem autoName_inj (name : String) {a b : Nat} (h : autoName name a = autoName name b) : a = b := by
  unfold autoName at h
  have h1 := Idx.str.inj h
  have h2 := (String.append_right_inj _).mp h1
  exact Nat.repr_injective h2

theorem firstFree_mem (usedL : List Idx) (name : String) :
    ∀ f c, firstFree usedL name f c ∈ usedL → ∀ j, j < f + 1 → autoName name (c + 1 + j) ∈ usedL := by
  intro f
  induction f with
  | zero => intro c h j hj; have : j = 0 := by omega
            subst this; simpa [firstFree] using h
  | succ f ih =>
    intro c h j hj
    unfold firstFree at h
    by_cases hm : autoName name (c + 1) ∈ usedL
    · rw [if_pos hm] at h
      cases j with
      | zero => simpa using hm
      | succ j =>
        have := ih (c + 1) h j (by omega)
        have e : c + 1 + 1 + j = c + 1 + (j + 1) := by omega
        rwa [e] at this
    · rw [if_neg hm] at h; exact absurd h hm

/-- the `while` loop of `get_next_idx` finds an unused name within `len + 1` iterations -/
theorem firstFree_fresh (usedL : List Idx) (name : String) (c : Nat) :
    firstFree usedL name (usedL.length + 1) c ∉ usedL := by
  intro h
  have hall := firstFree_mem usedL name _ c h
  let cand := (List.range (usedL.length + 2)).map (fun j => autoName name (c + 1 + j))
  have hnd : cand.Nodup := by
    refine List.Nodup.map ?_ List.nodup_range
    intro a b hab
    have := autoName_inj name hab
    omega
  have hsub : cand ⊆ usedL := by
    intro x hx
    obtain ⟨j, hj, rfl⟩ := List.mem_map.mp hx
    exact hall j (by simpa using List.mem_range.mp hj)
  have := (hnd.subperm hsub).length_le
  simp [cand] at this

theorem nextIdx_fresh (usedL : List Idx) (name : String) (idx? : Option Idx) :
    nextIdx usedL name idx? ∉ usedL := by
  unfold nextIdx
  cases idx? with
  | none => exact firstFree_fresh usedL name _
  | some i =>
    by_cases h : i ∈ usedL
    · simp only [h, if_true]; exact firstFree_fresh usedL name _
    · simp [h]

theorem nextIdx_keeps (usedL : List Idx) (name : String) (i : Idx) (h : i ∉ usedL) :
    nextIdx usedL name (some i) = i := by
  simp [nextIdx, h]

/-! ## reachable groups and the registry invariant -/

inductive Reach (names : List String) : Grp → Prop
  | nil : Reach names []
  | add (g : Grp) (m : Nat) (idx? : Option Idx) (vals : List Val) :
      Reach names g → Reach names (addDev names g m idx? vals)

structure Inv (g : Grp) : Prop where
  nodup : (used g).Nodup
  guid : ∀ (k : Nat) (d : Dev), g[k]? = some d → d.guid = k
  muid : ∀ (k : Nat) (d : Dev), g[k]? = some d → d.muid = (rowsOf (g.take k) d.mdl).length

theorem used_append (g : Grp) (d : Dev) : used (g ++ [d]) = used g ++ [d.idx] := by simp [used]

theorem newDev_idx_fresh (names : List String) (g : Grp) (m : Nat) (idx? : Option Idx) (vals : List Val) :
    (newDev names g m idx? vals).idx ∉ used g := by
  simp only [newDev]; exact nextIdx_fresh _ _ _

theorem getElem?_snoc {α} (g : List α) (d : α) (k : Nat) (x : α) (h : (g ++ [d])[k]? = some x) :
    (k < g.length ∧ g[k]? = some x) ∨ (k = g.length ∧ x = d) := by
  rcases Nat.lt_trichotomy k g.length with hk | hk | hk
  · left; rw [List.getElem?_append_left hk] at h; exact ⟨hk, h⟩
  · right; subst hk; simp at h; exact ⟨rfl, h.symm⟩
  · exfalso; rw [List.getElem?_eq_none (by simp; omega)] at h; cases h

theorem inv_nil : Inv [] := ⟨by simp [used], by simp, by simp⟩

theorem inv_add (names : List String) (g : Grp) (m : Nat) (idx? : Option Idx) (vals : List Val) (h : Inv g) :
    Inv (addDev names g m idx? vals) := by
  unfold addDev
  refine ⟨?_, ?_, ?_⟩
  · rw [used_append]
    refine List.Nodup.append h.nodup (List.nodup_singleton _) ?_
    intro a ha hb
    have : a = (newDev names g m idx? vals).idx := by simpa using hb
    subst this
    exact newDev_idx_fresh names g m idx? vals ha
  · intro k d hd
    rcases getElem?_snoc g _ k d hd with ⟨_, h1⟩ | ⟨h1, h2⟩
    · exact h.guid k d h1
    · subst h2; simp [newDev, h1]
  · intro k d hd
    rcases getElem?_snoc g _ k d hd with ⟨hk, h1⟩ | ⟨h1, h2⟩
    · rw [List.take_append_of_le_length (le_of_lt hk)]; exact h.muid k d h1
    · subst h2; subst h1; simp [newDev]

theorem reach_inv (names : List String) (g : Grp) (h : Reach names g) : Inv g := by
  induction h with
  | nil => exact inv_nil
  | add g m idx? vals _ ih => exact inv_add names g m idx? vals ih

/-! ## lookups by idx -/

theorem lookup_some {g : Grp} {i : Idx} {d : Dev} (h : lookup g i = some d) : d ∈ g ∧ d.idx = i := by
  unfold lookup at h
  refine ⟨List.mem_of_find?_eq_some h, ?_⟩
  have := List.find?_some h
  simpa using this

theorem lookup_of_mem {g : Grp} (hn : (used g).Nodup) {d : Dev} (hd : d ∈ g) : lookup g d.idx = some d := by
  cases hl : lookup g d.idx with
  | none =>
    unfold lookup at hl
    have := List.find?_eq_none.mp hl d hd
    simp at this
  | some d' =>
    obtain ⟨h1, h2⟩ := lookup_some hl
    have := List.inj_on_of_nodup_map hn h1 hd h2
    rw [this]

theorem lookup_none_iff (g : Grp) (i : Idx) : lookup g i = none ↔ i ∉ used g := by
  unfold lookup used
  rw [List.find?_eq_none]
  simp

theorem getElem?_of_guid {g : Grp} (h : Inv g) {d : Dev} (hd : d ∈ g) : g[d.guid]? = some d := by
  obtain ⟨k, hk⟩ := List.getElem?_of_mem hd
  rw [h.guid k d hk]; exact hk

theorem rowsOf_mid (pre post : Grp) (d : Dev) :
    (rowsOf (pre ++ d :: post) d.mdl)[(rowsOf pre d.mdl).length]? = some d := by
  unfold rowsOf
  rw [List.filter_append, List.filter_cons]
  simp

theorem rowsOf_take_length {g : Grp} {k : Nat} {d : Dev} (hk : g[k]? = some d) :
    (rowsOf g d.mdl)[(rowsOf (g.take k) d.mdl).length]? = some d := by
  have hlt : k < g.length := by
    by_contra hc; rw [List.getElem?_eq_none (by omega)] at hk; cases hk
  have e : g = g.take k ++ d :: g.drop (k + 1) := by
    have hget : g[k] = d := by
      have := List.getElem?_eq_getElem hlt; rw [this] at hk; exact Option.some.inj hk
    rw [← hget, List.getElem_cons_drop hlt, List.take_append_drop]
  have := rowsOf_mid (g.take k) (g.drop (k + 1)) d
  rw [← e] at this
  exact this

theorem rowsOf_nodup {g : Grp} (hn : (used g).Nodup) (m : Nat) : (used (rowsOf g m)).Nodup := by
  unfold used rowsOf
  exact (List.Nodup.sublist (List.Sublist.map _ (List.filter_sublist)) hn)

/-! ## lookups by field values -/

theorem matchQ_iff (keys : List Nat) (q : List Val) (d : Dev) :
    matchQ keys q d = true ↔ ∀ kv ∈ keys.zip q, d.get kv.1 = kv.2 := by
  simp [matchQ]

theorem mem_hits (rows : Grp) (keys : List Nat) (q : List Val) (i : Idx) :
    i ∈ hits rows keys q ↔ ∃ d ∈ rows, d.idx = i ∧ ∀ kv ∈ keys.zip q, d.get kv.1 = kv.2 := by
  unfold hits
  rw [List.mem_map]
  constructor
  · rintro ⟨d, hd, rfl⟩
    rw [List.mem_filter] at hd
    exact ⟨d, hd.1, rfl, (matchQ_iff keys q d).mp hd.2⟩
  · rintro ⟨d, hd, rfl, hm⟩
    exact ⟨d, List.mem_filter.mpr ⟨hd, (matchQ_iff keys q d).mpr hm⟩, rfl⟩

/-! ## group-level lookup -/

theorem find_first {α} (f : Nat → α) (p : α → Bool) :
    ∀ nm, (∀ x, ((List.range nm).map f).find? p = some x →
        ∃ m, m < nm ∧ x = f m ∧ p (f m) = true ∧ ∀ m', m' < m → p (f m') = false) ∧
      (((List.range nm).map f).find? p = none → ∀ m, m < nm → p (f m) = false) := by
  intro nm
  induction nm with
  | zero => simp
  | succ n ih =>
    rw [List.range_succ, List.map_append, List.find?_append]
    cases hfd : ((List.range n).map f).find? p with
    | some y =>
      obtain ⟨m, hm, h1, h2, h3⟩ := ih.1 y hfd
      constructor
      · intro x hx
        simp at hx; subst hx
        exact ⟨m, by omega, h1, h2, h3⟩
      · intro hx; simp at hx
    | none =>
      have hall := ih.2 hfd
      constructor
      · intro x hx
        simp at hx
        exact ⟨n, by omega, hx.2.symm, hx.1, hall⟩
      · intro hx m hm
        simp at hx
        rcases Nat.lt_succ_iff_lt_or_eq.mp hm with h | h
        · exact hall m h
        · subst h; simpa using hx

theorem hits_sub_used (g : Grp) (m : Nat) (keys : List Nat) (q : List Val) (i : Idx)
    (h : i ∈ hits (rowsOf g m) keys q) : i ∈ used g := by
  obtain ⟨d, hd, rfl, _⟩ := (mem_hits _ _ _ _).mp h
  unfold rowsOf at hd
  exact List.mem_map.mpr ⟨d, (List.mem_filter.mp hd).1, rfl⟩

theorem perModel_none_iff (g : Grp) (keys : List Nat) (q : List Val) (m : Nat) :
    perModel g keys q m = none ↔ hits (rowsOf g m) keys q = [] := by
  unfold perModel
  cases hh : hits (rowsOf g m) keys q with
  | nil => simp
  | cons a t => simp

theorem perModel_hits (g : Grp) (keys : List Nat) (q : List Val) (m : Nat)
    (h : hits (rowsOf g m) keys q ≠ []) : perModel g keys q m = some ((hits (rowsOf g m) keys q).map some) := by
  unfold perModel
  cases hh : hits (rowsOf g m) keys q with
  | nil => exact absurd hh h
  | cons a t => simp

theorem flatMap_single {α} (f : Nat → List α) (m0 : Nat) :
    ∀ nm, m0 < nm → (∀ m, m < nm → m ≠ m0 → f m = []) → (List.range nm).flatMap f = f m0 := by
  intro nm
  induction nm with
  | zero => intro h; omega
  | succ n ih =>
    intro h hz
    rw [List.range_succ, List.flatMap_append]
    by_cases hm : m0 = n
    · subst hm
      have : (List.range m0).flatMap f = [] := by
        rw [List.flatMap_eq_nil_iff]
        intro x hx
        have := List.mem_range.mp hx
        exact hz x (by omega) (by omega)
      simp [this]
    · have h1 := ih (by omega) (fun m hm' hne => hz m (by omega) hne)
      have h2 : f n = [] := hz n (by omega) (fun e => hm e.symm)
      simp [h1, h2]

theorem allHits_nil_iff (g : Grp) (nm : Nat) (keys : List Nat) (q : List Val) :
    allHits g nm keys q = [] ↔ ∀ m, m < nm → hits (rowsOf g m) keys q = [] := by
  unfold allHits
  rw [List.flatMap_eq_nil_iff]
  simp

theorem mem_allHits (g : Grp) (nm : Nat) (keys : List Nat) (q : List Val) (i : Idx) :
    i ∈ allHits g nm keys q ↔ ∃ m, m < nm ∧ i ∈ hits (rowsOf g m) keys q := by
  unfold allHits
  simp [List.mem_flatMap]

theorem found_flatten (g : Grp) (keys : List Nat) (q : List Val) :
    ∀ l : List Nat,
      ((l.map (perModel g keys q)).filterMap id).flatten
        = (l.flatMap (fun m => hits (rowsOf g m) keys q)).map some
  | [] => rfl
  | m :: l => by
    have ih := found_flatten g keys q l
    rw [List.map_cons, List.flatMap_cons, List.map_append]
    by_cases he : hits (rowsOf g m) keys q = []
    · have hp : perModel g keys q m = none := (perModel_none_iff g keys q m).mpr he
      simp only [List.filterMap_cons, id_eq, hp, he, List.map_nil, List.nil_append]
      exact ih
    · have hp2 := perModel_hits g keys q m he
      simp only [List.filterMap_cons, id_eq, hp2, List.flatten_cons]
      exact congrArg _ ih

/-- what `GroupBase.find_idx` computes for one search tuple, for EVERY `default`:
`missing` iff no model matches, else EVERY match of every model, models in group order -/
theorem groupFindOne_spec (g : Grp) (nm : Nat) (keys : List Nat) (dflt : Val) (q : List Val) :
    (allHits g nm keys q = [] ∧ groupFindOne g nm keys dflt q = ([dflt], true)) ∨
    (allHits g nm keys q ≠ [] ∧ groupFindOne g nm keys dflt q = ((allHits g nm keys q).map some, false)) := by
  have hf := found_flatten g keys q (List.range nm)
  unfold groupFindOne
  simp only
  by_cases hall : allHits g nm keys q = []
  · left
    refine ⟨hall, ?_⟩
    have hemp : ((List.range nm).map (perModel g keys q)).filterMap id = [] := by
      rw [List.filterMap_eq_nil_iff]
      intro x hx
      obtain ⟨m, hm, rfl⟩ := List.mem_map.mp hx
      have := (allHits_nil_iff g nm keys q).mp hall m (List.mem_range.mp hm)
      simp [(perModel_none_iff g keys q m).mpr this]
    rw [hemp]
    rfl
  · right
    refine ⟨hall, ?_⟩
    have hne : ((List.range nm).map (perModel g keys q)).filterMap id ≠ [] := by
      intro he
      rw [he] at hf
      simp only [List.flatten_nil] at hf
      apply hall
      unfold allHits
      exact List.map_eq_nil_iff.mp hf.symm
    have : (((List.range nm).map (perModel g keys q)).filterMap id).isEmpty = false := by
      cases hh : ((List.range nm).map (perModel g keys q)).filterMap id with
      | nil => exact absurd hh hne
      | cons _ _ => rfl
    simp only [this, Bool.false_eq_true, if_false]
    rw [hf]
    rfl

/-! ## back references -/

def stepG (g : Grp) (sel : Dev → Bool) (pos : Dev → Nat) (acc : List (List Idx)) (r : Idx × Val) :
    List (List Idx) :=
  match r.2 with
  | none => acc
  | some t =>
    match lookup g t with
    | none => acc
    | some d => if sel d then appendAt acc (pos d) r.1 else acc

theorem getElem?_inj_of_nodup {α} {L : List α} (hn : L.Nodup) {a b : Nat} {x : α}
    (ha : L[a]? = some x) (hb : L[b]? = some x) : a = b := by
  obtain ⟨ha', ea⟩ := List.getElem?_eq_some_iff.mp ha
  obtain ⟨hb', eb⟩ := List.getElem?_eq_some_iff.mp hb
  exact (List.Nodup.getElem_inj_iff hn).mp (ea.trans eb.symm)

theorem stepG_getElem? (g : Grp) (hn : (used g).Nodup) (sel : Dev → Bool) (pos : Dev → Nat) (L : Grp)
    (hLn : L.Nodup)
    (hL : ∀ d', d' ∈ g → sel d' = true → L[pos d']? = some d')
    (hsub : ∀ d, d ∈ L → d ∈ g ∧ sel d = true)
    (acc : List (List Idx)) (r : Idx × Val) (k : Nat) (d : Dev) (hk : L[k]? = some d) :
    (stepG g sel pos acc r)[k]? =
      (acc[k]?).map (· ++ (if r.2 = some d.idx then [r.1] else [])) := by
  have hdL : d ∈ L := List.mem_of_getElem? hk
  obtain ⟨hdg, hds⟩ := hsub d hdL
  unfold stepG
  cases h2 : r.2 with
  | none => simp
  | some t =>
    simp only
    cases hl : lookup g t with
    | none =>
      have : t ≠ d.idx := by
        intro e; subst e; rw [lookup_of_mem hn hdg] at hl; cases hl
      simp [this]
    | some d' =>
      obtain ⟨hd'g, hd'i⟩ := lookup_some hl
      simp only
      by_cases ht : t = d.idx
      · subst ht
        have : d' = d := by
          have := lookup_of_mem hn hdg; rw [hl] at this; exact Option.some.inj this
        subst this
        have hp : pos d' = k := getElem?_inj_of_nodup hLn (hL d' hdg hds) hk
        simp [hds, appendAt, hp]
      · have hne : d' ≠ d := by intro e; subst e; exact ht hd'i.symm
        by_cases hs : sel d' = true
        · have hp : pos d' ≠ k := by
            intro e
            have := hL d' hd'g hs
            rw [e, hk] at this
            exact hne (Option.some.inj this).symm
          have ht' : ¬ (some t = some d.idx) := by simpa using ht
          simp [hs, appendAt, hp, ht']
        · have ht' : ¬ (some t = some d.idx) := by simpa using ht
          simp [hs, ht']

theorem foldl_stepG (g : Grp) (hn : (used g).Nodup) (sel : Dev → Bool) (pos : Dev → Nat) (L : Grp)
    (hLn : L.Nodup)
    (hL : ∀ d', d' ∈ g → sel d' = true → L[pos d']? = some d')
    (hsub : ∀ d, d ∈ L → d ∈ g ∧ sel d = true)
    (refs : List (Idx × Val)) : ∀ (acc : List (List Idx)) (k : Nat) (d : Dev), L[k]? = some d →
      (refs.foldl (stepG g sel pos) acc)[k]? =
        (acc[k]?).map (· ++ (refs.filter (fun r => decide (r.2 = some d.idx))).map (·.1)) := by
  induction refs with
  | nil => intro acc k d _; simp
  | cons r rs ih =>
    intro acc k d hk
    rw [List.foldl_cons, ih _ k d hk, stepG_getElem? g hn sel pos L hLn hL hsub acc r k d hk]
    cases acc[k]? with
    | none => simp
    | some l =>
      by_cases hr : r.2 = some d.idx
      · simp [hr]
      · simp [hr]

theorem nodup_of_used_nodup {L : Grp} (h : (used L).Nodup) : L.Nodup := List.Nodup.of_map _ h

theorem setBackref_eq (g : Grp) : setBackref g = stepG g (fun _ => true) Dev.guid := by
  funext acc r
  unfold setBackref stepG
  cases r.2 with
  | none => rfl
  | some t => simp only; cases hl : lookup g t <;> simp

theorem setBackrefM_eq (g : Grp) (m : Nat) :
    setBackrefM g m = stepG g (fun d => decide (d.mdl = m)) Dev.muid := by
  funext acc r
  unfold setBackrefM stepG
  cases r.2 with
  | none => rfl
  | some t => simp only; cases hl : lookup g t <;> simp

/-- the referrers that name `i`, in order -/
def pointingTo (refs : List (Idx × Val)) (i : Idx) : List Idx :=
  (refs.filter (fun r => decide (r.2 = some i))).map (·.1)

theorem collectRef_getElem? (g : Grp) (hI : Inv g) (refs : List (Idx × Val)) (k : Nat) (d : Dev)
    (hk : g[k]? = some d) : (collectRef g refs)[k]? = some (pointingTo refs d.idx) := by
  unfold collectRef pointingTo
  rw [setBackref_eq, foldl_stepG g hI.nodup _ _ g (nodup_of_used_nodup hI.nodup)
    (fun d' hd' _ => getElem?_of_guid hI hd') (fun d hd => ⟨hd, rfl⟩) refs _ k d hk]
  have hlt : k < g.length := (List.getElem?_eq_some_iff.mp hk).1
  simp [hlt]

theorem mem_rowsOf {g : Grp} {m : Nat} {d : Dev} : d ∈ rowsOf g m ↔ d ∈ g ∧ d.mdl = m := by
  unfold rowsOf; simp [List.mem_filter]

theorem rowsOf_muid {g : Grp} (hI : Inv g) {d : Dev} (hd : d ∈ g) : (rowsOf g d.mdl)[d.muid]? = some d := by
  obtain ⟨k, hk⟩ := List.getElem?_of_mem hd
  rw [hI.muid k d hk]
  exact rowsOf_take_length hk

theorem collectRefM_getElem? (g : Grp) (hI : Inv g) (m : Nat) (refs : List (Idx × Val)) (k : Nat) (d : Dev)
    (hk : (rowsOf g m)[k]? = some d) : (collectRefM g m refs)[k]? = some (pointingTo refs d.idx) := by
  unfold collectRefM pointingTo
  rw [setBackrefM_eq, foldl_stepG g hI.nodup _ _ (rowsOf g m)
    (nodup_of_used_nodup (rowsOf_nodup hI.nodup m))
    (fun d' hd' hs => by
      have : d'.mdl = m := by simpa using hs
      subst this; exact rowsOf_muid hI hd')
    (fun d hd => by
      have := mem_rowsOf.mp hd
      exact ⟨this.1, by simpa using this.2⟩) refs _ k d hk]
  have hlt : k < (rowsOf g m).length := (List.getElem?_eq_some_iff.mp hk).1
  simp [hlt]

/-! ## device finder -/

def inScope (c : FCfg) (d : Dev) : Prop := if c.isModel then d.mdl = c.target else d.mdl < c.nm


theorem hits_single (rows : Grp) (key : Nat) (v : Val) (i : Idx) :
    i ∈ hits rows [key] [v] ↔ ∃ d ∈ rows, d.idx = i ∧ d.get key = v := by
  rw [mem_hits]; simp

theorem search_model (c : FCfg) (g : Grp) (key : Nat) (v : Val) (hm : c.isModel = true) :
    search c g key v = (hits (rowsOf g c.target) [key] [v]).head? := by
  unfold search
  rw [if_pos hm]
  unfold modelFind modelFindOne
  cases hh : hits (rowsOf g c.target) [key] [v] with
  | nil => simp [hh, headOnly]
  | cons a t => simp [hh, headOnly]

theorem search_group (c : FCfg) (g : Grp) (key : Nat) (v : Val) (hm : c.isModel = false) :
    search c g key v = ((groupFindOne g c.nm [key] none [v]).1.head?).join := by
  unfold search
  simp only [hm, Bool.false_eq_true, if_false]
  unfold groupFind
  cases hh : (groupFindOne g c.nm [key] none [v]).1 with
  | nil => simp [headOnly, hh]
  | cons a t => simp [headOnly, hh]

theorem search_some (c : FCfg) (g : Grp) (key : Nat) (v : Val) (j : Idx) (h : search c g key v = some j) :
    ∃ d, d ∈ g ∧ d.idx = j ∧ d.get key = v ∧ inScope c d := by
  cases hm : c.isModel with
  | true =>
    rw [search_model c g key v hm] at h
    have hj : j ∈ hits (rowsOf g c.target) [key] [v] := List.mem_of_head? h
    obtain ⟨d, hd, h1, h2⟩ := (hits_single _ _ _ _).mp hj
    have := mem_rowsOf.mp hd
    exact ⟨d, this.1, h1, h2, by simp [inScope, hm, this.2]⟩
  | false =>
    rw [search_group c g key v hm] at h
    rcases groupFindOne_spec g c.nm [key] none [v] with ⟨_, h2⟩ | ⟨_, h2⟩
    · rw [h2] at h; simp at h
    · rw [h2] at h
      cases hh : allHits g c.nm [key] [v] with
      | nil => rw [hh] at h; simp at h
      | cons a t =>
        rw [hh] at h; simp at h; subst h
        have hj : a ∈ allHits g c.nm [key] [v] := by rw [hh]; simp
        obtain ⟨m, hm', hjm⟩ := (mem_allHits g c.nm [key] [v] a).mp hj
        obtain ⟨d, hd, h1, h2⟩ := (hits_single _ _ _ _).mp hjm
        have := mem_rowsOf.mp hd
        exact ⟨d, this.1, h1, h2, by simp [inScope, hm, this.2, hm']⟩

theorem search_none (c : FCfg) (g : Grp) (key : Nat) (v : Val) (h : search c g key v = none) :
    ∀ d, d ∈ g → inScope c d → d.get key ≠ v := by
  intro d hd hsc hv
  cases hm : c.isModel with
  | true =>
    rw [search_model c g key v hm] at h
    have : d.idx ∈ hits (rowsOf g c.target) [key] [v] :=
      (hits_single _ _ _ _).mpr ⟨d, mem_rowsOf.mpr ⟨hd, by simpa [inScope, hm] using hsc⟩, rfl, hv⟩
    rw [List.head?_eq_none_iff] at h
    rw [h] at this; cases this
  | false =>
    rw [search_group c g key v hm] at h
    have hlt : d.mdl < c.nm := by simpa [inScope, hm] using hsc
    have hin : d.idx ∈ hits (rowsOf g d.mdl) [key] [v] :=
      (hits_single _ _ _ _).mpr ⟨d, mem_rowsOf.mpr ⟨hd, rfl⟩, rfl, hv⟩
    rcases groupFindOne_spec g c.nm [key] none [v] with ⟨h1, _⟩ | ⟨hne, h2⟩
    · have := (allHits_nil_iff g c.nm [key] [v]).mp h1 d.mdl hlt
      rw [this] at hin; cases hin
    · rw [h2] at h
      cases hh : allHits g c.nm [key] [v] with
      | nil => exact hne hh
      | cons a t => rw [hh] at h; simp at h

structure FOk (c : FCfg) : Prop where
  key : 2 ≤ c.linkKey
  keyle : c.linkKey ≤ c.nvals
  scope : if c.isModel then c.addTo = c.target else c.addTo < c.nm

theorem fillName_getD (i : Idx) (l : List Val) (k : Nat) : (fillName i l).getD (k + 1) none = l.getD (k + 1) none := by
  cases l with
  | nil => rfl
  | cons a t => cases a <;> simp [fillName]

theorem newDev_get_link (names : List String) (c : FCfg) (g : Grp) (link : Val) (h : FOk c) :
    (newDev names g c.addTo none (linkVals c link)).get c.linkKey = link := by
  obtain ⟨k, hk⟩ : ∃ k, c.linkKey = k + 2 := ⟨c.linkKey - 2, by have := h.key; omega⟩
  have hle := h.keyle
  simp only [newDev, hk, Dev.get, linkVals]
  rw [fillName_getD]
  have : k + 2 - 1 = k + 1 := by omega
  rw [this, List.getD_eq_getElem?_getD, List.getElem?_set_self (by simp; omega)]
  rfl

theorem newDev_inScope (names : List String) (c : FCfg) (g : Grp) (vals : List Val) (h : FOk c) :
    inScope c (newDev names g c.addTo none vals) := by
  have := h.scope
  unfold inScope
  by_cases hm : c.isModel = true
  · simp [hm] at this ⊢; simp [newDev, this]
  · simp [hm] at this ⊢; simp [newDev, this]

theorem findOrAdd_spec (names : List String) (c : FCfg) (g : Grp) (u link : Val) :
    (∃ j, c.autoFind = true ∧ search c g c.linkKey link = some j ∧ findOrAdd names c g u link = (g, some j)) ∨
    ((c.autoFind = true → search c g c.linkKey link = none) ∧ c.autoAdd = true ∧
      findOrAdd names c g u link = (addDev names g c.addTo none (linkVals c link),
        some (newDev names g c.addTo none (linkVals c link)).idx)) ∨
    ((c.autoFind = true → search c g c.linkKey link = none) ∧ c.autoAdd = false ∧
      findOrAdd names c g u link = (g, u)) := by
  unfold findOrAdd
  by_cases hf : c.autoFind = true
  · cases hs : search c g c.linkKey link with
    | some j => left; exact ⟨j, hf, rfl, by simp [hf]⟩
    | none =>
      right
      by_cases ha : c.autoAdd = true
      · left; exact ⟨fun _ => rfl, ha, by simp [hf, ha, addDev]⟩
      · right; exact ⟨fun _ => rfl, by simpa using ha, by simp [hf, ha]⟩
  · right
    by_cases ha : c.autoAdd = true
    · left; exact ⟨fun h => absurd h hf, ha, by simp [hf, ha, addDev]⟩
    · right; exact ⟨fun h => absurd h hf, by simpa using ha, by simp [hf, ha]⟩

/-- one entry of `find_or_add`: the answer `r` appended to `v`, and the group afterwards -/
theorem finderStep_spec (names : List String) (c : FCfg) (g : Grp) (vs : List Val) (u link : Val) :
    (∃ i, u = some i ∧ search c g 0 (some i) = some i ∧ finderStep names c (g, vs) (u, link) = (g, vs ++ [some i])) ∨
    ((∀ i, u = some i → search c g 0 (some i) ≠ some i) ∧
      finderStep names c (g, vs) (u, link) =
        ((findOrAdd names c g u link).1, vs ++ [(findOrAdd names c g u link).2])) := by
  unfold finderStep
  cases u with
  | none => right; exact ⟨fun i h => by simp at h, rfl⟩
  | some i =>
    by_cases h : search c g 0 (some i) = some i
    · left; exact ⟨i, rfl, h, by simp [h]⟩
    · right; exact ⟨fun j hj => by cases hj; exact h, by simp [h]⟩

end Andes.Registry
