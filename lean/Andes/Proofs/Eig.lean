import Mathlib.LinearAlgebra.Matrix.NonsingularInverse
import Mathlib.Data.Matrix.Block
import Mathlib.Tactic.Ring
import Mathlib.Tactic.Abel
import Mathlib.Tactic.Linarith
import Andes.Model.Eig

/-!
# Lemmas for C08: pencil algebra (Schur complement, nested reduction), the bridge from the
function/list model `Andes/Model/Eig.lean` to Mathlib matrices, counting, participation factors, arg-max.
-/
open Matrix
namespace Andes.Eig

section Pencil
set_option linter.unusedSectionVars false
variable {K : Type} [Field K] {n m : Type} [Fintype n] [Fintype m] [DecidableEq n] [DecidableEq m]

theorem schur_pencil (fx : Matrix n n K) (fy : Matrix n m K) (gx : Matrix m n K) (gy : Matrix m m K)
    (hgy : IsUnit gy.det) (T : n → K) (lam : K) (x : n → K) (y : m → K) :
    (fx *ᵥ x + fy *ᵥ y = lam • (T * x) ∧ gx *ᵥ x + gy *ᵥ y = 0) ↔
    (y = -(gy⁻¹ *ᵥ (gx *ᵥ x)) ∧ (fx - fy * gy⁻¹ * gx) *ᵥ x = lam • (T * x)) := by
  have hinv : gy⁻¹ * gy = 1 := Matrix.nonsing_inv_mul gy hgy
  have hinv' : gy * gy⁻¹ = 1 := Matrix.mul_nonsing_inv gy hgy
  constructor
  · rintro ⟨h1, h2⟩
    have hy : y = -(gy⁻¹ *ᵥ (gx *ᵥ x)) := by
      have : gy *ᵥ y = -(gx *ᵥ x) := by
        have := congrArg (fun v => v - gx *ᵥ x) h2
        simpa using this
      have h3 := congrArg (fun v => gy⁻¹ *ᵥ v) this
      simp only [Matrix.mulVec_mulVec, hinv, Matrix.one_mulVec, Matrix.mulVec_neg] at h3
      rw [h3, Matrix.mulVec_mulVec]
    refine ⟨hy, ?_⟩
    rw [← h1, hy]
    simp only [Matrix.sub_mulVec, Matrix.mulVec_neg, ← Matrix.mulVec_mulVec]
    abel
  · rintro ⟨hy, h1⟩
    subst hy
    constructor
    · rw [← h1]
      simp only [Matrix.sub_mulVec, Matrix.mulVec_neg, ← Matrix.mulVec_mulVec]
      abel
    · simp only [Matrix.mulVec_neg, Matrix.mulVec_mulVec, ← Matrix.mul_assoc, hinv', Matrix.one_mul]
      abel

theorem schur_exists (fx : Matrix n n K) (fy : Matrix n m K) (gx : Matrix m n K) (gy : Matrix m m K)
    (hgy : IsUnit gy.det) (T : n → K) (lam : K) :
    (∃ x y, (x ≠ 0 ∨ y ≠ 0) ∧ fx *ᵥ x + fy *ᵥ y = lam • (T * x) ∧ gx *ᵥ x + gy *ᵥ y = 0) ↔
    (∃ x, x ≠ 0 ∧ (fx - fy * gy⁻¹ * gx) *ᵥ x = lam • (T * x)) := by
  constructor
  · rintro ⟨x, y, hne, h⟩
    obtain ⟨hy, hx⟩ := (schur_pencil fx fy gx gy hgy T lam x y).mp h
    refine ⟨x, ?_, hx⟩
    intro hx0
    rcases hne with h0 | h0
    · exact h0 hx0
    · apply h0; rw [hy, hx0]; simp
  · rintro ⟨x, hx0, hx⟩
    exact ⟨x, -(gy⁻¹ *ᵥ (gx *ᵥ x)), Or.inl hx0, (schur_pencil fx fy gx gy hgy T lam x _).mpr ⟨rfl, hx⟩⟩

theorem diag_inv_eigen (S : Matrix n n K) (T : n → K) (hT : ∀ i, T i ≠ 0) (lam : K) (x : n → K) :
    S *ᵥ x = lam • (T * x) ↔ (diagonal (fun i => (T i)⁻¹) * S) *ᵥ x = lam • x := by
  constructor
  · intro h
    funext i
    have := congrFun h i
    simp only [← Matrix.mulVec_mulVec, Matrix.mulVec_diagonal, Pi.smul_apply, Pi.mul_apply, smul_eq_mul] at *
    rw [this]; field_simp [hT i]
  · intro h
    funext i
    have := congrFun h i
    simp only [← Matrix.mulVec_mulVec, Matrix.mulVec_diagonal, Pi.smul_apply, Pi.mul_apply, smul_eq_mul] at *
    have h2 : S.mulVec x i = T i * ((T i)⁻¹ * S.mulVec x i) := by field_simp [hT i]
    rw [h2, this]; ring

variable {n₁ n₂ : Type} [Fintype n₁] [Fintype n₂] [DecidableEq n₁] [DecidableEq n₂]

theorem block_pencil (A : Matrix n₁ n₁ K) (B : Matrix n₁ n₂ K) (C : Matrix n₂ n₁ K) (D : Matrix n₂ n₂ K)
    (T₁ : n₁ → K) (lam : K) (x : n₁ ⊕ n₂ → K) :
    fromBlocks A B C D *ᵥ x = lam • (Sum.elim T₁ (0 : n₂ → K) * x) ↔
    (A *ᵥ (x ∘ Sum.inl) + B *ᵥ (x ∘ Sum.inr) = lam • (T₁ * (x ∘ Sum.inl)) ∧
      C *ᵥ (x ∘ Sum.inl) + D *ᵥ (x ∘ Sum.inr) = 0) := by
  rw [fromBlocks_mulVec]
  constructor
  · intro h
    refine ⟨funext fun i => ?_, funext fun j => ?_⟩
    · simpa using congrFun h (Sum.inl i)
    · simpa using congrFun h (Sum.inr j)
  · rintro ⟨h1, h2⟩
    funext i
    cases i with
    | inl i => simpa using congrFun h1 i
    | inr j => simpa using congrFun h2 j

/-- nested reduction: eliminating first the algebraic variables and then the zero-time-constant states
gives exactly the finite generalised eigenvalues of the original pencil -/
theorem nested_schur (fx : Matrix (n₁ ⊕ n₂) (n₁ ⊕ n₂) K) (fy : Matrix (n₁ ⊕ n₂) m K)
    (gx : Matrix m (n₁ ⊕ n₂) K) (gy : Matrix m m K) (hgy : IsUnit gy.det) (T₁ : n₁ → K)
    (hS : IsUnit (fx - fy * gy⁻¹ * gx).toBlocks₂₂.det) (lam : K) :
    (∃ x y, (x ≠ 0 ∨ y ≠ 0) ∧ fx *ᵥ x + fy *ᵥ y = lam • (Sum.elim T₁ (0 : n₂ → K) * x) ∧
        gx *ᵥ x + gy *ᵥ y = 0) ↔
    (∃ x₁, x₁ ≠ 0 ∧
      ((fx - fy * gy⁻¹ * gx).toBlocks₁₁ -
        (fx - fy * gy⁻¹ * gx).toBlocks₁₂ * ((fx - fy * gy⁻¹ * gx).toBlocks₂₂)⁻¹ *
          (fx - fy * gy⁻¹ * gx).toBlocks₂₁) *ᵥ x₁ = lam • (T₁ * x₁)) := by
  rw [schur_exists fx fy gx gy hgy]
  set S := fx - fy * gy⁻¹ * gx with hSdef
  rw [← schur_exists S.toBlocks₁₁ S.toBlocks₁₂ S.toBlocks₂₁ S.toBlocks₂₂ hS]
  constructor
  · rintro ⟨x, hx0, hx⟩
    rw [← fromBlocks_toBlocks S, block_pencil] at hx
    refine ⟨x ∘ Sum.inl, x ∘ Sum.inr, ?_, hx⟩
    by_contra hc
    push Not at hc
    apply hx0
    funext i
    cases i with
    | inl i => exact congrFun hc.1 i
    | inr j => exact congrFun hc.2 j
  · rintro ⟨x₁, x₂, hne, h⟩
    refine ⟨Sum.elim x₁ x₂, ?_, ?_⟩
    · intro h0
      rcases hne with h1 | h1
      · apply h1; funext i; simpa using congrFun h0 (Sum.inl i)
      · apply h1; funext j; simpa using congrFun h0 (Sum.inr j)
    · rw [← fromBlocks_toBlocks S, block_pencil]
      simpa using h
end Pencil

/-! ## the list/function model as Mathlib matrices -/
section Bridge
open Finset

def toM (r c : Nat) (A : Mat) : Matrix (Fin r) (Fin c) ℚ := fun i j => A i j

theorem rsum_eq (k : Nat) (f : Nat → ℚ) : rsum k f = ∑ i : Fin k, f i := by
  unfold rsum
  rw [Fin.sum_univ_eq_sum_range (fun i => f i) k]
  induction k with
  | zero => simp
  | succ k ih => rw [List.range_succ, List.map_append, List.sum_append, ih, Finset.sum_range_succ]; simp

theorem toM_mmul (r k c : Nat) (A B : Mat) : toM r c (mmul k A B) = toM r k A * toM k c B := by
  funext i j
  simp only [toM, mmul, Matrix.mul_apply, rsum_eq]

theorem toM_reduceWith (n m : Nat) (fx fy gyx : Mat) (Tf : Vec) :
    toM n n (reduceWith m fx fy gyx Tf) =
      diagonal (fun i : Fin n => 1 / tfnz (Tf i)) * (toM n n fx - toM n m fy * toM m n gyx) := by
  rw [← toM_mmul]
  funext i j
  simp [toM, reduceWith, Matrix.diagonal_mul]

/-- contract of the `solve` parameter: whatever it returns solves the system -/
def SolveOk (solve : Nat → Nat → Mat → Mat → Option Mat) : Prop :=
  ∀ m k A B X, solve m k A B = some X → toM m m A * toM m k X = toM m k B

theorem zeroIdx_nil_iff (n : Nat) (Tf : Vec) : zeroIdx n Tf = [] ↔ ∀ i < n, Tf i ≠ 0 := by
  simp [zeroIdx, List.filter_eq_nil_iff]

theorem tfnz_of_ne {t : ℚ} (h : t ≠ 0) : tfnz t = t := by simp [tfnz, h]

/-- without zero time constants `calc_As` returns `T⁻¹ (fx − fy gy⁻¹ gx)` whenever the solver returns -/
theorem calcAs_no_zeroT (solve : Nat → Nat → Mat → Mat → Option Mat) (hs : SolveOk solve)
    (n m : Nat) (fx fy gx gy : Mat) (Tf : Vec) (hT : ∀ i < n, Tf i ≠ 0)
    (hgy : IsUnit (toM m m gy).det) (r : Res)
    (h : calcAs solve n m fx fy gx gy Tf = .ok r) :
    r.dim = n ∧ r.names = List.range n ∧ r.asc = none ∧
    toM n n r.As = diagonal (fun i : Fin n => (Tf i)⁻¹) *
      (toM n n fx - toM n m fy * (toM m m gy)⁻¹ * toM m n gx) := by
  unfold calcAs at h
  cases hsol : solve m n gy gx with
  | none => simp [hsol] at h
  | some gyx =>
    have hz : zeroIdx n Tf = [] := (zeroIdx_nil_iff n Tf).mpr hT
    simp only [hsol, hz, List.isEmpty_nil, if_true] at h
    injection h with h
    subst h
    refine ⟨rfl, rfl, rfl, ?_⟩
    have hc := hs m n gy gx gyx hsol
    have hgyx : toM m n gyx = (toM m m gy)⁻¹ * toM m n gx := by
      rw [← hc, ← Matrix.mul_assoc, Matrix.nonsing_inv_mul _ hgy, Matrix.one_mul]
    rw [toM_reduceWith, hgyx, Matrix.mul_assoc]
    congr 1
    funext i j
    by_cases hij : i = j
    · subst hij; simp [tfnz_of_ne (hT i i.isLt)]
    · simp [Matrix.diagonal_apply_ne _ hij]
end Bridge

/-! ## `_store_stats` -/
section Stats

theorem rabs_eq (r : ℚ) : rabs r = |r| := by
  unfold rabs
  split_ifs with h
  · exact (abs_of_neg h).symm
  · exact (abs_of_nonneg (not_lt.mp h)).symm

theorem one_class_spec (r tol : ℚ) (ht : 0 ≤ tol) :
    ((if tol < r then 1 else 0) + (if rabs r ≤ tol then 1 else 0) + (if r < -tol then 1 else 0) : Nat) = 1 := by
  simp only [rabs_eq, abs_le]
  split_ifs <;> grind

theorem one_class_code (r tol : ℚ) (ht : 0 ≤ tol) :
    ((if tol < r then 1 else 0) + (if rabs r ≤ tol then 1 else 0) + (if r < tol then 1 else 0) : Nat)
      = 1 + (if -tol ≤ r ∧ r < tol then 1 else 0) := by
  simp only [rabs_eq, abs_le]
  split_ifs <;> grind

theorem counts_spec (tol : ℚ) (ht : 0 ≤ tol) (l : List ℚ) :
    nPos tol l + nZero tol l + nNegSpec tol l = l.length := by
  induction l with
  | nil => simp [nPos, nZero, nNegSpec]
  | cons r l ih =>
    have h1 := one_class_spec r tol ht
    simp only [nPos, nZero, nNegSpec, List.countP_cons, List.length_cons, decide_eq_true_eq] at *
    omega

theorem counts_code (tol : ℚ) (ht : 0 ≤ tol) (l : List ℚ) :
    nPos tol l + nZero tol l + nNegCode tol l =
      l.length + l.countP (fun r => decide (-tol ≤ r ∧ r < tol)) := by
  induction l with
  | nil => simp [nPos, nZero, nNegCode]
  | cons r l ih =>
    have h1 := one_class_code r tol ht
    simp only [nPos, nZero, nNegCode, List.countP_cons, List.length_cons, decide_eq_true_eq] at *
    omega
end Stats

/-! ## participation factors -/
section PF

theorem rsum_nonneg (n : Nat) (f : Nat → ℚ) (h : ∀ i < n, 0 ≤ f i) : 0 ≤ rsum n f := by
  rw [rsum_eq]; exact Finset.sum_nonneg (fun i _ => h i i.isLt)

theorem rsum_div (n : Nat) (f : Nat → ℚ) (c : ℚ) : rsum n (fun i => f i / c) = rsum n f / c := by
  rw [rsum_eq, rsum_eq]; simp only [div_eq_mul_inv, Finset.sum_mul]

theorem rsum_congr (n : Nat) (f g : Nat → ℚ) (h : ∀ i < n, f i = g i) : rsum n f = rsum n g := by
  rw [rsum_eq, rsum_eq]; exact Finset.sum_congr rfl (fun i _ => h i i.isLt)

theorem wabs_nonneg (n : Nat) (aW aN : Mat) (hW : ∀ i < n, ∀ k < n, 0 ≤ aW i k)
    (hN : ∀ i < n, ∀ k < n, 0 ≤ aN i k) (k : Nat) (hk : k < n) : 0 ≤ wabs n aW aN k :=
  rsum_nonneg n _ (fun i hi => mul_nonneg (hW i hi k hk) (hN i hi k hk))

/-- `W.T @ N = I` bounds every denominator of the normalisation from below by one -/
theorem wabs_ge_one (n : Nat) (W N : Mat) (k : Nat) (h : rsum n (fun i => W i k * N i k) = 1) :
    1 ≤ wabs n (fun i k => |W i k|) (fun i k => |N i k|) k := by
  unfold wabs pf0
  rw [rsum_eq] at *
  calc (1 : ℚ) = |∑ i : Fin n, W i k * N i k| := by rw [h]; simp
    _ ≤ ∑ i : Fin n, |W i k * N i k| := Finset.abs_sum_le_sum_abs _ _
    _ = ∑ i : Fin n, |W i k| * |N i k| := by simp [abs_mul]
end PF

/-! ## `list(row).index(max(row))` -/
section ArgMax

theorem argmaxAux_spec (l : List ℚ) : ∀ (xs : List ℚ) (i bi : Nat) (bv : ℚ),
    l.drop i = xs → bi < i → bi < l.length → l.getD bi 0 = bv →
    (∀ j < i, l.getD j 0 ≤ bv) → (∀ j < bi, l.getD j 0 < bv) →
    argmaxAux xs i bi bv < l.length ∧
    (∀ j < l.length, l.getD j 0 ≤ l.getD (argmaxAux xs i bi bv) 0) ∧
    (∀ j < argmaxAux xs i bi bv, l.getD j 0 < l.getD (argmaxAux xs i bi bv) 0) := by
  intro xs
  induction xs with
  | nil =>
    intro i bi bv hd hbi hbl hv hle hlt
    have hlen : l.length ≤ i := List.drop_eq_nil_iff.mp hd
    simp only [argmaxAux]
    refine ⟨hbl, fun j hj => ?_, fun j hj => ?_⟩
    · rw [hv]; exact hle j (lt_of_lt_of_le hj hlen)
    · rw [hv]; exact hlt j hj
  | cons x xs ih =>
    intro i bi bv hd hbi hbl hv hle hlt
    have hi : i < l.length := by
      by_contra hc
      rw [List.drop_eq_nil_iff.mpr (not_lt.mp hc)] at hd
      simp at hd
    rw [List.drop_eq_getElem_cons hi] at hd
    injection hd with hx hd'
    have hxi : l.getD i 0 = x := by simp [List.getD_eq_getElem?_getD, List.getElem?_eq_getElem hi, hx]
    simp only [argmaxAux]
    split_ifs with hc
    · apply ih (i + 1) i x hd' (Nat.lt_succ_self i) hi hxi
      · intro j hj
        rcases Nat.lt_succ_iff_lt_or_eq.mp hj with h | h
        · exact le_of_lt (lt_of_le_of_lt (hle j h) hc)
        · rw [h, hxi]
      · intro j hj
        exact lt_of_le_of_lt (hle j hj) hc
    · apply ih (i + 1) bi bv hd' (Nat.lt_succ_of_lt hbi) hbl hv
      · intro j hj
        rcases Nat.lt_succ_iff_lt_or_eq.mp hj with h | h
        · exact hle j h
        · rw [h, hxi]; exact not_lt.mp hc
      · exact hlt

theorem argmaxFirst_spec (l : List ℚ) (hne : l ≠ []) :
    argmaxFirst l < l.length ∧
    (∀ j < l.length, l.getD j 0 ≤ l.getD (argmaxFirst l) 0) ∧
    (∀ j < argmaxFirst l, l.getD j 0 < l.getD (argmaxFirst l) 0) := by
  cases l with
  | nil => exact absurd rfl hne
  | cons x xs =>
    simp only [argmaxFirst]
    apply argmaxAux_spec (x :: xs) xs 1 0 x (by simp) (by omega) (by simp) (by simp)
    · intro j hj
      have : j = 0 := by omega
      subst this; simp
    · intro j hj; omega
end ArgMax
end Andes.Eig
