import Mathlib.Algebra.Field.Basic
import Mathlib.Algebra.Order.Field.Basic
import Mathlib.Tactic.Ring
import Mathlib.Tactic.FieldSimp
import Mathlib.Tactic.LinearCombination
import Mathlib.Tactic.Linarith
import Mathlib.Data.List.Nodup

/-! # C18 — what "a block realises a transfer function" means, and how realisations compose

Hand written, imported by the regenerated `Andes/Gen/Blocks.lean`.
A block equation set in the Laplace domain (zero initial state) relates an input transform `u` and an output
transform `y`, both elements of a field `F` (ℝ, ℂ, ℚ(s), ...), at a Laplace variable `s : F`.
"`y/u = N/D`" is stated with cleared denominators so that no side condition on `D` is needed; `Realises.eq_div`
recovers the quotient form wherever `D ≠ 0`. -/

namespace Andes.Blocks

variable {F : Type} [Field F]

/-- `y` is the response to `u` of the transfer function `N / D` (numerator and denominator already evaluated at
the Laplace variable): `y · D = N · u`. -/
def Realises (N D u y : F) : Prop := y * D = N * u

theorem Realises.eq_div {N D u y : F} (h : Realises N D u y) (hD : D ≠ 0) : y = N / D * u := by
  unfold Realises at h; field_simp; linear_combination h

theorem Realises.of_eq_div {N D u y : F} (hD : D ≠ 0) (h : y = N / D * u) : Realises N D u y := by
  unfold Realises; subst h; field_simp

/-- where the denominator does not vanish the cleared form and the quotient form are the same statement -/
theorem realises_iff {N D u y : F} (hD : D ≠ 0) : Realises N D u y ↔ y = N / D * u :=
  ⟨fun h => h.eq_div hD, Realises.of_eq_div hD⟩

/-- the response is unique where the denominator does not vanish -/
theorem Realises.unique {N D u y y' : F} (hD : D ≠ 0) (h : Realises N D u y) (h' : Realises N D u y') : y = y' := by
  rw [h.eq_div hD, h'.eq_div hD]

/-- cascade: blocks in series multiply their transfer functions -/
theorem Realises.comp {N₁ D₁ N₂ D₂ u x y : F} (h₁ : Realises N₁ D₁ u x) (h₂ : Realises N₂ D₂ x y) :
    Realises (N₂ * N₁) (D₂ * D₁) u y := by
  unfold Realises at *; linear_combination D₁ * h₂ + N₂ * h₁

/-- parallel connection: outputs add, transfer functions add -/
theorem Realises.add {N₁ D₁ N₂ D₂ u y₁ y₂ : F} (h₁ : Realises N₁ D₁ u y₁) (h₂ : Realises N₂ D₂ u y₂) :
    Realises (N₁ * D₂ + N₂ * D₁) (D₁ * D₂) u (y₁ + y₂) := by
  unfold Realises at *; linear_combination D₂ * h₁ + D₁ * h₂

/-- scaling numerator and denominator by a common factor keeps the realisation -/
theorem Realises.scale {N D u y : F} (c : F) (h : Realises N D u y) : Realises (c * N) (c * D) u y := by
  unfold Realises at *; linear_combination c * h

/-- linearity in the input (superposition) -/
theorem Realises.superpose {N D u₁ u₂ y₁ y₂ : F} (a b : F) (h₁ : Realises N D u₁ y₁) (h₂ : Realises N D u₂ y₂) :
    Realises N D (a * u₁ + b * u₂) (a * y₁ + b * y₂) := by
  unfold Realises at *; linear_combination a * h₁ + b * h₂

/-- DC gain: at `s = 0` a realisation of `N(s)/D(s)` is the static relation `y·D(0) = N(0)·u` — the link between
the transfer-function clause and the steady-state clause of C18. -/
theorem Realises.dc {N D : F → F} {u y : F} (h : Realises (N 0) (D 0) u y) (hD : D 0 ≠ 0) : y = N 0 / D 0 * u :=
  h.eq_div hD

/-! ## flags of `LessThan(T, 0, equal=True)` for an admissible (non-negative) time constant -/

section Ordered
variable {R : Type} [Field R] [LinearOrder R] [IsStrictOrderedRing R]

/-- for `T ≥ 0` the code's test `T ≤ 0` is the test `T = 0` used by the order-free generated `Flags` predicates -/
theorem le_zero_iff_eq_zero_of_nonneg {T : R} (h : 0 ≤ T) : T ≤ 0 ↔ T = 0 :=
  ⟨fun h' => le_antisymm h' h, fun h' => h' ▸ le_refl _⟩

end Ordered

/-! ## name-spacing: prefixing `<block>_` is injective, so locally distinct keys stay distinct -/

theorem prefix_injective (p : String) : Function.Injective (fun k : String => p ++ k) := by
  intro a b h
  have h' : (p ++ a).toList = (p ++ b).toList := congrArg String.toList h
  simp only [String.toList_append] at h'
  exact String.ext (List.append_cancel_left h')

/-- `Model._register_attribute` names the exports of block `b` as `b_<key>`: distinct keys give distinct names -/
theorem prefixed_nodup (p : String) (keys : List String) (h : keys.Nodup) :
    (keys.map (fun k => p ++ k)).Nodup :=
  h.map (prefix_injective p)

/-- names exported by two blocks with different prefixes of which neither is a prefix of the other cannot collide
is NOT a theorem of the naming rule (`A` exporting `B_x` and a sub-block `A_B` exporting `x` both give `A_B_x`); the
per-block `*_export_namespacing` theorems therefore check the flattened list of every shipped block outright. -/
theorem nested_names_can_collide : ("A_" ++ "B_x" : String) = "A_B_" ++ "x" := by decide

end Andes.Blocks
