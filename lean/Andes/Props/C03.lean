import Andes.Proofs.Deriv

/-!
# C03 — Jacobians are the exact residual derivatives, stored at the right addresses

Symbolic level.  `Andes/Gen/J_<Model>.lean` is REGENERATED on every run: for every entry `k` of every
generated `<jname>_update` (row `ijac[k]`, column `jjac[k]`) the theorem
`evalR ρ <generated entry> = evalR ρ (D <column variable> <declared equation of the row>)`
under the well-definedness hypothesis `WD`; `D` is the symbolic derivative computed INSIDE Lean
(`Andes/Proofs/Deriv.lean`), not SymPy's and not the translator's.  This file composes those equalities
with the once-proved `hasDerivAt_D`, and proves that variables an equation does not mention need no entry.
-/
namespace Andes.C03
open Andes Andes.Expr

/-- **Each generated Jacobian entry is the partial derivative of its declared equation**: an entry `g`
that the generated obligation identifies with `D i decl` is the derivative of the declared residual with
respect to variable `i` at every point where the residual is well defined. -/
theorem jacobian_entry_is_derivative (ρ : Nat → ℝ) (i : Nat) (decl g : Expr) (hwd : WD ρ i decl)
    (hgen : evalR ρ g = evalR ρ (D i decl)) :
    HasDerivAt (fun t => evalR (Function.update ρ i t) decl) (evalR ρ g) (ρ i) := by
  rw [hgen]; exact hasDerivAt_D ρ i decl hwd

/-- **Structural completeness**: a variable that the declared equation does not mention has an
identically vanishing derivative, so the sparsity pattern needs no entry for it. -/
theorem D_of_not_mentions (ρ : Nat → ℝ) (i : Nat) :
    ∀ e : Expr, mentions i e = false → evalR ρ (D i e) = 0 := by
  intro e
  induction e with
  | num q => intro _; simp [D, evalR]
  | var j =>
    intro h
    have : i ≠ j := by simpa [mentions] using h
    simp [D, evalR, this]
  | pi => intro _; simp [D, evalR]
  | nan => intro _; simp [D, evalR]
  | add a b iha ihb =>
    intro h; simp only [mentions, Bool.or_eq_false_iff] at h
    simp [D, evalR, iha h.1, ihb h.2]
  | sub a b iha ihb =>
    intro h; simp only [mentions, Bool.or_eq_false_iff] at h
    simp [D, evalR, iha h.1, ihb h.2]
  | mul a b iha ihb =>
    intro h; simp only [mentions, Bool.or_eq_false_iff] at h
    simp [D, evalR, iha h.1, ihb h.2]
  | div a b iha ihb =>
    intro h; simp only [mentions, Bool.or_eq_false_iff] at h
    simp [D, evalR, iha h.1, ihb h.2]
  | neg a iha => intro h; simp only [mentions] at h; simp [D, evalR, iha h]
  | pow a n iha => intro h; simp only [mentions] at h; simp [D, evalR, iha h]
  | rpow a b iha _ =>
    intro h; simp only [mentions, Bool.or_eq_false_iff] at h
    simp [D, evalR, iha h.1]
  | un f a iha =>
    intro h; simp only [mentions] at h
    cases f <;> simp [D, evalR, iha h]
  | atan2 a b _ _ => intro _; simp [D, evalR]
  | lt a b _ _ => intro _; simp [D, evalR]
  | le a b _ _ => intro _; simp [D, evalR]
  | band a b _ _ => intro _; simp [D, evalR]
  | bor a b _ _ => intro _; simp [D, evalR]
  | bnot a _ => intro _; simp [D, evalR]
  | ite c a b _ iha ihb =>
    intro h; simp only [mentions, Bool.or_eq_false_iff] at h
    simp [D, evalR, iha h.1.2, ihb h.2]

/-- the derivative of a residual with respect to a variable it does not mention is zero as a derivative,
not only as an expression -/
theorem no_entry_needed (ρ : Nat → ℝ) (i : Nat) (e : Expr) (h : mentions i e = false) :
    HasDerivAt (fun t => evalR (Function.update ρ i t) e) 0 (ρ i) :=
  hasDerivAt_const_of_not_mentions ρ i e h

/-! ### Assembly: in-place accumulation equals rebuilding, and keeps the pattern -/

/-- a sparse matrix as KVXOPT stores it after `spmatrix(V, I, J)`: triplets; duplicates are summed -/
abbrev Triplets := List (Nat × Nat × ℝ)

noncomputable def toFun (t : Triplets) (r c : Nat) : ℝ :=
  (t.filter (fun x => x.1 = r ∧ x.2.1 = c)).foldr (fun x acc => x.2.2 + acc) 0

/-- the index pattern of a triplet list -/
def pattern (t : Triplets) : List (Nat × Nat) := t.map (fun x => (x.1, x.2.1))

/-- `ipadd`: add new values at the stored positions, position by position -/
noncomputable def ipadd (tpl : Triplets) (vals : List ℝ) : Triplets :=
  List.zipWith (fun x v => (x.1, x.2.1, x.2.2 + v)) tpl vals

theorem toFun_nil (r c : Nat) : toFun [] r c = 0 := rfl

theorem toFun_cons (x : Nat × Nat × ℝ) (t : Triplets) (r c : Nat) :
    toFun (x :: t) r c = (if x.1 = r ∧ x.2.1 = c then x.2.2 else 0) + toFun t r c := by
  unfold toFun
  by_cases h : x.1 = r ∧ x.2.1 = c
  · simp [List.filter_cons, h]
  · simp [List.filter_cons, h]

/-- **The sparsity pattern never changes between updates**: in-place accumulation keeps the stored
index pattern (for value lists of the template's length). -/
theorem ipadd_pattern (tpl : Triplets) (vals : List ℝ) (h : vals.length = tpl.length) :
    pattern (ipadd tpl vals) = pattern tpl := by
  induction tpl generalizing vals with
  | nil => simp [ipadd, pattern]
  | cons x t ih =>
    cases vals with
    | nil => simp at h
    | cons v vs =>
      simp only [List.length_cons, Nat.add_right_cancel_iff] at h
      have := ih vs h
      simp only [ipadd, pattern, List.zipWith_cons_cons, List.map_cons] at this ⊢
      rw [this]

/-- **In-place accumulation equals rebuilding**: the matrix after `ipadd` is the template's matrix plus
the matrix built from the new triplets at the same positions. -/
theorem ipadd_eq_rebuild (tpl : Triplets) (vals : List ℝ) (h : vals.length = tpl.length) (r c : Nat) :
    toFun (ipadd tpl vals) r c =
      toFun tpl r c + toFun (List.zipWith (fun x v => (x.1, x.2.1, v)) tpl vals) r c := by
  induction tpl generalizing vals with
  | nil => simp [ipadd, toFun_nil]
  | cons x t ih =>
    cases vals with
    | nil => simp at h
    | cons v vs =>
      simp only [List.length_cons, Nat.add_right_cancel_iff] at h
      have := ih vs h
      simp only [ipadd, List.zipWith_cons_cons, toFun_cons] at this ⊢
      rw [this]
      by_cases hx : x.1 = r ∧ x.2.1 = c <;> simp [hx] <;> ring

example : toFun (ipadd [(0, 0, 1), (0, 1, 0), (0, 0, 2)] [5, 7, 1]) 0 0 = 9 := by
  simp [ipadd, toFun]; norm_num

end Andes.C03
