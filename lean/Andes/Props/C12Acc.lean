import Andes.Props.C12

/-!
# C12 — successive bus switch-offs accumulate, for every sequence (end to end)

`record_keeps_pending` (C12.lean) is the one-step statement.  Here: from a clean state (nothing pending: the state
`ConnMan.init` / `act` leave behind), after ANY sequence of `Bus.set('u', idx-list, 0)` calls, `changes['off']` holds
exactly the buses that were in service at the start and are out of service now — so that `act` (by
`bus_off_propagates_exactly`) switches off exactly the devices attached to any of them.
-/
namespace Andes.Island

/-- switch the listed positions off -/
def offAt (u : List Bool) (uids : List Nat) : List Bool := uids.foldl (fun u i => u.set i false) u

theorem offAt_length (u : List Bool) (uids : List Nat) : (offAt u uids).length = u.length := by
  unfold offAt
  induction uids generalizing u with
  | nil => rfl
  | cons i t ih => simp only [List.foldl_cons]; rw [ih]; simp

/-- switching off never switches anything on -/
theorem offAt_le (u : List Bool) (uids : List Nat) (k : Nat) (h : (offAt u uids)[k]? = some true) : u[k]? = some true := by
  unfold offAt at h
  induction uids generalizing u with
  | nil => exact h
  | cons i t ih =>
    simp only [List.foldl_cons] at h
    have := ih (u.set i false) h
    by_cases hik : i = k
    · subst hik
      rw [List.getElem?_set] at this
      split at this
      · split at this <;> simp at this
      · exact this
    · rw [List.getElem?_set_ne hik] at this; exact this

/-- the clean state: nothing recorded, `busu0` up to date -/
structure Clean (s : CM) : Prop where
  u0 : s.busu0 = s.busU
  off : s.off = s.busU.map (fun _ => false)
  on : s.on = s.busU.map (fun _ => false)
  needed : s.needed = false

/-- the invariant of a sequence of switch-offs that started from bus statuses `b` -/
structure AccInv (b : List Bool) (s : CM) : Prop where
  len : s.busU.length = b.length
  u0 : s.busu0 = s.busU
  mono : ∀ k : Nat, s.busU[k]? = some true → b[k]? = some true
  off : s.off = List.zipWith (fun x u => x && !u) b s.busU
  needed : s.needed = s.off.any id

theorem accInv_of_clean (s : CM) (h : Clean s) : AccInv s.busU s := by
  refine ⟨rfl, h.u0, fun _ hk => hk, ?_, ?_⟩
  · rw [h.off]
    apply List.ext_getElem?
    intro k
    simp only [List.getElem?_map, List.getElem?_zipWith]
    cases s.busU[k]? with
    | none => rfl
    | some v => cases v <;> rfl
  · rw [h.needed, h.off]; simp

theorem busSet_off_inv (b : List Bool) (s : CM) (uids : List Nat) (h : AccInv b s) :
    AccInv b (busSet s uids false).1 ∧ (busSet s uids false).2 = none := by
  have hU : offAt s.busU uids = uids.foldl (fun u i => u.set i false) s.busU := rfl
  set U' := offAt s.busU uids with hU'
  have hlen : U'.length = b.length := by rw [hU', offAt_length, h.len]
  have hmono' : ∀ k : Nat, U'[k]? = some true → s.busU[k]? = some true := fun k hk => offAt_le s.busU uids k hk
  -- pointwise description of the new `off`
  have key : ∀ k : Nat, (List.zipWith (fun p u => p && !u)
        (List.zipWith (· || ·) (List.zipWith (fun u0 u => u0 && !u) s.busU U') s.off) U')[k]?
      = (List.zipWith (fun x u => x && !u) b U')[k]? := by
    intro k
    rw [h.off]
    simp only [List.getElem?_zipWith]
    have hl1 : s.busU.length = U'.length := by rw [hlen, h.len]
    cases hb : b[k]? with
    | none =>
      have : U'[k]? = none := by
        rw [List.getElem?_eq_none_iff] at hb ⊢; omega
      simp [this]
    | some bv =>
      have hk : k < b.length := by
        by_contra hc; rw [List.getElem?_eq_none (by omega)] at hb; cases hb
      have hu : ∃ uv, s.busU[k]? = some uv := ⟨s.busU[k]'(by rw [h.len]; exact hk), List.getElem?_eq_getElem _⟩
      have hu' : ∃ uv', U'[k]? = some uv' := ⟨U'[k]'(by rw [hlen]; exact hk), List.getElem?_eq_getElem _⟩
      obtain ⟨uv, huv⟩ := hu
      obtain ⟨uv', huv'⟩ := hu'
      have m1 : uv' = true → uv = true := by
        intro e; subst e
        have := hmono' k huv'; rw [huv] at this; exact Option.some.inj this
      have m2 : uv = true → bv = true := by
        intro e; subst e
        have := h.mono k huv; rw [hb] at this; exact Option.some.inj this
      simp only [huv, huv', Option.map_some, Option.bind_some]
      cases bv <;> cases uv <;> cases uv' <;> simp_all
  have hoff_eq : List.zipWith (fun p u => p && !u)
        (List.zipWith (· || ·) (List.zipWith (fun u0 u => u0 && !u) s.busU U') s.off) U'
      = List.zipWith (fun x u => x && !u) b U' := List.ext_getElem? key
  -- without anything pending the old `off` is all false, hence `busU = b`
  have hb_eq : s.needed = false → s.busU = b := by
    intro hn
    have hall : s.off.any id = false := by rw [← h.needed]; exact hn
    apply List.ext_getElem?
    intro k
    cases hb : b[k]? with
    | none =>
      rw [List.getElem?_eq_none_iff] at hb ⊢; rw [h.len]; exact hb
    | some bv =>
      have hk : k < b.length := by
        by_contra hc; rw [List.getElem?_eq_none (by omega)] at hb; cases hb
      have huv : s.busU[k]? = some (s.busU[k]'(by rw [h.len]; exact hk)) := List.getElem?_eq_getElem _
      rw [huv]
      congr 1
      have m2 : s.busU[k]'(by rw [h.len]; exact hk) = true → bv = true := by
        intro e
        have := h.mono k (by rw [huv, e]); rw [hb] at this; exact Option.some.inj this
      have m3 : (bv && !(s.busU[k]'(by rw [h.len]; exact hk))) = false := by
        by_contra hc
        have ht : (bv && !(s.busU[k]'(by rw [h.len]; exact hk))) = true := by simpa using hc
        have : s.off.any id = true := by
          apply List.any_eq_true.mpr
          refine ⟨true, ?_, rfl⟩
          apply List.mem_iff_getElem?.mpr
          refine ⟨k, ?_⟩
          rw [h.off]
          simp [List.getElem?_zipWith, hb, huv, ht]
        rw [hall] at this; cases this
      cases bv <;> cases hs : (s.busU[k]'(by rw [h.len]; exact hk)) <;> simp_all
  -- no bus is switched on
  have honany : (List.zipWith (fun u0 u => !u0 && u) s.busU U').any id = false := by
    rw [List.any_eq_false]
    intro x hx
    obtain ⟨k, hk⟩ := List.mem_iff_getElem?.mp hx
    simp only [List.getElem?_zipWith] at hk
    cases h1 : s.busU[k]? with
    | none => simp [h1] at hk
    | some a =>
      cases h2 : U'[k]? with
      | none => simp [h1, h2] at hk
      | some c =>
        cases c with
        | false => simp [h1, h2] at hk; subst hk; simp
        | true =>
          have := hmono' k h2; rw [h1] at this
          have ha : a = true := Option.some.inj this
          subst ha
          simp [h1, h2] at hk; subst hk; simp
  -- pending switch-offs stay
  have hstay : s.off.any id = true → (List.zipWith (fun x u => x && !u) b U').any id = true := by
    intro hold
    obtain ⟨x, hx, hxt⟩ := List.any_eq_true.mp hold
    have hxt' : x = true := hxt
    subst hxt'
    obtain ⟨k, hk⟩ := List.mem_iff_getElem?.mp hx
    rw [h.off] at hk
    simp only [List.getElem?_zipWith] at hk
    cases hb : b[k]? with
    | none => simp [hb] at hk
    | some bv =>
      cases hu : s.busU[k]? with
      | none => simp [hb, hu] at hk
      | some uv =>
        simp [hb, hu] at hk
        obtain ⟨rfl, rfl⟩ := hk
        have hkl : k < U'.length := by
          have : k < b.length := by
            by_contra hc; rw [List.getElem?_eq_none (by omega)] at hb; cases hb
          omega
        have hu' : U'[k]? = some (U'[k]) := List.getElem?_eq_getElem hkl
        have hfalse : U'[k] = false := by
          cases hv : U'[k] with
          | false => rfl
          | true =>
            have := hmono' k (by rw [hu', hv]); rw [hu] at this; cases this
        apply List.any_eq_true.mpr
        refine ⟨true, ?_, rfl⟩
        apply List.mem_iff_getElem?.mpr
        exact ⟨k, by simp [List.getElem?_zipWith, hb, hu', hfalse]⟩
  -- assemble
  have hmonoB : ∀ k : Nat, U'[k]? = some true → b[k]? = some true := fun k hk => h.mono k (hmono' k hk)
  by_cases hn : s.needed = true
  · have ha : (List.zipWith (fun x u => x && !u) b U').any id = true := hstay (by rw [← h.needed]; exact hn)
    have e : busSet s uids false =
        ({ s with busU := U', busu0 := U', on := List.zipWith (fun u0 u => !u0 && u) s.busU U',
                  off := List.zipWith (fun x u => x && !u) b U', needed := true }, none) := by
      simp only [busSet, cmRecord, cmUpdate, cmOn, cmOff, h.u0, hn, if_true, ← hU, hoff_eq, honany, ha,
        Bool.false_eq_true, if_false]
    rw [e]
    exact ⟨⟨hlen, rfl, hmonoB, rfl, by simp [ha]⟩, rfl⟩
  · have hn' : s.needed = false := by simpa using hn
    have hsb := hb_eq hn'
    by_cases ha : (List.zipWith (fun x u => x && !u) b U').any id = true
    · have e : busSet s uids false =
          ({ s with busU := U', busu0 := U', on := List.zipWith (fun u0 u => !u0 && u) s.busU U',
                    off := List.zipWith (fun x u => x && !u) b U', needed := true }, none) := by
        simp only [busSet, cmRecord, cmUpdate, cmOn, cmOff, h.u0, hn', ← hU, honany, Bool.false_eq_true, if_false]
        rw [hsb]
        simp only [ha, if_true]
      rw [e]
      exact ⟨⟨hlen, rfl, hmonoB, rfl, by simp [ha]⟩, rfl⟩
    · have ha' : (List.zipWith (fun x u => x && !u) b U').any id = false := by simpa using ha
      have e : busSet s uids false =
          ({ s with busU := U', busu0 := U', on := List.zipWith (fun u0 u => !u0 && u) s.busU U',
                    off := List.zipWith (fun x u => x && !u) b U' }, none) := by
        simp only [busSet, cmRecord, cmUpdate, cmOn, cmOff, h.u0, hn', ← hU, honany, Bool.false_eq_true, if_false]
        rw [hsb]
        simp only [ha', Bool.false_eq_true, if_false]
      rw [e]
      exact ⟨⟨hlen, rfl, hmonoB, rfl, by simp [ha', hn']⟩, rfl⟩

/-- **Successive switch-offs accumulate, for every sequence**: from a clean state, after any list of
`Bus.set('u', uids, 0)` calls no exception was raised and `changes['off']` marks exactly the buses that were in
service at the start and are out of service now. -/
theorem switch_offs_accumulate (s : CM) (hc : Clean s) (sets : List (List Nat)) :
    let s' := sets.foldl (fun st uids => (busSet st uids false).1) s
    s'.off = List.zipWith (fun x u => x && !u) s.busU s'.busU ∧ s'.busu0 = s'.busU ∧
      s'.needed = s'.off.any id := by
  have : ∀ (st : CM), AccInv s.busU st → AccInv s.busU (sets.foldl (fun st uids => (busSet st uids false).1) st) := by
    induction sets with
    | nil => intro st h; exact h
    | cons u t ih => intro st h; exact ih _ (busSet_off_inv s.busU st u h).1
  have h := this s (accInv_of_clean s hc)
  exact ⟨h.off, h.u0, h.needed⟩

/-- non-vacuity: the state `ConnMan.init` leaves behind is clean, and two successive switch-offs from it mark both buses -/
example : Clean (runOps demo2 [.init]) :=
  ⟨by decide +kernel, by decide +kernel, by decide +kernel, by decide +kernel⟩

example : ([[0], [2]].foldl (fun st uids => (busSet st uids false).1) (runOps demo2 [.init])).off
    = [true, false, true, false] := by decide +kernel

end Andes.Island
