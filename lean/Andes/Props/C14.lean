import Andes.Props.C06

/-!
# C14 — Resumed simulations equal the uninterrupted run (event log, time axis)

Property theorems about `TDS.run` called again with a later end time (`init_resume`), on the model
`Andes/Model/TdsLoop.lean`.  `Reach c f tf s` (defined in `C06.lean`) covers every way of splitting a
simulation into resumed segments with non-decreasing end times, and every integrator-verdict history.

What is proved: events are neither lost nor repeated across a boundary, whatever the split; the time
axis is strictly increasing across boundaries, contains every intermediate end time, and only grows.
What is NOT proved (residue, exercised by real split runs in `harness/c14.py`): equality of the state
trajectories up to discretisation error (the two time grids differ), snapshot (dill) fidelity.
-/
namespace Andes.Tds

/-- the processed switch indices of a stopped, un-busted state are exactly those with time `≤ tf` -/
theorem idx_characterised (c : Cfg ℚ) (hy : Hyp c) (f : Bool) (tf : ℚ) (s : St ℚ) (hr : Reach c f tf s)
    (hstop : guard (withTf c tf) s = false) (hb : s.busted = false) (j : Nat) (x : ℚ)
    (hx : c.sw[j]? = some x) : j < s.idx ↔ x ≤ tf := by
  have hI := (reach_inv c hy f tf s hr).2
  obtain ⟨h1, h2⟩ := stopped_at_tf (withTf c tf) s hI hstop hb
  have e : (withTf c tf).tf = tf := rfl
  rw [e] at h1
  constructor
  · intro hj
    have := hI.passed j hj x hx
    rw [h1, h2] at this; linarith
  · intro hle
    by_contra hn
    have := hI.pendBase hb j (Nat.le_of_not_lt hn) x hx
    rw [h1, h2] at this; linarith

/-- **Events are neither lost nor repeated across a resume boundary**: however a simulation to `tf` is
split into resumed segments (and whatever the integrator did), if it ended without error the sequence
of executed switch actions is the same as that of any other such run — in particular the
uninterrupted one. -/
theorem resume_event_log_equal (c : Cfg ℚ) (hy : Hyp c) (f₁ f₂ : Bool) (tf : ℚ) (s₁ s₂ : St ℚ)
    (h₁ : Reach c f₁ tf s₁) (h₂ : Reach c f₂ tf s₂)
    (stop₁ : guard (withTf c tf) s₁ = false) (stop₂ : guard (withTf c tf) s₂ = false)
    (ok₁ : s₁.busted = false) (ok₂ : s₂.busted = false) :
    s₁.fired = s₂.fired ∧ s₁.idx = s₂.idx := by
  have I₁ := (reach_inv c hy f₁ tf s₁ h₁).2
  have I₂ := (reach_inv c hy f₂ tf s₂ h₂).2
  have key : s₁.idx = s₂.idx := by
    have l₁ : s₁.idx ≤ c.sw.length := I₁.idxLe
    have l₂ : s₂.idx ≤ c.sw.length := I₂.idxLe
    by_contra hne
    rcases Nat.lt_or_gt_of_ne hne with hlt | hlt
    · have hj : s₁.idx < c.sw.length := by omega
      have hx : c.sw[s₁.idx]? = some c.sw[s₁.idx] := by simp [hj]
      have a := (idx_characterised c hy f₂ tf s₂ h₂ stop₂ ok₂ s₁.idx _ hx).mp hlt
      have b := (idx_characterised c hy f₁ tf s₁ h₁ stop₁ ok₁ s₁.idx _ hx).mpr a
      omega
    · have hj : s₂.idx < c.sw.length := by omega
      have hx : c.sw[s₂.idx]? = some c.sw[s₂.idx] := by simp [hj]
      have a := (idx_characterised c hy f₁ tf s₁ h₁ stop₁ ok₁ s₂.idx _ hx).mp hlt
      have b := (idx_characterised c hy f₂ tf s₂ h₂ stop₂ ok₂ s₂.idx _ hx).mpr a
      omega
  exact ⟨by rw [I₁.firedAll, I₂.firedAll, key], key⟩

/-- calling `run` again changes neither the stored time axis nor the event log by itself -/
theorem resume_keeps_history (c : Cfg ℚ) (s : St ℚ) :
    (resume c s).stamps = s.stamps ∧ (resume c s).fired = s.fired ∧ (resume c s).kcount = s.kcount := by
  unfold resume; split_ifs <;> simp [calcH]

/-- one loop pass adds at most one stamp, at the front; nothing already stored is altered -/
theorem iter_extends_stamps (c : Cfg ℚ) (s : St ℚ) (v : Verdict) :
    (iter c s v).stamps = s.stamps ∨ (iter c s v).stamps = s.t :: s.stamps := by
  unfold iter
  split_ifs
  · right
    unfold iterOk doSwitch' customSwitch doSwitch calcH
    simp only []
    split <;> (try split_ifs) <;> rfl
  · left
    unfold iterFail calcH
    simp only [Bool.false_eq_true, if_false]
    split_ifs <;> rfl

/-- **The time axis across a boundary**: when a segment ended without error at `tf₁` and the run is
resumed to `tf₂ ≥ tf₁`, every later state still has `tf₁` as a stored stamp (if any step had been
accepted), all stamps are strictly increasing (no duplicate, none out of order). -/
theorem resume_time_axis (c : Cfg ℚ) (hy : Hyp c) (f : Bool) (tf₁ tf₂ : ℚ) (s : St ℚ)
    (h₁ : Reach c f tf₁ s) (stop₁ : guard (withTf c tf₁) s = false) (ok₁ : s.busted = false)
    (hle : tf₁ ≤ tf₂) (vs : List Verdict) :
    let s' := run (withTf c tf₂) (resume (withTf c tf₂) s) vs
    s'.stamps.Pairwise (· > ·) ∧ s.stamps <:+ s'.stamps ∧ (s.stamps ≠ [] → tf₁ ∈ s'.stamps) := by
  intro s'
  have hr : Reach c f tf₂ s' := reach_run c hy f tf₂ vs _ (Reach.resume tf₁ tf₂ s h₁ stop₁ hle)
  have hsuf : ∀ (vs : List Verdict) (a : St ℚ), a.stamps <:+ (run (withTf c tf₂) a vs).stamps := by
    intro vs
    induction vs with
    | nil =>
      intro a; unfold run pre
      split_ifs
      · unfold iterFail calcH; simp only [if_true]; split_ifs <;> exact List.suffix_refl _
      · exact List.suffix_refl _
    | cons v vs ih =>
      intro a
      have hp : a.stamps <:+ (pre (withTf c tf₂) a).stamps := by
        unfold pre
        split_ifs
        · unfold iterFail calcH; simp only [if_true]; split_ifs <;> exact List.suffix_refl _
        · exact List.suffix_refl _
      unfold run
      split_ifs
      · refine List.IsSuffix.trans hp (List.IsSuffix.trans ?_ (ih _))
        rcases iter_extends_stamps (withTf c tf₂) (pre (withTf c tf₂) a) v with h | h
        · rw [h]; exact List.suffix_refl _
        · rw [h]; exact List.suffix_cons _ _
      · exact hp
  have hs : s.stamps <:+ s'.stamps := by
    have := hsuf vs (resume (withTf c tf₂) s)
    rw [(resume_keeps_history (withTf c tf₂) s).1] at this
    exact this
  refine ⟨stamps_strictly_increasing c hy f tf₂ s' hr, hs, ?_⟩
  intro hne
  cases hst : s.stamps with
  | nil => exact absurd hst hne
  | cons p ps =>
    have hp := last_stamp_is_tf c hy f tf₁ s h₁ stop₁ ok₁ p (by rw [hst]; rfl)
    apply hs.subset
    rw [hst, hp]; exact List.mem_cons_self

/-- non-vacuity: a run to 0.05 resumed to 0.1 (same schedule as `demoCfg`) ends like the single run -/
example :
    let c1 := withTf demoCfg (1/20)
    let a := run c1 (init c1 true) (List.replicate 6 (acc 3))
    let b := run demoCfg (resume demoCfg a) (List.replicate 6 (acc 3))
    let u := run demoCfg (init demoCfg true) (List.replicate 8 (acc 3))
    guard c1 a = false ∧ a.busted = false ∧ guard demoCfg b = false ∧ b.busted = false ∧
    b.fired = u.fired ∧ b.fired = [2, 1, 0] ∧ (1/20 : ℚ) ∈ b.stamps ∧ b.t = 1/10 := by
  decide +kernel

end Andes.Tds
