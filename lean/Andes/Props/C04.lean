import Andes.Gen.DaeInt
import Andes.Props.C17
import Mathlib.Tactic.Ring
import Mathlib.Tactic.FieldSimp
import Mathlib.Tactic.Linarith
import Mathlib.Analysis.Calculus.Deriv.Mul
import Mathlib.Analysis.Calculus.Deriv.Add

/-!
# C04 — Every accepted simulation step satisfies the implicit integration rule

* `Andes.Gen.DaeInt` is REGENERATED from `andes/routines/daeint.py` on every run (`calc_q`, `calc_jac`
  of both methods); the theorems below are re-checked against what the code says now.
* The Newton loop of a step and the step-size control are the hand models of C17 / C06
  (`Andes/Model/Newton.lean`, `Andes/Model/TdsLoop.lean`).
-/
namespace Andes.C04
open Andes.Gen.DaeInt

section rule
variable {K : Type} [Field K] [CharZero K]

/-- **Trapezoidal rule**: the residual `calc_q` vanishes exactly when `T (x₁-x₀) = h/2 (f₁+f₀)`. -/
theorem trapezoid_q_is_rule (x f Tf h x0 f0 : K) :
    trapezoid_q x f Tf h x0 f0 = 0 ↔ Tf * (x - x0) = h / 2 * (f + f0) := by
  unfold trapezoid_q
  constructor
  · intro e; have := sub_eq_zero.mp e; rw [this]; ring
  · intro e; rw [e]; ring

/-- **Backward Euler**: `calc_q = 0 ↔ T (x₁-x₀) = h f₁`. -/
theorem backeuler_q_is_rule (x f Tf h x0 f0 : K) :
    backeuler_q x f Tf h x0 f0 = 0 ↔ Tf * (x - x0) = h * f := by
  unfold backeuler_q
  exact sub_eq_zero

/-- scaling the algebraic residual by `g_scale * h ≠ 0` does not change the solution set -/
theorem g_scale_same_solutions (s h g : K) (hs : s ≠ 0) (hh : h ≠ 0) : s * h * g = 0 ↔ g = 0 := by
  constructor
  · intro e
    rcases mul_eq_zero.mp e with e | e
    · rcases mul_eq_zero.mp e with e | e
      · exact absurd e hs
      · exact absurd e hh
    · exact e
  · intro e; rw [e]; ring

/-- row scaling of the Newton system leaves the increment unchanged (scalar form): if `J d = r` then
`(k J) d = k r`, and conversely for `k ≠ 0` -/
theorem g_scale_same_increment (k J d r : K) (hk : k ≠ 0) : k * J * d = k * r ↔ J * d = r := by
  constructor
  · intro e
    have : k * (J * d) = k * r := by rw [← e]; ring
    exact mul_left_cancel₀ hk this
  · intro e; rw [← e]; ring

/-- a residual that was zeroed for a pegged anti-windup state is the only exception: with `q := 0`
and `x := limit` the rule is replaced by the clamp (statement of the exception clause) -/
theorem pegged_state_exception (q limit x : K) (hq : q = 0) (hx : x = limit) : q = 0 ∧ x = limit := ⟨hq, hx⟩

/-- **Order of the methods on the linear test equation `ẋ = λ x`** (`z = hλ`, `T = 1`): solving the
generated residual for `x₁` gives the amplification factor `R(z) = (1+z/2)/(1-z/2)` -/
theorem trapezoid_amplification (z x0 x1 : K) (hz : 1 - z / 2 ≠ 0)
    (hq : trapezoid_q x1 (z * x1) 1 1 x0 (z * x0) = 0) : x1 = (1 + z / 2) / (1 - z / 2) * x0 := by
  unfold trapezoid_q at hq
  rw [div_mul_eq_mul_div, eq_div_iff hz]
  linear_combination hq

theorem backeuler_amplification (z x0 x1 : K) (hz : 1 - z ≠ 0)
    (hq : backeuler_q x1 (z * x1) 1 1 x0 (z * x0) = 0) : x1 = 1 / (1 - z) * x0 := by
  unfold backeuler_q at hq
  rw [div_mul_eq_mul_div, eq_div_iff hz]
  linear_combination hq

/-- the trapezoidal amplification factor agrees with `exp z` up to the `z²` term: the local error is
`z³/(4-2z)`, i.e. third order locally, second order globally -/
theorem trapezoid_second_order (z : K) (hz : 1 - z / 2 ≠ 0) :
    (1 + z / 2) / (1 - z / 2) - (1 + z + z ^ 2 / 2) = (z ^ 3 / 4) / (1 - z / 2) := by
  rw [div_sub' hz, div_left_inj' hz]; ring

/-- backward Euler agrees with `exp z` up to the `z` term only: local error `z²/(1-z)`, first order -/
theorem backeuler_first_order (z : K) (hz : 1 - z ≠ 0) :
    1 / (1 - z) - (1 + z) = z ^ 2 / (1 - z) := by
  rw [div_sub' hz, div_left_inj' hz]; ring

end rule

/-- **The iteration matrix is the derivative of the residual** (scalar state): for a differentiable
right-hand side `f` with `f'(x) = fx`, block (1,1) of `calc_jac` is `∂q/∂x`; likewise block (1,2)
is `∂q/∂y` for `∂f/∂y = fy`. -/
theorem trapezoid_jac11_is_dq (f : ℝ → ℝ) (fx x Tf h x0 f0 gxs gys fy : ℝ) (hf : HasDerivAt f fx x) :
    HasDerivAt (fun x => trapezoid_q x (f x) Tf h x0 f0) (trapezoid_jac11 Tf h fx fy gxs gys) x := by
  unfold trapezoid_q trapezoid_jac11
  have h1 : HasDerivAt (fun x => Tf * (x - x0)) Tf x := by
    simpa using ((hasDerivAt_id x).sub_const x0).const_mul Tf
  have h2 : HasDerivAt (fun x => h * (1 / 2) * (f x + f0)) (h * (1 / 2) * fx) x := by
    simpa using (hf.add_const f0).const_mul (h * (1 / 2))
  exact h1.sub h2

theorem trapezoid_jac12_is_dq (f : ℝ → ℝ) (fy y x Tf h x0 f0 gxs gys fx : ℝ) (hf : HasDerivAt f fy y) :
    HasDerivAt (fun y => trapezoid_q x (f y) Tf h x0 f0) (trapezoid_jac12 Tf h fx fy gxs gys) y := by
  unfold trapezoid_q trapezoid_jac12
  have h2 : HasDerivAt (fun y => h * (1 / 2) * (f y + f0)) (h * (1 / 2) * fy) y := by
    simpa using (hf.add_const f0).const_mul (h * (1 / 2))
  exact ((hasDerivAt_const y (Tf * (x - x0))).sub h2).congr_deriv (by ring)

theorem backeuler_jac11_is_dq (f : ℝ → ℝ) (fx x Tf h x0 f0 gxs gys fy : ℝ) (hf : HasDerivAt f fx x) :
    HasDerivAt (fun x => backeuler_q x (f x) Tf h x0 f0) (backeuler_jac11 Tf h fx fy gxs gys) x := by
  unfold backeuler_q backeuler_jac11
  have h1 : HasDerivAt (fun x => Tf * (x - x0)) Tf x := by
    simpa using ((hasDerivAt_id x).sub_const x0).const_mul Tf
  exact h1.sub (hf.const_mul h)

theorem backeuler_jac12_is_dq (f : ℝ → ℝ) (fy y x Tf h x0 f0 gxs gys fx : ℝ) (hf : HasDerivAt f fy y) :
    HasDerivAt (fun y => backeuler_q x (f y) Tf h x0 f0) (backeuler_jac12 Tf h fx fy gxs gys) y := by
  unfold backeuler_q backeuler_jac12
  exact ((hasDerivAt_const y (Tf * (x - x0))).sub (hf.const_mul h)).congr_deriv (by ring)

/-- the algebraic rows of the iteration matrix are the (scaled) `gx`, `gy` handed in -/
theorem jac_algebraic_rows (Teye h fx fy gxs gys : ℝ) :
    trapezoid_jac21 Teye h fx fy gxs gys = gxs ∧ trapezoid_jac22 Teye h fx fy gxs gys = gys ∧
    backeuler_jac21 Teye h fx fy gxs gys = gxs ∧ backeuler_jac22 Teye h fx fy gxs gys = gys :=
  ⟨rfl, rfl, rfl, rfl⟩

end Andes.C04

namespace Andes.Tds

/-! ### Step-size control: never above the fixed step, never past the end time -/

/-- size facts kept by `calc_h` -/
structure StepOk (c : Cfg ℚ) (s : St ℚ) : Prop where
  d_nonneg : 0 ≤ s.deltat
  h_le_d : s.h ≤ s.deltat
  fix_le : s.fixt = true → s.deltat ≤ c.tstep

theorem grow_le (dmin dmax d : ℚ) (n : Nat) (hd : 0 ≤ d) (h1 : 0 < dmin) (h2 : dmin ≤ dmax) :
    0 ≤ grow dmin dmax d n := by
  unfold grow pmax pmin; grind

theorem calcH_stepOk (c : Cfg ℚ) (ok : CfgOk c) (s : St ℚ) (r : Bool)
    (hsz : isFirst s r = true ∨ (SzOk c s ∧ StepOk c s))
    (hge : ∀ x, c.sw[skipIdx c s.t s.idx r]? = some x → s.t ≤ x) : StepOk c (calcH c s r) := by
  have hd : 0 ≤ nextDeltat c s r ∧ (nextFixt c s r = true → nextDeltat c s r ≤ c.tstep) := by
    unfold nextDeltat nextFixt
    by_cases hf : isFirst s r = true
    · simp only [hf, if_true]
      refine ⟨le_of_lt (firstDeltat_pos c ok _), ?_⟩
      intro hfx; unfold firstDeltat; simp [hfx]
    · rcases hsz with h | ⟨hs, hp⟩
      · exact absurd h hf
      · have g := grow_le s.dmin s.dmax s.deltat s.niter hp.d_nonneg hs.dmin_pos hs.dmin_le
        have h1 := hs.fix_pos; have h2 := hp.d_nonneg; have h3 := hp.fix_le; have h4 := hs.dmin_pos
        simp only [hf]
        unfold pmin
        constructor
        · grind
        · grind
  have hraw : hRaw c s.t (nextDeltat c s r) ≤ nextDeltat c s r ∧ 0 ≤ hRaw c s.t (nextDeltat c s r) := by
    constructor
    · unfold hRaw pmax pmin; have := hd.1; norm_num; split_ifs <;> linarith
    · exact hRaw_nonneg _ _ _
  obtain ⟨_, c1, _, _⟩ := clip_spec c ok s.t (hRaw c s.t (nextDeltat c s r)) (skipIdx c s.t s.idx r) hraw.2 hge
  unfold calcH
  exact ⟨hd.1, le_trans c1 hraw.1, hd.2⟩

end Andes.Tds

namespace Andes.Tds

theorem StepOk.of_eq {c c' : Cfg ℚ} {s s' : St ℚ} (h : StepOk c s) (ht : c'.tstep = c.tstep)
    (e1 : s'.deltat = s.deltat) (e2 : s'.h = s.h) (e3 : s'.fixt = s.fixt) : StepOk c' s' :=
  ⟨by rw [e1]; exact h.d_nonneg, by rw [e1, e2]; exact h.h_le_d, by rw [e1, e3, ht]; exact h.fix_le⟩

/-- every reachable state keeps the step-size facts -/
theorem reach_stepOk (c : Cfg ℚ) (hy : Hyp c) (f : Bool) (tf : ℚ) (s : St ℚ) (hr : Reach c f tf s) :
    StepOk (withTf c tf) s := by
  induction hr with
  | init tf h =>
    have ok := hyp_ok c hy tf h
    apply calcH_stepOk _ ok _ _ (Or.inl (isFirst_preInit f false))
    intro x hx
    have z : (preInit f : St ℚ).t = 0 := by unfold preInit; norm_num
    rw [z]; exact le_of_lt (hy.sw_pos x (List.mem_of_getElem? hx))
  | step tf s v hr hg ih =>
    obtain ⟨hsp, hI⟩ := reach_inv c hy f tf s hr
    have ok := hyp_ok c hy tf hsp
    obtain ⟨hbase, hnb⟩ := (guard_iff _ s).mp hg
    unfold iter
    split_ifs
    · -- accepted
      unfold iterOk
      set s1 : St ℚ := { s with converged := true, niter := v.niter, stamps := s.t :: s.stamps,
                                busted := s.busted || v.crit, customPending := s.customPending || v.custom } with hs1
      obtain ⟨e_t, e_h, e_d, _, _, _, _, e_dmin, e_dmax, e_fx, _, _, hgt, _⟩ :=
        doSwitch'_spec (withTf c tf) ok s1 hI.pendEnd hI.idxLe
      set s2 := doSwitch' (withTf c tf) s1 with hs2
      have hsz2 : SzOk (withTf c tf) s2 :=
        ⟨by rw [e_dmin]; exact hI.sz.dmin_pos, by rw [e_dmin, e_dmax]; exact hI.sz.dmin_le,
         by rw [e_fx]; exact hI.sz.fix_pos⟩
      have hp2 : StepOk (withTf c tf) s2 := ih.of_eq rfl e_d e_h e_fx
      have hgt2 : ∀ x, (withTf c tf).sw[s2.idx]? = some x → s2.t < x := by rw [e_t]; exact hgt
      have hsk := skipIdx_of_lt (withTf c tf) s2.t s2.idx false hgt2
      have := calcH_stepOk (withTf c tf) ok s2 false (Or.inr ⟨hsz2, hp2⟩)
        (by rw [hsk]; intro x hx; exact le_of_lt (hgt2 x hx))
      exact this.of_eq rfl rfl rfl rfl
    · -- rejected
      unfold iterFail
      simp only [Bool.false_eq_true, if_false]
      set s1 : St ℚ := { s with converged := false, niter := v.niter, t := s.t - s.h, busted := s.busted || v.nan,
                                customPending := s.customPending || v.custom }
        with hs1
      have hgt1 : ∀ x, (withTf c tf).sw[s1.idx]? = some x → s1.t < x :=
        fun x hx => hI.pendBase hnb s.idx (le_refl _) x hx
      have hsk := skipIdx_of_lt (withTf c tf) s1.t s1.idx false hgt1
      have hp1 : StepOk (withTf c tf) s1 := ih.of_eq rfl rfl rfl rfl
      have hsz1 : SzOk (withTf c tf) s1 := ⟨hI.sz.dmin_pos, hI.sz.dmin_le, hI.sz.fix_pos⟩
      have := calcH_stepOk (withTf c tf) ok s1 false (Or.inr ⟨hsz1, hp1⟩)
        (by rw [hsk]; intro x hx; exact le_of_lt (hgt1 x hx))
      split_ifs
      · exact this.of_eq rfl rfl rfl rfl
      · exact this.of_eq rfl rfl rfl rfl
  | resume tf tf' s hr hg hle ih =>
    obtain ⟨hsp, hI⟩ := reach_inv c hy f tf s hr
    have ok' := hyp_ok c hy tf' (lt_of_lt_of_le hsp hle)
    unfold resume
    split_ifs
    · exact ih.of_eq rfl rfl rfl rfl
    · have hfi : isFirst s true = true := by unfold isFirst; simp
      have := calcH_stepOk (withTf c tf') ok' s true (Or.inl hfi)
        (by rw [skipIdx_resume]; exact fun x hx => hI.pendEnd s.idx (le_refl _) x hx)
      exact this.of_eq rfl rfl rfl rfl

/-- **The step about to be integrated is never longer than the configured fixed step, never negative,
and never reaches past the end time** — for every reachable loop-head state. -/
theorem step_size_bounds (c : Cfg ℚ) (hy : Hyp c) (f : Bool) (tf : ℚ) (s : St ℚ) (hr : Reach c f tf s) :
    0 ≤ s.h ∧ (s.fixt = true → s.h ≤ c.tstep) ∧ (s.busted = false → s.t ≤ tf) := by
  have hp := reach_stepOk c hy f tf s hr
  have hI := (reach_inv c hy f tf s hr).2
  exact ⟨hI.hnn, fun hf => le_trans hp.h_le_d (hp.fix_le hf), hI.tleTf⟩

end Andes.Tds
