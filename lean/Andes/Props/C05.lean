import Andes.Model.InitOrder
import Andes.Model.Newton
import Andes.Gen.InitTables
import Andes.Gen.Handover
import Mathlib.Tactic.Ring
import Mathlib.Tactic.FieldSimp
import Mathlib.Tactic.Linarith
import Mathlib.Tactic.NormNum
import Mathlib.Algebra.Order.Field.Rat

/-!
# C05 — Dynamic initialisation is an equilibrium consistent with the power flow

Regenerated on every run: `Andes.Gen.InitTables` (per model: the generated initialisation sequence and
the dependency table of the declared initialisers, with the theorem that the sequence respects the
dependencies) and `Andes.Gen.Handover` (the declared load equations of `PQ`, shallow over ℝ).
Hand-written here: the hand-over of static loads to their time-domain form, the power split between
several dynamic devices on one static generator, the verdict of the initialisation test, and "an
undisturbed equilibrium stays".
Residue (measured by `harness/c05.py` on stock cases and generated attachments): that each model's
data-dependent initial point lies inside its limiter ranges and makes all residuals vanish.
-/
namespace Andes.C05
open Andes.InitOrder

/-! ### The initialisation test reports failure whenever the residuals are not zero -/

/-- **`test_init` returns True exactly when every residual is a number below the tolerance** -/
theorem test_init_verdict (tol : ℚ) (fg : List (Option ℚ)) :
    testInit tol fg = true ↔ ∀ x ∈ fg, ∃ v, x = some v ∧ |v| < tol := by
  unfold testInit
  rw [List.all_eq_true]
  constructor
  · intro h x hx
    have := h x hx
    cases x with
    | none => simp at this
    | some v =>
      refine ⟨v, rfl, ?_⟩
      have hv : pabs v < tol := by simpa using this
      unfold pabs at hv
      split_ifs at hv with hneg
      · rw [abs_of_neg (by norm_num at hneg; exact hneg)]; norm_num at hv; linarith
      · rw [abs_of_nonneg (by norm_num at hneg; exact hneg)]; exact hv
  · intro h x hx
    obtain ⟨v, rfl, hv⟩ := h x hx
    have : pabs v < tol := by
      unfold pabs
      split_ifs with hneg
      · rw [abs_of_neg (by norm_num at hneg; exact hneg)] at hv; norm_num; linarith
      · rw [abs_of_nonneg (by norm_num at hneg; exact hneg)] at hv; exact hv
    simpa using this

/-- a NaN residual, or one at or above the tolerance, makes the test fail -/
theorem test_init_rejects (tol : ℚ) (fg : List (Option ℚ)) (x : Option ℚ) (hx : x ∈ fg)
    (hbad : x = none ∨ ∃ v, x = some v ∧ tol ≤ |v|) : testInit tol fg = false := by
  by_contra h
  have h' : testInit tol fg = true := by simpa using h
  obtain ⟨v, rfl, hv⟩ := (test_init_verdict tol fg).mp h' x hx
  rcases hbad with hb | ⟨w, hw, hle⟩
  · cases hb
  · cases hw; linarith

example : testInit (1/10000 : ℚ) [some 0, some (1/100000), some (-1/100000)] = true := by decide +kernel
example : testInit (1/10000 : ℚ) [some 0, none] = false := by decide +kernel

/-! ### Hand-over of a static load to its time-domain form keeps the injected power -/

open Andes.Gen.Handover in
/-- **`PQ`**: with the conversion shares summing to one, the load in service and the bus at its
power-flow voltage `v = v0 ≠ 0`, the time-domain branch (`dae_t ≥ 0`: constant power / current /
impedance mix computed from the power-flow result) injects exactly the power of the power-flow branch
(`dae_t < 0`, voltage inside `[vmin, vmax]`).  Generated equations, all parameter values. -/
theorem pq_handover_preserves_injection (p0 q0 v0 p2p p2i p2z q2q q2i q2z u : ℝ) (hv : v0 ≠ 0)
    (hp : p2p + p2i + p2z = 1) (hq : q2q + q2i + q2z = 1) :
    pq_p_tds p0 v0 p2p p2i p2z u v0 = pq_p_pflow p0 u ∧
    pq_q_tds q0 v0 q2q q2i q2z u v0 = pq_q_pflow q0 u := by
  unfold pq_p_tds pq_p_pflow pq_q_tds pq_q_pflow
  constructor
  · field_simp
    have : p2p = 1 - p2i - p2z := by linarith
    rw [this]; ring
  · field_simp
    have : q2q = 1 - q2i - q2z := by linarith
    rw [this]; ring

/-! ### Several dynamic devices on one static generator -/

theorem sum_map_mul (p0s : ℚ) (l : List ℚ) : (l.map (fun g => p0s * g)).sum = p0s * l.sum := by
  induction l with
  | nil => simp
  | cons g gs ih => simp only [List.map_cons, List.sum_cons, ih, mul_add]

/-- **Power split**: dynamic devices that take the fractions `γ_i` of a static generator's power
(`p0 = p0s * gammap` in every synchronous-generator / renewable model) together inject the static
generator's power exactly when the fractions sum to one — for any number of devices. -/
theorem split_preserves_injection (p0s : ℚ) (gammas : List ℚ) (h : gammas.sum = 1) :
    (gammas.map (fun g => p0s * g)).sum = p0s := by
  rw [sum_map_mul, h, mul_one]

/-- … and not otherwise: fractions that do not sum to one change the injected power -/
theorem split_changes_injection (p0s : ℚ) (gammas : List ℚ) (hp : p0s ≠ 0) (h : gammas.sum ≠ 1) :
    (gammas.map (fun g => p0s * g)).sum ≠ p0s := by
  rw [sum_map_mul]
  intro heq
  apply h
  have : p0s * gammas.sum = p0s * 1 := by rw [heq, mul_one]
  exact mul_left_cancel₀ hp this

/-! ### An undisturbed equilibrium stays -/

open Andes.Newton in
/-- **A simulation step started at an equilibrium does not move**: when the residual of the step
equations is zero the first Newton increment is zero, the step is accepted after one iteration, and the
state (previous state minus the sum of the increments) is unchanged. -/
theorem undisturbed_stays (c : StepCfg ℚ) (q0 : ℚ) (htol : 0 ≤ c.tol) (rest : List (Inc ℚ)) :
    step c q0 false (some 0 :: rest) = some ⟨true, 1, false, false, 1⟩ := by
  unfold step stepLoop
  have : Newton.pabs (0 : ℚ) ≤ c.tol := by unfold Newton.pabs; norm_num; exact htol
  simp [this, chatOf]

/-! ### Initialisation order (generated tables) -/

/-- meaning of the generated `*_init_order_valid` theorems: when `valid` holds, a variable is never
initialised before a variable its initialiser mentions (unless they are solved together) -/
theorem valid_head (deps : Nat → List Nat) (g : List Nat) (rest : List (List Nat)) (done : List Nat)
    (h : validFrom deps done (g :: rest) = true) (v : Nat) (hv : v ∈ g) (d : Nat) (hd : d ∈ deps v) :
    d ∈ done ∨ d ∈ g := by
  unfold validFrom at h
  simp only [Bool.and_eq_true, List.all_eq_true] at h
  have := (h.1.1 v hv)
  simp only [Bool.and_eq_true, allEarlier, List.all_eq_true, Bool.or_eq_true, List.contains_eq_mem,
    decide_eq_true_eq] at this
  exact this.2 d hd

end Andes.C05
