import Andes.Proofs.Island

/-!
# C12 — Island detection and status propagation match the network graph

Property theorems only.  Model: `Andes/Model/Island.lean` (`System.connectivity`, `g_islands`, `j_islands`,
`ConnMan.init/_update/record/act`, `Group.find_idx(allow_all=True)`, `Group.set`), tied to `/repo` by the
exact correspondence of `harness/c12.py`.

The graph: vertices are the bus numbers `0 … n-1`, `Link n es i j` says an in-service series device joins
`i` and `j`, `Touched es j` says `j` is an end of an in-service device (in-service degree ≥ 1).
"Island" = class of `Relation.ReflTransGen (Link n es)` on the touched vertices.

Theorems named `…_partial` carry a hypothesis that excludes an input on which the real code violates the
property; each is followed by a Lean-proved counterexample on the faithful model.
-/
namespace Andes.Island

/-! ## reachability closure (the Goderya inner loop) -/

/-- The inner loop started from the row of a non-isolated bus `s` terminates for every graph and returns
exactly the buses reachable from `s` through in-service devices. -/
theorem closure_is_component (n : Nat) (es : List Edge) (s : Nat) (hs : s < n) (ht : Touched es s) :
    ∃ T, component n es s = some T ∧ T.Nodup ∧ ∀ j, j ∈ T ↔ Relation.ReflTransGen (Link n es) s j := by
  obtain ⟨T, hT, hgood, hmem⟩ := component_spec n es hs
  refine ⟨T, hT, hgood.1, fun j => ?_⟩
  rw [hmem, ← reach_E_iff_Link]
  constructor
  · exact Relation.TransGen.to_reflTransGen
  · intro h
    rcases Relation.reflTransGen_iff_eq_or_transGen.mp h with rfl | h
    · exact R_self hs ht
    · exact h

example : Touched [⟨0, 1, true⟩, ⟨1, 2, false⟩] 1 ∧ component 3 [⟨0, 1, true⟩, ⟨1, 2, false⟩] 1 = some [0, 1] := by
  refine ⟨⟨⟨0, 1, true⟩, by simp, rfl, Or.inr rfl⟩, by decide +kernel⟩

/-- The inner loop never runs out of fuel, whatever the start vertex. -/
theorem closure_terminates (n : Nat) (es : List Edge) (s : Nat) : component n es s ≠ none := by
  obtain ⟨T, hT, _⟩ := closeLoop_spec n es (n + 1) (row n es s) (good_row n es s) (by omega)
  unfold component; rw [hT]; simp

/-! ## isolated buses -/

/-- `islanded_buses` are exactly the buses with no in-service series device attached. -/
theorem islanded_buses_are_degree_zero (n : Nat) (es : List Edge) (j : Nat) :
    j ∈ islanded n es ↔ j < n ∧ ∀ e ∈ es, e.u = true → e.fr ≠ j ∧ e.to ≠ j := by
  rw [mem_islanded]; unfold Touched
  constructor
  · rintro ⟨hj, h⟩
    refine ⟨hj, fun e he hu => ⟨fun hf => h ⟨e, he, hu, Or.inl hf⟩, fun hf => h ⟨e, he, hu, Or.inr hf⟩⟩⟩
  · rintro ⟨hj, h⟩
    refine ⟨hj, ?_⟩
    rintro ⟨e, he, hu, hf | hf⟩
    · exact (h e he hu).1 hf
    · exact (h e he hu).2 hf

theorem islanded_buses_nodup (n : Nat) (es : List Edge) : (islanded n es).Nodup := islanded_nodup n es

/-! ## islands -/

/-- what `island_sets` must be: every entry is the reachability class of a non-isolated bus, the entries are
pairwise disjoint, and every non-isolated bus lies in one of them (hence in exactly one) -/
structure IslandsAreComponents (n : Nat) (es : List Edge) (sets : List (List Nat)) : Prop where
  is_class : ∀ c ∈ sets, ∃ s, s < n ∧ Touched es s ∧ ∀ j, j ∈ c ↔ Relation.ReflTransGen (Link n es) s j
  disjoint : sets.Pairwise List.Disjoint
  cover : ∀ v, v < n → Touched es v → ∃ c ∈ sets, v ∈ c

theorem post_to_components {n es sets} (h : Post n es sets) : IslandsAreComponents n es sets := by
  refine ⟨fun c hc => ?_, h.disj, h.cover⟩
  obtain ⟨s, hs, ht, hmem⟩ := h.comp c hc
  refine ⟨s, hs, ht, fun j => ?_⟩
  rw [hmem, ← reach_E_iff_Link]
  constructor
  · exact Relation.TransGen.to_reflTransGen
  · intro h
    rcases Relation.reflTransGen_iff_eq_or_transGen.mp h with rfl | h
    · exact R_self hs ht
    · exact h

/-- the two cases of the loop as written (with its guard `len(islanded_buses) < n`): when every bus is isolated the
sweep is not entered and `island_sets` is empty; otherwise `island_sets` are the components.  It always terminates. -/
theorem islandSets_cases (n : Nat) (es : List Edge) :
    ((∀ v, v < n → ¬ Touched es v) ∧ islandSets n es = .ok []) ∨
    ((∃ v, v < n ∧ Touched es v) ∧ ∃ sets, islandSets n es = .ok sets ∧ IslandsAreComponents n es sets) := by
  unfold islandSets
  by_cases hg : n ≤ (islanded n es).length
  · left
    have hall := (guard_iff_all_islanded n es).mp hg
    exact ⟨fun v hv ht => (not_islanded_iff hv).mpr ht (hall v hv), by simp [hg]⟩
  · rcases outer_skip n es (2 * n + 2) 0 (by simp) (by omega) (by omega) with ⟨h1, _⟩ | ⟨⟨v, hv, hvi⟩, sets, h2, h3⟩
    · exact absurd ((guard_iff_all_islanded n es).mpr h1) hg
    · right
      exact ⟨⟨v, hv, (not_islanded_iff hv).mp hvi⟩, sets, by simp [hg, h2], post_to_components h3⟩

/-- **`island_sets` enumerates each connected component of the non-isolated vertices exactly once — for every
graph** (full strength since the repair of `all-islanded-indexerror`: on the pinned tree `System.connectivity` raised
`IndexError` when every bus was isolated, and the statement carried the hypothesis "some bus is touched"). -/
theorem islands_are_components (n : Nat) (es : List Edge) :
    ∃ sets, islandSets n es = .ok sets ∧ IslandsAreComponents n es sets := by
  rcases islandSets_cases n es with ⟨h, he⟩ | ⟨_, h⟩
  · exact ⟨[], he, ⟨by simp, List.Pairwise.nil, fun v hv ht => absurd ht (h v hv)⟩⟩
  · exact h

example : (∃ v, v < 5 ∧ Touched [⟨0, 1, true⟩, ⟨3, 4, true⟩, ⟨1, 3, false⟩] v) ∧
    islandSets 5 [⟨0, 1, true⟩, ⟨3, 4, true⟩, ⟨1, 3, false⟩] = .ok [[0, 1], [3, 4]] :=
  ⟨⟨0, by omega, ⟨0, 1, true⟩, by simp, rfl, Or.inl rfl⟩, by decide +kernel⟩

/-- Termination and totality for every graph: the model's fuel is never exhausted and no exception is raised, i.e.
the loops of `System.connectivity` always exit normally. -/
theorem connectivity_terminates (n : Nat) (es : List Edge) : ∃ sets, islandSets n es = .ok sets := by
  obtain ⟨sets, h, _⟩ := islands_are_components n es
  exact ⟨sets, h⟩

/-- the input that failed on the pinned tree (`all-islanded-indexerror`): all lines out of service.  Every bus is
now reported as an isolated bus, there is no island set, and `Bus.islands` lists the singletons only. -/
theorem all_lines_off_witness :
    connectivity 3 [⟨0, 1, false⟩, ⟨1, 2, false⟩] [⟨true, 0⟩] = .ok ⟨[0, 1, 2], [], [], [], [[0], [1], [2]]⟩ := by
  decide +kernel

/-- whenever every bus is isolated — in particular when all lines and jumpers are out of service — the result is
the list of all buses as isolated buses and no island set -/
theorem all_isolated_result (n : Nat) (es : List Edge) (sl : List Slack)
    (h : ∀ v, v < n → ¬ Touched es v) : ∃ r, connectivity n es sl = .ok r ∧ r.sets = [] ∧ r.islanded = List.range n := by
  rcases islandSets_cases n es with ⟨_, h2⟩ | ⟨⟨v, hv, ht⟩, _⟩
  · refine ⟨_, by unfold connectivity; rw [h2], rfl, ?_⟩
    show islanded n es = List.range n
    unfold islanded
    apply List.filter_eq_self.mpr
    intro a ha
    have := mem_islanded.mpr ⟨List.mem_range.mp ha, h a (List.mem_range.mp ha)⟩
    exact (List.mem_filter.mp this).2
  · exact absurd ht (h v hv)

/-- **`Bus.islands` (isolated buses as singletons followed by `island_sets`) contains every bus, and its entries
are pairwise disjoint: a partition of the buses into electrical islands — for every graph.** -/
theorem islands_partition (n : Nat) (es : List Edge) (sl : List Slack) :
    ∃ r, connectivity n es sl = .ok r ∧ (∀ v, v < n → ∃ c ∈ r.islands, v ∈ c) ∧ r.islands.Pairwise List.Disjoint := by
  obtain ⟨sets, hs, hc⟩ := islands_are_components n es
  refine ⟨_, by unfold connectivity; rw [hs], ?_, ?_⟩
  · intro v hv
    by_cases ht : Touched es v
    · obtain ⟨c, hc', hvc⟩ := hc.cover v hv ht
      have hne : sets.isEmpty = false := by
        cases sets with
        | nil => cases hc'
        | cons _ _ => rfl
      refine ⟨c, ?_, hvc⟩
      simp only [islandsOf, hne, Bool.false_and, Bool.false_eq_true, if_false, List.mem_append]
      exact Or.inr hc'
    · refine ⟨[v], ?_, by simp⟩
      simp only [islandsOf, List.mem_append, List.mem_map]
      exact Or.inl ⟨v, mem_islanded.mpr ⟨hv, ht⟩, rfl⟩
  · have hsingle : (List.map (fun b => [b]) (islanded n es)).Pairwise List.Disjoint := by
      rw [List.pairwise_map]
      exact (islanded_nodup n es).imp (fun hab => by simpa [List.Disjoint] using hab)
    have hcross : ∀ a ∈ List.map (fun b => [b]) (islanded n es), ∀ b ∈ sets, List.Disjoint a b := by
      intro a ha b hb j hja hjb
      obtain ⟨v, hv, rfl⟩ := List.mem_map.mp ha
      obtain ⟨s, _, _, hmem⟩ := hc.is_class b hb
      have hjv : j = v := by simpa using hja
      subst hjv
      have hnt := (mem_islanded.mp hv).2
      rcases Relation.ReflTransGen.cases_tail ((hmem j).mp hjb) with h | ⟨k, _, hk⟩
      · subst h; contradiction
      · obtain ⟨_, _, e, he, hu, h⟩ := hk
        exact hnt ⟨e, he, hu, by omega⟩
    simp only [islandsOf]
    split_ifs with hcond
    · -- no island set and no isolated bus: `n = 0` (or nothing at all); the single entry `range n`
      have hisl : islanded n es = [] := by
        have := (Bool.and_eq_true _ _).mp hcond
        simpa using this.2
      rw [hisl]; simp
    · rw [List.pairwise_append]
      exact ⟨hsingle, hc.disjoint, hcross⟩

/-! ## slack classification -/

/-- island `i` is listed in `nosw_island` iff it contains no enabled slack generator, in `msw_island` iff it
contains at least two; with exactly one it is in neither list. -/
theorem slack_classification (n : Nat) (es : List Edge) (sl : List Slack) (r : Result)
    (h : connectivity n es sl = .ok r) (i : Nat) :
    (i ∈ r.nosw ↔ i < r.sets.length ∧ slackCount sl (r.sets.getD i []) = 0) ∧
    (i ∈ r.msw ↔ i < r.sets.length ∧ 2 ≤ slackCount sl (r.sets.getD i [])) ∧
    (i < r.sets.length → slackCount sl (r.sets.getD i []) = 1 → i ∉ r.nosw ∧ i ∉ r.msw) := by
  unfold connectivity at h
  split at h
  · cases h
  · injection h with h
    subst h
    dsimp only
    refine ⟨mem_noswIslands, mem_mswIslands, fun _ h1 => ⟨fun h2 => ?_, fun h2 => ?_⟩⟩
    · have := (mem_noswIslands.mp h2).2; omega
    · have := (mem_mswIslands.mp h2).2; omega

example : connectivity 4 [⟨1, 2, true⟩, ⟨0, 3, true⟩] [⟨true, 1⟩, ⟨true, 2⟩, ⟨false, 0⟩] =
    .ok ⟨[], [[0, 3], [1, 2]], [0], [1], [[0, 3], [1, 2]]⟩ := by decide +kernel

/-! ## isolated buses are neutralised -/

/-- `g_islands`: the angle and voltage residuals of every isolated bus become zero, all other residuals keep
their value. -/
theorem isolated_neutralised_g {α : Type} (zero : α) (n : Nat) (isl : List Nat) (g : List α) (i : Nat)
    (hi : i < g.length) :
    (gIslands zero n isl g).length = g.length ∧
    (gIslands zero n isl g)[i]? = some (if i ∈ isl ∨ (n ≤ i ∧ i - n ∈ isl) then zero else g[i]) :=
  ⟨gIslands_length zero n isl g, gIslands_get zero n isl g i hi⟩

/-- `j_islands` (ipadd branch): the stored pattern of `gy` is unchanged; for isolated buses the diagonal
entries (a,a) and (v,v) become `diag_eps`, the cross entries (a,v) and (v,a) become zero; every other stored
entry keeps its value. -/
theorem isolated_neutralised_gy {α : Type} (zero eps : α) (n : Nat) (isl : List Nat) (hn : ∀ b ∈ isl, b < n)
    (gy : List (Nat × Nat × α)) :
    jIslands zero eps n isl gy = gy.map fun e => (e.1, e.2.1,
      if (e.1 ∈ isl ∧ e.2.1 = e.1) ∨ (n ≤ e.1 ∧ e.1 - n ∈ isl ∧ e.2.1 = e.1) then eps
      else if (e.1 ∈ isl ∧ e.2.1 = n + e.1) ∨ (e.2.1 ∈ isl ∧ e.1 = n + e.2.1) then zero
      else e.2.2) := by
  by_cases h : isl = []
  · subst h
    simp [jIslands]
  · rw [jIslands_eq_map zero eps n isl gy h]
    apply List.map_congr_left
    intro e _
    rw [jVal_spec zero eps n isl hn]

example : jIslands "z" "e" 3 [1] [(0, 0, "k"), (1, 1, "k"), (1, 4, "k"), (4, 1, "k"), (4, 4, "k"), (2, 1, "k")]
    = [(0, 0, "k"), (1, 1, "e"), (1, 4, "z"), (4, 1, "z"), (4, 4, "e"), (2, 1, "k")] := by decide +kernel

/-! ## switching a bus off -/

/-- a device is attached to one of the buses `bs` when one of its `nsrc` bus fields names one of them -/
def Attached (nsrc : Nat) (bs : List Nat) (d : Dev) : Prop := ∃ k, k < nsrc ∧ ∃ b ∈ bs, d.buses[k]? = some b

theorem attachedB_iff (nsrc : Nat) (bs : List Nat) (d : Dev) : attachedB nsrc bs d = true ↔ Attached nsrc bs d := by
  simp [attachedB, Attached, List.any_eq_true]

/-- the specification on one device: idx and bus fields untouched, off iff it was off or is attached -/
theorem offIfAttached_spec (nsrc : Nat) (bs : List Nat) (d : Dev) :
    (offIfAttached nsrc bs d).id = d.id ∧ (offIfAttached nsrc bs d).buses = d.buses ∧
    ((offIfAttached nsrc bs d).u = false ↔ d.u = false ∨ Attached nsrc bs d) := by
  unfold offIfAttached
  rw [← attachedB_iff]
  by_cases h : attachedB nsrc bs d = true <;> simp [h]

/-- **Switching buses off switches off exactly the devices attached to them and nothing else**: after `ConnMan.act`
a device of a dependent group is off iff it was off or one of its bus fields names a bus recorded as switched off,
whatever the NUMBER of such buses (`offIdx s` is any list), in every group and in every model of a group; the
statuses are those of the specification function `offIfAttached`, whether or not the subsequent connectivity check
raises.  Full strength since the repairs `find-idx-first-model-only` (first model's matches only),
`bus-off-none-keyerror` (two buses in one change: `KeyError`, nothing switched) — the remaining hypothesis `hgrp`
(the idx of a dependent group are distinct) is C19's registry invariant. -/
theorem bus_off_propagates_exactly (s : CM) (hneeded : s.needed = true) (hne : offIdx s ≠ [])
    (hgrp : ∀ g ∈ s.grps, (grpIds g).Nodup) :
    (cmAct s).1.grps = s.grps.map fun g =>
      { g with models := g.models.map fun m => m.map (offIfAttached g.nsrc (offIdx s)) } := by
  unfold cmAct
  have h1 : (offIdx s).isEmpty = false := by simpa using hne
  simp only [hneeded, h1, actGroups_spec s.grps (offIdx s) hgrp, Bool.not_true, Bool.false_eq_true, if_false]
  split <;> rfl

/-- nothing is recorded, nothing happens -/
theorem act_without_change (s : CM) (h : s.needed = false ∨ offIdx s = []) : cmAct s = (s, none) := by
  unfold cmAct
  rcases h with h | h
  · simp [h]
  · by_cases hn : s.needed = true <;> simp [hn, h]

/-- **Successive switch-offs accumulate** (repair of `record-overwrites-off`): a bus recorded as switched off stays
in `changes['off']` through every later `record` as long as it is off — `record` after a second `Bus.alter` no
longer forgets the first. -/
theorem record_keeps_pending (s : CM) (i : Nat) (hneeded : s.needed = true)
    (hlen1 : s.off.length = s.busU.length) (hlen0 : s.busu0.length = s.busU.length)
    (hoff : s.off[i]? = some true) (hu : s.busU[i]? = some false) :
    (cmRecord s).1.off[i]? = some true := by
  have hi : i < s.busU.length := by
    rcases Nat.lt_or_ge i s.busU.length with h | h
    · exact h
    · rw [List.getElem?_eq_none h] at hu; cases hu
  have e : (cmRecord s).1.off =
      List.zipWith (fun p u => p && !u) (List.zipWith (· || ·) (cmOff s) s.off) s.busU := by
    unfold cmRecord
    simp only [hneeded, if_true]
    split_ifs <;> rfl
  rw [e]
  have hi0 : i < s.busu0.length := by omega
  have hi1 : i < s.off.length := by omega
  have o : s.off[i] = true := by
    have := List.getElem?_eq_getElem hi1; rw [this] at hoff; exact Option.some.inj hoff
  have u : s.busU[i] = false := by
    have := List.getElem?_eq_getElem hi; rw [this] at hu; exact Option.some.inj hu
  rw [List.getElem?_eq_getElem (by simp [cmOff]; omega)]
  simp [cmOff, o, u]

/-- the scenario the theorems are about, end to end: init, one `Bus.alter('u', idx, 0)`, `act` -/
def demo : CM :=
  { busIdx := [7, 8, 9], busU := [true, true, true], busu0 := [], on := [], off := [], needed := false,
    grps := [⟨2, [[⟨0, [7, 8], true⟩, ⟨1, [8, 9], true⟩]]⟩, ⟨2, []⟩, ⟨1, [[⟨0, [7], true⟩, ⟨1, [9], false⟩]]⟩] }

example : let s := runOps demo [.init, .set [0] false]
    s.needed = true ∧ offIdx s = [7] ∧ (∀ g ∈ s.grps, (grpIds g).Nodup) ∧
    (cmAct s).1.grps = [⟨2, [[⟨0, [7, 8], false⟩, ⟨1, [8, 9], true⟩]]⟩, ⟨2, []⟩, ⟨1, [[⟨0, [7], false⟩, ⟨1, [9], false⟩]]⟩] := by
  decide +kernel

/-- the input that failed on the pinned tree (`record-overwrites-off`): two buses switched off one after the other
before `act()`.  Both are pending now (`offIdx = [7, 9]`) and the devices on BOTH go off. -/
def demo2 : CM :=
  { busIdx := [7, 8, 9, 10], busU := [true, true, true, true], busu0 := [], on := [], off := [], needed := false,
    grps := [⟨2, [[⟨0, [7, 8], true⟩, ⟨1, [9, 10], true⟩]]⟩] }

theorem two_switch_offs_accumulate_witness :
    offIdx (runOps demo2 [.init, .set [0] false, .set [2] false]) = [7, 9] ∧
    (let s := runOps demo2 [.init, .set [0] false, .set [2] false, .act]
     s.busU = [false, true, false, true] ∧ s.needed = false ∧
     s.grps = [⟨2, [[⟨0, [7, 8], false⟩, ⟨1, [9, 10], false⟩]]⟩]) := by decide +kernel

/-- the input that failed on the pinned tree (`find-idx-first-model-only`): a bus carrying devices of two models
of one group (a PV and a Slack of `StaticGen`): both are switched off now -/
def demo3 : CM :=
  { busIdx := [7, 8], busU := [true, true], busu0 := [], on := [], off := [], needed := false,
    grps := [⟨2, [[⟨0, [7, 8], true⟩]]⟩, ⟨1, [[⟨0, [7], true⟩], [⟨1, [7], true⟩]]⟩] }

theorem second_model_goes_off_witness :
    (runOps demo3 [.init, .set [0] false, .act]).grps =
      [⟨2, [[⟨0, [7, 8], false⟩]]⟩, ⟨1, [[⟨0, [7], false⟩], [⟨1, [7], false⟩]]⟩] := by decide +kernel

/-- the inputs that failed on the pinned tree (`bus-off-none-keyerror`): two buses switched off in ONE recorded
change (one `Bus.set` with two idx, or two buses with `u = 0` in the case file), one of them without a device in a
group: no exception any more, the attached devices go off. -/
def demo4 : CM :=
  { demo2 with grps := [⟨2, [[⟨0, [7, 8], true⟩, ⟨1, [9, 10], true⟩]]⟩, ⟨1, [[⟨0, [7], true⟩, ⟨1, [10], true⟩]]⟩] }

theorem two_buses_at_once_witness :
    let s := runOps demo4 [.init, .set [0, 2] false]
    (cmAct s).2 = none ∧
    (cmAct s).1.grps = [⟨2, [[⟨0, [7, 8], false⟩, ⟨1, [9, 10], false⟩]]⟩, ⟨1, [[⟨0, [7], false⟩, ⟨1, [10], true⟩]]⟩] := by
  decide +kernel

theorem two_buses_off_in_case_file_witness :
    let r := cmInit { demo4 with busU := [false, true, false, true] }
    r.2 = none ∧ r.1.grps = [⟨2, [[⟨0, [7, 8], false⟩, ⟨1, [9, 10], false⟩]]⟩, ⟨1, [[⟨0, [7], false⟩, ⟨1, [10], true⟩]]⟩] := by
  decide +kernel

end Andes.Island
