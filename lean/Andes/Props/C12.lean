import Andes.Proofs.Island

/-!
# C12 — Island detection and status propagation match the network graph

Property theorems only.  Model: `Andes/Model/Island.lean` (`System.connectivity`, `g_islands`, `j_islands`,
`ConnMan.init/_update/record/act`, `Group.find_idx(allow_all=True)`, `Group.set`), tied to `/repo` by the
exact correspondence of `harness/c12.py`.

The graph: vertices are the bus numbers `0 … n-1`, `Link n es i j` says an in-service series device joins
`i` and `j`, `Touched es j` says `j` is an end of an in-service device (in-service degree ≥ 1).
"Island" = class of `Relation.ReflTransGen (Link n es)` on the touched vertices.

Theorems named `…_partial` carry a hypothesis that excludes an input on which the real code violates the
property; each is followed by a Lean-proved counterexample on the faithful model.
-/
namespace Andes.Island

/-! ## reachability closure (the Goderya inner loop) -/

/-- The inner loop started from the row of a non-isolated bus `s` terminates for every graph and returns
exactly the buses reachable from `s` through in-service devices. -/
theorem closure_is_component (n : Nat) (es : List Edge) (s : Nat) (hs : s < n) (ht : Touched es s) :
    ∃ T, component n es s = some T ∧ T.Nodup ∧ ∀ j, j ∈ T ↔ Relation.ReflTransGen (Link n es) s j := by
  obtain ⟨T, hT, hgood, hmem⟩ := component_spec n es hs
  refine ⟨T, hT, hgood.1, fun j => ?_⟩
  rw [hmem, ← reach_E_iff_Link]
  constructor
  · exact Relation.TransGen.to_reflTransGen
  · intro h
    rcases Relation.reflTransGen_iff_eq_or_transGen.mp h with rfl | h
    · exact R_self hs ht
    · exact h

example : Touched [⟨0, 1, true⟩, ⟨1, 2, false⟩] 1 ∧ component 3 [⟨0, 1, true⟩, ⟨1, 2, false⟩] 1 = some [0, 1] := by
  refine ⟨⟨⟨0, 1, true⟩, by simp, rfl, Or.inr rfl⟩, by decide +kernel⟩

/-- The inner loop never runs out of fuel, whatever the start vertex. -/
theorem closure_terminates (n : Nat) (es : List Edge) (s : Nat) : component n es s ≠ none := by
  obtain ⟨T, hT, _⟩ := closeLoop_spec n es (n + 1) (row n es s) (good_row n es s) (by omega)
  unfold component; rw [hT]; simp

/-! ## isolated buses -/

/-- `islanded_buses` are exactly the buses with no in-service series device attached. -/
theorem islanded_buses_are_degree_zero (n : Nat) (es : List Edge) (j : Nat) :
    j ∈ islanded n es ↔ j < n ∧ ∀ e ∈ es, e.u = true → e.fr ≠ j ∧ e.to ≠ j := by
  rw [mem_islanded]; unfold Touched
  constructor
  · rintro ⟨hj, h⟩
    refine ⟨hj, fun e he hu => ⟨fun hf => h ⟨e, he, hu, Or.inl hf⟩, fun hf => h ⟨e, he, hu, Or.inr hf⟩⟩⟩
  · rintro ⟨hj, h⟩
    refine ⟨hj, ?_⟩
    rintro ⟨e, he, hu, hf | hf⟩
    · exact (h e he hu).1 hf
    · exact (h e he hu).2 hf

theorem islanded_buses_nodup (n : Nat) (es : List Edge) : (islanded n es).Nodup := islanded_nodup n es

/-! ## islands -/

/-- what `island_sets` must be: every entry is the reachability class of a non-isolated bus, the entries are
pairwise disjoint, and every non-isolated bus lies in one of them (hence in exactly one) -/
structure IslandsAreComponents (n : Nat) (es : List Edge) (sets : List (List Nat)) : Prop where
  is_class : ∀ c ∈ sets, ∃ s, s < n ∧ Touched es s ∧ ∀ j, j ∈ c ↔ Relation.ReflTransGen (Link n es) s j
  disjoint : sets.Pairwise List.Disjoint
  cover : ∀ v, v < n → Touched es v → ∃ c ∈ sets, v ∈ c

theorem post_to_components {n es sets} (h : Post n es sets) : IslandsAreComponents n es sets := by
  refine ⟨fun c hc => ?_, h.disj, h.cover⟩
  obtain ⟨s, hs, ht, hmem⟩ := h.comp c hc
  refine ⟨s, hs, ht, fun j => ?_⟩
  rw [hmem, ← reach_E_iff_Link]
  constructor
  · exact Relation.TransGen.to_reflTransGen
  · intro h
    rcases Relation.reflTransGen_iff_eq_or_transGen.mp h with rfl | h
    · exact R_self hs ht
    · exact h

/-- the dichotomy proved for the loop as written: it always terminates; it raises `IndexError` exactly when
every bus is isolated; otherwise `island_sets` are the components -/
theorem islandSets_cases (n : Nat) (es : List Edge) :
    ((∀ v, v < n → ¬ Touched es v) ∧ islandSets n es = .error .indexError) ∨
    ((∃ v, v < n ∧ Touched es v) ∧ ∃ sets, islandSets n es = .ok sets ∧ IslandsAreComponents n es sets) := by
  rcases outer_skip n es (2 * n + 2) 0 (by simp) (by omega) (by omega) with ⟨h1, h2⟩ | ⟨⟨v, hv, hvi⟩, sets, h2, h3⟩
  · left
    exact ⟨fun v hv ht => (not_islanded_iff hv).mpr ht (h1 v hv), h2⟩
  · right
    exact ⟨⟨v, hv, (not_islanded_iff hv).mp hvi⟩, sets, h2, post_to_components h3⟩

/-- FULL statement wanted: for every graph `island_sets` enumerates each connected component of the
non-isolated vertices exactly once.  It fails when every bus is isolated (`all_isolated_index_error`), hence
the hypothesis `hne`. -/
theorem islands_are_components_partial (n : Nat) (es : List Edge) (hne : ∃ v, v < n ∧ Touched es v) :
    ∃ sets, islandSets n es = .ok sets ∧ IslandsAreComponents n es sets := by
  rcases islandSets_cases n es with ⟨h, _⟩ | ⟨_, h⟩
  · obtain ⟨v, hv, ht⟩ := hne; exact absurd ht (h v hv)
  · exact h

example : (∃ v, v < 5 ∧ Touched [⟨0, 1, true⟩, ⟨3, 4, true⟩, ⟨1, 3, false⟩] v) ∧
    islandSets 5 [⟨0, 1, true⟩, ⟨3, 4, true⟩, ⟨1, 3, false⟩] = .ok [[0, 1], [3, 4]] :=
  ⟨⟨0, by omega, ⟨0, 1, true⟩, by simp, rfl, Or.inl rfl⟩, by decide +kernel⟩

/-- Termination for every graph: the model's fuel is never exhausted, i.e. the `while True` loops of
`System.connectivity` always exit (by `break` or by the `IndexError`). -/
theorem connectivity_terminates (n : Nat) (es : List Edge) : islandSets n es ≠ .error .fuel := by
  rcases islandSets_cases n es with ⟨_, h⟩ | ⟨_, sets, h, _⟩ <;> rw [h] <;> simp

/-- COUNTEREXAMPLE (defect `all-islanded-indexerror`): whenever every bus is isolated — in particular when
all lines and jumpers are out of service — `System.connectivity` raises `IndexError`. -/
theorem all_isolated_index_error (n : Nat) (es : List Edge) (sl : List Slack)
    (h : ∀ v, v < n → ¬ Touched es v) : connectivity n es sl = .error .indexError := by
  rcases islandSets_cases n es with ⟨_, h2⟩ | ⟨⟨v, hv, ht⟩, _⟩
  · unfold connectivity; rw [h2]
  · exact absurd ht (h v hv)

theorem all_lines_off_index_error (n : Nat) (es : List Edge) (sl : List Slack)
    (h : ∀ e ∈ es, e.u = false) : connectivity n es sl = .error .indexError := by
  apply all_isolated_index_error
  rintro v _ ⟨e, he, hu, _⟩
  rw [h e he] at hu; cases hu

theorem all_lines_off_index_error_witness :
    connectivity 3 [⟨0, 1, false⟩, ⟨1, 2, false⟩] [⟨true, 0⟩] = .error .indexError := by decide +kernel

/-- the `IndexError` occurs in no other situation -/
theorem index_error_iff_all_isolated (n : Nat) (es : List Edge) :
    islandSets n es = .error .indexError ↔ ∀ v, v < n → ¬ Touched es v := by
  rcases islandSets_cases n es with ⟨h1, h2⟩ | ⟨⟨v, hv, ht⟩, sets, h2, _⟩
  · exact ⟨fun _ => h1, fun _ => h2⟩
  · rw [h2]; exact ⟨fun h => (by cases h), fun h => absurd ht (h v hv)⟩

/-- `Bus.islands` (isolated buses as singletons followed by `island_sets`) contains every bus, and its entries
are pairwise disjoint: a partition of the buses into electrical islands. -/
theorem islands_partition_partial (n : Nat) (es : List Edge) (sl : List Slack) (hne : ∃ v, v < n ∧ Touched es v) :
    ∃ r, connectivity n es sl = .ok r ∧ (∀ v, v < n → ∃ c ∈ r.islands, v ∈ c) ∧ r.islands.Pairwise List.Disjoint := by
  obtain ⟨sets, hs, hc⟩ := islands_are_components_partial n es hne
  have hne' : sets.isEmpty = false := by
    obtain ⟨v, hv, ht⟩ := hne
    obtain ⟨c, hc', _⟩ := hc.cover v hv ht
    cases sets with
    | nil => cases hc'
    | cons _ _ => rfl
  refine ⟨_, by unfold connectivity; rw [hs], ?_, ?_⟩
  · intro v hv
    simp only [islandsOf, hne', Bool.false_eq_true, if_false, List.mem_append, List.mem_map]
    by_cases ht : Touched es v
    · obtain ⟨c, hc', hvc⟩ := hc.cover v hv ht
      exact ⟨c, Or.inr hc', hvc⟩
    · exact ⟨[v], Or.inl ⟨v, mem_islanded.mpr ⟨hv, ht⟩, rfl⟩, by simp⟩
  · simp only [islandsOf, hne', Bool.false_eq_true, if_false]
    rw [List.pairwise_append]
    refine ⟨?_, hc.disjoint, ?_⟩
    · rw [List.pairwise_map]
      exact (islanded_nodup n es).imp (fun hab => by simpa [List.Disjoint] using hab)
    · intro a ha b hb j hja hjb
      obtain ⟨v, hv, rfl⟩ := List.mem_map.mp ha
      obtain ⟨s, _, _, hmem⟩ := hc.is_class b hb
      have hjv : j = v := by simpa using hja
      subst hjv
      have hnt := (mem_islanded.mp hv).2
      rcases Relation.ReflTransGen.cases_tail ((hmem j).mp hjb) with h | ⟨k, _, hk⟩
      · subst h; contradiction
      · obtain ⟨_, _, e, he, hu, h⟩ := hk
        exact hnt ⟨e, he, hu, by omega⟩

/-! ## slack classification -/

/-- island `i` is listed in `nosw_island` iff it contains no enabled slack generator, in `msw_island` iff it
contains at least two; with exactly one it is in neither list. -/
theorem slack_classification (n : Nat) (es : List Edge) (sl : List Slack) (r : Result)
    (h : connectivity n es sl = .ok r) (i : Nat) :
    (i ∈ r.nosw ↔ i < r.sets.length ∧ slackCount sl (r.sets.getD i []) = 0) ∧
    (i ∈ r.msw ↔ i < r.sets.length ∧ 2 ≤ slackCount sl (r.sets.getD i [])) ∧
    (i < r.sets.length → slackCount sl (r.sets.getD i []) = 1 → i ∉ r.nosw ∧ i ∉ r.msw) := by
  unfold connectivity at h
  split at h
  · cases h
  · injection h with h
    subst h
    dsimp only
    refine ⟨mem_noswIslands, mem_mswIslands, fun _ h1 => ⟨fun h2 => ?_, fun h2 => ?_⟩⟩
    · have := (mem_noswIslands.mp h2).2; omega
    · have := (mem_mswIslands.mp h2).2; omega

example : connectivity 4 [⟨1, 2, true⟩, ⟨0, 3, true⟩] [⟨true, 1⟩, ⟨true, 2⟩, ⟨false, 0⟩] =
    .ok ⟨[], [[0, 3], [1, 2]], [0], [1], [[0, 3], [1, 2]]⟩ := by decide +kernel

/-! ## isolated buses are neutralised -/

/-- `g_islands`: the angle and voltage residuals of every isolated bus become zero, all other residuals keep
their value. -/
theorem isolated_neutralised_g {α : Type} (zero : α) (n : Nat) (isl : List Nat) (g : List α) (i : Nat)
    (hi : i < g.length) :
    (gIslands zero n isl g).length = g.length ∧
    (gIslands zero n isl g)[i]? = some (if i ∈ isl ∨ (n ≤ i ∧ i - n ∈ isl) then zero else g[i]) :=
  ⟨gIslands_length zero n isl g, gIslands_get zero n isl g i hi⟩

/-- `j_islands` (ipadd branch): the stored pattern of `gy` is unchanged; for isolated buses the diagonal
entries (a,a) and (v,v) become `diag_eps`, the cross entries (a,v) and (v,a) become zero; every other stored
entry keeps its value. -/
theorem isolated_neutralised_gy {α : Type} (zero eps : α) (n : Nat) (isl : List Nat) (hn : ∀ b ∈ isl, b < n)
    (gy : List (Nat × Nat × α)) :
    jIslands zero eps n isl gy = gy.map fun e => (e.1, e.2.1,
      if (e.1 ∈ isl ∧ e.2.1 = e.1) ∨ (n ≤ e.1 ∧ e.1 - n ∈ isl ∧ e.2.1 = e.1) then eps
      else if (e.1 ∈ isl ∧ e.2.1 = n + e.1) ∨ (e.2.1 ∈ isl ∧ e.1 = n + e.2.1) then zero
      else e.2.2) := by
  by_cases h : isl = []
  · subst h
    simp [jIslands]
  · rw [jIslands_eq_map zero eps n isl gy h]
    apply List.map_congr_left
    intro e _
    rw [jVal_spec zero eps n isl hn]

example : jIslands "z" "e" 3 [1] [(0, 0, "k"), (1, 1, "k"), (1, 4, "k"), (4, 1, "k"), (4, 4, "k"), (2, 1, "k")]
    = [(0, 0, "k"), (1, 1, "e"), (1, 4, "z"), (4, 1, "z"), (4, 4, "e"), (2, 1, "k")] := by decide +kernel

/-! ## switching a bus off -/

/-- a device is attached to bus `b` when one of its `nsrc` bus fields names `b` -/
def Attached (nsrc b : Nat) (d : Dev) : Prop := ∃ k, k < nsrc ∧ d.buses[k]? = some b

theorem attachedB_iff (nsrc b : Nat) (d : Dev) : attachedB nsrc b d = true ↔ Attached nsrc b d := by
  simp [attachedB, Attached, List.any_eq_true]

/-- the specification on one device: idx and bus fields untouched, off iff it was off or is attached -/
theorem offIfAttached_spec (nsrc b : Nat) (d : Dev) :
    (offIfAttached nsrc b d).id = d.id ∧ (offIfAttached nsrc b d).buses = d.buses ∧
    ((offIfAttached nsrc b d).u = false ↔ d.u = false ∨ Attached nsrc b d) := by
  unfold offIfAttached
  rw [← attachedB_iff]
  by_cases h : attachedB nsrc b d = true <;> simp [h]

/-- FULL statement wanted: after `ConnMan.act` a device of a dependent group is off iff it was off or one of
its bus fields names a bus that has been switched off since the last `act`, whatever the sequence of bus
switchings and whatever the groups.  The real code violates it in two ways (counterexamples below), hence:
`hoff` — exactly one bus is recorded in `changes['off']`; `hgrp` — the idx of a dependent group are distinct.
Under these hypotheses `act` turns off exactly the attached devices, in every group AND IN EVERY MODEL of a group
(since the repair of `GroupBase.find_idx(allow_all=True)`, which reported the first model's matches only:
`find-idx-first-model-only`, fixed), and nothing else (the statuses are those of the specification function
`offIfAttached`), whether or not the subsequent connectivity check raises. -/
theorem bus_off_propagates_exactly_partial (s : CM) (b : Nat)
    (hneeded : s.needed = true) (hoff : offIdx s = [b])
    (hgrp : ∀ g ∈ s.grps, (grpIds g).Nodup) :
    (cmAct s).1.grps = s.grps.map fun g => { g with models := g.models.map fun m => m.map (offIfAttached g.nsrc b) } := by
  unfold cmAct
  simp only [hneeded, hoff, actGroups_single s.grps b hgrp, Bool.not_true, Bool.false_eq_true, if_false,
    List.isEmpty_cons]
  split <;> rfl

/-- the scenario the theorem is about, end to end: init, one `Bus.alter('u', idx, 0)`, `act` -/
def demo : CM :=
  { busIdx := [7, 8, 9], busU := [true, true, true], busu0 := [], on := [], off := [], needed := false,
    grps := [⟨2, [[⟨0, [7, 8], true⟩, ⟨1, [8, 9], true⟩]]⟩, ⟨2, []⟩, ⟨1, [[⟨0, [7], true⟩, ⟨1, [9], false⟩]]⟩] }

example : let s := runOps demo [.init, .set [0] false]
    s.needed = true ∧ offIdx s = [7] ∧ (∀ g ∈ s.grps, (grpIds g).Nodup) ∧
    (cmAct s).1.grps = [⟨2, [[⟨0, [7, 8], false⟩, ⟨1, [8, 9], true⟩]]⟩, ⟨2, []⟩, ⟨1, [[⟨0, [7], false⟩, ⟨1, [9], false⟩]]⟩] := by
  decide +kernel

/-- COUNTEREXAMPLE (defect `record-overwrites-off`): two buses switched off one after the other before
`act()`: `record` overwrites `changes['off']`, the line on the first bus (7-8 … here device 0 of group 0 is on
bus 7 only through its first field) stays in service although bus 7 is off. -/
def demo2 : CM :=
  { busIdx := [7, 8, 9, 10], busU := [true, true, true, true], busu0 := [], on := [], off := [], needed := false,
    grps := [⟨2, [[⟨0, [7, 8], true⟩, ⟨1, [9, 10], true⟩]]⟩] }

theorem record_overwrites_off :
    let s := runOps demo2 [.init, .set [0] false, .set [2] false, .act]
    s.busU = [false, true, false, true] ∧ s.needed = false ∧
    s.grps = [⟨2, [[⟨0, [7, 8], true⟩, ⟨1, [9, 10], false⟩]]⟩] := by decide +kernel

/-- the input that failed on the pinned tree (`find-idx-first-model-only`): a bus carrying devices of two models
of one group (a PV and a Slack of `StaticGen`): both are switched off now -/
def demo3 : CM :=
  { busIdx := [7, 8], busU := [true, true], busu0 := [], on := [], off := [], needed := false,
    grps := [⟨2, [[⟨0, [7, 8], true⟩]]⟩, ⟨1, [[⟨0, [7], true⟩], [⟨1, [7], true⟩]]⟩] }

theorem second_model_goes_off_witness :
    (runOps demo3 [.init, .set [0] false, .act]).grps =
      [⟨2, [[⟨0, [7, 8], false⟩]]⟩, ⟨1, [[⟨0, [7], false⟩], [⟨1, [7], false⟩]]⟩] := by decide +kernel

/-- COUNTEREXAMPLE (defect `bus-off-none-keyerror`): two buses switched off in ONE recorded change (one
`Bus.set` with two idx, or two buses with `u = 0` in the case file): `None` reaches `Group.set`, `act` raises
`KeyError` and no device is switched off. -/
theorem two_buses_at_once_key_error :
    let s := runOps demo2 [.init, .set [0, 2] false]
    (cmAct s).2 = some .keyError ∧ (cmAct s).1.grps = demo2.grps := by decide +kernel

theorem two_buses_off_in_case_file_key_error :
    (cmInit { demo2 with busU := [false, true, false, true] }).2 = some .keyError := by decide +kernel

end Andes.Island
