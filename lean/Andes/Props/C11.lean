import Andes.Proofs.PerUnit

/-!
# C11 — Per-unit conversion and parameter alteration keep both value bases consistent

Property theorems only.  Model: `Andes/Model/PerUnit.lean` (`System.calc_pu_coeff`, `NumParam.to_array /
set_pu_coeff / restore`, `Model.set / alter`, `Group.set / alter`, `as_dict(vin=True)` + `cache.df_in`, the
xlsx / json writers, `System.reset`, `_store_tf` / `Teye`), tied to `/repo` by
* `Andes/Gen/PuCoeff.lean`, the translation of the `coeffs` dictionary REGENERATED from the current source on
  every run (`coeff_matches_source` is therefore re-checked against the code as it is now), and
* the bit-exact operation-sequence correspondence of `harness/c11.py`.

All theorems are over an arbitrary field of characteristic zero (ℚ, ℝ); IEEE rounding is exercised by the
correspondence only.  Theorems named `…_partial` carry a hypothesis that excludes an input on which the
real code violates the property; each is followed by a Lean-proved counterexample on the faithful model.
-/
namespace Andes.PerUnit

variable {K : Type} [Field K]

/-! ## the coefficients -/

/-- the hand-written coefficient table of the model equals the translation of the current source, and the
dictionary order (the order in which `set_pu_coeff` is applied) is the order of `Kind.all` -/
theorem coeff_matches_source (b : Bases K) :
    coeff b .voltage = Gen.PuCoeff.c_voltage b.Sn b.Sb b.Vn b.Vb b.Vdcn b.Vdcb b.Idcn ∧
    coeff b .power = Gen.PuCoeff.c_power b.Sn b.Sb b.Vn b.Vb b.Vdcn b.Vdcb b.Idcn ∧
    coeff b .ipower = Gen.PuCoeff.c_ipower b.Sn b.Sb b.Vn b.Vb b.Vdcn b.Vdcb b.Idcn ∧
    coeff b .current = Gen.PuCoeff.c_current b.Sn b.Sb b.Vn b.Vb b.Vdcn b.Vdcb b.Idcn ∧
    coeff b .z = Gen.PuCoeff.c_z b.Sn b.Sb b.Vn b.Vb b.Vdcn b.Vdcb b.Idcn ∧
    coeff b .y = Gen.PuCoeff.c_y b.Sn b.Sb b.Vn b.Vb b.Vdcn b.Vdcb b.Idcn ∧
    coeff b .dc_voltage = Gen.PuCoeff.c_dc_voltage b.Sn b.Sb b.Vn b.Vb b.Vdcn b.Vdcb b.Idcn ∧
    coeff b .dc_current = Gen.PuCoeff.c_dc_current b.Sn b.Sb b.Vn b.Vb b.Vdcn b.Vdcb b.Idcn ∧
    coeff b .r = Gen.PuCoeff.c_r b.Sn b.Sb b.Vn b.Vb b.Vdcn b.Vdcb b.Idcn ∧
    coeff b .g = Gen.PuCoeff.c_g b.Sn b.Sb b.Vn b.Vb b.Vdcn b.Vdcb b.Idcn := by
  refine ⟨?_, ?_, ?_, ?_, ?_, ?_, ?_, ?_, ?_, ?_⟩ <;>
    simp only [coeff, Gen.PuCoeff.c_voltage, Gen.PuCoeff.c_power, Gen.PuCoeff.c_ipower, Gen.PuCoeff.c_current,
      Gen.PuCoeff.c_z, Gen.PuCoeff.c_y, Gen.PuCoeff.c_dc_voltage, Gen.PuCoeff.c_dc_current, Gen.PuCoeff.c_r,
      Gen.PuCoeff.c_g, pow_two]

theorem kinds_match_source : Kind.all.map Kind.name = Gen.PuCoeff.keys := by decide

/-- the physical base of a quantity kind for bases `S` (power), `V` (voltage), `Vdc`, `Idc`: the textbook
definitions `I = S/V`, `Z = V²/S`, `Y = S/V²`, `R = Vdc/Idc`, `G = Idc/Vdc`; an inverse-power quantity
(per-MW droop, ...) has base `1/S` -/
def physBase (S V Vdc Idc : K) : Kind → K
  | .voltage => V
  | .power => S
  | .ipower => 1 / S
  | .current => S / V
  | .z => V ^ 2 / S
  | .y => S / V ^ 2
  | .dc_voltage => Vdc
  | .dc_current => Idc
  | .r => Vdc / Idc
  | .g => Idc / Vdc

/-- device base: `Sn, Vn, Vdcn, Idcn` -/
def devBase (b : Bases K) : Kind → K := physBase b.Sn b.Vn b.Vdcn b.Idcn
/-- system / bus base: `Sb, Vb, Vdcb`, dc current base `Sb / Vdcb` -/
def sysBase (b : Bases K) : Kind → K := physBase b.Sb b.Vb b.Vdcb (b.Sb / b.Vdcb)

def Bases.Nonzero (b : Bases K) : Prop :=
  b.Sn ≠ 0 ∧ b.Sb ≠ 0 ∧ b.Vn ≠ 0 ∧ b.Vb ≠ 0 ∧ b.Vdcn ≠ 0 ∧ b.Vdcb ≠ 0 ∧ b.Idcn ≠ 0

/-- **every coefficient is the textbook ratio (device base) / (system base) of its quantity kind** -/
theorem coeff_textbook (b : Bases K) (h : b.Nonzero) (q : Kind) :
    coeff b q = devBase b q / sysBase b q := by
  obtain ⟨h1, h2, h3, h4, h5, h6, h7⟩ := h
  cases q <;> simp only [coeff, devBase, sysBase, physBase] <;> field_simp

/-- **the physical quantity is the same number on either base**: `x_sys · base_sys = x_dev · base_dev`
with `x_sys = x_dev · coeff` (ohms, MVA, kV, kA, siemens … are invariant) -/
theorem physical_invariant (b : Bases K) (h : b.Nonzero) (q : Kind) (x : K) :
    (x * coeff b q) * sysBase b q = x * devBase b q := by
  obtain ⟨h1, h2, h3, h4, h5, h6, h7⟩ := h
  cases q <;> simp only [coeff, devBase, sysBase, physBase] <;> field_simp

theorem coeff_relations (b : Bases K) (h : b.Nonzero) :
    coeff b .z * coeff b .y = 1 ∧ coeff b .power * coeff b .ipower = 1 ∧ coeff b .r * coeff b .g = 1 ∧
    coeff b .current * coeff b .voltage = coeff b .power ∧
    coeff b .z * coeff b .power = coeff b .voltage ^ 2 ∧
    coeff b .r * coeff b .dc_current = coeff b .dc_voltage := by
  obtain ⟨h1, h2, h3, h4, h5, h6, h7⟩ := h
  refine ⟨?_, ?_, ?_, ?_, ?_, ?_⟩ <;> simp only [coeff] <;> field_simp

/-- equal bases give the unit coefficient for every kind -/
theorem coeff_same_base (b : Bases K) (h : b.Nonzero) (hS : b.Sn = b.Sb) (hV : b.Vn = b.Vb)
    (hVdc : b.Vdcn = b.Vdcb) (hI : b.Idcn = b.Sb / b.Vdcb) (q : Kind) : coeff b q = 1 := by
  obtain ⟨h1, h2, h3, h4, h5, h6, h7⟩ := h
  cases q <;> simp only [coeff, hS, hV, hVdc, hI] <;> field_simp

/-- the hypotheses are satisfiable: a 900 MVA / 20 kV machine on a 100 MVA / 22 kV system -/
example : (⟨900, 100, 20, 22, 1, 1, 1⟩ : Bases ℚ).Nonzero := by
  simp [Bases.Nonzero]

example : coeff (⟨900, 100, 20, 22, 1, 1, 1⟩ : Bases ℚ) .z = 100 / 1089 := by
  simp only [coeff]; norm_num

/-! ## set-up establishes, alteration preserves `v = vin · k` -/

variable [CharZero K]
set_option linter.unusedSectionVars false

/-- `System.setup` (list2array + calc_pu_coeff) makes every entry of every parameter consistent, whatever the
raw data and the bases -/
theorem setup_establishes (m : Mdl K) (h : m.isSetup = false) : (next m .setup).Consistent := by
  have : status m (.setup : Op K) = .ok := by simp [status, h]
  simp only [next, this]
  exact doSetup_consistent m

/-- after set-up each flagged entry is `input · coefficient(kind)` with the coefficient of its device's bases,
an unflagged one is the input itself -/
theorem setup_values (k : Option K) (c : Cell K) :
    (setupCell k c).vin = c.v ∧ (setupCell k c).pu = k.getD 1 ∧ (setupCell k c).v = c.v * k.getD 1 := by
  cases k <;> simp [setupCell, one_lit]

/-- an operation other than `set` (either flavour); altering with `attr='vin'` (a value given on the system
base) additionally needs a non-zero coefficient at the altered entry -/
def opAlters (m : Mdl K) : Op K → Prop
  | .set _ _ _ _ => False
  | .gset _ _ _ _ => False
  | .alter p uid _ .vin _ => ∀ q c, m.params[p]? = some q → q.cells[uid]? = some c → c.pu ≠ 0
  | _ => True

def Admissible : Mdl K → List (Op K) → Prop
  | _, [] => True
  | m, op :: ops => opAlters m op ∧ Admissible (next m op) ops

theorem alterCell_ok (prop : Bool) (attr : Attr) (x : K) (c : Cell K) (h : attr = .vin → c.pu ≠ 0) :
    (alterCell prop attr x c).Ok := by
  cases attr <;> cases prop <;> simp [alterCell, setVCell, setVinCell, Cell.Ok]
  all_goals exact (div_mul_cancel₀ x (h rfl)).symm

theorem next_consistent (m : Mdl K) (op : Op K) (h : m.Consistent) (ha : opAlters m op) :
    (next m op).Consistent := by
  obtain ⟨hs, hp⟩ := h
  unfold next
  split
  · exact ⟨hs, hp⟩
  · cases op with
    | setup => exact doSetup_consistent m
    | alter p uid x attr g =>
      refine ⟨by simp [modelAlter, hs, modCell_isSetup], ?_⟩
      simp only [modelAlter, hs, if_true]
      refine modCell_forall (P := Cell.Ok) m p uid _ hp ?_
      intro q c hq hc
      refine alterCell_ok _ _ _ _ ?_
      intro hattr; subst hattr
      exact ha q c hq hc
    | set p uid attr x => exact absurd ha (by simp [opAlters])
    | gset p uid attr x => exact absurd ha (by simp [opAlters])
    | reset f => exact doSetup_consistent _
    | pflow => exact ⟨hs, hp⟩
    | tdsInit =>
      refine ⟨hs, ?_⟩
      intro q hq c hc
      by_cases hT : m.inTds = true
      · simp only [hT, if_true, List.mem_map] at hq
        obtain ⟨q0, hq0, rfl⟩ := hq
        by_cases htc : q0.tc = true
        · simp only [storeTfParam, htc, if_true, List.mem_map] at hc
          obtain ⟨c0, hc0, rfl⟩ := hc
          exact hp q0 hq0 c0 hc0
        · simp only [storeTfParam, htc] at hc
          exact hp q0 hq0 c hc
      · simp only [hT] at hq
        exact hp q hq c hc
    | dumpXlsx => exact ⟨hs, hp⟩
    | dumpJson => exact ⟨hs, hp⟩

/-- **`v = vin · k` is preserved by every sequence of alter / reset / set-up / power-flow / TDS-init / dump
operations** (both `attr`, through the model or the group) -/
theorem alter_invariant (ops : List (Op K)) : ∀ (m : Mdl K), m.Consistent → Admissible m ops →
    (run m ops).Consistent := by
  induction ops with
  | nil => intro m h _; exact h
  | cons op ops ih =>
    intro m h ha
    exact ih (next m op) (next_consistent m op h ha.1) ha.2

theorem next_alter (m : Mdl K) (hs : m.isSetup = true) (p uid : Nat) (x : K) (attr : Attr) (g : Bool) :
    next m (.alter p uid x attr g) = modCell m p uid (fun q => alterCell (q.tc && m.addressed) attr x) := by
  simp [next, status, hs, modelAlter]

/-- what one alteration does to the altered entry: `attr='v'`: the input becomes `x`, the system value `x·k`;
`attr='vin'`: the system value becomes `x`, the input `x/k` -/
theorem alter_updates_both (prop : Bool) (x : K) (c : Cell K) :
    (alterCell prop .v x c).vin = x ∧ (alterCell prop .v x c).v = x * c.pu ∧
    (alterCell prop .vin x c).v = x ∧ (alterCell prop .vin x c).vin = x / c.pu ∧
    (alterCell prop .v x c).pu = c.pu ∧ (alterCell prop .vin x c).pu = c.pu := by
  cases prop <;> simp [alterCell, setVCell, setVinCell]

/-- the altered entry is the addressed one and no other entry of any parameter changes -/
theorem alter_touches_only_target (m : Mdl K) (p uid : Nat) (x : K) (attr : Attr) (hs : m.isSetup = true)
    (p' uid' : Nat) (h : p' ≠ p ∨ uid' ≠ uid) :
    ((modelAlter m p uid x attr).params[p']?.bind (·.cells[uid']?)) = (m.params[p']?.bind (·.cells[uid']?)) := by
  simp only [modelAlter, hs, if_true, modCell]
  by_cases hp : p' = p
  · subst hp
    have hu : uid ≠ uid' := by rcases h with h | h; exact absurd rfl h; exact fun e => h e.symm
    rw [modAt_get_same]
    cases m.params[p']? with
    | none => rfl
    | some q => simp [modAt_get_other _ _ _ _ hu]
  · rw [modAt_get_other _ _ _ _ (fun e => hp e.symm)]

/-- `set` is shown NOT to preserve the invariant (documented: it changes one representation only) -/
theorem set_breaks_invariant :
    let m : Mdl ℚ :=
      { hasBus := false, hasBus1 := false, hasNode := false, hasNode1 := false, inPflow := true,
        inTds := false, Sb := 100, ext := [⟨1, 1, 1, 1⟩],
        params := [⟨[.power], .none, false, [⟨3, 0, 0, 0, 0⟩]⟩, ⟨[], .sn, false, [⟨200, 0, 0, 0, 0⟩]⟩],
        isSetup := false, tdsInit := false, addressed := false, cache := none }
    let m1 := run m [.setup]
    let m2 := run m [.setup, .set 0 0 .v 5]
    (m1.params.map (·.cells.map (fun c => (c.v, c.vin, c.pu)))) = [[(6, 3, 2)], [(200, 200, 1)]] ∧
    (m2.params.map (·.cells.map (fun c => (c.v, c.vin, c.pu)))) = [[(5, 3, 2)], [(200, 200, 1)]] := by
  decide +kernel

/-! ## export -/

/-- **the xlsx writer writes the input values as they are now**, after any operation history -/
theorem export_writes_vin (m : Mdl K) (hs : m.isSetup = true) :
    written m .dumpXlsx = some (m.params.map (fun p => p.cells.map (·.vin))) := by
  simp [written, exportNow, hs]

/-- hence an alteration is what a subsequent xlsx export writes: the altered entry reads `x` (`attr='v'`) -/
theorem export_after_alter (m : Mdl K) (hs : m.isSetup = true) (p uid : Nat) (x : K) (g : Bool) (q : Param K)
    (c : Cell K) (hq : m.params[p]? = some q) (hc : q.cells[uid]? = some c) :
    ∃ cols, written (next m (.alter p uid x .v g)) .dumpXlsx = some cols ∧
      (cols[p]?.bind (·[uid]?)) = some x := by
  refine ⟨_, rfl, ?_⟩
  rw [next_alter m hs]
  simp only [exportNow, modCell_isSetup, hs, if_true]
  simp only [modCell, List.getElem?_map]
  rw [modAt_get_same, hq]
  simp only [Option.map_some, Option.bind_some, List.getElem?_map]
  rw [modAt_get_same, hc]
  cases (q.tc && m.addressed) <;> simp [alterCell, setVCell, setVinCell]

/-- **the json writer writes the input values as they are now**, after any operation history (full strength
since the repair of `io.json._dump_system`, which wrote the cached `df_in` snapshot without refreshing it:
`known_findings.json`, `json-export-stale`, fixed) -/
theorem export_json (m : Mdl K) (hs : m.isSetup = true) :
    written m .dumpJson = some (m.params.map (fun p => p.cells.map (·.vin))) := by
  simp [written, exportNow, hs]

/-- both writers write the same table -/
theorem export_json_eq_xlsx (m : Mdl K) : written m .dumpJson = written m .dumpXlsx := rfl

/-- the history that failed on the pinned tree (set-up fills the cache, `alter` changes `vin` to 9.99): both
exports now write 9.99 -/
theorem json_export_after_alter_witness :
    let m : Mdl ℚ :=
      { hasBus := false, hasBus1 := false, hasNode := false, hasNode1 := false, inPflow := true,
        inTds := false, Sb := 100, ext := [⟨1, 1, 1, 1⟩],
        params := [⟨[.power], .none, false, [⟨3, 0, 0, 0, 0⟩]⟩], isSetup := false, tdsInit := false,
        addressed := false, cache := none }
    let m1 := run m [.setup, .alter 0 0 (999/100) .v false]
    m1.params.map (·.cells.map (·.vin)) = [[999/100]] ∧
    written m1 .dumpJson = some [[999/100]] ∧ written m1 .dumpXlsx = some [[999/100]] := by
  decide +kernel

/-! ## reset -/

/-- **resetting restores the input values**: after `System.reset` the inputs `vin` are what they were, and
every system-base value is recomputed from them (`v = vin · k`), so everything `set` did to `v` is discarded -/
theorem reset_restores_input (m : Mdl K) (hs : m.isSetup = true) (hr : m.tdsInit = false) (f : Bool) :
    (next m (.reset f)).Consistent ∧
    (next m (.reset f)).params.map (fun p => p.cells.map (·.vin)) = m.params.map (fun p => p.cells.map (·.vin)) := by
  have hst : status m (.reset f : Op K) = .ok := by simp [status, hs, hr]
  have hn : next m (.reset f) = doReset m := by simp [next, hst]
  rw [hn]
  refine ⟨doSetup_consistent _, ?_⟩
  simp only [doReset, doSetup, List.map_map]
  apply List.map_congr_left
  intro p _
  simp only [Function.comp, setupParam, restoreParam, setupCells_vin, List.map_map]
  rfl

/-- after a reset every entry is `input · k` with `k` the coefficient recomputed from the bases as they are
now (an altered `Sn` / `Vn` takes effect here), `k = 1` for an unflagged parameter -/
theorem reset_recomputes (m : Mdl K) (p : Param K) :
    ∀ c ∈ (setupParam m (restoreParam p)).cells, ∃ (k : Option K) (c0 : Cell K), c0 ∈ p.cells ∧
      c.vin = c0.vin ∧ c.pu = k.getD 1 ∧ c.v = c0.vin * k.getD 1 := by
  intro c hc
  obtain ⟨k, c1, hc1, rfl⟩ := mem_setupCells _ _ _ _ _ hc
  simp only [restoreParam, List.mem_map] at hc1
  obtain ⟨c0, hc0, rfl⟩ := hc1
  refine ⟨k, c0, hc0, ?_⟩
  have := setup_values k (restoreCell c0)
  simpa [restoreCell] using this

example : ∃ m : Mdl ℚ, m.isSetup = true ∧ m.tdsInit = false ∧ m.params ≠ [] :=
  ⟨{ hasBus := false, hasBus1 := false, hasNode := false, hasNode1 := false, inPflow := false, inTds := true,
     Sb := 100, ext := [], params := [⟨[], .none, false, []⟩], isSetup := true, tdsInit := false,
     addressed := false, cache := none }, rfl, rfl, by simp⟩

/-- altering a base (`Sn`) changes nothing else until the reset, after which the flagged parameter is
re-converted with the new base; a `set` in between is discarded -/
theorem reset_example :
    let m : Mdl ℚ :=
      { hasBus := false, hasBus1 := false, hasNode := false, hasNode1 := false, inPflow := true,
        inTds := false, Sb := 100, ext := [⟨1, 1, 1, 1⟩],
        params := [⟨[.power], .none, false, [⟨3, 0, 0, 0, 0⟩]⟩, ⟨[], .sn, false, [⟨200, 0, 0, 0, 0⟩]⟩],
        isSetup := false, tdsInit := false, addressed := false, cache := none }
    let m1 := run m [.setup, .alter 1 0 400 .v false, .set 0 0 .v 77]
    let m2 := run m [.setup, .alter 1 0 400 .v false, .set 0 0 .v 77, .reset false]
    (m1.params.map (·.cells.map (fun c => (c.v, c.vin, c.pu)))) = [[(77, 3, 2)], [(400, 400, 1)]] ∧
    (m2.params.map (·.cells.map (fun c => (c.v, c.vin, c.pu)))) = [[(12, 3, 4)], [(400, 400, 1)]] := by
  decide +kernel

/-- the calls that need `vin` raise before set-up and change nothing (findings
`alter-vin-before-setup-raises`, `reset-before-setup-raises`): the statement's "every sequence before
set-up" holds for `alter(attr='v')` only -/
theorem before_setup_raises (m : Mdl K) (h : m.isSetup = false) (hT : m.tdsInit = false) (p uid : Nat) (x : K)
    (g f : Bool) :
    status m (.alter p uid x .vin g) = .typeError ∧ next m (.alter p uid x .vin g) = m ∧
    status m (.reset f : Op K) = .typeError ∧ next m (.reset f) = m ∧
    status m (.alter p uid x .v g) = .ok := by
  simp [status, next, h, hT]

/-- before set-up `alter(attr='v')` stores the input value, and set-up then converts it -/
theorem alter_before_setup (m : Mdl K) (h : m.isSetup = false) (ha : m.addressed = false) (p uid : Nat) (x : K)
    (g : Bool) :
    next m (.alter p uid x .v g) = modCell m p uid (fun _ c => { c with v := x }) := by
  simp only [next, status, h, modelAlter, modelSet, ha]
  simp only [Bool.not_false, Bool.true_and, Bool.and_false]
  have : (Attr.v == Attr.vin) = false := rfl
  simp only [this, Bool.false_eq_true, if_false, bne_self_eq_false]
  rfl

/-! ## time constants -/

theorem setVCell_tf (x : K) (c : Cell K) : (setVCell true x c).TfOk := by simp [setVCell, Cell.TfOk]

theorem next_tfInv (m : Mdl K) (op : Op K) (h : m.TfInv) : (next m op).TfInv := by
  obtain ⟨h1, h2⟩ := h
  unfold next
  split
  · exact ⟨h1, h2⟩
  · rename_i hst
    cases op with
    | setup =>
      -- only reachable when not set up, hence not addressed
      have hs : m.isSetup = false := by
        by_contra hc; simp [status, hc] at hst
      have ha : m.addressed = false := by
        by_contra hc; simp [h1 (by simpa using hc)] at hs
      exact ⟨fun _ => rfl, fun hc => by simp [doSetup, ha] at hc⟩
    | alter p uid x attr g =>
      by_cases hs : m.isSetup = true
      · simp only [modelAlter, hs, if_true]
        refine ⟨fun hc => hs, fun hc => ?_⟩
        have ha : m.addressed = true := hc
        refine modCell_forall_tc (P := Cell.TfOk) m p uid _ (h2 ha) ?_
        intro q c _ htc _
        cases attr <;> simp [alterCell, htc, ha, setVCell, Cell.TfOk]
      · have ha : m.addressed = false := by
          by_contra hc; exact hs (h1 (by simpa using hc))
        refine ⟨fun hc => ?_, fun hc => ?_⟩
        · cases attr <;> simp [modelAlter, hs, modelSet, modCell, ha] at hc
        · cases attr <;> simp [modelAlter, hs, modelSet, modCell, ha] at hc
    | set p uid attr x =>
      cases attr with
      | v =>
        refine ⟨h1, fun hc => ?_⟩
        have ha : m.addressed = true := hc
        refine modCell_forall_tc (P := Cell.TfOk) m p uid _ (h2 ha) ?_
        intro q c _ htc _
        simp [htc, ha, setVCell, Cell.TfOk]
      | vin =>
        refine ⟨h1, fun hc => ?_⟩
        have ha : m.addressed = true := hc
        refine modCell_forall_tc (P := Cell.TfOk) m p uid _ (h2 ha) ?_
        intro q c hq htc hcell
        have := h2 ha q (List.mem_of_getElem? hq) htc c (List.mem_of_getElem? hcell)
        simpa [setVinCell, Cell.TfOk] using this
    | gset p uid attr x =>
      cases attr with
      | v =>
        refine ⟨h1, fun hc => ?_⟩
        have ha : m.addressed = true := hc
        refine modCell_forall_tc (P := Cell.TfOk) m p uid _ (h2 ha) ?_
        intro q c _ htc _
        simp [htc, ha, setVCell, Cell.TfOk]
      | vin =>
        refine ⟨h1, fun hc => ?_⟩
        have ha : m.addressed = true := hc
        refine modCell_forall_tc (P := Cell.TfOk) m p uid _ (h2 ha) ?_
        intro q c hq htc hcell
        have := h2 ha q (List.mem_of_getElem? hq) htc c (List.mem_of_getElem? hcell)
        simpa [setVinCell, Cell.TfOk] using this
    | reset f => exact ⟨fun _ => rfl, fun hc => by simp [doReset, doSetup] at hc⟩
    | pflow => exact ⟨h1, h2⟩
    | tdsInit =>
      have hT : m.tdsInit = false := by
        cases hT : m.tdsInit
        · rfl
        · simp [status, hT] at hst
      have hs : m.isSetup = true := by
        cases hs : m.isSetup
        · simp [status, hT, hs] at hst
        · rfl
      refine ⟨fun _ => hs, fun hc => ?_⟩
      have hin : m.inTds = true := hc
      intro q hq htc c hcell
      simp only [hin, if_true, List.mem_map] at hq
      obtain ⟨q0, _, rfl⟩ := hq
      by_cases h0 : q0.tc = true
      · simp only [storeTfParam, h0, if_true, List.mem_map] at hcell
        obtain ⟨c0, _, rfl⟩ := hcell
        exact ⟨rfl, rfl⟩
      · simp [storeTfParam, h0] at htc
    | dumpXlsx => exact ⟨h1, h2⟩
    | dumpJson => exact ⟨h1, h2⟩

/-- **a time constant altered through `alter` or `set` — of the model or of its group — is what `dae.Tf` and the mass
matrix `Teye` hold**, after EVERY operation sequence (full strength since the repair of `Group.set`, which assigned
the array element directly: finding `group-set-skips-tf`) -/
theorem time_constant_propagates (ops : List (Op K)) : ∀ (m : Mdl K), m.TfInv → (run m ops).TfInv := by
  induction ops with
  | nil => intro m h; exact h
  | cons op ops ih =>
    intro m h
    exact ih (next m op) (next_tfInv m op h)

/-- the invariant holds initially (nothing is addressed before TDS initialisation) -/
theorem tfInv_initial (m : Mdl K) (h : m.addressed = false) : m.TfInv :=
  ⟨fun hc => by simp [h] at hc, fun hc => by simp [h] at hc⟩

/-- the history that failed on the pinned tree (`group-set-skips-tf`): after TDS initialisation
`Group.set('M', idx, 'v', 60)` now reaches `dae.Tf` / `Teye` like `Model.set` and `alter` do (they kept 12). -/
theorem group_set_reaches_tf_witness :
    let m : Mdl ℚ :=
      { hasBus := false, hasBus1 := false, hasNode := false, hasNode1 := false, inPflow := false,
        inTds := true, Sb := 100, ext := [⟨1, 1, 1, 1⟩, ⟨1, 1, 1, 1⟩, ⟨1, 1, 1, 1⟩],
        params := [⟨[.power], .none, true, [⟨6, 0, 0, 0, 0⟩, ⟨6, 0, 0, 0, 0⟩, ⟨6, 0, 0, 0, 0⟩]⟩,
                   ⟨[], .sn, false, [⟨200, 0, 0, 0, 0⟩, ⟨200, 0, 0, 0, 0⟩, ⟨200, 0, 0, 0, 0⟩]⟩],
        isSetup := false, tdsInit := false, addressed := false, cache := none }
    let m1 := run m [.setup, .pflow, .tdsInit, .gset 0 0 .v 60, .set 0 1 .v 50, .alter 0 2 7 .v true]
    m1.addressed = true ∧
    (m1.params.head?.map (·.cells.map (fun c => (c.v, c.tf, c.teye)))) =
      some [(60, 60, 60), (50, 50, 50), (14, 14, 14)] := by
  decide +kernel

/-- a small concrete system used for the non-vacuity examples: one machine-like model class with two
devices, a power-flagged time constant `M`, and the base parameter `Sn` -/
def demo : Mdl ℚ :=
  { hasBus := false, hasBus1 := false, hasNode := false, hasNode1 := false, inPflow := false,
    inTds := true, Sb := 100, ext := [⟨1, 1, 1, 1⟩, ⟨1, 1, 1, 1⟩],
    params := [⟨[.power], .none, true, [⟨6, 0, 0, 0, 0⟩, ⟨5, 0, 0, 0, 0⟩]⟩,
               ⟨[], .sn, false, [⟨200, 0, 0, 0, 0⟩, ⟨900, 0, 0, 0, 0⟩]⟩],
    isSetup := false, tdsInit := false, addressed := false, cache := none }

/-- the hypotheses of `alter_invariant` are satisfiable on a non-trivial run: set-up, then both flavours of
`alter` (the `attr='vin'` one at an entry whose coefficient is 2) -/
example : (next demo .setup).Consistent ∧
    Admissible (next demo .setup) [.alter 0 0 7 .v true, .alter 0 0 30 .vin false, .pflow] := by
  refine ⟨setup_establishes demo rfl, trivial, ?_, trivial, trivial⟩
  intro q c hq hc
  have h1 : q.cells.map (·.pu) = [2, 9] := by
    have : (next (next demo .setup) (.alter 0 0 7 .v true)).params[0]?.map (·.cells.map (·.pu)) = some [2, 9] := by
      decide +kernel
    rw [hq] at this
    simpa using this
  have h2 : (q.cells.map (·.pu))[0]? = some c.pu := by simp [hc]
  rw [h1] at h2
  have : c.pu = 2 := by simpa using h2.symm
  rw [this]; norm_num

/-- ... and what that run computes -/
example : ((run demo [.setup, .alter 0 0 7 .v true, .alter 0 1 30 .vin false]).params.head?.map
    (·.cells.map (fun c => (c.v, c.vin, c.pu)))) = some [(14, 7, 2), (30, 10/3, 9)] := by
  decide +kernel

/-- the hypothesis of `time_constant_propagates` is satisfiable -/
example : demo.TfInv := tfInv_initial demo rfl

example : let m1 := run demo [.setup, .pflow, .tdsInit, .alter 0 1 3 .v true, .set 0 0 .v 4]
    m1.addressed = true ∧
    (m1.params.head?.map (·.cells.map (fun c => (c.v, c.tf, c.teye)))) = some [(4, 4, 4), (27, 27, 27)] := by
  decide +kernel

end Andes.PerUnit
