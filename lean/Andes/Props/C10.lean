import Andes.Proofs.Address

/-!
# C10 — Variable addressing is a bijection and external links follow device indices

Property theorems only.  Model: `Andes/Model/Address.lean` (`DAE.request_address`, the three phases of
`System.set_address`, `ExtVar.link_external` in its model and group branch, `Model.get` / `Group.get`,
`set_dae_names` / `_set_xy_name` / `_append_model_name`, the addressing parts of `System.setup` and `TDS.init`,
`set_output_subidx`), tied to `/repo` by the exact correspondence of `harness/c10.py`.

`sel` is membership in the `models` dict handed to `set_address` (any predicate on the static data of a model);
the lists of models, their device counts (0 included), variable counts and collate flags are arbitrary.
-/
namespace Andes.Address

/-- a system in which nothing has been addressed yet (what `System.__init__` / `add` leave behind) -/
def Pristine (s : Sys) : Prop :=
  s.dae.n = 0 ∧ s.dae.m = 0 ∧ ∀ m ∈ s.models, m.addressed = false ∧ m.xa = [] ∧ m.ya = []

theorem pristine_inv (s : Sys) (h : Pristine s) : Inv s := by
  obtain ⟨hn, hm, hall⟩ := h
  have hx : xAddrs s.models = [] := by
    unfold xAddrs; rw [List.flatMap_eq_nil_iff]; intro m hm'; rw [(hall m hm').2.1]; rfl
  have hy : yAddrs s.models = [] := by
    unfold yAddrs; rw [List.flatMap_eq_nil_iff]; intro m hm'; rw [(hall m hm').2.2]; rfl
  refine ⟨by rw [hx, hn]; simp, by rw [hy, hm]; simp, fun m hm' _ => (hall m hm').2, ?_⟩
  intro m hm' had
  rw [(hall m hm').1] at had; cases had

end Andes.Address
