import Andes.Proofs.Address

/-!
# C10 — Variable addressing is a bijection and external links follow device indices

Property theorems only.  Model: `Andes/Model/Address.lean` (`DAE.request_address`, the three phases of
`System.set_address`, `ExtVar.link_external` in its model and group branch, `Model.get` / `Group.get`,
`set_dae_names` / `_set_xy_name` / `_append_model_name`, the addressing parts of `System.setup` and `TDS.init`,
`set_output_subidx`), tied to `/repo` by the exact correspondence of `harness/c10.py`.

`sel` is membership in the `models` dict handed to `set_address` (any predicate on the static data of a model);
the lists of models, their device counts (0 included), variable counts and collate flags are arbitrary.
-/
namespace Andes.Address

/-- a system in which nothing has been addressed yet (what `System.__init__` / `add` leave behind) -/
def Pristine (s : Sys) : Prop :=
  s.dae.n = 0 ∧ s.dae.m = 0 ∧ ∀ m ∈ s.models, m.addressed = false ∧ m.xa = [] ∧ m.ya = []

theorem pristine_inv (s : Sys) (h : Pristine s) : Inv s := by
  obtain ⟨hn, hm, hall⟩ := h
  have hx : xAddrs s.models = [] := by
    unfold xAddrs; rw [List.flatMap_eq_nil_iff]; intro m hm'; rw [(hall m hm').2.1]; rfl
  have hy : yAddrs s.models = [] := by
    unfold yAddrs; rw [List.flatMap_eq_nil_iff]; intro m hm'; rw [(hall m hm').2.2]; rfl
  refine ⟨by rw [hx, hn]; simp, by rw [hy, hm]; simp, fun m hm' _ => (hall m hm').2, ?_⟩
  intro m hm' had
  rw [(hall m hm').1] at had; cases had

/-! ### `DAE.request_address` -/

/-- **The `nvar` arrays returned by `request_address` partition `[b, b + ndev·nvar)`**: there are `nvar` of them,
each of length `ndev`; entry `(k, d)` is `b + k·ndev + d` (contiguous) or `b + d·nvar + k` (collated); together
they are a permutation of the block.  All counts may be 0. -/
theorem request_address_blocks (b ndev nvar : Nat) (collate : Bool) :
    (requestAddress b ndev nvar collate).length = nvar ∧
    (∀ l ∈ requestAddress b ndev nvar collate, l.length = ndev) ∧
    (∀ k d, k < nvar → d < ndev →
      ((requestAddress b ndev nvar collate)[k]?).bind (fun l => l[d]?) =
        some (if collate then b + (d * nvar + k) else b + (k * ndev + d))) ∧
    (requestAddress b ndev nvar collate).flatten.Perm (List.range' b (ndev * nvar)) :=
  ⟨requestAddress_length _ _ _ _, requestAddress_inner_length _ _ _ _,
   fun k d hk hd => requestAddress_get b ndev nvar collate k d hk hd, requestAddress_flatten_perm _ _ _ _⟩

example : requestAddress 10 3 2 false = [[10, 11, 12], [13, 14, 15]] := by decide +kernel
example : requestAddress 10 3 2 true = [[10, 12, 14], [11, 13, 15]] := by decide +kernel
example : requestAddress 10 0 2 true = [[], []] ∧ requestAddress 10 3 0 false = [] := by decide +kernel

/-! ### The address map is a bijection -/

/-- the statement of the property for one system state: the map `(model, variable, device) ↦ address` is
injective, its image is `[0, dae.n)` resp. `[0, dae.m)`, and every internal variable of every device of an
addressed model has an address -/
structure Bijective (s : Sys) : Prop where
  x_inj : ∀ mi vi di mi' vi' di' a, xAddr s.models mi vi di = some a → xAddr s.models mi' vi' di' = some a →
    mi = mi' ∧ vi = vi' ∧ di = di'
  x_range : ∀ mi vi di a, xAddr s.models mi vi di = some a → a < s.dae.n
  x_surj : ∀ a, a < s.dae.n → ∃ mi vi di, xAddr s.models mi vi di = some a
  y_inj : ∀ mi vi di mi' vi' di' a, yAddr s.models mi vi di = some a → yAddr s.models mi' vi' di' = some a →
    mi = mi' ∧ vi = vi' ∧ di = di'
  y_range : ∀ mi vi di a, yAddr s.models mi vi di = some a → a < s.dae.m
  y_surj : ∀ a, a < s.dae.m → ∃ mi vi di, yAddr s.models mi vi di = some a
  x_total : ∀ mi m, s.models[mi]? = some m → m.addressed = true → ∀ vi di, vi < m.states.length →
    di < m.idx.length → ∃ a, xAddr s.models mi vi di = some a
  y_total : ∀ mi m, s.models[mi]? = some m → m.addressed = true → ∀ vi di, vi < m.algebs.length →
    di < m.idx.length → ∃ a, yAddr s.models mi vi di = some a

theorem inv_bijective (s : Sys) (hI : Inv s) : Bijective s := by
  have hxn : (xAddrs s.models).Nodup := (hI.xperm.nodup_iff).mpr List.nodup_range
  have hyn : (yAddrs s.models).Nodup := (hI.yperm.nodup_iff).mpr List.nodup_range
  refine ⟨xAddr_inj _ hxn, ?_, ?_, yAddr_inj _ hyn, ?_, ?_, ?_, ?_⟩
  · intro mi vi di a h
    exact List.mem_range.mp ((hI.xperm.mem_iff).mp (mem_of_xAddr _ _ _ _ _ h))
  · intro a ha
    exact xAddr_of_mem _ a ((hI.xperm.mem_iff).mpr (List.mem_range.mpr ha))
  · intro mi vi di a h
    exact List.mem_range.mp ((hI.yperm.mem_iff).mp (mem_of_yAddr _ _ _ _ _ h))
  · intro a ha
    exact yAddr_of_mem _ a ((hI.yperm.mem_iff).mpr (List.mem_range.mpr ha))
  · intro mi m hm had vi di hvi hdi
    obtain ⟨h1, h2, _, _⟩ := hI.shape m (List.mem_of_getElem? hm) had
    have hv : vi < m.xa.length := by omega
    have hd : di < (m.xa[vi]).length := by rw [h2 _ (List.getElem_mem hv)]; exact hdi
    exact ⟨(m.xa[vi])[di], by simp [xAddr, hm, hv, hd]⟩
  · intro mi m hm had vi di hvi hdi
    obtain ⟨_, _, h1, h2⟩ := hI.shape m (List.mem_of_getElem? hm) had
    have hv : vi < m.ya.length := by omega
    have hd : di < (m.ya[vi]).length := by rw [h2 _ (List.getElem_mem hv)]; exact hdi
    exact ⟨(m.ya[vi])[di], by simp [yAddr, hm, hv, hd]⟩

/-- **After `set_address ms` on a freshly built system — for any list of models, any device counts (0 included),
any variable counts, any collate flags and any `models` dict — the addressing is a bijection onto
`[0, dae.n)` / `[0, dae.m)`**; the models that end up addressed are exactly those in the dict that have devices. -/
theorem addresses_bijective (sel : Mdl → Bool) (hs : SelStatic sel) (s : Sys) (h : Pristine s) :
    Bijective (setAddress sel s) ∧
    ∀ (i : Nat) (md : Mdl), s.models[i]? = some md → ∃ md' : Mdl, (setAddress sel s).models[i]? = some md' ∧
      md'.addressed = (sel md && md.idx.length != 0) := by
  refine ⟨inv_bijective _ (setAddress_inv sel hs s (pristine_inv s h)), ?_⟩
  intro i md hmd
  obtain ⟨md', h1, _, ad, _, _⟩ := setAddress_getElem? sel hs s i md hmd
  refine ⟨md', h1, ?_⟩
  have := (h.2.2 md (List.mem_of_getElem? hmd)).1
  rw [ad, this]; simp [needs, this]

/-- the same after any number of further `set_address` calls with any dicts (in particular the call of
`TDS.init` with `exist.pflow_tds`) -/
theorem addresses_bijective_again (sel : Mdl → Bool) (hs : SelStatic sel) (s : Sys) (hI : Inv s) :
    Inv (setAddress sel s) ∧ Bijective (setAddress sel s) :=
  ⟨setAddress_inv sel hs s hI, inv_bijective _ (setAddress_inv sel hs s hI)⟩

theorem selPflow_static : SelStatic selPflow := by
  intro a b h; unfold selPflow hasDev; rw [h.idx, h.inUse, h.pflow]
theorem selTds_static : SelStatic selTds := by
  intro a b h; unfold selTds hasDev; rw [h.idx, h.inUse, h.tds]
theorem selPflowTds_static : SelStatic selPflowTds := by
  intro a b h; unfold selPflowTds hasDev; rw [h.idx, h.inUse, h.tds, h.pflow]

/-- `set_dae_names` does not touch addresses -/
theorem setNames_inv (sel : Mdl → Bool) (s : Sys) (hI : Inv s) : Inv (setNames sel s) :=
  ⟨hI.xperm, hI.yperm, hI.fresh, hI.shape⟩

/-- **Both addressing phases of a simulation (set-up, then `TDS.init`) leave a bijection** -/
theorem both_phases_bijective (s : Sys) (h : Pristine s) :
    Bijective (setupPhase s) ∧ Bijective (tdsPhase (setupPhase s)) := by
  have h1 : Inv (setupPhase s) := setNames_inv _ _ (setAddress_inv _ selPflow_static s (pristine_inv s h))
  have h2 : Inv (tdsPhase (setupPhase s)) := setNames_inv _ _ (setAddress_inv _ selPflowTds_static _ h1)
  exact ⟨inv_bijective _ h1, inv_bijective _ h2⟩

/-- **A later `set_address` keeps every old address and fills exactly `[n_old, n_new)` / `[m_old, m_new)`**:
the address arrays of the models that were addressed before are unchanged, and the multiset of all addresses
grows by exactly the new block. -/
theorem second_phase_extends (sel : Mdl → Bool) (hs : SelStatic sel) (s : Sys) (hI : Inv s) :
    (∀ (i : Nat) (md : Mdl), s.models[i]? = some md → md.addressed = true →
      ∃ md' : Mdl, (setAddress sel s).models[i]? = some md' ∧ md'.xa = md.xa ∧ md'.ya = md.ya ∧ md'.addressed = true) ∧
    s.dae.n ≤ (setAddress sel s).dae.n ∧ s.dae.m ≤ (setAddress sel s).dae.m ∧
    (xAddrs (setAddress sel s).models).Perm
      (xAddrs s.models ++ List.range' s.dae.n ((setAddress sel s).dae.n - s.dae.n)) ∧
    (yAddrs (setAddress sel s).models).Perm
      (yAddrs s.models ++ List.range' s.dae.m ((setAddress sel s).dae.m - s.dae.m)) := by
  refine ⟨?_, countX_ge sel s.models s.dae.n, countY_ge sel s.models s.dae.m, setAddress_xperm sel s hI,
    setAddress_yperm sel s hI⟩
  intro i md hmd had
  obtain ⟨md', h1, _, ad, keep, _⟩ := setAddress_getElem? sel hs s i md hmd
  have hn : needs sel md = false := by simp [needs, had]
  obtain ⟨k1, k2⟩ := keep hn
  exact ⟨md', h1, k1, k2, by rw [ad, had]; rfl⟩

/-! ### Names -/

/-- names have been allocated for every slot -/
def NamesOk (s : Sys) : Prop := s.dae.xName.length = s.dae.n ∧ s.dae.yName.length = s.dae.m

theorem setAddress_namesOk (sel : Mdl → Bool) (s : Sys) (h : NamesOk s) : NamesOk (setAddress sel s) := by
  have h1 := countX_ge sel s.models s.dae.n
  have h2 := countY_ge sel s.models s.dae.m
  unfold NamesOk setAddress extendNames
  simp only [List.length_append, List.length_replicate]
  rw [h.1, h.2]; omega

/-- **The name recorded for a slot is `"<var> <Model> <idx>"` of its owner**: after `set_dae_names models`, for
every model in the dict, the name stored at the address of (variable, device) is that variable of that device;
the names of all other slots are what they were. -/
theorem names_match_owner (sel : Mdl → Bool) (s : Sys) (hI : Inv s) (hN : NamesOk s) :
    (∀ m ∈ s.models, sel m = true →
      (∀ kv ∈ m.xSlots, (setNames sel s).dae.xName[kv.1]? = some kv.2) ∧
      (∀ kv ∈ m.ySlots, (setNames sel s).dae.yName[kv.1]? = some kv.2)) ∧
    (∀ a, a ∉ ((s.models.filter sel).flatMap Mdl.xSlots).map Prod.fst →
      (setNames sel s).dae.xName[a]? = s.dae.xName[a]?) ∧
    (∀ a, a ∉ ((s.models.filter sel).flatMap Mdl.ySlots).map Prod.fst →
      (setNames sel s).dae.yName[a]? = s.dae.yName[a]?) := by
  have hxn : (xAddrs s.models).Nodup := (hI.xperm.nodup_iff).mpr List.nodup_range
  have hyn : (yAddrs s.models).Nodup := (hI.yperm.nodup_iff).mpr List.nodup_range
  have kx := modelSlots_keys_sublist sel s.models
  have ky := modelSlots_keys_sublist_y sel s.models
  refine ⟨?_, fun a ha => writeNames_other _ _ a ha, fun a ha => writeNames_other _ _ a ha⟩
  intro m hm hsel
  constructor
  · intro kv hkv
    have hmem : kv ∈ (s.models.filter sel).flatMap Mdl.xSlots :=
      List.mem_flatMap.mpr ⟨m, List.mem_filter.mpr ⟨hm, hsel⟩, hkv⟩
    apply writeNames_get _ _ (hxn.sublist kx) kv hmem
    have : kv.1 ∈ xAddrs s.models := kx.subset (List.mem_map.mpr ⟨kv, hmem, rfl⟩)
    rw [hN.1]; exact List.mem_range.mp ((hI.xperm.mem_iff).mp this)
  · intro kv hkv
    have hmem : kv ∈ (s.models.filter sel).flatMap Mdl.ySlots :=
      List.mem_flatMap.mpr ⟨m, List.mem_filter.mpr ⟨hm, hsel⟩, hkv⟩
    apply writeNames_get _ _ (hyn.sublist ky) kv hmem
    have : kv.1 ∈ yAddrs s.models := ky.subset (List.mem_map.mpr ⟨kv, hmem, rfl⟩)
    rw [hN.2]; exact List.mem_range.mp ((hI.yperm.mem_iff).mp this)

/-- the pair written for (variable `vi`, device `di`) of a model really is (its address, its name) -/
theorem slot_of_owner (m : Mdl) (vi di a : Nat) (v : String) (i : Idx) (l : List Nat)
    (hv : m.states[vi]? = some v) (hl : m.xa[vi]? = some l) (hi : m.idx[di]? = some i) (ha : l[di]? = some a) :
    (a, slotName v m.name i) ∈ m.xSlots := by
  unfold Mdl.xSlots slotsOfVars
  rw [List.mem_flatMap]
  refine ⟨(v, l), ?_, ?_⟩
  · exact List.mem_iff_getElem?.mpr ⟨vi, by simp [List.getElem?_zip_eq_some, hv, hl]⟩
  · rw [List.mem_map]
    exact ⟨(i, a), List.mem_iff_getElem?.mpr ⟨di, by simp [List.getElem?_zip_eq_some, hi, ha]⟩, rfl⟩

/-! ### External links follow the index field -/

/-- **`Model.get(src, idx, 'a')`** returns, position by position, the address of `src` at the device whose idx is
given (`uid` = position of that idx in the model's idx list) -/
theorem model_get_follows_idx (m : Mdl) (k : Bool) (src : String) (idxs : List (Option Idx)) (as : List Nat)
    (h : modelGetA m k src idxs = some as) :
    as.length = idxs.length ∧
    ∀ (j : Nat) (i : Idx), idxs[j]? = some (some i) → ∃ (arr : List Nat) (u a : Nat), m.varA k src = some arr ∧ uidOf m.idx i = some u ∧
      m.idx[u]? = some i ∧ arr[u]? = some a ∧ as[j]? = some a := by
  refine ⟨mapM_length _ _ _ h, ?_⟩
  intro j i hj
  obtain ⟨a, ha, hf⟩ := mapM_get _ _ _ h j (some i) hj
  simp only [Mdl.addrOf] at hf
  cases hv : m.varA k src with
  | none => rw [hv] at hf; simp at hf
  | some arr =>
    cases hu : uidOf m.idx i with
    | none => rw [hv, hu] at hf; simp at hf
    | some u =>
      rw [hv, hu] at hf
      exact ⟨arr, u, a, rfl, rfl, uidOf_get _ _ _ hu, hf, ha⟩

/-- **`ExtVar.link_external`, model branch and group branch: `a_k = src.a[uid(indexer_k)]` of the device named
by the index field** (in the group branch: of the member model that owns that idx) -/
theorem extvar_follows_idx (ms : List Mdl) (e : ExtVar) (idxs : List (Option Idx)) (as : List Nat)
    (hix : e.indexer = some idxs) (h : linkA ms e = some as) :
    as.length = idxs.length ∧
    ∀ (j : Nat) (i : Idx), idxs[j]? = some (some i) →
      ∃ owner : Mdl, (findModel ms e.target = some owner ∨
                      (findModel ms e.target = none ∧ groupOwner ms e.target i = some owner)) ∧
        ∃ (u a : Nat), uidOf owner.idx i = some u ∧ owner.idx[u]? = some i ∧ owner.addrOf e.isState e.src i = some a ∧
          as[j]? = some a := by
  unfold linkA at h
  rw [hix] at h
  cases hm : findModel ms e.target with
  | some m =>
    rw [hm] at h
    simp only at h
    obtain ⟨hlen, hall⟩ := model_get_follows_idx m e.isState e.src idxs as h
    refine ⟨hlen, ?_⟩
    intro j i hj
    obtain ⟨arr, u, a, hv, hu, hiu, hau, haj⟩ := hall j i hj
    exact ⟨m, Or.inl rfl, u, a, hu, hiu, by simp [Mdl.addrOf, hv, hu, hau], haj⟩
  | none =>
    rw [hm] at h
    simp only at h
    refine ⟨mapM_length _ _ _ h, ?_⟩
    intro j i hj
    obtain ⟨a, ha, hf⟩ := mapM_get _ _ _ h j (some i) hj
    simp only [Option.bind_eq_some_iff] at hf
    obtain ⟨owner, ho, hadr⟩ := hf
    have hu : (uidOf owner.idx i).isSome = true := by
      have := List.find?_some ho
      simp only [Bool.and_eq_true] at this
      exact this.2
    obtain ⟨u, hu'⟩ := Option.isSome_iff_exists.mp hu
    exact ⟨owner, Or.inr ⟨rfl, ho⟩, u, a, hu', uidOf_get _ _ _ hu', hadr, ha⟩

/-- **A value read through the model, through its group, or through the global vector is the same number**: for a
device `i` of model `m` (a member of group `g` in which idx are unique), `Model.get` and `Group.get` return the
same address, so reading `x` there gives the same value -/
theorem get_consistent {α : Type} (x : Nat → α) (ms : List Mdl) (g : String) (m : Mdl) (k : Bool) (src : String)
    (i : Idx) (allowNone : Bool) (ho : groupOwner ms g i = some m) :
    groupGetA ms g k src allowNone [some i] = modelGetA m k src [some i] ∧
    (groupGetA ms g k src allowNone [some i]).map (List.map x) = (modelGetA m k src [some i]).map (List.map x) := by
  have : groupGetA ms g k src allowNone [some i] = modelGetA m k src [some i] := by
    simp [groupGetA, modelGetA, ho]
  exact ⟨this, by rw [this]⟩

/-! ### Borrowed index fields (`ExtParam` through a group, `DataSelect`): partial, with counterexamples -/

/-- `_partial`: the index fields borrowed through `Group.get` are the index fields of the named devices
**provided they are all numbers or the first one is a string**.  Full statement (false, see the two
counterexamples below): `∀ vals, groupGetIdxVals vals = some vals`. -/
theorem borrowed_idx_follows_partial (vals : List Idx)
    (h : (∀ v ∈ vals, ∃ k, v = Idx.num k) ∨ (∃ s rest, vals = Idx.str s :: rest)) :
    groupGetIdxVals vals = some vals := by
  rcases h with h | ⟨s, rest, rfl⟩
  · have hm : ∀ l : List Idx, (∀ v ∈ l, ∃ k, v = Idx.num k) → l.mapM coerceNum = some l := by
      intro l
      induction l with
      | nil => intro _; rfl
      | cons a l ih =>
        intro hl
        obtain ⟨k, rfl⟩ := hl a List.mem_cons_self
        rw [List.mapM_cons, ih (fun v hv => hl v (List.mem_cons_of_mem _ hv))]
        rfl
    cases vals with
    | nil => rfl
    | cons a l =>
      obtain ⟨k, rfl⟩ := h a List.mem_cons_self
      exact hm _ h
  · rfl

example : (∀ v ∈ [Idx.num 3, Idx.num 7], ∃ k, v = Idx.num k) := by
  intro v hv; simp at hv; rcases hv with rfl | rfl <;> exact ⟨_, rfl⟩

/-- **Counterexample (finding `group-get-mixed-idx-types`)**: numeric first, then a string idx: `ValueError` -/
theorem group_get_mixed_types_raises : groupGetIdxVals [Idx.num 1, Idx.str "Bus_2"] = none := by decide +kernel

/-- **Counterexample (finding `group-get-coerces-numeric-string`)**: the digit-string idx `"7"` is turned into the
number 7; among the devices `[3, "7", 7]` the borrowed index now names device 2 instead of device 1 -/
theorem group_get_numeric_string_names_other_device :
    groupGetIdxVals [Idx.num 3, Idx.str "7"] = some [Idx.num 3, Idx.num 7] ∧
    uidOf [Idx.num 3, Idx.str "7", Idx.num 7] (Idx.str "7") = some 1 ∧
    uidOf [Idx.num 3, Idx.str "7", Idx.num 7] (Idx.num 7) = some 2 := by decide +kernel

/-- **`DataSelect` on index fields returns the optional value where given, else the fallback** — numbers and strings
alike (full strength since the repair of `dataselect-string-idx`: `np.isnan` was applied to every given value and a
string idx raised `TypeError`). -/
theorem dataselect_follows (opt fb : List (Option Idx)) :
    dataSelect opt fb = some ((opt.zip fb).map (fun p => match p.1 with | none => p.2 | some v => some v)) := rfl

/-- the input that failed on the pinned tree: a string idx in an optional index field is a given value -/
theorem dataselect_string_idx_witness :
    dataSelect [none, some (Idx.str "Bus_3")] [some (Idx.num 1), some (Idx.num 2)]
      = some [some (Idx.num 1), some (Idx.str "Bus_3")] := by decide +kernel

/-! ### Non-vacuity: a concrete system through both phases -/

def demoBus : Mdl :=
  { name := "Bus", group := "ACTopology", pflow := true, tds := false, collate := false,
    idx := [.num 1, .str "B_2", .num 7], states := [], algebs := ["a", "v"], exts := [] }
def demoPQ : Mdl :=
  { name := "PQ", group := "StaticLoad", pflow := true, tds := true, collate := false, idx := [], states := [],
    algebs := [], exts := [] }
def demoGen : Mdl :=
  { name := "GENCLS", group := "SynGen", pflow := false, tds := true, collate := true,
    idx := [.str "GENCLS_1", .num 2], states := ["delta", "omega"], algebs := ["Id"],
    exts := [{ name := "v", isState := false, target := "Bus", src := "v", hasE := true, allowNone := false,
               indexer := some [some (.num 7), some (.str "B_2")] }] }
def demoGov : Mdl :=
  { name := "TGOV1", group := "TurbineGov", pflow := false, tds := true, collate := false, idx := [.num 1],
    states := ["LAG_y"], algebs := [],
    exts := [{ name := "omega", isState := true, target := "SynGen", src := "omega", hasE := false,
               allowNone := false, indexer := some [some (.num 2)] }] }
def demoSys : Sys := { models := [demoBus, demoPQ, demoGen, demoGov] }

example : Pristine demoSys := by
  refine ⟨rfl, rfl, ?_⟩
  intro m hm
  simp [demoSys] at hm
  rcases hm with rfl | rfl | rfl | rfl <;> exact ⟨rfl, rfl, rfl⟩

example : Inv demoSys := pristine_inv _ (by
  refine ⟨rfl, rfl, ?_⟩
  intro m hm
  simp [demoSys] at hm
  rcases hm with rfl | rfl | rfl | rfl <;> exact ⟨rfl, rfl, rfl⟩)

/-- the two phases on the demo system: 6 algebraic slots after set-up; 3 states and 8 algebraic slots after
`TDS.init`; the collated GENCLS block interleaves; the links follow the idx (`v` of GENCLS → Bus 7, Bus "B_2";
`omega` of TGOV1 → device 2 of GENCLS); names are the owners' -/
example :
    let a := setupPhase demoSys
    let b := tdsPhase a
    (a.dae.n, a.dae.m) = (0, 6) ∧ (b.dae.n, b.dae.m) = (5, 8) ∧
    b.models.map (·.xa) = [[], [], [[0, 2], [1, 3]], [[4]]] ∧
    b.models.map (·.ya) = [[[0, 1, 2], [3, 4, 5]], [], [[6, 7]], []] ∧
    b.models.map (fun m => m.exts.map (·.a)) = [[], [], [[5, 4]], [[3]]] ∧
    b.dae.xName = ["delta GENCLS 1", "omega GENCLS 1", "delta GENCLS 2", "omega GENCLS 2", "LAG_y TGOV1 1"] ∧
    b.dae.yName = ["a Bus 1", "a Bus B 2", "a Bus 7", "v Bus 1", "v Bus B 2", "v Bus 7", "Id GENCLS 1", "Id GENCLS 2"] := by
  decide +kernel

example : NamesOk (setAddress selPflow demoSys) := setAddress_namesOk _ _ ⟨rfl, rfl⟩

end Andes.Address
