import Andes.Proofs.Store
import Andes.Proofs.StoreCsv
/-!
# C15 — stored and exported results are the simulated values, complete and labelled

Model: `Andes/Model/Store.lean` (tied to `DAE.store`, `DAETimeSeries`, `DAE.write_npz/write_lst`, the storage
branch and the end of `TDS.run`, `TDS.save_output`, `System.set_output_subidx`, `Output.to_output_addr`,
`TDSData`, csv replay by the correspondence in `harness/c15.py`).

The accepted steps `(t_k, row_k)` are an ARBITRARY list (the integrator and the time grid are C04/C06);
a run is a list of segments (first `TDS.run`, then resumed runs).  `kept c 0 rows` is the specification:
the accepted steps whose number `k` satisfies `save_every ≠ 0 ∧ (save_every = 1 ∨ k mod save_every = 0)`.

Theorems named `_partial` carry a hypothesis that the statement of C15 does not have; each is
accompanied by a Lean-proved counterexample on the faithful model (= a defect of the real code).
-/
set_option linter.unusedSectionVars false
namespace Andes.Store

section store
variable {τ ρ : Type} [BEq τ] [LawfulBEq τ]

/-- **file ++ memory = filter** (off-loading mode, output files, `save_mode = auto`), at EVERY loop head:
after any number of completed (resumed) runs `segs` and any number `rows` of accepted steps of the run in
progress, the rows on file followed by the rows in memory that are not yet on file are exactly the accepted
steps to be kept, in order, unaltered — for every `save_every`, every `max_store` (also 0), every step
sequence.  Hypothesis beyond C15: the stamps of the kept steps are pairwise distinct (the store is a dict
keyed by `t`; see `same_stamp_collapses`). -/
theorem file_plus_memory_is_filter_partial (c : Cfg) (hl : c.limitStore = true) (ho : c.output = true)
    (ha : c.auto = true) (segs : List (List (τ × ρ))) (rows : List (τ × ρ))
    (hnd : ((kept c 0 (segs.flatten ++ rows)).map Prod.fst).Nodup) :
    let s := rows.foldl (step c) (runSegs c init segs)
    fileRows s ++ s.mem.drop s.idxPtr = kept c 0 (segs.flatten ++ rows) ∧ s.idxPtr ≤ s.mem.length := by
  intro s
  rw [kept_append] at hnd ⊢
  have hnd1 : ((kept c 0 segs.flatten).map Prod.fst).Nodup := by
    rw [List.map_append] at hnd; exact (List.nodup_append.mp hnd).1
  have h1 := runSegs_inv c hl ho ha segs (init : St τ ρ) [] init_inv (by simpa [init] using hnd1)
  have hk : (runSegs c (init : St τ ρ) segs).kcount = segs.flatten.length := by
    rw [runSegs_kcount]; simp [init]
  have h1' : InvL (runSegs c (init : St τ ρ) segs) (kept c 0 segs.flatten) := by simpa [init] using h1
  have h2 := steps_inv c hl ho rows _ _ h1' (by rw [hk]; simpa using hnd)
  rw [hk] at h2
  have h3 : InvL s (kept c 0 segs.flatten ++ kept c (0 + segs.flatten.length) rows) := by
    simpa using h2
  exact ⟨h3.split, h3.ptr⟩

/-- after a completed run (and every resumed run) the FILE ALONE holds every kept step, and what is
still in memory has all been written -/
theorem file_complete_after_run_partial (c : Cfg) (hl : c.limitStore = true) (ho : c.output = true)
    (ha : c.auto = true) (segs : List (List (τ × ρ))) (last : List (τ × ρ))
    (hnd : ((kept c 0 (segs ++ [last]).flatten).map Prod.fst).Nodup) :
    let s := runSegs c init (segs ++ [last])
    fileRows s = kept c 0 (segs ++ [last]).flatten ∧ s.idxPtr = s.mem.length := by
  intro s
  have hs : s = runSeg c (runSegs c init segs) last := by simp [s, runSegs]
  have hfl : (segs ++ [last]).flatten = segs.flatten ++ last := by simp
  rw [hfl, kept_append] at hnd ⊢
  have hnd1 : ((kept c 0 segs.flatten).map Prod.fst).Nodup := by
    rw [List.map_append] at hnd; exact (List.nodup_append.mp hnd).1
  have h1 := runSegs_inv c hl ho ha segs (init : St τ ρ) [] init_inv (by simpa [init] using hnd1)
  have hk : (runSegs c (init : St τ ρ) segs).kcount = segs.flatten.length := by
    rw [runSegs_kcount]; simp [init]
  have h1' : InvL (runSegs c (init : St τ ρ) segs) (kept c 0 segs.flatten) := by simpa [init] using h1
  have h2 := (runSeg_inv c hl ho ha last _ _ h1' (by rw [hk]; simpa using hnd)).2
  rw [hk] at h2
  rw [hs]
  have h3 : Flushed (runSeg c (runSegs c init segs) last)
      (kept c 0 segs.flatten ++ kept c (0 + segs.flatten.length) last) := by simpa using h2
  exact ⟨h3.file, h3.ptr⟩

/-- without off-loading the in-memory series IS the filter (any output / save mode), also mid-run -/
theorem memory_is_filter_partial (c : Cfg) (hl : c.limitStore = false) (segs : List (List (τ × ρ)))
    (rows : List (τ × ρ)) (hnd : ((kept c 0 (segs.flatten ++ rows)).map Prod.fst).Nodup) :
    (rows.foldl (step c) (runSegs c init segs)).mem = kept c 0 (segs.flatten ++ rows) := by
  have key : ∀ (segs : List (List (τ × ρ))) (s : St τ ρ),
      ((s.mem ++ kept c s.kcount segs.flatten).map Prod.fst).Nodup →
      (runSegs c s segs).mem = s.mem ++ kept c s.kcount segs.flatten := by
    intro segs
    induction segs with
    | nil => intro s _; simp [runSegs, kept]
    | cons a r ih =>
      intro s hnd
      have h2 : runSegs c s (a :: r) = runSegs c (runSeg c s a) r := rfl
      simp only [List.flatten_cons, kept_append, ← List.append_assoc] at hnd ⊢
      have hnd1 : ((s.mem ++ kept c s.kcount a).map Prod.fst).Nodup := by
        rw [List.map_append] at hnd; exact (List.nodup_append.mp hnd).1
      have hm : (runSeg c s a).mem = s.mem ++ kept c s.kcount a := by
        simp [runSeg, endRun_mem, steps_mem_noLimit c hl a s hnd1]
      rw [h2, ih (runSeg c s a) (by rw [hm, runSeg_kcount]; exact hnd), hm, runSeg_kcount]
  rw [kept_append] at hnd ⊢
  have hnd1 : ((kept c 0 segs.flatten).map Prod.fst).Nodup := by
    rw [List.map_append] at hnd; exact (List.nodup_append.mp hnd).1
  have hm := key segs (init : St τ ρ) (by simpa [init] using hnd1)
  have hk : (runSegs c (init : St τ ρ) segs).kcount = segs.flatten.length := by
    rw [runSegs_kcount]; simp [init]
  have hm' : (runSegs c (init : St τ ρ) segs).mem = kept c 0 segs.flatten := by simpa [init] using hm
  rw [steps_mem_noLimit c hl rows _ (by rw [hm', hk]; simpa using hnd), hm', hk]
  simp

/-- without off-loading, with output files: after a completed run the file equals the memory series -/
theorem file_is_memory_noLimit (c : Cfg) (hl : c.limitStore = false) (ho : c.output = true)
    (ha : c.auto = true) (s : St τ ρ) (rows : List (τ × ρ)) :
    (runSeg c s rows).file = some (runSeg c s rows).mem := by
  simp [runSeg, endRun, ho, ha, saveOutput, writeNpz, hl, touch, unpack, cacheVal]

/-- in EVERY mode (off-loading with or without files, manual saving) the memory holds a contiguous,
unaltered tail of the kept steps: nothing in memory is ever reordered, duplicated or changed -/
theorem memory_is_suffix_partial (c : Cfg) (segs : List (List (τ × ρ))) (rows : List (τ × ρ))
    (hnd : ((kept c 0 (segs.flatten ++ rows)).map Prod.fst).Nodup) :
    ∃ pre, kept c 0 (segs.flatten ++ rows) = pre ++ (rows.foldl (step c) (runSegs c init segs)).mem := by
  rw [kept_append] at hnd ⊢
  have hnd1 : ((kept c 0 segs.flatten).map Prod.fst).Nodup := by
    rw [List.map_append] at hnd; exact (List.nodup_append.mp hnd).1
  have h1 := runSegs_suffix c segs (init : St τ ρ) [] ⟨[], rfl⟩ (by simpa [init] using hnd1)
  have hk : (runSegs c (init : St τ ρ) segs).kcount = segs.flatten.length := by
    rw [runSegs_kcount]; simp [init]
  have h1' : SuffixOf (runSegs c (init : St τ ρ) segs) (kept c 0 segs.flatten) := by simpa [init] using h1
  have h2 := steps_suffix c rows _ _ h1' (by rw [hk]; simpa using hnd)
  rw [hk] at h2
  simpa [SuffixOf] using h2

/-- thinning: what is kept is a sub-sequence of the accepted steps (order and values untouched), all of
them for `save_every = 1`, none for `save_every = 0`, and step number `k` is kept iff `N ∣ k` otherwise -/
theorem kept_is_subsequence (c : Cfg) (k : Nat) (rows : List (τ × ρ)) : (kept c k rows).Sublist rows :=
  kept_sublist c k rows
theorem kept_all (c : Cfg) (h : c.saveEvery = 1) (k : Nat) (rows : List (τ × ρ)) : kept c k rows = rows := by
  induction rows generalizing k with
  | nil => rfl
  | cons r rs ih => simp [kept, keepNow, h, ih]
theorem kept_none (c : Cfg) (h : c.saveEvery = 0) (k : Nat) (rows : List (τ × ρ)) : kept c k rows = [] := by
  induction rows generalizing k with
  | nil => rfl
  | cons r rs ih => simp [kept, keepNow, h, ih]
theorem keepNow_iff (c : Cfg) (h : 2 ≤ c.saveEvery) (k : Nat) : keepNow c k = true ↔ c.saveEvery ∣ k := by
  unfold keepNow
  have h0 : (c.saveEvery != 0) = true := by simp; omega
  have h1 : (c.saveEvery == 1) = false := by simp; omega
  simp [h0, h1, Nat.dvd_iff_mod_eq_zero]

/-- **a selection only projects**: running the whole machine on rows mapped through ANY function of the
row values (`x ↦ x[xidx] ++ y[yidx]` in particular) gives the state of the unrestricted run with the same
function applied to every stored row — same stamps, same number of rows, same file/memory split. -/
theorem selection_only_projects {ρ' : Type} (f : ρ → ρ') (c : Cfg) (segs : List (List (τ × ρ))) :
    runSegs c (init : St τ ρ') (segs.map (mapRows f)) = mapSt f (runSegs c init segs) := by
  have := mapSt_runSegs f c (init : St τ ρ) segs
  simpa [mapSt, init] using this

/-- ... and the specification commutes with it as well -/
theorem kept_commutes_with_projection {ρ' : Type} (f : ρ → ρ') (c : Cfg) (k : Nat) (rows : List (τ × ρ)) :
    kept c k (mapRows f rows) = mapRows f (kept c k rows) := kept_map f c k rows

end store

/-! ## non-vacuity and the defects of the real code (all on the faithful model, `τ = ρ = Nat`) -/

def cfgL : Cfg := { saveEvery := 2, limitStore := true, maxStore := 2, output := true, auto := true }
def steps9 : List (Nat × Nat) := (List.range 9).map (fun k => (k, 100 + k))

/-- the hypotheses of `file_plus_memory_is_filter_partial` hold on a resumed, thinned, chunked run and the
conclusion is not trivial: 2 off-loads, file `[0,2,4,6]`, one row still in memory -/
example : ((kept cfgL 0 ([steps9.take 4].flatten ++ steps9.drop 4)).map Prod.fst).Nodup := by decide +kernel
example : let s := (steps9.drop 4).foldl (step cfgL) (runSegs cfgL init [steps9.take 4])
    fileRows s = [(0, 100), (2, 102), (4, 104), (6, 106)] ∧ s.mem = [(8, 108)] ∧ s.idxPtr = 0 := by
  decide +kernel
example : ((kept cfgL 0 ([steps9.take 4] ++ [steps9.drop 4]).flatten).map Prod.fst).Nodup := by decide +kernel

/-- DEFECT (dict keyed by `t`): two accepted steps with the same stamp leave ONE row, holding the later
values under the earlier position — a row is lost although both steps were accepted.
This is what the `Nodup` hypothesis of the `_partial` theorems excludes. -/
theorem same_stamp_collapses :
    let c : Cfg := { saveEvery := 1, limitStore := false, maxStore := 900, output := true, auto := true }
    let rows : List (Nat × Nat) := [(0, 10), (1, 11), (1, 12), (2, 13)]
    (runSegs c init [rows]).mem = [(0, 10), (1, 12), (2, 13)] ∧ kept c 0 rows = rows ∧
      fileRows (runSegs c init [rows]) = [(0, 10), (1, 12), (2, 13)] := by
  decide +kernel

/-- DEFECT (`save_mode = manual` + `limit_store` + resumed run): the first `write_npz` reads the cached
`ts.txyz` left by the previous run's `unpack()`, so the rows stored since are not written, and the
following `ts.reset()` drops them: step 2 and 3 are neither on file nor in memory. -/
theorem manual_save_stale_cache_loses_rows :
    let c : Cfg := { saveEvery := 1, limitStore := true, maxStore := 4, output := true, auto := false }
    let s := saveOutput c (runSegs c init [[(0, 10), (1, 11)], [(2, 12), (3, 13), (4, 14)]])
    fileRows s = [(0, 10), (1, 11), (4, 14)] ∧ s.mem = [(4, 14)] ∧
      kept c 0 [(0, 10), (1, 11), (2, 12), (3, 13), (4, 14)] = [(0, 10), (1, 11), (2, 12), (3, 13), (4, 14)] := by
  decide +kernel

/-! ## labels, columns, selections, queries -/
section labels
variable {α : Type} [Inhabited α]

/-- **labels match columns**: zipping the label list with a stored row gives, for every selected address
in turn, the pair (name of that address, value at that address). -/
theorem labels_match_columns (xi yi : List Nat) (xn yn : List String) (x y : List α) :
    (labels (some (xi, yi)) xn yn).zip (project (some (xi, yi)) x y) =
      xi.map (fun i => (xn.getD i "", x.getD i default)) ++ yi.map (fun i => (yn.getD i "", y.getD i default)) := by
  simp only [labels, project, pick]
  rw [List.zip_append (by simp)]
  simp [List.zip_map']

/-- without a selection: every name is paired with its own value (name lists as long as the arrays) -/
theorem labels_match_columns_all (xn yn : List String) (x y : List α) (hx : xn.length = x.length) :
    (labels none xn yn).zip (project none x y) = xn.zip x ++ yn.zip y := by
  simp only [labels, project]
  exact List.zip_append hx

theorem labels_length (sel : Sel) (xn yn : List String) (x y : List α) (hx : xn.length = x.length)
    (hy : yn.length = y.length) : (labels sel xn yn).length = (project sel x y).length := by
  cases sel with
  | none => simp [labels, project, hx, hy]
  | some p => obtain ⟨xi, yi⟩ := p; simp [labels, project, pick]

/-- the selection computed by `set_output_subidx` is strictly increasing (no column twice) and contains
exactly the addresses requested by the valid `Output` rows -/
theorem outputIdx_sorted (ms : List ModelD) (rs : List OutRow) :
    (outputIdx ms rs).1.Pairwise (· < ·) ∧ (outputIdx ms rs).2.Pairwise (· < ·) :=
  ⟨sortU_sorted _, sortU_sorted _⟩

theorem mem_outputIdx (ms : List ModelD) (rs : List OutRow) (a : Nat) :
    (a ∈ (outputIdx ms rs).1 ↔ (true, a) ∈ rs.flatMap (rowAddrs ms)) ∧
    (a ∈ (outputIdx ms rs).2 ↔ (false, a) ∈ rs.flatMap (rowAddrs ms)) := by
  constructor
  · simp only [outputIdx, sortU_mem, List.mem_map, List.mem_filter]
    constructor
    · rintro ⟨⟨b, a'⟩, ⟨hm, hb⟩, rfl⟩; simp at hb; subst hb; exact hm
    · intro h; exact ⟨(true, a), ⟨h, rfl⟩, rfl⟩
  · simp only [outputIdx, sortU_mem, List.mem_map, List.mem_filter]
    constructor
    · rintro ⟨⟨b, a'⟩, ⟨hm, hb⟩, rfl⟩; simp at hb; subst hb; exact hm
    · intro h; exact ⟨(false, a), ⟨h, by simp⟩, rfl⟩

/-- **query by variable** with an `Output` selection: when the variable's addresses are strictly
increasing in device order and all stored, the columns read hold exactly those addresses, device by device.
Hypotheses beyond C15: monotone addresses, fully stored. -/
theorem query_columns_partial (idx addr : List Nat) (hidx : idx.Pairwise (· < ·))
    (haddr : addr.Pairwise (· < ·)) (hsub : ∀ a ∈ addr, a ∈ idx) :
    (toOutputAddr idx addr).map (fun j => idx.getD j 0) = addr := by
  unfold toOutputAddr
  rw [range_filter_map_getD idx (fun a => addr.contains a)]
  apply sorted_ext _ _ (hidx.filter _) haddr
  intro x
  simp only [List.mem_filter, List.contains_iff_mem]
  constructor
  · exact fun h => h.2
  · exact fun h => ⟨hsub x h, h⟩

/-- without a selection the query reads the variable's own addresses -/
theorem query_columns_all (addr : List Nat) : queryCols none addr none = some addr ∧ ∀ c, colAddr none c = c :=
  ⟨rfl, fun _ => rfl⟩

example : ([1, 2, 3, 4, 6, 7, 8] : List Nat).Pairwise (· < ·) ∧ ([6, 7, 8] : List Nat).Pairwise (· < ·) ∧
    ∀ a ∈ ([6, 7, 8] : List Nat), a ∈ ([1, 2, 3, 4, 6, 7, 8] : List Nat) := by decide

/-- DEFECT (`to_output_addr` answers in sorted order of the stored addresses): for `Line.a2` of the stock
5-bus case (addresses `[1,3,4,2,3,4,1]` in device order) the query returns 4 columns holding addresses
`[1,2,3,4]` — column `j` is not device `j`, and 7 devices get 4 columns. -/
theorem query_sorted_order_not_device_order :
    queryCols (some [1, 2, 3, 4, 6, 7, 8]) [1, 3, 4, 2, 3, 4, 1] none = some [0, 1, 2, 3] ∧
    ([0, 1, 2, 3].map (colAddr (some [1, 2, 3, 4, 6, 7, 8]))) = [1, 2, 3, 4] := by decide

/-- DEFECT (sub-index applied to the stored subset): only device 3 of `Bus.a` is stored; asking for
device 0 (`a=[0]`) silently returns the column of address 3. -/
theorem subindex_into_partial_output :
    queryCols (some [3]) [0, 1, 2, 3, 4] (some [0]) = some [0] ∧ colAddr (some [3]) 0 = 3 := by decide

/-- `TDSData.find`: every returned index is a name that contains one of the patterns -/
theorem find_sound (names pats : List String) (i : Nat) (h : i ∈ findNames names pats) :
    i < names.length ∧ ∃ q ∈ pats, isInfix q.toList (names.getD i "").toList = true := by
  simp only [findNames, List.mem_flatMap, List.mem_range, List.mem_map, List.mem_filter] at h
  obtain ⟨j, hj, q, ⟨hq, hin⟩, rfl⟩ := h
  exact ⟨hj, q, hq, hin⟩

end labels

end Andes.Store

/-! ## csv replay (`TDS.run(from_csv=…)`), exact rational times -/
namespace Andes.Store

/-- **csv replay, what is reproduced**: for every csv with at least three rows whose time column is
non-negative and strictly increasing, the replay terminates, and from the third row on every csv row `k`
is an accepted step with stamp `τ_k` carrying exactly row `k`.  What C15 asks in addition fails for EVERY
such csv (see the closed form): row 0 is never stored, row 1 is stored under `t = 0`, stamp `τ_1` is missing. -/
theorem csv_replay_reproduces_partial (times : List ℚ) (hN : 3 ≤ times.length)
    (hinc : times.Pairwise (· < ·)) (h0 : 0 ≤ times.getD 0 0) :
    (csvSteps times).2 = false ∧
    (csvSteps times).1.drop 1 = (List.range' 2 (times.length - 2)).map (fun k => (times.getD k 0, k)) ∧
    (csvSteps times).1.head? = some (0, 1) := by
  rw [csvSteps_closed times hN hinc h0]; simp

example : (3 : Nat) ≤ ([0, 1/10, 2/10, 3/10] : List ℚ).length ∧
    ([0, 1/10, 2/10, 3/10] : List ℚ).Pairwise (· < ·) ∧ (0 : ℚ) ≤ ([0, 1/10, 2/10, 3/10] : List ℚ).getD 0 0 := by
  refine ⟨by decide, ?_, by norm_num⟩
  simp only [List.pairwise_cons, List.mem_cons, List.not_mem_nil, or_false, forall_eq_or_imp, forall_eq,
    List.Pairwise.nil, and_true, IsEmpty.forall_iff, implies_true]
  norm_num

/-- DEFECT: a 4-row csv replays as 3 rows — row 0 lost, row 1 relabelled `t = 0`, stamp `1/10` missing -/
theorem csv_replay_drops_row0_and_shifts_row1 :
    csvSteps ([0, 1/10, 2/10, 3/10] : List ℚ) = ([(0, 1), (2/10, 2), (3/10, 3)], false) := by
  rw [csvSteps_closed _ (by decide) (by
    simp only [List.pairwise_cons, List.mem_cons, List.not_mem_nil, or_false, forall_eq_or_imp, forall_eq,
      List.Pairwise.nil, and_true, IsEmpty.forall_iff, implies_true]
    norm_num) (by norm_num)]
  simp [List.range']

/-- DEFECT: a two-row csv makes the replay loop run forever (`h = 0` after the only row, `t = 0 < tf`) -/
theorem csv_replay_two_rows_never_ends : (csvSteps ([0, 1/10] : List ℚ)).2 = true := by
  norm_num [csvSteps, csvLoop, csvInit, csvCalcH]

end Andes.Store
