import Andes.Gen.DaeInt
import Andes.Proofs.LinConv

/-!
# C04 / C07 / C14 — global order of the implicit rules on the linear test problem, for ANY grid

"The global error shrinks at the method's order when the step is reduced" (C04), "the simulated trajectory
converges to the reference as the step size is reduced and is within the discretisation error bound"
(C07), "resumed … gives the same trajectory and final state as a single uninterrupted run up to
discretisation error" (C14) — proved here for the scalar linear problem `ẋ = λ x`, `λ ≤ 0`, on an
ARBITRARY grid of step sizes (any number of steps, unequal steps, i.e. including grids clipped at event
times and at intermediate end times), for the numerical trajectory DEFINED BY THE REGENERATED residual
`calc_q` of `andes/routines/daeint.py` (`Andes.Gen.DaeInt`) being zero at every step.

`…_partial` in the sense of the property texts: they quantify over every system; the theorems cover the
linear scalar mode (each decoupled mode of a diagonalisable linear system); the nonlinear cases are
measured by step halving in the harness.
-/
namespace Andes.C04Order
open Andes.Gen.DaeInt Andes.LinConv Real

/-- a numerical trajectory of `ẋ = lam x` (`T = 1`) over the grid `hs`, from `x0` to `xN`: every pair of
consecutive values makes the generated trapezoidal residual vanish -/
def TrapTraj (lam : ℝ) : List ℝ → ℝ → ℝ → Prop
  | [], x0, xN => xN = x0
  | h :: hs, x0, xN => ∃ x1, trapezoid_q x1 (lam * x1) 1 h x0 (lam * x0) = 0 ∧ TrapTraj lam hs x1 xN

/-- the same with the generated backward-Euler residual -/
def BeTraj (lam : ℝ) : List ℝ → ℝ → ℝ → Prop
  | [], x0, xN => xN = x0
  | h :: hs, x0, xN => ∃ x1, backeuler_q x1 (lam * x1) 1 h x0 (lam * x0) = 0 ∧ BeTraj lam hs x1 xN

/-- a trajectory of the generated residual is the product of the one-step factors (`h λ ≤ 0`: the
denominators do not vanish, the step equation has exactly one solution) -/
theorem trapTraj_eq_prod (lam : ℝ) (hl : lam ≤ 0) (hs : List ℝ) (hpos : ∀ h ∈ hs, 0 ≤ h) (x0 xN : ℝ)
    (ht : TrapTraj lam hs x0 xN) : xN = trapProd lam hs * x0 := by
  induction hs generalizing x0 with
  | nil => simp [TrapTraj] at ht; simp [trapProd, ht]
  | cons h hs ih =>
    obtain ⟨x1, hq, hrest⟩ := ht
    have h0 : 0 ≤ h := hpos h List.mem_cons_self
    have hz : h * lam ≤ 0 := mul_nonpos_of_nonneg_of_nonpos h0 hl
    have hd : 1 - h * lam / 2 ≠ 0 := by linarith
    have e1 : x1 = trapR (h * lam) * x0 := by
      unfold trapezoid_q at hq
      unfold trapR
      rw [div_mul_eq_mul_div, eq_div_iff hd]
      linear_combination hq
    have := ih (fun k hk => hpos k (List.mem_cons_of_mem _ hk)) x1 hrest
    rw [this, e1]
    unfold trapProd
    simp only [List.map_cons, List.prod_cons]
    ring

theorem beTraj_eq_prod (lam : ℝ) (hl : lam ≤ 0) (hs : List ℝ) (hpos : ∀ h ∈ hs, 0 ≤ h) (x0 xN : ℝ)
    (ht : BeTraj lam hs x0 xN) : xN = beProd lam hs * x0 := by
  induction hs generalizing x0 with
  | nil => simp [BeTraj] at ht; simp [beProd, ht]
  | cons h hs ih =>
    obtain ⟨x1, hq, hrest⟩ := ht
    have h0 : 0 ≤ h := hpos h List.mem_cons_self
    have hz : h * lam ≤ 0 := mul_nonpos_of_nonneg_of_nonpos h0 hl
    have hd : 1 - h * lam ≠ 0 := by linarith
    have e1 : x1 = beR (h * lam) * x0 := by
      unfold backeuler_q at hq
      unfold beR
      rw [div_mul_eq_mul_div, eq_div_iff hd]
      linear_combination hq
    have := ih (fun k hk => hpos k (List.mem_cons_of_mem _ hk)) x1 hrest
    rw [this, e1]
    unfold beProd
    simp only [List.map_cons, List.prod_cons]
    ring

/-- **Global second order of the trapezoidal rule (C04, C07)**: on any grid with steps `≤ hmax`,
`hmax |λ| ≤ 1`, the value reached by the generated rule differs from the exact solution
`e^{λ T} x₀` (`T` = the sum of the steps) by at most `|λ|³ hmax² T / 2 · |x₀|`: halving the largest step
divides the bound by four, whatever the number and the distribution of the steps. -/
theorem trapezoid_converges_second_order_partial (lam hmax : ℝ) (hs : List ℝ) (x0 xN : ℝ) (hl : lam ≤ 0)
    (hpos : ∀ h ∈ hs, 0 ≤ h ∧ h ≤ hmax) (hsmall : hmax * |lam| ≤ 1) (ht : TrapTraj lam hs x0 xN) :
    |xN - exp (lam * hs.sum) * x0| ≤ |lam| ^ 3 * hmax ^ 2 * hs.sum / 2 * |x0| := by
  rw [trapTraj_eq_prod lam hl hs (fun h hh => (hpos h hh).1) x0 xN ht, ← sub_mul, abs_mul]
  exact mul_le_mul_of_nonneg_right (trapezoid_global_second_order lam hmax hs hl hpos hsmall) (abs_nonneg _)

/-- **Global first order of backward Euler (C04)** -/
theorem backeuler_converges_first_order_partial (lam hmax : ℝ) (hs : List ℝ) (x0 xN : ℝ) (hl : lam ≤ 0)
    (hpos : ∀ h ∈ hs, 0 ≤ h ∧ h ≤ hmax) (hsmall : hmax * |lam| ≤ 1) (ht : BeTraj lam hs x0 xN) :
    |xN - exp (lam * hs.sum) * x0| ≤ 2 * |lam| ^ 2 * hmax * hs.sum * |x0| := by
  rw [beTraj_eq_prod lam hl hs (fun h hh => (hpos h hh).1) x0 xN ht, ← sub_mul, abs_mul]
  exact mul_le_mul_of_nonneg_right (backeuler_global_first_order lam hmax hs hl hpos hsmall) (abs_nonneg _)

/-- **A split (resumed) run against the single run (C14)**: two trajectories of the generated rule over
two different grids of the same interval — the single run's grid `g1`, and the concatenation `ga ++ gb` of
the segment grids of a run interrupted at `ga.sum` (whose last step before the cut was clipped to land on
the intermediate end time) — end within the sum of their discretisation bounds of each other. -/
theorem split_run_within_discretisation_partial (lam h1 h2 : ℝ) (g1 ga gb : List ℝ) (x0 xs xa xb : ℝ)
    (hl : lam ≤ 0)
    (p1 : ∀ h ∈ g1, 0 ≤ h ∧ h ≤ h1) (pa : ∀ h ∈ ga, 0 ≤ h ∧ h ≤ h2) (pb : ∀ h ∈ gb, 0 ≤ h ∧ h ≤ h2)
    (s1 : h1 * |lam| ≤ 1) (s2 : h2 * |lam| ≤ 1) (hT : g1.sum = ga.sum + gb.sum)
    (single : TrapTraj lam g1 x0 xs) (first : TrapTraj lam ga x0 xa) (second : TrapTraj lam gb xa xb) :
    |xs - xb| ≤ |lam| ^ 3 * (h1 ^ 2 + h2 ^ 2) * g1.sum / 2 * |x0| := by
  have ea := trapTraj_eq_prod lam hl ga (fun h hh => (pa h hh).1) x0 xa first
  have eb := trapTraj_eq_prod lam hl gb (fun h hh => (pb h hh).1) xa xb second
  have es := trapTraj_eq_prod lam hl g1 (fun h hh => (p1 h hh).1) x0 xs single
  have pab : ∀ h ∈ ga ++ gb, 0 ≤ h ∧ h ≤ h2 := by
    intro h hh; rcases List.mem_append.mp hh with k | k
    · exact pa h k
    · exact pb h k
  have eprod : trapProd lam (ga ++ gb) = trapProd lam gb * trapProd lam ga := by
    unfold trapProd; rw [List.map_append, List.prod_append]; ring
  have hT' : g1.sum = (ga ++ gb).sum := by rw [List.sum_append, hT]
  have key := trapezoid_two_grids lam h1 h2 g1 (ga ++ gb) hl p1 pab s1 s2 hT'
  have : xs - xb = (trapProd lam g1 - trapProd lam (ga ++ gb)) * x0 := by
    rw [es, eb, ea, eprod]; ring
  rw [this, abs_mul]
  exact mul_le_mul_of_nonneg_right key (abs_nonneg _)

/-- non-vacuity: one trapezoidal step of size 1/10 for `λ = -1` from `x₀ = 1` is a trajectory (its value is
`19/21`), and the hypotheses of the convergence theorem hold for it -/
example : TrapTraj (-1) [1 / 10] 1 (19 / 21) ∧ (∀ h ∈ [(1 / 10 : ℝ)], 0 ≤ h ∧ h ≤ 1 / 10) ∧
    (1 / 10 : ℝ) * |(-1 : ℝ)| ≤ 1 := by
  refine ⟨⟨19 / 21, ?_, rfl⟩, ?_, ?_⟩
  · unfold trapezoid_q; norm_num
  · intro h hh; simp at hh; subst hh; norm_num
  · norm_num

/-! ## the finding `stale-f-after-antiwindup-clamp`, as a theorem about the regenerated rule

`System.fg_update` evaluates the right-hand sides BEFORE `AntiWindup.check_eq` clamps a pegged state.  Take a state `z`
with `ż = x − z` fed by a state `x` that the limiter holds at `L`, and let `xu` be the value the previous Newton
increment left in `x` (the limiter overwrites it with `L` only after `f` has been evaluated).  The step is accepted
when the regenerated trapezoidal residual vanishes for the right-hand side the integrator holds, `xu − z₁`.  Evaluated at
the ACCEPTED state (`x = L`), the same residual is then exactly `h/2 · (xu − L)`: the rule is violated for `z`, which no
limiter holds, by the amount the pegged state was off its limit inside the iteration. -/
theorem stale_f_after_clamp (h z0 z1 fz0 xu L : ℝ)
    (hacc : trapezoid_q z1 (xu - z1) 1 h z0 fz0 = 0) :
    trapezoid_q z1 (L - z1) 1 h z0 fz0 = h / 2 * (xu - L) := by
  unfold trapezoid_q at hacc ⊢
  linear_combination hacc

/-- a concrete instance (numbers of the recorded run: `L = 5.2`, the iterate `xu ≈ 9.97`, `h = 0.0317`): the accepted
step of the code has residual `0.0756` where the tolerance is `1e-4` -/
example : ∃ z1 : ℝ, trapezoid_q z1 (9.97 - z1) 1 0.0317 3.14 2.06 = 0 ∧
    trapezoid_q z1 (5.2 - z1) 1 0.0317 3.14 2.06 = 0.0317 / 2 * (9.97 - 5.2) := by
  refine ⟨(3.14 + 0.0317 / 2 * (9.97 + 2.06)) / (1 + 0.0317 / 2), ?_, ?_⟩
  · unfold trapezoid_q; field_simp; ring
  · have := stale_f_after_clamp 0.0317 3.14 ((3.14 + 0.0317 / 2 * (9.97 + 2.06)) / (1 + 0.0317 / 2)) 2.06 9.97 5.2
      (by unfold trapezoid_q; field_simp; ring)
    exact this

end Andes.C04Order
