import Andes.Proofs.Discrete
import Andes.Proofs.Delay

/-!
# C09 — Limiters and other discrete components enforce their documented semantics

Property theorems only.  Models: `Andes/Model/Discrete.lean`, `Andes/Model/Delay.lean` (per-device functions
of `andes/core/discrete.py`, the `x_set` write-back of `System.fg_to_dae` and the `q` zeroing of
`daeint.py`), tied to `/repo` by the bit-exact correspondence of `harness/c09.py`.  Scalars are `ℚ`.

Where the real code violates the property the theorem carries the excluding hypothesis, is named
`…_partial`, and a counterexample on the faithful model follows it.
-/
namespace Andes.Discrete

/-- Bool flag as the number NumPy stores -/
def b2n (b : Bool) : Nat := if b then 1 else 0

/-! ## Limiter / HardLimiter -/

section limiter
variable (c : LimCfg) (k : Call) (s : Lim ℚ) (u : ℚ)

/-- **Exhaustive** (no hypothesis on the limits): at least one flag is set, and `zi` is exactly the
negation of `zl ∨ zu`. -/
theorem limiter_exhaustive (he : c.enable = true) :
    1 ≤ b2n (limCheckVar c k s u).zi + b2n (limCheckVar c k s u).zl + b2n (limCheckVar c k s u).zu ∧
    (limCheckVar c k s u).zi = !((limCheckVar c k s u).zl || (limCheckVar c k s u).zu) := by
  simp only [limCheckVar, limZi, he, b2n]
  cases limZu c k s u <;> cases limZl c k s u <;> simp

/-- **Flags agree with the comparison** of the input against the limits the call used (after the sign and
the initialisation adjustment): `zu ↔ u ≥ upper` (resp. `>` when `equal = False`), `zl ↔ u ≤ lower`. -/
theorem limiter_flags_agree (he : c.enable = true) (hl : c.noLower = false) (hu : c.noUpper = false) :
    ((limCheckVar c k s u).zu = true ↔
        (if c.equal then upperEff c k u s.upper ≤ u else upperEff c k u s.upper < u)) ∧
    ((limCheckVar c k s u).zl = true ↔
        (if c.equal then u ≤ lowerEff c k u s.lower else u < lowerEff c k u s.lower)) := by
  simp only [limCheckVar, limZu, limZl, he, hl, hu, cmpU, cmpL]
  cases c.equal <;> simp

/-- with sign `+1` the limit the call used is the limit that is stored afterwards, so the flags agree with
the stored limits — also at initialisation with adjustment -/
theorem limiter_flags_agree_stored (he : c.enable = true) (hl : c.noLower = false) (hu : c.noUpper = false)
    (hsl : c.negLower = false) (hsu : c.negUpper = false) :
    ((limCheckVar c k s u).zu = true ↔
        (if c.equal then (limCheckVar c k s u).upper ≤ u else (limCheckVar c k s u).upper < u)) ∧
    ((limCheckVar c k s u).zl = true ↔
        (if c.equal then u ≤ (limCheckVar c k s u).lower else u < (limCheckVar c k s u).lower)) := by
  have h := limiter_flags_agree c k s u he hl hu
  simp only [limCheckVar, limUpper, limLower, he, hl, hu, hsl, hsu] at *
  simpa using h

/-- **Sign-flipped limits**, plain call: the flags agree with `-upper`, `-lower` of the stored parameters -/
theorem limiter_flags_agree_signed (he : c.enable = true) (hl : c.noLower = false) (hu : c.noUpper = false)
    (hk : k.isInit = false) :
    ((limCheckVar c k s u).zu = true ↔
        (if c.equal then sgn c.negUpper s.upper ≤ u else sgn c.negUpper s.upper < u)) ∧
    ((limCheckVar c k s u).zl = true ↔
        (if c.equal then u ≤ sgn c.negLower s.lower else u < sgn c.negLower s.lower)) := by
  have h := limiter_flags_agree c k s u he hl hu
  simpa [upperEff, lowerEff, adjU, adjL, hk] using h

/-- the adjustment never produces crossed limits out of ordered ones -/
theorem eff_limits_ordered (h : sgn c.negLower s.lower < sgn c.negUpper s.upper) :
    lowerEff c k u s.lower < upperEff c k u s.upper := by
  unfold lowerEff upperEff
  split_ifs with h1 h2 h2 <;> simp_all <;> linarith

/-- **Mutually exclusive and exhaustive** when `lower < upper` (after signs): exactly one flag is set. -/
theorem limiter_flags_onehot_partial (he : c.enable = true) (hl : c.noLower = false) (hu : c.noUpper = false)
    (h : sgn c.negLower s.lower < sgn c.negUpper s.upper) :
    b2n (limCheckVar c k s u).zi + b2n (limCheckVar c k s u).zl + b2n (limCheckVar c k s u).zu = 1 := by
  have ho := eff_limits_ordered c k s u h
  have ha := limiter_flags_agree c k s u he hl hu
  have hx := (limiter_exhaustive c k s u he).2
  have : ¬ ((limCheckVar c k s u).zu = true ∧ (limCheckVar c k s u).zl = true) := by
    rintro ⟨h1, h2⟩
    have a := ha.1.mp h1
    have b := ha.2.mp h2
    cases hq : c.equal <;> simp [hq] at a b <;> linarith
  revert this hx
  cases (limCheckVar c k s u).zu <;> cases (limCheckVar c k s u).zl <;> cases (limCheckVar c k s u).zi <;>
    simp [b2n]

/- full statement (fails on the real code, see the counterexample below):
   `limiter_flags_onehot : … (h : sgn c.negLower s.lower ≤ sgn c.negUpper s.upper) → … = 1` -/
end limiter

/-- the standard constructor arguments (`Limiter(u, lower, upper)`) -/
def stdCfg : LimCfg := ⟨true, false, false, false, false, true, true⟩

example : sgn stdCfg.negLower ((Lim.mk (-1) 2 true false false : Lim ℚ)).lower
    < sgn stdCfg.negUpper ((Lim.mk (-1) 2 true false false : Lim ℚ)).upper := by
  simp [sgn, stdCfg]; norm_num

/-- **Counterexample (real defect)**: `lower = upper = u`: `zl = zu = 1`, `zi = 0` — the limit flags are not
mutually exclusive at the equality the property includes. -/
theorem limiter_equal_limits_both_flags :
    limZl stdCfg Call.plain (⟨1, 1, true, false, false⟩ : Lim ℚ) 1 = true ∧
    limZu stdCfg Call.plain (⟨1, 1, true, false, false⟩ : Lim ℚ) 1 = true ∧
    limZi stdCfg Call.plain (⟨1, 1, true, false, false⟩ : Lim ℚ) 1 = false := by
  simp [limZl, limZu, limZi, stdCfg, Call.plain, cmpL, cmpU, lowerEff, upperEff, adjU, adjL, sgn]

/-- **Limit adjustment at initialisation** (sign `+1`): after `check_var(is_init=True, adjust_upper=True)`
the stored upper limit is at least the input, and nothing else is changed -/
theorem limiter_adjust_upper_partial (c : LimCfg) (k : Call) (s : Lim ℚ) (u : ℚ)
    (he : c.enable = true) (hu : c.noUpper = false) (hs : c.negUpper = false) (ha : adjU c k = true) :
    u ≤ (limCheckVar c k s u).upper ∧ (limCheckVar c k s u).upper = max s.upper u := by
  simp only [limCheckVar, limUpper, he, hu, hs, upperEff, ha, sgn]
  constructor <;> (split_ifs <;> simp_all <;> grind)

example : adjU stdCfg ⟨true, false, true, true⟩ = true := by decide

/-- **Counterexample (real defect, the `FIXME` in the source)**: with `sign_upper = -1` the adjustment is
applied to a negated copy and lost: the stored limit `-(-1) = 1` stays below the input `2`, and with
`equal = False` the init call reports "inside" (`zu = 0`) although `u > -upper`. -/
theorem limiter_adjust_lost_with_negative_sign :
    let c : LimCfg := ⟨true, false, false, false, true, false, true⟩
    let k : Call := ⟨true, false, true, true⟩
    let s : Lim ℚ := ⟨-5, -1, true, false, false⟩
    (limCheckVar c k s 2).upper = -1 ∧ (limCheckVar c k s 2).zu = false ∧ sgn c.negUpper (-1 : ℚ) < 2 := by
  simp [limCheckVar, limUpper, limZu, cmpU, upperEff, adjU, sgn]

/-- a disabled limiter keeps flags and limits -/
theorem limiter_disabled_keeps (c : LimCfg) (k : Call) (s : Lim ℚ) (u : ℚ) (he : c.enable = false) :
    limCheckVar c k s u = s := by
  cases s; simp [limCheckVar, limZi, limZl, limZu, limLower, limUpper, he]

/-! ## DeadBand / DeadBandRT -/

/-- **Dead band flags**: `zu ↔ u > upper`, `zl ↔ u < lower`, `zi ↔ lower ≤ u ≤ upper`;
one-hot whenever `lower ≤ upper` (equality included: the comparisons are strict). -/
theorem deadband_flags (s : Lim ℚ) (u : ℚ) :
    let r := limCheckVar (dbCfg true) Call.plain s u
    (r.zu = true ↔ s.upper < u) ∧ (r.zl = true ↔ u < s.lower) ∧
    (s.lower ≤ s.upper → (r.zi = true ↔ (s.lower ≤ u ∧ u ≤ s.upper))) ∧
    (s.lower ≤ s.upper → b2n r.zi + b2n r.zl + b2n r.zu = 1) := by
  simp only [limCheckVar, limZi, limZu, limZl, dbCfg, Call.plain, cmpU, cmpL, upperEff, lowerEff, adjU, adjL, sgn, b2n]
  by_cases h1 : s.upper < u <;> by_cases h2 : u < s.lower <;> simp [h1, h2] <;> intros <;> 
    first | linarith | (constructor <;> linarith)

/-- **DeadBandRT, the part that works**: `zi zl zu` are those of `DeadBand` -/
theorem deadbandrt_flags_partial (s : Dbrt ℚ) (u : ℚ) :
    (dbrtCheckVar true s u).lim = limCheckVar (dbCfg true) Call.plain s.lim u := by
  simp [dbrtCheckVar]

/- full statement (fails on the real code): `zur` becomes 1 when the input returns into the band from above
   (`dbrtRetDoc`), is held while `zi` is unchanged and cleared otherwise. -/

/-- **Counterexample (real defect), for ALL inputs**: `zur`/`zlr` are computed from the flags of the
current call (`zu + zi == 2` can never hold because `zi = ¬(zu ∨ zl)`) and `zi == zi` is always true:
a call never changes them … -/
theorem deadbandrt_return_flags_never_change (s : Dbrt ℚ) (u : ℚ) :
    (dbrtCheckVar true s u).zur = s.zur ∧ (dbrtCheckVar true s u).zlr = s.zlr := by
  simp only [dbrtCheckVar, limCheckVar, limZi, limZu, limZl, dbCfg, Call.plain, cmpU, cmpL, upperEff,
    lowerEff, adjU, adjL, sgn, dbrtRet]
  have e1 : ((1 : ℚ) == 2.0) = false := by rw [two_lit]; decide
  have e0 : ((0 : ℚ) == 2.0) = false := by rw [two_lit]; decide
  by_cases h1 : s.lim.upper < u <;> by_cases h2 : u < s.lim.lower <;> simp [h1, h2, e1, e0]

/-- … so over every sequence of inputs they stay at their initial value `0` -/
theorem deadbandrt_return_flags_never_set (s : Dbrt ℚ) (us : List ℚ) (h0 : s.zur = 0 ∧ s.zlr = 0) :
    (us.foldl (dbrtCheckVar true) s).zur = 0 ∧ (us.foldl (dbrtCheckVar true) s).zlr = 0 := by
  induction us generalizing s with
  | nil => exact h0
  | cons u us ih =>
    have h := deadbandrt_return_flags_never_change s u
    exact ih _ ⟨h.1.trans h0.1, h.2.trans h0.2⟩

/-- whereas the documented rule sets the flag when the input comes back from above -/
theorem deadbandrt_documented_rule_sets : dbrtRetDoc true false true false = true := by decide

/-! ## AntiWindup -/

section antiwindup
variable (c : LimCfg) (k : Call) (lock niter : Nat) (s : Aw ℚ) (u : ℚ)

theorem awZu_eq (hu : c.noUpper = false) (hlock : niter ≤ lock) :
    awZu c k lock niter s u = (decide (upperEff c k u s.upper ≤ u) && decide ((0 : ℚ) ≤ s.e)) := by
  have hnl : ¬ lock < niter := by omega
  simp [awZu, hu, hnl, zero_lit]
theorem awZl_eq (hl : c.noLower = false) (hlock : niter ≤ lock) :
    awZl c k lock niter s u = (decide (u ≤ lowerEff c k u s.lower) && decide (s.e ≤ (0 : ℚ))) := by
  have hnl : ¬ lock < niter := by omega
  simp [awZl, hl, hnl, zero_lit]

/-- **A pegged state sits on the limit it violated and its derivative is zero** (`lower < upper`):
after `check_eq`, `zi = 0` implies `ẋ = 0` and (`zu` and `x = upper`) or (`zl` and `x = lower`). -/
theorem antiwindup_clamps_partial (hl : c.noLower = false) (hu : c.noUpper = false)
    (h : lowerEff c k u s.lower < upperEff c k u s.upper) (hlock : niter ≤ lock)
    (hp : (awCheckEq c k lock niter true s u).zi = false) :
    (awCheckEq c k lock niter true s u).e = 0 ∧
    (((awCheckEq c k lock niter true s u).zu = true ∧ (awCheckEq c k lock niter true s u).zl = false ∧
        (awCheckEq c k lock niter true s u).x = upperEff c k u s.upper) ∨
     ((awCheckEq c k lock niter true s u).zl = true ∧ (awCheckEq c k lock niter true s u).zu = false ∧
        (awCheckEq c k lock niter true s u).x = lowerEff c k u s.lower)) := by
  simp only [awCheckEq, awX, awE, awZi, hl, hu, awZu_eq c k lock niter s u hu hlock,
    awZl_eq c k lock niter s u hl hlock] at *
  by_cases h1 : upperEff c k u s.upper ≤ u <;> by_cases h2 : u ≤ lowerEff c k u s.lower <;>
    by_cases h3 : (0 : ℚ) ≤ s.e <;> by_cases h4 : s.e ≤ (0 : ℚ) <;>
    simp [h1, h2, h3, h4] at hp ⊢ <;> linarith

/- full statement (fails on the real code for `lower = upper`, counterexample below):
   `antiwindup_clamps : … (h : lowerEff … ≤ upperEff …) → …` -/

/-- a device that is not pegged keeps its state and its derivative (whatever the other devices do) -/
theorem antiwindup_free_untouched (anyPeg : Bool)
    (hp : (awCheckEq c k lock niter anyPeg s u).zi = true) :
    (awCheckEq c k lock niter anyPeg s u).x = s.x ∧ (awCheckEq c k lock niter anyPeg s u).e = s.e := by
  simp only [awCheckEq, awX, awE, awZi] at *
  have h1 : awZu c k lock niter s u = false := by revert hp; cases awZu c k lock niter s u <;> simp
  have h2 : awZl c k lock niter s u = false := by revert hp; cases awZl c k lock niter s u <;> simp
  rw [h1, h2]
  cases anyPeg <;> cases c.noUpper <;> cases c.noLower <;> norm_num

/-- **Holds**: a state at or beyond the upper limit whose derivative does not point inward is pegged -/
theorem antiwindup_holds (hu : c.noUpper = false) (h1 : upperEff c k u s.upper ≤ u) (h2 : 0 ≤ s.e) :
    (awCheckEq c k lock niter true s u).zu = true := by
  have : (0.0 : ℚ) ≤ s.e := by rw [zero_lit]; exact h2
  simp only [awCheckEq, awZu, hu, Bool.false_eq_true, if_false]
  by_cases hq : lock < niter <;> simp [hq, h1, this]

/-- **Releases**: as soon as the derivative points inward the flag drops (before `niter_lock`) and the
state is free again: "a state held at a limit has zero derivative until its input drives it back" -/
theorem antiwindup_releases (hu : c.noUpper = false) (hlock : niter ≤ lock) (h : s.e < 0) :
    (awCheckEq c k lock niter true s u).zu = false := by
  have hnl : ¬ lock < niter := by omega
  have : ¬ (0.0 : ℚ) ≤ s.e := by rw [zero_lit]; linarith
  simp [awCheckEq, awZu, hu, hnl, this]

/-- after `niter_lock` iterations a set flag is kept (anti-chattering lock) -/
theorem antiwindup_lock (hu : c.noUpper = false) (hlock : lock < niter) (h : s.zu = true) :
    (awCheckEq c k lock niter true s u).zu = true := by
  simp [awCheckEq, awZu, hu, hlock, h]

/-- a state that is left outside the upper limit is on its way back: if after `check_eq` (input = the
state itself) the state is still above the limit, its derivative is negative -/
theorem antiwindup_outside_implies_returning (hl : c.noLower = false) (hu : c.noUpper = false)
    (h : lowerEff c k s.x s.lower < upperEff c k s.x s.upper) (hlock : niter ≤ lock)
    (hout : upperEff c k s.x s.upper < (awCheckEq c k lock niter true s s.x).x) :
    (awCheckEq c k lock niter true s s.x).e < 0 := by
  simp only [awCheckEq, awX, awE, awZi, hl, hu, awZu_eq c k lock niter s s.x hu hlock,
    awZl_eq c k lock niter s s.x hl hlock] at *
  by_cases h1 : upperEff c k s.x s.upper ≤ s.x <;> by_cases h2 : s.x ≤ lowerEff c k s.x s.lower <;>
    by_cases h3 : (0 : ℚ) ≤ s.e <;> by_cases h4 : s.e ≤ (0 : ℚ) <;>
    simp [h1, h2, h3, h4] at hout ⊢ <;> linarith

/-- non-vacuity of `antiwindup_outside_implies_returning`: state `3` above `upper = 2`, derivative `-1` -/
example : upperEff stdCfg Call.plain 3 (2 : ℚ) <
    (awCheckEq stdCfg Call.plain 4 0 true (⟨-1, 2, true, false, false, false, false, 3, -1⟩ : Aw ℚ) 3).x := by
  simp [awCheckEq, awX, awZi, awZu, awZl, lowerEff, upperEff, adjU, adjL, sgn, stdCfg, Call.plain]
  norm_num

end antiwindup

/-- **A disabled anti-windup limiter does nothing** (documented: "if not enabled … zu = zl = 0, zi = 1"):
flags, limits, state and equation value of every device are what they were.  On the pinned tree
`AntiWindup.check_eq` never consulted `enable` and clamped like an enabled limiter (finding
`antiwindup-ignores-enable`, repaired in /repo; the model's guard is the first line of `awCheckEqAll`). -/
theorem antiwindup_disabled_is_identity (c : LimCfg) (k : Call) (lock niter : Nat) (ds : List (Aw ℚ × ℚ))
    (he : c.enable = false) : awCheckEqAll c k lock niter ds = ds.map (·.1) := by
  simp [awCheckEqAll, he]

/-- … and an enabled one is the device-wise `awCheckEq` the theorems above are about -/
theorem antiwindup_enabled_is_checkEq (c : LimCfg) (k : Call) (lock niter : Nat) (ds : List (Aw ℚ × ℚ))
    (he : c.enable = true) :
    awCheckEqAll c k lock niter ds = ds.map (fun d => awCheckEq c k lock niter (awAnyPeg c k lock niter ds) d.1 d.2) := by
  simp [awCheckEqAll, he]

/-- the input that failed on the pinned tree: a disabled limiter, state above the upper limit with a positive
derivative — nothing is clamped now -/
example : awCheckEqAll { stdCfg with enable := false } Call.plain 4 0
    [((⟨-1, 2, true, false, false, false, false, 3, 1⟩ : Aw ℚ), 3)] = [⟨-1, 2, true, false, false, false, false, 3, 1⟩] := by
  simp [awCheckEqAll, stdCfg]

example : lowerEff stdCfg Call.plain 3 (-1 : ℚ) < upperEff stdCfg Call.plain 3 (2 : ℚ) ∧
    (awCheckEq stdCfg Call.plain 4 0 true (⟨-1, 2, true, false, false, false, false, 3, 1⟩ : Aw ℚ) 3).zi = false := by
  simp [awCheckEq, awZi, awZu, awZl, lowerEff, upperEff, adjU, adjL, sgn, stdCfg, Call.plain]
  norm_num

/-- **Counterexample (real defect)**: `lower = upper = x` with zero derivative: both flags are set and the
state is written as `lower + upper`. -/
theorem antiwindup_equal_limits_sum :
    let r := awCheckEq stdCfg Call.plain 4 0 true (⟨1, 1, true, false, false, false, false, 1, 0⟩ : Aw ℚ) 1
    r.zl = true ∧ r.zu = true ∧ r.x = 2 := by
  simp [awCheckEq, awX, awZi, awZu, awZl, lowerEff, upperEff, adjU, adjL, sgn, stdCfg, Call.plain]
  norm_num

/-- all devices at once: every device of the result that is pegged has zero derivative and (for ordered
limits) sits on a limit; `anyPeg` is then true, so the vectorised write did take place -/
theorem antiwindup_all_pegged_partial (c : LimCfg) (k : Call) (lock niter : Nat) (ds : List (Aw ℚ × ℚ))
    (he : c.enable = true) (hl : c.noLower = false) (hu : c.noUpper = false) (hlock : niter ≤ lock)
    (hord : ∀ d ∈ ds, lowerEff c k d.2 d.1.lower < upperEff c k d.2 d.1.upper) :
    ∀ r ∈ awCheckEqAll c k lock niter ds, r.zi = false → r.e = 0 ∧ (r.zl = true ∨ r.zu = true) := by
  intro r hr hz
  simp only [awCheckEqAll, he, Bool.not_true, Bool.false_eq_true, if_false, List.mem_map] at hr
  obtain ⟨d, hd, rfl⟩ := hr
  have hany : awAnyPeg c k lock niter ds = true := by
    simp only [awAnyPeg, List.any_eq_true]
    exact ⟨d, hd, by simpa [awCheckEq] using hz⟩
  rw [hany] at hz ⊢
  have := antiwindup_clamps_partial c k lock niter d.1 d.2 hl hu (hord d hd) hlock hz
  rcases this with ⟨h1, h2 | h2⟩
  · exact ⟨h1, Or.inr h2.1⟩
  · exact ⟨h1, Or.inl h2.1⟩

/-- **Write-back and residual zeroing** (`System.fg_to_dae`, `daeint.py`): with pairwise distinct
addresses, after `np.put` every pegged device's entry of `dae.x` is its clamped value and its entry of
`q` is zero; entries of devices that are not pegged are untouched. -/
theorem xset_written_back (addr : List Nat) (ds : List (Aw ℚ)) (xs q : List ℚ)
    (hnd : addr.Nodup) (hlen : addr.length = ds.length) :
    (∀ p ∈ xSet addr ds, p.1 < xs.length → (putAll xs (xSet addr ds))[p.1]? = some p.2) ∧
    (∀ p ∈ xSet addr ds, p.1 < q.length → (zeroAll q (xSet addr ds))[p.1]? = some 0) ∧
    (∀ a, (∀ p ∈ xSet addr ds, p.1 ≠ a) → (putAll xs (xSet addr ds))[a]? = xs[a]? ∧
        (zeroAll q (xSet addr ds))[a]? = q[a]?) := by
  have hkeys : ((xSet addr ds).map (·.1)).Nodup := by
    have : (xSet addr ds).map (·.1) = ((addr.zip ds).filter (fun p => !p.2.zi)).map (·.1) := by
      simp [xSet, List.map_map, Function.comp_def]
    rw [this]
    have h2 : ((addr.zip ds).map (·.1)).Nodup := by
      rw [List.map_fst_zip (by omega)]; exact hnd
    exact (List.Nodup.sublist ((List.filter_sublist).map _) h2)
  refine ⟨fun p hp hlt => putAll_mem _ xs hkeys p hp hlt, ?_, ?_⟩
  · intro p hp hlt
    rw [zeroAll_eq]
    have hk2 : (((xSet addr ds).map (fun p => (p.1, (0 : ℚ)))).map (·.1)).Nodup := by
      simpa [List.map_map, Function.comp_def] using hkeys
    exact putAll_mem _ q hk2 (p.1, 0) (List.mem_map.mpr ⟨p, hp, rfl⟩) hlt
  · intro a ha
    refine ⟨putAll_other _ xs a ha, ?_⟩
    rw [zeroAll_eq]
    apply putAll_other
    intro p hp
    obtain ⟨p', hp', rfl⟩ := List.mem_map.mp hp
    exact ha p' hp'

/-! ## RateLimiter -/

/-- the derivative is clipped into `[rate_lower, rate_upper]` (conditions on), and left alone inside -/
theorem ratelimiter_clips (c : RateCfg) (zlr zur e rl ru : ℚ) (he : c.enable = true)
    (hl : c.noLower = false) (hu : c.noUpper = false) (hcl : c.hasLowerCond = false) (hcu : c.hasUpperCond = false)
    (h : rl ≤ ru) :
    rl ≤ rateE c zlr zur e rl ru 0 0 ∧ rateE c zlr zur e rl ru 0 0 ≤ ru ∧
    (rl ≤ e → e ≤ ru → rateE c zlr zur e rl ru 0 0 = e) := by
  simp only [rateE, rateE2, rateE1, rateZur, rateZlr, he, hl, hu, hcl, hcu, nz]
  by_cases h1 : e < rl <;> by_cases h2 : ru < e <;> simp [h1, h2, zero_lit] <;>
    (try split_ifs) <;> (try constructor) <;> linarith

example : (-1 : ℚ) ≤ 2 := by norm_num

/-- a rate limit whose condition is off (`cond = 0`) does nothing -/
theorem ratelimiter_condition_off (c : RateCfg) (zlr zur e rl ru : ℚ) (he : c.enable = true)
    (hcl : c.hasLowerCond = true) (hcu : c.hasUpperCond = true) :
    rateE c zlr zur e rl ru 0 0 = e := by
  simp only [rateE, rateE2, rateE1, rateZur, rateZlr, he, hcl, hcu, nz]
  cases c.noLower <;> cases c.noUpper <;> simp [zero_lit]

/-! ## LessThan, IsEqual -/

theorem lessthan_flags (eq z0 z1 : Bool) (u b : ℚ) :
    (ltZ1 true false false eq z1 u b = true ↔ (if eq then u ≤ b else u < b)) ∧
    ltZ0 true false false eq z0 u b = !(ltZ1 true false false eq z1 u b) := by
  cases eq <;> simp [ltZ1, ltZ0, cmpL]

theorem isequal_flag (z1 : Bool) (u b : ℚ) : eqZ1 true false false z1 u b = true ↔ u = b := by
  simp [eqZ1]

/-- cached comparison blocks are frozen after their first evaluation -/
theorem comparison_cached (eq z0 z1 : Bool) (u b : ℚ) :
    ltZ1 true true true eq z1 u b = z1 ∧ ltZ0 true true true eq z0 u b = z0 ∧ eqZ1 true true true z1 u b = z1 := by
  simp [ltZ1, ltZ0, eqZ1]

/-! ## Switcher, Selector -/

/-- flag `i` is set exactly when the input equals option `i` -/
theorem switcher_flag_iff (opts : List ℚ) (v : ℚ) (i : Nat) :
    (swFlags opts v)[i]? = some true ↔ opts[i]? = some v := by
  simp only [swFlags, List.getElem?_map]
  cases h : opts[i]? with
  | none => simp
  | some o =>
    simp only [Option.map_some, Option.some.injEq, beq_iff_eq]
    exact eq_comm

theorem swFlags_count (opts : List ℚ) (v : ℚ) : (swFlags opts v).count true = opts.count v := by
  unfold swFlags
  induction opts with
  | nil => rfl
  | cons o os ih =>
    simp only [List.map_cons, List.count_cons]
    rw [ih]
    by_cases h : v = o
    · subst h; simp
    · have h' : ¬ o = v := fun e => h e.symm
      simp [h, h']

/-- **One-hot**: with pairwise distinct options, a valid input sets exactly one flag -/
theorem switcher_onehot (opts : List ℚ) (v : ℚ) (hnd : opts.Nodup) (hv : v ∈ opts) :
    (swFlags opts v).count true = 1 := by
  rw [swFlags_count]; exact List.count_eq_one_of_mem hnd hv

example : ([0, 1, 2] : List ℚ).Nodup ∧ (2 : ℚ) ∈ ([0, 1, 2] : List ℚ) := by decide

/-- an input outside the options makes the whole call fail (`ValueError`), a valid list never does -/
theorem switcher_validation (opts us : List ℚ) :
    swCheck opts us = none ↔ ∃ v ∈ us, v ∉ opts := by
  unfold swCheck
  by_cases h : us.any (swInvalid opts) = true
  · simp only [h, if_true, true_iff]
    obtain ⟨v, hv, hi⟩ := List.any_eq_true.mp h
    refine ⟨v, hv, ?_⟩
    simp only [swInvalid, Bool.and_eq_true, Bool.not_eq_eq_eq_not, Bool.not_true, List.any_eq_false] at hi
    intro hm; exact hi.1 v hm (by simp)
  · simp only [h]
    constructor
    · intro h'; simp at h'
    · rintro ⟨v, hv, hn⟩
      exfalso; apply h
      refine List.any_eq_true.mpr ⟨v, hv, ?_⟩
      simp only [swInvalid, Bool.and_eq_true, Bool.not_eq_eq_eq_not, Bool.not_true, List.any_eq_false]
      exact ⟨fun o ho => by simpa using (fun e => hn (by rw [e]; exact ho)), by simp⟩

/-- duplicated options are not one-hot (both copies fire) -/
theorem switcher_duplicate_options : (swFlags ([1, 2, 1] : List ℚ) 1).count true = 2 := by decide

/-- **Selector picks the reduce value**: the output is the maximum (minimum) of the inputs, it is one of
the inputs, flag `i` is set exactly when input `i` equals it, and at least one flag is set. -/
theorem selector_picks (isMax : Bool) (a : ℚ) (rest : List ℚ) :
    let ins := a :: rest
    selOut isMax ins ∈ ins ∧
    (∀ x ∈ ins, if isMax then x ≤ selOut isMax ins else selOut isMax ins ≤ x) ∧
    (∀ i : Nat, (selFlags isMax ins)[i]? = some true ↔ ins[i]? = some (selOut isMax ins)) ∧
    true ∈ selFlags isMax ins := by
  intro ins
  have hmem : selOut isMax ins ∈ ins ∧ (∀ x ∈ ins, if isMax then x ≤ selOut isMax ins else selOut isMax ins ≤ x) := by
    cases isMax with
    | true =>
      obtain ⟨h1, h2, h3⟩ := foldl_max_ge rest a
      simp only [selOut, ins, if_true, List.mem_cons]
      refine ⟨by rcases h3 with h | h <;> simp [h], ?_⟩
      intro x hx; rcases hx with rfl | hx
      · exact h1
      · exact h2 x hx
    | false =>
      obtain ⟨h1, h2, h3⟩ := foldl_min_le rest a
      simp only [selOut, ins, List.mem_cons]
      refine ⟨by rcases h3 with h | h <;> simp [h], ?_⟩
      intro x hx; rcases hx with rfl | hx
      · simpa using h1
      · simpa using h2 x hx
  refine ⟨hmem.1, hmem.2, ?_, ?_⟩
  · intro i
    simp only [selFlags, List.getElem?_map]
    cases h : ins[i]? with
    | none => simp
    | some o => simp
  · simp only [selFlags, List.mem_map]
    exact ⟨selOut isMax ins, hmem.1, by simp⟩

/-- with tied inputs both flags are set (the class docstring's warning; the flags then do not select) -/
theorem selector_ties_both : selFlags true ([1, 1] : List ℚ) = [true, true] := by decide

/-! ## SortedLimiter (selection logic; `np.argsort` is an input) -/

section sorted
variable (c : LimCfg) (asc desc : List Nat) (nsel i : Nat) (d : SDev ℚ) (u : ℚ)

/-- a device is flagged iff it was latched before, or it violates the limit now AND is among the `nsel`
worst of either ranking; `zi` is the complement; the latch never releases -/
theorem sortedlimiter_selection :
    let r := sortedDev c asc desc nsel i d u
    (r.lim.zl = true ↔ (d.ql = true ∨ ((inTop asc nsel i = true ∨ inTop desc nsel i = true) ∧
        (limCheckVar c Call.plain d.lim u).zl = true))) ∧
    (r.lim.zu = true ↔ (d.qu = true ∨ ((inTop asc nsel i = true ∨ inTop desc nsel i = true) ∧
        (limCheckVar c Call.plain d.lim u).zu = true))) ∧
    r.lim.zi = !(r.lim.zl || r.lim.zu) ∧ r.ql = r.lim.zl ∧ r.qu = r.lim.zu ∧
    (d.ql = true → r.ql = true) ∧ (d.qu = true → r.qu = true) := by
  simp only [sortedDev]
  cases d.ql <;> cases d.qu <;> cases inTop asc nsel i <;> cases inTop desc nsel i <;>
    cases (limCheckVar c Call.plain d.lim u).zl <;> cases (limCheckVar c Call.plain d.lim u).zu <;> simp

/-- `calc_select` stays inside `[min_sel, max_sel]` -/
theorem calc_select_bounds (minSel maxSel nzl nzu : Nat) (h : minSel ≤ maxSel) :
    minSel ≤ calcSelect minSel maxSel nzl nzu ∧ calcSelect minSel maxSel nzl nzu ≤ maxSel := by
  unfold calcSelect; simp only; split_ifs <;> omega
end sorted

example : (2 : Nat) ≤ 50 := by decide

end Andes.Discrete

namespace Andes.Delay
open Andes.Discrete

/-! ## Delay, mode `step` -/

/-- the real buffer after a call sequence -/
def dlRun (d : Nat) (calls : List (ℚ × ℚ)) : Dl ℚ := calls.foldl (fun s c => stepCall s c.1 c.2) (initStep d)
/-- the unbounded reference history after the same call sequence -/
def histRun (d : Nat) (calls : List (ℚ × ℚ)) : Hist := calls.foldl (fun h c => histCall d h c.1 c.2) (histInit d)

theorem refines_foldl (d : Nat) (calls : List (ℚ × ℚ)) : ∀ (s : Dl ℚ) (h : Hist), Refines d s h →
    Refines d (calls.foldl (fun s c => stepCall s c.1 c.2) s) (calls.foldl (fun h c => histCall d h c.1 c.2) h) ∧
    (calls ≠ [] → (calls.foldl (fun s c => stepCall s c.1 c.2) s).v =
      histOut d (calls.foldl (fun h c => histCall d h c.1 c.2) h)) := by
  induction calls with
  | nil => intro s h hr; exact ⟨hr, fun h => absurd rfl h⟩
  | cons c cs ih =>
    intro s h hr
    obtain ⟨h1, h2⟩ := refines_step d s h hr c.1 c.2
    obtain ⟨h3, h4⟩ := ih _ _ h1
    refine ⟨h3, fun _ => ?_⟩
    cases cs with
    | nil => exact h2
    | cons c' cs' => exact h4 (by simp)

/-- **Delay (step mode)**: for EVERY sequence of `(t, u)` calls — repeated stamps, rewinds, calls at
`t = 0` in the middle included — the output after the last call is the value `delay` slots before the
newest slot of the unbounded history (a new slot per advancing stamp; repeats and rewinds overwrite the
newest slot; `t = 0` re-initialises all slots), and the buffer is the last `delay + 1` slots. -/
theorem delay_step_spec (d : Nat) (calls : List (ℚ × ℚ)) (hne : calls ≠ []) :
    (dlRun d calls).v = histOut d (histRun d calls) ∧
    ∃ pre, (histRun d calls).vals = pre ++ (dlRun d calls).mem ∧ (dlRun d calls).mem.length = d + 1 := by
  obtain ⟨h1, h2⟩ := refines_foldl d calls _ _ (refines_init d)
  obtain ⟨pre, hp⟩ := h1.suffix
  exact ⟨h2 hne, pre, hp, h1.len⟩

/-- strictly advancing stamps -/
def Advancing : ℚ → List (ℚ × ℚ) → Prop
  | _, [] => True
  | last, c :: cs => last < c.1 ∧ Advancing c.1 cs

theorem hist_advancing (d : Nat) (cs : List (ℚ × ℚ)) : ∀ (h : Hist), 0 ≤ h.last → Advancing h.last cs →
    (cs.foldl (fun h c => histCall d h c.1 c.2) h).vals = h.vals ++ cs.map (·.2) := by
  induction cs with
  | nil => intro h _ _; simp
  | cons c cs ih =>
    intro h h0 ha
    obtain ⟨ha1, ha2⟩ := ha
    have hb : branch c.1 h.last = .adv := by
      unfold branch
      have e1 : ¬ c.1 = 0 := by linarith
      have e2 : ¬ c.1 < h.last := by linarith
      have e3 : ¬ c.1 = h.last := by linarith
      simp [zero_lit, e1, e2, e3, ha1]
    have hstep : histCall d h c.1 c.2 = ⟨c.1, h.vals ++ [c.2]⟩ := by simp [histCall, hb]
    simp only [List.foldl_cons, hstep]
    rw [ih ⟨c.1, h.vals ++ [c.2]⟩ (by show (0:ℚ) ≤ c.1; linarith) ha2]
    simp

/-- the familiar special case: initialised at `t = 0` with `u0`, then `n` strictly advancing steps: the
history is `u0` (`delay + 1` times) followed by the inputs, so the output is the input `delay` steps ago
(or `u0` while fewer than `delay` steps have been taken) -/
theorem delay_step_advancing (d : Nat) (u0 : ℚ) (cs : List (ℚ × ℚ)) (ha : Advancing 0 cs) :
    (histRun d ((0, u0) :: cs)).vals = List.replicate (d + 1) u0 ++ cs.map (·.2) := by
  have h0 : histCall d (histInit d) 0 u0 = ⟨0.0, List.replicate (d + 1) u0⟩ := by
    simp [histCall, histInit, branch, zero_lit]
  simp only [histRun, List.foldl_cons, h0]
  rw [hist_advancing d cs ⟨0.0, _⟩ (by show (0:ℚ) ≤ 0.0; norm_num) (by show Advancing (0.0:ℚ) cs; rw [zero_lit]; exact ha)]

example : Advancing 0 [((1 : ℚ), (5 : ℚ)), (2, 7)] := by simp [Advancing]

/-! ## Derivative -/

/-- **Derivative is the backward difference** of the two newest slots over the two newest stamps (values
below `1e-8` in magnitude are chopped to zero); it is zero at `t = 0` and right after a rewind. -/
theorem derivative_is_backward_difference (s : Dl ℚ) (tq u : ℚ) :
    let d := stepCall s tq u
    ((tq = 0 ∨ d.rewind = true) → (derivCall s tq u).v = 0) ∧
    (tq ≠ 0 → d.rewind = false →
      let q := (d.mem.getD 1 0 - d.mem.getD 0 0) / (d.t.getD 1 0 - d.t.getD 0 0)
      (derivCall s tq u).v = if |q| < 1e-8 then 0 else q) := by
  intro d
  have habs : ∀ q : ℚ, pabs q = |q| := by
    intro q; unfold pabs; rw [zero_lit]
    split_ifs with h
    · exact (abs_of_neg h).symm
    · exact (abs_of_nonneg (not_lt.mp h)).symm
  constructor
  · rintro (h | h)
    · simp [derivCall, derivOut, h, zero_lit]
    · simp only [derivCall, derivOut]
      have : (stepCall s tq u).rewind = true := h
      simp [this, zero_lit]
  · intro h1 h2
    have h2' : (stepCall s tq u).rewind = false := h2
    simp only [derivCall, derivOut, h2', zero_lit, habs]
    simp [h1]
    rfl

/-- the buffer of a `Derivative` holds the two newest slots of the unbounded history (instance `delay = 1`
of the refinement): the difference above is between consecutive slots, for every call sequence -/
theorem derivative_buffer (calls : List (ℚ × ℚ)) :
    ∃ pre a b, (histRun 1 calls).vals = pre ++ [a, b] ∧ (dlRun 1 calls).mem = [a, b] := by
  obtain ⟨h1, _⟩ := refines_foldl 1 calls _ _ (refines_init 1)
  obtain ⟨pre, hp⟩ := h1.suffix
  have hl := h1.len
  match hm : (dlRun 1 calls).mem, hl with
  | [a, b], _ => exact ⟨pre, a, b, by rw [← hm]; exact hp, rfl⟩

/-! ## Delay, mode `time`; Average -/

/-- linear interpolation reproduces a straight line: replacing the older bracketing sample by the
interpolated point (what the window trimming does) does not change the interpolant to its right -/
theorem interp_affine (a b ti x0 x1 : ℚ) (h : x0 ≠ x1) :
    interp ti x0 x1 (a * x0 + b) (a * x1 + b) = a * ti + b := by
  unfold interp
  have : x1 - x0 ≠ 0 := sub_ne_zero.mpr (Ne.symm h)
  field_simp
  ring

/-- **Delay (time mode)**, the advancing call that trims the window: the new head stamp is exactly
`t - delay` and the output is the linear interpolation at `t - delay` between the two samples at
positions `k`, `k+1`, where `k+1` is the first stamp `≥ t - delay`. -/
theorem delay_time_spec_partial (delay : ℚ) (s : Dl ℚ) (tq u : ℚ) (k : Nat) (hb : s.bad = false)
    (hbr : branch tq (lastOr s.t 0.0) = .adv) (hw : delay < tq - headOr (s.t ++ [tq]) 0.0)
    (hk : firstGe (s.t ++ [tq]) (tq - delay) = k + 1) :
    let r := timeCall delay s tq u
    r.bad = false ∧ headOr r.t 0 = tq - delay ∧
    r.v = interp (tq - delay) ((s.t ++ [tq]).getD k 0.0) ((s.t ++ [tq]).getD (k + 1) 0.0)
            ((s.mem ++ [u]).getD k 0.0) ((s.mem ++ [u]).getD (k + 1) 0.0) := by
  intro r
  have e : r = { t := (tq - delay) :: (s.t ++ [tq]).drop (k + 1),
                 mem := interp (tq - delay) ((s.t ++ [tq]).getD k 0.0) ((s.t ++ [tq]).getD (k + 1) 0.0)
                   ((s.mem ++ [u]).getD k 0.0) ((s.mem ++ [u]).getD (k + 1) 0.0) :: (s.mem ++ [u]).drop (k + 1),
                 v := interp (tq - delay) ((s.t ++ [tq]).getD k 0.0) ((s.t ++ [tq]).getD (k + 1) 0.0)
                   ((s.mem ++ [u]).getD k 0.0) ((s.mem ++ [u]).getD (k + 1) 0.0),
                 rewind := false, bad := false } := by
    show timeCall delay s tq u = _
    unfold timeCall
    rw [hb, hbr]
    simp only [Bool.false_eq_true, if_false, timeAdv]
    rw [if_pos hw, hk]
    simp [headOr]
  rw [e]
  simp [headOr]

/-- the hypotheses are met by the first trimming step: window `[0]`, call at `t = 1`, delay `1/2` -/
example : branch (1 : ℚ) (lastOr ([0] : List ℚ) 0.0) = .adv ∧
    (1 / 2 : ℚ) < 1 - headOr (([0] : List ℚ) ++ [1]) 0.0 ∧ firstGe (([0] : List ℚ) ++ [1]) (1 - 1 / 2) = 0 + 1 := by
  refine ⟨?_, ?_, ?_⟩
  · simp [branch, lastOr, zero_lit]
  · simp [headOr]; norm_num
  · have : ¬ ((1 : ℚ) - 1 / 2 ≤ 0) := by norm_num
    simp [firstGe, List.findIdx?_cons, this]; norm_num

/- full statement (NOT proved, and false on the real code when a stamp is repeated or rewound while the
   newest sample is a bracketing sample — oracle keys `delay-time-stale-interpolation`,
   `delay-time-window-trimmed-by-rejected-step`): the output equals the piecewise-linear interpolant of the
   whole slot history at `t - delay`. -/

/-- **Average** is the trapezoidal mean over the stored window; two-sample window (`delay = 1`):
the mean of the two newest slots -/
theorem average_two_samples (s : Dl ℚ) (tq m0 m1 t0 t1 : ℚ) (ht : tq ≠ 0) (hne : t0 ≠ t1)
    (hm : s.mem = [m0, m1]) (hs : s.t = [t0, t1]) : (avgPost s tq).v = (m0 + m1) / 2 := by
  have : t1 - t0 ≠ 0 := sub_ne_zero.mpr (Ne.symm hne)
  simp [avgPost, ht, zero_lit, hm, hs, trapSum, lastOr, headOr]
  field_simp
  norm_num
  ring

/-- … and at `t = 0` it is the input itself, the older slots being zeroed -/
theorem average_at_zero (s : Dl ℚ) (m0 m1 : ℚ) (hm : s.mem = [m0, m1]) :
    (avgPost s 0).v = m1 ∧ (avgPost s 0).mem = [0, m1] := by
  simp [avgPost, zero_lit, hm, lastOr, setLast]

/-- the trapezoidal mean of a constant input is that constant (any window with distinct end stamps) -/
theorem trapSum_const (cst : ℚ) : ∀ (ts : List ℚ), trapSum (ts.map (fun _ => cst)) ts =
    2 * cst * (lastOr ts 0 - headOr ts 0) := by
  intro ts
  induction ts with
  | nil => simp [trapSum, lastOr, headOr, zero_lit]
  | cons a ts ih =>
    cases ts with
    | nil => simp [trapSum, lastOr, headOr, zero_lit]
    | cons b ts =>
      simp only [List.map_cons, trapSum] at ih ⊢
      rw [ih]
      simp [lastOr, headOr]
      ring

theorem average_of_constant (s : Dl ℚ) (tq cst : ℚ) (ht : tq ≠ 0) (hm : s.mem = s.t.map (fun _ => cst))
    (hspan : lastOr s.t 0 ≠ headOr s.t 0) : (avgPost s tq).v = cst := by
  have : lastOr s.t 0 - headOr s.t 0 ≠ 0 := sub_ne_zero.mpr hspan
  simp only [avgPost, zero_lit, hm, trapSum_const]
  simp [ht]
  field_simp
  norm_num

example : lastOr ([0, 1] : List ℚ) 0 ≠ headOr ([0, 1] : List ℚ) 0 := by simp [lastOr, headOr]

/-! ## Sampling -/

section sampling
variable (trunc : ℚ → ℚ) (interval offset : ℚ) (s : Smp ℚ) (tq u : ℚ)

/-- **Sample and hold**: an advancing call that is not a sampling instant leaves the output (and the
stored previous output and sample time) untouched -/
theorem sampling_holds_between_samples (h0 : tq ≠ 0) (hadv : s.lastT < tq)
    (hno : ¬ interval < tq - offset - s.lastT) :
    (smpCall trunc interval offset s tq u).v = s.v ∧ (smpCall trunc interval offset s tq u).lastV = s.lastV ∧
    (smpCall trunc interval offset s tq u).lastT = s.lastT := by
  simp [smpCall, h0, zero_lit, hadv, hno]

/-- … over any number of such calls -/
theorem sampling_holds_over_sequence (calls : List (ℚ × ℚ)) :
    ∀ s : Smp ℚ, (∀ c ∈ calls, c.1 ≠ 0 ∧ s.lastT < c.1 ∧ ¬ interval < c.1 - offset - s.lastT) →
    (calls.foldl (fun s c => smpCall trunc interval offset s c.1 c.2) s).v = s.v := by
  induction calls with
  | nil => intro s _; rfl
  | cons c cs ih =>
    intro s h
    obtain ⟨h0, h1, h2⟩ := h c (by simp)
    obtain ⟨e1, _, e3⟩ := sampling_holds_between_samples trunc interval offset s c.1 c.2 h0 h1 h2
    simp only [List.foldl_cons]
    rw [ih _ (fun c' hc' => by rw [e3]; exact h c' (by simp [hc'])), e1]

/-- a sampling instant takes the input and remembers the previous output; a rewind restores it -/
theorem sampling_samples_and_rewinds (h0 : tq ≠ 0) :
    (s.lastT < tq → interval < tq - offset - s.lastT →
      (smpCall trunc interval offset s tq u).v = u ∧ (smpCall trunc interval offset s tq u).lastV = s.v) ∧
    (tq < s.lastT → (smpCall trunc interval offset s tq u).v = s.lastV ∧
      (smpCall trunc interval offset s tq u).rewind = true) := by
  constructor
  · intro h1 h2; simp [smpCall, h0, zero_lit, h1, h2]
  · intro h1
    have : ¬ s.lastT < tq := by linarith
    have h3 : ¬ tq = s.lastT := by linarith
    simp [smpCall, h0, zero_lit, this, h3, h1]

/-- **While time stands still at a sampling instant the output follows the input** (the later Newton
iterations of the step that sampled) — true when the stored sample time is the time itself … -/
theorem sampling_follows_input_at_sample_time_partial (h0 : tq ≠ 0) (hadv : s.lastT < tq)
    (hs : interval < tq - offset - s.lastT) (htr : trunc tq = tq) (u2 : ℚ) :
    (smpCall trunc interval offset (smpCall trunc interval offset s tq u) tq u2).v = u2 := by
  have e : smpCall trunc interval offset s tq u = ⟨u, s.v, tq, false⟩ := by
    simp [smpCall, h0, zero_lit, hadv, hs, htr]
  rw [e]
  simp [smpCall, h0, zero_lit]
end sampling

example : (fun x : ℚ => x) 3 = 3 ∧ (0 : ℚ) < 3 ∧ (1 : ℚ) < 3 - 0 - 0 := by norm_num

/-- **Counterexample (defect of the pinned tree, repaired by /repo commit 653d708 "fix: Sampling keeps the
time of the last sample as a float"; the driver now instantiates `trunc := id`)**: `_last_t` was an
INTEGER array, `self._last_t[0] = dae_t` truncated.
Interval 1, sample taken at `t = 3/2` (stored as `1`): the next iteration at the same `t = 3/2` is treated
as an advancing call that is not a sampling instant, so the output stays at the first iterate's value `5`
instead of following the input `7`. -/
theorem sampling_last_t_truncated :
    (smpCall (fun x => (⌊x⌋ : ℚ)) 1 0 (smpCall (fun x => (⌊x⌋ : ℚ)) 1 0 smpInit (3 / 2) 5) (3 / 2) 7).v = 5 := by
  have hfl : ⌊(3 / 2 : ℚ)⌋ = 1 := by rw [Int.floor_eq_iff]; norm_num
  simp [smpCall, smpInit, zero_lit, hfl]
  norm_num

end Andes.Delay
