import Andes.Proofs.Eig

/-!
# C08 — Eigenvalue analysis reports the true small-signal modes of the DAE

Property theorems only.  Model: `Andes/Model/Eig.lean` (`EIG.find_zero_states`, `_reduce`, `_reorder`,
`calc_As`, `_store_stats`, the normalisation of `calc_pfactor`, the "most associated" selection of
`report`), exact rationals, the linear solver and LAPACK's `eig` as parameters; tied to `/repo` by
`harness/c08.py` (same matrices through the real `EIG` methods and through the model).

Clauses of the statement and where they are decided

* "reported eigenvalues = finite generalised eigenvalues of the linearised DAE" and "state matrix is
  `T⁻¹(fx − fy gy⁻¹ gx)`":  `schur_reduction_pencil`, `state_matrix_eigen_iff_pencil` (any field, any finite
  index types, so also over `ℂ`), and on the model `calcAs_state_matrix_partial`, `calcAs_modes_partial`
  (hypothesis: no zero time constant).
* "states with zero time constant treated as algebraic": `zero_T_states_are_algebraic` is the theorem for the
  INTENDED two-stage reduction; the code as written does not implement it — `reorder_not_permutation`,
  `reorder_bidx_not_advanced`, `calcAs_zeroT_dims_error`, `calcAs_zeroT_index_error`,
  `calcAs_zeroT_divides_twice` are Lean-proved counterexamples on the faithful model.
* "positive/zero/negative counts partition the eigenvalues": `counts_partition` (thresholds `> tol`,
  `|·| ≤ tol`, `< −tol`), `counts_partition_partial` / `counts_code_overcount` / `counts_partition_fails`
  for the thresholds of the pinned tree (`< +tol`).
* "participation factors non-negative, sum to one, most associated state named correctly":
  `pfactor_normalised`, `most_associated_is_argmax`, `pfactor_denominator_ge_one`; for the normalisation of
  the pinned tree `pfactor_nonneg_code`, `pfactor_normalised_partial`, `pfactor_rows_not_normalised`.

* "every operating point (including after parameter sweeps)": `sweep_uses_current_partial`, `sweep_constant`,
  `sweep_stale` (the swept time constant is stored in `dae.Tf` only by the first `TDS.init`).

The harness inspects the current source to decide which variant of `_store_stats` / `calc_pfactor` it
is running (`nNegCode`/`nNegSpec`, `pfCode`/`pfSpec`) and compares with that variant.
-/
open Matrix
namespace Andes.Eig

/-! ## 1. Schur-complement reduction: modes of the DAE pencil = modes of the reduced pencil -/
section Algebra
variable {K : Type} [Field K] {n m n₁ n₂ : Type} [Fintype n] [Fintype m] [Fintype n₁] [Fintype n₂]
  [DecidableEq n] [DecidableEq m] [DecidableEq n₁] [DecidableEq n₂]

/-- `gy` invertible: `λ` is a generalised eigenvalue of the linearised DAE
`T ẋ = fx x + fy y, 0 = gx x + gy y` (some non-zero `(x, y)`) iff it is one of the reduced pencil
`(fx − fy gy⁻¹ gx, T)`.  Any field (ℝ, ℂ), any finite index types, `T` arbitrary (zeros allowed). -/
theorem schur_reduction_pencil (fx : Matrix n n K) (fy : Matrix n m K) (gx : Matrix m n K)
    (gy : Matrix m m K) (hgy : IsUnit gy.det) (T : n → K) (lam : K) :
    (∃ x y, (x ≠ 0 ∨ y ≠ 0) ∧ fx *ᵥ x + fy *ᵥ y = lam • (T * x) ∧ gx *ᵥ x + gy *ᵥ y = 0) ↔
    (∃ x, x ≠ 0 ∧ (fx - fy * gy⁻¹ * gx) *ᵥ x = lam • (T * x)) :=
  schur_exists fx fy gx gy hgy T lam

/-- eigenvector level: `y` is slaved to `x` -/
theorem schur_reduction_eigenpair (fx : Matrix n n K) (fy : Matrix n m K) (gx : Matrix m n K)
    (gy : Matrix m m K) (hgy : IsUnit gy.det) (T : n → K) (lam : K) (x : n → K) (y : m → K) :
    (fx *ᵥ x + fy *ᵥ y = lam • (T * x) ∧ gx *ᵥ x + gy *ᵥ y = 0) ↔
    (y = -(gy⁻¹ *ᵥ (gx *ᵥ x)) ∧ (fx - fy * gy⁻¹ * gx) *ᵥ x = lam • (T * x)) :=
  schur_pencil fx fy gx gy hgy T lam x y

/-- all time constants non-zero: the modes of the DAE are exactly the eigenvalues of the state matrix
`A_s = T⁻¹ (fx − fy gy⁻¹ gx)` -/
theorem state_matrix_eigen_iff_pencil (fx : Matrix n n K) (fy : Matrix n m K) (gx : Matrix m n K)
    (gy : Matrix m m K) (hgy : IsUnit gy.det) (T : n → K) (hT : ∀ i, T i ≠ 0) (lam : K) :
    (∃ x y, (x ≠ 0 ∨ y ≠ 0) ∧ fx *ᵥ x + fy *ᵥ y = lam • (T * x) ∧ gx *ᵥ x + gy *ᵥ y = 0) ↔
    (∃ x, x ≠ 0 ∧ (diagonal (fun i => (T i)⁻¹) * (fx - fy * gy⁻¹ * gx)) *ᵥ x = lam • x) := by
  rw [schur_reduction_pencil fx fy gx gy hgy]
  constructor
  · rintro ⟨x, h0, h⟩; exact ⟨x, h0, (diag_inv_eigen _ T hT lam x).mp h⟩
  · rintro ⟨x, h0, h⟩; exact ⟨x, h0, (diag_inv_eigen _ T hT lam x).mpr h⟩

/-- states `n₂` with zero time constant behave as algebraic variables: eliminating `y` and then the
zero-`T` states (second Schur complement of `S = fx − fy gy⁻¹ gx` w.r.t. its `n₂ × n₂` block) yields exactly
the finite generalised eigenvalues of the original pencil.  This is what `_reorder` + the second
`_reduce` are meant to compute (with `T₁⁻¹` applied ONCE). -/
theorem zero_T_states_are_algebraic (fx : Matrix (n₁ ⊕ n₂) (n₁ ⊕ n₂) K) (fy : Matrix (n₁ ⊕ n₂) m K)
    (gx : Matrix m (n₁ ⊕ n₂) K) (gy : Matrix m m K) (hgy : IsUnit gy.det) (T₁ : n₁ → K)
    (hS : IsUnit (fx - fy * gy⁻¹ * gx).toBlocks₂₂.det) (lam : K) :
    (∃ x y, (x ≠ 0 ∨ y ≠ 0) ∧ fx *ᵥ x + fy *ᵥ y = lam • (Sum.elim T₁ (0 : n₂ → K) * x) ∧
        gx *ᵥ x + gy *ᵥ y = 0) ↔
    (∃ x₁, x₁ ≠ 0 ∧
      ((fx - fy * gy⁻¹ * gx).toBlocks₁₁ -
        (fx - fy * gy⁻¹ * gx).toBlocks₁₂ * ((fx - fy * gy⁻¹ * gx).toBlocks₂₂)⁻¹ *
          (fx - fy * gy⁻¹ * gx).toBlocks₂₁) *ᵥ x₁ = lam • (T₁ * x₁)) :=
  nested_schur fx fy gx gy hgy T₁ hS lam

end Algebra

/-- non-vacuity of the algebra: a 1+1 pencil with `gy = 4` has the mode `λ = (1 − 2·¼·2)/2 = 0` -/
example : ∃ (x : Fin 1 → ℚ) (y : Fin 1 → ℚ), (x ≠ 0 ∨ y ≠ 0) ∧
    (!![1] : Matrix (Fin 1) (Fin 1) ℚ) *ᵥ x + (!![2] : Matrix (Fin 1) (Fin 1) ℚ) *ᵥ y = (0 : ℚ) • ((fun _ => 2) * x) ∧
    (!![2] : Matrix (Fin 1) (Fin 1) ℚ) *ᵥ x + (!![4] : Matrix (Fin 1) (Fin 1) ℚ) *ᵥ y = 0 := by
  refine ⟨fun _ => 2, fun _ => -1, Or.inl ?_, ?_, ?_⟩
  · intro h; have := congrFun h 0; norm_num at this
  · funext i; fin_cases i; simp [dotProduct]
  · funext i; fin_cases i; simp [dotProduct]; norm_num

/-! ## 2. `calc_As` of the model -/

/-- **state matrix** (hypothesis: no zero time constant): whenever the solver returns and satisfies its
contract, `calc_As` yields `T⁻¹ (fx − fy gy⁻¹ gx)` of the matrices it was given, with the states in their
original order.
Full statement (not provable for the code as written, see the counterexamples below): the same with the
zero-`T` states removed and the second Schur complement in place of `fx − fy gy⁻¹ gx`. -/
theorem calcAs_state_matrix_partial (solve : Nat → Nat → Mat → Mat → Option Mat) (hs : SolveOk solve)
    (n m : Nat) (fx fy gx gy : Mat) (Tf : Vec) (hT : ∀ i < n, Tf i ≠ 0)
    (hgy : IsUnit (toM m m gy).det) (r : Res) (h : calcAs solve n m fx fy gx gy Tf = .ok r) :
    r.dim = n ∧ r.names = List.range n ∧ r.asc = none ∧
    toM n n r.As = diagonal (fun i : Fin n => (Tf i)⁻¹) *
      (toM n n fx - toM n m fy * (toM m m gy)⁻¹ * toM m n gx) :=
  calcAs_no_zeroT solve hs n m fx fy gx gy Tf hT hgy r h

/-- **reported modes** (hypothesis: no zero time constant): `(μ, v)` is an eigenpair of the matrix returned by
`calc_As` for some `v ≠ 0` iff `μ` is a generalised eigenvalue of the DAE pencil it was given. -/
theorem calcAs_modes_partial (solve : Nat → Nat → Mat → Mat → Option Mat) (hs : SolveOk solve)
    (n m : Nat) (fx fy gx gy : Mat) (Tf : Vec) (hT : ∀ i < n, Tf i ≠ 0)
    (hgy : IsUnit (toM m m gy).det) (r : Res) (h : calcAs solve n m fx fy gx gy Tf = .ok r) (μ : ℚ) :
    (∃ v : Fin n → ℚ, v ≠ 0 ∧ toM n n r.As *ᵥ v = μ • v) ↔
    (∃ (x : Fin n → ℚ) (y : Fin m → ℚ), (x ≠ 0 ∨ y ≠ 0) ∧
      toM n n fx *ᵥ x + toM n m fy *ᵥ y = μ • ((fun i : Fin n => Tf i) * x) ∧
      toM m n gx *ᵥ x + toM m m gy *ᵥ y = 0) := by
  obtain ⟨_, _, _, hAs⟩ := calcAs_no_zeroT solve hs n m fx fy gx gy Tf hT hgy r h
  rw [hAs]
  exact (state_matrix_eigen_iff_pencil (toM n n fx) (toM n m fy) (toM m n gx) (toM m m gy) hgy
    (fun i : Fin n => Tf i) (fun i => hT i i.isLt) μ).symm

/-- without zero time constants `calc_As` cannot fail once the solver has returned -/
theorem calcAs_total_partial (solve : Nat → Nat → Mat → Mat → Option Mat) (n m : Nat) (fx fy gx gy : Mat)
    (Tf : Vec) (hT : ∀ i < n, Tf i ≠ 0) (gyx : Mat) (hsol : solve m n gy gx = some gyx) :
    ∃ r, calcAs solve n m fx fy gx gy Tf = .ok r := by
  have hz : zeroIdx n Tf = [] := (zeroIdx_nil_iff n Tf).mpr hT
  unfold calcAs
  simp [hsol, hz]

/-! ### concrete system used for non-vacuity and for the counterexamples
`fx = [[1,2],[3,4]]`, `fy = [1, ½]ᵀ`, `gx = [2, 1]`, `gy = [4]` -/
def fxE : Mat := fun i j => match i, j with | 0, 0 => 1 | 0, 1 => 2 | 1, 0 => 3 | 1, 1 => 4 | _, _ => 0
def fyE : Mat := fun i _ => match i with | 0 => 1 | 1 => 1/2 | _ => 0
def gxE : Mat := fun _ j => match j with | 0 => 2 | 1 => 1 | _ => 0
def gyE : Mat := fun _ _ => 4
/-- `Tf = [2, 4]` -/
def TfA : Vec := fun i => match i with | 0 => 2 | _ => 4
/-- `Tf = [2, 0]` : the zero-`T` state is already last -/
def TfB : Vec := fun i => match i with | 0 => 2 | _ => 0
/-- `Tf = [0, 4]` -/
def TfC : Vec := fun i => match i with | 0 => 0 | _ => 4
/-- `Tf = [0, 0]` -/
def TfD : Vec := fun _ => 0

/-- the one-variable solver satisfies the contract, so `SolveOk` is satisfiable by a solver that returns -/
theorem solve1_ok : SolveOk solve1 := by
  intro m k A B X h
  unfold solve1 at h
  split_ifs at h with hc
  obtain ⟨hm, hA⟩ := hc
  subst hm
  injection h with h
  subst h
  funext i j
  have hi : i = 0 := Subsingleton.elim _ _
  subst hi
  simp only [toM, Matrix.mul_apply, Fin.sum_univ_one, Fin.val_zero]
  field_simp

/-- non-vacuity of `calcAs_state_matrix_partial` / `calcAs_modes_partial`: with `Tf = [2,4]` the model returns
`[[1/4, 7/8], [11/16, 31/32]]` -/
example : okDim (calcAs solve1 2 1 fxE fyE gxE gyE TfA) = some 2 ∧
    okEntry (calcAs solve1 2 1 fxE fyE gxE gyE TfA) 0 0 = some (1/4) ∧
    okEntry (calcAs solve1 2 1 fxE fyE gxE gyE TfA) 0 1 = some (7/8) ∧
    okEntry (calcAs solve1 2 1 fxE fyE gxE gyE TfA) 1 0 = some (11/16) ∧
    okEntry (calcAs solve1 2 1 fxE fyE gxE gyE TfA) 1 1 = some (31/32) := by decide +kernel
example : (∀ i < 2, TfA i ≠ 0) ∧ IsUnit (toM 1 1 gyE).det := by
  constructor
  · intro i hi
    have : i = 0 ∨ i = 1 := by omega
    rcases this with h | h <;> subst h <;> simp [TfA]
  · simp [toM, gyE, Matrix.det_unique]

/-! ### what the code does when there ARE zero time constants (Lean-proved on the faithful model) -/

/-- `_reorder` does not build a permutation: for `Tf = [0, 1, 0]` it produces `rows = [0,0,2]`,
`cols = [1,1,2]`, i.e. the "permutation matrix" has the entry `2` at `(0,1)` and an empty row 1
(`rows[bidx] = ii` where `cols[bidx] = ii` is needed). -/
theorem reorder_not_permutation :
    reoLoop 3 [0, 2] 1 = some { bidx := 1, rows := [0, 0, 2], cols := [1, 1, 2], swaps := [(0, 1)] } ∧
    permOf [0, 0, 2] [1, 1, 2] 0 1 = 2 ∧ (∀ j < 3, permOf [0, 0, 2] [1, 1, 2] 1 j = 0) := by
  decide +kernel

/-- `bidx` is never advanced: two zero-`T` states in front (`Tf = [0,0,1,1]`) are both sent to the
same back position 2 -/
theorem reorder_bidx_not_advanced :
    reoLoop 4 [0, 1] 2 =
      some { bidx := 2, rows := [0, 1, 1, 3], cols := [2, 2, 2, 3], swaps := [(0, 2), (1, 2)] } := by
  decide +kernel

/-- `Tf = [0, 4]`: `perm` comes out `1 × 2` and `perm * As * perm` raises `TypeError` -/
theorem calcAs_zeroT_dims_error : errOf (calcAs gaussSolve 2 1 fxE fyE gxE gyE TfC) = some .dims := by
  decide +kernel

/-- `Tf = [0, 0]`: `rows[bidx]` with `bidx = n` raises `IndexError` -/
theorem calcAs_zeroT_index_error : errOf (calcAs gaussSolve 2 1 fxE fyE gxE gyE TfD) = some .index := by
  decide +kernel

/-- `Tf = [2, 0]` (nothing to reorder): the code returns the 1×1 matrix `−23/124`, because the first
`_reduce` has already divided row 0 by `T₀ = 2` and the second divides again.  `−23/124` is NOT a
generalised eigenvalue of the pencil (only the trivial solution), `−23/62` is. -/
theorem calcAs_zeroT_divides_twice :
    okDim (calcAs gaussSolve 2 1 fxE fyE gxE gyE TfB) = some 1 ∧
    okEntry (calcAs gaussSolve 2 1 fxE fyE gxE gyE TfB) 0 0 = some (-23/124) ∧
    (∀ x0 x1 y : ℚ, 1 * x0 + 2 * x1 + 1 * y = (-23/124) * (2 * x0) → 3 * x0 + 4 * x1 + (1/2) * y = (-23/124) * (0 * x1) →
      2 * x0 + 1 * x1 + 4 * y = 0 → x0 = 0 ∧ x1 = 0 ∧ y = 0) ∧
    (∃ x0 x1 y : ℚ, x0 ≠ 0 ∧ 1 * x0 + 2 * x1 + 1 * y = (-23/62) * (2 * x0) ∧ 3 * x0 + 4 * x1 + (1/2) * y = (-23/62) * (0 * x1) ∧
      2 * x0 + 1 * x1 + 4 * y = 0) := by
  refine ⟨by decide +kernel, by decide +kernel, ?_, ?_⟩
  · intro x0 x1 y h1 h2 h3
    refine ⟨?_, ?_, ?_⟩ <;> linarith
  · exact ⟨31, -22, -10, by norm_num, by norm_num, by norm_num, by norm_num⟩

/-! ## 3. `_store_stats` -/

/-- with the thresholds `re > tol`, `|re| ≤ tol`, `re < −tol` the three counts partition the eigenvalues,
for every list of real parts and every `tol ≥ 0` -/
theorem counts_partition (tol : ℚ) (ht : 0 ≤ tol) (l : List ℚ) :
    nPos tol l + nZero tol l + nNegSpec tol l = l.length :=
  counts_spec tol ht l

/-- the thresholds of the pinned tree (`n_negative` counts `re < +tol`): every eigenvalue with
`−tol ≤ re < tol` is counted twice — exact amount of the over-count -/
theorem counts_code_overcount (tol : ℚ) (ht : 0 ≤ tol) (l : List ℚ) :
    nPos tol l + nZero tol l + nNegCode tol l =
      l.length + l.countP (fun r => decide (-tol ≤ r ∧ r < tol)) :=
  counts_code tol ht l

/-- the code's counts partition the eigenvalues when no real part lies in `[−tol, tol)`.
Full statement (fails, see `counts_partition_fails`): no hypothesis on `l`. -/
theorem counts_partition_partial (tol : ℚ) (ht : 0 ≤ tol) (l : List ℚ)
    (h : ∀ r ∈ l, r < -tol ∨ tol ≤ r) :
    nPos tol l + nZero tol l + nNegCode tol l = l.length := by
  rw [counts_code tol ht l]
  have : l.countP (fun r => decide (-tol ≤ r ∧ r < tol)) = 0 := by
    rw [List.countP_eq_zero]
    intro r hr
    rcases h r hr with h1 | h1 <;> simp <;> intro h2 <;> linarith
  omega

/-- a zero eigenvalue is counted as "zero" AND as "negative": `0 + 1 + 2 = 3` for two eigenvalues
(on kundur_full the real code prints 0 / 1 / 52 for 52 states) -/
theorem counts_partition_fails :
    nPos (1/1000000) [0, -1] + nZero (1/1000000) [0, -1] + nNegCode (1/1000000) [0, -1] = 3 ∧
    [(0 : ℚ), -1].length = 2 := by decide +kernel

example : (0 : ℚ) ≤ 1/1000000 ∧ ∀ r ∈ [(2 : ℚ), -1, 1/1000000], r < -(1/1000000) ∨ (1/1000000 : ℚ) ≤ r := by
  refine ⟨by norm_num, ?_⟩
  intro r hr
  simp only [List.mem_cons, List.not_mem_nil, or_false] at hr
  rcases hr with h | h | h <;> subst h <;> norm_num

/-! ## 4. participation factors -/

/-- normalising ROW `k` (mode `k`) by the sum of mode `k`: every entry is non-negative, every row with a
non-zero denominator sums to one -/
theorem pfactor_normalised (n : Nat) (aW aN : Mat) (hW : ∀ i < n, ∀ k < n, 0 ≤ aW i k)
    (hN : ∀ i < n, ∀ k < n, 0 ≤ aN i k) (k : Nat) (hk : k < n) :
    (∀ i < n, 0 ≤ pfSpec n aW aN k i) ∧
    (wabs n aW aN k ≠ 0 → rsum n (pfSpec n aW aN k) = 1) := by
  constructor
  · intro i hi
    exact div_nonneg (mul_nonneg (hW i hi k hk) (hN i hi k hk)) (wabs_nonneg n aW aN hW hN k hk)
  · intro hne
    have : rsum n (pfSpec n aW aN k) = wabs n aW aN k / wabs n aW aN k := by
      unfold pfSpec
      rw [rsum_div]; rfl
    rw [this, div_self hne]

/-- the entries the pinned tree computes are non-negative as well -/
theorem pfactor_nonneg_code (n : Nat) (aW aN : Mat) (hW : ∀ i < n, ∀ k < n, 0 ≤ aW i k)
    (hN : ∀ i < n, ∀ k < n, 0 ≤ aN i k) (k : Nat) (hk : k < n) (i : Nat) (hi : i < n) :
    0 ≤ pfCode n aW aN k i :=
  div_nonneg (mul_nonneg (hW i hi k hk) (hN i hi k hk)) (wabs_nonneg n aW aN hW hN i hi)

/-- the normalisation of the pinned tree (column `i` of the transposed matrix divided by the sum of mode
`i`) gives rows that sum to one when all mode sums coincide.
Full statement (fails, see `pfactor_rows_not_normalised`): without `heq`. -/
theorem pfactor_normalised_partial (n : Nat) (aW aN : Mat) (k : Nat)
    (heq : ∀ i < n, wabs n aW aN i = wabs n aW aN k) (hne : wabs n aW aN k ≠ 0) :
    rsum n (pfCode n aW aN k) = 1 := by
  have h1 : rsum n (pfCode n aW aN k) = rsum n (pfSpec n aW aN k) := by
    apply rsum_congr
    intro i hi
    simp [pfCode, pfSpec, heq i hi]
  have : rsum n (pfSpec n aW aN k) = wabs n aW aN k / wabs n aW aN k := by
    unfold pfSpec
    rw [rsum_div]; rfl
  rw [h1, this, div_self hne]

/-- 2-state witness `|W| = [[1,2],[0,1]]`, `|N| = [[1,1],[0,1]]` (entry `[state, mode]`): mode sums `1` and `3` -/
def aWE : Mat := fun i k => match i, k with | 0, 0 => 1 | 0, 1 => 2 | 1, 0 => 0 | 1, 1 => 1 | _, _ => 0
def aNE : Mat := fun i k => match i, k with | 0, 0 => 1 | 0, 1 => 1 | 1, 0 => 0 | 1, 1 => 1 | _, _ => 0

/-- on the faithful model the row of mode 1 sums to `2/1 + 1/3 = 7/3`; with the intended normalisation
they do.  (kundur_full, real code: row sums 0.57 … 5.65.) -/
theorem pfactor_rows_not_normalised :
    rsum 2 (pfCode 2 aWE aNE 0) = 1 ∧ rsum 2 (pfCode 2 aWE aNE 1) = 7/3 ∧
    wabs 2 aWE aNE 0 = 1 ∧ wabs 2 aWE aNE 1 = 3 ∧
    rsum 2 (pfSpec 2 aWE aNE 0) = 1 ∧ rsum 2 (pfSpec 2 aWE aNE 1) = 1 := by decide +kernel

/-- the denominators cannot vanish for real eigenvectors: `W.T @ N = I` gives `Σ_i |W_ik| |N_ik| ≥ 1` -/
theorem pfactor_denominator_ge_one (n : Nat) (W N : Mat) (k : Nat)
    (h : rsum n (fun i => W i k * N i k) = 1) :
    1 ≤ wabs n (fun i k => |W i k|) (fun i k => |N i k|) k :=
  wabs_ge_one n W N k h

/-- `list(row).index(max(row))`: for every non-empty row the named position is inside the row, carries a
maximal participation factor, and is the FIRST such position -/
theorem most_associated_is_argmax (row : List ℚ) (hne : row ≠ []) :
    argmaxFirst row < row.length ∧
    (∀ j < row.length, row.getD j 0 ≤ row.getD (argmaxFirst row) 0) ∧
    (∀ j < argmaxFirst row, row.getD j 0 < row.getD (argmaxFirst row) 0) :=
  argmaxFirst_spec row hne

example : argmaxFirst [1/10, 1/2, 1/2, 1/5] = 1 := by decide +kernel
example : (∀ i < 2, ∀ k < 2, 0 ≤ aWE i k) ∧ (∀ i < 2, ∀ k < 2, 0 ≤ aNE i k) ∧ wabs 2 aWE aNE 1 ≠ 0 := by
  decide +kernel
/-- `heq` of `pfactor_normalised_partial` is satisfiable on a non-trivial matrix (both mode sums `= 2`) -/
example : (∀ i < 2, wabs 2 (fun _ _ => 1) (fun _ _ => 1) i = wabs 2 (fun _ _ => 1) (fun _ _ => 1) 0) ∧
    wabs 2 (fun _ _ => 1) (fun _ _ => 1) 0 ≠ 0 := by decide +kernel
/-- `W = N = I` satisfies the hypothesis of `pfactor_denominator_ge_one` -/
example : rsum 2 (fun i => (if i = 0 then (1 : ℚ) else 0) * (if i = 0 then 1 else 0)) = 1 := by decide +kernel

/-! ## 5. parameter sweeps: is the analysed operating point the current one? -/

/-- a sweep over a time-constant parameter analyses the new value in its FIRST round, provided the
time-domain routine was not initialised before.
Full statement (fails, see `sweep_stale`): `sweepTf s vs = vs` for every `s` and `vs`. -/
theorem sweep_uses_current_partial (tf v : ℚ) : sweepTf { initialized := false, tfStored := tf } [v] = [v] := by
  simp [sweepTf, tdsInit]

/-- once the routine is initialised every round of the sweep sees the time constant stored at that
moment — for every list of values -/
theorem sweep_constant (s : SwSt) (h : s.initialized = true) (vs : List ℚ) :
    sweepTf s vs = vs.map (fun _ => s.tfStored) := by
  induction vs with
  | nil => simp [sweepTf]
  | cons v vs ih =>
    have : tdsInit s v = s := by simp [tdsInit, h]
    simp [sweepTf, this, ih]

/-- the documented example (`sweep(GENCLS.M, ..., values)`): the second value is never analysed -/
theorem sweep_stale : sweepTf { initialized := false, tfStored := 0 } [10, 20] = [10, 10] := by decide +kernel

example : ({ initialized := true, tfStored := 117 } : SwSt).initialized = true := rfl

end Andes.Eig
