import Andes.Proofs.Config
import Andes.Gen.ConfigTables
/-! # C20 — the configuration in effect is the one the user supplied

Theorems about the model `Andes/Model/Config.lean` (tied to the real code by `harness/c20.py`).
`F` is the type of floats, `N : Numerals F` Python's numeral functions (parameters).

* `coercion_order`, `coercion_nonstring` — what `Config._set` stores;
* `precedence_config` — for EVERY field, dictionary, rc object and default list: the value in effect is the
  dictionary's, else the rc object's, else the default's (each passed through `_set`);
* `options_beat_file` — in the rc object a section's key holds the LAST option naming it, else the file's text;
  `options_effective` — EVERY list of well-formed options takes effect, with any rc object or none;
* `malformed_option_rejected` — wrong `=` / `.` count anywhere in the list is an error
  (`empty_section_or_field_rejected_witness` : `.x=1` and `TDS.=1` are rejected since the repair);
* `alt_rejected` — a constructed config has every public field inside its tuple/set `_alt`;
  `update_alt_rejected` — `Config.update` rejects as well, in every state of the object;
* `save_load_roundtrip_partial` — ints, finite floats and non-numeric trimmed strings come back with value and
  type when the cache is fresh (`roundtrip_numeric_string_changes_type`, `roundtrip_bool_changes_type`,
  `save_none_raises`, `save_uppercase_key_raises`);
* `all_defaults_in_alt` (generated table, `decide +kernel`) and `stock_defaults_construct_ok`;
* `config_path_precedence`. -/
namespace Andes.Config

variable {F : Type}

/-! ## 1. coercion -/

/-- `Config._set` on a string: `int` first, then `float`, else unchanged -/
theorem coercion_order (N : Numerals F) (s : String) :
    coerce N (.str s) =
      match N.parseInt s with
      | some i => .int i
      | none => match N.parseFlt s with
        | some x => .flt x
        | none => .str s := rfl

/-- anything that is not a string is stored as it is (ints, floats, booleans, None) -/
theorem coercion_nonstring (N : Numerals F) (v : Val F) (h : ∀ s, v ≠ .str s) : coerce N v = v := by
  cases v with
  | str s => exact absurd rfl (h s)
  | _ => rfl

example : (Val.bool true : Val Nat) ≠ .str "x" := by decide

/-! ## 2. precedence of the channels inside one `Config` object -/

/-- what the rc object offers to the config named `name` for key `k` -/
def rcOffer (rc : Option Rc) (name k : String) : Option String :=
  match rc with
  | some r => if r.hasName name then r.lookup name k else none
  | none => none

/-- the value the three channels give to key `k`: dictionary, else rc object, else default -/
def chosen (N : Numerals F) (d : Decl F) (dict : List (String × Val F)) (rc : Option Rc) (k : String) :
    Option (Val F) :=
  match aget k dict with
  | some v => some (coerce N v)
  | none =>
    match rcOffer rc d.name k with
    | some t => some (coerce N (.str t))
    | none => (aget k d.defaults).map (coerce N)

theorem load_get (N : Numerals F) (c : Cfg F) (rc : Option Rc) {k : String} (hk : k ∉ reserved) :
    aget k (c.load N rc).fields =
      match aget k c.fields with
      | some v => some v
      | none => (rcOffer rc c.name k).map (fun t => coerce N (.str t)) := by
  unfold Cfg.load rcOffer
  cases rc with
  | none => simp only [Option.map_none]; cases aget k c.fields <;> rfl
  | some r =>
    simp only
    by_cases hn : r.hasName c.name
    · simp only [hn, if_true]
      rw [Cfg.add_get N c _ hk]
      cases aget k c.fields with
      | some v => rfl
      | none =>
        simp only
        rw [aget_map_val k (fun t => Val.str t) (r.items c.name), Rc.items_get]
        cases r.lookup c.name k <;> rfl
    · have hn' : r.hasName c.name = false := by simpa using hn
      simp only [hn', Bool.false_eq_true, if_false, Option.map_none]
      cases aget k c.fields <;> rfl

theorem load_name (N : Numerals F) (c : Cfg F) (rc : Option Rc) : (c.load N rc).name = c.name := by
  unfold Cfg.load
  cases rc with
  | none => rfl
  | some r => simp only; split <;> simp [Cfg.add_name]

theorem load_cache (N : Numerals F) (c : Cfg F) (rc : Option Rc) : (c.load N rc).cache = c.cache := by
  unfold Cfg.load
  cases rc with
  | none => rfl
  | some r => simp only; split <;> simp [Cfg.add_cache]

/-- **precedence** (all fields, all dictionaries, all rc objects, all default lists): the field holds the
dictionary value if the dictionary names it, else the rc object's text for this section (own option first,
then the parser-wide DEFAULT) if the rc object has the section, else the declared default — each after `_set`. -/
theorem precedence_config (N : Numerals F) (d : Decl F) (dict : List (String × Val F)) (rc : Option Rc)
    {k : String} (hk : k ∉ reserved) :
    aget k (build N d dict rc).fields = chosen N d dict rc k := by
  unfold build chosen
  simp only
  rw [Cfg.add_get N _ _ hk, load_get N _ rc hk, Cfg.add_name, Cfg.add_get N _ _ hk]
  simp only [Cfg.empty, aget_nil]
  cases aget k dict with
  | some v => rfl
  | none =>
    simp only [Option.map_none]
    cases rcOffer rc d.name k <;> rfl

/-- `check()` changes the cache only: the constructed object has exactly the fields of `build` -/
theorem construct_fields {N : Numerals F} {d : Decl F} {dict : List (String × Val F)} {rc : Option Rc} {c : Cfg F}
    (h : construct N d dict rc = .ok c) : c.fields = (build N d dict rc).fields := by
  unfold construct Cfg.check at h
  simp only at h
  split at h
  · cases h
  · injection h with h
    subst h
    unfold Cfg.asDict
    split <;> rfl

/-- the four-way statement for a constructed config -/
theorem precedence {N : Numerals F} {d : Decl F} {dict : List (String × Val F)} {rc : Option Rc} {c : Cfg F}
    (h : construct N d dict rc = .ok c) {k : String} (hk : k ∉ reserved) :
    aget k c.fields = chosen N d dict rc k := by
  rw [construct_fields h]; exact precedence_config N d dict rc hk

/-- a small concrete numerals instance for witnesses (ints as in Python, no float texts) -/
def numSimple : Numerals Nat :=
  ⟨pyInt, fun _ => none, fun i => toString i, fun _ => "1.5", fun _ _ => false⟩

/-- non-vacuity: dict beats file beats default on a concrete triple (the `mva` observation of the design) -/
example :
    let d : Decl Nat := ⟨"System", [("freq", .int 60), ("mva", .int 100)], []⟩
    let rc : Rc := ⟨[], [("System", [("mva", "200"), ("freq", "50")])]⟩
    (construct numSimple d [("mva", .int 300)] (some rc)).toOption.map (fun c => c.fields)
      = some [("mva", .int 300), ("freq", .int 50)] := by decide +kernel

/-! ## 3. options against the file -/

/-- the value the option list gives to `sec.key`: the LAST well-formed option naming it -/
def optValue (sec key : String) : List String → Option String
  | [] => none
  | item :: rest =>
    match optValue sec key rest with
    | some v => some v
    | none =>
      match parseOpt item with
      | .ok (s, k, v) => if s = sec ∧ lower k = key then some v else none
      | .error _ => none

theorem own_ensureSection {rc rc1 : Rc} {s : String} (ha : rc.ensureSection s = .ok rc1) (sec : String) :
    rc1.own sec = rc.own sec := by
  unfold Rc.ensureSection at ha
  split at ha
  · injection ha with ha; rw [ha]
  · exact Rc.own_addSection ha sec

theorem own_after_step {rc rc1 rc2 : Rc} {s k v : String}
    (ha : rc.ensureSection s = .ok rc1) (hs2 : rc1.setOpt s k v = .ok rc2)
    (sec key : String) (hs : isDefaultName sec = false) :
    aget key (rc2.own sec) = if s = sec ∧ lower k = key then some v else aget key (rc.own sec) := by
  have h1 : rc1.own sec = rc.own sec := own_ensureSection ha sec
  cases hd : isDefaultName s with
  | true =>
    rw [Rc.own_setOpt_default hs2 hd, h1]
    have : s ≠ sec := by intro e; rw [e, hs] at hd; cases hd
    simp [this]
  | false =>
    rw [Rc.own_setOpt hs2 hd]
    by_cases hss : sec = s
    · subst hss
      simp only [if_true, true_and, aget_aset, h1]
      by_cases hk : key = lower k
      · subst hk; simp
      · have : ¬ lower k = key := fun e => hk e.symm
        simp [hk, this]
    · have : ¬ s = sec := fun e => hss e.symm
      simp [hss, this, h1]

/-- **options beat the file** (all option lists, with or without a loaded rc): after `_update_config_object`
succeeded, a section's key holds the last option naming it; keys no option names keep the file's text. -/
theorem options_beat_file {rc rc' : Rc} {items : List String}
    (h : applyOpts rc items = .ok rc') (sec key : String) (hs : isDefaultName sec = false) :
    aget key (rc'.own sec) =
      match optValue sec key items with
      | some v => some v
      | none => aget key (rc.own sec) := by
  induction items generalizing rc with
  | nil =>
    simp only [applyOpts] at h
    injection h with h
    subst h
    rfl
  | cons item rest ih =>
    simp only [applyOpts] at h
    cases hp : parseOpt item with
    | error e => simp [hp] at h
    | ok t =>
      obtain ⟨s, k, v⟩ := t
      simp only [hp] at h
      cases ha : rc.ensureSection s with
      | error e => simp [ha] at h
      | ok rc1 =>
        simp only [ha] at h
        cases hs2 : rc1.setOpt s k v with
        | error e => simp [hs2] at h
        | ok rc2 =>
          simp only [hs2] at h
          rw [ih h]
          simp only [optValue, hp]
          cases optValue sec key rest with
          | some w => rfl
          | none =>
            simp only
            rw [own_after_step ha hs2 sec key hs]
            by_cases hc : s = sec ∧ lower k = key <;> simp [hc]

theorem sects_has_setOpt {rc rc' : Rc} {sec key val : String} (h : rc.setOpt sec key val = .ok rc') (s' : String) :
    ahas s' rc'.sects = ahas s' rc.sects := by
  unfold Rc.setOpt at h
  split at h
  · injection h with h; subst h; rfl
  · split at h
    · rename_i own hg
      injection h with h
      subst h
      simp only [ahas_eq, aget_aset]
      by_cases hss : s' = sec
      · subst hss; simp [hg]
      · simp [hss]
    · cases h

theorem ensureSection_ok (rc : Rc) (s : String) :
    ∃ rc1, rc.ensureSection s = .ok rc1 ∧ (isDefaultName s = false → (aget s rc1.sects).isSome = true) := by
  unfold Rc.ensureSection
  by_cases hD : s = "DEFAULT"
  · exact ⟨rc, by simp [hD], by intro h; simp [isDefaultName, hD] at h⟩
  · by_cases hh : ahas s rc.sects = true
    · exact ⟨rc, by simp [hD, hh], by intro _; rw [← ahas_eq]; exact hh⟩
    · refine ⟨{ rc with sects := rc.sects ++ [(s, [])] }, by simp [hD, hh, Rc.addSection], ?_⟩
      intro _
      have hn : aget s rc.sects = none := by
        rw [ahas_eq] at hh
        cases hg : aget s rc.sects with
        | none => rfl
        | some x => simp [hg] at hh
      simp [aget_append, hn, aget_cons]

/-- **every well-formed option takes effect**: `_update_config_object` succeeds on every list of well-formed
options, with or without a loaded rc object, whatever sections the rc file has (full strength since the repair
of `_update_config_object`; on the pinned tree an option for a section absent from the rc file raised
`NoSectionError`, and two options for one section without an rc file raised `DuplicateSectionError`:
`known_findings.json`, `option-nosection-when-rc-lacks-section`, `option-dupsection-without-rc`, fixed). -/
theorem options_effective (rc : Rc) (items : List String)
    (hw : ∀ item ∈ items, ∃ s k v, parseOpt item = .ok (s, k, v)) :
    ∃ rc', applyOpts rc items = .ok rc' := by
  induction items generalizing rc with
  | nil => exact ⟨rc, rfl⟩
  | cons item rest ih =>
    obtain ⟨s, k, v, hp⟩ := hw item (List.mem_cons_self ..)
    obtain ⟨rc1, h1, hsome⟩ := ensureSection_ok rc s
    have hset : ∃ rc2, rc1.setOpt s k v = .ok rc2 := by
      cases hd : isDefaultName s with
      | true => exact ⟨{ rc1 with defaults := aset (lower k) v rc1.defaults }, by unfold Rc.setOpt; simp [hd]⟩
      | false =>
        have hh := hsome hd
        cases hg : aget s rc1.sects with
        | none => simp [hg] at hh
        | some own =>
          exact ⟨{ rc1 with sects := aset s (aset (lower k) v own) rc1.sects }, by unfold Rc.setOpt; simp [hd, hg]⟩
    obtain ⟨rc2, h2⟩ := hset
    obtain ⟨rc', h'⟩ := ih rc2 (fun it hit => hw it (List.mem_cons_of_mem _ hit))
    exact ⟨rc', by simp only [applyOpts, hp, h1, h2, h']⟩

/-- the statement through `_update_config_object` itself: no rc object, or any rc object -/
theorem options_effective_update (rc : Option Rc) (items : List String)
    (hw : ∀ item ∈ items, ∃ s k v, parseOpt item = .ok (s, k, v)) :
    ∃ r, updateRc rc (some items) = .ok r := by
  unfold updateRc
  cases items with
  | nil => exact ⟨rc, rfl⟩
  | cons a b =>
    cases rc with
    | some r0 => obtain ⟨r, hr⟩ := options_effective r0 (a :: b) hw; exact ⟨some r, by simp [hr, Except.map]⟩
    | none => obtain ⟨r, hr⟩ := options_effective Rc.empty (a :: b) hw; exact ⟨some r, by simp [hr, Except.map]⟩

def errOf {ε α : Type} : Except ε α → Option ε
  | .error e => some e
  | .ok _ => none

/-- non-vacuity of `options_effective` and of `options_beat_file`: option > file on a concrete rc -/
example :
    (applyOpts ⟨[], [("TDS", [("tf", "20"), ("tstep", "0.1")])]⟩ ["TDS.tf=3.5", "TDS.TF = 4 "]).toOption.map
      (fun r => r.own "TDS") = some [("tf", "4"), ("tstep", "0.1")] := by decide +kernel

/-- the two inputs that raised on the pinned tree now take effect: an option for a section the loaded rc file
does not contain, and two options for one section without an rc file -/
theorem option_for_section_absent_from_rc_takes_effect :
    (updateRc (some ⟨[], [("System", [("mva", "100")])]⟩) (some ["GENCLS.allow_adjust=0"])).toOption.map
      (fun r => r.map (fun r => (r.own "GENCLS", r.own "System")))
      = some (some ([("allow_adjust", "0")], [("mva", "100")])) := by decide +kernel

theorem two_options_one_section_without_rc_take_effect :
    (updateRc none (some ["TDS.tf=3.5", "TDS.tstep=0.02"])).toOption.map (fun r => r.map (fun r => r.own "TDS"))
      = some (some [("tf", "3.5"), ("tstep", "0.02")]) := by decide +kernel

/-! ## 4. malformed options -/

/-- a malformed option string: not exactly one `=`, or a left-hand side without exactly one `.`, or an empty section
or field name around that `.` -/
def Malformed (item : String) : Prop :=
  countC '=' item ≠ 1 ∨ countC '.' (split1 '=' item).1 ≠ 1 ∨
    strip (split1 '.' (split1 '=' item).1).1 = "" ∨ strip (split1 '.' (split1 '=' item).1).2 = ""

theorem parseOpt_malformed (item : String) (h : Malformed item) : ∃ e, parseOpt item = .error e := by
  by_cases h1 : countC '=' item = 1
  · by_cases h2 : countC '.' (split1 '=' item).1 = 1
    · have h3 : strip (split1 '.' (split1 '=' item).1).1 = "" ∨ strip (split1 '.' (split1 '=' item).1).2 = "" := by
        rcases h with h | h | h
        · exact absurd h1 h
        · exact absurd h2 h
        · exact h
      refine ⟨Err.badField, ?_⟩
      unfold parseOpt
      rcases h3 with h3 | h3 <;> simp [h1, h2, h3]
    · exact ⟨Err.badField, by unfold parseOpt; simp [h1, h2]⟩
  · exact ⟨Err.badAssign, by unfold parseOpt; simp [h1]⟩

/-- **malformed options are rejected**: an option whose `=` count is not 1, whose left-hand side does not
contain exactly one `.`, or whose section or field name is empty (full strength since the repair of
`malformed-option-accepted`) makes `_update_config_object` raise wherever it stands in the list (an earlier
option may raise first; no rc object is ever returned) -/
theorem malformed_option_rejected (rc : Rc) (pre post : List String) (item : String)
    (h : Malformed item) :
    ∃ e, applyOpts rc (pre ++ item :: post) = .error e := by
  obtain ⟨e0, he0⟩ := parseOpt_malformed item h
  induction pre generalizing rc with
  | nil => exact ⟨e0, by simp [applyOpts, he0]⟩
  | cons p r ih =>
    simp only [List.cons_append, applyOpts]
    cases parseOpt p with
    | error e => exact ⟨e, rfl⟩
    | ok t =>
      obtain ⟨s, k, v⟩ := t
      simp only
      cases rc.ensureSection s with
      | error e => exact ⟨e, rfl⟩
      | ok rc1 =>
        simp only
        cases rc1.setOpt s k v with
        | error e => exact ⟨e, rfl⟩
        | ok rc2 => exact ih rc2

/-- ... and therefore no `System` is constructed -/
theorem malformed_option_no_system (N : Numerals F) (decls : List (Decl F)) (dict : List (String × Val F))
    (rc : Option Rc) (pre post : List String) (item : String)
    (h : Malformed item) :
    ∃ e, mkSystem N decls dict rc (some (pre ++ item :: post)) = .error e := by
  unfold mkSystem updateRc
  cases hl : pre ++ item :: post with
  | nil => simp at hl
  | cons a b =>
    rw [← hl]
    cases rc with
    | some r =>
      obtain ⟨e, he⟩ := malformed_option_rejected r pre post item h
      exact ⟨(e, ""), by simp [he, Except.map]⟩
    | none =>
      obtain ⟨e, he⟩ := malformed_option_rejected Rc.empty pre post item h
      exact ⟨(e, ""), by simp [he, Except.map]⟩

example : Malformed "TDS.tf==3" := Or.inl (by decide +kernel)
example : Malformed "TDStf=3" := Or.inr (Or.inl (by decide +kernel))
example : Malformed ".x=1" := Or.inr (Or.inr (Or.inl (by decide +kernel)))
example : Malformed "TDS.=1" := Or.inr (Or.inr (Or.inr (by decide +kernel)))

/-- the inputs that were accepted on the pinned tree (`malformed-option-accepted`): an empty section name (`.x=1`
landed in the parser-wide DEFAULT section, i.e. in every section of the rc file) or an empty field name: both raise -/
theorem empty_section_or_field_rejected_witness :
    (applyOpts ⟨[], [("System", []), ("TDS", [])]⟩ [".x=1"]).toOption = none ∧
    (applyOpts ⟨[], [("System", []), ("TDS", [])]⟩ ["TDS.=1"]).toOption = none := by decide +kernel

/-! ## 5. alternatives -/

theorem firstBad_none {N : Numerals F} {alt : List (String × List (Val F))} {l : List (String × Val F)}
    (h : firstBad N alt l = none) :
    ∀ kv ∈ l, ∀ a, aget kv.1 alt = some a → memAlt N kv.2 a = true := by
  induction l with
  | nil => intro kv hkv; cases hkv
  | cons p r ih =>
    obtain ⟨k, v⟩ := p
    intro kv hkv a ha
    simp only [firstBad] at h
    cases hg : aget k alt with
    | none =>
      simp only [hg] at h
      cases hkv with
      | head => simp only at ha; rw [hg] at ha; cases ha
      | tail _ hm => exact ih h kv hm a ha
    | some a' =>
      simp only [hg] at h
      by_cases hm : memAlt N v a' = true
      · simp only [hm, if_true] at h
        cases hkv with
        | head => simp only at ha; rw [hg] at ha; injection ha with ha; subst ha; exact hm
        | tail _ hm' => exact ih h kv hm' a ha
      · simp [hm] at h

theorem firstBad_of_all {N : Numerals F} {alt : List (String × List (Val F))} {l : List (String × Val F)}
    (h : ∀ kv ∈ l, ∀ a, aget kv.1 alt = some a → memAlt N kv.2 a = true) : firstBad N alt l = none := by
  induction l with
  | nil => rfl
  | cons p r ih =>
    obtain ⟨k, v⟩ := p
    have ih' := ih (fun kv hkv => h kv (List.mem_cons_of_mem _ hkv))
    simp only [firstBad]
    cases hg : aget k alt with
    | none => exact ih'
    | some a =>
      have := h (k, v) (List.mem_cons_self ..) a hg
      simp only at this
      simp [this, ih']

/-- `check()` validates the live fields, whatever the cache holds -/
theorem check_fresh {N : Numerals F} {c c' : Cfg F} (h : c.check N = .ok c') :
    c'.fields = c.fields ∧ c'.alt = c.alt ∧
    ∀ kv ∈ publicOf c.fields, ∀ a, aget kv.1 c.alt = some a → memAlt N kv.2 a = true := by
  unfold Cfg.check at h
  have hd : c.asDict true = { c with cache := publicOf c.fields } := by
    unfold Cfg.asDict; simp
  simp only [hd] at h
  split at h
  · cases h
  · rename_i hfb
    injection h with h
    subst h
    exact ⟨rfl, rfl, firstBad_none hfb⟩

theorem build_cache (N : Numerals F) (d : Decl F) (dict : List (String × Val F)) (rc : Option Rc) :
    (build N d dict rc).cache = [] := by
  unfold build
  simp only [Cfg.add_cache, load_cache, Cfg.empty]

/-- **values outside the declared alternatives are rejected** (every declaration, every channel triple):
if the constructor returns, every public field with a tuple/set `_alt` holds a member of it -/
theorem alt_rejected {N : Numerals F} {d : Decl F} {dict : List (String × Val F)} {rc : Option Rc} {c : Cfg F}
    (h : construct N d dict rc = .ok c) :
    ∀ kv ∈ publicOf c.fields, ∀ a, aget kv.1 d.alt = some a → memAlt N kv.2 a = true := by
  have := check_fresh h
  obtain ⟨hf, _, hall⟩ := this
  rw [hf]
  exact hall

example : errOf (construct numSimple ⟨"System", [("ipadd", .int 1)], [("ipadd", [.int 0, .int 1])]⟩ []
    (some ⟨[], [("System", [("ipadd", "5")])]⟩)) = some (Err.notAChoice, "ipadd") := by decide +kernel

theorem updateFields_cache (N : Numerals F) (c : Cfg F) (kvs : List (String × Val F)) :
    (c.updateFields N kvs).cache = c.cache ∧ (c.updateFields N kvs).alt = c.alt := by
  induction kvs generalizing c with
  | nil => exact ⟨rfl, rfl⟩
  | cons kv r ih =>
    simp only [Cfg.updateFields, List.foldl_cons] at ih ⊢
    have := ih (c.set N kv.1 kv.2)
    exact this

/-- **`Config.update` rejects values outside `_alt`**, in every state of the object (full strength since the
repair of `Config.check`, which read the cached dictionary filled by the constructor's own check:
`known_findings.json`, `alt-not-rejected-by-update`, fixed) -/
theorem update_alt_rejected {N : Numerals F} {c c' : Cfg F} {kvs : List (String × Val F)}
    (h : c.update N kvs = .ok c') :
    ∀ kv ∈ publicOf c'.fields, ∀ a, aget kv.1 c.alt = some a → memAlt N kv.2 a = true := by
  unfold Cfg.update at h
  obtain ⟨_, h2⟩ := updateFields_cache N c kvs
  obtain ⟨hf, _, hall⟩ := check_fresh h
  rw [hf, ← h2]
  exact hall

/-- the state every real config object is in after its constructor: cache filled by `check()` -/
def afterCtor : Cfg Nat :=
  ⟨"System", [("ipadd", .int 1)], [("ipadd", .int 1)], [("ipadd", [.int 0, .int 1])]⟩

/-- the input that was accepted on the pinned tree (cache filled by the constructor, `Config.update(ipadd=5)`
with 5 outside `(0, 1)`) is rejected now -/
theorem update_after_constructor_rejects :
    errOf (afterCtor.update numSimple [("ipadd", .int 5)]) = some (Err.notAChoice, "ipadd") := by decide +kernel

/-! ## 6. save, then load into a new system -/

/-- the laws of Python's numeral printing/parsing that the round trip needs (`fin` = finite floats) -/
structure Laws (N : Numerals F) (fin : F → Prop) : Prop where
  int_rt : ∀ i, N.parseInt (N.printInt i) = some i
  int_strip : ∀ i, strip (N.printInt i) = N.printInt i
  flt_not_int : ∀ x, N.parseInt (N.printFlt x) = none
  flt_rt : ∀ x, fin x → N.parseFlt (N.printFlt x) = some x
  flt_strip : ∀ x, strip (N.printFlt x) = N.printFlt x

/-- the values the round trip keeps: ints, finite floats, trimmed strings that are not numerals -/
def Keeps (N : Numerals F) (fin : F → Prop) : Val F → Prop
  | .int _ => True
  | .flt x => fin x
  | .str s => N.parseInt s = none ∧ N.parseFlt s = none ∧ strip s = s
  | .bool _ => False
  | .none => False

theorem keeps_roundtrip {N : Numerals F} {fin : F → Prop} (L : Laws N fin) {v : Val F} (hv : Keeps N fin v) :
    ∃ t, printVal N v = .ok t ∧ coerce N (.str (fileText t)) = v := by
  cases v with
  | int i => exact ⟨_, rfl, by simp [fileText, L.int_strip, coerce, L.int_rt]⟩
  | flt x => exact ⟨_, rfl, by simp [fileText, L.flt_strip, coerce, L.flt_not_int, L.flt_rt x hv]⟩
  | str s =>
    obtain ⟨h1, h2, h3⟩ := hv
    exact ⟨_, rfl, by simp [fileText, h3, coerce, h1, h2]⟩
  | bool b => exact absurd hv (by simp [Keeps])
  | none => exact absurd hv (by simp [Keeps])

theorem saveKVs_get {N : Numerals F} {l : List (String × Val F)} {seen : List String} {s : Sect}
    (h : saveKVs N l seen = .ok s) (hl : ∀ kv ∈ l, lower kv.1 = kv.1) (k : String) :
    aget k s = match aget k l with
      | some v => (printVal N v).toOption
      | none => none := by
  induction l generalizing seen s with
  | nil => simp only [saveKVs] at h; injection h with h; subst h; rfl
  | cons p r ih =>
    obtain ⟨a, b⟩ := p
    simp only [saveKVs] at h
    split at h
    · cases h
    · cases hp : printVal N b with
      | error e => simp [hp] at h
      | ok t =>
        simp only [hp] at h
        cases hr : saveKVs N r (lower a :: seen) with
        | error e => simp [hr] at h
        | ok s' =>
          simp only [hr] at h
          injection h with h
          subst h
          have hla : lower a = a := hl (a, b) (List.mem_cons_self ..)
          have ih' := ih hr (fun kv hkv => hl kv (List.mem_cons_of_mem _ hkv))
          simp only [aget_cons, hla]
          by_cases hak : a = k
          · simp [hak, hp, Except.toOption]
          · simp [hak, ih']

theorem aget_mem {α : Type} {k : String} {v : α} {l : List (String × α)} (h : aget k l = some v) : (k, v) ∈ l := by
  induction l with
  | nil => simp at h
  | cons p r ih =>
    obtain ⟨a, b⟩ := p
    rw [aget_cons] at h
    by_cases hak : a = k
    · simp only [hak, if_true] at h
      injection h with hb
      subst hb; subst hak
      exact List.mem_cons_self ..
    · simp only [hak, if_false] at h
      exact List.mem_cons_of_mem _ (ih h)

theorem startsUnderscore_reserved : ∀ k ∈ reserved, startsUnderscore k = true := by decide +kernel

/-- **save → load** (`_partial`).  For EVERY config object, in every state of its `as_dict` cache, whose public
fields have lower-case names and values that are ints, finite floats or trimmed non-numeric strings: if
`collect_config` succeeds, a config of the same name constructed from the saved file (any defaults, any
other sections in the file) holds every public field with the same value AND type.
Missing for the full statement of C20 (each refuted on the real code by a theorem below): numeric-looking
strings, booleans, `None`, untrimmed strings, upper-case names.  (The stale-cache exclusion is gone since the
repair of `collect_config`: `save-stale-cache`, fixed.) -/
theorem save_load_roundtrip_partial {N : Numerals F} {fin : F → Prop} (L : Laws N fin)
    (c c' : Cfg F) (s : Sect) (d : Decl F) (ss : List (String × Sect))
    (hsave : c.saveSect N = .ok (c', s))
    (hkeys : ∀ kv ∈ publicOf c.fields, lower kv.1 = kv.1)
    (hvals : ∀ kv ∈ publicOf c.fields, Keeps N fin kv.2)
    (hname : d.name = c.name)
    (hfile : aget c.name ss = some (s.map (fun kv => (kv.1, fileText kv.2))))
    (k : String) (v : Val F) (hpub : startsUnderscore k = false) (hkv : aget k c.fields = some v) :
    aget k (build N d [] (some (savedRc ss))).fields = some v := by
  have hres : k ∉ reserved := by
    intro hm
    have := startsUnderscore_reserved k hm
    rw [hpub] at this; cases this
  rw [precedence_config N d [] (some (savedRc ss)) hres]
  unfold chosen rcOffer
  simp only [aget_nil]
  -- the saved file has the section
  have hhas : (savedRc ss).hasName d.name = true := by
    unfold Rc.hasName savedRc
    simp [ahas_eq, hname, hfile]
  simp only [hhas, if_true]
  -- the section's text for k
  have hpubget : aget k (publicOf c.fields) = some v := by
    have := aget_filter_key k (fun key => !startsUnderscore key) c.fields
    unfold publicOf
    rw [this]; simp [hpub, hkv]
  have hmem : (k, v) ∈ publicOf c.fields := aget_mem hpubget
  obtain ⟨t, hprint, hback⟩ := keeps_roundtrip L (hvals (k, v) hmem)
  unfold Cfg.saveSect at hsave
  have hfresh : (c.asDict true).cache = publicOf c.fields := by unfold Cfg.asDict; simp
  simp only [hfresh] at hsave
  cases hsv : saveKVs N (publicOf c.fields) [] with
  | error e => simp [hsv] at hsave
  | ok s0 =>
    simp only [hsv] at hsave
    injection hsave with hsave
    injection hsave with _ hs
    subst hs
    have hget := saveKVs_get hsv hkeys k
    rw [hpubget] at hget
    simp only [hprint, Except.toOption] at hget
    have hlook : (savedRc ss).lookup d.name k = some (fileText t) := by
      unfold Rc.lookup Rc.own savedRc
      simp only [hname, hfile, Option.getD_some]
      rw [aget_map_val k fileText s0, hget]
      rfl
    simp only [hlook]
    rw [hback]

/-- non-vacuity: a fresh config with an int and a plain string, saved and reloaded over other defaults -/
example :
    let c : Cfg Nat := ⟨"TDS", [("tf", .int 20), ("method", .str "trapezoid")], [], []⟩
    (c.saveSect numSimple).toOption.map (fun p =>
      (build numSimple ⟨"TDS", [("tf", .int 1), ("method", .str "x")], []⟩ []
        (some (savedRc [("TDS", p.2.map (fun kv => (kv.1, fileText kv.2)))]))).fields)
      = some [("tf", .int 20), ("method", .str "trapezoid")] := by decide +kernel

/-- save one config and build a same-named one from the saved section (for the counterexamples) -/
def saveThenLoad (N : Numerals Nat) (c : Cfg Nat) : Option (List (String × Val Nat)) :=
  (c.saveSect N).toOption.map (fun p =>
    (build N ⟨c.name, [], []⟩ [] (some (savedRc [(c.name, p.2.map (fun kv => (kv.1, fileText kv.2)))]))).fields)

/-- DEFECT: a numeric-looking string (`dime_name = '007'` set at run time) comes back as the int 7 -/
theorem roundtrip_numeric_string_changes_type :
    saveThenLoad numSimple ⟨"System", [("dime_name", .str "007")], [], []⟩ = some [("dime_name", .int 7)] := by
  decide +kernel

/-- DEFECT: a boolean comes back as the (truthy) string "False" -/
theorem roundtrip_bool_changes_type :
    saveThenLoad numSimple ⟨"TDS", [("fixt", .bool false)], [], []⟩ = some [("fixt", .str "False")] := by
  decide +kernel

/-- the input that lost a run-time change on the pinned tree (cache filled by the constructor's `check()`, then
`mva = 200`): the NEW value is written and comes back -/
theorem roundtrip_after_runtime_change_witness :
    saveThenLoad numSimple ⟨"System", [("mva", .int 200)], [("mva", .int 100)], []⟩ = some [("mva", .int 200)] := by
  decide +kernel

/-- DEFECT: a `None` value makes `save_config` raise TypeError -/
theorem save_none_raises :
    errOf ((⟨"System", [("seed", .none)], [], []⟩ : Cfg Nat).saveSect numSimple) = some Err.valueType := by
  decide +kernel

/-- DEFECT: a field given with an upper-case name in the constructor dictionary (only warned about) sits next
to the lower-case default, and `save_config` raises DuplicateOptionError -/
theorem save_uppercase_key_raises :
    errOf ((build numSimple ⟨"System", [("freq", .int 60)], []⟩ [("FREQ", .int 50)] none).saveSect numSimple)
      = some Err.dupOption := by decide +kernel

/-! ## 7. the declared defaults -/

/-- numerals for the table check: a float never counts as a member, float syntax as decided by the model -/
def strictNum : Numerals Nat :=
  ⟨pyInt, fun s => if isPyFloat s then some 0 else none, fun i => toString i, fun _ => "", fun _ _ => false⟩

/-- a declaration is sound: each default survives `_set` unchanged and lies inside its `_alt` -/
def declOk (N : Numerals F) [DecidableEq F] (d : Decl F) : Bool :=
  d.defaults.all (fun kv => decide (coerce N kv.2 = kv.2) &&
    match aget kv.1 d.alt with
    | some a => memAlt N kv.2 a
    | none => true)

/-- **every declared default of the 101 real config sections (409 fields) is inside its alternatives and is
stored unchanged** — table regenerated from the real objects on every run -/
theorem all_defaults_in_alt : Gen.decls.all (declOk strictNum) = true := by decide +kernel

theorem table_size : Gen.decls.length = Gen.nSections ∧
    (Gen.decls.map (fun d => d.defaults.length)).sum = Gen.nFields := by decide +kernel

/-- every public field of `c.add kvs` is an old field or one of the offered pairs after `_set` -/
theorem add_mem (N : Numerals F) (c : Cfg F) (kvs : List (String × Val F)) :
    ∀ kv ∈ (c.add N kvs).fields, kv ∈ c.fields ∨ ∃ kv' ∈ kvs, kv = (kv'.1, coerce N kv'.2) := by
  induction kvs generalizing c with
  | nil => intro kv h; exact Or.inl h
  | cons p r ih =>
    intro kv h
    simp only [Cfg.add, List.foldl_cons] at h
    have := ih (c.add1 N p) kv h
    cases this with
    | inr h' =>
      obtain ⟨kv', hm, he⟩ := h'
      exact Or.inr ⟨kv', List.mem_cons_of_mem _ hm, he⟩
    | inl h' =>
      unfold Cfg.add1 at h'
      split at h'
      · exact Or.inl h'
      · simp only [Cfg.set] at h'
        have : ∀ (l : List (String × Val F)), kv ∈ aset p.1 (coerce N p.2) l → kv ∈ l ∨ kv = (p.1, coerce N p.2) := by
          intro l
          induction l with
          | nil => intro hm; simp only [aset, List.mem_singleton] at hm; exact Or.inr hm
          | cons q t iht =>
            intro hm
            simp only [aset] at hm
            split at hm
            · rename_i hq
              cases hm with
              | head => right; rw [hq]
              | tail _ hm' => left; exact List.mem_cons_of_mem _ hm'
            · cases hm with
              | head => left; exact List.mem_cons_self ..
              | tail _ hm' =>
                cases iht hm' with
                | inl h1 => left; exact List.mem_cons_of_mem _ h1
                | inr h1 => right; exact h1
        cases this _ h' with
        | inl h1 => exact Or.inl h1
        | inr h1 => exact Or.inr ⟨p, List.mem_cons_self .., h1⟩

/-- a sound declaration constructs without error when no channel supplies anything -/
theorem defaults_construct_ok (N : Numerals F) [DecidableEq F] (d : Decl F) (h : declOk N d = true) :
    ∃ c, construct N d [] none = .ok c := by
  unfold construct Cfg.check
  have hb : (build N d [] none).asDict true = { build N d [] none with cache := publicOf (build N d [] none).fields } := by
    unfold Cfg.asDict; simp
  simp only [hb]
  have hnone : firstBad N (build N d [] none).alt (publicOf (build N d [] none).fields) = none := by
    apply firstBad_of_all
    intro kv hkv a ha
    have hkv' : kv ∈ (build N d [] none).fields := (List.mem_filter.mp hkv).1
    have halt : (build N d [] none).alt = d.alt := rfl
    rw [halt] at ha
    have hf : (build N d [] none).fields = ((Cfg.empty d.name : Cfg F).add N d.defaults).fields := by
      unfold build Cfg.load Cfg.add; rfl
    rw [hf] at hkv'
    cases add_mem N _ _ kv hkv' with
    | inl h0 => simp [Cfg.empty] at h0
    | inr h1 =>
      obtain ⟨kv', hm, he⟩ := h1
      unfold declOk at h
      have hk := List.all_eq_true.mp h kv' hm
      simp only [Bool.and_eq_true, decide_eq_true_eq] at hk
      obtain ⟨hco, hal⟩ := hk
      subst he
      simp only at ha ⊢
      rw [hco]
      rw [ha] at hal
      exact hal
  simp only [hnone]
  exact ⟨_, rfl⟩

/-- the real declarations never raise on their own: a `System` built without rc file, options and dictionary
passes every `check()` -/
theorem stock_defaults_construct_ok : ∀ d ∈ Gen.decls, ∃ c, construct strictNum d [] none = .ok c := by
  intro d hd
  exact defaults_construct_ok strictNum d (List.all_eq_true.mp all_defaults_in_alt d hd)

/-! ## 8. which rc file is read -/

/-- `default_config` disables every file; otherwise the named file, else `./andes.rc`, else `~/.andes/andes.rc` -/
theorem config_path_precedence (a d c h : Bool) :
    pickPath a d c h =
      if d then .none else if a then .arg else if c then .cwd else if h then .home else .none := rfl

end Andes.Config
