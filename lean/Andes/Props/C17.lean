import Andes.Model.Newton
import Andes.Props.C06
import Mathlib.Tactic.Linarith
import Mathlib.Tactic.NormNum
import Mathlib.Algebra.Order.Field.Rat
import Mathlib.Data.List.Basic

/-!
# C17 — Failure is reported as failure

Decision logic of the exit paths, stated outright on the models `Andes/Model/Newton.lean`
(`PFlow.nr_solve`, the Newton loop of `ImplicitIter.step`, exit-code aggregation of the command line
run) and `Andes/Model/TdsLoop.lean` (`TDS.run`).  The mismatch / increment sequences and integrator
verdicts are arbitrary inputs; NaN is `none` and compares False, as in IEEE arithmetic.
-/
namespace Andes.Newton

/-! ### Power flow: a reported success implies that the residual test passed -/

theorem nrLoop_spec (tol : ℚ) (maxIter : Nat) (m0 : Option ℚ) :
    ∀ (ms : List (Option ℚ)) (niter : Nat) (acc : List (Option ℚ)) (c : Bool) (n : Nat)
      (rec : List (Option ℚ)),
      nrLoop tol maxIter m0 niter ms acc = some (c, n, rec) →
      ∃ m, rec.getLast? = some m ∧ (c = true ↔ ltO m tol = true) ∧ niter ≤ n ∧
           (c = false → (maxIter < n ∨ m = none ∨ ∃ x x0, m = some x ∧ 1.0e4 * x0 < x)) := by
  intro ms
  induction ms with
  | nil => intro niter acc c n rec h; simp [nrLoop] at h
  | cons m ms ih =>
    intro niter acc c n rec h
    unfold nrLoop at h
    cases he : nrExit tol maxIter niter m m0 with
    | some c' =>
      rw [he] at h
      simp only [Option.some.injEq, Prod.mk.injEq] at h
      obtain ⟨rfl, rfl, rfl⟩ := h
      refine ⟨m, by simp, ?_, le_refl _, ?_⟩
      · unfold nrExit at he
        split_ifs at he with h1 h2 h3
        · simp at he; simp [← he, h1]
        · simp at he; simp [← he, h1]
        · simp at he; simp [← he, h1]
        · split at he
          · split_ifs at he with h4
            simp at he; simp [← he, h1]
          · cases he
      · intro hc
        unfold nrExit at he
        split_ifs at he with h1 h2 h3
        · simp at he; rw [hc] at he; cases he
        · exact Or.inl h2
        · right; left; simpa using h3
        · split at he
          next x0 =>
            split_ifs at he with h4
            right; right
            unfold gtO at h4
            cases m with
            | none => simp at h4
            | some x => exact ⟨x, x0, rfl, by simpa using h4⟩
          · cases he
    | none =>
      rw [he] at h
      obtain ⟨m', h1, h2, h3, h4⟩ := ih _ _ c n rec h
      exact ⟨m', h1, h2, by omega, h4⟩

/-- **A converged power flow passed its residual test**: the last recorded mismatch is a number (not
NaN) strictly below the tolerance — for every mismatch sequence. -/
theorem pflow_success_implies_residual (tol : ℚ) (maxIter : Nat) (ms : List (Option ℚ)) (n : Nat)
    (rec : List (Option ℚ)) (h : nrSolve tol maxIter ms = some (true, n, rec)) :
    ∃ x, rec.getLast? = some (some x) ∧ x < tol := by
  obtain ⟨m, h1, h2, _, _⟩ := nrLoop_spec tol maxIter _ ms 0 [] true n rec h
  have := h2.mp rfl
  unfold ltO at this
  cases m with
  | none => simp at this
  | some x => exact ⟨x, h1, by simpa using this⟩

/-- **Every other exit of the power-flow loop reports failure**, and it is one of: iteration limit, NaN
mismatch, mismatch blow-up. -/
theorem pflow_failure_is_reported (tol : ℚ) (maxIter : Nat) (ms : List (Option ℚ)) (c : Bool) (n : Nat)
    (rec : List (Option ℚ)) (h : nrSolve tol maxIter ms = some (c, n, rec)) (m : Option ℚ)
    (hm : rec.getLast? = some m) (hbad : ltO m tol = false) : c = false := by
  obtain ⟨m', h1, h2, _, _⟩ := nrLoop_spec tol maxIter _ ms 0 [] c n rec h
  rw [hm] at h1; cases h1
  cases c with
  | false => rfl
  | true => have := h2.mp rfl; rw [hbad] at this; cases this

/-- a NaN mismatch can never be reported as convergence -/
theorem pflow_nan_fails (tol : ℚ) (maxIter : Nat) (ms : List (Option ℚ)) (c : Bool) (n : Nat)
    (rec : List (Option ℚ)) (h : nrSolve tol maxIter ms = some (c, n, rec))
    (hm : rec.getLast? = some none) : c = false :=
  pflow_failure_is_reported tol maxIter ms c n rec h none hm rfl

/-- the loop stops after at most `maxIter + 2` Newton steps -/
theorem pflow_terminates (tol : ℚ) (maxIter : Nat) (m0 : Option ℚ) :
    ∀ (ms : List (Option ℚ)) (niter : Nat) (acc : List (Option ℚ)),
      maxIter + 2 ≤ niter + ms.length → ms ≠ [] → nrLoop tol maxIter m0 niter ms acc ≠ none := by
  intro ms
  induction ms with
  | nil => intro niter acc _ hne; exact absurd rfl hne
  | cons m ms ih =>
    intro niter acc hlen _
    unfold nrLoop
    cases he : nrExit tol maxIter niter m m0 with
    | some c' => simp
    | none =>
      simp only
      have hn : ¬ maxIter < niter := by
        intro hn
        unfold nrExit at he
        split_ifs at he
      apply ih
      · simp at hlen; omega
      · intro hnil; subst hnil; simp at hlen; omega

example : nrSolve (1/1000000 : ℚ) 20 [some 4, some (1/10), some (1/100000), some (1/100000000)]
    = some (true, 3, [some 4, some (1/10), some (1/100000), some (1/100000000)]) := by decide +kernel
example : nrSolve (1/1000000 : ℚ) 20 [some 4, none] = some (false, 1, [some 4, none]) := by decide +kernel

end Andes.Newton

namespace Andes.Newton

/-! ### The Newton loop of one implicit integration step -/

theorem stepLoop_spec (c : StepCfg ℚ) (q0 : ℚ) :
    ∀ (ds : List (Inc ℚ)) (niter : Nat) (prev : Option ℚ) (chat : Bool) (o : StepOut),
      stepLoop c q0 niter prev chat ds = some o →
      (o.busted = true → o.converged = false) ∧
      (o.converged = true → o.chatter = true ∨ ∃ x, (some x : Inc ℚ) ∈ ds ∧ pabs x ≤ c.tol) ∧
      (o.converged = false ∧ o.busted = false → c.maxIter < o.niter ∨ ∃ x, (some x : Inc ℚ) ∈ ds ∧ blowUp q0 x = true) ∧
      niter < o.solves ∧ o.solves ≤ niter + ds.length := by
  intro ds
  induction ds with
  | nil => intro niter prev chat o h; simp [stepLoop] at h
  | cons d ds ih =>
    intro niter prev chat o h
    unfold stepLoop at h
    cases d with
    | none =>
      simp only [Option.some.injEq] at h
      subst h
      exact ⟨fun _ => rfl, fun h => (by cases h), fun h => (by cases h.2), (by simp), (by simp)⟩
    | some x =>
      simp only at h
      by_cases h1 : pabs x ≤ c.tol
      · simp only [h1, if_true, Option.some.injEq] at h; subst h
        exact ⟨fun h => (by cases h), fun _ => Or.inr ⟨x, by simp, h1⟩, fun h => (by cases h.1), (by simp), (by simp)⟩
      · simp only [h1, if_false] at h
        by_cases h2 : chatOf c niter prev chat x = true
        · simp only [h2, if_true, Option.some.injEq] at h; subst h
          exact ⟨fun h => (by cases h), fun _ => Or.inl (by simp [h2]), fun h => (by cases h.1), (by simp), (by simp)⟩
        · simp only [h2, Bool.false_eq_true, if_false] at h
          by_cases h3 : c.maxIter < niter + 1
          · simp only [h3, if_true, Option.some.injEq] at h; subst h
            exact ⟨fun h => (by cases h), fun h => (by cases h), fun _ => Or.inl h3, (by simp), (by simp)⟩
          · simp only [h3, if_false] at h
            by_cases h4 : blowUp q0 x = true
            · simp only [h4, if_true, Option.some.injEq] at h; subst h
              exact ⟨fun h => (by cases h), fun h => (by cases h), fun _ => Or.inr ⟨x, by simp, h4⟩, (by simp), (by simp)⟩
            · simp only [h4, Bool.false_eq_true, if_false] at h
              obtain ⟨a, b, cc, d1, d2⟩ := ih _ _ _ o h
              refine ⟨a, ?_, ?_, by omega, by simp; omega⟩
              · intro hc
                rcases b hc with hb | ⟨y, hy, hy2⟩
                · exact Or.inl hb
                · exact Or.inr ⟨y, List.mem_cons_of_mem _ hy, hy2⟩
              · intro hc
                rcases cc hc with hb | ⟨y, hy, hy2⟩
                · exact Or.inl hb
                · exact Or.inr ⟨y, List.mem_cons_of_mem _ hy, hy2⟩

/-- **An accepted step had a Newton increment within the tolerance — or was accepted by the chatter
rule** (`_partial` against "every accepted step satisfies the rule up to the Newton tolerance": the
chatter rule of `ImplicitIter.step` accepts a step whose last increment exceeds `1e-4`; see
`chatter_accepts_large_increment`). -/
theorem accepted_step_small_increment_partial (c : StepCfg ℚ) (q0 : ℚ) (chat0 : Bool) (ds : List (Inc ℚ))
    (o : StepOut) (h : step c q0 chat0 ds = some o) (hc : o.converged = true) (hn : o.chatter = false) :
    ∃ x, (some x : Inc ℚ) ∈ ds ∧ pabs x ≤ c.tol := by
  obtain ⟨_, b, _, _, _⟩ := stepLoop_spec c q0 ds 0 none chat0 o h
  rcases b hc with hb | hx
  · rw [hn] at hb; cases hb
  · exact hx

/-- **NaN in the increment is never presented as a solution**: the step is not converged and the
simulation is marked busted. -/
theorem step_nan_is_failure (c : StepCfg ℚ) (q0 : ℚ) (chat0 : Bool) (ds : List (Inc ℚ)) (o : StepOut)
    (h : step c q0 chat0 ds = some o) (hb : o.busted = true) : o.converged = false :=
  (stepLoop_spec c q0 ds 0 none chat0 o h).1 hb

/-- the Newton loop of a step ends after at most `maxIter + 1` linear solves -/
theorem step_terminates (c : StepCfg ℚ) (q0 : ℚ) :
    ∀ (ds : List (Inc ℚ)) (niter : Nat) (prev : Option ℚ) (chat : Bool),
      c.maxIter + 1 ≤ niter + ds.length → ds ≠ [] → stepLoop c q0 niter prev chat ds ≠ none := by
  intro ds
  induction ds with
  | nil => intro _ _ _ _ hne; exact absurd rfl hne
  | cons d ds ih =>
    intro niter prev chat hlen _
    unfold stepLoop
    cases d with
    | none => simp
    | some x =>
      simp only
      by_cases h1 : pabs x ≤ c.tol
      · simp [h1]
      · by_cases h2 : chatOf c niter prev chat x = true
        · simp [h1, h2]
        · by_cases h3 : c.maxIter < niter + 1
          · simp [h1, h2, h3]
          · by_cases h4 : blowUp q0 x = true
            · simp [h1, h2, h3, h4]
            · simp only [h1, h2, h3, h4, if_false, Bool.false_eq_true]
              apply ih
              · simp at hlen; omega
              · intro hnil; subst hnil; simp at hlen; omega

/-- **Counterexample (finding `chatter-accepts-unconverged`)**: with the default settings
(`tol = 1e-4`, `chatter_iter = 4`) a step whose increments alternate `+0.5, -0.5` is accepted as
converged after 6 iterations although its last increment is 0.5. -/
theorem chatter_accepts_large_increment :
    step (⟨1/10000, 15, 4⟩ : StepCfg ℚ) 1 false
      [some (1/2), some (-1/2), some (1/2), some (-1/2), some (1/2), some (-1/2), some (1/2)]
      = some ⟨true, 6, false, true, 6⟩ := by decide +kernel

example : step (⟨1/10000, 15, 4⟩ : StepCfg ℚ) 1 false [some (1/2), some (1/100), some (1/100000)]
      = some ⟨true, 3, false, false, 3⟩ := by decide +kernel

/-! ### Exit code of the command-line run -/

theorem routineExit_zero (pf : Bool) (x : Routine × Bool × Bool) :
    routineExit pf x = 0 ↔ pf = true ∧ routineOk x = true := by
  obtain ⟨r, a, b⟩ := x
  cases r <;> cases pf <;> cases a <;> cases b <;> simp [routineExit, routineOk]

theorem sum_zero_iff (l : List Nat) : l.sum = 0 ↔ ∀ x ∈ l, x = 0 := by
  induction l with
  | nil => simp
  | cons a l ih => simp [ih]

/-- **The process exit code is zero exactly when every stage succeeded** (single case on the command
line): file found, parsed, set up, power flow has elements and converged, every requested routine
succeeded (TDS: initialisation test passed and the run reached `tf`; EIG: the system has states). -/
theorem cli_exit_zero_iff (r : CliRun) : cliExit r = 0 ↔ allOk r = true := by
  have key : ∀ pf, (List.map (routineExit pf) r.routines).sum = 0 ↔ ∀ x ∈ r.routines, routineExit pf x = 0 := by
    intro pf; rw [sum_zero_iff]
    constructor
    · intro h x hx; exact h _ (List.mem_map_of_mem hx)
    · intro h y hy
      obtain ⟨x, hx, rfl⟩ := List.mem_map.mp hy
      exact h x hx
  unfold cliExit allOk
  cases hf : r.found <;> cases hp : r.parsed <;> cases hs : r.setupOk <;> cases he : r.hasElements <;>
    cases hc : r.pflowConverged <;> simp [key, routineExit_zero]

/-- a dependent routine asked to run on an unsolved power flow always adds to the exit code -/
theorem gating_refuses (x : Routine × Bool × Bool) : 0 < routineExit false x := by
  obtain ⟨r, a, b⟩ := x
  cases r <;> simp [routineExit]

example : cliExit ⟨true, true, true, true, true, [(Routine.tds, true, true), (Routine.eig, true, true)]⟩ = 0 := by
  decide
example : cliExit ⟨true, true, true, true, false, [(Routine.tds, true, true)]⟩ = 2 := by decide

end Andes.Newton

namespace Andes.Tds

/-! ### Time-domain simulation: success flag, busted flag, rejected steps -/

/-- **`TDS.run` returns True exactly when the run ended without error, and then it ended at `tf`**
(restated from C06 for every reachable stopped state). -/
theorem tds_success_iff (c : Cfg ℚ) (hy : Hyp c) (f : Bool) (tf : ℚ) (s : St ℚ) (hr : Reach c f tf s)
    (hstop : guard (withTf c tf) s = false) :
    (succeed (withTf c tf) s = true ↔ s.busted = false) ∧ (succeed (withTf c tf) s = true → s.t = tf) := by
  obtain ⟨h1, h2⟩ := success_iff_ends_at_tf c hy f tf s hr hstop
  constructor
  · rw [h1]; cases s.busted <;> simp
  · intro hs
    have : s.busted = false := by rw [h1] at hs; cases hb : s.busted <;> simp_all
    exact (h2 this).1

/-- **A rejected step stores no row and does not advance time**: the stored stamps, the step counter
and the event log are unchanged, and the next step starts from the same base time. -/
theorem rejected_step_no_row_no_advance (c : Cfg ℚ) (s : St ℚ) (v : Verdict) :
    let s' := iterFail c s v false
    s'.stamps = s.stamps ∧ s'.kcount = s.kcount ∧ s'.fired = s.fired ∧
    s'.t - s'.h = s.t - s.h := by
  unfold iterFail calcH
  simp only [Bool.false_eq_true, if_false]
  split_ifs with h0
  · refine ⟨rfl, rfl, rfl, ?_⟩
    simp only [beq_iff_eq] at h0
    simp only [h0]; norm_num
  · refine ⟨rfl, rfl, rfl, ?_⟩
    simp only []; ring

/-- a NaN increment marks the run busted, and a busted run stops -/
theorem nan_busts (c : Cfg ℚ) (s : St ℚ) (v : Verdict) (hn : v.nan = true) :
    (iterFail c s v false).busted = true ∧ guard c (iterFail c s v false) = false := by
  have hb : (iterFail c s v false).busted = true := by
    unfold iterFail
    simp only [Bool.false_eq_true, if_false]
    split_ifs
    · rfl
    · simp only [calcH]
      apply nextBusted_mono
      simp [hn]
  exact ⟨hb, by unfold guard; simp [hb]⟩

/-- a step size that collapsed to zero marks the run busted -/
theorem collapse_busts (c : Cfg ℚ) (s : St ℚ) (v : Verdict) (h0 : (iterFail c s v false).h = 0) :
    (iterFail c s v false).busted = true := by
  unfold iterFail at h0 ⊢
  simp only [Bool.false_eq_true, if_false] at h0 ⊢
  split_ifs with hz
  · rfl
  · exfalso
    simp only [hz, Bool.false_eq_true, if_false] at h0
    apply hz
    simp only [beq_iff_eq]
    rw [h0]; norm_num

/-- the stability criterion tripping marks the run busted (the step itself is stored) -/
theorem criterion_busts (c : Cfg ℚ) (s : St ℚ) (v : Verdict) (hc : v.crit = true) :
    (iterOk c s v).busted = true := by
  unfold iterOk
  simp only [calcH]
  apply nextBusted_mono
  unfold doSwitch' customSwitch doSwitch
  split
  · split_ifs <;> simp [hc]
  · simp [hc]

end Andes.Tds
