import Andes.Gen.Blocks
import Andes.Model.PINumeric

/-! # C18 — control blocks realise their documented transfer functions from steady state

The per-block theorems (`<Block>_tf`, the by-pass variants, `<Block>_steady`, `<Block>_limited_reduces`,
`<Block>_export_namespacing`) are REGENERATED on every run from the live classes of `andes/core/block.py` into
`Andes/Gen/Blocks.lean`; their hypotheses are the extracted equations, their conclusions the hand-written documented
transfer functions of `translator/blocks.py`.  This file holds what is written by hand:

* the block theorems restated through `Realises` and the composition of realisations,
* the "every admissible parameter tuple" forms, in which the `LessThan` flags are the ones the code computes,
* the non-linear static blocks (gates, dead band, piecewise, gain limiter),
* Lean-proved counterexamples (parametric) for the defects of the pinned tree,
* the hand model of `PIControllerNumeric` tied to the generated `PIController` equations.

Scalars: an arbitrary field `F` (so the Laplace variable may be real, complex or a formal rational function);
order-dependent blocks use a linearly ordered field. -/

namespace Andes.C18
open Andes.Blocks Andes.Gen.Blocks

section Field
variable {F : Type} [Field F]

/-! ## 1. linear blocks as realisations -/

theorem gain_realises (s u K y : F) (h : Gain.Laplace s u K y) : Realises K 1 u y :=
  Gain_tf s u K y h

theorem integrator_realises (s u T K y0 y : F) (h : Integrator.Laplace s u T K y0 y) : Realises K (s * T) u y :=
  Integrator_tf s u T K y0 y h

/-- `Lag`: K/(D+sT) for EVERY T, D (T = 0 is the static gain K/D: the equation itself degenerates correctly) -/
theorem lag_realises (s u T K D y : F) (h : Lag.Laplace s u T K D y) : Realises K (D + s * T) u y :=
  Lag_tf s u T K D y h

theorem washout_realises (s u T K x y : F) (hT : T ≠ 0) (h : Washout.Laplace s u T K x y) :
    Realises (s * K) (1 + s * T) u y :=
  Washout_tf s u T K x y hT h

theorem lag2_realises (s u K T1 T2 x y : F) (h : Lag2ndOrd.Laplace s u K T1 T2 x y) :
    Realises K (1 + s * T1 + s * s * T2) u y :=
  Lag2ndOrd_tf s u K T1 T2 x y h

theorem leadlag_realises (s u T1 T2 K x y : F) (hT : T2 ≠ 0) (h : LeadLag.Laplace s u T1 T2 K x y) :
    Realises (K * (1 + s * T1)) (1 + s * T2) u y :=
  LeadLag_tf s u T1 T2 K x y hT h

theorem leadlag2_realises (s u T1 T2 T3 T4 x1 x2 y : F) (hT : T2 ≠ 0)
    (h : LeadLag2ndOrd.Laplace s u T1 T2 T3 T4 x1 x2 y) :
    Realises (1 + s * T3 + s * s * T4) (1 + s * T1 + s * s * T2) u y :=
  LeadLag2ndOrd_tf s u T1 T2 T3 T4 x1 x2 y hT h

theorem pi_realises (s u kp ki ref x0 xi y : F) (h : PIController.Laplace s u kp ki ref x0 xi y) :
    Realises (kp * s + ki) s (u - ref) y :=
  PIController_tf s u kp ki ref x0 xi y h

/-- a lag followed by a lead-lag (e.g. a measurement filter in front of a compensator, as the shipped exciters do)
realises the product — from the two blocks' generated equations and `Realises.comp` -/
theorem lag_then_leadlag (s u Ta Ka Da T1 T2 K x y w : F) (hT : T2 ≠ 0)
    (h₁ : Lag.Laplace s u Ta Ka Da w) (h₂ : LeadLag.Laplace s w T1 T2 K x y) :
    Realises (K * (1 + s * T1) * Ka) ((1 + s * T2) * (Da + s * Ta)) u y :=
  (lag_realises s u Ta Ka Da w h₁).comp (leadlag_realises s w T1 T2 K x y hT h₂)

/-- the PID with tracking anti-windup is, inside its limits, the sum of the `PIController` equations and the
`Washout(K = kd, T = Td)` equations under the name-spacing `B_WO_*` — i.e. the exported sub-block equations ARE the
sub-block class's equations. -/
theorem pidtrack_decomposes (s u kp ki kd Td ks lower upper ref x0 uin xi wx wy ys y : F)
    (h : PIDTrackAW.Laplace s u kp ki kd Td ks lower upper ref x0 1 0 0 uin xi wx wy ys y) :
    PIController.Laplace s u kp ki ref x0 xi (y - wy) ∧ Washout.Laplace s (u - ref) Td kd wx wy := by
  unfold PIDTrackAW.Laplace at h; unfold PIController.Laplace Washout.Laplace; grind

/-- ... and therefore realises `kp + ki/s + s kd/(1 + s Td)` by the parallel-connection rule -/
theorem pidtrack_realises (s u kp ki kd Td ks lower upper ref x0 uin xi wx wy ys y : F) (hT : Td ≠ 0)
    (h : PIDTrackAW.Laplace s u kp ki kd Td ks lower upper ref x0 1 0 0 uin xi wx wy ys y) :
    Realises ((kp * s + ki) * (1 + s * Td) + s * kd * s) (s * (1 + s * Td)) (u - ref) y := by
  obtain ⟨h₁, h₂⟩ := pidtrack_decomposes s u kp ki kd Td ks lower upper ref x0 uin xi wx wy ys y h
  have := (pi_realises s u kp ki ref x0 xi (y - wy) h₁).add (washout_realises s (u - ref) Td kd wx wy hT h₂)
  simpa using this

/-! ## 2. every admissible parameter tuple: flags as the code computes them -/

section Flags
variable [DecidableEq F]

/-- `LeadLag(zero_out=True)`: with the flags the code computes, the documented K(1+sT1)/(1+sT2) holds for every
parameter tuple with `T2 ≠ 0`, and for the documented by-pass `T1 = T2 = 0`. -/
theorem leadlag_all_admissible (s u T1 T2 K z10 z11 z20 z21 x y : F)
    (hf : LeadLagZ.Flags T1 T2 z10 z11 z20 z21) (hadm : T2 ≠ 0 ∨ (T1 = 0 ∧ T2 = 0))
    (h : LeadLagZ.Laplace s u T1 T2 K z11 z21 x y) :
    Realises (K * (1 + s * T1)) (1 + s * T2) u y := by
  unfold LeadLagZ.Flags at hf; unfold LeadLagZ.Laplace at h; unfold Realises
  rcases hadm with hT | ⟨h1, h2⟩
  · have : z21 = 0 := by rw [hf.2.2.1]; simp [hT]
    subst this; grind
  · have e1 : z11 = 1 := by rw [hf.1]; simp [h1]
    have e2 : z21 = 1 := by rw [hf.2.2.1]; simp [h2]
    subst e1 e2 h1 h2; grind

/-- the remaining corner `T2 = 0 < T1` (an improper transfer function) is outside the block's domain: there the
output equation is `0 = 0` and ANY `y` satisfies the equations -/
theorem leadlag_T2zero_T1pos_singular (s u T1 K z10 z11 z20 z21 y : F) (hT1 : T1 ≠ 0)
    (hf : LeadLagZ.Flags T1 0 z10 z11 z20 z21) : LeadLagZ.Laplace s u T1 0 K z11 z21 u y := by
  unfold LeadLagZ.Flags at hf; unfold LeadLagZ.Laplace
  have : z11 = 0 := by rw [hf.1]; simp [hT1]
  subst this; constructor <;> ring

/-- `WashoutOrLag`: washout for `K ≠ 0`, low-pass 1/(1+sT) for `K = 0` (flags as computed) -/
theorem washoutOrLag_all (s u T K z0 z1 x y : F) (hT : T ≠ 0) (hf : WashoutOrLag.Flags K z0 z1)
    (h : WashoutOrLag.Laplace s u T K z0 z1 x y) :
    Realises (if K = 0 then 1 else s * K) (1 + s * T) u y := by
  unfold WashoutOrLag.Flags at hf; unfold Realises
  by_cases hK : K = 0
  · have e1 : z1 = 1 := by rw [hf.1]; simp [hK]
    have e0 : z0 = 0 := by rw [hf.2, e1]; ring
    simp only [hK, if_true]
    have := WashoutOrLag_lag_bypass s u T K z0 z1 x y e0 e1 hK hT h
    simpa [hK] using this
  · have e1 : z1 = 0 := by rw [hf.1]; simp [hK]
    have e0 : z0 = 1 := by rw [hf.2, e1]; ring
    simp only [hK, if_false]
    exact WashoutOrLag_tf s u T K z0 z1 x y e0 e1 hT h

/-- `LeadLag2ndOrd(zero_out=True)` with the flags the code computes: documented transfer function for `T2 ≠ 0` and
for the documented by-pass "all four zero".  (The corner `T1 = T2 = T4 = 0 ≠ T3` is `leadlag2_T3_only_singular` below:
since the repair of `leadlag2-LT3-tests-T4` the by-pass is not selected there any more.) -/
theorem leadlag2_all_admissible (s u T1 T2 T3 T4 a0 a1 b0 b1 c0 c1 d0 d1 x1 x2 y : F)
    (hf : LeadLag2ndOrdZ.Flags T1 T2 T3 T4 a0 a1 b0 b1 c0 c1 d0 d1)
    (hadm : T2 ≠ 0 ∨ (T1 = 0 ∧ T2 = 0 ∧ T3 = 0 ∧ T4 = 0))
    (h : LeadLag2ndOrdZ.Laplace s u T1 T2 T3 T4 a1 b1 c1 d1 x1 x2 y) :
    Realises (1 + s * T3 + s * s * T4) (1 + s * T1 + s * s * T2) u y := by
  unfold LeadLag2ndOrdZ.Flags at hf; unfold Realises
  obtain ⟨ha, -, hb, -, hc, -, hd, -⟩ := hf
  rcases hadm with hT | ⟨h1, h2, h3, h4⟩
  · have e : b1 = 0 := by rw [hb]; simp [hT]
    exact LeadLag2ndOrdZ_tf s u T1 T2 T3 T4 a1 b1 c1 d1 x1 x2 y e hT h
  · have ea : a1 = 1 := by rw [ha]; simp [h1]
    have eb : b1 = 1 := by rw [hb]; simp [h2]
    have ec : c1 = 1 := by rw [hc]; simp [h3]
    have ed : d1 = 1 := by rw [hd]; simp [h4]
    have := LeadLag2ndOrdZ_zero_bypass s u T1 T2 T3 T4 a1 b1 c1 d1 x1 x2 y ea eb ec ed h1 h2 h3 h4 h
    subst h1 h2 h3 h4; simpa using this

end Flags

/-- `Washout` with `T = 0` is outside the block's domain: the output equation reads `0 = 0` -/
theorem washout_T0_singular (s u K y : F) : Washout.Laplace s u 0 K u y := by
  unfold Washout.Laplace; constructor <;> ring

/-! ## 3. defects of the pinned tree: the code's relation, and parametric counterexamples to the documented one -/

/-- **`PIDController` realises the documented `kp + ki/s + s kd/(1 + s Td)`** (full strength since the repair of
`pid-ignores-Td`: the block built `Washout(T = kd)` and `Td` did not occur in its equations). -/
theorem pid_realises (s u kp ki kd Td ref x0 uin pxi py wx wy y : F) (hT : Td ≠ 0)
    (h : PIDController.Laplace s u kp ki kd Td ref x0 uin pxi py wx wy y) :
    Realises ((kp * s + ki) * (1 + s * Td) + s * kd * s) (s * (1 + s * Td)) (u - ref) y := by
  have := PIDController_tf s u kp ki kd Td ref x0 uin pxi py wx wy y hT h
  unfold Realises; linear_combination this

/-- the same for `PIDAWHardLimit` inside its limits (`pidaw-ignores-Td`, repaired) -/
theorem pidaw_realises (s u kp ki kd Td al au lo up ref x0 xi uin wx wy yul y : F) (hT : Td ≠ 0)
    (h : PIDAWHardLimit.Laplace s u kp ki kd Td al au lo up ref x0 1 0 0 xi uin wx wy yul y) :
    Realises ((kp * s + ki) * (1 + s * Td) + s * kd * s) (s * (1 + s * Td)) (u - ref) y := by
  have := PIDAWHardLimit_tf s u kp ki kd Td al au lo up ref x0 1 0 0 xi uin wx wy yul y rfl rfl rfl hT h
  unfold Realises; linear_combination this

/-- the input that failed on the pinned tree (kd = 1, Td = 2, s = 1, unit error): the equations now force the
documented response `y = 7/3` (they admitted `y = 5/2`) -/
theorem pid_Td_witness (uin pxi py wx wy y : ℚ)
    (h : PIDController.Laplace (1 : ℚ) 1 1 1 1 2 0 0 uin pxi py wx wy y) : y = 7 / 3 := by
  have := PIDController_tf (1 : ℚ) 1 1 1 1 2 0 0 uin pxi py wx wy y (by norm_num) h
  linarith

example : PIDController.Laplace (1 : ℚ) 1 1 1 1 2 0 0 1 1 2 (1 / 3) (1 / 3) (7 / 3) := by
  unfold PIDController.Laplace; norm_num

/-- DEFECT `leadlag-init-ignores-K`: with the declared initial values the output equation balances iff
`(K − 1)·T2·u = 0` -/
theorem leadlag_steady_iff (u T1 T2 K x y : F) (h : LeadLag.Init u T1 T2 K x y) :
    LeadLag.Balanced u T1 T2 K x y ↔ (K - 1) * T2 * u = 0 := by
  unfold LeadLag.Init at h; unfold LeadLag.Balanced; obtain ⟨rfl, rfl⟩ := h
  constructor
  · rintro ⟨-, h2⟩; linear_combination h2
  · intro h2; exact ⟨by ring, by linear_combination h2⟩

theorem leadlag_init_counterexample :
    ∃ (x y : ℚ), LeadLag.Init (1 : ℚ) 1 1 2 x y ∧ ¬ LeadLag.Balanced (1 : ℚ) 1 1 2 x y := by
  refine ⟨1, 1, ?_, ?_⟩
  · unfold LeadLag.Init; norm_num
  · unfold LeadLag.Balanced; norm_num

/-- DEFECT `lagawfreeze-drops-D`: initial value `K u / D`, equation `(1 − freeze)(K u − y)`: balanced iff
`(1 − freeze)·K·u·(D − 1) = 0` -/
theorem lagawfreeze_steady_iff (u T K lower upper freeze D y : F) (hD : D ≠ 0)
    (h : LagAWFreeze.Init u T K lower upper freeze D y) :
    LagAWFreeze.Balanced u T K lower upper freeze D y ↔ (1 - freeze) * (K * u) * (D - 1) = 0 := by
  unfold LagAWFreeze.Init at h; unfold LagAWFreeze.Balanced; subst h
  constructor
  · intro h2; field_simp at h2; linear_combination h2
  · intro h2; field_simp; linear_combination h2

theorem lagawfreeze_counterexample :
    ∃ y : ℚ, LagAWFreeze.Init (1 : ℚ) 1 1 0 2 0 2 y ∧ ¬ LagAWFreeze.Balanced (1 : ℚ) 1 1 0 2 0 2 y := by
  refine ⟨1 / 2, ?_, ?_⟩
  · unfold LagAWFreeze.Init; norm_num
  · unfold LagAWFreeze.Balanced; norm_num

/-- the transfer function of `LagAWFreeze` does not see `D` either: documented K/(D+sT) requires `(D − 1)·y = 0` -/
theorem lagawfreeze_documented_iff (s u T K lower upper D y : F)
    (h : LagAWFreeze.Laplace s u T K lower upper 0 D y) :
    y * (D + s * T) = K * u ↔ (D - 1) * y = 0 := by
  have hact := LagAWFreeze_tf_actual s u T K lower upper 0 D y rfl h
  constructor
  · intro h2; linear_combination h2 - hact
  · intro h2; linear_combination h2 + hact

/-- DEFECT `lagfreeze-ignores-D`: `LagFreeze.__init__` passes the literal `D=1`; the equations do not mention `D` -/
theorem lagfreeze_equations_ignore_D (s u T K freeze D D' y : F) :
    LagFreeze.Laplace s u T K freeze D y ↔ LagFreeze.Laplace s u T K freeze D' y := Iff.rfl

theorem lagfreeze_counterexample :
    ∃ y : ℚ, LagFreeze.Laplace (1 : ℚ) 1 1 1 0 2 y ∧ ¬ (y * (2 + 1 * 1) = 1 * 1) := by
  refine ⟨1 / 2, ?_, ?_⟩
  · unfold LagFreeze.Laplace; norm_num
  · norm_num

/-- DEFECT `lagrate-ignores-D`: `LagRate` documents K/(D+sT) and accepts `D`, but neither the equation nor the
initial value uses it -/
theorem lagrate_equations_ignore_D (s u T K rl ru D D' y : F) :
    LagRate.Laplace s u T K rl ru D y ↔ LagRate.Laplace s u T K rl ru D' y := Iff.rfl

theorem lagrate_counterexample :
    ∃ y : ℚ, LagRate.Laplace (1 : ℚ) 1 1 1 0 0 2 y ∧ ¬ (y * (2 + 1 * 1) = 1 * 1) := by
  refine ⟨1 / 2, ?_, ?_⟩
  · unfold LagRate.Laplace; norm_num
  · norm_num

/-- the corner `T1 = T2 = T4 = 0 ≠ T3` (an improper transfer function `1 + s T3`) is outside the block's domain, like
every `T2 = 0` case that is not the documented by-pass: the flags the code computes are `LT3 = 0`, the by-pass term
is off, the output equation is `0 = 0` and ANY `y` satisfies the equations.  (On the pinned tree `LT3` tested `T4`,
the by-pass was selected and `y = u` was imposed although `T3 ≠ 0`: `leadlag2-LT3-tests-T4`, repaired.) -/
theorem leadlag2_T3_only_singular [DecidableEq F] (s u T3 a0 a1 b0 b1 c0 c1 d0 d1 y : F) (hT3 : T3 ≠ 0)
    (hf : LeadLag2ndOrdZ.Flags 0 0 T3 0 a0 a1 b0 b1 c0 c1 d0 d1) :
    c1 = 0 ∧ LeadLag2ndOrdZ.Laplace s u 0 0 T3 0 a1 b1 c1 d1 (s * u) u y := by
  unfold LeadLag2ndOrdZ.Flags at hf; obtain ⟨-, -, -, -, hc, -, -, -⟩ := hf
  have e : c1 = 0 := by rw [hc]; simp [hT3]
  refine ⟨e, ?_⟩
  subst e
  unfold LeadLag2ndOrdZ.Laplace
  refine ⟨?_, ?_, ?_⟩ <;> ring

end Field

/-! ## 4. static non-linear blocks (linearly ordered scalars) -/

section Ordered
variable {F : Type} [Field F] [LinearOrder F] [IsStrictOrderedRing F]

/-- `HVGate`: flags of `LessThan(u1, u2)` as `discrete.py` sets them (`z1 = [u1 < u2]`, `z0 = ¬z1`) -/
theorem hvgate_max (u1 u2 z0 z1 y : F) (hz1 : z1 = if u1 < u2 then 1 else 0) (hz0 : z0 = 1 - z1)
    (h : HVGate.Balanced u1 u2 z0 z1 y) : y = max u1 u2 := by
  unfold HVGate.Balanced at h; subst hz0 hz1
  by_cases c : u1 < u2
  · simp only [c, if_true] at h; rw [max_eq_right (le_of_lt c)]; linear_combination -h
  · simp only [c, if_false] at h; rw [max_eq_left (not_lt.mp c)]; linear_combination -h

theorem lvgate_min (u1 u2 z0 z1 y : F) (hz1 : z1 = if u1 < u2 then 1 else 0) (hz0 : z0 = 1 - z1)
    (h : LVGate.Balanced u1 u2 z0 z1 y) : y = min u1 u2 := by
  unfold LVGate.Balanced at h; subst hz0 hz1
  by_cases c : u1 < u2
  · simp only [c, if_true] at h; rw [min_eq_left (le_of_lt c)]; linear_combination -h
  · simp only [c, if_false] at h; rw [min_eq_right (not_lt.mp c)]; linear_combination -h

/-- `DeadBand1` with the `DeadBand` flags (`zu = [u > upper]`, `zl = [u < lower]`): the documented linear dead band -/
theorem deadband1_characteristic (u center lower upper gain zl zu y : F) (hlu : lower ≤ upper)
    (hzl : zl = if u < lower then 1 else 0) (hzu : zu = if upper < u then 1 else 0)
    (h : DeadBand1.Balanced u center lower upper gain zl zu y) :
    y = gain * (center + (if upper < u then u - upper else if u < lower then u - lower else 0)) := by
  unfold DeadBand1.Balanced at h; subst hzl hzu
  by_cases c1 : upper < u
  · have c2 : ¬ u < lower := not_lt.mpr (le_trans hlu (le_of_lt c1))
    simp only [c1, c2, if_true, if_false] at h ⊢; linear_combination -h
  · by_cases c2 : u < lower
    · simp only [c1, c2, if_true, if_false] at h ⊢; linear_combination -h
    · simp only [c1, c2, if_false] at h ⊢; linear_combination -h

/-- `Piecewise` with points `p0 ≤ p1` and functions `f0 f1 f2`: the documented ranges -/
theorem piecewise_ranges (u f0 p0 f1 p1 f2 y : F) (h : Piecewise.Balanced u f0 p0 f1 p1 f2 y) :
    (u ≤ p0 → y = f0) ∧ (p0 < u → u ≤ p1 → y = f1) ∧ (p0 < u → p1 < u → y = f2) := by
  unfold Piecewise.Balanced at h
  refine ⟨fun c => ?_, fun c0 c1 => ?_, fun c0 c1 => ?_⟩
  · simp only [c, if_true] at h; linear_combination -h
  · simp only [not_le.mpr c0, c1, if_true, if_false] at h; linear_combination -h
  · have : u > p1 := c1
    simp only [not_le.mpr c0, not_le.mpr c1, this, if_true, if_false] at h; linear_combination -h

/-- the closing `(0, True)` arm of the generated `Piecewise` string is unreachable in a linear order -/
theorem piecewise_default_unreachable (u p0 p1 : F) : u ≤ p0 ∨ u ≤ p1 ∨ u > p1 := by
  rcases le_or_gt u p1 with h | h
  · exact Or.inr (Or.inl h)
  · exact Or.inr (Or.inr h)

end Ordered

section Limiter
variable {F : Type} [Field F]

/-- `GainLimiter` at the upper limit (`zi = 0, zl = 0, zu = 1`) and at the lower limit -/
theorem gainlimiter_clamped_upper (s u K R lower upper x y : F)
    (h : GainLimiter.Laplace s u K R lower upper 0 0 1 x y) : y = R * upper := by
  unfold GainLimiter.Laplace at h; grind

theorem gainlimiter_clamped_lower (s u K R lower upper x y : F)
    (h : GainLimiter.Laplace s u K R lower upper 0 1 0 x y) : y = R * lower := by
  unfold GainLimiter.Laplace at h; grind

/-- limited PI variants at a limit: output clamped, and the tracking variant's integrator sees the back-calculation
term `ks·(ys − upper)` (the documented anti-windup) -/
theorem pitrack_clamped_upper (s u kp ki ks lower upper ref x0 xi ys y : F)
    (h : PITrackAW.Laplace s u kp ki ks lower upper ref x0 0 0 1 xi ys y) :
    y = upper ∧ s * xi = ki * (u - ref - ks * (ys - upper)) := by
  unfold PITrackAW.Laplace at h; grind

end Limiter

/-! ## 5. `PIControllerNumeric`: hand model (Andes/Model/PINumeric.lean, tied to `g_numeric / f_numeric / j_numeric` by
a bit-exact correspondence) against the generated symbolic `PIController` -/

section Numeric
variable {F : Type} [Field F]
open Andes.PINumeric

/-- the numeric block's residuals are the symbolic block's equations: same transfer function, same steady state -/
theorem pinumeric_is_picontroller (s u kp ki ref x0 xi y : F) :
    (s * xi = fRes ki u ref ∧ gRes kp u ref xi y = 0) ↔ PIController.Laplace s u kp ki ref x0 xi y := by
  unfold PIController.Laplace fRes gRes; constructor <;> rintro ⟨h1, h2⟩ <;> exact ⟨by linear_combination h1, by linear_combination h2⟩

theorem pinumeric_realises (s u kp ki ref xi y : F) (hf : s * xi = fRes ki u ref) (hg : gRes kp u ref xi y = 0) :
    Realises (kp * s + ki) s (u - ref) y :=
  pi_realises s u kp ki ref 0 xi y ((pinumeric_is_picontroller s u kp ki ref 0 xi y).mp ⟨hf, hg⟩)

/-- the constant Jacobian triplets of `j_numeric` are the exact increments of the (affine) residuals -/
theorem pinumeric_jacobian (kp ki ref u xi y du dxi dy : F) :
    fRes ki (u + du) ref - fRes ki u ref = jac_f_u ki * du ∧
    gRes kp (u + du) ref (xi + dxi) (y + dy) - gRes kp u ref xi y = jac_g_u kp * du + jac_g_xi * dxi + jac_g_y * dy := by
  unfold fRes gRes jac_f_u jac_g_u jac_g_xi jac_g_y; constructor <;> ring

end Numeric

/-! ## non-vacuity of the hand-written implications (the generated theorems carry their own witnesses) -/

example : LeadLagZ.Flags (2 : ℚ) 3 1 0 1 0 ∧ LeadLagZ.Laplace (1 : ℚ) 4 2 3 5 0 0 1 15 := by
  unfold LeadLagZ.Flags LeadLagZ.Laplace; norm_num
example : LeadLagZ.Flags (0 : ℚ) 0 0 1 0 1 ∧ LeadLagZ.Laplace (1 : ℚ) 4 0 0 5 1 1 4 20 := by
  unfold LeadLagZ.Flags LeadLagZ.Laplace; norm_num
example : WashoutOrLag.Flags (0 : ℚ) 0 1 ∧ WashoutOrLag.Laplace (1 : ℚ) 4 1 0 0 1 2 2 := by
  unfold WashoutOrLag.Flags WashoutOrLag.Laplace; norm_num
example : HVGate.Balanced (1 : ℚ) 2 0 1 2 := by unfold HVGate.Balanced; norm_num
example : LVGate.Balanced (1 : ℚ) 2 0 1 1 := by unfold LVGate.Balanced; norm_num
example : DeadBand1.Balanced (3 : ℚ) 0 (-1) 1 2 0 1 4 := by unfold DeadBand1.Balanced; norm_num
example : Piecewise.Balanced (2 : ℚ) 10 1 20 3 30 20 := by unfold Piecewise.Balanced; norm_num
example : GainLimiter.Laplace (1 : ℚ) 4 2 3 (-1) 5 0 0 1 8 15 := by unfold GainLimiter.Laplace; norm_num
example : PITrackAW.Laplace (1 : ℚ) 2 1 1 1 (-1) 1 0 0 0 0 1 (1/2) (5/2) 1 := by unfold PITrackAW.Laplace; norm_num
example : PIDTrackAW.Laplace (1 : ℚ) 1 1 1 1 1 1 (-9) 9 0 0 1 0 0 1 1 (1/2) (1/2) (5/2) (5/2) := by
  unfold PIDTrackAW.Laplace; norm_num

end Andes.C18
