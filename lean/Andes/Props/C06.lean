import Andes.Proofs.TdsLoop
import Andes.Proofs.Events

/-!
# C06 — Scheduled events fire exactly once at their exact time; the time grid is exact

Property theorems only.  Model: `Andes/Model/TdsLoop.lean` (`TDS.calc_h`, `_calc_h_first`, `do_switch`,
the loop of `TDS.run`, `init_resume`, `System.store_switch_times`) and `Andes/Model/Events.lean`
(`Toggle._u_switch`), tied to `/repo` by the bit-exact correspondence of `harness/c06.py`.
Scalars are `ℚ` (exact arithmetic); the integrator verdicts are arbitrary inputs.

`Reach c f tf s` : `s` is a state at a loop head (or after the loop has stopped) of a simulation that
was started with configuration `c`, fixed-step flag `f`, any number of `run` calls with non-decreasing
end times (the current one is `tf`) and ANY history of integrator verdicts.
-/
namespace Andes.Tds

/-- hypotheses on the supplied data: sorted switch times (proved for `store_switch_times` below),
positive frequency estimates, `0 ≤ t0`, and no switch time at or before `t = 0` (see
`event_at_t0_never_fires` for what happens otherwise) -/
structure Hyp (c : Cfg ℚ) : Prop where
  sorted : c.sw.Pairwise (· < ·)
  freqRaw_pos : 0 < c.freqRaw
  sysFreq_pos : 0 < c.sysFreq
  t0_nonneg : 0 ≤ c.t0
  sw_pos : ∀ x ∈ c.sw, 0 < x

def withTf (c : Cfg ℚ) (tf : ℚ) : Cfg ℚ := { c with tf := tf }

inductive Reach (c : Cfg ℚ) (f : Bool) : ℚ → St ℚ → Prop
  | init (tf : ℚ) (h : c.t0 < tf) : Reach c f tf (init (withTf c tf) f)
  | step (tf : ℚ) (s : St ℚ) (v : Verdict) : Reach c f tf s → guard (withTf c tf) s = true →
      Reach c f tf (iter (withTf c tf) s v)
  | resume (tf tf' : ℚ) (s : St ℚ) : Reach c f tf s → guard (withTf c tf) s = false → tf ≤ tf' →
      Reach c f tf' (resume (withTf c tf') s)

theorem hyp_ok (c : Cfg ℚ) (hy : Hyp c) (tf : ℚ) (h : c.t0 < tf) : CfgOk (withTf c tf) :=
  ⟨hy.sorted, hy.freqRaw_pos, hy.sysFreq_pos, h⟩

/-- every reachable state satisfies the loop invariant (and its end time lies after `t0`) -/
theorem reach_inv (c : Cfg ℚ) (hy : Hyp c) (f : Bool) (tf : ℚ) (s : St ℚ) (h : Reach c f tf s) :
    c.t0 < tf ∧ Inv (withTf c tf) s := by
  induction h with
  | init tf h => exact ⟨h, init_inv (withTf c tf) (hyp_ok c hy tf h) f hy.t0_nonneg hy.sw_pos⟩
  | step tf s v _ hg ih =>
    exact ⟨ih.1, iter_inv (withTf c tf) (hyp_ok c hy tf ih.1) s v ih.2 ((guard_iff _ s).mp hg)⟩
  | resume tf tf' s _ hg hle ih =>
    have h' : c.t0 < tf' := lt_of_lt_of_le ih.1 hle
    exact ⟨h', resume_inv (withTf c tf) tf' (hyp_ok c hy tf' h') s ih.2 hg hy.t0_nonneg ih.1 hle⟩

/-- the executable `run` only visits reachable states -/
theorem reach_run (c : Cfg ℚ) (hy : Hyp c) (f : Bool) (tf : ℚ) (vs : List Verdict) :
    ∀ s, Reach c f tf s → Reach c f tf (run (withTf c tf) s vs) := by
  induction vs with
  | nil => intro s h; unfold run; rw [pre_eq _ s (reach_inv c hy f tf s h).2]; exact h
  | cons v vs ih =>
    intro s h
    unfold run
    rw [pre_eq _ s (reach_inv c hy f tf s h).2]
    split_ifs with hg
    · exact ih _ (Reach.step tf s v h hg)
    · exact h

section
variable (c : Cfg ℚ) (hy : Hyp c) (f : Bool) (tf : ℚ) (s : St ℚ) (hr : Reach c f tf s)
include hy hr

/-- **Stored time stamps are strictly increasing** (the list is newest first), over any number of
resumed segments. -/
theorem stamps_strictly_increasing : s.stamps.Pairwise (· > ·) :=
  (reach_inv c hy f tf s hr).2.stampsDec

/-- **No step crosses an event time**: between two consecutive stamps `q < p` there is no switch time. -/
theorem no_step_crosses_event :
    s.stamps.IsChain (fun (p q : ℚ) => ∀ (j : Nat) (x : ℚ), c.sw[j]? = some x → ¬ (q < x ∧ x < p)) :=
  (reach_inv c hy f tf s hr).2.noCross

/-- the switch actions run in schedule order, each processed index once, each at a stored stamp
equal to its switch time -/
theorem fired_in_order_once_at_stamp :
    s.fired = (List.range s.idx).reverse ∧ s.fired.Nodup ∧
    ∀ j ∈ s.fired, ∃ x, c.sw[j]? = some x ∧ x ∈ s.stamps := by
  have hI := (reach_inv c hy f tf s hr).2
  refine ⟨hI.firedAll, ?_, hI.firedAt⟩
  rw [hI.firedAll]; exact List.nodup_reverse.mpr List.nodup_range

/-- **A run that stopped without error ends exactly at the requested end time** and reports success;
a run that stopped with an error reports failure. -/
theorem success_iff_ends_at_tf (hstop : guard (withTf c tf) s = false) :
    succeed (withTf c tf) s = !s.busted ∧ (s.busted = false → s.t = tf ∧ s.h = 0) := by
  have hI := (reach_inv c hy f tf s hr).2
  cases hb : s.busted with
  | true => simp [succeed, hb]
  | false =>
    obtain ⟨h1, h2⟩ := stopped_at_tf (withTf c tf) s hI hstop hb
    have : (withTf c tf).tf = tf := rfl
    rw [this] at h1
    refine ⟨?_, fun _ => ⟨h1, h2⟩⟩
    simp [succeed, hb, h1, this]

/-- the last stored stamp of a successful run is the end time -/
theorem last_stamp_is_tf (hstop : guard (withTf c tf) s = false) (hb : s.busted = false)
    (p : ℚ) (hp : s.stamps.head? = some p) : p = tf := by
  have hI := (reach_inv c hy f tf s hr).2
  obtain ⟨h1, h2⟩ := stopped_at_tf (withTf c tf) s hI hstop hb
  have := hI.headEq hb p hp
  have e : (withTf c tf).tf = tf := rfl
  rw [e] at h1
  rw [this, h1, h2]; ring

/-- **Every switch time within the simulated interval fires exactly once, at a stamp equal to it;
switch times beyond the end time do not fire** (`_partial`: the hypothesis `Hyp.sw_pos` excludes a
switch time at `t0 = 0`, for which the statement is false — `event_at_t0_never_fires`). -/
theorem fires_exactly_once_partial (hstop : guard (withTf c tf) s = false) (hb : s.busted = false)
    (j : Nat) (x : ℚ) (hx : c.sw[j]? = some x) :
    (x ≤ tf → s.fired.count j = 1 ∧ x ∈ s.stamps) ∧ (tf < x → j ∉ s.fired) := by
  have hI := (reach_inv c hy f tf s hr).2
  obtain ⟨h1, h2⟩ := stopped_at_tf (withTf c tf) s hI hstop hb
  have e : (withTf c tf).tf = tf := rfl
  rw [e] at h1
  have hnd : s.fired.Nodup := by rw [hI.firedAll]; exact List.nodup_reverse.mpr List.nodup_range
  have hmem : ∀ k, k ∈ s.fired ↔ k < s.idx := by
    intro k; rw [hI.firedAll]; simp
  constructor
  · intro hle
    have hj : j < s.idx := by
      by_contra hn
      have := hI.pendBase hb j (Nat.le_of_not_lt hn) x hx
      rw [h1, h2] at this; linarith
    have hjm := (hmem j).mpr hj
    refine ⟨List.count_eq_one_of_mem hnd hjm, ?_⟩
    obtain ⟨y, hy', hys⟩ := hI.firedAt j hjm
    have hxy : (withTf c tf).sw[j]? = some x := hx
    rw [hxy] at hy'; cases hy'; exact hys
  · intro hgt hjm
    have hj := (hmem j).mp hjm
    have := hI.passed j hj x hx
    rw [h1, h2] at this; linarith

end

/-! ### The schedule handed to the loop (`System.store_switch_times`) -/

/-- the switch-time list is strictly increasing, whatever the event times are -/
theorem switch_times_sorted (eps now : ℚ) (times : List ℚ) :
    (switchTimes eps now times).Pairwise (· < ·) := switchTimes_sorted eps now times

/-- every event time that is not in the past is a switch time (so is hit exactly), together with the
instants `eps` before and after it; times in the past (negative ones) are dropped -/
theorem switch_times_complete (eps now : ℚ) (times : List ℚ) (t : ℚ) (ht : t ∈ times) (hn : now ≤ t) :
    t ∈ switchTimes eps now times :=
  (switchTimes_mem eps now times t).mpr ⟨hn, Or.inl ht⟩

theorem switch_times_no_past (eps now : ℚ) (times : List ℚ) (y : ℚ) (hy : y ∈ switchTimes eps now times) :
    now ≤ y := ((switchTimes_mem eps now times y).mp hy).1

/-! ### The effect of a switch action (`Toggle`) -/

open Andes.Events in
/-- at a switch time, the status of a device is negated once per enabled Toggle that addresses it and
whose time is exactly that switch time; all other devices keep their status -/
theorem toggle_effect_on_addressed_device_only (ts : List (Toggle ℚ)) (x : ℚ) (u : List Bool) (k : Nat) :
    (applyAt ts x u)[k]? = u[k]?.map (fun b => if Even (hits ts x k) then b else !b) :=
  applyAt_get ts x u k

open Andes.Events in
theorem disabled_toggle_never_acts (tg : Toggle ℚ) (x : ℚ) (h : tg.u = false) : acts tg x = false :=
  disabled_never_acts tg x h

open Andes.Events in
/-- two coincident enabled Toggles on one device cancel -/
example : applyAt [⟨(1:ℚ), true, 0⟩, ⟨1, true, 0⟩] 1 [true, true] = [true, true] := by decide


/-! ### Custom events and the connectivity re-check -/

theorem doSwitch_keeps_custom (c : Cfg ℚ) (s : St ℚ) :
    (doSwitch c s).customPending = s.customPending ∧ (doSwitch c s).connChecks = s.connChecks ∧
    (doSwitch c s).customs = s.customs ∧ (doSwitch c s).t = s.t := by
  unfold doSwitch; split
  · split_ifs <;> simp
  · simp

/-- **Every switching — by a timed event or by a custom event flag — is followed by exactly one
connectivity re-check** (with `check_conn` on), a pending custom event runs once and is cleared, and a
pass without any switching re-checks nothing. -/
theorem switching_is_followed_by_connectivity_check (c : Cfg ℚ) (s : St ℚ) (hc : c.checkConn = true) :
    let s' := doSwitch' c s
    (((doSwitch c s).idx ≠ s.idx ∨ s.customPending = true) → s'.connChecks = s.connChecks + 1) ∧
    (((doSwitch c s).idx = s.idx ∧ s.customPending = false) → s'.connChecks = s.connChecks) ∧
    s'.customPending = false ∧
    (s.customPending = true → s'.customs = s.t :: s.customs) ∧
    (s.customPending = false → s'.customs = s.customs) := by
  obtain ⟨h1, h2, h3, h4⟩ := doSwitch_keeps_custom c s
  simp only [doSwitch', customSwitch, h1, h2, h3, h4, hc, Bool.and_true]
  refine ⟨?_, ?_, trivial, ?_, ?_⟩
  · rintro (h | h)
    · simp [h]
    · simp [h]
  · rintro ⟨h, h'⟩; simp [h, h']
  · intro h; simp [h]
  · intro h; simp [h]

/-! ### Non-vacuity and the excluded inputs -/

def demoCfg : Cfg ℚ :=
  { t0 := 0, tf := 1/10, tstep := 1/30, shrinkt := true, freqRaw := 30, sysFreq := 60,
    sw := [499/10000, 1/20, 501/10000] }

/-- the hypotheses are satisfiable: a Toggle at t = 0.05 with its `±1e-4` markers -/
example : Hyp demoCfg := by
  refine ⟨?_, by norm_num [demoCfg], by norm_num [demoCfg], by norm_num [demoCfg], ?_⟩
  · simp [demoCfg]; norm_num
  · intro x hx; simp [demoCfg] at hx; rcases hx with rfl | rfl | rfl <;> norm_num

def acc (n : Nat) : Verdict := ⟨true, n, false, false, false⟩
def rej (n : Nat) : Verdict := ⟨false, n, false, false, false⟩

/-- a concrete complete run of the model: 3 events fire at 0.0499, 0.05, 0.0501 and the run ends at 0.1 -/
example :
    let s := run demoCfg (init demoCfg true) (List.replicate 8 (acc 3))
    guard demoCfg s = false ∧ s.busted = false ∧ s.fired = [2, 1, 0] ∧ s.t = 1/10 ∧
    s.stamps = [1/10, 2503/30000, 501/10000, 1/20, 499/10000, 1/30, 0] := by
  decide +kernel

/-- **Counterexample (known finding `event-at-t0`)**: a switch time at `t0 = 0` is skipped by the
"avoid h == 0" branch of `calc_h` and its switch action never runs, although the run succeeds. -/
theorem event_at_t0_never_fires :
    let c : Cfg ℚ := { demoCfg with sw := [0, 1/10000] }
    let s := run c (init c true) (List.replicate 6 (acc 3))
    guard c s = false ∧ succeed c s = true ∧ 0 ∉ s.fired ∧ s.fired = [1] := by
  decide +kernel

/-- **Counterexample (known finding `first-step-rejected`)**: when the very first integration step is
rejected, time goes negative: the first stored stamp is negative, there is no stamp at `t0 = 0`, and
the run still reports success. -/
theorem first_step_rejected_negative_time :
    let s := run demoCfg (init demoCfg true) (rej 16 :: List.replicate 10 (acc 3))
    guard demoCfg s = false ∧ succeed demoCfg s = true ∧ s.stamps.getLast? = some (-1/300) ∧ 0 ∉ s.stamps := by
  decide +kernel

end Andes.Tds
