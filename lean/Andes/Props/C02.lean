import Andes.Proofs.Expr

/-!
# C02 — Generated numerical code computes exactly the declared model equations

The per-model obligations live in `Andes/Gen/M_<Model>.lean`, REGENERATED on every run from the model
declarations and the pycode generated from them (`translator/models.py`); each is
`theorem <fn>_<k>_<var> (ρ) : evalR ρ <generated expression> = evalR ρ <declared expression>`.
This file holds the hand-written part: what such an obligation means, how the positional binding of a
generated tuple to the declared variables carries it to every variable, and the decision model of the
staleness test that guards the loaded code.
-/
namespace Andes.C02
open Andes Andes.Expr

/-- two expressions denote the same real function of the model's symbols -/
def Equiv (a b : Expr) : Prop := ∀ ρ : Nat → ℝ, evalR ρ a = evalR ρ b

theorem Equiv.refl (a : Expr) : Equiv a a := fun _ => rfl
theorem Equiv.symm {a b : Expr} (h : Equiv a b) : Equiv b a := fun ρ => (h ρ).symm
theorem Equiv.trans {a b c : Expr} (h₁ : Equiv a b) (h₂ : Equiv b c) : Equiv a c := fun ρ => (h₁ ρ).trans (h₂ ρ)

/-- equivalence is a congruence for the arithmetic constructors (so a SubsService may be replaced by
its expression on either side) -/
theorem Equiv.add {a a' b b' : Expr} (h₁ : Equiv a a') (h₂ : Equiv b b') : Equiv (add a b) (add a' b') :=
  fun ρ => by simp only [evalR, h₁ ρ, h₂ ρ]
theorem Equiv.mul {a a' b b' : Expr} (h₁ : Equiv a a') (h₂ : Equiv b b') : Equiv (mul a b) (mul a' b') :=
  fun ρ => by simp only [evalR, h₁ ρ, h₂ ρ]
theorem Equiv.div {a a' b b' : Expr} (h₁ : Equiv a a') (h₂ : Equiv b b') : Equiv (div a b) (div a' b') :=
  fun ρ => by simp only [evalR, h₁ ρ, h₂ ρ]
theorem Equiv.ite {c c' a a' b b' : Expr} (h₀ : Equiv c c') (h₁ : Equiv a a') (h₂ : Equiv b b') :
    Equiv (ite c a b) (ite c' a' b') :=
  fun ρ => by simp only [evalR, h₀ ρ, h₁ ρ, h₂ ρ]

/-- **Positional delivery** (`Model.f_update` / `g_update`: `var_i.e = ret[i]`): if the k-th generated
output is equivalent to the k-th declared equation for every k, then after the positional assignment
every variable holds the value of the equation declared for it — for every number of variables. -/
theorem positional_binding (gen decl : List Expr) (h : List.Forall₂ Equiv gen decl) (ρ : Nat → ℝ) :
    (gen.map (evalR ρ)) = (decl.map (evalR ρ)) := by
  induction h with
  | nil => rfl
  | cons hab _ ih => simp only [List.map_cons, hab ρ, ih]

theorem positional_binding_get (gen decl : List Expr) (h : List.Forall₂ Equiv gen decl) (ρ : Nat → ℝ) (k : Nat)
    (g d : Expr) (hg : gen[k]? = some g) (hd : decl[k]? = some d) : evalR ρ g = evalR ρ d := by
  have := positional_binding gen decl h ρ
  have h1 : (gen.map (evalR ρ))[k]? = some (evalR ρ g) := by simp [hg]
  have h2 : (decl.map (evalR ρ))[k]? = some (evalR ρ d) := by simp [hd]
  rw [this, h2] at h1
  exact (Option.some.inj h1).symm

/-- the staleness decision of `System.undill` / `_find_stale_models`: code is used only when the md5 it
was generated from equals the md5 of the model's current equations -/
inductive Action | use | regenerate
deriving DecidableEq, Repr

def decide_stale (stored current : String) : Action := if stored = current then .use else .regenerate

theorem never_use_stale (stored current : String) : decide_stale stored current = .use ↔ stored = current := by
  unfold decide_stale; split_ifs with h <;> simp [h]

example : Equiv (add (var 0) (num 0)) (var 0) := fun ρ => by simp [evalR]
example : decide_stale "6608e6" "6608e6" = .use ∧ decide_stale "006608e6" "6608e6" = .regenerate := by decide

end Andes.C02
