import Andes.Proofs.SolverCache

/-!
# C16 — Results do not depend on solver back-end, acceleration options or repetition

Property theorems only.  Model: `Andes/Model/SolverCache.lean` (`andes/linsolvers/solverbase.py`,
`suitesparse.py`, `scipy.py`; the flag writes of `PFlow.nr_step` and `daeint.step`), tied to `/repo` by the
correspondence of `harness/c16.py` (library-call sequence and returned vector of every operation of random
histories through the three real workers; flag writes of the real Newton iterations).

The linear-algebra library is an abstract `Sys`: `sol A b` is what the LU factors of `A` give.  Every
theorem is for ALL back ends `S`, ALL histories `pre` of operations on one worker, ALL matrices.
`suitesparse_Ax_eq_b_partial` turns "returns `sol A b`" into "returns `x` with `A x = b`" from the library
contract, which `m2_contract` proves for the exact 2x2 solve.

Repaired on the way (`known_findings.json`, fixed): UMFPACK `solve` on a singular matrix reached through the
re-symbolic branch, and SuiteSparse `linsolve` on a singular matrix, returned `b` unchanged; both now return the
NaN vector (`suitesparse_singular_reported`, for every compatible history).

What is NOT true on the real code (and therefore excluded by hypothesis, with counterexample theorems):
* KLU `solve` after a pattern change: the cached symbolic factor is handed to `klu.numeric` (crash or
  wrong vector) — `klu_pattern_change_undefined`;
* `PFlow.nr_step` requests the refresh through `new_A`, which the SuiteSparse workers ignore —
  `pflow_newA_ignored_by_klu`.
-/
namespace Andes.SolverCache

section
variable {M V P : Type} [DecidableEq P] (S : Sys M V P)

/-- the patterns of the matrices handed to `solve` so far, and of the current one, are mutually
compatible for the library: equal, or (UMFPACK only) told apart by `umfpack.numeric` -/
def HistCompat (lib : Lib) (pre : List (Op M V)) (A : M) : Prop :=
  ∀ B ∈ A :: solved pre, ∀ B' ∈ A :: solved pre, S.pat B ≠ S.pat B' →
    lib = .umfpack ∧ S.detects (S.pat B) (S.pat B') = true

/-- **Every `solve` and every `linsolve` of a SuiteSparse worker returns the solution for the CURRENT
matrix**, after any history (new values, singular matrices in between, `clear`, flag writes, and — for
UMFPACK — pattern changes it detects), provided the patterns are compatible.

Full statement (without `hcompat`) is FALSE on the real code, see `klu_pattern_change_undefined` and
`umfpack_undetected_pattern_change_undefined`:
`theorem suitesparse_solves_current (lib ≠ spsolve) pre A b (hreg : S.reg A) : stepOut … (.solve A b) = .vec (S.sol A b)` -/
theorem suitesparse_solves_current_partial (lib : Lib) (hl : lib ≠ .spsolve) (pre : List (Op M V)) (A : M) (b : V)
    (hcompat : HistCompat S lib pre A) (hreg : S.reg A = true) :
    stepOut S lib (runSt S lib (init M P lib) pre) (.solve A b) = .vec (S.sol A b) ∧
    stepOut S lib (runSt S lib (init M P lib) pre) (.linsolve A b) = .vec (S.sol A b) := by
  let Q : P → Prop := fun q => ∃ B ∈ A :: solved pre, S.pat B = q
  have hc : Compat S lib Q := by
    rintro q q' ⟨B, hB, rfl⟩ ⟨B', hB', rfl⟩ hne
    exact hcompat B hB B' hB' hne
  have hinv : SsInv Q (runSt S lib (init M P lib) pre) :=
    runSt_inv S lib hl Q hc pre _ (ssInv_init lib hl Q) (fun B hB => ⟨B, by simp [hB], rfl⟩)
  have hA : Q (S.pat A) := ⟨A, by simp, rfl⟩
  have hd := hinv.1
  constructor
  · cases lib with
    | spsolve => exact absurd rfl hl
    | klu => simpa [stepOut, hd] using ssSolveOut_regular S .klu Q hc _ hinv A b hA hreg
    | umfpack => simpa [stepOut, hd] using ssSolveOut_regular S .umfpack Q hc _ hinv A b hA hreg
  · cases lib <;> simp_all [stepOut, ssLinOut]

omit [DecidableEq P] in
/-- same-pattern histories (what the routines produce) are compatible for both libraries -/
theorem same_pattern_compat (lib : Lib) (pre : List (Op M V)) (A : M)
    (h : ∀ B ∈ solved pre, S.pat B = S.pat A) : HistCompat S lib pre A := by
  intro B hB B' hB' hne
  have e : ∀ C ∈ A :: solved pre, S.pat C = S.pat A := by
    intro C hC
    rcases List.mem_cons.mp hC with rfl | hC
    · rfl
    · exact h C hC
  exact absurd ((e B hB).trans (e B' hB').symm) hne

/-- the returned vector satisfies `A x = b` whenever the library honours `A * sol A b = b` -/
theorem suitesparse_Ax_eq_b_partial (mul : M → V → V)
    (hcontract : ∀ A b, S.reg A = true → mul A (S.sol A b) = b)
    (lib : Lib) (hl : lib ≠ .spsolve) (pre : List (Op M V)) (A : M) (b : V)
    (hcompat : HistCompat S lib pre A) (hreg : S.reg A = true) :
    ∃ x, stepOut S lib (runSt S lib (init M P lib) pre) (.solve A b) = .vec x ∧ mul A x = b :=
  ⟨S.sol A b, (suitesparse_solves_current_partial S lib hl pre A b hcompat hreg).1, hcontract A b hreg⟩

/-- **A singular matrix is reported** by the all-NaN vector, by `solve` and by `linsolve`, after any history
with compatible patterns (same pattern throughout, or pattern changes UMFPACK detects) — full strength since
the repair of the re-symbolic branch of `solve` and of `linsolve`. -/
theorem suitesparse_singular_reported (lib : Lib) (hl : lib ≠ .spsolve) (pre : List (Op M V)) (A : M) (b : V)
    (hcompat : HistCompat S lib pre A) (hsing : S.reg A = false) :
    stepOut S lib (runSt S lib (init M P lib) pre) (.solve A b) = .vec (S.nan b) ∧
    stepOut S lib (runSt S lib (init M P lib) pre) (.linsolve A b) = .vec (S.nan b) := by
  let Q : P → Prop := fun q => ∃ B ∈ A :: solved pre, S.pat B = q
  have hc : Compat S lib Q := by
    rintro q q' ⟨B, hB, rfl⟩ ⟨B', hB', rfl⟩ hne
    exact hcompat B hB B' hB' hne
  have hinv : SsInv Q (runSt S lib (init M P lib) pre) :=
    runSt_inv S lib hl Q hc pre _ (ssInv_init lib hl Q) (fun B hB => ⟨B, by simp [hB], rfl⟩)
  have hA : Q (S.pat A) := ⟨A, by simp, rfl⟩
  have hd := hinv.1
  have hout : ∀ l : Lib, Compat S l Q → ssSolveOut S l (runSt S lib (init M P lib) pre) A b = .vec (S.nan b) := by
    intro l hcl
    rcases numeric_cases S l Q hcl _ hinv A hA with h | h | h
    · rw [hsing] at h; exact absurd h.2 (by simp)
    · simp [ssSolveOut, h.1]
    · simp [ssSolveOut, h.1, hsing]
  constructor
  · cases lib with
    | spsolve => exact absurd rfl hl
    | klu => simpa [stepOut, hd] using hout .klu hc
    | umfpack => simpa [stepOut, hd] using hout .umfpack hc
  · cases lib <;> simp_all [stepOut, ssLinOut]

/-- a singular matrix of the same pattern as everything before is reported by the all-NaN vector -/
theorem suitesparse_singular_same_pattern_nan (lib : Lib) (hl : lib ≠ .spsolve) (pre : List (Op M V)) (A : M)
    (b : V) (hsame : ∀ B ∈ solved pre, S.pat B = S.pat A) (hsing : S.reg A = false) :
    stepOut S lib (runSt S lib (init M P lib) pre) (.solve A b) = .vec (S.nan b) :=
  (suitesparse_singular_reported S lib hl pre A b (same_pattern_compat S lib pre A hsame) hsing).1

/-! ### Counterexamples on the faithful model (the defects of the real code) -/

/-- KLU: after a `solve` on pattern `pat B`, a `solve` on a matrix of ANOTHER pattern hands the stale
symbolic factor to `klu.numeric` — outside the library contract (real code: SIGSEGV or a wrong vector),
although both matrices are regular. -/
theorem klu_pattern_change_undefined (B A : M) (b0 b : V) (hne : S.pat B ≠ S.pat A) :
    stepOut S .klu (runSt S .klu (init M P .klu) [.solve B b0]) (.solve A b) = .ub := by
  by_cases hB : S.reg B = true <;>
    simp [runSt, stepSt, stepOut, init, ssSolveSt, ssSolveF, ssSolveDead, ssF0, numeric, ssSolveOut, hB, hne]

/-- UMFPACK: the same when `umfpack.numeric` does not notice the pattern change -/
theorem umfpack_undetected_pattern_change_undefined (B A : M) (b0 b : V) (hne : S.pat B ≠ S.pat A)
    (hund : S.detects (S.pat B) (S.pat A) = false) :
    stepOut S .umfpack (runSt S .umfpack (init M P .umfpack) [.solve B b0]) (.solve A b) = .ub := by
  by_cases hB : S.reg B = true <;>
    simp [runSt, stepSt, stepOut, init, ssSolveSt, ssSolveF, ssSolveDead, ssF0, numeric, ssSolveOut, hB, hne, hund]

/-- the SciPy worker reports a singular matrix in `linsolve` the same way (NaN vector) -/
theorem spsolve_linsolve_singular_nan (s : St M P) (hd : s.dead = false) (A : M) (b : V)
    (hsing : S.reg A = false) : stepOut S .spsolve s (.linsolve A b) = .vec (S.nan b) := by
  simp [stepOut, spLinOut, hd, hsing]

/-! ### SciPy worker: refresh flags -/

/-- **After a refresh request** (`factorize = True` or `new_A = True`, or on a fresh worker) the next
`solve` on a regular matrix returns the solution for the current matrix — whatever the history `pre`,
and whatever happens in between (`mid`) short of a successful `solve`. -/
theorem spsolve_after_refresh (pre mid : List (Op M V)) (flag : Op M V) (hflag : isFlag flag = true)
    (hmid : ∀ op ∈ mid, ∀ B b, op = .solve B b → S.reg B = false) (A : M) (b : V) (hreg : S.reg A = true) :
    stepOut S .spsolve (runSt S .spsolve (init M P .spsolve) (pre ++ flag :: mid)) (.solve A b)
      = .vec (S.sol A b) := by
  rw [runSt_append]
  set s := runSt S .spsolve (init M P .spsolve) pre with hs
  have hd : s.dead = false := sp_runSt_dead S pre _ (init_dead .spsolve)
  have hr : spRefresh (stepSt S .spsolve s flag) = true := by
    cases flag <;> simp_all [isFlag, stepSt, spRefresh]
  have hd1 : (stepSt S .spsolve s flag).dead = false := sp_dead S s flag hd
  have hr2 := sp_refresh_run S mid _ hr hmid
  have hd2 := sp_runSt_dead S mid _ hd1
  simp only [runSt]
  simp [stepOut, hd2, spSolveOut, hr2, hreg]

/-- the first `solve` of a worker factorises too -/
theorem spsolve_first_call (mid : List (Op M V))
    (hmid : ∀ op ∈ mid, ∀ B b, op = .solve B b → S.reg B = false) (A : M) (b : V) (hreg : S.reg A = true) :
    stepOut S .spsolve (runSt S .spsolve (init M P .spsolve) mid) (.solve A b) = .vec (S.sol A b) := by
  have hr2 := sp_refresh_run S mid (init M P .spsolve) (by simp [init, spRefresh]) hmid
  have hd2 := sp_runSt_dead S mid _ (init_dead (M := M) (P := P) .spsolve)
  simp [stepOut, hd2, spSolveOut, hr2, hreg]

/-- **Otherwise the factors are stale, and the theorem names the matrix that is used**: once `solve L _`
has factorised `L`, every later `solve A b` returns `sol L b` — the solution for `L`, not for `A` — until
a flag is written; `linsolve`, `clear` and other `solve` calls in between change nothing. -/
theorem spsolve_stale_otherwise (s : St M P) (hd : s.dead = false) (hr : spRefresh s = true) (L : M) (b0 : V)
    (hL : S.reg L = true) (mid : List (Op M V)) (hmid : ∀ op ∈ mid, isFlag op = false) (A : M) (b : V) :
    stepOut S .spsolve (runSt S .spsolve s (.solve L b0 :: mid)) (.solve A b) = .vec (S.sol L b) := by
  have hr' : s.factorize = true ∨ s.newA = true := by simpa [spRefresh] using hr
  have h0 : SpStale L (stepSt S .spsolve s (.solve L b0)) := by
    simp [stepSt, hd, spSolveSt, hL, SpStale, spRefresh, hr']
  have h1 := sp_stale_run S L mid _ h0 hmid
  obtain ⟨h2, h3, h4⟩ := h1
  simp only [runSt]
  simp [stepOut, h4, spSolveOut, h2, h3]

/-- `SciPySolver.clear` is `pass`: it neither drops the cached factors nor requests a refresh -/
theorem spsolve_clear_noop (s : St M P) : stepSt S .spsolve s (.clear : Op M V) = s := rfl

/-! ### The routines request the refresh -/

/-- **`PFlow.nr_step`**: when the Jacobian is rebuilt, `new_A = True` is written before the solve, and the
matrix solved is the new one; otherwise no flag is written and the old Jacobian is solved again. -/
theorem routine_requests_refresh_pflow (dishonest : Bool) (nf niter : Nat) (lin : Bool) (Jold Jnew : M) (b : V) :
    (pfUpdates dishonest nf niter = true →
      pfStepOps dishonest nf niter lin Jold Jnew b =
        [.setNewA, if lin then .linsolve Jnew b else .solve Jnew b]) ∧
    (pfUpdates dishonest nf niter = false →
      pfStepOps dishonest nf niter lin Jold Jnew b = [if lin then .linsolve Jold b else .solve Jold b]) := by
  constructor <;> intro h <;> simp [pfStepOps, h]

/-- the plain Newton method rebuilds in every iteration; the dishonest one in the first `n_factorize` -/
theorem pfUpdates_iff (dishonest : Bool) (nf niter : Nat) :
    pfUpdates dishonest nf niter = true ↔ (dishonest = false ∨ niter < nf) := by
  cases dishonest <;> simp [pfUpdates]

/-- **`daeint.step`**: a rebuilt Jacobian (`reason` non-empty) is followed by `factorize = True` before the solve -/
theorem routine_requests_refresh_tds (upd lin : Bool) (Ac : M) (b : V) :
    tdsIterOps upd lin Ac b =
      (if upd then [Op.setFactorize] else []) ++ [if lin then .linsolve Ac b else .solve Ac b] := rfl

/-- consequence for the time-domain iteration: with the refresh requested, EVERY back end, from EVERY
(non-crashed) state, with or without `linsolve`, returns the solution for the current matrix — also
after a pattern change. The result does not depend on `lib`, `lin` or the history. -/
theorem tds_update_solves_current (lib : Lib) (s : St M P) (hd : s.dead = false) (lin : Bool) (Ac : M) (b : V)
    (hreg : S.reg Ac = true) :
    (runOut S lib s (tdsIterOps true lin Ac b)).getLast? = some (.vec (S.sol Ac b)) := by
  cases lib <;> cases lin <;>
    simp [tdsIterOps, runOut, stepSt, stepOut, hd, ssSolveOut, ssF0, numeric, hreg, ssLinOut, spLinOut, spSolveOut,
      spRefresh]

/-- consequence for the power flow with the SciPy worker: every rebuilt Jacobian is the one solved -/
theorem pflow_update_solves_current_spsolve (pre : List (Op M V)) (dishonest : Bool) (nf niter : Nat)
    (hupd : pfUpdates dishonest nf niter = true) (lin : Bool) (Jold Jnew : M) (b : V) (hreg : S.reg Jnew = true) :
    (runOut S .spsolve (runSt S .spsolve (init M P .spsolve) pre)
      (pfStepOps dishonest nf niter lin Jold Jnew b)).getLast? = some (.vec (S.sol Jnew b)) := by
  have hd := sp_runSt_dead S pre _ (init_dead (M := M) (P := P) .spsolve)
  cases lin <;>
    simp [pfStepOps, hupd, runOut, stepSt, stepOut, hd, spLinOut, spSolveOut, spRefresh, hreg]

omit [DecidableEq P] in
theorem solved_append_setNewA : ∀ pre : List (Op M V), solved (pre ++ [(.setNewA : Op M V)]) = solved pre
  | [] => rfl
  | op :: ops => by cases op <;> simp [solved, solved_append_setNewA ops]

/-- … with a SuiteSparse worker `new_A` is ignored: correct for compatible patterns only.
Full statement (no `hcompat`) is false: `pflow_newA_ignored_by_klu`. -/
theorem pflow_update_solves_current_suitesparse_partial (lib : Lib) (hl : lib ≠ .spsolve) (pre : List (Op M V))
    (dishonest : Bool) (nf niter : Nat) (hupd : pfUpdates dishonest nf niter = true) (lin : Bool) (Jold Jnew : M)
    (b : V) (hcompat : HistCompat S lib pre Jnew) (hreg : S.reg Jnew = true) :
    (runOut S lib (runSt S lib (init M P lib) pre)
      (pfStepOps dishonest nf niter lin Jold Jnew b)).getLast? = some (.vec (S.sol Jnew b)) := by
  have h := suitesparse_solves_current_partial S lib hl (pre ++ [.setNewA]) Jnew b
    (by simpa [HistCompat, solved_append_setNewA] using hcompat) hreg
  rw [runSt_append] at h
  cases lin
  · simpa [pfStepOps, hupd, runOut, runSt] using h.1
  · simpa [pfStepOps, hupd, runOut, runSt] using h.2

/-- the power flow's refresh request does not reach KLU: a Jacobian with a new pattern, although announced
by `new_A = True`, is factorised with the stale symbolic factor -/
theorem pflow_newA_ignored_by_klu (J0 Jnew : M) (b0 b : V) (hne : S.pat J0 ≠ S.pat Jnew) (Jold : M) :
    (runOut S .klu (runSt S .klu (init M P .klu) [.solve J0 b0])
      (pfStepOps false 4 0 false Jold Jnew b)).getLast? = some .ub := by
  by_cases hB : S.reg J0 = true <;>
    simp [pfStepOps, pfUpdates, runOut, runSt, stepSt, stepOut, init, ssSolveSt, ssSolveF, ssSolveDead, ssF0, numeric,
      ssSolveOut, hB, hne]

end

/-! ### The contract is satisfiable: exact 2x2 solve -/

/-- with the exact 2x2 Cramer solve as the library, `solve` returns `x` with `A x = b` -/
theorem suitesparse_Ax_eq_b_2x2_partial (detects : List Bool → List Bool → Bool) (lib : Lib) (hl : lib ≠ .spsolve)
    (pre : List (Op M2 (ℚ × ℚ))) (A : M2) (b : ℚ × ℚ) (hcompat : HistCompat (sys2 detects) lib pre A)
    (hreg : A.det ≠ 0) :
    ∃ x, stepOut (sys2 detects) lib (runSt (sys2 detects) lib (init M2 _ lib) pre) (.solve A b) = .vec x ∧
      A.mul x = b :=
  suitesparse_Ax_eq_b_partial (sys2 detects) M2.mul
    (fun A b h => m2_contract A b (by simpa [sys2] using h)) lib hl pre A b hcompat (by simpa [sys2] using hreg)

/-! ### Non-vacuity: the hypotheses are met by concrete histories, the defects by concrete witnesses -/

def A1 : TMat := ⟨1, 0, true⟩     -- regular, pattern 0
def A2 : TMat := ⟨2, 0, true⟩     -- same pattern, new values
def A3 : TMat := ⟨3, 1, true⟩     -- new pattern, regular
def As : TMat := ⟨4, 0, false⟩    -- singular, pattern 0
def At : TMat := ⟨5, 1, false⟩    -- singular, new pattern

/-- `HistCompat` holds for a KLU history "values, singular, clear, flag" on one pattern … -/
example : HistCompat (tsys []) .klu [.solve A1 Tag.rhs, .solve As .rhs, .clear, .setNewA, .linsolve A3 .rhs] A2 := by
  intro B hB B' hB' hne
  simp [solved] at hB hB'
  rcases hB with rfl | rfl | rfl <;> rcases hB' with rfl | rfl | rfl <;> simp [tsys, A1, A2, As] at hne

/-- … and the conclusion on it is what the real KLU returns: the solution for `A2` -/
example : stepOut (tsys []) .klu (runSt (tsys []) .klu (init _ _ .klu)
    [.solve A1 Tag.rhs, .solve As .rhs, .clear, .setNewA, .linsolve A3 .rhs]) (.solve A2 .rhs) = .vec (.sol 2) := by
  decide

/-- UMFPACK with a detected pattern change: compatible, and solved correctly -/
example : HistCompat (tsys []) .umfpack [.solve A1 Tag.rhs] A3 := by
  intro B hB B' hB' _
  exact ⟨rfl, by simp [tsys]⟩

example : stepOut (tsys []) .umfpack (runSt (tsys []) .umfpack (init _ _ .umfpack) [.solve A1 Tag.rhs])
    (.solve A3 .rhs) = .vec (.sol 3) := by decide

/-- the three defects on concrete histories: the outcome is not the solution and not NaN -/
theorem klu_pattern_change_counterexample :
    stepOut (tsys []) .klu (runSt (tsys []) .klu (init _ _ .klu) [.solve A1 Tag.rhs]) (.solve A3 .rhs) = .ub ∧
    A3.reg = true := by decide

/-- the histories that failed on the pinned tree (singular matrix through the re-symbolic branch; singular
matrix in `linsolve`): now NaN, on all three workers -/
theorem umfpack_singular_after_resymbolic_witness :
    stepOut (tsys []) .umfpack (runSt (tsys []) .umfpack (init _ _ .umfpack) [.solve A1 Tag.rhs]) (.solve At .rhs)
      = .vec .nan ∧ (tsys []).nan Tag.rhs ≠ Tag.rhs := by decide

theorem linsolve_singular_witness :
    stepOut (tsys []) .klu (init _ _ .klu) (.linsolve As Tag.rhs) = .vec .nan ∧
    stepOut (tsys []) .umfpack (init _ _ .umfpack) (.linsolve As Tag.rhs) = .vec .nan ∧
    stepOut (tsys []) .spsolve (init _ _ .spsolve) (.linsolve As Tag.rhs) = .vec .nan := by decide

/-- the same singular matrix with an unchanged pattern IS reported -/
example : stepOut (tsys []) .umfpack (runSt (tsys []) .umfpack (init _ _ .umfpack) [.solve A1 Tag.rhs])
    (.solve As .rhs) = .vec .nan := by decide

/-- SciPy: stale factors are used until a flag is written (hypotheses of `spsolve_stale_otherwise` /
`spsolve_after_refresh` on a concrete history) -/
example : runOut (tsys []) .spsolve (init _ _ .spsolve)
    [.solve A1 Tag.rhs, .solve A2 .rhs, .clear, .solve A3 .rhs, .setNewA, .solve As .rhs, .solve A3 .rhs, .solve A1 .rhs]
    = [.vec (.sol 1), .vec (.sol 1), .unit, .vec (.sol 1), .unit, .raised, .vec (.sol 3), .vec (.sol 3)] := by
  decide

/-- the update conditions of the routines are met / not met by concrete iterations -/
example : pfUpdates true 4 3 = true ∧ pfUpdates true 4 4 = false ∧ pfUpdates false 0 9 = true := by decide
example : tdsUpdates false false false true 5 false = true ∧ tdsUpdates false false false true 3 false = false := by
  decide

/-- the 2x2 contract instance is not vacuous -/
example : (⟨2, 1, 0, 3⟩ : M2).det ≠ 0 ∧ (⟨2, 1, 0, 3⟩ : M2).mul ((⟨2, 1, 0, 3⟩ : M2).sol (1, 2)) = (1, 2) := by
  refine ⟨by norm_num [M2.det], m2_contract _ _ (by norm_num [M2.det])⟩

end Andes.SolverCache
