import Andes.Proofs.Registry

/-!
# C19 — Cross-references between devices are resolved completely or rejected

Property theorems only.  Model: `Andes/Model/Registry.lean` (`System.add`, `GroupBase.get_next_idx/add/
idx2uid/idx2model/find_idx/set_backref`, `ModelData.add/find_idx`, `Model.set_backref/idx2uid`,
`System.collect_ref`, `DeviceFinder.find_or_add`, `link_external`, `IdxParam.add`), tied to `/repo` by the
exact correspondence of `harness/c19.py` through real `System`/`Group`/`Model` objects.

`Reach names g` : `g` is the content of a group after ANY sequence of `System.add` calls on the models
`names` of the group (explicit, duplicate, missing idx; numbers and strings; any field values).
-/
namespace Andes.Registry

/-! ## 1. idx allocation -/

/-- **Device indices are unique within a group**, after every sequence of additions. -/
theorem idx_unique_in_group (names : List String) (g : Grp) (h : Reach names g) : (used g).Nodup :=
  (reach_inv names g h).nodup

/-- **An automatically generated (or kept) idx never collides**: the search loop of `get_next_idx`
terminates within `n + 1` iterations and its result is not registered; hence `GroupBase.add` never raises. -/
theorem auto_idx_fresh (names : List String) (g : Grp) (m : Nat) (idx? : Option Idx) :
    nextIdx (used g) (names.getD m "?") idx? ∉ used g ∧ groupAddRaises names g m idx? = false := by
  have := nextIdx_fresh (used g) (names.getD m "?") idx?
  exact ⟨this, by unfold groupAddRaises; exact decide_eq_false this⟩

/-- a requested idx that is free is the one assigned -/
theorem explicit_idx_kept (names : List String) (g : Grp) (m : Nat) (i : Idx) (vals : List Val) (h : i ∉ used g) :
    (newDev names g m (some i) vals).idx = i := by
  simp only [newDev]; exact nextIdx_keeps _ _ i h

/-- **The uid of a device is its position**: in the group and in its model, and `idx2uid` of its idx
returns exactly that position; an idx that was never assigned has no uid (`KeyError`). -/
theorem uid_is_position (names : List String) (g : Grp) (h : Reach names g) (k : Nat) (d : Dev)
    (hk : g[k]? = some d) :
    idx2uid g d.idx = some k ∧ idx2model g d.idx = some d.mdl ∧
    (∃ j, modelIdx2uid g d.mdl d.idx = some j ∧ (rowsOf g d.mdl)[j]? = some d) := by
  have hI := reach_inv names g h
  have hd : d ∈ g := List.mem_of_getElem? hk
  have hl := lookup_of_mem hI.nodup hd
  refine ⟨by simp [idx2uid, hl, hI.guid k d hk], by simp [idx2model, hl], d.muid, ?_, rowsOf_muid hI hd⟩
  have hd' : d ∈ rowsOf g d.mdl := mem_rowsOf.mpr ⟨hd, rfl⟩
  simp [modelIdx2uid, lookup_of_mem (rowsOf_nodup hI.nodup d.mdl) hd']

theorem unknown_idx_rejected (g : Grp) (i : Idx) : idx2uid g i = none ↔ i ∉ used g := by
  simp [idx2uid, lookup_none_iff]

/-! ## 2. lookups by field values -/

/-- **Model-level `find_idx` is sound and complete**: with `allow_all` the answer to a search tuple is
exactly the list of devices of the model whose fields equal the tuple (row order); without it, the first
of them; `IndexError` iff nothing matches and `allow_none` is off; `[default]` iff nothing matches and it
is on. -/
theorem find_sound_complete (rows : Grp) (keys : List Nat) (allowNone : Bool) (dflt : Val) (q : List Val) :
    (∀ i, i ∈ hits rows keys q ↔ ∃ d ∈ rows, d.idx = i ∧ ∀ kv ∈ keys.zip q, d.get kv.1 = kv.2) ∧
    (hits rows keys q ≠ [] → modelFindOne rows keys allowNone dflt q = some ((hits rows keys q).map some) ∧
      (modelFindOne rows keys allowNone dflt q).map (headOnly false) =
        some [some ((hits rows keys q).head!)]) ∧
    (hits rows keys q = [] → modelFindOne rows keys allowNone dflt q = if allowNone then some [dflt] else none) := by
  refine ⟨mem_hits rows keys q, ?_, ?_⟩
  · intro h
    cases hh : hits rows keys q with
    | nil => exact absurd hh h
    | cons a t => simp [modelFindOne, hh, headOnly]
  · intro h; simp [modelFindOne, h]

/-- **Group-level `find_idx` without `allow_all`**: the answer is a device of the group that has the
values ("from whichever model holds them"), an answer exists whenever some device matches, and
"missing" is reported iff no device of any model matches — for EVERY `default` the caller passes (full strength
since the repair of `group-find-default-sentinel`: the "missing" marker was the caller's `default`, and a match
whose idx equalled it was taken for a miss). -/
theorem group_find_first_sound_complete (g : Grp) (nm : Nat) (keys : List Nat) (dflt : Val) (q : List Val) :
    ((groupFindOne g nm keys dflt q).2 = true ↔ allHits g nm keys q = []) ∧
    (allHits g nm keys q ≠ [] → ∃ i, headOnly false (groupFindOne g nm keys dflt q).1 = [some i] ∧
      i ∈ allHits g nm keys q) := by
  rcases groupFindOne_spec g nm keys dflt q with ⟨h1, h2⟩ | ⟨hne, h2⟩
  · exact ⟨by simp [h1, h2], fun h => absurd h1 h⟩
  · cases hh : allHits g nm keys q with
    | nil => exact absurd hh hne
    | cons a t =>
      have ha : a ∈ allHits g nm keys q := by rw [hh]; simp
      refine ⟨?_, fun _ => ⟨a, by simp [h2, hh, headOnly], by rw [← hh]; exact ha⟩⟩
      rw [h2]
      constructor
      · intro h; cases h
      · intro h; cases h

/-- **Group-level `find_idx` with `allow_all`** returns every device of the group that has the values, models in
group order — full strength since the repair of `GroupBase.find_idx`, which kept the matches of the first model
only (`known_findings.json`, `group-find-all-first-model-only`, fixed). -/
theorem group_find_all (g : Grp) (nm : Nat) (keys : List Nat) (dflt : Val) (q : List Val)
    (hne : allHits g nm keys q ≠ []) :
    groupFindOne g nm keys dflt q = ((allHits g nm keys q).map some, false) := by
  rcases groupFindOne_spec g nm keys dflt q with ⟨h1, _⟩ | ⟨_, h2⟩
  · exact absurd h1 hne
  · exact h2

/-- the group used by the witnesses: `PV` 1 on bus 2, `Slack` 2 on bus 2 -/
def gTwo : Grp :=
  addDev ["PV", "Slack"] (addDev ["PV", "Slack"] [] 0 (some (.num 1)) [none, some (.num 2)]) 1 (some (.num 2))
    [none, some (.num 2)]

/-- the input that failed on the pinned tree: `StaticGen.find_idx('bus', [2], allow_all=True)` with a `PV` and a
`Slack` on bus 2 now returns both devices -/
theorem group_find_all_two_models_witness :
    groupFind gTwo 2 [2] [[some (.num 2)]] false true none = some [[some (.num 1), some (.num 2)]] ∧
    allHits gTwo 2 [2] [some (.num 2)] = [.num 1, .num 2] := by
  decide +kernel

/-- the input that failed on the pinned tree (`group-find-default-sentinel`): the caller's `default` is the idx of
the only match.  The match is returned now (it was taken for the "missing" marker and `IndexError` was raised for
a device that exists). -/
theorem group_find_default_is_idx_witness :
    groupFind gTwo 2 [0] [[some (.num 1)]] false false (some (.num 1)) = some [[some (.num 1)]] ∧
    allHits gTwo 2 [0] [some (.num 1)] = [.num 1] := by
  decide +kernel

/-! ## 3. back references -/

/-- **The back-reference list of a device contains exactly the devices that point to it, in order,
each as often as it points there** — at group level (indexed by group uid) and at model level (indexed
by model uid); a dangling or `None` target adds nothing anywhere. -/
theorem backref_exact (names : List String) (g : Grp) (h : Reach names g) (refs : List (Idx × Val)) :
    (∀ (k : Nat) (d : Dev), g[k]? = some d → (collectRef g refs)[k]? = some (pointingTo refs d.idx)) ∧
    (∀ (m k : Nat) (d : Dev), (rowsOf g m)[k]? = some d → (collectRefM g m refs)[k]? = some (pointingTo refs d.idx)) :=
  ⟨fun k d hk => collectRef_getElem? g (reach_inv names g h) refs k d hk,
   fun m k d hk => collectRefM_getElem? g (reach_inv names g h) m refs k d hk⟩

/-- membership form: `r` is in the list of `d` iff some reference `(r, d.idx)` exists; with unique
referrer idx every referrer occurs once -/
theorem backref_mem_once (refs : List (Idx × Val)) (i r : Idx) :
    (r ∈ pointingTo refs i ↔ (r, some i) ∈ refs) ∧
    ((refs.map (·.1)).Nodup → (pointingTo refs i).Nodup) := by
  constructor
  · unfold pointingTo
    simp only [List.mem_map, List.mem_filter, decide_eq_true_eq]
    constructor
    · rintro ⟨⟨a, b⟩, ⟨h1, h2⟩, h3⟩
      simp only at h2 h3; subst h2; subst h3; exact h1
    · intro h; exact ⟨(r, some i), ⟨h, rfl⟩, rfl⟩
  · intro h
    unfold pointingTo
    exact List.Nodup.sublist (List.Sublist.map _ List.filter_sublist) h

/-! ## 4. helper devices (`DeviceFinder.find_or_add`) -/

/-- **A found or created helper device is linked to the right target**: for one entry `(u, link)` the
stored answer is either the given idx `u` (which then names an existing device in scope — kept as is),
or the idx of a device in scope whose link field equals `link` (found, or created with exactly that
link), or — only when `auto_add` is off and nothing was found — the given `u` unchanged. -/
theorem finder_links_target (names : List String) (c : FCfg) (hc : FOk c) (g : Grp) (vs : List Val) (u link : Val) :
    ∃ r, (finderStep names c (g, vs) (u, link)).2 = vs ++ [r] ∧
      ((∃ i, u = some i ∧ r = some i ∧ ∃ d, d ∈ g ∧ d.idx = i ∧ inScope c d) ∨
       (∃ j d, r = some j ∧ d ∈ (finderStep names c (g, vs) (u, link)).1 ∧ d.idx = j ∧
          d.get c.linkKey = link ∧ inScope c d) ∨
       (c.autoAdd = false ∧ r = u ∧ (finderStep names c (g, vs) (u, link)).1 = g)) := by
  rcases finderStep_spec names c g vs u link with ⟨i, hu, hs, he⟩ | ⟨_, he⟩
  · obtain ⟨d, hd, h1, _, h3⟩ := search_some c g 0 (some i) i hs
    exact ⟨some i, by rw [he], Or.inl ⟨i, hu, rfl, d, hd, h1, h3⟩⟩
  · rw [he]
    refine ⟨(findOrAdd names c g u link).2, rfl, ?_⟩
    rcases findOrAdd_spec names c g u link with ⟨j, _, hs, hr⟩ | ⟨_, _, hr⟩ | ⟨_, ha, hr⟩
    · obtain ⟨d, hd, h1, h2, h3⟩ := search_some c g c.linkKey link j hs
      exact Or.inr (Or.inl ⟨j, d, by rw [hr], by rw [hr]; exact hd, h1, h2, h3⟩)
    · refine Or.inr (Or.inl ⟨_, newDev names g c.addTo none (linkVals c link), by rw [hr], ?_, rfl,
        newDev_get_link names c g link hc, newDev_inScope names c g _ hc⟩)
      rw [hr]; simp [addDev]
    · exact Or.inr (Or.inr ⟨ha, by rw [hr], by rw [hr]⟩)

theorem finderStep_group (names : List String) (c : FCfg) (g : Grp) (vs : List Val) (u link : Val) :
    (finderStep names c (g, vs) (u, link)).1 = g ∨
    ((finderStep names c (g, vs) (u, link)).1 = g ++ [newDev names g c.addTo none (linkVals c link)] ∧
      (c.autoFind = true → search c g c.linkKey link = none)) := by
  rcases finderStep_spec names c g vs u link with ⟨i, _, _, he⟩ | ⟨_, he⟩
  · left; rw [he]
  · rw [he]
    rcases findOrAdd_spec names c g u link with ⟨j, _, _, hr⟩ | ⟨hn, _, hr⟩ | ⟨_, _, hr⟩
    · left; rw [hr]
    · right; rw [hr]; exact ⟨rfl, hn⟩
    · left; rw [hr]

/-- **Helper devices are created at most once** (whole run of `find_or_add`, any list of entries, from
any reachable group): the group afterwards is the old group plus created devices; the created devices
have pairwise different link targets, lie in the searched scope, and none of them duplicates a device
of the old group that already served the same target; the result is again a reachable group (so all idx
stay unique). -/
theorem finder_creates_at_most_once (names : List String) (c : FCfg) (hc : FOk c) (haf : c.autoFind = true)
    (entries : List (Val × Val)) : ∀ (g : Grp) (vs : List Val), Reach names g →
      Reach names (entries.foldl (finderStep names c) (g, vs)).1 ∧
      ∃ created, (entries.foldl (finderStep names c) (g, vs)).1 = g ++ created ∧
        created.Pairwise (fun a b => a.get c.linkKey ≠ b.get c.linkKey) ∧
        ∀ a ∈ created, inScope c a ∧ ∀ d ∈ g, inScope c d → d.get c.linkKey ≠ a.get c.linkKey := by
  induction entries with
  | nil => intro g vs h; exact ⟨h, [], by simp, List.Pairwise.nil, by simp⟩
  | cons e es ih =>
    intro g vs h
    obtain ⟨u, link⟩ := e
    rw [List.foldl_cons]
    have hpair : finderStep names c (g, vs) (u, link) =
        ((finderStep names c (g, vs) (u, link)).1, (finderStep names c (g, vs) (u, link)).2) := rfl
    rcases finderStep_group names c g vs u link with h1 | ⟨h1, h2⟩
    · rw [hpair, h1]; exact ih g _ h
    · rw [hpair, h1]
      have hreach : Reach names (g ++ [newDev names g c.addTo none (linkVals c link)]) :=
        Reach.add g c.addTo none (linkVals c link) h
      obtain ⟨hr, created, he, hp, hall⟩ := ih _ (finderStep names c (g, vs) (u, link)).2 hreach
      refine ⟨hr, newDev names g c.addTo none (linkVals c link) :: created, by rw [he]; simp, ?_, ?_⟩
      · refine List.Pairwise.cons ?_ hp
        intro b hb
        exact (hall b hb).2 _ (by simp) (newDev_inScope names c g _ hc)
      · intro a ha
        rcases List.mem_cons.mp ha with rfl | ha
        · refine ⟨newDev_inScope names c g _ hc, ?_⟩
          intro d hd hsc
          rw [newDev_get_link names c g link hc]
          exact search_none c g c.linkKey link (h2 haf) d hd hsc
        · exact ⟨(hall a ha).1, fun d hd hsc => (hall a ha).2 d (by simp [hd]) hsc⟩

/-! ## 5. required references -/

/-- **A required reference to a non-existent device is rejected**: if any entry of a mandatory indexer
is `None` or names no device of the group, `link_external` fails (set-up returns `False` / raises). -/
theorem dangling_rejected (g : Grp) (refs : List Val) (r : Val) (hr : r ∈ refs)
    (hd : ∀ i, r = some i → i ∉ used g) : linkAll g refs = none := by
  unfold linkAll
  induction refs with
  | nil => cases hr
  | cons a t ih =>
    rw [List.mapM_cons]
    rcases List.mem_cons.mp hr with rfl | h
    · have : resolve g r = none := by
        cases r with
        | none => rfl
        | some i => simp [resolve, (unknown_idx_rejected g i).mpr (hd i rfl)]
      simp [this]
    · simp [ih h]

/-- **… and is never resolved to some other device**: when `link_external` succeeds, entry `j` of the
result is the position of the device whose idx is entry `j` of the indexer. -/
theorem resolved_is_named_device (names : List String) (g : Grp) (h : Reach names g) (refs : List Val) :
    ∀ us, linkAll g refs = some us →
      List.Forall₂ (fun r k => ∃ d, g[k]? = some d ∧ r = some d.idx) refs us := by
  have hI := reach_inv names g h
  unfold linkAll
  induction refs with
  | nil => intro us hu; simp at hu; subst hu; exact List.Forall₂.nil
  | cons a t ih =>
    intro us hu
    rw [List.mapM_cons] at hu
    cases ha : resolve g a with
    | none => simp [ha] at hu
    | some k =>
      cases ht : t.mapM (resolve g) with
      | none => simp [ha, ht] at hu
      | some ks =>
        simp [ha, ht] at hu
        subst hu
        refine List.Forall₂.cons ?_ (ih ks ht)
        cases a with
        | none => simp [resolve] at ha
        | some i =>
          simp only [resolve, idx2uid] at ha
          cases hl : lookup g i with
          | none => simp [hl] at ha
          | some d =>
            simp [hl] at ha
            obtain ⟨hd, hi⟩ := lookup_some hl
            refine ⟨d, ?_, by rw [hi]⟩
            rw [← ha]; exact getElem?_of_guid hI hd

/-- the address given to an external variable on a group: a non-`None` idx is either rejected or gets
the address of the device with exactly that idx, whatever `allow_none` says -/
theorem ext_addr_resolved_or_rejected (g : Grp) (addr : Nat → Nat) (allowNone : Bool) (i : Idx) :
    (i ∉ used g → extAddr g addr allowNone (some i) = none) ∧
    (∀ a, extAddr g addr allowNone (some i) = some a → ∃ d, d ∈ g ∧ d.idx = i ∧ a = addr d.guid) := by
  constructor
  · intro h; simp [extAddr, (unknown_idx_rejected g i).mpr h]
  · intro a h
    simp only [extAddr, idx2uid] at h
    cases hl : lookup g i with
    | none => simp [hl] at h
    | some d =>
      simp [hl] at h
      exact ⟨d, (lookup_some hl).1, (lookup_some hl).2, h.symm⟩

/-- observation (optional references, `allow_none=True`): a `None` idx is given address `0`, which is
the address of whatever variable happens to be first in the DAE -/
theorem none_idx_gets_address_zero (g : Grp) (addr : Nat → Nat) : extAddr g addr true none = some 0 := rfl

/-! ## 6. unique parameters -/

/-- a duplicate value of a unique parameter is rejected and leaves the value list unchanged; the values
stay pairwise different over any sequence of adds -/
theorem unique_param_rejects_duplicate (vs : List Idx) (i : Idx) (h : i ∈ vs) :
    uniqueAdd vs (some i) = (vs, .dup) := by
  simp [uniqueAdd, h]

theorem unique_param_stays_unique (l : List Val) : ∀ vs : List Idx, vs.Nodup → (uniqueAdds vs l).1.Nodup := by
  induction l with
  | nil => intro vs h; exact h
  | cons v t ih =>
    intro vs h
    simp only [uniqueAdds]
    apply ih
    cases v with
    | none => exact h
    | some i =>
      by_cases hi : i ∈ vs
      · simp [uniqueAdd, hi, h]
      · simp only [uniqueAdd, hi, if_false]
        exact List.Nodup.append h (List.nodup_singleton _) (by
          intro a ha hb
          have : a = i := by simpa using hb
          subst this; exact hi ha)

/-! ## non-vacuity -/

example : Reach ["PV", "Slack"] gTwo := Reach.add _ _ _ _ (Reach.add _ _ _ _ Reach.nil)
example : gTwo.length = 2 := by decide +kernel
/-- a collision: the second request for idx 1 is given the automatic name (evaluated by the driver in
the correspondence runs; here only that it differs from 1) -/
example : (newDev ["PV", "Slack"] gTwo 1 (some (.num 1)) []).idx ∉ used gTwo :=
  (auto_idx_fresh ["PV", "Slack"] gTwo 1 (some (.num 1))).1
example : (.num 7 : Idx) ∉ used gTwo := by decide +kernel
/-- `group_find_all` applies (its hypotheses are satisfiable): a match exists and `none` is no device idx -/
example : allHits gTwo 2 [2] [some (.num 2)] ≠ [] := by decide +kernel
example : FOk ⟨false, 0, 0, 2, 2, 2, true, true⟩ := ⟨by decide, by decide, by decide⟩
example : FOk ⟨true, 0, 0, 2, 2, 2, true, true⟩ := ⟨by decide, by decide, by decide⟩
/-- a dangling reference and a resolvable one -/
example : linkAll gTwo [some (.num 1), some (.num 9)] = none ∧ linkAll gTwo [some (.num 2), some (.num 1)] = some [1, 0] := by
  decide +kernel
example : pointingTo [(.str "a", some (.num 1)), (.str "b", some (.num 2)), (.str "c", some (.num 1)), (.str "d", none)]
    (.num 1) = [.str "a", .str "c"] := by decide +kernel

end Andes.Registry
