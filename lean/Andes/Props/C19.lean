import Andes.Model.Registry
namespace Andes.Registry
theorem stub_c19 : used [] = [] := rfl
end Andes.Registry
