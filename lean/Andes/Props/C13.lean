import Andes.Proofs.Io
import Andes.Proofs.Mpc

/-!
# C13 — Case files round-trip; one case in different formats is one system

Property theorems only.  Models: `Andes/Model/Io.lean` (`System.add`, `get_next_idx`, `ModelData.add`,
`NumParam.add`, `to_array`, `as_dict(vin=True)`, row level of the xlsx/json writers and readers) and
`Andes/Model/Mpc.lean` (`mpc2system`, `system2mpc`, the PSS/E RAW record arithmetic, the per-unit
conversion of `System.calc_pu_coeff`), tied to `/repo` by the correspondence streams of `harness/c13.py`.
The table of every `NumParam` of every model is regenerated into `Andes/Gen/IoTable.lean` on each run,
with the theorem `Andes.Io.Gen.all_defaults_ok` (`decide +kernel`).

What is NOT true on the real code (excluded by hypothesis, each with a counterexample theorem here):
* `NumParam.add` corrects `non_zero/non_positive/non_negative` only for `float` inputs: an `int` out of
  range is stored, exported as a float and corrected on the way back (`int_bypass_not_idempotent`,
  `roundtrip_changes_int_out_of_range`);
* neither `mpc2system` nor the RAW branch reader passes `Sn`, so on a system base other than 100 MVA the
  impedances of the file are rescaled (`mpc_base50_line_rescaled`, `raw_branch_sbase50_rescaled`), and
  an exported-and-reimported system is a different one (`mpc_roundtrip_base50_not_equivalent`);
* `system2mpc` writes loads by assignment: two loads on a bus collapse to the last one, a disconnected
  load became a connected one on the pinned tree (repaired: `mpc_two_loads_witness`, `mpc_offline_load_witness`);
* RAW two-winding transformers with `CZ = 2`: `MAG2` (system base) is stored as a winding-base admittance
  (`raw_xfmr_mag2_cz2_rescaled`).
-/
namespace Andes.Io

section
variable {α : Type} [Scal α] [ScalLaws α]

/-- **Adding a stored value again stores the same value** (so export → re-import is the identity on a
numeric cell), for every parameter whose default obeys its own restrictions and every input that is not an
`int` out of range.
Full statement (without `hv`) is FALSE on the real code: `int_bypass_not_idempotent`.
`theorem sanitize_idempotent (hok : defaultOkB p) (h : sanitize p v = .ok w) : sanitize p w = .ok w` -/
theorem sanitize_idempotent_partial (p : NumSpec α) (v w : Val α) (hok : defaultOkB p = true)
    (hv : intViolates p v = false) (h : sanitize p v = .ok w) : sanitize p w = .ok w :=
  sanitize_stored_eq p w (sanitize_stored p v w hok hv h)

/-- what `sanitize` stores is a number obeying the restrictions, or NaN for an optional parameter without default -/
theorem sanitize_result_in_range_partial (p : NumSpec α) (v w : Val α) (hok : defaultOkB p = true)
    (hv : intViolates p v = false) (h : sanitize p v = .ok w) :
    (∃ x, w = .flt x ∧ (p.nonZero = true → x < zero ∨ (zero : α) < x) ∧ (p.nonPos = true → ¬ (zero : α) < x) ∧
      (p.nonNeg = true → ¬ x < (zero : α))) ∨ (w = .nan ∧ (p.default = .none ∨ p.default = .nan) ∧ p.mandatory = false) := by
  cases sanitize_stored p v w hok hv h with
  | good x hg => exact Or.inl ⟨x, rfl, hg⟩
  | nan hd hm => exact Or.inr ⟨rfl, hd, hm⟩

/-- **The exported row of a device, added to an empty model, gives the same stored cells** (json and xlsx
cell conventions), for every parameter list and every input row. -/
theorem readd_exported_row (idx : Key) (xlsx : Bool) (ps : List (PSpec α)) (vs ws : List (Val α))
    (hs : ∀ p ∈ ps, specOk p = true) (hr : rowOk ps vs = true) (h : addCells idx ps vs = .ok ws) :
    addCells idx ps (ws.map (fileCell xlsx)) = .ok ws :=
  addCells_fix idx xlsx ps vs ws hs hr h

variable (specs : String → Option (ModelSpec α))

/-- every device `load` creates has an idx, and the idx are distinct inside each group — for every table,
including missing, duplicated and colliding idx cells -/
theorem load_assigns_distinct_idx (hs : SpecsOk specs) (t : List (Row α)) (s : List (Dev α))
    (ht : TableOk specs t) (h : load specs t = .ok s) :
    (∀ d ∈ s, d.idx ≠ .none) ∧ s.Pairwise (Distinct specs) := by
  have hw := loadFrom_wf specs hs t [] s ht ⟨by simp, by simp⟩ h
  exact ⟨fun d hd => (hw.1 d hd).choose_spec.2.1, hw.2⟩

/-- **`load (dump s) = s` at the table level**: for every table `t` (any rows, any order, any idx cells)
that loads, dumping the loaded system (one sheet per model, in any fixed model order) and reading the file
back yields, model by model, the same devices with the same idx and the same input-base cells.
Hypothesis `ht` (no `int` cell out of range) cannot be dropped: `roundtrip_changes_int_out_of_range`. -/
theorem roundtrip_system_partial (hs : SpecsOk specs) (order : List String) (hn : order.Nodup) (xlsx : Bool)
    (t : List (Row α)) (s : List (Dev α)) (ht : TableOk specs t) (h : load specs t = .ok s) :
    load specs (dump xlsx order s) = .ok (reorder order s) ∧
    ∀ m ∈ order, devsOf m (reorder order s) = devsOf m s := by
  have hw := loadFrom_wf specs hs t [] s ht ⟨by simp, by simp⟩ h
  have hw' := wf_reorder specs order hn s hw
  refine ⟨?_, fun m hm => devsOf_reorder m s order hn hm⟩
  have := loadFrom_exported specs xlsx (reorder order s) [] (by simpa using hw')
  simpa [load, dump] using this

omit [ScalLaws α] in
/-- a second dump/load cycle changes nothing at all (file order reached) -/
theorem roundtrip_system (xlsx : Bool) (s : List (Dev α)) (hw : Wf specs s) :
    load specs (s.map (exportDev xlsx)) = .ok s := by
  have := loadFrom_exported specs xlsx s [] (by simpa using hw)
  simpa [load] using this

end

/-! ### non-vacuity and the counterexamples (scalars `Int`) -/

/-- `ACEc.bias`: default −1.0, `non_positive` -/
def biasSpec : NumSpec Int := ⟨.flt (-1), false, true, false, false⟩
/-- `PQ.Vn`: default 110.0, `non_zero` -/
def vnSpec : NumSpec Int := ⟨.flt 110, true, false, false, false⟩

example : defaultOkB biasSpec = true ∧ intViolates biasSpec (.flt 300) = false ∧
    sanitize biasSpec (.flt 300) = .ok (.flt (-1)) := by decide +kernel
example : defaultOkB vnSpec = true ∧ sanitize vnSpec (.flt 0) = .ok (.flt 110) ∧ sanitize vnSpec .nan = .ok (.flt 110) ∧
    sanitize vnSpec .pinf = .ok (.flt 100000000) := by decide +kernel

/-- the defect seen on `ieee39_full`: the int `300` is stored for a `non_positive` parameter, exported as
`300.0` and corrected to `-1.0` on re-import; `PQ.Vn = 0` (int) stays 0 but `0.0` becomes 110 -/
theorem int_bypass_not_idempotent :
    sanitize biasSpec (.int 300) = .ok (.flt 300) ∧ sanitize biasSpec (.flt 300) = .ok (.flt (-1)) ∧
    sanitize vnSpec (.int 0) = .ok (.flt 0) ∧ sanitize vnSpec (.flt 0) = .ok (.flt 110) := by decide +kernel

def demoSpecs : String → Option (ModelSpec Int) := fun m =>
  if m == "ACEc" then some ⟨"Calculation", [.name, .num biasSpec]⟩
  else if m == "PQ" then some ⟨"StaticLoad", [.name, .num vnSpec, .data .none true]⟩ else none

/-- a whole-table instance of the defect: one `ACEc` row with the int bias 300 -/
theorem roundtrip_changes_int_out_of_range :
    load demoSpecs [⟨"ACEc", .int 1, [.none, .int 300]⟩] = .ok [⟨"ACEc", .int 1, [.int 1, .flt 300]⟩] ∧
    load demoSpecs (dump false ["ACEc"] [⟨"ACEc", .int 1, [.int 1, .flt 300]⟩]) =
      .ok [⟨"ACEc", .int 1, [.int 1, .flt (-1)]⟩] := by decide +kernel

/-- hypotheses of `roundtrip_system_partial` met by a table with a missing idx, a colliding idx, an empty
name, a NaN cell and two models; the auto idx are `PQ_2`, `PQ_3` -/
example : load demoSpecs [⟨"PQ", .int 7, [.nan, .flt 0, .int 3]⟩, ⟨"PQ", .none, [.str "L", .nan, .int 3]⟩,
      ⟨"ACEc", .int 7, [.none, .flt 5]⟩, ⟨"PQ", .int 7, [.none, .int 20, .str "b"]⟩] =
    .ok [⟨"PQ", .int 7, [.int 7, .flt 110, .int 3]⟩, ⟨"PQ", .auto "PQ" 2, [.str "L", .flt 110, .int 3]⟩,
      ⟨"ACEc", .int 7, [.int 7, .flt (-1)]⟩, ⟨"PQ", .auto "PQ" 3, [.str "PQ_3", .flt 20, .str "b"]⟩] := by
  decide +kernel
example : SpecsOk demoSpecs := by
  intro name m h p hp
  unfold demoSpecs at h
  split at h
  · simp at h; subst h; simp at hp; rcases hp with rfl | rfl <;> decide
  · split at h
    · simp at h; subst h; simp at hp; rcases hp with rfl | rfl | rfl <;> decide
    · simp at h

end Andes.Io

namespace Andes.Mpc

/-! ## MATPOWER: import, export, round trip (exact arithmetic over `ℚ`) -/

/-- **What `mpc2system` stores for a branch is the branch of the file** — system-base `r, x, b` equal to the
record's, on the 100 MVA base.  FALSE for any other base: `mpc_base50_line_rescaled`.
`theorem mpc_line_physical : (lineV base (importBranch d2r d)).r = d.r ∧ …` -/
theorem mpc_line_physical_partial (base d2r : ℚ) (d : BrRec ℚ) (hb : base = 100) :
    (lineV base (importBranch d2r d)).r = d.r ∧ (lineV base (importBranch d2r d)).x = d.x ∧
    (lineV base (importBranch d2r d)).b = d.b := by
  subst hb
  unfold importBranch lineV zSys ySys
  split <;> simp [lit1, lit100]

/-- the tap/phase reading of a branch record is the physical one of the format: ratio 0 means 1, and the shift
angle (degrees) applies whatever the ratio.  (On the pinned tree a record with ratio 0 lost its shift:
`known_findings.json`, `mpc-zero-ratio-drops-shift`, fixed.) -/
theorem mpc_line_tap (d2r : ℚ) (d : BrRec ℚ) :
    (importBranch d2r d).tap = (if d.ratio = 0 then 1 else d.ratio) ∧
    (importBranch d2r d).phi = d.angle * d2r := by
  simp only [importBranch, isLine, lit0, lit1, Bool.or_eq_true, Bool.and_eq_true, beq_iff_eq]
  split_ifs <;> simp_all

/-- witness for the repaired case: ratio 0 with a shift of 5 (degrees, `d2r = 1` here) is tap 1 with that shift -/
theorem mpc_zero_ratio_keeps_shift :
    (importBranch (1 : ℚ) ⟨1, 2, 1/100, 1/10, 0, 0, 0, 0, 0, 5, 1⟩).tap = 1 ∧
    (importBranch (1 : ℚ) ⟨1, 2, 1/100, 1/10, 0, 0, 0, 0, 0, 5, 1⟩).phi = 5 := by
  unfold importBranch isLine; norm_num

theorem mpc_base50_line_rescaled :
    (lineV 50 (importBranch (1 : ℚ) ⟨1, 2, 1/100, 1/10, 1/50, 0, 0, 0, 0, 0, 1⟩)).r = 1/200 ∧
    (lineV 50 (importBranch (1 : ℚ) ⟨1, 2, 1/100, 1/10, 1/50, 0, 0, 0, 0, 0, 1⟩)).b = 1/25 := by
  unfold importBranch lineV zSys ySys isLine; norm_num

/-- bus shunt `GS, BS` (MW, Mvar at 1 p.u.) → system-base admittance, on the 100 MVA base only -/
theorem mpc_shunt_physical_partial (base : ℚ) (d : BusRec ℚ) (s : Shunt ℚ) (hb : base = 100)
    (h : importShunt base d = some s) : (shuntV base s).g = d.gs / base ∧ (shuntV base s).b = d.bs / base := by
  subst hb
  simp only [importShunt] at h
  split_ifs at h
  simp at h; subst h; simp [shuntV, ySys, lit1, lit100]

theorem mpc_base50_shunt_rescaled :
    (importShunt (50 : ℚ) ⟨2, 1, 0, 0, 2, 10, 1, 0, 138, 1, 1⟩).map (fun s => (shuntV 50 s).g) = some (2 / 25) := by
  unfold importShunt shuntV ySys; norm_num

/-- loads and generators: MW / base, for every base -/
theorem mpc_load_physical (base : ℚ) (d : BusRec ℚ) (p : PQ ℚ) (h : importLoad base d = some p) :
    p.p0 = d.pd / base ∧ p.q0 = d.qd / base ∧ p.bus = d.id ∧ p.u = 1 := by
  simp only [importLoad] at h
  split_ifs at h
  simp at h; subst h; simp

theorem mpc_gen_roundtrip (base : ℚ) (hb : base ≠ 0) (sw : List Int) (g : Gen ℚ) (hs : sw.contains g.bus = g.slack) :
    importGen base sw (exportGen base g) = g := by
  cases g; simp_all [importGen, exportGen]

/-- **Branch export → import gives the same branch** (`r, x, b`, tap, phase, status, ends, ratings), on the
100 MVA base, for a branch with a tap other than 0; the `trans` flag is recomputed.
FALSE on another base: `mpc_roundtrip_base50_not_equivalent`. -/
theorem mpc_branch_roundtrip_partial (base d2r r2d : ℚ) (l : Line ℚ) (hb : base = 100) (hd : r2d * d2r = 1)
    (ht : l.tap ≠ 0) :
    let l' := lineV base (importBranch d2r (exportLine r2d l))
    l'.r = l.r ∧ l'.x = l.x ∧ l'.b = l.b ∧ l'.tap = l.tap ∧ l'.phi = l.phi ∧ l'.u = l.u ∧
    l'.bus1 = l.bus1 ∧ l'.bus2 = l.bus2 ∧ l'.ra = l.ra ∧ l'.rb = l.rb ∧ l'.rc = l.rc := by
  subst hb
  have hr : r2d ≠ 0 := by intro e; simp [e] at hd
  intro l'
  have hphi : l.phi * r2d * d2r = l.phi := by rw [mul_assoc, hd, mul_one]
  simp only [l', importBranch, exportLine, isLine, lit0, lit1, Bool.or_eq_true, Bool.and_eq_true, beq_iff_eq]
  split_ifs with hc h0
  · obtain ⟨h1, h2⟩ := hc
    have hp : l.phi = 0 := by rcases mul_eq_zero.mp h2 with h | h; exact h; exact absurd h hr
    rcases h1 with h1 | h1
    · exact absurd h1 ht
    · simp [lineV, zSys, ySys, h1, hp, lit1, lit100]
  · simp [lineV, zSys, ySys, lit1, lit100, hphi, ht]

/-- **Total connected load at every bus survives export → import**, for ANY list of loads — several loads on one
bus, loads out of service (full strength since the repair of `system2mpc`, which wrote the LAST load of a bus and
ignored the status: `mpc-export-loads-last-wins`, `mpc-export-offline-load`). -/
theorem mpc_load_roundtrip (base : ℚ) (hb : base ≠ 0) (ps : List (PQ ℚ)) (b : Int) :
    busLoadP (roundTripLoadP base ps b) b = busLoadP ps b := by
  have hL : busLoadP ps b * base / base = busLoadP ps b := by field_simp
  simp only [roundTripLoadP, importLoad, exportPd_eq base b ps, hL, lit0, Bool.and_eq_true, beq_iff_eq]
  split_ifs with hc
  · simp [busLoadP, hc.1, lit0]
  · simp [busLoadP, lit0]

/-- the round trip as one statement -/
theorem mpc_roundtrip_equivalent_partial (base d2r r2d : ℚ) (hb : base = 100) (hd : r2d * d2r = 1)
    (ls : List (Line ℚ)) (hl : ∀ l ∈ ls, l.tap ≠ 0) (gs : List (Gen ℚ)) (sw : List Int)
    (hs : ∀ g ∈ gs, sw.contains g.bus = g.slack) (ps : List (PQ ℚ)) :
    (∀ l ∈ ls, (lineV base (importBranch d2r (exportLine r2d l))).r = l.r ∧
               (lineV base (importBranch d2r (exportLine r2d l))).x = l.x ∧
               (lineV base (importBranch d2r (exportLine r2d l))).b = l.b ∧
               (lineV base (importBranch d2r (exportLine r2d l))).tap = l.tap ∧
               (lineV base (importBranch d2r (exportLine r2d l))).phi = l.phi) ∧
    (∀ g ∈ gs, importGen base sw (exportGen base g) = g) ∧
    (∀ b, busLoadP (roundTripLoadP base ps b) b = busLoadP ps b) := by
  have hb0 : base ≠ 0 := by rw [hb]; norm_num
  refine ⟨fun l hm => ?_, fun g hg => mpc_gen_roundtrip base hb0 sw g (hs g hg),
          fun b => mpc_load_roundtrip base hb0 ps b⟩
  have := mpc_branch_roundtrip_partial base d2r r2d l hb hd (hl l hm)
  exact ⟨this.1, this.2.1, this.2.2.1, this.2.2.2.1, this.2.2.2.2.1⟩

theorem mpc_roundtrip_base50_not_equivalent :
    (lineV 50 (importBranch (1 : ℚ) (exportLine 1 ⟨1, 2, 1, 100, 1/100, 1/10, 0, false, 1, 0, 0, 0, 0⟩))).r = 1/200 := by
  unfold importBranch exportLine lineV zSys isLine; norm_num

/-- the inputs that failed on the pinned tree: two loads on one bus (their sum 3 is exported now, not the last one),
an out-of-service load (not exported as connected) -/
theorem mpc_two_loads_witness :
    busLoadP [⟨1, 1, 1, 0⟩, ⟨1, 1, 2, 0⟩] 1 = (3 : ℚ) ∧
    busLoadP (roundTripLoadP (100 : ℚ) [⟨1, 1, 1, 0⟩, ⟨1, 1, 2, 0⟩] 1) 1 = 3 := by
  unfold roundTripLoadP importLoad exportPd exportQd; norm_num [sumOn, busLoadP]

theorem mpc_offline_load_witness :
    busLoadP [⟨1, 0, 1, 0⟩] 1 = (0 : ℚ) ∧ busLoadP (roundTripLoadP (100 : ℚ) [⟨1, 0, 1, 0⟩] 1) 1 = 0 := by
  unfold roundTripLoadP importLoad exportPd exportQd; norm_num [sumOn, busLoadP]

/-! ## PSS/E RAW records: the parsed element is the textbook reading of the record -/

/-- constant-power + constant-current + constant-admittance parts at the bus voltage, MVA → p.u. -/
theorem raw_load_physical (mva v0 pl ip yp ql iq yq : ℚ) (hm : mva ≠ 0) :
    rawLoadP mva v0 pl ip yp * mva = pl + ip * v0 + yp * v0 ^ 2 ∧
    rawLoadQ mva v0 ql iq yq * mva = ql + iq * v0 - yq * v0 ^ 2 := by
  unfold rawLoadP rawLoadQ; constructor <;> field_simp

/-- fixed shunt: MW / Mvar at 1 p.u. on the system base, whatever the base -/
theorem raw_shunt_physical (mva g b : ℚ) (bus u : Int) (hm : mva ≠ 0) :
    (shuntV mva (rawShunt mva g b bus u)).g = g / mva ∧ (shuntV mva (rawShunt mva g b bus u)).b = b / mva := by
  unfold shuntV rawShunt ySys; simp [lit1, hm]

/-- **star of a three-winding transformer**: the series impedance between any two terminals is the measured one -/
theorem three_winding_star (z12 z23 z31 : ℚ) :
    star1 z12 z23 z31 + star2 z12 z23 z31 = z12 ∧ star2 z12 z23 z31 + star3 z12 z23 z31 = z23 ∧
    star3 z12 z23 z31 + star1 z12 z23 z31 = z31 := by
  unfold star1 star2 star3; simp only [lit2]; refine ⟨by ring, by ring, by ring⟩

/-- non-transformer branch: the record's `R, X, B` are the system-base values — on a 100 MVA system base only -/
theorem raw_branch_physical_partial (mva : ℚ) (i j st : Int) (r x b ra rb rc : ℚ) (hb : mva = 100) :
    (lineV mva (rawBranch i j st r x b ra rb rc)).r = r ∧ (lineV mva (rawBranch i j st r x b ra rb rc)).x = x ∧
    (lineV mva (rawBranch i j st r x b ra rb rc)).b = b := by
  subst hb; simp [lineV, rawBranch, zSys, ySys, lit1, lit100]

theorem raw_branch_sbase50_rescaled :
    (lineV (50 : ℚ) (rawBranch 1 2 1 (1/100) (1/10) (1/50) 0 0 0)).r = 1/200 := by
  unfold lineV rawBranch zSys; norm_num

/-- two-winding transformer, winding voltages in kV (`CW = 2`): the tap is the off-nominal ratio on the bus bases -/
theorem raw_xfmr_tap_cw2 (v1 v2 : ℚ) (d : X2 ℚ) (h : d.cw = 2) (h2 : d.windv2 ≠ 0) (hv : v2 ≠ 0) :
    x2Tap v1 v2 d * (d.windv2 / v2) = d.windv1 / v1 := by
  unfold x2Tap; simp [h]; field_simp

/-- `CW = 3`: pu of nominal winding voltage → pu of bus base voltage -/
theorem raw_xfmr_tap_cw3 (v1 v2 : ℚ) (d : X2 ℚ) (h : d.cw = 3) (hn1 : d.nomv1 ≠ 0) (hn2 : d.nomv2 ≠ 0)
    (hv1 : v1 ≠ 0) (hv2 : v2 ≠ 0) :
    x2Tap v1 v2 d = (d.windv1 * d.nomv1 / v1) / (d.nomv2 / v2) := by
  unfold x2Tap x2Vn1 x2Vn2; simp [h, lit0, hn1, hn2]; field_simp

/-- **series impedance of a two-winding transformer on the system base**: `CZ = 1` keeps the record's value
(nominal winding voltage = bus base), `CZ = 2` converts from the winding MVA base -/
theorem raw_xfmr_z_physical (mva d2r v1 v2 : ℚ) (d : X2 ℚ) (hm : mva ≠ 0) (hv : v1 ≠ 0) (hn : d.nomv1 = 0 ∨ d.nomv1 = v1)
    (hs : d.sbase12 ≠ 0) :
    (d.cz = 1 → (xfV mva v1 (rawX2 mva d2r v1 v2 d)).r = d.r12 ∧ (xfV mva v1 (rawX2 mva d2r v1 v2 d)).x = d.x12) ∧
    (d.cz = 2 → (xfV mva v1 (rawX2 mva d2r v1 v2 d)).r = d.r12 * mva / d.sbase12 ∧
                (xfV mva v1 (rawX2 mva d2r v1 v2 d)).x = d.x12 * mva / d.sbase12) := by
  have hvn : x2Vn1 v1 d = v1 := by unfold x2Vn1; rcases hn with h | h <;> simp [h, lit0]
  refine ⟨fun hc => ?_, fun hc => ?_⟩
  · simp [xfV, rawX2, zSys, hvn, x2Sn, hc]; constructor <;> field_simp
  · simp [xfV, rawX2, zSys, hvn, x2Sn, hc]; constructor <;> field_simp

/-- magnetising susceptance `MAG2` (`CM = 1`: p.u. on the system base) is the system-base `b` when `CZ = 1` … -/
theorem raw_xfmr_mag_physical_partial (mva d2r v1 v2 : ℚ) (d : X2 ℚ) (hm : mva ≠ 0) (hv : v1 ≠ 0)
    (hn : d.nomv1 = 0 ∨ d.nomv1 = v1) (hc : d.cz = 1) :
    (xfV mva v1 (rawX2 mva d2r v1 v2 d)).b = d.mag2 := by
  have hvn : x2Vn1 v1 d = v1 := by unfold x2Vn1; rcases hn with h | h <;> simp [h, lit0]
  simp [xfV, rawX2, ySys, hvn, x2Sn, hc]; field_simp

/-- … and is rescaled by `SBASE1-2 / SBASE` when `CZ = 2` (system 50 MVA, winding 80 MVA: −0.01 becomes −0.016) -/
theorem raw_xfmr_mag2_cz2_rescaled :
    (xfV (50 : ℚ) 138 (rawX2 50 1 138 69 ⟨2, 3, 1, 2, 1, -1/100, 1, 1/50, 1/5, 80, 1, 0, 0, 0, 0, 0, 1, 0⟩)).b = -2/125 := by
  unfold xfV rawX2 ySys x2Sn x2Vn1 x2Vn2 x2Tap; norm_num

end Andes.Mpc
