import Andes.Proofs.Line
import Andes.Proofs.Assemble
import Andes.Props.C17

/-!
# C01 — A converged power flow satisfies the AC network equations of the input data

* `Andes.Gen.PFlowEqs` is REGENERATED on every run from the real `Line`, `PQ`, `PV`, `Slack`, `Shunt` model
  objects (every residual string and the services it uses); the theorems below are re-checked against what
  the code declares now.
* `Andes/Model/Line.lean` (`System.calc_pu_coeff`), `Andes/Model/Assemble.lean` (bus lookup by `idx`, adders,
  `np.add.at`, `g_islands`) are hand models tied to the real `System` by the correspondence of `harness/c01.py`.
* The Newton loop and its verdict are the model of C17 (`Andes/Model/Newton.lean`), reused.

Scalars are real numbers (`sin`, `cos` are Mathlib's); every statement is for all parameter values, all
voltages, all networks (lists of devices of any length), all orders and index types.
-/
namespace Andes.C01
open Complex Andes.PFlow Andes.Gen.PFlowEqs

/-! ### 1. The branch equations are the complex π-model of the input data -/

/-- the generated service pair `(ghk, bhk)` is the complex series admittance `u / ((r+ε) + j(x+ε))` -/
theorem series_admittance_is_quotient (d : LineP ℝ) :
    ((Line_ghk d : ℝ) : ℂ) + ((Line_bhk d : ℝ) : ℂ) * I = yser d := yhk_is_quotient d

/-- **From side**: for every parameter set with `u ∈ {0,1}` and `tap ≠ 0` and all voltages, the declared
`a1` / `v1` equations are the real / imaginary part of `V₁·conj(((V₁/m − V₂)·y + (V₁/m)·y_h)/conj m)`,
`V = v·e^{ja}`, `m = tap·e^{jφ}`, `y = u/((r+ε)+j(x+ε))`, `y_h = u((g1+g/2)+j(b1+b/2))`. -/
theorem line_from_side_is_pi_model (d : LineP ℝ) (hu : d.u = 0 ∨ d.u = 1) (ht : d.tap ≠ 0) (a1 v1 a2 v2 : ℝ) :
    Line_a1 d a1 v1 a2 v2 = (Sfrom (phasor v1 a1) (phasor v2 a2) (phasor d.tap d.phi) (yser d) (yh d)).re ∧
    Line_v1 d a1 v1 a2 v2 = (Sfrom (phasor v1 a1) (phasor v2 a2) (phasor d.tap d.phi) (yser d) (yh d)).im := by
  rw [← yhk_is_quotient, yh_eq, Sfrom_eq, P12g _ _ _ _ _ _ _ _ _ _ ht, Q12g _ _ _ _ _ _ _ _ _ _ ht]
  have hg := u_ghk d hu
  have hb := u_bhk d hu
  unfold Line_a1 Line_v1 Line_itap Line_itap2
  simp only [trig_sin, trig_cos, one_lit]
  constructor
  · linear_combination (v1 ^ 2 * (1 / d.tap / d.tap) - v1 * v2 * Real.cos (a1 - a2 - d.phi) * (1 / d.tap)) * hg
      - (v1 * v2 * Real.sin (a1 - a2 - d.phi) * (1 / d.tap)) * hb
  · linear_combination (-(v1 * v2 * Real.sin (a1 - a2 - d.phi) * (1 / d.tap))) * hg
      + (-(v1 ^ 2 * (1 / d.tap / d.tap)) + v1 * v2 * Real.cos (a1 - a2 - d.phi) * (1 / d.tap)) * hb

example : ∃ d : LineP ℝ, (d.u = 0 ∨ d.u = 1) ∧ d.tap ≠ 0 ∧ d.b1 ≠ d.b2 ∧ d.phi ≠ 0 :=
  ⟨⟨1, 0.01, 0.1, 0, 0.02, 0, 0, 0, 0.2, 1.05, 0.1⟩, by norm_num⟩

/-- **To side** (full strength since the repair of `Line.a2` / `Line.v2`, /repo commit "fix: Line to-side
equations use the to-side shunt admittance"): for every parameter set — asymmetric branch shunts included —
the declared `a2` / `v2` equations are the real / imaginary part of `V₂·conj((V₂ − V₁/m)·y + V₂·y_k)` with
the TO-side shunt `y_k = u((g2+g/2)+j(b2+b/2))`.  On the pinned tree the equations used `y_h`; the error was
`ΔP = u·v₂²·(g1 − g2)`, `ΔQ = u·v₂²·(b2 − b1)` (see `known_findings.json`, `line-to-side-shunt`, fixed). -/
theorem line_to_side_is_pi_model (d : LineP ℝ) (hu : d.u = 0 ∨ d.u = 1) (ht : d.tap ≠ 0) (a1 v1 a2 v2 : ℝ) :
    Line_a2 d a1 v1 a2 v2 = (Sto (phasor v1 a1) (phasor v2 a2) (phasor d.tap d.phi) (yser d) (yk d)).re ∧
    Line_v2 d a1 v1 a2 v2 = (Sto (phasor v1 a1) (phasor v2 a2) (phasor d.tap d.phi) (yser d) (yk d)).im := by
  rw [← yhk_is_quotient, yk_eq, Sto_eq, P21g _ _ _ _ _ _ _ _ _ _ ht, Q21g _ _ _ _ _ _ _ _ _ _ ht]
  have hg := u_ghk d hu
  have hb := u_bhk d hu
  unfold Line_a2 Line_v2 Line_itap
  simp only [trig_sin, trig_cos, one_lit]
  constructor
  · linear_combination (v2 ^ 2 - v1 * v2 * Real.cos (a1 - a2 - d.phi) * (1 / d.tap)) * hg
      + (v1 * v2 * Real.sin (a1 - a2 - d.phi) * (1 / d.tap)) * hb
  · linear_combination (v1 * v2 * Real.sin (a1 - a2 - d.phi) * (1 / d.tap)) * hg
      + (-(v2 ^ 2) + v1 * v2 * Real.cos (a1 - a2 - d.phi) * (1 / d.tap)) * hb

/-- the symmetric-shunt special case used by the network-level theorems below (kept under its old name) -/
theorem line_to_side_is_pi_model_partial (d : LineP ℝ) (hu : d.u = 0 ∨ d.u = 1) (ht : d.tap ≠ 0)
    (hg : d.g1 = d.g2) (hb : d.b1 = d.b2) (a1 v1 a2 v2 : ℝ) :
    Line_a2 d a1 v1 a2 v2 = (Sto (phasor v1 a1) (phasor v2 a2) (phasor d.tap d.phi) (yser d) (yk d)).re ∧
    Line_v2 d a1 v1 a2 v2 = (Sto (phasor v1 a1) (phasor v2 a2) (phasor d.tap d.phi) (yser d) (yk d)).im :=
  line_to_side_is_pi_model d hu ht a1 v1 a2 v2

example : ∃ d : LineP ℝ, (d.u = 0 ∨ d.u = 1) ∧ d.tap ≠ 0 ∧ d.g1 ≠ d.g2 ∧ d.b1 ≠ d.b2 :=
  ⟨⟨1, 0.01, 0.1, 0, 0.02, 0.01, 0.03, 0, 0.2, 1.05, 0.1⟩, by norm_num⟩

/-- what the to-side equations would give with the FROM-side shunt in place of the to-side one (the defect
of the pinned tree): the power differs by `|V₂|²·conj(y_h − y_k)` -/
theorem to_side_wrong_shunt_error (d : LineP ℝ) (a1 v1 a2 v2 : ℝ) :
    Sto (phasor v1 a1) (phasor v2 a2) (phasor d.tap d.phi) (yser d) (yh d)
      - Sto (phasor v1 a1) (phasor v2 a2) (phasor d.tap d.phi) (yser d) (yk d)
      = phasor v2 a2 * starRingEnd ℂ (phasor v2 a2) * starRingEnd ℂ (yh d - yk d) :=
  Sto_shunt_diff _ _ _ _ _ _

/-! ### 2. Assembly: every bus equation is the sum of the injections of the devices at that bus -/

/-- **`bus_balance_of_residual`**: for every network (device lists of any length, any order), every vector
of unknowns and every bus `k` that is not islanded, the two rows of `dae.g` that belong to the bus are the
sums of the `a` (active) resp. `v` (reactive) equations of exactly the devices connected to that bus. -/
theorem bus_balance_of_residual (net : Net ℝ) (y : List ℝ) (wf : (resolve net).WF)
    (hisl : ∀ p ∈ net.islanded, p < net.buses.length) (k : Nat) (hk : k < net.buses.length) (hn : k ∉ net.islanded) :
    (gOf net y).getD k 0 = busP (resolve net) y k ∧
    (gOf net y).getD (net.buses.length + k) 0 = busQ (resolve net) y k := by
  have hnb : (resolve net).nb = net.buses.length := rfl
  constructor
  · have h1 := gIslands_getD_of_not_mem net.buses.length (gRaw (resolve net) y) net.islanded k
      (fun p hp => ⟨fun e => hn (by rw [← e]; exact hp), by omega⟩)
    have h2 := gRaw_bus_a (resolve net) y k (by rw [hnb]; exact hk)
    exact h1.trans h2
  · have h1 := gIslands_getD_of_not_mem net.buses.length (gRaw (resolve net) y) net.islanded (net.buses.length + k)
      (fun p hp => ⟨by have := hisl p hp; omega, fun e => hn (by have e' : p = k := by omega
                                                                 rw [← e']; exact hp)⟩)
    have h2 := gRaw_bus_v (resolve net) y wf k (by rw [hnb]; exact hk)
    rw [hnb] at h2
    exact h1.trans h2

/-- **The bus sums are the complex power balance of the input data** (full strength since the `Line` repair; asymmetric branch shunts included): loads in their voltage band, `u ∈ {0,1}`, `tap ≠ 0`. -/
theorem physical_balance (r : RNet ℝ) (y : List ℝ) (k : Nat) (hN : r.Normal) :
    (Sbus r y k).re = busP r y k ∧ (Sbus r y k).im = busQ r y k := by
  unfold Sbus busP busQ
  simp only [add_re, add_im]
  constructor
  · refine congrArg₂ (· + ·) (congrArg₂ (· + ·) (congrArg₂ (· + ·) (congrArg₂ (· + ·) (congrArg₂ (· + ·) ?_ ?_) ?_) ?_) ?_) ?_
    all_goals rw [re_sum_map]
    all_goals refine congrArg List.sum (List.map_congr_left (fun e he => ?_))
    · obtain ⟨h1, h2, h3⟩ := hN.pq_band e he
      split_ifs <;> simp [PQ_a, h1, h2, h3]
    · split_ifs <;> simp [PV_a, PV_p]
    · split_ifs <;> simp [Slack_a]
    · split_ifs <;> simp [Shunt_a, -ofReal_pow, pow_two] <;> ring
    · split_ifs
      · exact (line_from_side_is_pi_model e.d (hN.line_u e he) (hN.line_tap e he) _ _ _ _).1.symm
      · simp
    · split_ifs
      · exact (line_to_side_is_pi_model e.d (hN.line_u e he) (hN.line_tap e he) _ _ _ _).1.symm
      · simp
  · refine congrArg₂ (· + ·) (congrArg₂ (· + ·) (congrArg₂ (· + ·) (congrArg₂ (· + ·) (congrArg₂ (· + ·) ?_ ?_) ?_) ?_) ?_) ?_
    all_goals rw [im_sum_map]
    all_goals refine congrArg List.sum (List.map_congr_left (fun e he => ?_))
    · obtain ⟨h1, h2, h3⟩ := hN.pq_band e he
      split_ifs <;> simp [PQ_v, h1, h2, h3]
    · split_ifs <;> simp [PV_v]
    · split_ifs <;> simp [Slack_v]
    · split_ifs <;> simp [Shunt_v, -ofReal_pow, pow_two] <;> ring
    · split_ifs
      · exact (line_from_side_is_pi_model e.d (hN.line_u e he) (hN.line_tap e he) _ _ _ _).2.symm
      · simp
    · split_ifs
      · exact (line_to_side_is_pi_model e.d (hN.line_u e he) (hN.line_tap e he) _ _ _ _).2.symm
      · simp

/-- **`converged_implies_balance`** (full strength): if every entry of the residual
is below `tol`, the complex power balance computed from the input data holds within `tol` (active and
reactive part) at every non-islanded bus — for every network. -/
theorem converged_implies_balance (net : Net ℝ) (y : List ℝ) (tol : ℝ) (wf : (resolve net).WF)
    (hisl : ∀ p ∈ net.islanded, p < net.buses.length) (hN : (resolve net).Normal)
    (hconv : ∀ j, |(gOf net y).getD j 0| < tol) (k : Nat) (hk : k < net.buses.length) (hn : k ∉ net.islanded) :
    |(Sbus (resolve net) y k).re| < tol ∧ |(Sbus (resolve net) y k).im| < tol := by
  obtain ⟨b1, b2⟩ := bus_balance_of_residual net y wf hisl k hk hn
  obtain ⟨p1, p2⟩ := physical_balance (resolve net) y k hN
  rw [p1, p2, ← b1, ← b2]
  exact ⟨hconv _, hconv _⟩

/-- non-vacuity of the network hypotheses: a two-bus case (slack, one branch with charging and an off-nominal
tap and ASYMMETRIC end shunts, one load) is well formed and in band -/
example : ∃ r : RNet ℝ, r.WF ∧ r.Normal ∧ ¬ r.SymShunts ∧ r.lines ≠ [] ∧ r.pqs ≠ [] ∧ r.slacks ≠ [] :=
  ⟨⟨2, [⟨1, ⟨1, 0.5, 0.1, 0.8, 1.2⟩, ⟨1, 0, 0⟩⟩], [], [⟨0, ⟨1, 0, 0, 1, 0, -1, 9, -9, 9⟩, ⟨1, 0, 0⟩, ⟨1, 0, 0⟩⟩], [],
     [⟨0, 1, ⟨1, 0.01, 0.1, 0, 0.02, 0.01, 0.03, 0, 0.2, 1.05, 0.1⟩⟩], []⟩,
    ⟨by simp, by simp, by simp, by simp, by simp⟩,
    ⟨by simp, by simp; norm_num, by simp⟩,
    by simp [RNet.SymShunts]; norm_num, by simp, by simp, by simp⟩

/-! ### 3. Independence of device order, index type and device base -/

/-- **`residual_perm_invariant`**: the residual array does not depend on the order in which the
contributions are added (hence not on the order of devices or models) -/
theorem residual_perm_invariant (n : Nat) (cs cs' : List (Nat × ℝ)) (h : cs.Perm cs') :
    (scatter n cs).length = (scatter n cs').length ∧
    ∀ k, k < n → (scatter n cs).getD k 0 = (scatter n cs').getD k 0 := by
  refine ⟨by rw [scatter_length, scatter_length], fun k hk => ?_⟩
  rw [scatter_getD _ _ _ hk, scatter_getD _ _ _ hk]
  exact sumAt_perm h k

/-- the contribution list of a network whose lines, loads and shunts are reordered is a permutation -/
theorem contribs_perm (r r' : RNet ℝ) (y : List ℝ) (hnb : r'.nb = r.nb) (hpv : r'.pvs = r.pvs)
    (hsl : r'.slacks = r.slacks) (hl : r.lines.Perm r'.lines) (hq : r.pqs.Perm r'.pqs) (hs : r.shunts.Perm r'.shunts) :
    (contribs r y).Perm (contribs r' y) := by
  have p1 : (cPQa r y).Perm (cPQa r' y) := by unfold cPQa; rw [hnb]; exact hq.map _
  have p2 : (cPQv r y).Perm (cPQv r' y) := by unfold cPQv; rw [hnb]; exact hq.map _
  have p3 : (cPVa r y).Perm (cPVa r' y) := by unfold cPVa RNet.qPV; rw [hnb, hpv]
  have p4 : (cPVv r y).Perm (cPVv r' y) := by unfold cPVv RNet.qPV; rw [hnb, hpv]
  have p5 : (cSla r y).Perm (cSla r' y) := by unfold cSla RNet.qSl RNet.pSl; rw [hnb, hpv, hsl]
  have p6 : (cSlv r y).Perm (cSlv r' y) := by unfold cSlv RNet.qSl RNet.pSl; rw [hnb, hpv, hsl]
  have p7 : (cSha r y).Perm (cSha r' y) := by unfold cSha; rw [hnb]; exact hs.map _
  have p8 : (cShv r y).Perm (cShv r' y) := by unfold cShv; rw [hnb]; exact hs.map _
  have p9 : (cLa1 r y).Perm (cLa1 r' y) := by unfold cLa1; rw [hnb]; exact hl.map _
  have p10 : (cLa2 r y).Perm (cLa2 r' y) := by unfold cLa2; rw [hnb]; exact hl.map _
  have p11 : (cLv1 r y).Perm (cLv1 r' y) := by unfold cLv1; rw [hnb]; exact hl.map _
  have p12 : (cLv2 r y).Perm (cLv2 r' y) := by unfold cLv2; rw [hnb]; exact hl.map _
  have p13 : (cPVq r y).Perm (cPVq r' y) := by unfold cPVq RNet.qPV; rw [hnb, hpv]
  have p14 : (cSlq r y).Perm (cSlq r' y) := by unfold cSlq RNet.qSl RNet.pSl; rw [hnb, hpv, hsl]
  have p15 : (cSlp r y).Perm (cSlp r' y) := by unfold cSlp RNet.qSl RNet.pSl; rw [hnb, hpv, hsl]
  unfold contribs
  exact ((((((((((((((p1.append p2).append p3).append p4).append p5).append p6).append p7).append p8).append p9).append
    p10).append p11).append p12).append p13).append p14).append p15)

/-- device level (`_partial`: the order of `PV` / `Slack` devices is kept, because permuting them renames
the unknowns `q`, `p`): any reordering of lines, loads and shunts leaves every row of the residual unchanged -/
theorem network_residual_perm_invariant_partial (r r' : RNet ℝ) (y : List ℝ) (hnb : r'.nb = r.nb) (hpv : r'.pvs = r.pvs)
    (hsl : r'.slacks = r.slacks) (hl : r.lines.Perm r'.lines) (hq : r.pqs.Perm r'.pqs) (hs : r.shunts.Perm r'.shunts)
    (j : Nat) (hj : j < r.size) :
    (gRaw r y).getD j 0 = (gRaw r' y).getD j 0 := by
  have hsz : r'.size = r.size := by unfold RNet.size; rw [hnb, hpv, hsl]
  have hj' : j < r'.size := by rw [hsz]; exact hj
  have e1 := scatter_getD r.size (contribs r y) j hj
  have e2 := scatter_getD r'.size (contribs r' y) j hj'
  show (scatter r.size (contribs r y)).getD j 0 = (scatter r'.size (contribs r' y)).getD j 0
  rw [e1, e2]
  exact sumAt_perm (contribs_perm r r' y hnb hpv hsl hl hq hs) j

/-- **`residual_idx_rename_invariant`**: renaming every index by an injective map (numbers ↔ strings, any
relabelling) gives the same resolved network, hence the same residual function -/
theorem residual_idx_rename_invariant (ρ : Idx → Idx) (hρ : Function.Injective ρ) (net : Net ℝ) (y : List ℝ) :
    gOf (renameNet ρ net) y = gOf net y := by
  have hids : (renameNet ρ net).buses.map (·.1) = (net.buses.map (·.1)).map ρ := by
    simp [renameNet, List.map_map, Function.comp_def]
  have hvns : (renameNet ρ net).buses.map (·.2) = net.buses.map (·.2) := by
    simp [renameNet, List.map_map, Function.comp_def]
  have hlen : (renameNet ρ net).buses.length = net.buses.length := by simp [renameNet]
  have hb : ∀ i, busPos (List.map (fun x : Idx × ℝ => ρ x.1) net.buses) (ρ i) = busPos (List.map (fun x => x.1) net.buses) i := by
    intro i
    have := busPos_map ρ hρ (net.buses.map (·.1)) i
    rw [List.map_map] at this
    exact this
  have h : resolve (renameNet ρ net) = resolve net := by
    unfold resolve
    simp only [hids, hvns, hlen]
    simp only [renameNet, List.map_map, Function.comp_def, hb]
  unfold gOf
  rw [h]

/-- non-vacuity: turning every numeric index into a string is injective on numeric indices (`toString` of an
integer is injective); the simplest witness: swapping the two constructors' payloads is not needed — the
identity and any constant shift are injective -/
example : Function.Injective (fun i : Idx => match i with | .num n => Idx.num (n + 1000) | .str s => Idx.str s) := by
  intro a b h
  cases a <;> cases b <;> simp at h <;> simp [h]

/-- **`residual_base_invariant`**: a branch re-expressed on another device base `(sn', vn')` with the textbook
ratios (same ohms and siemens) has the same system-base parameters -/
theorem residual_base_invariant (sb vb sn vn sn' vn' : ℝ) (d : LineP ℝ) (h1 : sb ≠ 0) (h2 : vb ≠ 0) (h3 : sn ≠ 0)
    (h4 : vn ≠ 0) (h5 : sn' ≠ 0) (h6 : vn' ≠ 0) :
    lineToSys sb vb sn' vn' (lineRebase sn vn sn' vn' d) = lineToSys sb vb sn vn d := by
  unfold lineToSys lineRebase puZ puY
  congr 1 <;> field_simp

theorem shunt_base_invariant (sb vb sn vn sn' vn' : ℝ) (d : ShuntP ℝ) (h1 : sb ≠ 0) (h2 : vb ≠ 0) (h3 : sn ≠ 0)
    (h4 : vn ≠ 0) (h5 : sn' ≠ 0) (h6 : vn' ≠ 0) :
    shuntToSys sb vb sn' vn' (shuntRebase sn vn sn' vn' d) = shuntToSys sb vb sn vn d := by
  unfold shuntToSys shuntRebase puY
  congr 1 <;> field_simp

/-- the conversion is the physical one: `z_sys · Zb = z_dev · Zn` (same ohms) -/
theorem per_unit_is_physical (sb vb sn vn z : ℝ) (h1 : sb ≠ 0) (h2 : vb ≠ 0) (h3 : sn ≠ 0) :
    (z * puZ sb vb sn vn) * (vb * vb / sb) = z * (vn * vn / sn) := by
  unfold puZ; field_simp

example : ∃ sb vb sn vn sn' vn' : ℝ, sb ≠ 0 ∧ vb ≠ 0 ∧ sn ≠ 0 ∧ vn ≠ 0 ∧ sn' ≠ 0 ∧ vn' ≠ 0 ∧ sn ≠ sn' ∧ vn ≠ vn' :=
  ⟨100, 110, 50, 121, 200, 115, by norm_num⟩

/-! ### 4. Set-points and slack reference -/

/-- **`pv_setpoint_and_slack_reference`**: with the limiter flags in band (`zi = 1`, `zl = zu = 0`) and the
device online, the `q` row of a `PV` / `Slack` below `tol` means the bus voltage is within `tol` of the
set-point `v0`, and the `p` row of a `Slack` below `tol` means its angle is within `tol` of `a0` -/
theorem pv_setpoint_and_slack_reference (d : GenP ℝ) (zq zp : Flags ℝ) (hq : zq.zi = 1 ∧ zq.zl = 0 ∧ zq.zu = 0)
    (hp : zp.zi = 1 ∧ zp.zl = 0 ∧ zp.zu = 0) (hu : d.u = 1) (a v q p tol : ℝ) :
    (|PV_q d zq a v q| < tol → |d.v0 - v| < tol) ∧
    (|Slack_q d zq zp a v q p| < tol → |d.v0 - v| < tol) ∧
    (|Slack_p d zq zp a v q p| < tol → |d.a0 - a| < tol) := by
  obtain ⟨q1, q2, q3⟩ := hq
  obtain ⟨p1, p2, p3⟩ := hp
  have e1 : PV_q d zq a v q = d.v0 - v := by unfold PV_q; rw [hu, q1, q2, q3]; ring
  have e2 : Slack_q d zq zp a v q p = d.v0 - v := by unfold Slack_q; rw [hu, q1, q2, q3]; ring
  have e3 : Slack_p d zq zp a v q p = d.a0 - a := by unfold Slack_p; rw [hu, p1, p2, p3]; ring
  rw [e1, e2, e3]
  exact ⟨id, id, id⟩

/-- an offline generator imposes nothing and injects nothing -/
theorem offline_generator_is_absent (d : GenP ℝ) (zq zp : Flags ℝ) (hu : d.u = 0) (a v q p : ℝ) :
    PV_a d zq a v q = 0 ∧ PV_v d zq a v q = 0 ∧ PV_q d zq a v q = 0 ∧
    Slack_a d zq zp a v q p = 0 ∧ Slack_v d zq zp a v q p = 0 := by
  unfold PV_a PV_v PV_q Slack_a Slack_v; rw [hu]; simp

/-- an offline branch, load or shunt injects nothing -/
theorem offline_device_is_absent (dl : LineP ℝ) (dq : PQP ℝ) (ds : ShuntP ℝ) (z : Flags ℝ) (a1 v1 a2 v2 : ℝ)
    (h1 : dl.u = 0) (h2 : dq.u = 0) (h3 : ds.u = 0) :
    Line_a1 dl a1 v1 a2 v2 = 0 ∧ Line_v1 dl a1 v1 a2 v2 = 0 ∧ Line_a2 dl a1 v1 a2 v2 = 0 ∧ Line_v2 dl a1 v1 a2 v2 = 0 ∧
    PQ_a dq z a1 v1 = 0 ∧ PQ_v dq z a1 v1 = 0 ∧ Shunt_a ds a1 v1 = 0 ∧ Shunt_v ds a1 v1 = 0 := by
  unfold Line_a1 Line_v1 Line_a2 Line_v2 PQ_a PQ_v Shunt_a Shunt_v; rw [h1, h2, h3]; simp

/-- the routing table of the external variables extracted from the real models is the one the assembly
model implements (`a`-equations to `Bus.a`, `v`-equations to `Bus.v`, lines by `bus1` / `bus2`) -/
theorem ext_table_is_modelled : extTable =
    [("Line", "a1", "Bus", "a", "bus1"), ("Line", "a2", "Bus", "a", "bus2"), ("Line", "v1", "Bus", "v", "bus1"),
     ("Line", "v2", "Bus", "v", "bus2"), ("PQ", "a", "Bus", "a", "bus"), ("PQ", "v", "Bus", "v", "bus"),
     ("PV", "a", "Bus", "a", "bus"), ("PV", "v", "Bus", "v", "bus"), ("Slack", "a", "Bus", "a", "bus"),
     ("Slack", "v", "Bus", "v", "bus"), ("Shunt", "a", "Bus", "a", "bus"), ("Shunt", "v", "Bus", "v", "bus")] := by
  decide

/-! ### 5. The verdict of the Newton loop (model of C17) composed with the balance theorem -/

/-- **A reported convergence means the network equations hold** (full strength): if
`PFlow.nr_solve` returns `True` and its last recorded mismatch bounds the residual at the reported unknowns,
then the complex power balance of the input data holds within `tol` at every non-islanded bus. -/
theorem converged_power_flow_satisfies_network_equations (tol : ℚ) (maxIter : Nat) (ms : List (Option ℚ))
    (n : Nat) (rec : List (Option ℚ)) (hrun : Andes.Newton.nrSolve tol maxIter ms = some (true, n, rec))
    (net : Net ℝ) (y : List ℝ) (wf : (resolve net).WF) (hisl : ∀ p ∈ net.islanded, p < net.buses.length)
    (hN : (resolve net).Normal)
    (hmis : ∀ x : ℚ, rec.getLast? = some (some x) → ∀ j, |(gOf net y).getD j 0| ≤ (x : ℝ))
    (k : Nat) (hk : k < net.buses.length) (hn : k ∉ net.islanded) :
    |(Sbus (resolve net) y k).re| < (tol : ℝ) ∧ |(Sbus (resolve net) y k).im| < (tol : ℝ) := by
  obtain ⟨x, hx, hlt⟩ := Andes.Newton.pflow_success_implies_residual tol maxIter ms n rec hrun
  have hlt' : (x : ℝ) < (tol : ℝ) := by exact_mod_cast hlt
  exact converged_implies_balance net y tol wf hisl hN
    (fun j => lt_of_le_of_lt (hmis x hx j) hlt') k hk hn

end Andes.C01
