import Andes.Proofs.Line
import Andes.Proofs.Assemble
import Andes.Props.C17

/-!
# C01 — A converged power flow satisfies the AC network equations of the input data

* `Andes.Gen.PFlowEqs` is REGENERATED on every run from the real `Line`, `PQ`, `PV`, `Slack`, `Shunt` model
  objects (every residual string and the services it uses); the theorems below are re-checked against what
  the code declares now.
* `Andes/Model/Line.lean` (`System.calc_pu_coeff`), `Andes/Model/Assemble.lean` (bus lookup by `idx`, adders,
  `np.add.at`, `g_islands`) are hand models tied to the real `System` by the correspondence of `harness/c01.py`.
* The Newton loop and its verdict are the model of C17 (`Andes/Model/Newton.lean`), reused.

Scalars are real numbers (`sin`, `cos` are Mathlib's); every statement is for all parameter values, all
voltages, all networks (lists of devices of any length), all orders and index types.
-/
namespace Andes.C01
open Complex Andes.PFlow Andes.Gen.PFlowEqs

/-! ### 1. The branch equations are the complex π-model of the input data -/

/-- the generated service pair `(ghk, bhk)` is the complex series admittance `u / ((r+ε) + j(x+ε))` -/
theorem series_admittance_is_quotient (d : LineP ℝ) :
    ((Line_ghk d : ℝ) : ℂ) + ((Line_bhk d : ℝ) : ℂ) * I = yser d := yhk_is_quotient d

/-- **From side**: for every parameter set with `u ∈ {0,1}` and `tap ≠ 0` and all voltages, the declared
`a1` / `v1` equations are the real / imaginary part of `V₁·conj(((V₁/m − V₂)·y + (V₁/m)·y_h)/conj m)`,
`V = v·e^{ja}`, `m = tap·e^{jφ}`, `y = u/((r+ε)+j(x+ε))`, `y_h = u((g1+g/2)+j(b1+b/2))`. -/
theorem line_from_side_is_pi_model (d : LineP ℝ) (hu : d.u = 0 ∨ d.u = 1) (ht : d.tap ≠ 0) (a1 v1 a2 v2 : ℝ) :
    Line_a1 d a1 v1 a2 v2 = (Sfrom (phasor v1 a1) (phasor v2 a2) (phasor d.tap d.phi) (yser d) (yh d)).re ∧
    Line_v1 d a1 v1 a2 v2 = (Sfrom (phasor v1 a1) (phasor v2 a2) (phasor d.tap d.phi) (yser d) (yh d)).im := by
  rw [← yhk_is_quotient, yh_eq, Sfrom_eq, P12g _ _ _ _ _ _ _ _ _ _ ht, Q12g _ _ _ _ _ _ _ _ _ _ ht]
  have hg := u_ghk d hu
  have hb := u_bhk d hu
  unfold Line_a1 Line_v1 Line_itap Line_itap2
  simp only [trig_sin, trig_cos, one_lit]
  constructor
  · linear_combination (v1 ^ 2 * (1 / d.tap / d.tap) - v1 * v2 * Real.cos (a1 - a2 - d.phi) * (1 / d.tap)) * hg
      - (v1 * v2 * Real.sin (a1 - a2 - d.phi) * (1 / d.tap)) * hb
  · linear_combination (-(v1 * v2 * Real.sin (a1 - a2 - d.phi) * (1 / d.tap))) * hg
      + (-(v1 ^ 2 * (1 / d.tap / d.tap)) + v1 * v2 * Real.cos (a1 - a2 - d.phi) * (1 / d.tap)) * hb

example : ∃ d : LineP ℝ, (d.u = 0 ∨ d.u = 1) ∧ d.tap ≠ 0 ∧ d.b1 ≠ d.b2 ∧ d.phi ≠ 0 :=
  ⟨⟨1, 0.01, 0.1, 0, 0.02, 0, 0, 0, 0.2, 1.05, 0.1⟩, by norm_num⟩

/-- what the code computes at the **to** bus, for all parameters: the π-model with the FROM-side shunt
`y_h` where the to-side shunt `y_k` belongs (`gk`, `bk`, `yk` are computed by the model and never used) -/
theorem line_to_side_uses_from_shunt (d : LineP ℝ) (hu : d.u = 0 ∨ d.u = 1) (ht : d.tap ≠ 0) (a1 v1 a2 v2 : ℝ) :
    Line_a2 d a1 v1 a2 v2 = (Sto (phasor v1 a1) (phasor v2 a2) (phasor d.tap d.phi) (yser d) (yh d)).re ∧
    Line_v2 d a1 v1 a2 v2 = (Sto (phasor v1 a1) (phasor v2 a2) (phasor d.tap d.phi) (yser d) (yh d)).im := by
  rw [← yhk_is_quotient, yh_eq, Sto_eq, P21g _ _ _ _ _ _ _ _ _ _ ht, Q21g _ _ _ _ _ _ _ _ _ _ ht]
  have hg := u_ghk d hu
  have hb := u_bhk d hu
  unfold Line_a2 Line_v2 Line_itap
  simp only [trig_sin, trig_cos, one_lit]
  constructor
  · linear_combination (v2 ^ 2 - v1 * v2 * Real.cos (a1 - a2 - d.phi) * (1 / d.tap)) * hg
      + (v1 * v2 * Real.sin (a1 - a2 - d.phi) * (1 / d.tap)) * hb
  · linear_combination (v1 * v2 * Real.sin (a1 - a2 - d.phi) * (1 / d.tap)) * hg
      + (-(v2 ^ 2) + v1 * v2 * Real.cos (a1 - a2 - d.phi) * (1 / d.tap)) * hb

/-- **To side** (`_partial`: needs symmetric branch shunts `g1 = g2`, `b1 = b2`): the declared `a2` / `v2`
equations are the real / imaginary part of `V₂·conj((V₂ − V₁/m)·y + V₂·y_k)`.

Full statement (without `hg`, `hb`) is FALSE for the code as it is: `line_to_side_counterexample`. -/
theorem line_to_side_is_pi_model_partial (d : LineP ℝ) (hu : d.u = 0 ∨ d.u = 1) (ht : d.tap ≠ 0)
    (hg : d.g1 = d.g2) (hb : d.b1 = d.b2) (a1 v1 a2 v2 : ℝ) :
    Line_a2 d a1 v1 a2 v2 = (Sto (phasor v1 a1) (phasor v2 a2) (phasor d.tap d.phi) (yser d) (yk d)).re ∧
    Line_v2 d a1 v1 a2 v2 = (Sto (phasor v1 a1) (phasor v2 a2) (phasor d.tap d.phi) (yser d) (yk d)).im := by
  rw [yk_eq_yh d hg hb]; exact line_to_side_uses_from_shunt d hu ht a1 v1 a2 v2

example : ∃ d : LineP ℝ, (d.u = 0 ∨ d.u = 1) ∧ d.tap ≠ 0 ∧ d.g1 = d.g2 ∧ d.b1 = d.b2 ∧ d.b1 ≠ 0 :=
  ⟨⟨1, 0.01, 0.1, 0, 0.02, 0, 0.03, 0, 0.03, 1.05, 0.1⟩, by norm_num⟩

/-- the exact error of the to-side equations, for all parameters and voltages:
`ΔP = u·v₂²·(g1 − g2)`, `ΔQ = u·v₂²·(b2 − b1)` -/
theorem line_to_side_error (d : LineP ℝ) (hu : d.u = 0 ∨ d.u = 1) (ht : d.tap ≠ 0) (a1 v1 a2 v2 : ℝ) :
    Line_a2 d a1 v1 a2 v2 - (Sto (phasor v1 a1) (phasor v2 a2) (phasor d.tap d.phi) (yser d) (yk d)).re
      = d.u * v2 ^ 2 * (d.g1 - d.g2) ∧
    Line_v2 d a1 v1 a2 v2 - (Sto (phasor v1 a1) (phasor v2 a2) (phasor d.tap d.phi) (yser d) (yk d)).im
      = d.u * v2 ^ 2 * (d.b2 - d.b1) := by
  obtain ⟨h1, h2⟩ := line_to_side_uses_from_shunt d hu ht a1 v1 a2 v2
  have hd := Sto_shunt_diff (phasor v1 a1) (phasor v2 a2) (phasor d.tap d.phi) (yser d) (yh d) (yk d)
  rw [phasor_mul_conj] at hd
  have hre := congrArg Complex.re hd
  have him := congrArg Complex.im hd
  have hyd : yh d - yk d = ((d.u * (d.g1 - d.g2) : ℝ) : ℂ) + ((d.u * (d.b1 - d.b2) : ℝ) : ℂ) * I := by
    unfold yh yk; push_cast; ring
  rw [hyd] at hre him
  simp only [sub_re, sub_im, mul_re, mul_im, ofReal_re, ofReal_im, map_add, map_mul, conj_ofReal, conj_I,
    add_re, add_im, neg_re, neg_im, I_re, I_im, mul_neg, mul_zero, mul_one, zero_mul, sub_zero, add_zero, neg_zero,
    zero_add] at hre him
  rw [h1, h2]
  constructor
  · linarith
  · linarith

/-- **Lean counterexample for the unrestricted to-side statement**: one line with `b2 = 1` and every other
shunt zero, unit voltages, no tap: the declared reactive equation at the to bus differs from the π-model by
exactly `1` p.u. (`harness/c01.py` reproduces it on the real `PFlow`: oracle key `line-to-side-shunt`). -/
theorem line_to_side_counterexample :
    ∃ (d : LineP ℝ) (a1 v1 a2 v2 : ℝ), (d.u = 0 ∨ d.u = 1) ∧ d.tap ≠ 0 ∧
      Line_v2 d a1 v1 a2 v2 ≠ (Sto (phasor v1 a1) (phasor v2 a2) (phasor d.tap d.phi) (yser d) (yk d)).im := by
  refine ⟨⟨1, 0, 0.1, 0, 0, 0, 0, 0, 1, 1, 0⟩, 0, 1, 0, 1, Or.inr rfl, by norm_num, ?_⟩
  intro h
  have := (line_to_side_error ⟨1, 0, 0.1, 0, 0, 0, 0, 0, 1, 1, 0⟩ (Or.inr rfl) (by norm_num) 0 1 0 1).2
  rw [h] at this
  norm_num at this

end Andes.C01
