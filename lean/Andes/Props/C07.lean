import Andes.Gen.Gencls
import Andes.Gen.DaeInt
import Andes.Props.C04
import Mathlib.Tactic.Ring
import Mathlib.Tactic.Linarith
import Mathlib.Tactic.FieldSimp
import Mathlib.Analysis.SpecialFunctions.Trigonometric.Basic
import Mathlib.Analysis.Complex.Norm

/-!
# C07 — Simulated trajectories agree with an independent reference solution

`Andes.Gen.Gencls` (the declared GENCLS equations) and `Andes.Gen.DaeInt` (`calc_q` of daeint.py) are
REGENERATED from /repo on every run.  What is proved: the classical machine model of the code reduces to
the textbook swing equation against which the harness integrates its independent reference; the step map
of the code's trapezoidal residual on a linear system is the (1,1)-Padé approximant of the exponential,
which has unit modulus on the imaginary axis (no numerical damping of the swing mode), while backward
Euler contracts.  What is measured by `harness/c07.py` (residue): convergence of the simulated nonlinear
trajectory to a high-accuracy reference as the step is reduced; small-perturbation response of stock
cases against `expm(As t)`.
-/
namespace Andes.C07
open Andes.Gen.Gencls Andes.Gen.DaeInt

/-- **The classical machine of the code is the textbook classical machine**: with the device in service
(`u = 1`) and no armature resistance, the declared algebraic equations force
`te · xq = vf · v · sin(δ − a)`, i.e. `Pe = E'V/X · sin(δ − θ)` with `E' = vf`. -/
theorem gencls_torque (D Id Iq Pe Qe XadIfd a delta fn omega psid psiq ra te tm tm0 u v vd vf vf0 vq xq : ℝ)
    (hu : u = 1) (hra : ra = 0)
    (h : AlgebraicOk D Id Iq Pe Qe XadIfd a delta fn omega psid psiq ra te tm tm0 u v vd vf vf0 vq xq) :
    te * xq = vf * v * Real.sin (delta - a) := by
  obtain ⟨hId, hIq, hvd, hvq, htm, hte, hvf, hX, hPe, hQe, hpd, hpq⟩ := h
  unfold g_Id at hId; unfold g_Iq at hIq; unfold g_vd at hvd; unfold g_vq at hvq
  unfold g_te at hte; unfold g_psid at hpd; unfold g_psiq at hpq
  subst hu; subst hra
  have e1 : vd = v * Real.sin (delta - a) := by linarith
  have e2 : psiq = -vd := by linarith
  have e3 : psid = vq := by linarith
  have e4 : xq * Iq = vd := by linarith
  have e5 : xq * Id = vf - vq := by linarith
  have e6 : te = psid * Iq - psiq * Id := by linarith
  rw [e6, e2, e3]
  have : (vq * Iq - -vd * Id) * xq = vq * (xq * Iq) + vd * (xq * Id) := by ring
  rw [this, e4, e5]
  have e1' : vf * v * Real.sin (delta - a) = vf * vd := by rw [e1]; ring
  rw [e1']; ring

/-- **… and obeys the swing equation**: `δ̇ = 2π f (ω − 1)`, `M ω̇ = tm0 − te − D (ω − 1)`; the electrical
power delivered to the bus equals `te` (no resistance), and the field voltage is the constant `vf0` -/
theorem gencls_reduces_to_swing (D Id Iq Pe Qe XadIfd a delta fn omega psid psiq ra te tm tm0 u v vd vf vf0 vq xq : ℝ)
    (hu : u = 1) (hra : ra = 0)
    (h : AlgebraicOk D Id Iq Pe Qe XadIfd a delta fn omega psid psiq ra te tm tm0 u v vd vf vf0 vq xq) :
    rhs_delta D Id Iq Pe Qe XadIfd a delta fn omega psid psiq ra te tm tm0 u v vd vf vf0 vq xq = 2 * Real.pi * fn * (omega - 1) ∧
    rhs_omega D Id Iq Pe Qe XadIfd a delta fn omega psid psiq ra te tm tm0 u v vd vf vf0 vq xq = tm0 - te - D * (omega - 1) ∧
    Pe = te ∧ vf = vf0 ∧
    inj_a D Id Iq Pe Qe XadIfd a delta fn omega psid psiq ra te tm tm0 u v vd vf vf0 vq xq = -Pe := by
  obtain ⟨hId, hIq, hvd, hvq, htm, hte, hvf, hX, hPe, hQe, hpd, hpq⟩ := h
  unfold g_tm at htm; unfold g_te at hte; unfold g_vf at hvf; unfold g_Pe at hPe
  unfold g_psid at hpd; unfold g_psiq at hpq
  subst hu; subst hra
  have etm : tm = tm0 := by linarith
  have e2 : psiq = -vd := by linarith
  have e3 : psid = vq := by linarith
  refine ⟨by unfold rhs_delta; ring, by unfold rhs_omega; rw [etm]; ring, ?_, by linarith, ?_⟩
  · have : te = psid * Iq - psiq * Id := by linarith
    rw [this, e2, e3]; linarith
  · unfold inj_a; linarith

/-- **Linear response, trapezoidal rule**: on `T ẋ = λ x` the code's residual gives the (1,1)-Padé step
`x₁ (T − hλ/2) = x₀ (T + hλ/2)` -/
theorem trapezoid_step_map {F : Type} [Field F] [CharZero F] (T h lam x0 x1 : F)
    (hq : trapezoid_q x1 (lam * x1) T h x0 (lam * x0) = 0) :
    x1 * (T - h * lam / 2) = x0 * (T + h * lam / 2) := by
  unfold trapezoid_q at hq
  linear_combination hq

theorem backeuler_step_map {F : Type} [Field F] (T h lam x0 x1 : F)
    (hq : backeuler_q x1 (lam * x1) T h x0 (lam * x0) = 0) : x1 * (T - h * lam) = x0 * T := by
  unfold backeuler_q at hq
  linear_combination hq

/-- **No numerical damping on the imaginary axis**: the trapezoidal amplification factor
`(1 + iy)/(1 − iy)` has modulus one, so an undamped swing mode keeps its amplitude -/
theorem trapezoid_unit_modulus (y : ℝ) :
    ‖(1 + (y : ℂ) * Complex.I)‖ = ‖(1 - (y : ℂ) * Complex.I)‖ := by
  have h1 : (1 - (y : ℂ) * Complex.I) = (starRingEnd ℂ) (1 + (y : ℂ) * Complex.I) := by
    simp [map_add, map_mul, Complex.conj_ofReal, Complex.conj_I]; ring
  rw [h1, Complex.norm_conj]

/-- … whereas backward Euler damps it: `|1/(1 − iy)| < 1` for `y ≠ 0` -/
theorem backeuler_contracts (y : ℝ) (hy : y ≠ 0) : ‖(1 - (y : ℂ) * Complex.I)‖ > 1 := by
  have : (1 - (y : ℂ) * Complex.I) = ((1 : ℝ) : ℂ) + ((-y : ℝ) : ℂ) * Complex.I := by push_cast; ring
  rw [this, Complex.norm_add_mul_I]
  have hpos : (0 : ℝ) < y ^ 2 := by positivity
  have : (1 : ℝ) < 1 ^ 2 + (-y) ^ 2 := by nlinarith
  calc (1 : ℝ) = Real.sqrt 1 := by simp
    _ < Real.sqrt (1 ^ 2 + (-y) ^ 2) := Real.sqrt_lt_sqrt (by norm_num) this

/-- second-order accuracy of the trapezoidal step and first-order of backward Euler (from C04) -/
theorem orders {K : Type} [Field K] [CharZero K] (z : K) (h1 : 1 - z / 2 ≠ 0) (h2 : 1 - z ≠ 0) :
    (1 + z / 2) / (1 - z / 2) - (1 + z + z ^ 2 / 2) = (z ^ 3 / 4) / (1 - z / 2) ∧
    1 / (1 - z) - (1 + z) = z ^ 2 / (1 - z) :=
  ⟨Andes.C04.trapezoid_second_order z h1, Andes.C04.backeuler_first_order z h2⟩

/-- non-vacuity: a consistent operating point of the generated equations -/
example : AlgebraicOk 0 0 0 0 0 1 0 0 60 1 1 0 0 0 0 0 1 1 0 1 1 1 1 := by
  unfold AlgebraicOk g_Id g_Iq g_vd g_vq g_tm g_te g_vf g_XadIfd g_Pe g_Qe g_psid g_psiq
  simp

end Andes.C07
