/-!
# Deep embedding of ANDES equation expressions

One expression language for (a) the equation strings DECLARED by the models (`e_str`, `v_str`, `v_iter`,
service `v_str`), parsed by `translator/models.py` with Python's `ast` (not SymPy), and (b) the bodies of
the GENERATED pycode functions.  Two semantics: `evalF` (this file, executable, `Float`; the independent
evaluator of C02's correspondence, driven over the line protocol) and `evalR` (`Proofs/Expr.lean`, real
numbers, Mathlib functions; what the generated obligations are about).  No Mathlib import here.

Comparisons are expressions with value 1 or 0 (as NumPy's `less_equal(a, b)` multiplied into a product);
`ite c a b` takes `a` when `c ≠ 0` (`select([c], [a], default=b)` / `Piecewise`).
-/
namespace Andes

inductive Fn1 | sin | cos | tan | exp | log | sqrt | abs | arctan | sign
deriving DecidableEq, Repr, Inhabited

inductive Expr
  | num (q : Rat)
  | var (i : Nat)
  | pi
  | nan
  | add (a b : Expr)
  | sub (a b : Expr)
  | mul (a b : Expr)
  | div (a b : Expr)
  | neg (a : Expr)
  | pow (a : Expr) (n : Nat)
  | rpow (a b : Expr)
  | un (f : Fn1) (a : Expr)
  | atan2 (a b : Expr)
  | lt (a b : Expr)
  | le (a b : Expr)
  | band (a b : Expr)
  | bor (a b : Expr)
  | bnot (a : Expr)
  | ite (c a b : Expr)
deriving Repr, Inhabited

namespace Expr

def Fn1.evalF : Fn1 → Float → Float
  | .sin => Float.sin | .cos => Float.cos | .tan => Float.tan | .exp => Float.exp | .log => Float.log
  | .sqrt => Float.sqrt | .abs => Float.abs | .arctan => Float.atan
  | .sign => fun x => if x > 0.0 then 1.0 else if x < 0.0 then -1.0 else 0.0

def ratToFloat (q : Rat) : Float :=
  (Float.ofInt q.num) / (Float.ofNat q.den)

def b2f (b : Bool) : Float := if b then 1.0 else 0.0

/-- executable semantics -/
def evalF (ρ : Nat → Float) : Expr → Float
  | num q => ratToFloat q
  | var i => ρ i
  | pi => 3.141592653589793
  | nan => 0.0 / 0.0
  | add a b => evalF ρ a + evalF ρ b
  | sub a b => evalF ρ a - evalF ρ b
  | mul a b => evalF ρ a * evalF ρ b
  | div a b => evalF ρ a / evalF ρ b
  | neg a => - evalF ρ a
  | pow a n => Float.pow (evalF ρ a) (Float.ofNat n)
  | rpow a b => Float.pow (evalF ρ a) (evalF ρ b)
  | un f a => Fn1.evalF f (evalF ρ a)
  | atan2 a b => Float.atan2 (evalF ρ a) (evalF ρ b)
  | lt a b => b2f (evalF ρ a < evalF ρ b)
  | le a b => b2f (evalF ρ a ≤ evalF ρ b)
  | band a b => b2f (evalF ρ a != 0.0 && evalF ρ b != 0.0)
  | bor a b => b2f (evalF ρ a != 0.0 || evalF ρ b != 0.0)
  | bnot a => b2f (evalF ρ a == 0.0)
  | ite c a b => if evalF ρ c != 0.0 then evalF ρ a else evalF ρ b

/-- does the expression mention variable `i`? -/
def mentions (i : Nat) : Expr → Bool
  | num _ | pi | nan => false
  | var j => i == j
  | add a b | sub a b | mul a b | div a b | rpow a b | atan2 a b | lt a b | le a b | band a b | bor a b =>
    mentions i a || mentions i b
  | neg a | pow a _ | un _ a | bnot a => mentions i a
  | ite c a b => mentions i c || mentions i a || mentions i b

/-- symbolic partial derivative with respect to variable `i` (its correctness, `hasDerivAt_D`, is proved in
`Proofs/Deriv.lean`; it lives here so that the driver can evaluate it in `Float`) -/
def D (i : Nat) : Expr → Expr
  | num _ => num 0
  | pi => num 0
  | nan => num 0
  | var j => if i = j then num 1 else num 0
  | add a b => add (D i a) (D i b)
  | sub a b => sub (D i a) (D i b)
  | mul a b => add (mul (D i a) b) (mul a (D i b))
  | div a b => div (sub (mul (D i a) b) (mul a (D i b))) (pow b 2)
  | neg a => neg (D i a)
  | pow a n => mul (mul (num n) (pow a (n - 1))) (D i a)
  | rpow a b => mul (mul b (rpow a (sub b (num 1)))) (D i a)
  | un .sin a => mul (un .cos a) (D i a)
  | un .cos a => mul (neg (un .sin a)) (D i a)
  | un .tan a => div (D i a) (pow (un .cos a) 2)
  | un .exp a => mul (un .exp a) (D i a)
  | un .log a => div (D i a) a
  | un .sqrt a => div (D i a) (mul (num 2) (un .sqrt a))
  | un .abs a => mul (un .sign a) (D i a)
  | un .arctan a => div (D i a) (add (num 1) (pow a 2))
  | un .sign _ => num 0
  | atan2 _ _ => num 0
  | lt _ _ => num 0
  | le _ _ => num 0
  | band _ _ => num 0
  | bor _ _ => num 0
  | bnot _ => num 0
  | ite c a b => ite c (D i a) (D i b)


end Expr
end Andes
