/-!
# Deep embedding of ANDES equation expressions

One expression language for (a) the equation strings DECLARED by the models (`e_str`, `v_str`, `v_iter`,
service `v_str`), parsed by `translator/models.py` with Python's `ast` (not SymPy), and (b) the bodies of
the GENERATED pycode functions.  Two semantics: `evalF` (this file, executable, `Float`; the independent
evaluator of C02's correspondence, driven over the line protocol) and `evalR` (`Proofs/Expr.lean`, real
numbers, Mathlib functions; what the generated obligations are about).  No Mathlib import here.

Comparisons are expressions with value 1 or 0 (as NumPy's `less_equal(a, b)` multiplied into a product);
`ite c a b` takes `a` when `c ≠ 0` (`select([c], [a], default=b)` / `Piecewise`).
-/
namespace Andes

inductive Fn1 | sin | cos | tan | exp | log | sqrt | abs | arctan | sign
deriving DecidableEq, Repr, Inhabited

inductive Expr
  | num (q : Rat)
  | var (i : Nat)
  | pi
  | nan
  | add (a b : Expr)
  | sub (a b : Expr)
  | mul (a b : Expr)
  | div (a b : Expr)
  | neg (a : Expr)
  | pow (a : Expr) (n : Nat)
  | rpow (a b : Expr)
  | un (f : Fn1) (a : Expr)
  | atan2 (a b : Expr)
  | lt (a b : Expr)
  | le (a b : Expr)
  | band (a b : Expr)
  | bor (a b : Expr)
  | bnot (a : Expr)
  | ite (c a b : Expr)
deriving Repr, Inhabited

namespace Expr

def Fn1.evalF : Fn1 → Float → Float
  | .sin => Float.sin | .cos => Float.cos | .tan => Float.tan | .exp => Float.exp | .log => Float.log
  | .sqrt => Float.sqrt | .abs => Float.abs | .arctan => Float.atan
  | .sign => fun x => if x > 0.0 then 1.0 else if x < 0.0 then -1.0 else 0.0

def ratToFloat (q : Rat) : Float :=
  (Float.ofInt q.num) / (Float.ofNat q.den)

def b2f (b : Bool) : Float := if b then 1.0 else 0.0

/-- executable semantics -/
def evalF (ρ : Nat → Float) : Expr → Float
  | num q => ratToFloat q
  | var i => ρ i
  | pi => 3.141592653589793
  | nan => 0.0 / 0.0
  | add a b => evalF ρ a + evalF ρ b
  | sub a b => evalF ρ a - evalF ρ b
  | mul a b => evalF ρ a * evalF ρ b
  | div a b => evalF ρ a / evalF ρ b
  | neg a => - evalF ρ a
  | pow a n => Float.pow (evalF ρ a) (Float.ofNat n)
  | rpow a b => Float.pow (evalF ρ a) (evalF ρ b)
  | un f a => Fn1.evalF f (evalF ρ a)
  | atan2 a b => Float.atan2 (evalF ρ a) (evalF ρ b)
  | lt a b => b2f (evalF ρ a < evalF ρ b)
  | le a b => b2f (evalF ρ a ≤ evalF ρ b)
  | band a b => b2f (evalF ρ a != 0.0 && evalF ρ b != 0.0)
  | bor a b => b2f (evalF ρ a != 0.0 || evalF ρ b != 0.0)
  | bnot a => b2f (evalF ρ a == 0.0)
  | ite c a b => if evalF ρ c != 0.0 then evalF ρ a else evalF ρ b

/-- does the expression mention variable `i`? -/
def mentions (i : Nat) : Expr → Bool
  | num _ | pi | nan => false
  | var j => i == j
  | add a b | sub a b | mul a b | div a b | rpow a b | atan2 a b | lt a b | le a b | band a b | bor a b =>
    mentions i a || mentions i b
  | neg a | pow a _ | un _ a | bnot a => mentions i a
  | ite c a b => mentions i c || mentions i a || mentions i b

end Expr
end Andes
