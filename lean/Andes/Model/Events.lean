/-! Model of the timed-event call-backs of `andes/models/timer.py` (`Toggle._u_switch`) as they are
invoked by `System.switch_action` at a switch time `x`: every enabled Toggle whose time equals `x`
negates the status of the device it addresses; nothing else changes. Statuses are `Bool`
(the code stores `1 - u0` in a float array). No Mathlib import. -/
namespace Andes.Events

structure Toggle (α : Type) where
  t : α
  u : Bool
  dev : Nat

section
variable {α : Type} [BEq α]

/-- does this Toggle act at switch time `x`? (`is_time[i]` and `u[i] == 1`) -/
def acts (tg : Toggle α) (x : α) : Bool := tg.u && tg.t == x

def flipAt (dev : Nat) (u : List Bool) : List Bool :=
  match u[dev]? with
  | some b => u.set dev (!b)
  | none => u

/-- `Toggle._u_switch(is_time)` for the switch time `x` -/
def applyAt (ts : List (Toggle α)) (x : α) (u : List Bool) : List Bool :=
  ts.foldl (fun u tg => if acts tg x then flipAt tg.dev u else u) u

/-- the switch actions of a whole run: `fired` are the processed switch indices, oldest first -/
def applyRun (ts : List (Toggle α)) (sw : List α) (fired : List Nat) (u : List Bool) : List Bool :=
  fired.foldl (fun u j => match sw[j]? with
    | some x => applyAt ts x u
    | none => u) u

/-- how many Toggles act on device `d` at time `x` -/
def hits (ts : List (Toggle α)) (x : α) (d : Nat) : Nat :=
  (ts.filter (fun tg => acts tg x && tg.dev == d)).length

end
end Andes.Events
