/-! Hand model of `PIControllerNumeric` (andes/core/block.py): the only block whose equations are Python code
(`g_numeric`, `f_numeric`, `j_numeric`) instead of strings.  No Mathlib; the scalar is any type with `+ - *`
(Float for the correspondence run, a field for the theorems of Props/C18.lean).
The operation order is the one of the Python source, so Float results are bit-identical. -/
namespace Andes.PINumeric

variable {α : Type} [Add α] [Sub α] [Mul α]

/-- `g_numeric`: `self.y.e = self.kp.v * (self.u.v - self.ref.v) + self.xi.v - self.y.v` -/
def gRes (kp u ref xi y : α) : α := kp * (u - ref) + xi - y

/-- `f_numeric`: `self.xi.e = self.ki.v * (self.u.v - self.ref.v)` -/
def fRes (ki u ref : α) : α := ki * (u - ref)

/-- `j_numeric` triplets: ('fyc', xi, u, ki), ('gyc', y, u, kp), ('gxc', y, xi, 1.0), ('gyc', y, y, -1.0) -/
def jac_f_u (ki : α) : α := ki
def jac_g_u (kp : α) : α := kp
def jac_g_xi [OfNat α 1] : α := 1
def jac_g_y [OfNat α 1] [Neg α] : α := -1

/-- the triplet list in the order `j_numeric` appends it: (matrix, row variable, column variable, value) -/
def triplets [OfNat α 1] [Neg α] (kp ki : α) : List (String × String × String × α) :=
  [("fyc", "xi", "u", jac_f_u ki), ("gyc", "y", "u", jac_g_u kp), ("gxc", "y", "xi", jac_g_xi), ("gyc", "y", "y", jac_g_y)]

end Andes.PINumeric
