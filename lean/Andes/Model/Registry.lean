/-!
# Device registry of one group: idx allocation, lookups, back-references, device finder

Executable model (no Mathlib) of

* `System.add` + `GroupBase.get_next_idx` + `ModelData.add` + `GroupBase.add`   (`addDev`)
* `GroupBase.idx2uid / idx2model`, `Model.idx2uid`                              (`idx2uid`, `idx2model`, `modelIdx2uid`)
* `ModelData.find_idx` (flags `allow_none`, `allow_all`, `default`)             (`modelFind`)
* `GroupBase.find_idx` — the matches of every model, in model order (repaired)  (`groupFind`)
* `System.collect_ref` + `GroupBase.set_backref` + `Model.set_backref`          (`collectRef`, `collectRefM`)
* `DeviceFinder.find_or_add`                                                    (`finder`)
* `ExtParam.link_external` / `ExtVar.link_external` resolution of an indexer    (`linkAll`, `extAddr`)

A device index is a number or a string (`1 == 1.0` is canonicalised by the harness); `None` is `none`.
A group is the list of its devices in order of addition; every device stores the group uid and the
model uid it was given when it was added (the theorems show these are its positions).
Field `0` of a device is its `idx`, field `k+1` is `vals[k]`; `vals[0]` is the `name` parameter, which
`ModelData.add` defaults to the idx.
-/
namespace Andes.Registry

inductive Idx where
  | num (i : Int)
  | str (s : String)
  deriving DecidableEq, Repr, Inhabited

abbrev Val := Option Idx

structure Dev where
  mdl : Nat
  idx : Idx
  vals : List Val
  guid : Nat
  muid : Nat
  deriving DecidableEq, Repr

abbrev Grp := List Dev

def used (g : Grp) : List Idx := g.map (·.idx)

def rowsOf (g : Grp) (m : Nat) : Grp := g.filter (fun d => decide (d.mdl = m))

/-! ## idx allocation (`GroupBase.get_next_idx`) -/

/-- `model_name + '_' + str(k)` -/
def autoName (name : String) (k : Nat) : Idx := .str (name ++ "_" ++ toString k)

/-- the `while True` loop of `get_next_idx` started at `count`, with `fuel` iterations; the theorems
show that `used.length + 1` iterations always suffice -/
def firstFree (usedL : List Idx) (name : String) : Nat → Nat → Idx
  | 0, c => autoName name (c + 1)
  | f + 1, c => if autoName name (c + 1) ∈ usedL then firstFree usedL name f (c + 1) else autoName name (c + 1)

def nextIdx (usedL : List Idx) (name : String) (idx? : Option Idx) : Idx :=
  match idx? with
  | some i => if i ∈ usedL then firstFree usedL name (usedL.length + 1) usedL.length else i
  | none => firstFree usedL name (usedL.length + 1) usedL.length

/-- `name = idx` when the name is missing (`ModelData.add`) -/
def fillName (i : Idx) : List Val → List Val
  | [] => []
  | none :: t => some i :: t
  | some x :: t => some x :: t

def newDev (names : List String) (g : Grp) (m : Nat) (idx? : Option Idx) (vals : List Val) : Dev :=
  let i := nextIdx (used g) (names.getD m "?") idx?
  { mdl := m, idx := i, vals := fillName i vals, guid := g.length, muid := (rowsOf g m).length }

/-- `System.add(model, idx=..., **vals)`; returns the new group -/
def addDev (names : List String) (g : Grp) (m : Nat) (idx? : Option Idx) (vals : List Val) : Grp :=
  g ++ [newDev names g m idx? vals]

/-- `GroupBase.add` raises `KeyError` when the idx is already registered (proved unreachable) -/
def groupAddRaises (names : List String) (g : Grp) (m : Nat) (idx? : Option Idx) : Bool :=
  decide (nextIdx (used g) (names.getD m "?") idx? ∈ used g)

/-! ## lookups by idx -/

def lookup (g : Grp) (i : Idx) : Option Dev := g.find? (fun d => decide (d.idx = i))

def idx2uid (g : Grp) (i : Idx) : Option Nat := (lookup g i).map (·.guid)

def idx2model (g : Grp) (i : Idx) : Option Nat := (lookup g i).map (·.mdl)

def modelIdx2uid (g : Grp) (m : Nat) (i : Idx) : Option Nat := (lookup (rowsOf g m) i).map (·.muid)

/-! ## lookups by field values -/

def Dev.get (d : Dev) : Nat → Val
  | 0 => some d.idx
  | k + 1 => d.vals.getD k none

/-- `all([i == j for i, j in zip(v_search, v_attr)])` -/
def matchQ (keys : List Nat) (q : List Val) (d : Dev) : Bool :=
  (keys.zip q).all (fun kv => decide (d.get kv.1 = kv.2))

/-- idx of the rows that match, in row order -/
def hits (rows : Grp) (keys : List Nat) (q : List Val) : List Idx :=
  (rows.filter (matchQ keys q)).map (·.idx)

def headOnly (allowAll : Bool) (l : List Val) : List Val := if allowAll then l else l.take 1

/-- one search tuple of `ModelData.find_idx`; `none` = `IndexError` -/
def modelFindOne (rows : Grp) (keys : List Nat) (allowNone : Bool) (dflt : Val) (q : List Val) :
    Option (List Val) :=
  let h := hits rows keys q
  if h.isEmpty then (if allowNone then some [dflt] else none) else some (h.map some)

/-- `ModelData.find_idx`; without `allow_all` each answer is the singleton of the first match -/
def modelFind (rows : Grp) (keys : List Nat) (qs : List (List Val)) (allowNone allowAll : Bool) (dflt : Val) :
    Option (List (List Val)) :=
  qs.mapM (fun q => (modelFindOne rows keys allowNone dflt q).map (headOnly allowAll))

/-- what model `m` reports to the group (`allow_none=True, allow_all=True, default=missing`); `none` is the answer
`[missing]`, where `missing = object()` is private to the call and therefore never the idx of a device (on the
pinned tree the marker was the CALLER's `default`, which may be a device idx: finding `group-find-default-sentinel`,
repaired) -/
def perModel (g : Grp) (keys : List Nat) (q : List Val) (m : Nat) : Option (List Val) :=
  let h := hits (rowsOf g m) keys q
  if h.isEmpty then none else some (h.map some)

/-- one search tuple of `GroupBase.find_idx`: (`out_pre` item, missing?) — the item is the concatenation, in
model order, of the answers of all models that found something (on the pinned tree: the answer of
the FIRST such model only — finding `group-find-all-first-model-only`, repaired) -/
def groupFindOne (g : Grp) (nm : Nat) (keys : List Nat) (dflt : Val) (q : List Val) : List Val × Bool :=
  let per := (List.range nm).map (perModel g keys q)
  let found := per.filterMap id
  if found.isEmpty then ([dflt], true) else (found.flatten, false)

def groupFind (g : Grp) (nm : Nat) (keys : List Nat) (qs : List (List Val)) (allowNone allowAll : Bool)
    (dflt : Val) : Option (List (List Val)) :=
  let r := qs.map (groupFindOne g nm keys dflt)
  if !allowNone && r.any (·.2) then none else some (r.map (fun x => headOnly allowAll x.1))

/-- the specification of an all-matches lookup on a group: every matching device of every model,
models in group order -/
def allHits (g : Grp) (nm : Nat) (keys : List Nat) (q : List Val) : List Idx :=
  (List.range nm).flatMap (fun m => hits (rowsOf g m) keys q)

/-! ## back-references (`System.collect_ref`) -/

def appendAt (l : List (List Idx)) (k : Nat) (x : Idx) : List (List Idx) := l.modify k (· ++ [x])

/-- one `(model_idx, dest_idx)` pair: skipped when `dest_idx not in dest.uid`, else
`services_ref[name].v[uid].append(from_idx)` -/
def setBackref (g : Grp) (acc : List (List Idx)) (r : Idx × Val) : List (List Idx) :=
  match r.2 with
  | none => acc
  | some t =>
    match lookup g t with
    | none => acc
    | some d => appendAt acc d.guid r.1

/-- the group-level `BackRef.v` after `collect_ref` -/
def collectRef (g : Grp) (refs : List (Idx × Val)) : List (List Idx) :=
  refs.foldl (setBackref g) (List.replicate g.length [])

def setBackrefM (g : Grp) (m : Nat) (acc : List (List Idx)) (r : Idx × Val) : List (List Idx) :=
  match r.2 with
  | none => acc
  | some t =>
    match lookup g t with
    | none => acc
    | some d => if d.mdl = m then appendAt acc d.muid r.1 else acc

/-- the `BackRef.v` of model `m` of the group (`Model.set_backref`, indexed by the model uid) -/
def collectRefM (g : Grp) (m : Nat) (refs : List (Idx × Val)) : List (List Idx) :=
  refs.foldl (setBackrefM g m) (List.replicate (rowsOf g m).length [])

/-! ## `DeviceFinder.find_or_add` -/

structure FCfg where
  isModel : Bool      -- `u.model` names a model (else a group)
  target : Nat        -- the model searched when `isModel`
  addTo : Nat         -- `add_to_model` (= target when `isModel`, else `default_model`)
  nm : Nat            -- number of models of the group
  linkKey : Nat       -- field number of `idx_name` (≥ 1)
  nvals : Nat         -- number of value fields of the created model
  autoFind : Bool
  autoAdd : Bool

/-- `mdl.find_idx(key, (v,), allow_none=True, default=None)[0]` on a model or a group -/
def search (c : FCfg) (g : Grp) (key : Nat) (v : Val) : Val :=
  if c.isModel then
    match modelFind (rowsOf g c.target) [key] [[v]] true false none with
    | some ((x :: _) :: _) => x
    | _ => none
  else
    match groupFind g c.nm [key] [[v]] true false none with
    | some ((x :: _) :: _) => x
    | _ => none

def linkVals (c : FCfg) (link : Val) : List Val := (List.replicate c.nvals none).set (c.linkKey - 1) link

/-- the part of the loop body after the validity test of a given idx -/
def findOrAdd (names : List String) (c : FCfg) (g : Grp) (u link : Val) : Grp × Val :=
  match (if c.autoFind then search c g c.linkKey link else none) with
  | some j => (g, some j)
  | none =>
    if c.autoAdd then
      let g' := addDev names g c.addTo none (linkVals c link)
      (g', (g'.getLast?).map (·.idx))
    else (g, u)

def finderStep (names : List String) (c : FCfg) (st : Grp × List Val) (e : Val × Val) : Grp × List Val :=
  match e.1 with
  | some i =>
    if search c st.1 0 (some i) = some i then (st.1, st.2 ++ [some i])
    else let r := findOrAdd names c st.1 e.1 e.2; (r.1, st.2 ++ [r.2])
  | none => let r := findOrAdd names c st.1 e.1 e.2; (r.1, st.2 ++ [r.2])

/-- `entries` = `zip(u.v, link.v)`; result = (group afterwards, `DeviceFinder.v`) -/
def finder (names : List String) (c : FCfg) (g : Grp) (entries : List (Val × Val)) : Grp × List Val :=
  entries.foldl (finderStep names c) (g, [])

/-! ## resolution of mandatory references (`link_external`) -/

/-- `idx2uid` of one indexer entry; `none` = `KeyError`/`IndexError` (reported) -/
def resolve (g : Grp) (r : Val) : Option Nat :=
  match r with
  | none => none
  | some i => idx2uid g i

/-- `ExtParam.link_external`: all entries or an error (`link_ext_param` returns `False`) -/
def linkAll (g : Grp) (refs : List Val) : Option (List Nat) := refs.mapM (resolve g)

/-- `ExtVar.link_external` on a group: `get(src, idx, 'a', allow_none, default=0)`;
`addr k` is the address of the variable of the device with group uid `k` -/
def extAddr (g : Grp) (addr : Nat → Nat) (allowNone : Bool) (r : Val) : Option Nat :=
  match r with
  | none => if allowNone then some 0 else none
  | some i => (idx2uid g i).map addr

/-! ## unique mandatory `IdxParam` (`IdxParam.add`, e.g. `TGOV1.syn`) -/

inductive AddRes where
  | ok | dup | missing
  deriving DecidableEq, Repr

/-- `dup` = `IndexError` (duplicate value), `missing` = `ValueError` (mandatory); the value list is
unchanged by a rejected add -/
def uniqueAdd (vs : List Idx) : Val → List Idx × AddRes
  | none => (vs, .missing)
  | some i => if i ∈ vs then (vs, .dup) else (vs ++ [i], .ok)

def uniqueAdds (vs : List Idx) : List Val → List Idx × List AddRes
  | [] => (vs, [])
  | v :: t =>
    let r := uniqueAdd vs v
    let r' := uniqueAdds r.1 t
    (r'.1, r.2 :: r'.2)

end Andes.Registry
