import Andes.Model.Hex
import Andes.Model.Address
/-! Line protocol for the addressing model.

`addr <models> <outputs> <gets>` — fields contain no blanks.
* `<models>`  : `M|M|...`, `M = name:group:PTCU:idxs:states:algebs:exts` (`PTCU` = pflow, tds, collate, in_use as 0/1;
  lists comma separated, `-` when empty; an idx is `i<int>` or `s<string>`, `n` for `None`);
  `exts = E/E/...`, `E = name~x|y~target~src~hasE~allowNone~idxs` (`idxs = *` when there is no indexer)
* `<outputs>` : `model~var~dev;...` (`*` for `None`), `-` when empty
* `<gets>`    : `M~model~x|y~src~idxs;...` / `G~group~x|y~src~allowNone~idxs;...`, `-` when empty
Output: `A <dump after setup phase> | B <dump after TDS phase> | O <xidx> <yidx> | G <results>`. -/
namespace Andes.Address
open Andes.Hex

def listOf (s : String) (sep : String) : List String := if s == "-" then [] else s.splitOn sep

def idxOf? (s : String) : Option (Option Idx) :=
  match s.toList with
  | 'n' :: [] => some none
  | 'i' :: rest => (String.ofList rest).toInt?.map (fun k => some (Idx.num k))
  | 's' :: rest => some (some (Idx.str (String.ofList rest)))
  | _ => none

def idxsOf? (s : String) : Option (List (Option Idx)) := (listOf s ",").mapM idxOf?

def extOf? (s : String) : Option ExtVar :=
  match s.splitOn "~" with
  | [name, k, target, src, hasE, an, idxs] => do
    let hasE ← boolOf hasE
    let an ← boolOf an
    let indexer ← if idxs == "*" then some none else (idxsOf? idxs).map some
    pure { name := name, isState := k == "x", target := target, src := src, hasE := hasE, allowNone := an,
           indexer := indexer }
  | _ => none

def mdlOf? (s : String) : Option Mdl :=
  match s.splitOn ":" with
  | [name, group, flags, idxs, states, algebs, exts] => do
    let idxs ← idxsOf? idxs
    let idx ← idxs.mapM id
    let exts ← (listOf exts "/").mapM extOf?
    match flags.toList with
    | [p, t, c, u] =>
      pure { name := name, group := group, pflow := p == '1', tds := t == '1', collate := c == '1',
             inUse := u == '1', idx := idx,
             states := listOf states ",", algebs := listOf algebs ",", exts := exts }
    | _ => none
  | _ => none

def outOf? (s : String) : Option OutSpec :=
  match s.splitOn "~" with
  | [m, v, d] => do
    let dev ← if d == "*" then some none else idxOf? d
    pure { model := m, var := if v == "*" then none else some v, dev := dev }
  | _ => none

def showNats (l : List Nat) : String := natsToString l
def showOpt (o : Option (List Nat)) : String := match o with | some l => showNats l | none => "E"

def dumpMdl (m : Mdl) : String :=
  let xs := (m.states.zipIdx).map (fun (v, k) => m.name ++ "." ++ v ++ "=" ++ showNats ((m.xa[k]?).getD []))
  let ys := (m.algebs.zipIdx).map (fun (v, k) => m.name ++ "." ++ v ++ "=" ++ showNats ((m.ya[k]?).getD []))
  let es := m.exts.map (fun e => m.name ++ "." ++ e.name ++ "=" ++ showNats e.a ++ "@" ++ showNats e.r)
  " ".intercalate ([m.name ++ (if m.addressed then "+" else "-")] ++ xs ++ ys ++ es)

def dumpSys (s : Sys) : String :=
  " ".intercalate ([toString s.dae.n, toString s.dae.m, toString s.dae.p, toString s.dae.q] ++
    s.models.map dumpMdl) ++ " X " ++ ";".intercalate s.dae.xName ++ " Y " ++ ";".intercalate s.dae.yName

def getOf (ms : List Mdl) (s : String) : String :=
  match s.splitOn "~" with
  | ["M", model, k, src, idxs] =>
    match findModel ms model, idxsOf? idxs with
    | some m, some ix => showOpt (modelGetA m (k == "x") src ix)
    | _, _ => "bad"
  | ["G", group, k, src, an, idxs] =>
    match idxsOf? idxs with
    | some ix => showOpt (groupGetA ms group (k == "x") src (an == "1") ix)
    | none => "bad"
  | _ => "bad"

def handleAddr (args : List String) : String :=
  match args with
  | [models, outs, gets] =>
    let r : Option String := do
      let ms ← (listOf models "|").mapM mdlOf?
      let os ← (listOf outs ";").mapM outOf?
      let s0 : Sys := { models := ms }
      let sA := setupPhase s0
      let sB := tdsPhase sA
      let ox := outputSubidx selPflowTds sB.models true os
      let oy := outputSubidx selPflowTds sB.models false os
      let gs := (listOf gets ";").map (getOf sB.models)
      let (ox, oy) := match ox, oy with
        | some a, some b => (some a, some b)
        | _, _ => (none, none)
      pure ("A " ++ dumpSys sA ++ " | B " ++ dumpSys sB ++ " | O " ++ showOpt ox ++ " " ++ showOpt oy ++
            " | G " ++ " ".intercalate gs)
    r.getD "bad-op"
  | _ => "bad-op"

def showIdx : Option Idx → String
  | none => "n"
  | some (.num k) => "i" ++ toString k
  | some (.str t) => "s" ++ t

/-- `gval <idxs>` : `Group.get` on an idx-valued parameter -/
def handleGval (args : List String) : String :=
  match args with
  | [vals] =>
    match (idxsOf? vals).bind (fun l => l.mapM id) with
    | some vs => match groupGetIdxVals vs with
      | some r => if r.isEmpty then "-" else ",".intercalate (r.map (fun i => showIdx (some i)))
      | none => "E"
    | none => "bad-op"
  | _ => "bad-op"

/-- `dsel <optional idxs> <fallback idxs>` : `DataSelect.v` -/
def handleDsel (args : List String) : String :=
  match args with
  | [o, f] =>
    match idxsOf? o, idxsOf? f with
    | some o, some f => match dataSelect o f with
      | some r => if r.isEmpty then "-" else ",".intercalate (r.map showIdx)
      | none => "E"
    | _, _ => "bad-op"
  | _ => "bad-op"

/-- `req <begin> <ndev> <nvar> <collate>` : `DAE.request_address` alone -/
def handleReq (args : List String) : String :=
  match args.mapM String.toNat? with
  | some [b, nd, nv, c] => ";".intercalate ((requestAddress b nd nv (c == 1)).map showNats) ++ " " ++ toString (b + nd * nv)
  | _ => "bad-op"

end Andes.Address
