import Andes.Model.Hex
import Andes.Model.SolverCache
/-! Line protocol for the solver-cache model (concrete back end `isys`: integer matrices, exact solve).

`slv <lib> <n> <und> <mats> <rhs> <ops>`
* `<lib>`  `klu` | `umfpack` | `spsolve`
* `<und>`  `-` or `k>m,...`: UMFPACK was observed NOT to reject the symbolic factor of matrix `k` for matrix `m`
* `<mats>` `;`-separated matrices, each a `,`-separated list of structural entries `i:j:v` (`-` = none)
* `<rhs>`  `;`-separated integer vectors
* `<ops>`  `,`-separated: `s<k>.<r>` (solve matrix k, rhs r), `l<k>.<r>` (linsolve), `c` (clear),
           `f` (worker.factorize = True), `n` (worker.new_A = True)
Output: one word per op, `<library calls>|<outcome>`.

`pfs <dishonest> <nFactorize> <niter> <linsolve>` and
`tdi <tZero> <honest> <customEvent> <lastConverged> <niter> <nearSwitch> <linsolve>`
print the solver operations of one `PFlow.nr_step` / one iteration of `daeint.step`. -/
namespace Andes.SolverCache
open Andes.Hex

def libOf (s : String) : Option Lib :=
  if s == "klu" then some .klu else if s == "umfpack" then some .umfpack
  else if s == "spsolve" then some .spsolve else none

def entOf (s : String) : Option (Nat × Nat × Int) :=
  match s.splitOn ":" with
  | [i, j, v] => do
    let i ← i.toNat?
    let j ← j.toNat?
    let v ← v.toInt?
    pure (i, j, v)
  | _ => none

def matOf (n : Nat) (idx : Nat) (s : String) : Option IMat :=
  if s == "-" then some ⟨idx, n, []⟩ else do
    let es ← (s.splitOn ",").mapM entOf
    pure ⟨idx, n, es⟩

def matsOf (n : Nat) (s : String) : Option (List IMat) :=
  let parts := s.splitOn ";"
  (parts.zipIdx).mapM (fun (p : String × Nat) => matOf n p.2 p.1)

def rhsOf (s : String) : Option (List QVec) :=
  (s.splitOn ";").mapM (fun v => (intsOfString v).map (fun l => QVec.q (l.map (fun (z : Int) => (z : Rat)))))

def pairOf (s : String) : Option (Nat × Nat) :=
  match s.splitOn "." with
  | [k, r] => do
    let k ← k.toNat?
    let r ← r.toNat?
    pure (k, r)
  | _ => none

def opOf (mats : List IMat) (rhs : List QVec) (s : String) : Option (Op IMat QVec) :=
  if s == "c" then some .clear
  else if s == "f" then some .setFactorize
  else if s == "n" then some .setNewA
  else match s.toList with
    | c :: rest => do
      let (k, r) ← pairOf (String.ofList rest)
      let A ← mats[k]?
      let b ← rhs[r]?
      if c == 's' then pure (.solve A b) else if c == 'l' then pure (.linsolve A b) else none
    | [] => none

def undOf (mats : List IMat) (s : String) :
    Option (List (List (Nat × Nat) × List (Nat × Nat))) :=
  if s == "-" then some [] else
    (s.splitOn ",").mapM (fun w => match w.splitOn ">" with
      | [k, m] => do
        let k ← k.toNat?
        let m ← m.toNat?
        let A ← mats[k]?
        let B ← mats[m]?
        pure (A.pattern, B.pattern)
      | _ => none)

def callChar : Call → Char
  | .sym => 'S' | .num => 'N' | .numV => 'V' | .numA => 'A' | .numU => 'U' | .numT => 'T'
  | .slv => 'X' | .lin => 'L' | .linA => 'l' | .splu => 'P' | .spluE => 'p' | .lusolve => 'Y'
  | .nolu => 'y' | .spsolve => 'Q'

def showTrace (t : List Call) : String := if t.isEmpty then "-" else String.ofList (t.map callChar)

def showRat (r : Rat) : String := toString r.num ++ "/" ++ toString r.den

def showOut : Out QVec → String
  | .vec (.q l) => "v:" ++ ",".intercalate (l.map showRat)
  | .vec .nan => "nan"
  | .raised => "raise"
  | .ub => "ub"
  | .unit => "ok"

def handleSlv (args : List String) : String :=
  match args with
  | [lib, n, und, mats, rhs, ops] =>
    let r : Option String := do
      let lib ← libOf lib
      let n ← n.toNat?
      let mats ← matsOf n mats
      let rhs ← rhsOf rhs
      let und ← undOf mats und
      let ops ← (ops.splitOn ",").mapM (opOf mats rhs)
      let S := isys und
      let outs := runOut S lib (init IMat _ lib) ops
      let trs := runTrace S lib (init IMat _ lib) ops
      pure (" ".intercalate ((trs.zip outs).map (fun p => showTrace p.1 ++ "|" ++ showOut p.2)))
    r.getD "bad-args"
  | _ => "bad-arity"

def showOp : Op String Unit → String
  | .solve A _ => "s" ++ A
  | .linsolve A _ => "l" ++ A
  | .clear => "c"
  | .setFactorize => "f"
  | .setNewA => "n"

def handlePfs (args : List String) : String :=
  match args with
  | [dis, nf, niter, lin] =>
    let r : Option String := do
      let dis ← boolOf dis
      let nf ← nf.toNat?
      let niter ← niter.toNat?
      let lin ← boolOf lin
      pure (",".intercalate ((pfStepOps dis nf niter lin "OLD" "NEW" ()).map showOp))
    r.getD "bad-args"
  | _ => "bad-arity"

def handleTdi (args : List String) : String :=
  match args with
  | [tz, honest, custom, lastc, niter, near, lin] =>
    let r : Option String := do
      let tz ← boolOf tz
      let honest ← boolOf honest
      let custom ← boolOf custom
      let lastc ← boolOf lastc
      let niter ← niter.toNat?
      let near ← boolOf near
      let lin ← boolOf lin
      pure (",".intercalate ((tdsIterOps (tdsUpdates tz honest custom lastc niter near) lin "AC" ()).map showOp))
    r.getD "bad-args"
  | _ => "bad-arity"

end Andes.SolverCache
