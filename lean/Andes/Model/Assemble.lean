import Andes.Gen.PFlowEqs
/-!
# Assembly of the power-flow residual `dae.g` from device equations (C01)

Model of what `PFlow.fg_update` leaves in `dae.g` for a network of `Bus`, `PQ`, `PV`, `Slack`, `Shunt`,
`Line` devices (the models of `System.find_models('pflow')` in their fixed order):

* `resolve`  — `System.calc_pu_coeff` (device base → system base, `Andes/Model/Line.lean`) and the lookup of
  every device's bus `idx` in the list of bus indices (numbers or strings): position `p` of the bus gives the
  addresses `p` (angle equation) and `nb + p` (magnitude equation); the algebraic variables `PV.q`, `Slack.q`,
  `Slack.p` follow at `2 nb + …` in device order.
* `contribs` — one `(address, value)` pair per device and external variable, the value being the
  GENERATED equation (`Andes/Gen/PFlowEqs.lean`) at the voltages of the device's buses, in the order in which
  `System._e_to_dae` walks `_adders['g']`.
* `scatter`  — `np.add.at(dae.g, var.a, var.e)` into the cleared array; `gIslands` — `System.g_islands`.

No Mathlib import; polymorphic scalar (run on `Float` by the driver, proved about on `ℝ`).
-/
namespace Andes.PFlow
open Andes.Gen.PFlowEqs

/-- a device index as the user typed it: a number or a string -/
inductive Idx where
  | num (n : Int)
  | str (s : String)
deriving DecidableEq, Repr

structure LineDev (α : Type) where
  bus1 : Idx
  bus2 : Idx
  sn : α
  vn1 : α
  /-- input values, per unit on the device base `(sn, vn1)` -/
  d : LineP α

structure PQDev (α : Type) where
  bus : Idx
  d : PQP α
  z : Flags α

/-- a `PV` (flags `zp` unused) or `Slack` device -/
structure GenDev (α : Type) where
  bus : Idx
  d : GenP α
  zq : Flags α
  zp : Flags α

structure ShuntDev (α : Type) where
  bus : Idx
  sn : α
  vn : α
  d : ShuntP α

/-- the input data of a power-flow case -/
structure Net (α : Type) where
  sb : α
  /-- `(idx, Vn)` of every bus, in insertion order -/
  buses : List (Idx × α)
  pqs : List (PQDev α)
  pvs : List (GenDev α)
  slacks : List (GenDev α)
  shunts : List (ShuntDev α)
  lines : List (LineDev α)
  /-- positions of the islanded buses (`Bus.islanded_buses`, C12) -/
  islanded : List Nat

/-! ### resolved network: bus positions and system-base parameters -/

structure RLine (α : Type) where
  p1 : Nat
  p2 : Nat
  d : LineP α

structure RPQ (α : Type) where
  pos : Nat
  d : PQP α
  z : Flags α

structure RGen (α : Type) where
  pos : Nat
  d : GenP α
  zq : Flags α
  zp : Flags α

structure RShunt (α : Type) where
  pos : Nat
  d : ShuntP α

structure RNet (α : Type) where
  nb : Nat
  pqs : List (RPQ α)
  pvs : List (RGen α)
  slacks : List (RGen α)
  shunts : List (RShunt α)
  lines : List (RLine α)
  islanded : List Nat

/-- position of the bus with index `i` (`nb` when there is none) -/
def busPos (ids : List Idx) (i : Idx) : Nat := ids.idxOf i

section
variable {α : Type} [Add α] [Sub α] [Mul α] [Div α] [Neg α] [OfScientific α] [Trig α]

def vnAt (vns : List α) (p : Nat) : α := vns.getD p 1.0

def resolve (net : Net α) : RNet α :=
  let ids := net.buses.map (·.1)
  let vns := net.buses.map (·.2)
  { nb := net.buses.length
    pqs := net.pqs.map (fun e => ⟨busPos ids e.bus, e.d, e.z⟩)
    pvs := net.pvs.map (fun e => ⟨busPos ids e.bus, e.d, e.zq, e.zp⟩)
    slacks := net.slacks.map (fun e => ⟨busPos ids e.bus, e.d, e.zq, e.zp⟩)
    shunts := net.shunts.map (fun e => ⟨busPos ids e.bus, shuntToSys net.sb (vnAt vns (busPos ids e.bus)) e.sn e.vn e.d⟩)
    lines := net.lines.map (fun e => ⟨busPos ids e.bus1, busPos ids e.bus2,
                                      lineToSys net.sb (vnAt vns (busPos ids e.bus1)) e.sn e.vn1 e.d⟩)
    islanded := net.islanded }

/-- `dae.y[i]` -/
def yAt (y : List α) (i : Nat) : α := y.getD i 0.0

/-- number of algebraic equations: `a`, `v` of every bus, `q` of every PV, `q`, `p` of every Slack -/
def RNet.size (r : RNet α) : Nat := 2 * r.nb + r.pvs.length + 2 * r.slacks.length

def RNet.qPV (r : RNet α) (k : Nat) : Nat := 2 * r.nb + k
def RNet.qSl (r : RNet α) (k : Nat) : Nat := 2 * r.nb + r.pvs.length + k
def RNet.pSl (r : RNet α) (k : Nat) : Nat := 2 * r.nb + r.pvs.length + r.slacks.length + k

/-! the contribution groups, one per (model, variable) in the order of `System._adders['g']` followed by the
in-place equations of the internal variables -/

def cPQa (r : RNet α) (y : List α) : List (Nat × α) :=
  r.pqs.map (fun e => (e.pos, PQ_a e.d e.z (yAt y e.pos) (yAt y (r.nb + e.pos))))
def cPQv (r : RNet α) (y : List α) : List (Nat × α) :=
  r.pqs.map (fun e => (r.nb + e.pos, PQ_v e.d e.z (yAt y e.pos) (yAt y (r.nb + e.pos))))
def cPVa (r : RNet α) (y : List α) : List (Nat × α) :=
  r.pvs.zipIdx.map (fun ek => (ek.1.pos, PV_a ek.1.d ek.1.zq (yAt y ek.1.pos) (yAt y (r.nb + ek.1.pos)) (yAt y (r.qPV ek.2))))
def cPVv (r : RNet α) (y : List α) : List (Nat × α) :=
  r.pvs.zipIdx.map (fun ek => (r.nb + ek.1.pos, PV_v ek.1.d ek.1.zq (yAt y ek.1.pos) (yAt y (r.nb + ek.1.pos)) (yAt y (r.qPV ek.2))))
def cPVq (r : RNet α) (y : List α) : List (Nat × α) :=
  r.pvs.zipIdx.map (fun ek => (r.qPV ek.2, PV_q ek.1.d ek.1.zq (yAt y ek.1.pos) (yAt y (r.nb + ek.1.pos)) (yAt y (r.qPV ek.2))))
def cSla (r : RNet α) (y : List α) : List (Nat × α) :=
  r.slacks.zipIdx.map (fun ek => (ek.1.pos, Slack_a ek.1.d ek.1.zq ek.1.zp (yAt y ek.1.pos) (yAt y (r.nb + ek.1.pos))
    (yAt y (r.qSl ek.2)) (yAt y (r.pSl ek.2))))
def cSlv (r : RNet α) (y : List α) : List (Nat × α) :=
  r.slacks.zipIdx.map (fun ek => (r.nb + ek.1.pos, Slack_v ek.1.d ek.1.zq ek.1.zp (yAt y ek.1.pos) (yAt y (r.nb + ek.1.pos))
    (yAt y (r.qSl ek.2)) (yAt y (r.pSl ek.2))))
def cSlq (r : RNet α) (y : List α) : List (Nat × α) :=
  r.slacks.zipIdx.map (fun ek => (r.qSl ek.2, Slack_q ek.1.d ek.1.zq ek.1.zp (yAt y ek.1.pos) (yAt y (r.nb + ek.1.pos))
    (yAt y (r.qSl ek.2)) (yAt y (r.pSl ek.2))))
def cSlp (r : RNet α) (y : List α) : List (Nat × α) :=
  r.slacks.zipIdx.map (fun ek => (r.pSl ek.2, Slack_p ek.1.d ek.1.zq ek.1.zp (yAt y ek.1.pos) (yAt y (r.nb + ek.1.pos))
    (yAt y (r.qSl ek.2)) (yAt y (r.pSl ek.2))))
def cSha (r : RNet α) (y : List α) : List (Nat × α) :=
  r.shunts.map (fun e => (e.pos, Shunt_a e.d (yAt y e.pos) (yAt y (r.nb + e.pos))))
def cShv (r : RNet α) (y : List α) : List (Nat × α) :=
  r.shunts.map (fun e => (r.nb + e.pos, Shunt_v e.d (yAt y e.pos) (yAt y (r.nb + e.pos))))
def cLa1 (r : RNet α) (y : List α) : List (Nat × α) :=
  r.lines.map (fun e => (e.p1, Line_a1 e.d (yAt y e.p1) (yAt y (r.nb + e.p1)) (yAt y e.p2) (yAt y (r.nb + e.p2))))
def cLa2 (r : RNet α) (y : List α) : List (Nat × α) :=
  r.lines.map (fun e => (e.p2, Line_a2 e.d (yAt y e.p1) (yAt y (r.nb + e.p1)) (yAt y e.p2) (yAt y (r.nb + e.p2))))
def cLv1 (r : RNet α) (y : List α) : List (Nat × α) :=
  r.lines.map (fun e => (r.nb + e.p1, Line_v1 e.d (yAt y e.p1) (yAt y (r.nb + e.p1)) (yAt y e.p2) (yAt y (r.nb + e.p2))))
def cLv2 (r : RNet α) (y : List α) : List (Nat × α) :=
  r.lines.map (fun e => (r.nb + e.p2, Line_v2 e.d (yAt y e.p1) (yAt y (r.nb + e.p1)) (yAt y e.p2) (yAt y (r.nb + e.p2))))

/-- every `(address, value)` pair that is added into `dae.g` -/
def contribs (r : RNet α) (y : List α) : List (Nat × α) :=
  cPQa r y ++ cPQv r y ++ cPVa r y ++ cPVv r y ++ cSla r y ++ cSlv r y ++ cSha r y ++ cShv r y ++
  cLa1 r y ++ cLa2 r y ++ cLv1 r y ++ cLv2 r y ++ cPVq r y ++ cSlq r y ++ cSlp r y

/-- `g[i] += x` (an address outside the array is ignored) -/
def addAt : List α → Nat → α → List α
  | [], _, _ => []
  | a :: l, 0, x => (a + x) :: l
  | a :: l, i + 1, x => a :: addAt l i x

/-- `g[i] = 0` -/
def zeroAt : List α → Nat → List α
  | [], _ => []
  | _ :: l, 0 => 0.0 :: l
  | a :: l, i + 1 => a :: zeroAt l i

/-- `np.add.at` of every contribution into the cleared residual array of length `n` -/
def scatter (n : Nat) (cs : List (Nat × α)) : List α :=
  cs.foldl (fun g c => addAt g c.1 c.2) (List.replicate n 0.0)

/-- `System.g_islands`: the two bus equations of every islanded bus are reset to zero -/
def gIslands (nb : Nat) (g : List α) (isl : List Nat) : List α :=
  isl.foldl (fun g p => zeroAt (zeroAt g p) (nb + p)) g

/-- the residual before `g_islands` -/
def gRaw (r : RNet α) (y : List α) : List α := scatter r.size (contribs r y)

/-- `dae.g` after `PFlow.fg_update` for the input data `net` at the unknowns `y` -/
def gOf (net : Net α) (y : List α) : List α :=
  let r := resolve net
  gIslands r.nb (gRaw r y) r.islanded

end
end Andes.PFlow
