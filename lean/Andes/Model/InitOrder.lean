/-!
# Initialisation order and the initialisation test (`TDS.test_init`), executable models

* `valid deps seq`: the generated initialisation sequence (`calls.init_seq`: single variables and groups
  solved together iteratively) lists every initialised variable once, and every variable only after the
  variables its initialiser mentions (or together with them in one iterative group).
* `testInit tol vals`: the verdict of `TDS.test_init` on the residual vector (`none` = NaN).
No Mathlib import.
-/
namespace Andes.InitOrder

/-- variables are numbered; `deps v` are the variables mentioned by the initialiser of `v` -/
def allEarlier (done : List Nat) (group : List Nat) (ds : List Nat) : Bool :=
  ds.all (fun d => done.contains d || group.contains d)

/-- walk the sequence, keeping the variables initialised so far -/
def validFrom (deps : Nat → List Nat) : List Nat → List (List Nat) → Bool
  | _, [] => true
  | done, g :: rest =>
    g.all (fun v => !done.contains v && allEarlier done g (deps v)) && g.Nodup &&
      validFrom deps (g ++ done) rest

def valid (deps : Nat → List Nat) (seq : List (List Nat)) (vars : List Nat) : Bool :=
  validFrom deps [] seq && vars.all (fun v => seq.flatten.contains v) && seq.flatten.all (fun v => vars.contains v)

/-- dependency table as an association list (generated) -/
def depsOf (tbl : List (Nat × List Nat)) (v : Nat) : List Nat :=
  match tbl.find? (fun p => p.1 == v) with
  | some p => p.2
  | none => []

section
variable {α : Type} [LT α] [DecidableLT α] [Sub α] [OfScientific α]

def pabs (a : α) : α := if a < 0.0 then 0.0 - a else a

/-- `np.max(np.abs(fg)) < tol` with NaN making the comparison False: every entry must be a number whose
magnitude is below `tol`.  (NumPy's `max` propagates NaN.) -/
def testInit (tol : α) (fg : List (Option α)) : Bool :=
  fg.all (fun x => match x with
    | some v => decide (pabs v < tol)
    | none => false)

end
end Andes.InitOrder
