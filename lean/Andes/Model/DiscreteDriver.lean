import Andes.Model.Hex
import Andes.Model.Discrete
import Andes.Model.Delay
/-! Line protocol for the discrete-component models (`Float` instance).  One call (memory-less
components) or one whole call sequence (history-dependent components) per line.

```
lim  <cfg7> <call4> <lower> <upper> <zi zl zu> <u>                 -> <lower> <upper> <zi zl zu>
dbrt <enable> <lower> <upper> <zi zl zu> <zur> <zlr> <u>           -> <zi zl zu> <zur> <zlr>
aw   <cfg7> <call4> <lock> <niter> <dev>;..   dev = lower,upper,zi zl zu zl0 zu0,x,e,u
                                               -> <dev'>;..|<i>:<x>,..     dev' = lower,upper,flags5,x,e
awr  <rate5> <cfg7> <call4> <lock> <niter> <dev>;..   dev = lower,upper,flags5,x,e,zlr,zur,rl,ru,cl,cu
                                               -> dev' (same fields)
rate <rate5> <zlr> <zur> <e> <rl> <ru> <cl> <cu>                   -> <zlr> <zur> <e>
lt   <enable cache ev eq z0 z1> <u> <b>                            -> <z0 z1 ev>
iseq <enable cache ev z1> <u> <b>                                  -> <z1 ev>
sw   <opts> <us>                                                   -> err | <flags>,<flags>,..
sel  <isMax> <ins>                                                 -> <out> <flags>
srt  <cfg7> <auto> <nsel> <minSel> <maxSel> <niter|-> <err|-> <minIter> <errTol> <asc> <desc> <dev>;..
        dev = lower,upper,zi zl zu ql qu,u                          -> <nsel> <flags5>;..
put  <xs> <i>:<x>,..                                               -> <xs'> <q'>   (q' = zeroAll xs)
dstep|avgs <delay> <t>,<u>;..    deriv <t>,<u>;..                  -> <v>:<rewind>;..|<t>|<mem>
dtime|avgt <delayHex> <t>,<u>;..                                   -> idem, or ..;bad
smp  <interval> <offset> <t>,<u>;..                                -> <v>:<rewind>;..|<lastV> <lastT>
```
-/
namespace Andes.Discrete
open Andes.Hex Andes.Delay

def bitsOf (s : String) : Option (List Bool) := s.toList.mapM (fun c => boolOf (String.singleton c))
def showBits (l : List Bool) : String := String.join (l.map bit)

def cfgOf (s : String) : Option LimCfg := do
  match ← bitsOf s with
  | [a, b, c, d, e, f, g] => pure ⟨a, b, c, d, e, f, g⟩
  | _ => none
def callOf (s : String) : Option Call := do
  match ← bitsOf s with
  | [a, b, c, d] => pure ⟨a, b, c, d⟩
  | _ => none
def rateCfgOf (s : String) : Option RateCfg := do
  match ← bitsOf s with
  | [a, b, c, d, e] => pure ⟨a, b, c, d, e⟩
  | _ => none

def splitSemi (s : String) : List String := if s == "-" then [] else s.splitOn ";"

def awOf (s : String) : Option (Aw Float × Float) :=
  match s.splitOn "," with
  | [lo, up, fl, x, e, u] => do
    match ← bitsOf fl with
    | [zi, zl, zu, zl0, zu0] =>
      pure ({ lower := ← floatOfHex lo, upper := ← floatOfHex up, zi := zi, zl := zl, zu := zu, zl0 := zl0,
              zu0 := zu0, x := ← floatOfHex x, e := ← floatOfHex e }, ← floatOfHex u)
    | _ => none
  | _ => none

def showAw (a : Aw Float) : String :=
  ",".intercalate [hexOfFloat a.lower, hexOfFloat a.upper, showBits [a.zi, a.zl, a.zu, a.zl0, a.zu0],
    hexOfFloat a.x, hexOfFloat a.e]

def showSets (l : List (Nat × Float)) : String :=
  if l.isEmpty then "-" else ",".intercalate (l.map (fun p => toString p.1 ++ ":" ++ hexOfFloat p.2))

def setsOf (s : String) : Option (List (Nat × Float)) :=
  if s == "-" then some [] else
  (s.splitOn ",").mapM (fun e => match e.splitOn ":" with
    | [i, x] => do pure (← i.toNat?, ← floatOfHex x)
    | _ => none)

def awrOf (s : String) : Option (Awr Float) :=
  match s.splitOn "," with
  | [lo, up, fl, x, e, zlr, zur, rl, ru, cl, cu] => do
    let (a, _) ← awOf (",".intercalate [lo, up, fl, x, e, x])
    pure { aw := a, zlr := ← floatOfHex zlr, zur := ← floatOfHex zur, rl := ← floatOfHex rl,
           ru := ← floatOfHex ru, cl := ← floatOfHex cl, cu := ← floatOfHex cu }
  | _ => none

def showAwr (d : Awr Float) : String :=
  ",".intercalate [showAw d.aw, hexOfFloat d.zlr, hexOfFloat d.zur]

def sdevOf (s : String) : Option (SDev Float × Float) :=
  match s.splitOn "," with
  | [lo, up, fl, u] => do
    match ← bitsOf fl with
    | [zi, zl, zu, ql, qu] =>
      pure ({ lim := { lower := ← floatOfHex lo, upper := ← floatOfHex up, zi := zi, zl := zl, zu := zu },
              ql := ql, qu := qu }, ← floatOfHex u)
    | _ => none
  | _ => none

def showSdev (d : SDev Float) : String := showBits [d.lim.zi, d.lim.zl, d.lim.zu, d.ql, d.qu]

def callsOf (s : String) : Option (List (Float × Float)) :=
  (splitSemi s).mapM (fun e => match e.splitOn "," with
    | [t, u] => do pure (← floatOfHex t, ← floatOfHex u)
    | _ => none)

def optNat (s : String) : Option (Option Nat) := if s == "-" then some none else s.toNat?.map some
def optFloat (s : String) : Option (Option Float) := if s == "-" then some none else (floatOfHex s).map some

/-- run a call sequence, collecting `<v>:<rewind>` per call; stops at the first `bad` -/
def runCalls (f : Dl Float → Float → Float → Dl Float) (s0 : Dl Float) (calls : List (Float × Float)) : String :=
  let r := calls.foldl (fun (acc : Dl Float × List String) c =>
    if acc.1.bad then acc else
    let s := f acc.1 c.1 c.2
    (s, (if s.bad then "bad" else hexOfFloat s.v ++ ":" ++ bit s.rewind) :: acc.2)) (s0, [])
  ";".intercalate r.2.reverse ++ "|" ++ hexOfFloats r.1.t ++ "|" ++ hexOfFloats r.1.mem

/-- C-style float -> int64 conversion of `self._last_t[0] = dae_t` -/
def truncF (x : Float) : Float := if x < 0.0 then x.ceil else x.floor

def orBad (r : Option String) : String := r.getD "bad-args"

def handleDisc (op : String) (args : List String) : String :=
  match op, args with
  | "lim", [cfg, call, lo, up, fl, u] => orBad do
    let c ← cfgOf cfg
    let k ← callOf call
    match ← bitsOf fl with
    | [zi, zl, zu] =>
      let s : Lim Float := { lower := ← floatOfHex lo, upper := ← floatOfHex up, zi := zi, zl := zl, zu := zu }
      let r := limCheckVar c k s (← floatOfHex u)
      pure (" ".intercalate [hexOfFloat r.lower, hexOfFloat r.upper, showBits [r.zi, r.zl, r.zu]])
    | _ => none
  | "dbrt", [en, lo, up, fl, zur, zlr, u] => orBad do
    match ← bitsOf fl with
    | [zi, zl, zu] =>
      let s : Dbrt Float := { lim := { lower := ← floatOfHex lo, upper := ← floatOfHex up, zi := zi, zl := zl, zu := zu },
                              zur := ← floatOfHex zur, zlr := ← floatOfHex zlr }
      let r := dbrtCheckVar (← boolOf en) s (← floatOfHex u)
      pure (" ".intercalate [showBits [r.lim.zi, r.lim.zl, r.lim.zu], hexOfFloat r.zur, hexOfFloat r.zlr])
    | _ => none
  | "aw", [cfg, call, lock, niter, devs] => orBad do
    let c ← cfgOf cfg
    let k ← callOf call
    let ds ← (splitSemi devs).mapM awOf
    let out := awCheckEqAll c k (← lock.toNat?) (← niter.toNat?) ds
    pure (";".intercalate (out.map showAw) ++ "|" ++ showSets (xSet (List.range out.length) out))
  | "awr", [rcfg, cfg, call, lock, niter, devs] => orBad do
    let rc ← rateCfgOf rcfg
    let c ← cfgOf cfg
    let k ← callOf call
    let ds ← (splitSemi devs).mapM awrOf
    let out := awrCheckEqAll rc c k (← lock.toNat?) (← niter.toNat?) ds
    pure (";".intercalate (out.map showAwr))
  | "rate", [rcfg, zlr, zur, e, rl, ru, cl, cu] => orBad do
    let rc ← rateCfgOf rcfg
    let zlr ← floatOfHex zlr
    let zur ← floatOfHex zur
    let e ← floatOfHex e
    let rl ← floatOfHex rl
    let ru ← floatOfHex ru
    let cl ← floatOfHex cl
    let cu ← floatOfHex cu
    let e1 := rateE1 rc zlr e rl cl
    pure (" ".intercalate [hexOfFloat (rateZlr rc zlr e rl cl), hexOfFloat (rateZur rc zur e1 ru cu),
      hexOfFloat (rateE rc zlr zur e rl ru cl cu)])
  | "lt", [fl, u, b] => orBad do
    match ← bitsOf fl with
    | [en, cache, ev, eq, z0, z1] =>
      let u ← floatOfHex u
      let b ← floatOfHex b
      pure (showBits [ltZ0 en cache ev eq z0 u b, ltZ1 en cache ev eq z1 u b, ltEval en cache ev])
    | _ => none
  | "iseq", [fl, u, b] => orBad do
    match ← bitsOf fl with
    | [en, cache, ev, z1] =>
      pure (showBits [eqZ1 en cache ev z1 (← floatOfHex u) (← floatOfHex b), ltEval en cache ev])
    | _ => none
  | "sw", [opts, us] => orBad do
    let opts ← floatsOfHex opts
    let us ← floatsOfHex us
    match swCheck opts us with
    | none => pure "err"
    | some fl => pure (if fl.isEmpty then "-" else ",".intercalate (fl.map showBits))
  | "sel", [isMax, ins] => orBad do
    let ins ← floatsOfHex ins
    let m ← boolOf isMax
    pure (hexOfFloat (selOut m ins) ++ " " ++ showBits (selFlags m ins))
  | "srt", [cfg, auto, nsel, minSel, maxSel, niter, err, minIter, errTol, asc, desc, devs] => orBad do
    let c ← cfgOf cfg
    let auto ← boolOf auto
    let nsel ← nsel.toNat?
    let minSel ← minSel.toNat?
    let maxSel ← maxSel.toNat?
    let niter ← optNat niter
    let err ← optFloat err
    let ds ← (splitSemi devs).mapM sdevOf
    if !c.enable || !iterErrOk niter err (← minIter.toNat?) (← floatOfHex errTol) then
      pure (toString nsel ++ " " ++ ";".intercalate (ds.map (fun d => showSdev d.1)))
    else
      let out := sortedAll c auto nsel minSel maxSel (← natsOfString asc) (← natsOfString desc) ds
      pure (toString (sortedNsel c auto nsel minSel maxSel ds) ++ " " ++ ";".intercalate (out.map showSdev))
  | "put", [xs, sets] => orBad do
    let xs ← floatsOfHex xs
    let sets ← setsOf sets
    pure (hexOfFloats (putAll xs sets) ++ " " ++ hexOfFloats (zeroAll xs sets))
  | "dstep", [delay, calls] => orBad do
    pure (runCalls stepCall (initStep (← delay.toNat?)) (← callsOf calls))
  | "avgs", [delay, calls] => orBad do
    pure (runCalls avgStepCall (initStep (← delay.toNat?)) (← callsOf calls))
  | "deriv", [calls] => orBad do
    pure (runCalls derivCall (initStep 1) (← callsOf calls))
  | "dtime", [delay, calls] => orBad do
    pure (runCalls (timeCall (← floatOfHex delay)) initTime (← callsOf calls))
  | "avgt", [delay, calls] => orBad do
    pure (runCalls (avgTimeCall (← floatOfHex delay)) initTime (← callsOf calls))
  | "smp", [interval, offset, calls] => orBad do
    let iv ← floatOfHex interval
    let off ← floatOfHex offset
    let r := (← callsOf calls).foldl (fun (acc : Smp Float × List String) c =>
      let s := smpCall (fun x => x) iv off acc.1 c.1 c.2
      (s, (hexOfFloat s.v ++ ":" ++ bit s.rewind) :: acc.2)) (smpInit, [])
    pure (";".intercalate r.2.reverse ++ "|" ++ hexOfFloat r.1.lastV ++ " " ++ hexOfFloat r.1.lastT)
  | _, _ => "bad-op"

end Andes.Discrete
