/-!
# Model of the case-data path of ANDES: `System.add`, `ModelData.add`, `NumParam.add`, `to_array`,
`as_dict(vin=True)`, the row level of the xlsx/json writers and readers

Anchors: `andes/system.py` (`System.add`), `andes/models/group.py` (`GroupBase.get_next_idx`),
`andes/core/model/modeldata.py` (`ModelData.add`, `as_dict`), `andes/core/param.py`
(`BaseParam._sanitize`, `NumParam.add`, `NumParam.to_array`), `andes/io/json.py`, `andes/io/xlsx.py`.

The model is the code THAT EXISTS: the `non_zero / non_positive / non_negative` corrections of
`NumParam.add` sit inside `if isinstance(value, float)`, so an `int` input bypasses them; they are
applied one after the other to the *current* value (which may already be the default); `value > 0.0`
is evaluated before the property is looked at, so a `None` default reached inside the block raises.

Scalars are polymorphic (`Scal α`): `Float` runs in the driver, `Int`/`ℚ`/`Dec` carry the theorems.
No Mathlib import here.
-/
namespace Andes.Io

/-- the scalar operations the data path uses: order and the embedding of Python `int`s -/
class Scal (α : Type) extends LT α where
  ofInt : Int → α
  decLt : DecidableRel (α := α) (· < ·)

instance {α} [Scal α] : DecidableRel (α := α) (· < ·) := Scal.decLt

/-- the law the theorems need: `float(int)` is order preserving -/
class ScalLaws (α : Type) [Scal α] : Prop where
  ofInt_lt : ∀ a b : Int, (Scal.ofInt a : α) < Scal.ofInt b ↔ a < b

instance : Scal Float := { ofInt := Float.ofInt, decLt := fun a b => inferInstanceAs (Decidable (a < b)) }
instance : Scal Int := { ofInt := id, decLt := fun a b => inferInstanceAs (Decidable (a < b)) }
instance : ScalLaws Int := ⟨fun _ _ => Iff.rfl⟩

/-- exact decimal `m / 10^e` (what `repr(float)` prints); used for the regenerated table of defaults -/
structure Dec where
  m : Int
  e : Nat
deriving Repr, DecidableEq

instance : LT Dec := ⟨fun a b => a.m * (10 : Int) ^ b.e < b.m * (10 : Int) ^ a.e⟩
instance : Scal Dec := { ofInt := fun z => ⟨z, 0⟩,
                          decLt := fun a b => inferInstanceAs (Decidable (a.m * (10 : Int) ^ b.e < b.m * (10 : Int) ^ a.e)) }
instance : ScalLaws Dec := ⟨fun a b => by show a * (10 : Int) ^ 0 < b * (10 : Int) ^ 0 ↔ a < b; simp⟩

/-- a Python value in a data row / a parameter list -/
inductive Val (α : Type) where
  | none                 -- `None`, key absent, json `null`
  | nan                  -- `float('nan')` (empty spreadsheet cell)
  | pinf | ninf          -- `±inf`
  | int (z : Int)        -- `int` / `bool`
  | flt (x : α)          -- finite `float`
  | str (s : String)     -- `str` (also the literal of a list-valued parameter)
deriving Repr, DecidableEq

inductive Err where
  | mandatory            -- ValueError: mandatory parameter missing
  | typeErr              -- TypeError: `None > 0.0`, `'a' > 0.0`
  | badValue             -- ValueError in `np.array(v, dtype=float)`
deriving Repr, DecidableEq

section
variable {α : Type} [Scal α]

def zero : α := Scal.ofInt 0
def big : α := Scal.ofInt 100000000
def nbig : α := Scal.ofInt (-100000000)

/-- `NumParam(default, non_zero, non_positive, non_negative, mandatory)` -/
structure NumSpec (α : Type) where
  default : Val α
  nonZero : Bool
  nonPos : Bool
  nonNeg : Bool
  mandatory : Bool
deriving Repr

/-- `isinstance(value, float)` -/
def Val.isFloat : Val α → Bool
  | .flt _ | .pinf | .ninf | .nan => true
  | _ => false

/-- `value == 0.0` for a float value -/
def Val.isZero : Val α → Bool
  | .flt x => decide (¬ x < zero ∧ ¬ (zero : α) < x)
  | .int z => z == 0
  | _ => false

/-- `value > 0.0`; `none` when Python raises `TypeError` -/
def Val.isPos : Val α → Option Bool
  | .flt x => some (decide ((zero : α) < x))
  | .int z => some (decide (0 < z))
  | .pinf => some true
  | .ninf => some false
  | .nan => some false
  | _ => Option.none

/-- `value < 0.0` -/
def Val.isNeg : Val α → Option Bool
  | .flt x => some (decide (x < (zero : α)))
  | .int z => some (decide (z < 0))
  | .pinf => some false
  | .ninf => some true
  | .nan => some false
  | _ => Option.none

/-- `if isinstance(value, float) and math.isnan(value): value = None` -/
def nanToNone : Val α → Val α
  | .nan => .none
  | v => v

/-- `if value is None: mandatory -> raise, else default` -/
def fillDefault (default : Val α) (mandatory : Bool) : Val α → Except Err (Val α)
  | .none => if mandatory then .error .mandatory else .ok default
  | v => .ok v

def fixZero (p : NumSpec α) (v : Val α) : Val α :=
  if v.isZero && p.nonZero then p.default else v

def fixPos (p : NumSpec α) (v : Val α) : Except Err (Val α) :=
  match v.isPos with
  | Option.none => .error .typeErr
  | some b => .ok (if b && p.nonPos then p.default else v)

def fixNeg (p : NumSpec α) (v : Val α) : Except Err (Val α) :=
  match v.isNeg with
  | Option.none => .error .typeErr
  | some b => .ok (if b && p.nonNeg then p.default else v)

/-- the three corrections, executed only for a `float` value, each on the current value -/
def corrections (p : NumSpec α) (v : Val α) : Except Err (Val α) :=
  if v.isFloat then do
    let v1 := fixZero p v
    let v2 ← fixPos p v1
    fixNeg p v2
  else .ok v

/-- `NumParam.add` (the value appended to `v`): NaN/None handling, the corrections, and then
`super().add(value)` = `BaseParam._sanitize`, which applies the NaN/None handling a second time (a value
corrected to a `None` default of a mandatory parameter raises there) -/
def numAdd (p : NumSpec α) (v : Val α) : Except Err (Val α) := do
  let v1 ← fillDefault p.default p.mandatory (nanToNone v)
  let v2 ← corrections p v1
  fillDefault p.default p.mandatory (nanToNone v2)

/-- one element of `NumParam.to_array` for `vtype = float`: `np.array(v, dtype=float)`, then `±inf -> ±1e8` -/
def toArr : Val α → Except Err (Val α)
  | .none => .ok .nan
  | .nan => .ok .nan
  | .pinf => .ok (.flt big)
  | .ninf => .ok (.flt nbig)
  | .int z => .ok (.flt (Scal.ofInt z))
  | .flt x => .ok (.flt x)
  | .str _ => .error .badValue

/-- the `vin` entry of a numeric parameter after `add` + `to_array` -/
def sanitize (p : NumSpec α) (v : Val α) : Except Err (Val α) := do
  let w ← numAdd p v
  toArr w

/-- `BaseParam.add` = `_sanitize` (DataParam, IdxParam): no numeric correction, value kept as is -/
def dataAdd (default : Val α) (mandatory : Bool) (v : Val α) : Except Err (Val α) :=
  fillDefault default mandatory (nanToNone v)

/-- device keys.  `auto m k` is the generated `"<m>_<k>"` -/
inductive Key where
  | none
  | int (z : Int)
  | str (s : String)
  | auto (model : String) (k : Nat)
deriving Repr, DecidableEq

/-- the key as a cell value (a `name` left empty is set to the idx) -/
def Key.toVal : Key → Val α
  | .none => .none
  | .int z => .int z
  | .str s => .str s
  | .auto m k => .str (m ++ "_" ++ toString k)

/-- parameter kinds of `ModelData` (exported parameters only; `idx` is kept apart) -/
inductive PSpec (α : Type) where
  | num (s : NumSpec α)                              -- NumParam, vtype float
  | data (default : Val α) (mandatory : Bool)        -- DataParam / IdxParam / NumParam with vtype object|str
  | name                                             -- the `name` DataParam: empty -> idx
deriving Repr

/-- `name is None or (not str and isnan(name))` -> idx -/
def nameFix (idx : Key) : Val α → Val α
  | .none => idx.toVal
  | .nan => idx.toVal
  | v => v

/-- one parameter of one device: `instance.add(value)` followed (numeric) by `to_array` -/
def cellAdd (idx : Key) : PSpec α → Val α → Except Err (Val α)
  | .num s, v => sanitize s v
  | .data d m, v => dataAdd d m v
  | .name, v => dataAdd .none false (nameFix idx v)

/-- `for name, instance in self.params.items(): instance.add(kwargs.pop(name, None))`; the row is
positional (aligned with the parameter list, absent = `none`) -/
def addCells (idx : Key) : List (PSpec α) → List (Val α) → Except Err (List (Val α))
  | [], _ => .ok []
  | p :: ps, vs => do
    let w ← cellAdd idx p (vs.head?.getD .none)
    let ws ← addCells idx ps vs.tail
    .ok (w :: ws)

structure ModelSpec (α : Type) where
  group : String
  params : List (PSpec α)

structure Dev (α : Type) where
  model : String
  idx : Key
  cells : List (Val α)
deriving Repr, DecidableEq

/-- a row of a case file: the model it belongs to, the idx cell, the parameter cells -/
structure Row (α : Type) where
  model : String
  idx : Key
  cells : List (Val α)
deriving Repr, DecidableEq

/-- `while True: idx = model + '_' + str(count + 1); if idx not in used: break; count += 1`.
A candidate that was found in `used` is never looked at again, so it is erased: this is the same
search and terminates structurally. -/
def fresh (model : String) (used : List Key) (count : Nat) : Key :=
  if h : Key.auto model (count + 1) ∈ used then
    fresh model (used.erase (Key.auto model (count + 1))) (count + 1)
  else Key.auto model (count + 1)
termination_by used.length
decreasing_by
  rw [List.length_erase_of_mem h]
  have : 0 < used.length := List.length_pos_of_mem h
  omega

/-- `GroupBase.get_next_idx`: keep a proposed idx that is free, otherwise generate one (`n` = devices in the group) -/
def nextIdx (used : List Key) (model : String) (idx : Key) : Key :=
  if idx ≠ .none ∧ idx ∉ used then idx else fresh model used used.length

variable (specs : String → Option (ModelSpec α))

def grpOf (model : String) : Option String := (specs model).map (·.group)

/-- the idx registered in the group of `model` -/
def usedIn (s : List (Dev α)) (model : String) : List Key :=
  (s.filter (fun d => grpOf specs d.model == grpOf specs model)).map (·.idx)

/-- `System.add(model, row)`; an unknown model is skipped with a warning -/
def sysAdd (s : List (Dev α)) (r : Row α) : Except Err (List (Dev α)) :=
  match specs r.model with
  | Option.none => .ok s
  | some m => do
    let idx := nextIdx (usedIn specs s r.model) r.model r.idx
    let cells ← addCells idx m.params r.cells
    .ok (s ++ [⟨r.model, idx, cells⟩])

/-- the readers: `for row in rows: system.add(name, row)` -/
def loadFrom (s : List (Dev α)) : List (Row α) → Except Err (List (Dev α))
  | [] => .ok s
  | r :: rs => do
    let s' ← sysAdd specs s r
    loadFrom s' rs

def load (t : List (Row α)) : Except Err (List (Dev α)) := loadFrom specs [] t

/-- what a file cell becomes on the way back: json keeps `null`; an empty xlsx cell reads as NaN -/
def fileCell (xlsx : Bool) : Val α → Val α
  | .none => if xlsx then .nan else .none
  | v => v

/-- `as_dict(vin=True)` row of one device, through a file -/
def exportDev (xlsx : Bool) (d : Dev α) : Row α := ⟨d.model, d.idx, d.cells.map (fileCell xlsx)⟩

/-- the writers: one sheet / one json list per model, models in the order of `system.models` -/
def reorder (order : List String) (s : List (Dev α)) : List (Dev α) :=
  order.flatMap (fun m => s.filter (fun d => d.model == m))

def dump (xlsx : Bool) (order : List String) (s : List (Dev α)) : List (Row α) :=
  (reorder order s).map (exportDev xlsx)

def devsOf (m : String) (s : List (Dev α)) : List (Dev α) := s.filter (fun d => d.model == m)

/-- "the default satisfies the parameter's own restrictions" (Bool, for the generated table) -/
def defaultOkB (p : NumSpec α) : Bool :=
  match p.default with
  | .int z => (!p.nonZero || z != 0) && (!p.nonPos || decide (z ≤ 0)) && (!p.nonNeg || decide (0 ≤ z))
  | .flt x => (!p.nonZero || decide (x < zero ∨ (zero : α) < x)) && (!p.nonPos || decide (¬ (zero : α) < x))
                && (!p.nonNeg || decide (¬ x < (zero : α)))
  | .none => !p.nonZero && !p.nonPos && !p.nonNeg
  | .str _ => !p.nonZero && !p.nonPos && !p.nonNeg
  | .nan => !p.nonZero && !p.nonPos && !p.nonNeg
  | _ => false

/-- an `int` input that violates a restriction of its parameter (the inputs `NumParam.add` lets through) -/
def intViolates (p : NumSpec α) : Val α → Bool
  | .int z => (p.nonZero && z == 0) || (p.nonPos && decide (0 < z)) || (p.nonNeg && decide (z < 0))
  | _ => false

end
end Andes.Io
