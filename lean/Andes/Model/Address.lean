/-!
# Address assignment, slot names and external links (C10)

Executable model of
* `DAE.request_address`                 (andes/variables/dae.py)      → `requestAddress`
* `System.set_address` (three phases)   (andes/system.py)             → `phase1`, `phase2`, `phase3`, `setAddress`
* `ExtVar.link_external` (model / group branch), `Model.idx2uid`, `Model.get`, `Group.idx2model`,
  `Group.get`                           (andes/core/var.py, andes/core/model/model.py, andes/models/group.py)
* `System.set_dae_names`, `_set_xy_name`, `_append_model_name`, `DAE.alloc_or_extend_names`
* `System.set_output_subidx`            (andes/system.py)
* `System.setup` / `TDS.init` addressing parts                        → `setupPhase`, `tdsPhase`

No Mathlib.  A device index (`idx`) is an integer or a string.  `uid` of a device is its position in the
model's `idx` list (`Model.add`: `self.uid[idx] = self.n`).
-/
namespace Andes.Address

inductive Idx where
  | num (i : Int)
  | str (s : String)
  deriving DecidableEq, Repr, Inhabited

/-- `np.arange(start, stop, step)` for naturals, `step ≥ 1` -/
def arange (start stop step : Nat) : List Nat :=
  (List.range ((stop - start + step - 1) / step)).map (fun i => start + i * step)

/-- `DAE.request_address`: the list (one entry per variable) of address arrays; the counter moves to
`start + ndev * nvar` (see `countX`) -/
def requestAddress (start ndev nvar : Nat) (collate : Bool) : List (List Nat) :=
  if collate then
    (List.range nvar).map (fun k => arange (start + k) (start + ndev * nvar) nvar)
  else
    (List.range nvar).map (fun k => arange (start + k * ndev) (start + (k + 1) * ndev) 1)

/-- an external variable (`ExtState` / `ExtAlgeb`) -/
structure ExtVar where
  name : String
  isState : Bool                         -- `v_code == 'x'`
  target : String                        -- `model=`: a model name or a group name
  src : String
  hasE : Bool                            -- `e_str is not None`
  allowNone : Bool
  indexer : Option (List (Option Idx))   -- `none`: no indexer (model branch: all devices)
  a : List Nat := []
  r : List Nat := []
  deriving Repr, Inhabited

structure Mdl where
  name : String
  group : String
  pflow : Bool
  tds : Bool
  collate : Bool
  inUse : Bool := true                   -- `Model.in_use` (COI without generators: false)
  idx : List Idx
  states : List String
  algebs : List String
  exts : List ExtVar
  addressed : Bool := false              -- `flags.address`
  xa : List (List Nat) := []             -- `.a` of each state (before addressing: none)
  ya : List (List Nat) := []
  deriving Repr, Inhabited

structure Dae where
  n : Nat := 0
  m : Nat := 0
  p : Nat := 0
  q : Nat := 0
  xName : List String := []
  yName : List String := []
  deriving Repr, Inhabited

structure Sys where
  dae : Dae := {}
  models : List Mdl
  deriving Repr, Inhabited

/-! ### Phase 1 : internal variables -/

/-- the model is in the `models` dict, has no address yet and has devices -/
def needs (sel : Mdl → Bool) (m : Mdl) : Bool := sel m && !m.addressed && m.idx.length != 0

def phase1 (sel : Mdl → Bool) : Nat → Nat → List Mdl → List Mdl
  | _, _, [] => []
  | n, m, md :: rest =>
    if needs sel md then
      { md with xa := requestAddress n md.idx.length md.states.length md.collate,
                ya := requestAddress m md.idx.length md.algebs.length md.collate }
        :: phase1 sel (n + md.idx.length * md.states.length) (m + md.idx.length * md.algebs.length) rest
    else md :: phase1 sel n m rest

/-- `dae.n` after phase 1 -/
def countX (sel : Mdl → Bool) : Nat → List Mdl → Nat
  | n, [] => n
  | n, md :: rest => countX sel (if needs sel md then n + md.idx.length * md.states.length else n) rest

/-- `dae.m` after phase 1 -/
def countY (sel : Mdl → Bool) : Nat → List Mdl → Nat
  | m, [] => m
  | m, md :: rest => countY sel (if needs sel md then m + md.idx.length * md.algebs.length else m) rest

/-! ### idx → uid, model / group look-up, `get` -/

/-- `Model.idx2uid` of one idx: position in the idx list (`none` = `KeyError`) -/
def uidOf : List Idx → Idx → Option Nat
  | [], _ => none
  | j :: rest, i => if j = i then some 0 else (uidOf rest i).map (· + 1)

/-- position of a name in a list of names -/
def posOf : List String → String → Option Nat
  | [], _ => none
  | j :: rest, i => if j = i then some 0 else (posOf rest i).map (· + 1)

/-- `model.__dict__[src].a` for a variable of the given kind: an internal variable, or an external variable of
the model (a link may go through another link), `none`: no such variable -/
def Mdl.varA (m : Mdl) (isState : Bool) (src : String) : Option (List Nat) :=
  match posOf (if isState then m.states else m.algebs) src with
  | some k => some (((if isState then m.xa else m.ya)[k]?).getD [])
  | none => (m.exts.find? (fun e => e.name == src && e.isState == isState)).map (·.a)

/-- `src.a[uid]` (`none` = `KeyError` / `IndexError`) -/
def Mdl.addrOf (m : Mdl) (isState : Bool) (src : String) (i : Idx) : Option Nat :=
  match m.varA isState src, uidOf m.idx i with
  | some a, some u => a[u]?
  | _, _ => none

def findModel (ms : List Mdl) (name : String) : Option Mdl := ms.find? (fun m => m.name == name)

/-- `Group._idx2model[idx]` : the member model that owns the idx -/
def groupOwner (ms : List Mdl) (g : String) (i : Idx) : Option Mdl :=
  ms.find? (fun m => m.group == g && (uidOf m.idx i).isSome)

/-- `Model.get(src, idx, attr='a')` for a list of idx (`None` entries are a `KeyError` on arrays) -/
def modelGetA (m : Mdl) (isState : Bool) (src : String) (idxs : List (Option Idx)) : Option (List Nat) :=
  idxs.mapM (fun oi => match oi with
    | some i => m.addrOf isState src i
    | none => none)

/-- `Group.get(src, idx, attr='a', allow_none, default=0)` -/
def groupGetA (ms : List Mdl) (g : String) (isState : Bool) (src : String) (allowNone : Bool)
    (idxs : List (Option Idx)) : Option (List Nat) :=
  idxs.mapM (fun oi => match oi with
    | some i => (groupOwner ms g i).bind (fun m => m.addrOf isState src i)
    | none => if allowNone then some 0 else none)

/-- `ExtVar.link_external` : the new `a` (`none`: a caught `KeyError`/`IndexError`, `a` stays as it was) -/
def linkA (ms : List Mdl) (e : ExtVar) : Option (List Nat) :=
  match findModel ms e.target with
  | some m =>
    match e.indexer with
    | some idxs => modelGetA m e.isState e.src idxs
    | none => modelGetA m e.isState e.src (m.idx.map some)
  | none =>
    match e.indexer with
    | some idxs => groupGetA ms e.target e.isState e.src e.allowNone idxs
    | none => none

def linkExt (ms : List Mdl) (e : ExtVar) : ExtVar :=
  match linkA ms e with
  | some a => { e with a := a }
  | none => e

/-! ### Borrowed index fields (`ExtParam` through a group, `DataSelect`) -/

/-- what storing a value into `np.zeros(n)` does to an idx: numbers stay, a string goes through `float()`
(a digit string becomes that number, anything else raises `ValueError`) -/
def digitsVal : List Char → Nat → Option Nat
  | [], acc => some acc
  | c :: cs, acc => if '0' ≤ c ∧ c ≤ '9' then digitsVal cs (acc * 10 + (c.toNat - 48)) else none

/-- `float(s)` for the strings the generator produces: an optional sign and decimal digits -/
def parseIntChars : List Char → Option Int
  | [] => none
  | '-' :: rest => if rest.isEmpty then none else (digitsVal rest 0).map (fun n => -(Int.ofNat n))
  | cs => (digitsVal cs 0).map Int.ofNat

def coerceNum : Idx → Option Idx
  | .num k => some (.num k)
  | .str s => (parseIntChars s.toList).map Idx.num

/-- `Group.get(src, idx, 'v')` on an idx-valued parameter (how `ExtParam.link_external` borrows e.g. `syn` of an
exciter): the container is typed by the FIRST value — a string gives a Python list that takes anything, a number
gives a float array into which later strings are coerced (`none` = `ValueError`) -/
def groupGetIdxVals (vals : List Idx) : Option (List Idx) :=
  match vals with
  | [] => some []
  | .str _ :: _ => some vals
  | .num _ :: _ => vals.mapM coerceNum

/-- `DataSelect.v` on index fields: the optional value when given, else the fallback (`np.isnan` is applied to floats
only since the repair of `dataselect-string-idx`; on the pinned tree a string raised `TypeError`).  The result type is
kept an `Option` for the driver's protocol; it is always `some`. -/
def dataSelect (opt fallback : List (Option Idx)) : Option (List (Option Idx)) :=
  some ((opt.zip fallback).map (fun p => match p.1 with
    | none => p.2
    | some v => some v))

/-! ### Phase 2 : external variables;  Phase 3 : RHS addresses of external variables, `flags.address` -/

/-- link external variable number `ei` of model number `mi` against the CURRENT state of all models -/
def linkAt (ms : List Mdl) (mi ei : Nat) : List Mdl :=
  match ms[mi]? with
  | some md =>
    match md.exts[ei]? with
    | some e => ms.set mi { md with exts := md.exts.set ei (linkExt ms e) }
    | none => ms
  | none => ms

def phase2Model (sel : Mdl → Bool) (ms : List Mdl) (mi : Nat) : List Mdl :=
  match ms[mi]? with
  | some md => if sel md then (List.range md.exts.length).foldl (fun acc ei => linkAt acc mi ei) ms else ms
  | none => ms

/-- models in system order, their external variables in declaration order; a link sees the links made before it -/
def phase2 (sel : Mdl → Bool) (ms : List Mdl) : List Mdl :=
  (List.range ms.length).foldl (phase2Model sel) ms

/-- RHS addresses of the external variables of one kind, counter threaded -/
def assignR (isState : Bool) : Nat → List ExtVar → List ExtVar
  | _, [] => []
  | p, e :: rest =>
    if e.isState = isState ∧ e.hasE then
      { e with r := arange p (p + e.a.length) 1 } :: assignR isState (p + e.a.length) rest
    else e :: assignR isState p rest

def countR (isState : Bool) : Nat → List ExtVar → Nat
  | p, [] => p
  | p, e :: rest => countR isState (if e.isState = isState ∧ e.hasE then p + e.a.length else p) rest

def phase3 (sel : Mdl → Bool) : Nat → Nat → List Mdl → List Mdl
  | _, _, [] => []
  | p, q, md :: rest =>
    if needs sel md then
      { md with exts := assignR false q (assignR true p md.exts), addressed := true }
        :: phase3 sel (countR true p md.exts) (countR false q md.exts) rest
    else md :: phase3 sel p q rest

def countP (sel : Mdl → Bool) : Nat → List Mdl → Nat
  | p, [] => p
  | p, md :: rest => countP sel (if needs sel md then countR true p md.exts else p) rest

def countQ (sel : Mdl → Bool) : Nat → List Mdl → Nat
  | q, [] => q
  | q, md :: rest => countQ sel (if needs sel md then countR false q md.exts else q) rest

/-- `DAE.alloc_or_extend_names` for one list (shrinking raises; never happens: counters only grow) -/
def extendNames (names : List String) (size : Nat) : List String :=
  names ++ List.replicate (size - names.length) ""

/-- `System.set_address(models)` ; `sel` is membership in the `models` dict -/
def setAddress (sel : Mdl → Bool) (s : Sys) : Sys :=
  let ms1 := phase1 sel s.dae.n s.dae.m s.models
  let ms2 := phase2 sel ms1
  let ms3 := phase3 sel s.dae.p s.dae.q ms2
  let n := countX sel s.dae.n s.models
  let m := countY sel s.dae.m s.models
  { dae := { n := n, m := m, p := countP sel s.dae.p ms2, q := countQ sel s.dae.q ms2,
             xName := extendNames s.dae.xName n, yName := extendNames s.dae.yName m },
    models := ms3 }

/-! ### Names -/

def hasInfix (p : List Char) : List Char → Bool
  | [] => p.isEmpty
  | c :: cs => p.isPrefixOf (c :: cs) || hasInfix p cs

def idxText : Idx → String
  | .num i => toString i
  | .str s => s

/-- `_append_model_name` -/
def appendModelName (mdl : String) (i : Idx) : String :=
  let out := match i with
    | .str s => if hasInfix mdl.toList s.toList then s else mdl ++ " " ++ s
    | .num k => mdl ++ " " ++ toString k
  String.ofList (out.toList.map (fun c => if c = '_' then ' ' else c))

def slotName (var mdl : String) (i : Idx) : String := var ++ " " ++ appendModelName mdl i

/-- the `(address, name)` pairs `_set_xy_name` writes for one dict of variables (Python `zip`s) -/
def slotsOfVars (mdl : String) (idx : List Idx) (vars : List String) (as : List (List Nat)) : List (Nat × String) :=
  (vars.zip as).flatMap (fun va => (idx.zip va.2).map (fun ia => (ia.2, slotName va.1 mdl ia.1)))

def Mdl.xSlots (m : Mdl) : List (Nat × String) := slotsOfVars m.name m.idx m.states m.xa
def Mdl.ySlots (m : Mdl) : List (Nat × String) := slotsOfVars m.name m.idx m.algebs m.ya

def writeNames (names : List String) (kvs : List (Nat × String)) : List String :=
  kvs.foldl (fun nm kv => nm.set kv.1 kv.2) names

/-- `System.set_dae_names(models)` (x / y names) -/
def setNames (sel : Mdl → Bool) (s : Sys) : Sys :=
  { s with dae := { s.dae with
      xName := writeNames s.dae.xName ((s.models.filter sel).flatMap Mdl.xSlots),
      yName := writeNames s.dae.yName ((s.models.filter sel).flatMap Mdl.ySlots) } }

/-! ### The two addressing phases -/

def hasDev (m : Mdl) : Bool := m.idx.length != 0
/-- `exist.pflow`, `exist.tds`, `exist.pflow_tds` of `System.store_existing` (`find_models`) -/
def selPflow (m : Mdl) : Bool := hasDev m && m.inUse && m.pflow
def selTds (m : Mdl) : Bool := hasDev m && m.inUse && m.tds
def selPflowTds (m : Mdl) : Bool := hasDev m && m.inUse && (m.tds || m.pflow)

/-- addressing part of `System.setup` -/
def setupPhase (s : Sys) : Sys := setNames selPflow (setAddress selPflow s)
/-- addressing part of `TDS.init` -/
def tdsPhase (s : Sys) : Sys := setNames selTds (setAddress selPflowTds s)

/-! ### `System.set_output_subidx` -/

structure OutSpec where
  model : String
  var : Option String
  dev : Option Idx
  deriving Repr, Inhabited

/-- `(is-state, address array)` of every variable in `cache.all_vars` -/
def Mdl.allVars (m : Mdl) : List (String × Bool × List Nat) :=
  (m.states.zip m.xa).map (fun v => (v.1, true, v.2)) ++ (m.algebs.zip m.ya).map (fun v => (v.1, false, v.2)) ++
  m.exts.map (fun e => (e.name, e.isState, e.a))

abbrev VarRow := String × Bool × List Nat

/-- addresses one `Output` row contributes to the x (`k = true`) or y list; `none`: `IndexError` -/
def outRow (sel : Mdl → Bool) (ms : List Mdl) (k : Bool) (o : OutSpec) : Option (List Nat) :=
  match (ms.filter sel).find? (fun m => m.name == o.model) with
  | none => some []
  | some m =>
    let vars : Option (List VarRow) := match o.var with
      | none => some m.allVars
      | some v => match m.allVars.find? (fun (x : VarRow) => x.1 == v) with
        | some x => some [x]
        | none => none
    match vars with
    | none => some []
    | some vs =>
      let vk := vs.filter (fun (x : VarRow) => x.2.1 == k)
      match o.dev with
      | none => some (vk.flatMap (fun (x : VarRow) => x.2.2))
      | some d =>
        match uidOf m.idx d with
        | none => some []
        | some u => vk.mapM (fun (x : VarRow) => x.2.2[u]?)

def sortUnique (l : List Nat) : List Nat := (l.mergeSort (· ≤ ·)).eraseDups

def outputSubidx (sel : Mdl → Bool) (ms : List Mdl) (k : Bool) (os : List OutSpec) : Option (List Nat) :=
  (os.mapM (outRow sel ms k)).map (fun ls => sortUnique ls.flatten)

/-! ### Flat views used by the theorems -/

/-- all state addresses of all models, in model / variable / device order -/
def xAddrs (ms : List Mdl) : List Nat := ms.flatMap (fun m => m.xa.flatten)
def yAddrs (ms : List Mdl) : List Nat := ms.flatMap (fun m => m.ya.flatten)

/-- address of `(model position, variable position, device position)` -/
def xAddr (ms : List Mdl) (mi vi di : Nat) : Option Nat :=
  (ms[mi]?).bind (fun m => (m.xa[vi]?).bind (fun a => a[di]?))
def yAddr (ms : List Mdl) (mi vi di : Nat) : Option Nat :=
  (ms[mi]?).bind (fun m => (m.ya[vi]?).bind (fun a => a[di]?))

end Andes.Address
