import Andes.Model.Hex
import Andes.Model.Assemble
/-! Line protocol of the power-flow assembly model (C01).

`pfg <sb> <y> <isl> <buses> <pqs> <pvs> <slacks> <shunts> <lines>` → `dae.g` as hex floats
`pfu <sb> <y> <isl> <buses> <pqs> <pvs> <slacks> <shunts> <lines>` → system-base `r,x,g,b,g1,b1,g2,b2` of every
   line, then `g,b` of every shunt, then the addresses `a1,v1,a2,v2` of every line (`|`-separated groups)

groups are `;`-separated devices (`-` when empty), a device is a `,`-separated record, an index is
`n<int>` or `s<string>`, floats are 16 hex digits:
 bus `idx,Vn` · pq `bus,u,p0,q0,vmin,vmax,zi,zl,zu` · pv/slack `bus,u,p0,q0,v0,a0,pmin,pmax,qmin,qmax,zqi,zql,zqu,zpi,zpl,zpu`
 · shunt `bus,sn,vn,u,g,b` · line `bus1,bus2,sn,vn1,u,r,x,g,b,g1,b1,g2,b2,tap,phi` -/
namespace Andes.PFlow
open Andes.Hex

def semis (s : String) : List String := if s == "-" then [] else s.splitOn ";"

def idxOfTok (s : String) : Option Idx :=
  match s.toList with
  | 'n' :: r => (String.ofList r).toInt?.map Idx.num
  | 's' :: r => some (Idx.str (String.ofList r))
  | _ => none

def fl (l : List String) : Option (List Float) := l.mapM floatOfHex

def busOf (s : String) : Option (Idx × Float) :=
  match s.splitOn "," with
  | [i, v] => do pure (← idxOfTok i, ← floatOfHex v)
  | _ => none

def pqOf (s : String) : Option (PQDev Float) :=
  match s.splitOn "," with
  | b :: r => do
    let i ← idxOfTok b
    match ← fl r with
    | [u, p0, q0, vmin, vmax, zi, zl, zu] => pure ⟨i, ⟨u, p0, q0, vmin, vmax⟩, ⟨zi, zl, zu⟩⟩
    | _ => none
  | _ => none

def genOf (s : String) : Option (GenDev Float) :=
  match s.splitOn "," with
  | b :: r => do
    let i ← idxOfTok b
    match ← fl r with
    | [u, p0, q0, v0, a0, pmin, pmax, qmin, qmax, a, b, c, d, e, f] =>
      pure ⟨i, ⟨u, p0, q0, v0, a0, pmin, pmax, qmin, qmax⟩, ⟨a, b, c⟩, ⟨d, e, f⟩⟩
    | _ => none
  | _ => none

def shuntOf (s : String) : Option (ShuntDev Float) :=
  match s.splitOn "," with
  | b :: r => do
    let i ← idxOfTok b
    match ← fl r with
    | [sn, vn, u, g, b] => pure ⟨i, sn, vn, ⟨u, g, b⟩⟩
    | _ => none
  | _ => none

def lineOf (s : String) : Option (LineDev Float) :=
  match s.splitOn "," with
  | b1 :: b2 :: r => do
    let i1 ← idxOfTok b1
    let i2 ← idxOfTok b2
    match ← fl r with
    | [sn, vn1, u, r, x, g, b, g1, bb1, g2, bb2, tap, phi] =>
      pure ⟨i1, i2, sn, vn1, ⟨u, r, x, g, b, g1, bb1, g2, bb2, tap, phi⟩⟩
    | _ => none
  | _ => none

def netOf (args : List String) : Option (Net Float × List Float) :=
  match args with
  | [sb, y, isl, bs, pqs, pvs, sls, shs, lns] => do
    let sb ← floatOfHex sb
    let y ← floatsOfHex y
    let isl ← natsOfString isl
    let bs ← (semis bs).mapM busOf
    let pqs ← (semis pqs).mapM pqOf
    let pvs ← (semis pvs).mapM genOf
    let sls ← (semis sls).mapM genOf
    let shs ← (semis shs).mapM shuntOf
    let lns ← (semis lns).mapM lineOf
    pure (⟨sb, bs, pqs, pvs, sls, shs, lns, isl⟩, y)
  | _ => none

def handlePfg (args : List String) : String :=
  match netOf args with
  | some (net, y) => hexOfFloats (gOf net y)
  | none => "bad-args"

def handlePfu (args : List String) : String :=
  match netOf args with
  | some (net, _) =>
    let r := resolve net
    let a := r.lines.map (fun e => hexOfFloats [e.d.r, e.d.x, e.d.g, e.d.b, e.d.g1, e.d.b1, e.d.g2, e.d.b2])
    let b := r.shunts.map (fun e => hexOfFloats [e.d.g, e.d.b])
    let c := r.lines.map (fun e => natsToString [e.p1, r.nb + e.p1, e.p2, r.nb + e.p2])
    "|".intercalate [";".intercalate a, ";".intercalate b, ";".intercalate c]
  | none => "bad-args"

end Andes.PFlow
