/-! Float/line-protocol helpers (no Mathlib). Floats travel as 16 hex digits (IEEE-754 bits). -/
namespace Andes.Hex

def hexDigit (c : Char) : Option Nat :=
  if '0' ≤ c ∧ c ≤ '9' then some (c.toNat - '0'.toNat)
  else if 'a' ≤ c ∧ c ≤ 'f' then some (c.toNat - 'a'.toNat + 10)
  else if 'A' ≤ c ∧ c ≤ 'F' then some (c.toNat - 'A'.toNat + 10)
  else none

def parseHex (s : String) : Option Nat :=
  s.toList.foldl (fun acc c => match acc, hexDigit c with
    | some a, some d => some (a * 16 + d)
    | _, _ => none) (some 0)

def floatOfHex (s : String) : Option Float :=
  if s.length = 16 then (parseHex s).map (fun n => Float.ofBits (UInt64.ofNat n)) else none

def hexChar (n : Nat) : Char :=
  if n < 10 then Char.ofNat ('0'.toNat + n) else Char.ofNat ('a'.toNat + n - 10)

def toHex16 (n : Nat) : String :=
  String.ofList ((List.range 16).reverse.map (fun i => hexChar ((n >>> (4 * i)) % 16)))

def hexOfFloat (x : Float) : String := toHex16 x.toBits.toNat

end Andes.Hex

namespace Andes.Hex

def floatsOfHex (s : String) : Option (List Float) :=
  if s == "-" then some [] else (s.splitOn ",").mapM floatOfHex

def hexOfFloats (l : List Float) : String :=
  if l.isEmpty then "-" else ",".intercalate (l.map hexOfFloat)

def natsToString (l : List Nat) : String :=
  if l.isEmpty then "-" else ",".intercalate (l.map toString)

def natsOfString (s : String) : Option (List Nat) :=
  if s == "-" then some [] else (s.splitOn ",").mapM String.toNat?

def intsOfString (s : String) : Option (List Int) :=
  if s == "-" then some [] else (s.splitOn ",").mapM String.toInt?

def bit (b : Bool) : String := if b then "1" else "0"
def boolOf (s : String) : Option Bool := if s == "1" then some true else if s == "0" then some false else none

end Andes.Hex
