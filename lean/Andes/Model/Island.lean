/-! Executable model of island detection and bus-status propagation in ANDES.

* `System.connectivity` (andes/system.py): the degree test (`diag`), the sparse pattern of `temp`,
  the Goderya closure loop (`cons = cons * temp` until the number of stored entries stops growing),
  the start-bus scan, `island_sets`, `islanded_buses`, `islands`, and the slack classification
  (`nosw_island`, `msw_island`).  Matrices are modelled by the boolean pattern of their stored
  entries: every stored value is a sum of products of the statuses `u ∈ {0,1}`, so `sparse()` drops
  exactly the structural zeros.  Column indices of a 1×n KVXOPT row are ascending, hence every
  pattern is a filter of `List.range n`.
* `System.g_islands` / `System.j_islands` (ipadd branch): residual rows of islanded buses are zeroed,
  the stored `gy` entries (a,a),(v,v) become `diag_eps`, (a,v),(v,a) become zero.
* `ConnMan.init/_update/record/act` (andes/core/connman.py) with `Group.find_idx(allow_all=True)`
  and `Group.set` as they are written.  Since the repairs in /repo: `find_idx(allow_all=True)` returns the matches of
  every model, `act` drops the `None` placeholders of buses without a device in the group, `record` keeps the
  switch-offs that were recorded but not acted upon yet, and `connectivity` does not enter its sweep when every bus
  is islanded (and then lists the singletons only).

Loops carry explicit fuel; running out of fuel is a distinct result (`none` / `Err.fuel`) which
`Andes/Proofs/Island.lean` proves unreachable.  No Mathlib import. -/
namespace Andes.Island

/-- one series device (Line, Jumper, one leg of a Fortescue): bus addresses and status -/
structure Edge where
  fr : Nat
  to : Nat
  u : Bool
deriving Repr, DecidableEq, Inhabited

/-- `diag[j]`: sum of `u` over the devices with `to == j` plus over those with `fr == j` -/
def deg (es : List Edge) (j : Nat) : Nat :=
  (es.filter fun e => e.u && e.to == j).length + (es.filter fun e => e.u && e.fr == j).length

/-- `Bus.islanded_buses` -/
def islanded (n : Nat) (es : List Edge) : List Nat :=
  (List.range n).filter fun j => deg es j == 0

/-- stored pattern of `temp = sparse(spmatrix(u*4, fr+to+fr+to, to+fr+fr+to))` -/
def adj (es : List Edge) (i j : Nat) : Bool :=
  es.any fun e => e.u && ((e.fr == i && e.to == j) || (e.to == i && e.fr == j)
                          || (e.fr == i && e.fr == j) || (e.to == i && e.to == j))

/-- pattern of `temp[s, :]` -/
def row (n : Nat) (es : List Edge) (s : Nat) : List Nat :=
  (List.range n).filter fun j => adj es s j

/-- pattern of `sparse(cons * temp)` for a row pattern `S` -/
def nbrs (n : Nat) (es : List Edge) (S : List Nat) : List Nat :=
  (List.range n).filter fun j => S.any fun i => adj es i j

/-- the inner `while True` loop; `none` = fuel exhausted -/
def closeLoop (n : Nat) (es : List Edge) : Nat → List Nat → Option (List Nat)
  | 0, _ => none
  | f+1, S =>
    let S' := nbrs n es S
    if S'.length == S.length then some S' else closeLoop n es f S'

/-- `cons.J` after the inner loop started from `temp[s, :]` -/
def component (n : Nat) (es : List Edge) (s : Nat) : Option (List Nat) :=
  closeLoop n es (n + 1) (row n es s)

/-- pattern of `conn += cons` -/
def unionPat (n : Nat) (a b : List Nat) : List Nat :=
  (List.range n).filter fun j => a.contains j || b.contains j

/-- the `for i in range(visit_idx, n)` scan: first index neither visited nor islanded;
    `visit_idx` is left unchanged if there is none -/
def scan (n : Nat) (conn isl : List Nat) (visit : Nat) : Nat :=
  match (List.range' visit (n - visit)).find? (fun i => !(conn.contains i || isl.contains i)) with
  | some i => i
  | none => visit

inductive Err where
  | indexError   -- `temp[starting_bus, :]` with `starting_bus == n`
  | keyError     -- `Group.set(idx=[..., None, ...])`
  | notImplemented
  | fuel         -- model artefact, proved unreachable
deriving Repr, DecidableEq, Inhabited

/-- the outer `while True` loop of `System.connectivity` -/
def outer (n : Nat) (es : List Edge) (isl : List Nat) :
    Nat → List Nat → List (List Nat) → Nat → Nat → Except Err (List (List Nat))
  | 0, _, _, _, _ => .error .fuel
  | f+1, conn, sets, start, visit =>
    if isl.contains start then outer n es isl f conn sets (start + 1) visit
    else if n ≤ start then .error .indexError
    else match component n es start with
      | none => .error .fuel
      | some c =>
        let sets' := sets ++ [c]
        let conn' := unionPat n conn c
        if n - isl.length ≤ conn'.length then .ok sets'
        else
          let v := scan n conn' isl visit
          outer n es isl f conn' sets' v v

/-- `Bus.island_sets` -/
def islandSets (n : Nat) (es : List Edge) : Except Err (List (List Nat)) :=
  -- `while len(self.Bus.islanded_buses) < n:` — the islanded buses do not change inside the loop, so the guard is
  -- decided once (on the pinned tree the loop was `while True` and walked past `n`: `all-islanded-indexerror`, repaired)
  if n ≤ (islanded n es).length then .ok [] else outer n es (islanded n es) (2 * n + 2) [] [] 0 0

/-- an enabled/disabled slack generator on bus `bus` (uid) -/
structure Slack where
  u : Bool
  bus : Nat
deriving Repr, DecidableEq, Inhabited

/-- number of enabled slack generators whose bus lies in `island` -/
def slackCount (sl : List Slack) (island : List Nat) : Nat :=
  (sl.filter fun s => s.u && island.contains s.bus).length

/-- the counter `nosw` of the code: starts at 1, minus one per enabled slack in the island -/
def noswCounter (sl : List Slack) (island : List Nat) : Int := 1 - (slackCount sl island : Int)

def noswIslands (sl : List Slack) (sets : List (List Nat)) : List Nat :=
  (List.range sets.length).filter fun i => noswCounter sl (sets.getD i []) == 1

def mswIslands (sl : List Slack) (sets : List (List Nat)) : List Nat :=
  (List.range sets.length).filter fun i => noswCounter sl (sets.getD i []) < 0

/-- `Bus.islands` -/
def islandsOf (n : Nat) (isl : List Nat) (sets : List (List Nat)) : List (List Nat) :=
  isl.map (fun b => [b]) ++ (if sets.isEmpty && isl.isEmpty then [List.range n] else sets)

structure Result where
  islanded : List Nat
  sets : List (List Nat)
  nosw : List Nat
  msw : List Nat
  islands : List (List Nat)
deriving Repr, DecidableEq, Inhabited

/-- `System.connectivity()` -/
def connectivity (n : Nat) (es : List Edge) (sl : List Slack) : Except Err Result :=
  match islandSets n es with
  | .error e => .error e
  | .ok sets =>
    .ok { islanded := islanded n es, sets := sets, nosw := noswIslands sl sets, msw := mswIslands sl sets,
          islands := islandsOf n (islanded n es) sets }

/-! ### neutralising islanded buses -/

section Neutral
variable {α : Type}

/-- `dae.g[islanded_a] = 0; dae.g[n + islanded_a] = 0` -/
def gIslands (zero : α) (n : Nat) (isl : List Nat) (g : List α) : List α :=
  (List.range g.length).map fun i =>
    if isl.contains i || (n ≤ i && isl.contains (i - n)) then zero else g.getD i zero

/-- `spmatrix.ipset(v, rows, cols)`: the stored entries at the listed (row, col) pairs become `v` -/
def ipset (v : α) (pairs : List (Nat × Nat)) (m : List (Nat × Nat × α)) : List (Nat × Nat × α) :=
  m.map fun e => if pairs.contains (e.1, e.2.1) then (e.1, e.2.1, v) else e

/-- `System.j_islands()` (ipadd branch) on the stored triplets of `gy` -/
def jIslands (zero eps : α) (n : Nat) (isl : List Nat) (gy : List (Nat × Nat × α)) : List (Nat × Nat × α) :=
  if isl.isEmpty then gy else
  let a := isl
  let v := isl.map (n + ·)
  ipset zero (v.zip a) (ipset eps (v.zip v) (ipset zero (a.zip v) (ipset eps (a.zip a) gy)))

end Neutral

/-! ### ConnMan -/

/-- a device of a bus-dependent group: its idx, the values of its bus fields, its status -/
structure Dev where
  id : Nat
  buses : List Nat
  u : Bool
deriving Repr, DecidableEq, Inhabited

/-- one entry of `bus_deps`: number of bus fields (`src_list`) and the models of the group, in order -/
structure Grp where
  nsrc : Nat
  models : List (List Dev)
deriving Repr, DecidableEq, Inhabited

/-- `Model.find_idx(keys=src_k, values=[b], allow_none=True, allow_all=True)[0]` without the `[None]` default -/
def modelMatches (m : List Dev) (k b : Nat) : List Nat :=
  (m.filter fun d => d.buses[k]? == some b).map (·.id)

/-- `Group.find_idx(..., allow_all=True)` for one value: the matches of every model of the group, in model order
(on the pinned tree: those of the FIRST model that has any — finding `find-idx-first-model-only`, repaired) -/
def firstMatches (ms : List (List Dev)) (k b : Nat) : List Nat := ms.flatMap fun m => modelMatches m k b

/-- `devices_flat` of `ConnMan.act` for one group: for every bus field and every switched-off bus the matches of
every model; the `None` placeholder `find_idx` returns for a bus without a device of the group is filtered out
(on the pinned tree it reached `Group.set` as soon as two buses were off: finding `bus-off-none-keyerror`, repaired) -/
def devicesFlat (g : Grp) (offs : List Nat) : List Nat :=
  (List.range g.nsrc).flatMap fun k => offs.flatMap fun b => firstMatches g.models k b

/-- `Group.set(src='u', attr='v', idx=ids, value=0)` -/
def setOff (g : Grp) (ids : List Nat) : Grp :=
  { g with models := g.models.map fun m => m.map fun d => if ids.contains d.id then { d with u := false } else d }

/-- one iteration of the `for grp_name, src_list in bus_deps.items()` loop -/
def actGroup (g : Grp) (offs : List Nat) : Grp :=
  let dv := devicesFlat g offs
  if dv.isEmpty then g else setOff g dv

/-- the whole group loop -/
def actGroups (gs : List Grp) (offs : List Nat) : List Grp := gs.map fun g => actGroup g offs

structure CM where
  busIdx : List Nat      -- Bus.idx.v
  busU : List Bool       -- Bus.u.v
  busu0 : List Bool
  on : List Bool         -- changes['on']
  off : List Bool        -- changes['off']
  needed : Bool
  grps : List Grp        -- in the order of `bus_deps`
deriving Repr, DecidableEq, Inhabited

def cmOn (s : CM) : List Bool := List.zipWith (fun u0 u => !u0 && u) s.busu0 s.busU
def cmOff (s : CM) : List Bool := List.zipWith (fun u0 u => u0 && !u) s.busu0 s.busU

/-- `ConnMan._update` -/
def cmUpdate (s : CM) : CM := { s with on := cmOn s, off := cmOff s, busu0 := s.busU }

/-- `ConnMan.record`; the error is raised after the state has been updated.  Buses recorded as switched off by an
earlier call and not acted upon yet (`is_needed`) stay pending as long as they are off (on the pinned tree the new
record overwrote them: finding `record-overwrites-off`, repaired) -/
def cmRecord (s : CM) : CM × Option Err :=
  let s0 := cmUpdate s
  let s1 := if s.needed
    then { s0 with off := List.zipWith (fun p u => p && !u) (List.zipWith (· || ·) s0.off s.off) s.busU }
    else s0
  if s1.on.any id then ({ s1 with needed := true }, some .notImplemented)
  else if s1.off.any id then ({ s1 with needed := true }, none)
  else (s1, none)

/-- `offbus_idx` -/
def offIdx (s : CM) : List Nat :=
  (s.busIdx.zip s.off).filterMap fun p => if p.2 then some p.1 else none

/-- edges seen by `System.connectivity`: group 0 (ACLine) then group 1 (ACShort), bus idx → uid -/
def edgesOf (s : CM) : List Edge :=
  ((s.grps.take 2).flatMap fun g => g.models.flatMap id).map fun d =>
    { fr := s.busIdx.idxOf (d.buses.getD 0 0), to := s.busIdx.idxOf (d.buses.getD 1 0), u := d.u }

/-- `ConnMan.act` (with `TDS.initialized == False`), followed by `System.connectivity` -/
def cmAct (s : CM) : CM × Option Err :=
  if !s.needed then (s, none)
  else if (offIdx s).isEmpty then (s, none)
  else
    let s1 := cmUpdate { s with grps := actGroups s.grps (offIdx s), needed := false }
    match islandSets s1.busIdx.length (edgesOf s1) with
    | .error e => (s1, some e)
    | .ok _ => (s1, none)

/-- `ConnMan.init` as called at the end of `System.setup` -/
def cmInit (s : CM) : CM × Option Err :=
  let ones := s.busU.map fun _ => true
  let s1 := { s with busu0 := ones, on := s.busU.map fun _ => false,
                     off := List.zipWith (fun u0 u => u0 && !u) ones s.busU }
  cmAct (if s1.off.any id then { s1 with needed := true } else s1)

/-- `Bus.set(src='u', attr='v', idx=[...], value=v)` after setup: assignment, then `record` -/
def busSet (s : CM) (uids : List Nat) (v : Bool) : CM × Option Err :=
  cmRecord { s with busU := uids.foldl (fun u i => u.set i v) s.busU }

inductive Op where
  | init
  | set (uids : List Nat) (v : Bool)
  | act
deriving Repr, DecidableEq, Inhabited

def step (s : CM) : Op → CM × Option Err
  | .init => cmInit s
  | .set uids v => busSet s uids v
  | .act => cmAct s

/-- run a script; an exception is caught by the caller and the script continues (as the harness does) -/
def runOps (s : CM) : List Op → CM
  | [] => s
  | op :: rest => runOps (step s op).1 rest

end Andes.Island
