/-!
# Model of the eigenvalue-analysis routine `andes/routines/eig.py`

`EIG.find_zero_states`, `EIG._reduce`, `EIG._reorder`, `EIG.calc_As`, `EIG._store_stats`, the
normalisation part of `EIG.calc_pfactor` and the "most associated state" selection of `EIG.report`,
over exact rationals (core `Rat`).  The linear solver (`self.solver.linsolve`) and LAPACK's `eig` are
*parameters*: `calcAs` takes `solve`, the participation factors take `|W|`, `|N|` as inputs.

The model follows the code THAT EXISTS.  Where the pinned tree is defective the intended behaviour is
modelled next to it (`nNegSpec`, `pfSpec`) and the driver is told by the harness which variant the
current source has (a one-token AST inspection of the comparison / the normalised axis), so that the
two announced one-line `fix:` commits do not invalidate the correspondence.

Matrices are functions `Nat → Nat → Rat` together with explicit dimensions; sums run over
`List.range`.  No Mathlib import here.
-/
namespace Andes.Eig

abbrev Mat := Nat → Nat → Rat
abbrev Vec := Nat → Rat

/-- `Σ_{l<k} f l` -/
def rsum (k : Nat) (f : Nat → Rat) : Rat := ((List.range k).map f).sum

/-- matrix product with inner dimension `k` -/
def mmul (k : Nat) (A B : Mat) : Mat := fun i j => rsum k (fun l => A i l * B l j)

/-! ## `EIG._reduce` -/

/-- `Tfnz = Tf + np.ones_like(Tf) * np.equal(Tf, 0.0)` : a zero time constant is replaced by one -/
def tfnz (t : Rat) : Rat := if t = 0 then 1 else t

/-- `_reduce` after the linear solve: `gyx` is what `linsolve(gy, gx)` left in `self.gyx`
(`m` algebraic variables): `iTf * (fx - fy * gyx)` -/
def reduceWith (m : Nat) (fx fy gyx : Mat) (Tf : Vec) : Mat :=
  fun i j => (1 / tfnz (Tf i)) * (fx i j - mmul m fy gyx i j)

/-! ## `EIG.find_zero_states` -/

/-- `np.where(Tf == 0)[0]` (ascending) -/
def zeroIdx (n : Nat) (Tf : Vec) : List Nat := (List.range n).filter (fun i => decide (Tf i = 0))

/-- `nz_counts = dae.n - len(zstate_idx)` -/
def nzCount (n : Nat) (Tf : Vec) : Nat := n - (zeroIdx n Tf).length

/-! ## `EIG._reorder` (as written) -/

structure Reo where
  bidx : Nat
  rows : List Nat
  cols : List Nat
  /-- `(fr, bk)` pairs in the order they were appended -/
  swaps : List (Nat × Nat)
deriving Repr, DecidableEq

/-- `while bidx in zstate_idx: bidx += 1` (at most `len(zstate_idx)` increments are possible) -/
def skipZ (z : List Nat) : Nat → Nat → Nat
  | 0, b => b
  | fuel + 1, b => if b ∈ z then skipZ z fuel (b + 1) else b

/-- one iteration of `for ii in range(dae.n - self.nz_counts)`; `none` = `IndexError` from
`rows[bidx] = ii` with `bidx ≥ n`.  Note that `bidx` is NOT advanced after it has been used. -/
def reoStep (n : Nat) (z : List Nat) (s : Reo) (ii : Nat) : Option Reo :=
  if ii ∈ z then
    let b := skipZ z (z.length + 1) s.bidx
    if b < n then
      some { bidx := b, rows := s.rows.set b ii, cols := s.cols.set ii b, swaps := s.swaps ++ [(ii, b)] }
    else none
  else some s

/-- the loop of `_reorder`; its range is `range(n - nz_counts)`, i.e. the NUMBER of zero states -/
def reoLoop (n : Nat) (z : List Nat) (nz : Nat) : Option Reo :=
  (List.range (n - nz)).foldlM (reoStep n z)
    { bidx := nz, rows := List.range n, cols := List.range n, swaps := [] }

/-- `max(I) + 1` : the size kvxopt gives an `spmatrix(V, I, J)` built without an explicit size -/
def maxp1 (l : List Nat) : Nat := l.foldl Nat.max 0 + 1

/-- `spmatrix(ones, rows, cols)` : duplicates are summed -/
def permOf (rows cols : List Nat) : Mat :=
  fun i j => (((rows.zip cols).countP (fun p => p.1 = i ∧ p.2 = j) : Nat) : Rat)

/-- `x_name` after the swap loop and the truncation to `nz_counts` (names are state indices) -/
def reoNames (n nz : Nat) (swaps : List (Nat × Nat)) : List Nat :=
  (swaps.foldl (fun nm p => nm.set p.1 (nm.getD p.2 0)) (List.range n)).take nz

/-- `np.delete(Tf, zstate_idx)` -/
def nonzeroTf (n : Nat) (Tf : Vec) : List Rat :=
  ((List.range n).filter (fun i => !decide (Tf i = 0))).map Tf

/-! ## `EIG.calc_As` -/

inductive Err
  /-- the first linear solve reports a singular `gy` (outside the property's domain) -/
  | singular1
  /-- `IndexError` in `_reorder` (`rows[bidx]` with `bidx = n`) -/
  | index
  /-- `TypeError: incompatible dimensions` in `perm * sparse(As) * perm` (`perm` is not `n × n`) -/
  | dims
  /-- the second linear solve meets a singular block; the real result is solver garbage -/
  | singular2
deriving Repr, DecidableEq

structure Res where
  /-- size of the returned state matrix -/
  dim : Nat
  As : Mat
  /-- `EIG.x_name` as indices of the original states -/
  names : List Nat
  /-- `EIG.Asc` (only set when there are zero time constants) -/
  asc : Option Mat

/-- the four blocks cut out of `As_perm` and the shortened time constants -/
def blkXX (Ap : Mat) : Mat := fun i j => Ap i j
def blkXY (nz : Nat) (Ap : Mat) : Mat := fun i j => Ap i (j + nz)
def blkYX (nz : Nat) (Ap : Mat) : Mat := fun i j => Ap (i + nz) j
def blkYY (nz : Nat) (Ap : Mat) : Mat := fun i j => Ap (i + nz) (j + nz)

/-- `EIG.calc_As` with `solve m k A B = some X` standing for `linsolve` (`A` is `m × m`, `B` is `m × k`) -/
def calcAs (solve : Nat → Nat → Mat → Mat → Option Mat) (n m : Nat) (fx fy gx gy : Mat) (Tf : Vec) :
    Except Err Res :=
  match solve m n gy gx with
  | none => .error .singular1
  | some gyx =>
    let As1 := reduceWith m fx fy gyx Tf
    let z := zeroIdx n Tf
    if z.isEmpty then .ok { dim := n, As := As1, names := List.range n, asc := none }
    else
      let nz := n - z.length
      match reoLoop n z nz with
      | none => .error .index
      | some r =>
        if maxp1 r.rows ≠ n ∨ maxp1 r.cols ≠ n then .error .dims
        else
          let perm := permOf r.rows r.cols
          let Ap := mmul n (mmul n perm As1) perm
          let nTf : Vec := fun i => (nonzeroTf n Tf).getD i 0
          match solve (n - nz) nz (blkYY nz Ap) (blkYX nz Ap) with
          | none => .error .singular2
          | some gyx2 =>
            .ok { dim := nz, As := reduceWith (n - nz) (blkXX Ap) (blkXY nz Ap) gyx2 nTf,
                  names := reoNames n nz r.swaps, asc := some As1 }

/-! ## `EIG._store_stats` -/

def rabs (r : Rat) : Rat := if r < 0 then -r else r

/-- `np.count_nonzero(mu_real > tol)` -/
def nPos (tol : Rat) (l : List Rat) : Nat := l.countP (fun r => decide (tol < r))
/-- `np.count_nonzero(abs(mu_real) <= tol)` -/
def nZero (tol : Rat) (l : List Rat) : Nat := l.countP (fun r => decide (rabs r ≤ tol))
/-- as written on the pinned tree: `np.count_nonzero(mu_real < tol)` -/
def nNegCode (tol : Rat) (l : List Rat) : Nat := l.countP (fun r => decide (r < tol))
/-- what the property needs: `mu_real < -tol` -/
def nNegSpec (tol : Rat) (l : List Rat) : Nat := l.countP (fun r => decide (r < -tol))

/-! ## `EIG.calc_pfactor` (after `W`, `N` are known) and the selection in `EIG.report` -/

/-- `np.abs(W) * np.abs(N)` : entry `[state i, mode k]` -/
def pf0 (aW aN : Mat) : Mat := fun i k => aW i k * aN i k
/-- `W_abs = ones @ pfactor` : for every mode `k` the sum over the states -/
def wabs (n : Nat) (aW aN : Mat) : Vec := fun k => rsum n (fun i => pf0 aW aN i k)
/-- as written: after `pfactor = pfactor.T` (rows = modes), COLUMN `item` is divided by `W_abs[item]`,
i.e. entry `[mode k, state i]` is divided by the sum that belongs to mode `i` -/
def pfCode (n : Nat) (aW aN : Mat) : Mat := fun k i => pf0 aW aN i k / wabs n aW aN i
/-- what the property needs: row `k` divided by the sum of mode `k` -/
def pfSpec (n : Nat) (aW aN : Mat) : Mat := fun k i => pf0 aW aN i k / wabs n aW aN k

def argmaxAux : List Rat → Nat → Nat → Rat → Nat
  | [], _, bi, _ => bi
  | x :: xs, i, bi, bv => if bv < x then argmaxAux xs (i + 1) i x else argmaxAux xs (i + 1) bi bv

/-- `list(temp_row).index(max(temp_row))` : first position of the maximum -/
def argmaxFirst : List Rat → Nat
  | [] => 0
  | x :: xs => argmaxAux xs 1 0 x

/-- row `k` of an `n`-column matrix as a list -/
def rowList (n : Nat) (P : Mat) (k : Nat) : List Rat := (List.range n).map (P k)

/-! ## An executable instance of the `solve` parameter (Gauss–Jordan over `Rat`)

Not verified: the driver checks the contract `A * X = B` exactly for every case it runs, which is the
hypothesis under which the theorems speak about `calcAs`. -/

def augRows (m k : Nat) (A B : Mat) : List (List Rat) :=
  (List.range m).map (fun i => (List.range m).map (A i) ++ (List.range k).map (B i))

def elimCol (rows : List (List Rat)) (c : Nat) : Option (List (List Rat)) :=
  match (List.range rows.length).find? (fun r => decide (c ≤ r) && !decide ((rows.getD r []).getD c 0 = 0)) with
  | none => none
  | some p =>
    let prow := rows.getD p []
    let crow := rows.getD c []
    let rows1 := (rows.set p crow).set c prow
    let piv := prow.getD c 0
    let nrow := prow.map (fun a => a / piv)
    some (rows1.mapIdx (fun r row =>
      if r = c then nrow else List.zipWith (fun a b => a - row.getD c 0 * b) row nrow))

def gaussSolve (m k : Nat) (A B : Mat) : Option Mat :=
  ((List.range m).foldlM elimCol (augRows m k A B)).map
    (fun rows => fun i j => (rows.getD i []).getD (m + j) 0)

/-- exact check of the solver contract on an `m × k` result -/
def contractOk (m k : Nat) (A X B : Mat) : Bool :=
  (List.range m).all (fun i => (List.range k).all (fun j => decide (mmul m A X i j = B i j)))

/-! ## `EIG.sweep` : which time constant the analysis of every round uses

`sweep` writes the new value into `param.v` and calls `TDS.init()`; `TDS.init` returns at once when the
routine is already initialised, and `System._store_tf` (the only writer of `dae.Tf`) is only reached
from `System.init`. -/
structure SwSt where
  initialized : Bool
  tfStored : Rat
deriving Repr, DecidableEq

def tdsInit (s : SwSt) (param : Rat) : SwSt :=
  if s.initialized then s else { initialized := true, tfStored := param }

/-- `dae.Tf` (at the address of the swept time constant) seen by `calc_As` in every round -/
def sweepTf : SwSt → List Rat → List Rat
  | _, [] => []
  | s, v :: vs => (tdsInit s v).tfStored :: sweepTf (tdsInit s v) vs

/-! ## decidable projections of a `calcAs` outcome (for concrete witnesses) -/
def okDim : Except Err Res → Option Nat | .ok r => some r.dim | .error _ => none
def okEntry : Except Err Res → Nat → Nat → Option Rat | .ok r, i, j => some (r.As i j) | .error _, _, _ => none
def okNames : Except Err Res → Option (List Nat) | .ok r => some r.names | .error _ => none
def errOf : Except Err Res → Option Err | .ok _ => none | .error e => some e

/-- a second, trivially correct instance of the `solve` parameter: one algebraic variable only -/
def solve1 (m _k : Nat) (A B : Mat) : Option Mat :=
  if m = 1 ∧ A 0 0 ≠ 0 then some (fun _ j => B 0 j / A 0 0) else none

end Andes.Eig
