import Andes.Model.Hex
import Andes.Model.PerUnit
/-! Line protocol for the per-unit / alteration model (`Float` instance).

`pu <flags> <Sb> <ext> <params> <ops>`
* `<flags>`: six `0/1` characters: hasBus hasBus1 hasNode hasNode1 inPflow inTds
* `<ext>`: `vbBus;vbBus1;vdcbNode;vdcbNode1`, each a comma list of hex floats (one per device)
* `<params>`: `;`-separated `kinds:role:tc:v` with `kinds` a `.`-separated list of kind numbers (`-` if none),
  `role` a number, `tc` `0/1`, `v` the raw value list
* `<ops>`: `;`-separated: `S` | `A:p:uid:x:attr:g` | `M:p:uid:attr:x` | `G:p:uid:attr:x` | `R:force` | `P` | `T` | `X` | `J`
  (`attr` is `v` or `i` for vin)

Output: `|`-separated observation after every op: `<status> <param>;<param>;... <written>` with
`<param>` = `v/vin/pu/tf/teye` (`-` where the real code has no such data) and `<written>` the exported
columns (`;`-separated) or `-`.

`coef <Sn> <Sb> <Vn> <Vb> <Vdcn> <Vdcb> <Idcn>` prints the ten coefficients. -/
namespace Andes.PerUnit
open Andes.Hex

def kindOfNat : Nat → Option Kind
  | 0 => some .voltage | 1 => some .power | 2 => some .ipower | 3 => some .current | 4 => some .z
  | 5 => some .y | 6 => some .dc_voltage | 7 => some .dc_current | 8 => some .r | 9 => some .g
  | _ => none

def roleOfNat : Nat → Option Role
  | 0 => some .none | 1 => some .sn | 2 => some .vn | 3 => some .vn1 | 4 => some .vdcn
  | 5 => some .vdcn1 | 6 => some .idcn | _ => none

def attrOf (s : String) : Option Attr :=
  if s == "v" then some .v else if s == "i" then some .vin else none

def paramOf (s : String) : Option (Param Float) :=
  match s.splitOn ":" with
  | [ks, r, tc, v] => do
    let ks ← if ks == "-" then some [] else (ks.splitOn ".").mapM (fun k => k.toNat? >>= kindOfNat)
    let r ← r.toNat? >>= roleOfNat
    let tc ← boolOf tc
    let v ← floatsOfHex v
    pure { kinds := ks, role := r, tc := tc,
           cells := v.map (fun x => { v := x, vin := 0.0, pu := 0.0, tf := 0.0, teye := 0.0 }) }
  | _ => none

def opOf (s : String) : Option (Op Float) :=
  match s.splitOn ":" with
  | ["S"] => some .setup
  | ["P"] => some .pflow
  | ["T"] => some .tdsInit
  | ["X"] => some .dumpXlsx
  | ["J"] => some .dumpJson
  | ["R", f] => (boolOf f).map .reset
  | ["A", p, u, x, a, g] => do
    pure (.alter (← p.toNat?) (← u.toNat?) (← floatOfHex x) (← attrOf a) (← boolOf g))
  | ["M", p, u, a, x] => do pure (.set (← p.toNat?) (← u.toNat?) (← attrOf a) (← floatOfHex x))
  | ["G", p, u, a, x] => do pure (.gset (← p.toNat?) (← u.toNat?) (← attrOf a) (← floatOfHex x))
  | _ => none

def extOf (s : String) : Option (List (Ext Float)) :=
  match s.splitOn ";" with
  | [a, b, c, d] => do
    let a ← floatsOfHex a
    let b ← floatsOfHex b
    let c ← floatsOfHex c
    let d ← floatsOfHex d
    pure ((a.zip (b.zip (c.zip d))).map (fun x => ⟨x.1, x.2.1, x.2.2.1, x.2.2.2⟩))
  | _ => none

def showStatus : Status → String
  | .ok => "ok" | .typeError => "TypeError" | .refused => "refused"

def showParam (m : Mdl Float) (p : Param Float) : String :=
  let col (f : Cell Float → Float) := hexOfFloats (p.cells.map f)
  let tfOn := m.addressed && p.tc
  "/".intercalate [col (·.v), if m.isSetup then col (·.vin) else "-", if m.isSetup then col (·.pu) else "-",
    if tfOn then col (·.tf) else "-", if tfOn then col (·.teye) else "-"]

def showWritten : Option (List (List Float)) → String
  | none => "-"
  | some cols => ";".intercalate (cols.map hexOfFloats)

def observe (st : Status) (m : Mdl Float) (w : Option (List (List Float))) : String :=
  " ".intercalate [showStatus st, ";".intercalate (m.params.map (showParam m)), showWritten w]

def runObs : Mdl Float → List (Op Float) → List String → List String
  | _, [], acc => acc.reverse
  | m, op :: ops, acc =>
    let st := status m op
    let w := if st == .ok then written m op else none
    let m' := next m op
    runObs m' ops (observe st m' w :: acc)

def handlePu (args : List String) : String :=
  match args with
  | [flags, sb, ext, params, ops] =>
    let r : Option String := do
      let fl ← flags.toList.mapM (fun c => boolOf (String.singleton c))
      let sb ← floatOfHex sb
      let ext ← extOf ext
      let ps ← (params.splitOn ";").mapM paramOf
      let ops ← if ops == "-" then some [] else (ops.splitOn ";").mapM opOf
      match fl with
      | [hb, hb1, hn, hn1, ip, it] =>
        let m : Mdl Float := { hasBus := hb, hasBus1 := hb1, hasNode := hn, hasNode1 := hn1, inPflow := ip,
                               inTds := it, Sb := sb, ext := ext, params := ps, isSetup := false,
                               tdsInit := false, addressed := false, cache := none }
        pure ("|".intercalate (runObs m ops []))
      | _ => none
    r.getD "bad-input"
  | _ => "bad-input"

def handleCoef (args : List String) : String :=
  match args.mapM floatOfHex with
  | some [sn, sb, vn, vb, vdcn, vdcb, idcn] =>
    let b : Bases Float := ⟨sn, sb, vn, vb, vdcn, vdcb, idcn⟩
    hexOfFloats (Kind.all.map (coeff b))
  | _ => "bad-input"

end Andes.PerUnit
