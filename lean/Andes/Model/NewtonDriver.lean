import Andes.Model.Hex
import Andes.Model.Newton
/-! Line protocol for the Newton / exit-code models.
`nr <tol> <maxIter> <m,m,...>`            mismatch `nan` or 16 hex digits
`stp <tol> <maxIter> <chatterIter> <q0> <chat0> <d,d,...>`
`cli <found><parsed><setup><elements><pflow> <r:a:b,...>`  r = t|e -/
namespace Andes.Newton
open Andes.Hex

def optFloat (s : String) : Option (Option Float) :=
  if s == "nan" then some none else (floatOfHex s).map some

def optsOf (s : String) : Option (List (Option Float)) :=
  if s == "-" then some [] else (s.splitOn ",").mapM optFloat

def showOpt (o : Option Float) : String := match o with | some x => hexOfFloat x | none => "nan"

def handleNr (args : List String) : String :=
  match args with
  | [tol, mi, ms] =>
    let r : Option String := do
      let tol ← floatOfHex tol
      let mi ← mi.toNat?
      let ms ← optsOf ms
      match nrSolve tol mi ms with
      | some (c, n, rec) => pure (s!"{bit c} {n} " ++ ",".intercalate (rec.map showOpt))
      | none => pure "running"
    r.getD "bad-op"
  | _ => "bad-op"

def handleStp (args : List String) : String :=
  match args with
  | [tol, mi, ci, q0, chat0, ds] =>
    let r : Option String := do
      let tol ← floatOfHex tol
      let mi ← mi.toNat?
      let ci ← ci.toNat?
      let q0 ← floatOfHex q0
      let chat0 ← boolOf chat0
      let ds ← optsOf ds
      match step ⟨tol, mi, ci⟩ q0 chat0 ds with
      | some o => pure s!"{bit o.converged} {o.niter} {bit o.busted} {bit o.chatter} {o.solves}"
      | none => pure "running"
    r.getD "bad-op"
  | _ => "bad-op"

def routineOf (s : String) : Option (Routine × Bool × Bool) :=
  match s.splitOn ":" with
  | [r, a, b] => do
    let a ← boolOf a
    let b ← boolOf b
    if r == "t" then pure (Routine.tds, a, b) else if r == "e" then pure (Routine.eig, a, b) else none
  | _ => none

def handleCli (args : List String) : String :=
  match args with
  | [flags, rs] =>
    let r : Option String := do
      let fl ← flags.toList.mapM (fun c => boolOf (String.singleton c))
      let rs ← if rs == "-" then some [] else (rs.splitOn ",").mapM routineOf
      match fl with
      | [a, b, c, d, e] => pure (toString (cliExit ⟨a, b, c, d, e, rs⟩))
      | _ => none
    r.getD "bad-op"
  | _ => "bad-op"

end Andes.Newton
