/-! Model of the sparse-solver wrapper of `andes/linsolvers` and of the refresh discipline of the
routines that use it.  No Mathlib import.

* `andes/linsolvers/solverbase.py`  `Solver.solve / linsolve / clear` dispatch to one worker.
* `andes/linsolvers/suitesparse.py` `SuiteSparseSolver.solve` (cached symbolic factor `F`, flag `factorize`,
  re-symbolic on `ValueError`, NaN vector on `ArithmeticError`), `UMFPACKSolver/KLUSolver.linsolve` (NaN vector on
  `ArithmeticError`), `clear`.
* `andes/linsolvers/scipy.py`       `SpSolve.solve` (flags `factorize` / `new_A`, cached `self.lu`),
  `SpSolve.linsolve`, `SciPySolver.clear` (a no-op).
* `andes/routines/pflow.py:123-138` (`nr_step` sets `worker.new_A`), `andes/routines/daeint.py:62-115`
  (`step` sets `worker.factorize`).

The linear-algebra library is abstract (`Sys`): a matrix has a sparsity pattern, is regular or not, and
`sol A b` is what the LU factors of `A` give for the right-hand side `b`.  What the C libraries do when
they are handed a symbolic object that belongs to a different pattern is part of `Sys`/`numeric`:
UMFPACK rejects it with `ValueError` when it notices (`detects`), KLU never checks.  A call that violates
the library contract (symbolic object of another pattern, not rejected) has outcome `ub`
(observed on the real code: segmentation fault or a silently wrong vector). -/
namespace Andes.SolverCache

inductive Lib | klu | umfpack | spsolve
deriving DecidableEq, Repr

/-- the abstract linear-algebra back end -/
structure Sys (M V P : Type) where
  pat : M → P
  reg : M → Bool
  sol : M → V → V
  nan : V → V
  /-- `umfpack.numeric(A, F)` raises `ValueError` when `F` was computed for pattern `p ≠ pat A` -/
  detects : P → P → Bool

inductive Out (V : Type)
  | vec (x : V)     -- a vector was returned
  | raised          -- an exception left the wrapper
  | ub              -- a C library was called outside its contract (crash / garbage)
  | unit            -- the operation returns nothing
deriving DecidableEq, Repr

/-- calls into the C libraries, in order (this is what the harness observes by wrapping the modules) -/
inductive Call
  | sym       -- klu/umfpack.symbolic
  | num       -- numeric, returned
  | numV      -- numeric raised ValueError (symbolic object rejected)
  | numA      -- numeric raised ArithmeticError (singular)
  | numU      -- numeric called with a symbolic object of another pattern and NOT rejected
  | numT      -- numeric called with F = None (TypeError)
  | slv       -- klu/umfpack.solve
  | lin       -- klu/umfpack.linsolve, returned
  | linA      -- klu/umfpack.linsolve raised ArithmeticError
  | splu      -- scipy splu, returned
  | spluE     -- scipy splu raised (singular)
  | lusolve   -- SuperLU.solve on the cached object
  | nolu      -- self.lu does not exist (AttributeError)
  | spsolve   -- scipy spsolve
deriving DecidableEq, Repr

inductive Op (M V : Type)
  | solve (A : M) (b : V)
  | linsolve (A : M) (b : V)
  | clear
  | setFactorize        -- `solver.worker.factorize = True`  (daeint.step)
  | setNewA             -- `solver.worker.new_A = True`      (pflow.nr_step)

/-- worker state. `F` = pattern for which the cached symbolic factor was computed (SuiteSparse);
`lu` = the matrix whose numeric LU is cached (SciPy). `dead` = a contract-violating call happened. -/
structure St (M P : Type) where
  F : Option P
  factorize : Bool
  newA : Bool
  lu : Option M
  dead : Bool

def init (M P : Type) : Lib → St M P
  | .spsolve => ⟨none, true, true, none, false⟩
  | _ => ⟨none, true, false, none, false⟩

inductive NumResp | ok | valueError | arith | ub | typeError
deriving DecidableEq, Repr

section
variable {M V P : Type} [DecidableEq P] (S : Sys M V P)

/-- response of `klu.numeric(A, F)` / `umfpack.numeric(A, F)` -/
def numeric (lib : Lib) (F : Option P) (A : M) : NumResp :=
  match F with
  | none => .typeError
  | some p =>
    if p = S.pat A then (if S.reg A then .ok else .arith)
    else if lib = .umfpack ∧ S.detects p (S.pat A) = true then .valueError
    else .ub

/-- the symbolic factor used by the first `_numeric` call of `SuiteSparseSolver.solve` -/
def ssF0 (s : St M P) (A : M) : Option P := if s.factorize then some (S.pat A) else s.F

/-- `SuiteSparseSolver.solve(A, b)`: returned value -/
def ssSolveOut (lib : Lib) (s : St M P) (A : M) (b : V) : Out V :=
  match numeric S lib (ssF0 S s A) A with
  | .ok => .vec (S.sol A b)
  | .arith => .vec (S.nan b)
  | .valueError =>
    -- `self.F = self._symbolic(self.A); return self.solve(self.A, self.b)`: the value of the recursive call
    -- (the solution, or the NaN vector of a singular matrix) is returned.  (On the pinned tree it was dropped
    -- and `b` came back unchanged for a singular matrix: finding repaired.)
    if S.reg A then .vec (S.sol A b) else .vec (S.nan b)
  | .ub => .ub
  | .typeError => .raised

def ssSolveTrace (lib : Lib) (s : St M P) (A : M) : List Call :=
  (if s.factorize then [Call.sym] else []) ++
  match numeric S lib (ssF0 S s A) A with
  | .ok => [.num, .slv]
  | .arith => [.numA]
  | .valueError => if S.reg A then [.numV, .sym, .num, .slv] else [.numV, .sym, .numA]
  | .ub => [.numU]
  | .typeError => [.numT]

def ssSolveF (lib : Lib) (s : St M P) (A : M) : Option P :=
  match numeric S lib (ssF0 S s A) A with
  | .valueError => some (S.pat A)
  | _ => ssF0 S s A

def ssSolveDead (lib : Lib) (s : St M P) (A : M) : Bool :=
  match numeric S lib (ssF0 S s A) A with
  | .ub => true
  | _ => s.dead

def ssSolveSt (lib : Lib) (s : St M P) (A : M) : St M P :=
  { s with F := ssSolveF S lib s A, factorize := false, dead := ssSolveDead S lib s A }

/-- `UMFPACKSolver.linsolve` / `KLUSolver.linsolve`: on `ArithmeticError` the NaN vector is returned, as `solve`
and the SciPy worker do (on the pinned tree the error was swallowed and `b` returned: finding repaired) -/
def ssLinOut (A : M) (b : V) : Out V := if S.reg A then .vec (S.sol A b) else .vec (S.nan b)
def ssLinTrace (A : M) : List Call := if S.reg A then [.lin] else [.linA]

/-- `SpSolve.solve`: does this call factorise? -/
def spRefresh (s : St M P) : Bool := s.factorize || s.newA

def spSolveOut (s : St M P) (A : M) (b : V) : Out V :=
  if spRefresh s then (if S.reg A then .vec (S.sol A b) else .raised)
  else match s.lu with
    | some L => .vec (S.sol L b)
    | none => .raised

def spSolveTrace (s : St M P) (A : M) : List Call :=
  if spRefresh s then (if S.reg A then [.splu, .lusolve] else [.spluE])
  else match s.lu with
    | some _ => [.lusolve]
    | none => [.nolu]

def spSolveSt (s : St M P) (A : M) : St M P :=
  if spRefresh s && S.reg A then { s with lu := some A, factorize := false, newA := false } else s

/-- `SpSolve.linsolve` = `scipy.sparse.linalg.spsolve` (NaN vector and a warning when singular; for some
singular matrices SuperLU raises `RuntimeError` instead — the harness maps both to one outcome `fail`) -/
def spLinOut (A : M) (b : V) : Out V := if S.reg A then .vec (S.sol A b) else .vec (S.nan b)

def stepOut (lib : Lib) (s : St M P) : Op M V → Out V
  | .solve A b => if s.dead then .ub else
      match lib with
      | .spsolve => spSolveOut S s A b
      | l => ssSolveOut S l s A b
  | .linsolve A b => if s.dead then .ub else
      match lib with
      | .spsolve => spLinOut S A b
      | _ => ssLinOut S A b
  | _ => .unit

def stepTrace (lib : Lib) (s : St M P) : Op M V → List Call
  | .solve A _ => if s.dead then [] else
      match lib with
      | .spsolve => spSolveTrace S s A
      | l => ssSolveTrace S l s A
  | .linsolve A _ => if s.dead then [] else
      match lib with
      | .spsolve => [.spsolve]
      | _ => ssLinTrace S A
  | _ => []

def stepSt (lib : Lib) (s : St M P) : Op M V → St M P
  | .solve A _ => if s.dead then s else
      match lib with
      | .spsolve => spSolveSt S s A
      | l => ssSolveSt S l s A
  | .linsolve _ _ => s
  | .clear =>
      match lib with
      | .spsolve => s                                   -- `SciPySolver.clear` is `pass`
      | _ => { s with F := none, factorize := true }    -- `new_A` is not reset
  | .setFactorize => { s with factorize := true }
  | .setNewA => { s with newA := true }

/-- state after a history -/
def runSt (lib : Lib) (s : St M P) : List (Op M V) → St M P
  | [] => s
  | op :: ops => runSt lib (stepSt S lib s op) ops

/-- outputs of a history, oldest first -/
def runOut (lib : Lib) (s : St M P) : List (Op M V) → List (Out V)
  | [] => []
  | op :: ops => stepOut S lib s op :: runOut lib (stepSt S lib s op) ops

def runTrace (lib : Lib) (s : St M P) : List (Op M V) → List (List Call)
  | [] => []
  | op :: ops => stepTrace S lib s op :: runTrace lib (stepSt S lib s op) ops

/-- matrices handed to `solve` in a history -/
def solved : List (Op M V) → List M
  | [] => []
  | .solve A _ :: ops => A :: solved ops
  | _ :: ops => solved ops

def isSolve : Op M V → Bool
  | .solve _ _ => true
  | _ => false

def isFlag : Op M V → Bool
  | .setFactorize => true
  | .setNewA => true
  | _ => false

/-! ### Refresh discipline of the routines -/

/-- `PFlow.nr_step`: is the Jacobian rebuilt in iteration `niter`?
`self.config.method != 'dishonest' or (self.niter < self.config.n_factorize)` -/
def pfUpdates (dishonest : Bool) (nFactorize niter : Nat) : Bool := !dishonest || decide (niter < nFactorize)

/-- solver operations of one `PFlow.nr_step`; `Jnew` is what `j_update` would produce, `Jold` what
`dae.fx … gy` hold from before -/
def pfStepOps (dishonest : Bool) (nFactorize niter : Nat) (linsolve : Bool) (Jold Jnew : M) (b : V) :
    List (Op M V) :=
  let upd := pfUpdates dishonest nFactorize niter
  let A := if upd then Jnew else Jold
  (if upd then [Op.setNewA] else []) ++ [if linsolve then Op.linsolve A b else Op.solve A b]

/-- `daeint.step`: the "lazy Jacobian update" condition (a non-empty `reason`) -/
def tdsUpdates (tZero honest customEvent lastConverged : Bool) (niter : Nat) (nearSwitch : Bool) : Bool :=
  tZero || honest || customEvent || !lastConverged || (decide (niter > 4) && decide ((niter + 1) % 3 = 0)) ||
    nearSwitch

/-- solver operations of one Newton iteration of `daeint.step` -/
def tdsIterOps (upd linsolve : Bool) (Ac : M) (b : V) : List (Op M V) :=
  (if upd then [Op.setFactorize] else []) ++ [if linsolve then Op.linsolve Ac b else Op.solve Ac b]

end

/-! ### A concrete back end: integer matrices given by their structural entries, exact rational solve -/

/-- vectors: exact rationals or the all-NaN vector -/
inductive QVec
  | q (l : List Rat)
  | nan
deriving DecidableEq, Repr

structure IMat where
  id : Nat
  n : Nat
  ents : List (Nat × Nat × Int)     -- (row, col, value): the structural entries (explicit zeros count)
deriving DecidableEq, Repr

def IMat.get (A : IMat) (i j : Nat) : Int :=
  (A.ents.filter (fun e => e.1 == i && e.2.1 == j)).foldl (fun a e => a + e.2.2) 0

def IMat.dense (A : IMat) : List (List Rat) :=
  (List.range A.n).map (fun i => (List.range A.n).map (fun j => ((A.get i j : Int) : Rat)))

def dropAt {α : Type} (l : List α) (k : Nat) : List α := l.take k ++ l.drop (k + 1)

/-- Laplace expansion along the first row (`fuel` = dimension) -/
def detQ : Nat → List (List Rat) → Rat
  | 0, _ => 1
  | fuel + 1, m =>
    match m with
    | [] => 1
    | r :: rest =>
      (List.range r.length).foldl (fun acc j =>
        let a := r.getD j 0
        let minor := rest.map (fun row => dropAt row j)
        let t := a * detQ fuel minor
        if j % 2 = 0 then acc + t else acc - t) 0

def replaceCol (m : List (List Rat)) (j : Nat) (b : List Rat) : List (List Rat) :=
  (m.zip b).map (fun rb => rb.1.set j rb.2)

/-- Cramer's rule -/
def cramer (n : Nat) (m : List (List Rat)) (b : List Rat) : List Rat :=
  let d := detQ n m
  (List.range n).map (fun j => detQ n (replaceCol m j b) / d)

def IMat.pattern (A : IMat) : List (Nat × Nat) := A.ents.map (fun e => (e.1, e.2.1))

/-- `und` lists the (symbolic pattern, matrix pattern) pairs that UMFPACK was OBSERVED not to reject -/
def isys (und : List (List (Nat × Nat) × List (Nat × Nat))) : Sys IMat QVec (List (Nat × Nat)) where
  pat := IMat.pattern
  reg := fun A => detQ A.n A.dense != 0
  sol := fun A b => match b with
    | .q l => .q (cramer A.n A.dense l)
    | .nan => .nan
  nan := fun _ => .nan
  detects := fun p q => !(und.contains (p, q))

end Andes.SolverCache
