import Andes.Model.Discrete
/-!
# Model of the history-dependent components of `andes/core/discrete.py`

`Delay.check_var` (mode `step` and mode `time`), `Average.check_var`, `Derivative.check_var`,
`Sampling.check_var`, for one device.  The stamps `t` are shared by all devices of an instance and the
memory `_v_mem` is one row per device; a per-device copy of `t` is the same thing.

A whole call sequence `[(dae_t, u)]` is fed (`List.foldl`), including repeated stamps, rewinds and calls
at `dae_t = 0` in the middle.  Polymorphic scalar as in `Discrete.lean`; no Mathlib import.
-/
namespace Andes.Delay
open Andes.Discrete

section
variable {α : Type} [Add α] [Sub α] [Mul α] [Div α] [Neg α] [LT α] [DecidableLT α] [LE α] [DecidableLE α]
  [BEq α] [OfScientific α]

/-- `l[-1] = x` -/
def setLast (l : List α) (x : α) : List α :=
  match l with
  | [] => []
  | _ :: _ => l.dropLast ++ [x]

/-- which arm of the `if dae_t == 0 / elif dae_t < t[-1] / elif == / elif >` chain is taken -/
inductive Br | zero | rewind | same | adv | none
deriving DecidableEq, Repr

def branch (tq tl : α) : Br :=
  if tq == 0.0 then .zero
  else if tq < tl then .rewind
  else if tq == tl then .same
  else if tl < tq then .adv
  else .none

/-- storage of one device: stamps, memory (same length), output, the `rewind` attribute, and `bad` =
an exception was raised (mode `time`, `idx = -1`) -/
structure Dl (α : Type) where
  t : List α
  mem : List α
  v : α
  rewind : Bool
  bad : Bool

def lastOr (l : List α) (d : α) : α := l.getLast?.getD d
def headOr (l : List α) (d : α) : α := l.head?.getD d

/-- `Delay.list2array`, mode `step`: `t = zeros(delay+1)`, `_v_mem = zeros((n, delay+1))` -/
def initStep (delay : Nat) : Dl α :=
  { t := List.replicate (delay + 1) 0.0, mem := List.replicate (delay + 1) 0.0, v := 0.0,
    rewind := false, bad := false }
/-- mode `time`: `t = [0]`, `_v_mem = zeros((n, 1))` -/
def initTime : Dl α := { t := [0.0], mem := [0.0], v := 0.0, rewind := false, bad := false }

/-! ### mode `step` -/

def stepT (s : Dl α) (tq : α) : List α :=
  match branch tq (lastOr s.t 0.0) with
  | .zero => s.t
  | .rewind => setLast s.t tq
  | .same => s.t
  | .adv => s.t.tail ++ [tq]
  | .none => s.t

def stepMem (s : Dl α) (tq u : α) : List α :=
  match branch tq (lastOr s.t 0.0) with
  | .zero => s.mem.map (fun _ => u)
  | .rewind => setLast s.mem u
  | .same => setLast s.mem u
  | .adv => s.mem.tail ++ [u]
  | .none => s.mem

def isRewind (s : Dl α) (tq : α) : Bool := branch tq (lastOr s.t 0.0) == .rewind

/-- `Delay.check_var(dae_t)` in mode `step` with input value `u` -/
def stepCall (s : Dl α) (tq u : α) : Dl α :=
  { t := stepT s tq, mem := stepMem s tq u, v := headOr (stepMem s tq u) 0.0,
    rewind := isRewind s tq, bad := s.bad }

/-! ### mode `time` -/

/-- `np.argmax(t >= x)`: index of the first `True`, `0` if there is none -/
def firstGe (ts : List α) (x : α) : Nat :=
  match ts.findIdx? (fun y => decide (x ≤ y)) with
  | some i => i
  | none => 0

/-- `interp_n2`: `y0 + (t - x0) * (y1 - y0) / (x1 - x0)` -/
def interp (ti x0 x1 y0 y1 : α) : α := y0 + (ti - x0) * (y1 - y0) / (x1 - x0)

/-- the advancing arm in mode `time`: append, then — if the window is longer than `delay` — interpolate
at `dae_t - delay`, overwrite the bracketing older sample and drop everything before it -/
def timeAdv (delay : α) (t mem : List α) (tq u : α) : List α × List α × Bool :=
  let t1 := t ++ [tq]
  let m1 := mem ++ [u]
  if delay < tq - headOr t1 0.0 then
    let ti := tq - delay
    let k := firstGe t1 ti
    if k = 0 then (t1, m1, true)
    else
      let vi := interp ti (t1.getD (k - 1) 0.0) (t1.getD k 0.0) (m1.getD (k - 1) 0.0) (m1.getD k 0.0)
      (ti :: t1.drop k, vi :: m1.drop k, false)
  else (t1, m1, false)

def timeCall (delay : α) (s : Dl α) (tq u : α) : Dl α :=
  if s.bad then s else
  match branch tq (lastOr s.t 0.0) with
  | .zero => { s with mem := s.mem.map (fun _ => u), v := u, rewind := false }
  | .rewind => { s with t := setLast s.t tq, mem := setLast s.mem u,
                        v := headOr (setLast s.mem u) 0.0, rewind := true }
  | .same => { s with mem := setLast s.mem u, v := headOr (setLast s.mem u) 0.0, rewind := false }
  | .adv =>
    let r := timeAdv delay s.t s.mem tq u
    { t := r.1, mem := r.2.1, v := if r.2.2 then s.v else headOr r.2.1 0.0, rewind := false, bad := r.2.2 }
  | .none => { s with v := headOr s.mem 0.0, rewind := false }

/-! ### Average -/

/-- `np.sum((mem[1:] + mem[:-1]) * (t[1:] - t[:-1]))` (left to right) -/
def trapSum : List α → List α → α
  | m0 :: m1 :: ms, t0 :: t1 :: ts => (m1 + m0) * (t1 - t0) + trapSum (m1 :: ms) (t1 :: ts)
  | _, _ => 0.0

/-- what `Average.check_var` does after `Delay.check_var` returned `d` -/
def avgPost (d : Dl α) (tq : α) : Dl α :=
  if tq == 0.0 then
    { d with v := lastOr d.mem 0.0, mem := setLast (d.mem.map (fun _ => (0.0 : α))) (lastOr d.mem 0.0) }
  else
    { d with v := 0.5 * trapSum d.mem d.t / (lastOr d.t 0.0 - headOr d.t 0.0) }

def avgStepCall (s : Dl α) (tq u : α) : Dl α := avgPost (stepCall s tq u) tq
def avgTimeCall (delay : α) (s : Dl α) (tq u : α) : Dl α :=
  let d := timeCall delay s tq u
  if d.bad then d else avgPost d tq

/-! ### Derivative (`delay = 1`, mode `step`) -/

def derivOut (d : Dl α) (tq : α) : α :=
  if tq == 0.0 || d.rewind then 0.0
  else
    let v := (d.mem.getD 1 0.0 - d.mem.getD 0 0.0) / (d.t.getD 1 0.0 - d.t.getD 0 0.0)
    if pabs v < 1e-8 then 0.0 else v

def derivCall (s : Dl α) (tq u : α) : Dl α :=
  let d := stepCall s tq u
  { d with v := derivOut d tq }

/-! ### Sampling -/

/-- `v`, `_last_v`, `_last_t`; `_last_t` is created as `np.array([0])`, an INTEGER array, so
`self._last_t[0] = dae_t` truncates: `trunc` is that conversion (the identity in the intended design) -/
structure Smp (α : Type) where
  v : α
  lastV : α
  lastT : α
  rewind : Bool

def smpInit : Smp α := ⟨0.0, 0.0, 0.0, false⟩

def smpCall (trunc : α → α) (interval offset : α) (s : Smp α) (tq u : α) : Smp α :=
  if tq == 0.0 then { s with v := u, lastV := u, rewind := false }
  else if s.lastT < tq then
    (if interval < tq - offset - s.lastT then { v := u, lastV := s.v, lastT := trunc tq, rewind := false }
     else { s with rewind := false })
  else if tq == s.lastT then { s with v := u, rewind := false }
  else if tq < s.lastT then { s with v := s.lastV, lastT := trunc tq, rewind := true }
  else { s with rewind := true }

/-! ### whole call sequences -/

def runStep (delay : Nat) (calls : List (α × α)) : List (Dl α) :=
  (calls.foldl (fun (acc : Dl α × List (Dl α)) c =>
    let s := stepCall acc.1 c.1 c.2; (s, s :: acc.2)) (initStep delay, [])).2.reverse

end
end Andes.Delay
