/-!
# Model of per-unit conversion and parameter alteration

`System.calc_pu_coeff` (andes/system.py), `NumParam.to_array / set_pu_coeff / restore`
(andes/core/param.py), `Model.set / Model.alter` (andes/core/model/model.py), `Group.set / Group.alter`
(andes/models/group.py), `ModelData.as_dict(vin=True)` with the `cache.df_in` snapshot and the two
writers `io.xlsx._write_system` / `io.json._dump_system`, `System.reset` + `_p_restore`, and the
time-constant bookkeeping (`System._store_tf`, `TDS.Teye`, the propagation inside `Model.set`).

One model class with `n` devices is modelled; its parameters are stored per device (`Cell`), the NumPy
vectorisation is `List.map`.  Polymorphic in the scalar type: `Float` for the driver (bit-exact against the
real code), a field for the theorems of `Andes/Props/C11.lean`.  No Mathlib import here.

Quirks of the real code that are reproduced on purpose:
* `Group.set` writes the array element directly and does NOT propagate a time constant to `dae.Tf`/`Teye`;
* `io.json` and `io.xlsx` both refresh `cache.df_in` before writing (the json writer did not on the pinned
  tree: finding `json-export-stale`, repaired);
* `alter(attr='vin')`, `set(attr='vin')` and `System.reset` raise `TypeError` before set-up (`vin is None`);
* `set` changes one representation only.
-/
namespace Andes.PerUnit

/-- the keys of the `coeffs` dictionary of `System.calc_pu_coeff`, in dictionary order -/
inductive Kind
  | voltage | power | ipower | current | z | y | dc_voltage | dc_current | r | g
deriving DecidableEq, Repr

def Kind.all : List Kind :=
  [.voltage, .power, .ipower, .current, .z, .y, .dc_voltage, .dc_current, .r, .g]

def Kind.name : Kind → String
  | .voltage => "voltage" | .power => "power" | .ipower => "ipower" | .current => "current"
  | .z => "z" | .y => "y" | .dc_voltage => "dc_voltage" | .dc_current => "dc_current"
  | .r => "r" | .g => "g"

/-- which base quantity a parameter of the model class supplies (`mdl.Sn`, `mdl.Vn`, ...) -/
inductive Role
  | none | sn | vn | vn1 | vdcn | vdcn1 | idcn
deriving DecidableEq, Repr

inductive Attr
  | v | vin
deriving DecidableEq, Repr

inductive Status
  | ok
  /-- the call raised `TypeError` (`vin is None` before set-up); nothing was changed -/
  | typeError
  /-- the call returned without doing anything (set-up twice, reset with TDS initialised) -/
  | refused
deriving DecidableEq, Repr

/-- replace element `i` of a list by `f` of it (no-op when out of range) -/
def modAt {β : Type} : List β → Nat → (β → β) → List β
  | [], _, _ => []
  | x :: xs, 0, f => f x :: xs
  | x :: xs, i + 1, f => x :: modAt xs i f

section
variable {α : Type}

/-- the resolved bases of one device: device bases `Sn Vn Vdcn Idcn`, system/bus bases `Sb Vb Vdcb` -/
structure Bases (α : Type) where
  Sn : α
  Sb : α
  Vn : α
  Vb : α
  Vdcn : α
  Vdcb : α
  Idcn : α

/-- one device's entry of one parameter -/
structure Cell (α : Type) where
  /-- `param.v[uid]`: the value the equations see (system base after set-up) -/
  v : α
  /-- `param.vin[uid]`: the input value (device base); meaningful once the model is set up -/
  vin : α
  /-- `param.pu_coeff[uid]`; meaningful once the model is set up -/
  pu : α
  /-- `dae.Tf[state.a[uid]]` for the state(s) whose time constant this parameter is; meaningful when addressed -/
  tf : α
  /-- `TDS.Teye[a, a]` likewise -/
  teye : α

structure Param (α : Type) where
  /-- the per-unit flags that are set, in dictionary order (`set_pu_coeff` is applied in that order) -/
  kinds : List Kind
  role : Role
  /-- the parameter is the `t_const` of at least one differential state of the model -/
  tc : Bool
  cells : List (Cell α)

/-- per-device data that come from other models: `Bus.Vn` / `Node.Vdcn` of the connected bus / node -/
structure Ext (α : Type) where
  vbBus : α
  vbBus1 : α
  vdcbNode : α
  vdcbNode1 : α

structure Mdl (α : Type) where
  hasBus : Bool
  hasBus1 : Bool
  hasNode : Bool
  hasNode1 : Bool
  /-- `mdl.flags.pflow`, `mdl.flags.tds` -/
  inPflow : Bool
  inTds : Bool
  /-- `system.config.mva` -/
  Sb : α
  ext : List (Ext α)
  params : List (Param α)
  isSetup : Bool
  /-- `TDS.initialized` -/
  tdsInit : Bool
  /-- the differential states of this model have addresses (`len(state.a) > 0`) -/
  addressed : Bool
  /-- `cache.df_in`: the exported columns of the parameters as of the last refresh -/
  cache : Option (List (List α))

inductive Op (α : Type)
  | setup
  /-- `Model.alter(src, idx, value, attr)`; `viaGroup`: through `Group.alter`, which dispatches to it -/
  | alter (p uid : Nat) (value : α) (attr : Attr) (viaGroup : Bool)
  /-- `Model.set(src, idx, attr, value)` -/
  | set (p uid : Nat) (attr : Attr) (value : α)
  /-- `Group.set(src, idx, attr, value)` -/
  | gset (p uid : Nat) (attr : Attr) (value : α)
  | reset (force : Bool)
  | pflow
  | tdsInit
  | dumpXlsx
  | dumpJson

variable [Mul α] [Div α] [OfScientific α]

/-- the `coeffs` dictionary of `System.calc_pu_coeff` (hand copy; `Andes/Gen/PuCoeff.lean` is the
regenerated translation of the current source and `Props/C11.coeff_matches_source` proves them equal) -/
def coeff (b : Bases α) : Kind → α
  | .voltage => b.Vn / b.Vb
  | .power => b.Sn / b.Sb
  | .ipower => b.Sb / b.Sn
  | .current => (b.Sn / b.Vn) / (b.Sb / b.Vb)
  | .z => (b.Vn * b.Vn / b.Sn) / (b.Vb * b.Vb / b.Sb)
  | .y => (b.Vb * b.Vb / b.Sb) / (b.Vn * b.Vn / b.Sn)
  | .dc_voltage => b.Vdcn / b.Vdcb
  | .dc_current => b.Idcn / (b.Sb / b.Vdcb)
  | .r => (b.Vdcn / b.Idcn) / (b.Vdcb / (b.Sb / b.Vdcb))
  | .g => (b.Vdcb / (b.Sb / b.Vdcb)) / (b.Vdcn / b.Idcn)

/-- the column `mdl.<role>.v` if the model class has such a parameter -/
def roleCol (ps : List (Param α)) (r : Role) : Option (List α) :=
  (ps.find? (fun p => p.role == r)).map (fun p => p.cells.map (·.v))

/-- `mdl.X.v[i] if 'X' in mdl.__dict__ else dflt` -/
def pick (col : Option (List α)) (i : Nat) (dflt : α) : α :=
  match col with
  | none => dflt
  | some c => c.getD i dflt

/-- the branchy part of `calc_pu_coeff`: which bases apply to device `i` -/
def devBases (m : Mdl α) (i : Nat) (e : Ext α) : Bases α :=
  let Sn := pick (roleCol m.params .sn) i m.Sb
  let Vb : α := if m.hasBus then e.vbBus else if m.hasBus1 then e.vbBus1 else 1.0
  let Vn : α := if m.hasBus then pick (roleCol m.params .vn) i Vb
    else if m.hasBus1 then pick (roleCol m.params .vn1) i Vb else 1.0
  let Vdcb : α := if m.hasNode then e.vdcbNode else if m.hasNode1 then e.vdcbNode1 else 1.0
  let Vdcn : α := if m.hasNode then pick (roleCol m.params .vdcn) i Vdcb
    else if m.hasNode1 then pick (roleCol m.params .vdcn1) i Vdcb else 1.0
  let Idcn : α := if m.hasNode || m.hasNode1 then pick (roleCol m.params .idcn) i (m.Sb / Vdcb) else 1.0
  { Sn := Sn, Sb := m.Sb, Vn := Vn, Vb := Vb, Vdcn := Vdcn, Vdcb := Vdcb, Idcn := Idcn }

/-- the coefficient a parameter ends up with: `set_pu_coeff` is called once per set flag in dictionary
order and each call overwrites `pu_coeff` and recomputes `v = vin * pu_coeff` -/
def coeffFor (b : Bases α) (kinds : List Kind) : Option α :=
  kinds.getLast?.map (coeff b)

/-- the coefficient of device `i` for a parameter with the given flags (`none`: not flagged) -/
def coeffAt (m : Mdl α) (kinds : List Kind) (i : Nat) : Option α :=
  match m.ext[i]? with
  | none => none
  | some e => coeffFor (devBases m i e) kinds

/-- `to_array` (`vin := v`, `pu_coeff := 1`) followed by `set_pu_coeff` if the parameter is flagged -/
def setupCell (k : Option α) (c : Cell α) : Cell α :=
  match k with
  | none => { c with vin := c.v, pu := 1.0 }
  | some k => { c with vin := c.v, pu := k, v := c.v * k }

/-- the cells of one parameter, device by device starting at device `i` -/
def setupCells (m : Mdl α) (kinds : List Kind) : Nat → List (Cell α) → List (Cell α)
  | _, [] => []
  | i, c :: cs => setupCell (coeffAt m kinds i) c :: setupCells m kinds (i + 1) cs

def setupParam (m : Mdl α) (p : Param α) : Param α :=
  { p with cells := setupCells m p.kinds 0 p.cells }

/-- `NumParam.restore` -/
def restoreCell (c : Cell α) : Cell α := { c with v := c.vin }

def restoreParam (p : Param α) : Param α := { p with cells := p.cells.map restoreCell }

/-- `as_dict(vin=True)`: the input values once they exist, the raw list before -/
def exportNow (m : Mdl α) : List (List α) :=
  m.params.map (fun p => p.cells.map (fun c => if m.isSetup then c.vin else c.v))

/-- `System.setup` for this model (list2array, calc_pu_coeff, store_adder_setter's cache refresh) -/
def doSetup (m : Mdl α) : Mdl α :=
  let m1 := { m with params := m.params.map (setupParam m), isSetup := true }
  { m1 with cache := if m.inPflow then some (exportNow m1) else m.cache }

/-- cell update of `Model.set(attr='v')`: the value, and `dae.Tf` / `Teye` when the parameter is a
time constant of an addressed state -/
def setVCell (prop : Bool) (x : α) (c : Cell α) : Cell α :=
  if prop then { c with v := x, tf := x, teye := x } else { c with v := x }

def setVinCell (x : α) (c : Cell α) : Cell α := { c with vin := x }

def modCell (m : Mdl α) (p uid : Nat) (f : Param α → Cell α → Cell α) : Mdl α :=
  { m with params := modAt m.params p (fun q => { q with cells := modAt q.cells uid (f q) }) }

/-- `Model.set` -/
def modelSet (m : Mdl α) (p uid : Nat) (attr : Attr) (x : α) : Mdl α :=
  match attr with
  | .v => modCell m p uid (fun q => setVCell (q.tc && m.addressed) x)
  | .vin => modCell m p uid (fun _ => setVinCell x)

/-- `Group.set`: delegates to `Model.set` of the model that holds the device (on the pinned tree it assigned the array
element directly, so a time constant never reached `dae.Tf` / `Teye`: finding `group-set-skips-tf`, repaired) -/
def groupSet (m : Mdl α) (p uid : Nat) (attr : Attr) (x : α) : Mdl α := modelSet m p uid attr x

/-- cell update of `Model.alter` once `vin` exists: two `Model.set` calls -/
def alterCell (prop : Bool) (attr : Attr) (x : α) (c : Cell α) : Cell α :=
  match attr with
  | .vin => setVCell prop x (setVinCell (x / c.pu) c)
  | .v => setVCell prop (x * c.pu) (setVinCell x c)

def modelAlter (m : Mdl α) (p uid : Nat) (x : α) (attr : Attr) : Mdl α :=
  if m.isSetup then modCell m p uid (fun q => alterCell (q.tc && m.addressed) attr x)
  else modelSet m p uid attr x

/-- `_store_tf` + `spdiag(dae.Tf)` at TDS initialisation -/
def storeTfParam (p : Param α) : Param α :=
  if p.tc then { p with cells := p.cells.map (fun c => { c with tf := c.v, teye := c.v }) } else p

def doReset (m : Mdl α) : Mdl α :=
  doSetup { m with params := m.params.map restoreParam, addressed := false, isSetup := true }

/-- does the call raise before changing anything?  (`TDS.init` without set-up has no power-flow solution to
start from: `len(None)`; `TDS.init` after set-up but without a power flow is outside the modelled domain) -/
def status (m : Mdl α) : Op α → Status
  | .setup => if m.isSetup then .refused else .ok
  | .alter _ _ _ attr _ => if !m.isSetup && attr == .vin then .typeError else .ok
  | .set _ _ attr _ => if !m.isSetup && attr == .vin then .typeError else .ok
  | .gset _ _ attr _ => if !m.isSetup && attr == .vin then .typeError else .ok
  | .reset force => if m.tdsInit && !force then .refused else if !m.isSetup then .typeError else .ok
  | .pflow => .ok
  | .tdsInit => if m.tdsInit then .refused else if !m.isSetup then .typeError else .ok
  | .dumpXlsx => .ok
  | .dumpJson => .ok

def next (m : Mdl α) (op : Op α) : Mdl α :=
  if status m op != .ok then m else
  match op with
  | .setup => doSetup m
  | .alter p uid x attr _ => modelAlter m p uid x attr
  | .set p uid attr x => modelSet m p uid attr x
  | .gset p uid attr x => groupSet m p uid attr x
  | .reset _ => doReset m
  | .pflow => m
  | .tdsInit =>
    let m1 := { m with params := if m.inTds then m.params.map storeTfParam else m.params,
                       addressed := m.inTds, tdsInit := true }
    { m1 with cache := if m.inPflow || m.inTds then some (exportNow m1) else m.cache }
  | .dumpXlsx => { m with cache := some (exportNow m) }
  | .dumpJson => { m with cache := some (exportNow m) }

/-- what a dump operation writes for this model -/
def written (m : Mdl α) : Op α → Option (List (List α))
  | .dumpXlsx => some (exportNow m)
  | .dumpJson => some (exportNow m)
  | _ => none

def run (m : Mdl α) (ops : List (Op α)) : Mdl α := ops.foldl next m

end
end Andes.PerUnit
