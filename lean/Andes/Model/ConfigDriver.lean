import Andes.Model.Hex
import Andes.Model.Config
/-! Line protocol for the configuration model (floats = their 64 IEEE bits as `Nat`).

`cfg run <numerals> <decls> <dict> <rc> <opts> <script> <saveorder>`      full scenario (construct, script, save, reload)
`cfg num <hex text>`                                       numeral classification of one string
`cfg path <arg> <default> <cwd> <home>`                     which rc file is read

Tokens contain no blanks.  A string is the hex of its ASCII bytes.  A value is `i<int>`, `f<16 hex>`,
`s<hex>`, `bT`, `bF` or `n`.  A key/value list is `k:v,k:v` or `-`.
* numerals: `<parse>;<print>`, parse = `hex(text):bits,...` (what Python `float()` returns for the texts that
  occur), print = `bits:hex(text),...` (what `str(float)` returns); both `-` when empty.
* decls: `name~defaults~alt|...`, alt = `key:m/m/m,...`; the first is the `System` section.
* rc: `N` (no rc object) or `R` followed by `|`-joined `name~key:text,...`; the name `*` is the DEFAULT section.
* opts: `N`, `E` (empty list) or `hex,hex,...`.
* script: `-` or `|`-joined ops `A~sec~key:val` (attribute assignment), `U~sec~kvs` (Config.update),
  `F~sec` (as_dict(refresh=True)).
* saveorder: indices into decls in the order `collect_config` visits them (System, routines, models). -/
namespace Andes.Config
open Andes.Hex

def unhexL : List Char → Option (List Char)
  | [] => some []
  | [_] => none
  | a :: b :: r =>
    match hexDigit a, hexDigit b, unhexL r with
    | some x, some y, some t => some (Char.ofNat (x * 16 + y) :: t)
    | _, _, _ => none

def unhex (s : String) : Option String := (unhexL s.toList).map String.ofList

def hexS (s : String) : String :=
  String.ofList (s.toList.flatMap (fun c => [hexChar (c.toNat / 16 % 16), hexChar (c.toNat % 16)]))

abbrev V := Val Nat

def valOf (s : String) : Option V :=
  match s.toList with
  | 'i' :: r => (String.ofList r).toInt?.map Val.int
  | 'f' :: r => if r.length = 16 then (parseHex (String.ofList r)).map Val.flt else none
  | 's' :: r => (unhexL r).map (fun l => Val.str (String.ofList l))
  | ['b', 'T'] => some (Val.bool true)
  | ['b', 'F'] => some (Val.bool false)
  | ['n'] => some Val.none
  | _ => none

def showVal : V → String
  | .int i => "i" ++ toString i
  | .flt x => "f" ++ toHex16 x
  | .str s => "s" ++ hexS s
  | .bool b => if b then "bT" else "bF"
  | .none => "n"

def listOf {α : Type} (sep : String) (f : String → Option α) (s : String) : Option (List α) :=
  if s = "-" then some [] else (s.splitOn sep).mapM f

def pairOf {α β : Type} (sep : String) (f : String → Option α) (g : String → Option β) (s : String) : Option (α × β) :=
  match s.splitOn sep with
  | [a, b] => do pure ((← f a), (← g b))
  | _ => none

def kvsOf (s : String) : Option (List (String × V)) := listOf "," (pairOf ":" unhex valOf) s

def showKVs (l : List (String × V)) : String :=
  if l.isEmpty then "-" else ",".intercalate (l.map (fun kv => hexS kv.1 ++ ":" ++ showVal kv.2))

def showSect (l : Sect) : String :=
  if l.isEmpty then "-" else ",".intercalate (l.map (fun kv => hexS kv.1 ++ ":" ++ hexS kv.2))

def altOf (s : String) : Option (List (String × List V)) :=
  listOf "," (pairOf ":" unhex (listOf "/" valOf)) s

def declOf (s : String) : Option (Decl Nat) :=
  match s.splitOn "~" with
  | [n, d, a] => do pure ⟨(← unhex n), (← kvsOf d), (← altOf a)⟩
  | _ => none

def sectOf (s : String) : Option (String × Sect) :=
  match s.splitOn "~" with
  | [n, kv] => do
    let name ← if n = "*" then some "*" else unhex n
    let kvs ← listOf "," (pairOf ":" unhex unhex) kv
    pure (name, kvs)
  | _ => none

def rcOf (s : String) : Option (Option Rc) :=
  match s.toList with
  | ['N'] => some none
  | ['R'] => some (some Rc.empty)
  | 'R' :: r => do
    let secs ← ((String.ofList r).splitOn "|").mapM sectOf
    let defs := (secs.filter (fun p => p.1 = "*")).flatMap (fun p => p.2)
    pure (some ⟨defs, secs.filter (fun p => p.1 ≠ "*")⟩)
  | _ => none

def optsOf (s : String) : Option (Option (List String)) :=
  if s = "N" then some none else if s = "E" then some (some []) else (listOf "," unhex s).map some

inductive Op where
  | setattr (sec key : String) (v : V)
  | update (sec : String) (kvs : List (String × V))
  | refresh (sec : String)

def opOf (s : String) : Option Op :=
  match s.splitOn "~" with
  | ["A", sec, kv] => do
    let p ← pairOf ":" unhex valOf kv
    pure (Op.setattr (← unhex sec) p.1 p.2)
  | ["U", sec, kvs] => do pure (Op.update (← unhex sec) (← kvsOf kvs))
  | ["F", sec] => do pure (Op.refresh (← unhex sec))
  | _ => none

/-- the numerals of one case: float values and float printing come from the tables on the line,
everything syntactic is decided by the model -/
def numeralsOf (parse : List (String × Nat)) (print : List (Nat × String)) : Numerals Nat where
  parseInt := pyInt
  parseFlt := fun s => if isPyFloat s then
      (match aget (strip s) parse with
       | some b => some b
       | none => some 0xfff8dead00000000)   -- table miss: a marker NaN, shows up as a disagreement
    else none
  printInt := fun i => toString i
  printFlt := fun x => match print.find? (fun p => p.1 = x) with
    | some p => p.2
    | none => "?print-miss"
  fltEqInt := fun x i => Float.ofBits (UInt64.ofNat x) == Float.ofInt i

def numOf (s : String) : Option (Numerals Nat) :=
  match s.splitOn ";" with
  | [p, q] => do
    let parse ← listOf "," (pairOf ":" unhex parseHex) p
    let print ← listOf "," (pairOf ":" parseHex unhex) q
    pure (numeralsOf parse print)
  | _ => none

def errName : Err → String
  | .noSection => "NoSection"
  | .dupSection => "DuplicateSection"
  | .badSectionName => "BadSectionName"
  | .badAssign => "BadAssign"
  | .badField => "BadField"
  | .notAChoice => "NotAChoice"
  | .valueType => "ValueType"
  | .dupOption => "DuplicateOption"

def showErr (e : Err × String) : String := "!" ++ errName e.1 ++ ":" ++ hexS e.2

def showCfgs (cs : List (Cfg Nat)) : String :=
  "|".intercalate (cs.map (fun c => hexS c.name ++ "~" ++ showKVs c.fields ++ "~" ++ showKVs c.cache))

def modifyCfg (sec : String) (f : Cfg Nat → Cfg Nat) (cs : List (Cfg Nat)) : List (Cfg Nat) :=
  cs.map (fun c => if c.name = sec then f c else c)

/-- run the script; an exception of `update` is recorded and the run goes on (fields stay set) -/
def runScript (N : Numerals Nat) : List Op → Nat → List (Cfg Nat) → List String → List (Cfg Nat) × List String
  | [], _, cs, errs => (cs, errs.reverse)
  | op :: ops, i, cs, errs =>
    match op with
    | .setattr sec k v => runScript N ops (i + 1) (modifyCfg sec (fun c => c.setattr k v) cs) errs
    | .refresh sec => runScript N ops (i + 1) (modifyCfg sec (fun c => c.asDict true) cs) errs
    | .update sec kvs =>
      match cs.find? (fun c => c.name = sec) with
      | none => runScript N ops (i + 1) cs errs
      | some c =>
        match c.update N kvs with
        | .ok c' => runScript N ops (i + 1) (modifyCfg sec (fun _ => c') cs) errs
        | .error e =>
          runScript N ops (i + 1) (modifyCfg sec (fun c => (c.updateFields N kvs).asDict true) cs)
            ((toString i ++ showErr e) :: errs)

def showSaved (ss : List (String × Sect)) : String :=
  if ss.isEmpty then "-" else "|".intercalate (ss.map (fun p => hexS p.1 ++ "~" ++ showSect p.2))

def handleCfg (args : List String) : String :=
  match args with
  | [num, decls, dict, rc, opts, script, sorder] =>
    let r : Option String := do
      let N ← numOf num
      let decls ← (decls.splitOn "|").mapM declOf
      let dict ← kvsOf dict
      let rc ← rcOf rc
      let opts ← optsOf opts
      let ops ← listOf "|" opOf script
      let sorder ← natsOfString sorder
      match mkSystem N decls dict rc opts with
      | .error e => pure ("C=" ++ showErr e)
      | .ok cs =>
        let (cs1, errs) := runScript N ops 0 cs []
        let head := "C=" ++ showCfgs cs ++ " S=" ++ (if errs.isEmpty then "-" else ",".intercalate errs)
          ++ " P=" ++ showCfgs cs1
        match saveAll N (sorder.filterMap (fun i => cs1[i]?)) true with
        | .error e => pure (head ++ " V=" ++ showErr (e, ""))
        | .ok (_, ss) =>
          let back := match mkSystem N decls [] (some (savedRc ss)) none with
            | .error e => showErr e
            | .ok cs2 => showCfgs cs2
          pure (head ++ " V=" ++ showSaved ss ++ " L=" ++ back)
    r.getD "bad-args"
  | _ => "bad-arity"

/-- `cfg num <hex>`: `i<int>` if `int()` accepts the text, else `f` if `float()` does, else `s` -/
def handleNum (args : List String) : String :=
  match args with
  | [h] =>
    match unhex (h.drop 1).toString with
    | some s =>
      match pyInt s with
      | some i => "i" ++ toString i
      | none => if isPyFloat s then "f" else "s"
    | none => "bad-args"
  | _ => "bad-arity"

def handlePath (args : List String) : String :=
  match args.mapM boolOf with
  | some [a, d, c, h] =>
    match pickPath a d c h with
    | .arg => "arg"
    | .cwd => "cwd"
    | .home => "home"
    | .none => "none"
  | _ => "bad-args"

/-- `cfg run ...`, `cfg num ...`, `cfg path ...` -/
def handle (args : List String) : String :=
  match args with
  | "run" :: a => handleCfg a
  | "num" :: a => handleNum a
  | "path" :: a => handlePath a
  | _ => "bad-op"

end Andes.Config
