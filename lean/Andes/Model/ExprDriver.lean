import Andes.Model.Hex
import Andes.Model.Expr
/-! Line protocol for the expression evaluator:
`ev <n> <sexpr tokens ...> | <hex,hex,...> ; <hex,...> ; ...` evaluates the expression at each environment.
S-expressions: `( add a b )`, `( num p/q )`, `( var i )`, `( un sin a )`, ... tokens separated by blanks. -/
namespace Andes.Expr
open Andes.Hex

def parseRat (s : String) : Option Rat :=
  match s.splitOn "/" with
  | [p] => p.toInt?.map (fun z => (z : Rat))
  | [p, q] => do
    let p ← p.toInt?
    let q ← q.toNat?
    if q == 0 then none else pure ((p : Rat) / (q : Rat))
  | _ => none

def fn1Of (s : String) : Option Fn1 :=
  match s with
  | "sin" => some .sin | "cos" => some .cos | "tan" => some .tan | "exp" => some .exp | "log" => some .log
  | "sqrt" => some .sqrt | "abs" => some .abs | "arctan" => some .arctan | "sign" => some .sign
  | _ => none

/-- recursive-descent parser over the token list -/
partial def parse : List String → Option (Expr × List String)
  | "pi" :: r => some (pi, r)
  | "nan" :: r => some (nan, r)
  | "(" :: "num" :: q :: ")" :: r => (parseRat q).map (fun q => (num q, r))
  | "(" :: "var" :: i :: ")" :: r => i.toNat?.map (fun i => (var i, r))
  | "(" :: "pow" :: r => do
    let (a, r) ← parse r
    match r with
    | n :: ")" :: r => n.toNat?.map (fun n => (pow a n, r))
    | _ => none
  | "(" :: "un" :: f :: r => do
    let f ← fn1Of f
    let (a, r) ← parse r
    match r with
    | ")" :: r => pure (un f a, r)
    | _ => none
  | "(" :: "neg" :: r => do
    let (a, r) ← parse r
    match r with | ")" :: r => pure (neg a, r) | _ => none
  | "(" :: "bnot" :: r => do
    let (a, r) ← parse r
    match r with | ")" :: r => pure (bnot a, r) | _ => none
  | "(" :: "ite" :: r => do
    let (c, r) ← parse r
    let (a, r) ← parse r
    let (b, r) ← parse r
    match r with | ")" :: r => pure (ite c a b, r) | _ => none
  | "(" :: op :: r => do
    let (a, r) ← parse r
    let (b, r) ← parse r
    match r with
    | ")" :: r =>
      match op with
      | "add" => pure (add a b, r) | "sub" => pure (sub a b, r) | "mul" => pure (mul a b, r)
      | "div" => pure (div a b, r) | "rpow" => pure (rpow a b, r) | "atan2" => pure (atan2 a b, r)
      | "lt" => pure (lt a b, r) | "le" => pure (le a b, r) | "band" => pure (band a b, r)
      | "bor" => pure (bor a b, r)
      | _ => none
    | _ => none
  | _ => none

def envOf (l : List Float) : Nat → Float := fun i => l.getD i 0.0

/-- `ev <tokens> | <env> ; <env> ...` -/
def handleEv (args : List String) : String :=
  let toks := args.takeWhile (· != "|")
  let rest := (args.dropWhile (· != "|")).drop 1
  match parse toks with
  | some (e, []) =>
    let envs := (" ".intercalate rest).splitOn ";"
    let outs := envs.map (fun s =>
      match floatsOfHex s.trimAscii.toString with
      | some l => hexOfFloat (evalF (envOf l) e)
      | none => "bad-env")
    ",".intercalate outs
  | _ => "bad-expr"

/-- `evd <i> <tokens> | <env> ; ...` evaluates the Lean-computed derivative `D i e` -/
def handleEvd (args : List String) : String :=
  match args with
  | i :: rest =>
    match i.toNat? with
    | some i =>
      let toks := rest.takeWhile (· != "|")
      let envs := (" ".intercalate ((rest.dropWhile (· != "|")).drop 1)).splitOn ";"
      match parse toks with
      | some (e, []) =>
        let de := D i e
        ",".intercalate (envs.map (fun s =>
          match floatsOfHex s.trimAscii.toString with
          | some l => hexOfFloat (evalF (envOf l) de)
          | none => "bad-env"))
      | _ => "bad-expr"
    | none => "bad-op"
  | _ => "bad-op"

end Andes.Expr
