import Andes.Model.Hex
import Andes.Model.Io
import Andes.Model.Mpc
/-! Line protocol for the case-data models (scalars `Float`).

Values: `N` None, `A` NaN, `P` +inf, `M` -inf, `I<int>`, `F<16 hex>`, `S<hex of the ASCII string>`.
Keys:   `N`, `I<int>`, `S<hex>`, `U<hex model>.<k>` (generated `<model>_<k>`).

* `ios <default> <nz><np><nn><mand> <value>`            -> `ok <value>` | `err <e>`   (`NumParam.add` + `to_array`)
* `iol <order> <specs> <rows>`                           -> `ok <devs>|<devs after json dump+load>|<after xlsx>` | `err <e>`
  specs `name:group:p,p,..;..` with p = `n` | `d<default>/<mand>` | `f<default>/<4 flags>`; rows `model:key:v,v,..;..`
* `mpb <base> <d2r> <id> <ty> <9 floats>`                -> bus / load / shunt of `mpc2system`, shunt on system base
* `mpg <base> <sw ints> <bus> <status> <7 floats>`       -> generator of `mpc2system`
* `mpl <base> <d2r> <f> <t> <status> <9 floats>`         -> line of `mpc2system`, then system-base r x b
* `mxl <r2d> <bus1> <bus2> <u> <r x b tap phi ra rb rc>` -> branch row of `system2mpc`
* `mxp <base> <bus> <bus:u:p0:q0;..>`                    -> PD QD of `system2mpc`
* `rwl <mva> <v0> <pl ql ip iq yp yq>`                   -> p0 q0 of `_parse_load_v33`
* `rwx <mva> <d2r> <busVn1> <busVn2> <i j cw cz cm stat> <12 floats>` -> two-winding transformer
* `rw3 <r12 x12 r23 x23 r31 x31>`                        -> star r1 r2 r3 x1 x2 x3 -/
namespace Andes.Io
open Andes.Hex

def hexStr (s : String) : String :=
  String.join (s.toList.map (fun c => String.ofList [hexChar (c.toNat / 16 % 16), hexChar (c.toNat % 16)]))

def unhexStr (s : String) : Option String :=
  let rec go : List Char → Option (List Char)
    | [] => some []
    | a :: b :: rest => do
      let x ← hexDigit a
      let y ← hexDigit b
      let r ← go rest
      pure (Char.ofNat (x * 16 + y) :: r)
    | _ => none
  (go s.toList).map String.ofList

def valOf (s : String) : Option (Val Float) :=
  match s.toList with
  | ['N'] => some .none
  | ['A'] => some .nan
  | ['P'] => some .pinf
  | ['M'] => some .ninf
  | 'I' :: r => (String.ofList r).toInt?.map .int
  | 'F' :: r => (floatOfHex (String.ofList r)).map (fun x =>
      if x.isNaN then .nan else if x.isInf then (if x > 0 then .pinf else .ninf) else .flt x)
  | 'S' :: r => (unhexStr (String.ofList r)).map .str
  | _ => none

def valStr : Val Float → String
  | .none => "N" | .nan => "A" | .pinf => "P" | .ninf => "M"
  | .int z => "I" ++ toString z
  | .flt x => "F" ++ hexOfFloat x
  | .str s => "S" ++ hexStr s

def keyOf (s : String) : Option Key :=
  match s.toList with
  | ['N'] => some .none
  | 'I' :: r => (String.ofList r).toInt?.map .int
  | 'S' :: r => (unhexStr (String.ofList r)).map .str
  | 'U' :: r => match (String.ofList r).splitOn "." with
    | [m, k] => do
      let m ← unhexStr m
      let k ← k.toNat?
      pure (.auto m k)
    | _ => none
  | _ => none

def keyStr : Key → String
  | .none => "N" | .int z => "I" ++ toString z | .str s => "S" ++ hexStr s
  | .auto m k => "U" ++ hexStr m ++ "." ++ toString k

def errStr : Err → String
  | .mandatory => "mandatory" | .typeErr => "typeErr" | .badValue => "badValue"

def flagsOf (s : String) : Option (Bool × Bool × Bool × Bool) :=
  match s.toList.map (fun c => c == '1') with
  | [a, b, c, d] => some (a, b, c, d)
  | _ => none

def numSpecOf (d f : String) : Option (NumSpec Float) := do
  let d ← valOf d
  let (a, b, c, m) ← flagsOf f
  pure ⟨d, a, b, c, m⟩

def handleIos (args : List String) : String :=
  match args with
  | [d, f, v] => match numSpecOf d f, valOf v with
    | some p, some v => match sanitize p v with
      | .ok w => "ok " ++ valStr w
      | .error e => "err " ++ errStr e
    | _, _ => "bad-args"
  | _ => "bad-args"

def pspecOf (s : String) : Option (PSpec Float) :=
  match s.toList with
  | ['n'] => some .name
  | 'd' :: r => match (String.ofList r).splitOn "/" with
    | [d, m] => do
      let d ← valOf d
      pure (.data d (m == "1"))
    | _ => none
  | 'f' :: r => match (String.ofList r).splitOn "/" with
    | [d, f] => (numSpecOf d f).map .num
    | _ => none
  | _ => none

def listOf {β} (f : String → Option β) (s : String) : Option (List β) :=
  if s == "-" then some [] else (s.splitOn ",").mapM f

def specsOf (s : String) : Option (List (String × ModelSpec Float)) :=
  if s == "-" then some [] else (s.splitOn ";").mapM (fun m => match m.splitOn ":" with
    | [n, g, ps] => do
      let ps ← listOf pspecOf ps
      pure (n, ⟨g, ps⟩)
    | _ => none)

def rowsOf (s : String) : Option (List (Row Float)) :=
  if s == "-" then some [] else (s.splitOn ";").mapM (fun m => match m.splitOn ":" with
    | [n, k, vs] => do
      let k ← keyOf k
      let vs ← listOf valOf vs
      pure ⟨n, k, vs⟩
    | _ => none)

def devsStr (s : List (Dev Float)) : String :=
  if s.isEmpty then "-" else
  ";".intercalate (s.map (fun d => d.model ++ ":" ++ keyStr d.idx ++ ":" ++
    (if d.cells.isEmpty then "-" else ",".intercalate (d.cells.map valStr))))

def resStr : Except Err (List (Dev Float)) → String
  | .ok s => devsStr s
  | .error e => "err-" ++ errStr e

def handleIol (args : List String) : String :=
  match args with
  | [order, sp, rows] => match specsOf sp, rowsOf rows with
    | some sp, some rows =>
      let specs : String → Option (ModelSpec Float) := fun n => sp.lookup n
      let order := if order == "-" then [] else order.splitOn ","
      match load specs rows with
      | .ok s => "ok " ++ devsStr s ++ "|" ++ resStr (load specs (dump false order s)) ++ "|" ++
                 resStr (load specs (dump true order s))
      | .error e => "err " ++ errStr e
    | _, _ => "bad-args"
  | _ => "bad-args"

end Andes.Io

namespace Andes.Mpc
open Andes.Hex

def fl (l : List Float) : String := hexOfFloats l

def handleMpb (args : List String) : String :=
  match args with
  | [base, d2r, id, ty, fs] => match floatOfHex base, floatOfHex d2r, id.toInt?, ty.toInt?, floatsOfHex fs with
    | some base, some d2r, some id, some ty, some [pd, qd, gs, bs, vm, va, kv, vmax, vmin] =>
      let d : BusRec Float := ⟨id, ty, pd, qd, gs, bs, vm, va, kv, vmax, vmin⟩
      let b := importBus d2r d
      let pq := match importLoad base d with
        | none => "-" | some p => fl [p.p0, p.q0]
      let sh := match importShunt base d with
        | none => "-" | some s => fl [s.g, s.b, (shuntV base s).g, (shuntV base s).b]
      fl [b.vn, b.v0, b.a0, b.vmax, b.vmin] ++ " " ++ pq ++ " " ++ sh
    | _, _, _, _, _ => "bad-args"
  | _ => "bad-args"

def handleMpg (args : List String) : String :=
  match args with
  | [base, sw, bus, st, fs] => match floatOfHex base, intsOfString sw, bus.toInt?, st.toInt?, floatsOfHex fs with
    | some base, some sw, some bus, some st, some [pg, qg, qmax, qmin, vg, pmax, pmin] =>
      let g := importGen base sw ⟨bus, pg, qg, qmax, qmin, vg, st, pmax, pmin⟩
      bit g.slack ++ " " ++ toString g.u ++ " " ++ fl [g.v0, g.p0, g.q0, g.pmax, g.pmin, g.qmax, g.qmin]
    | _, _, _, _, _ => "bad-args"
  | _ => "bad-args"

def lineStr (l : Line Float) : String :=
  toString l.bus1 ++ " " ++ toString l.bus2 ++ " " ++ toString l.u ++ " " ++ bit l.trans ++ " " ++
    fl [l.sn, l.r, l.x, l.b, l.tap, l.phi, l.ra, l.rb, l.rc]

def handleMpl (args : List String) : String :=
  match args with
  | [base, d2r, f, t, st, fs] => match floatOfHex base, floatOfHex d2r, f.toInt?, t.toInt?, st.toInt?, floatsOfHex fs with
    | some base, some d2r, some f, some t, some st, some [r, x, b, ra, rb, rc, ratio, angle] =>
      let l := importBranch d2r ⟨f, t, r, x, b, ra, rb, rc, ratio, angle, st⟩
      let v := lineV base l
      lineStr l ++ " " ++ fl [v.r, v.x, v.b]
    | _, _, _, _, _, _ => "bad-args"
  | _ => "bad-args"

def handleMxl (args : List String) : String :=
  match args with
  | [r2d, b1, b2, u, fs] => match floatOfHex r2d, b1.toInt?, b2.toInt?, u.toInt?, floatsOfHex fs with
    | some r2d, some b1, some b2, some u, some [r, x, b, tap, phi, ra, rb, rc] =>
      let d := exportLine r2d (⟨b1, b2, u, 100.0, r, x, b, false, tap, phi, ra, rb, rc⟩ : Line Float)
      toString d.f ++ " " ++ toString d.t ++ " " ++ toString d.status ++ " " ++
        fl [d.r, d.x, d.b, d.ra, d.rb, d.rc, d.ratio, d.angle]
    | _, _, _, _, _ => "bad-args"
  | _ => "bad-args"

def pqOf (s : String) : Option (PQ Float) :=
  match s.splitOn ":" with
  | [b, u, p, q] => do
    let b ← b.toInt?
    let u ← u.toInt?
    let p ← floatOfHex p
    let q ← floatOfHex q
    pure ⟨b, u, p, q⟩
  | _ => none

def handleMxp (args : List String) : String :=
  match args with
  | [base, bus, pqs] => match floatOfHex base, bus.toInt?, (if pqs == "-" then some [] else (pqs.splitOn ";").mapM pqOf) with
    | some base, some bus, some pqs => fl [exportPd base pqs bus, exportQd base pqs bus]
    | _, _, _ => "bad-args"
  | _ => "bad-args"

def handleRwl (args : List String) : String :=
  match args with
  | [mva, v0, fs] => match floatOfHex mva, floatOfHex v0, floatsOfHex fs with
    | some mva, some v0, some [pl, ql, ip, iq, yp, yq] => fl [rawLoadP mva v0 pl ip yp, rawLoadQ mva v0 ql iq yq]
    | _, _, _ => "bad-args"
  | _ => "bad-args"

def handleRwx (args : List String) : String :=
  match args with
  | [mva, d2r, v1, v2, is, fs] => match floatOfHex mva, floatOfHex d2r, floatOfHex v1, floatOfHex v2, intsOfString is, floatsOfHex fs with
    | some mva, some d2r, some v1, some v2, some [i, j, cw, cz, cm, stat],
      some [mag2, r12, x12, sb, w1, n1, a1, ra, rb, rc, w2, n2] =>
      let t := rawX2 mva d2r v1 v2 ⟨i, j, cw, cz, cm, mag2, stat, r12, x12, sb, w1, n1, a1, ra, rb, rc, w2, n2⟩
      let v := xfV mva v1 t
      lineStr t.line ++ " " ++ fl [t.vn1, t.vn2, v.r, v.x, v.b]
    | _, _, _, _, _, _ => "bad-args"
  | _ => "bad-args"

def handleRw3 (args : List String) : String :=
  match args with
  | [fs] => match floatsOfHex fs with
    | some [r12, x12, r23, x23, r31, x31] =>
      fl [star1 r12 r23 r31, star2 r12 r23 r31, star3 r12 r23 r31, star1 x12 x23 x31, star2 x12 x23 x31, star3 x12 x23 x31]
    | _ => "bad-args"
  | _ => "bad-args"

end Andes.Mpc
