/-! # Configuration model (property C20)

Executable model of `andes/core/common.py::Config` (`load/add/_add/_set/as_dict/check/update`),
`andes/system.py::System.__init__` (config part), `_update_config_object`, `load_config_rc`,
`collect_config/save_config`, `andes/utils/paths.py::get_config_path`, and of the part of the standard
library `configparser.ConfigParser` that those functions use (`set`, `add_section`, `__contains__`,
section proxies with the `DEFAULT` section, `read_dict`/`write`/`read` at the level of key/value texts).

The model follows the code THAT EXISTS, quirks included:

* `Config.add` never overwrites an existing attribute, so the constructor dictionary of `System`
  (added first) beats the rc file and the `-O` options (merged into the rc object), which beat defaults;
* `Config._set` turns a string into `int` if `int()` accepts it, else into `float` if `float()` accepts it;
* `Config.as_dict()` caches its result in `_dict` and only recomputes when the cache is EMPTY or a refresh is
  asked for; `check()` and `collect_config()` ask for a refresh (repaired).  [pinned tree:] they read the cache,
  so after the constructor's `check()` later changes were neither
  validated nor saved;
* `ConfigParser.set` raises `NoSectionError` for a missing section, `add_section` raises
  `DuplicateSectionError` for an existing one; `_update_config_object` (repaired) adds a section exactly when it
  is missing.  [pinned tree:] `_update_config_object` called `set` only when an rc object
  was loaded and `add_section` for EVERY option when it was not;
* a section named `""` or `"DEFAULT"` addresses the parser's defaults, visible in every section.

Numerals: Python's `int(str)`, `float(str)`, `str(int)`, `str(float)` and `float == int` enter through the
structure `Numerals F` (`F` = the type of floats; the driver uses the 64 IEEE bits).  `int` syntax and value
are implemented here (`pyInt`), `float` SYNTAX is implemented here (`isPyFloat`), float VALUES and float
printing are parameters.  No Mathlib. -/
namespace Andes.Config

/-- a configuration value as Python sees it -/
inductive Val (F : Type) where
  | int (i : Int)
  | flt (x : F)
  | str (s : String)
  | bool (b : Bool)
  | none
  deriving DecidableEq, Repr, Inhabited

/-- exceptions, as a small enum -/
inductive Err where
  | noSection        -- configparser.NoSectionError
  | dupSection       -- configparser.DuplicateSectionError
  | badSectionName   -- ValueError('Invalid section name') from add_section('DEFAULT')
  | badAssign        -- ValueError: '=' count of the option is not 1
  | badField         -- ValueError: '.' count of the left-hand side is not 1
  | notAChoice       -- ValueError from Config.check
  | valueType        -- TypeError('option values must be strings') when saving None
  | dupOption        -- configparser.DuplicateOptionError: two fields with one lower-cased name when saving
  deriving DecidableEq, Repr, Inhabited

/-- Python numeral functions -/
structure Numerals (F : Type) where
  parseInt : String → Option Int      -- int(s) (none = ValueError)
  parseFlt : String → Option F        -- float(s)
  printInt : Int → String             -- str(i)
  printFlt : F → String               -- str(x)
  fltEqInt : F → Int → Bool           -- x == i

/-! ## association lists (Python dicts keep insertion order; assignment to an existing key keeps its place) -/

def aget {α : Type} (k : String) : List (String × α) → Option α
  | [] => none
  | (k', v) :: r => if k' = k then some v else aget k r

def aset {α : Type} (k : String) (v : α) : List (String × α) → List (String × α)
  | [] => [(k, v)]
  | (k', v') :: r => if k' = k then (k', v) :: r else (k', v') :: aset k v r

def ahas {α : Type} (k : String) (l : List (String × α)) : Bool := (aget k l).isSome

/-! ## characters and strings (ASCII; the generator stays in ASCII) -/

def isWs (c : Char) : Bool :=
  c = ' ' || c = '\t' || c = '\n' || c = '\r' || c = Char.ofNat 11 || c = Char.ofNat 12 ||
    (28 ≤ c.toNat && c.toNat ≤ 31)

/-- white space skipped by `int()` / `float()` on an ASCII string (C `isspace`) -/
def isWsNum (c : Char) : Bool :=
  c = ' ' || c = '\t' || c = '\n' || c = '\r' || c = Char.ofNat 11 || c = Char.ofNat 12

def lstripNum : List Char → List Char
  | [] => []
  | c :: r => if isWsNum c then lstripNum r else c :: r

def stripNumL (l : List Char) : List Char := (lstripNum (lstripNum l).reverse).reverse

def lstrip : List Char → List Char
  | [] => []
  | c :: r => if isWs c then lstrip r else c :: r

def stripL (l : List Char) : List Char := (lstrip (lstrip l).reverse).reverse

/-- `str.strip()` -/
def strip (s : String) : String := String.ofList (stripL s.toList)

/-- `str.lower()` = `ConfigParser.optionxform` -/
def lower (s : String) : String := String.ofList (s.toList.map Char.toLower)

def countC (c : Char) (s : String) : Nat := s.toList.count c

/-- the two parts of `s.split(c)` when `s` contains `c` exactly once -/
def splitL (c : Char) : List Char → List Char × List Char
  | [] => ([], [])
  | d :: r => if d = c then ([], r) else let p := splitL c r; (d :: p.1, p.2)

def split1 (c : Char) (s : String) : String × String :=
  let p := splitL c s.toList; (String.ofList p.1, String.ofList p.2)

def startsUnderscore (s : String) : Bool :=
  match s.toList with
  | c :: _ => c = '_'
  | [] => false

/-! ## Python `int(str)` and the syntax of `float(str)` -/

/-- digits with single underscores between digits -/
def digitsVal : List Char → Nat → Bool → Option Nat
  | [], acc, prevDigit => if prevDigit then some acc else none
  | c :: r, acc, prevDigit =>
    if c.isDigit then digitsVal r (acc * 10 + (c.toNat - '0'.toNat)) true
    else if c = '_' && prevDigit then
      match r with
      | d :: _ => if d.isDigit then digitsVal r acc false else none
      | [] => none
    else none

def pyIntL (l : List Char) : Option Int :=
  match stripNumL l with
  | '-' :: r => (digitsVal r 0 false).map (fun n => - (Int.ofNat n))
  | '+' :: r => (digitsVal r 0 false).map Int.ofNat
  | r => (digitsVal r 0 false).map Int.ofNat

/-- `int(s)`: optional surrounding white space, optional sign, decimal digits, `_` between digits -/
def pyInt (s : String) : Option Int := pyIntL s.toList

/-- consume a digit part `digit (_? digit)*`; returns the rest (none: no digit part here) -/
def eatDigits : List Char → Bool → Option (List Char)
  | [], started => if started then some [] else none
  | c :: r, started =>
    if c.isDigit then eatDigits r true
    else if c = '_' && started then
      match r with
      | d :: _ => if d.isDigit then eatDigits r false else none
      | [] => none
    else if started then some (c :: r) else none

def isExpTail (l : List Char) : Bool :=
  match l with
  | [] => true
  | e :: r =>
    if e = 'e' || e = 'E' then
      let r' := match r with
        | '+' :: t => t
        | '-' :: t => t
        | t => t
      match eatDigits r' false with
      | some [] => true
      | _ => false
    else false

def isDecimalFloat (l : List Char) : Bool :=
  match l with
  | '.' :: r =>
    match eatDigits r false with
    | some t => isExpTail t
    | none => false
  | _ =>
    match eatDigits l false with
    | some ('.' :: t) =>
      match t with
      | [] => true
      | c :: _ => if c.isDigit then (match eatDigits t false with | some u => isExpTail u | none => false)
                  else isExpTail t
    | some t => isExpTail t
    | none => false

def isPyFloatL (l : List Char) : Bool :=
  let s := stripNumL l
  let body := match s with
    | '+' :: r => r
    | '-' :: r => r
    | r => r
  let low := String.ofList (body.map Char.toLower)
  low = "inf" || low = "infinity" || low = "nan" || isDecimalFloat body

/-- does `float(s)` accept `s`? -/
def isPyFloat (s : String) : Bool := isPyFloatL s.toList

/-! ## `Config` -/

variable {F : Type}

/-- `Config._set`: a string becomes `int` if possible, else `float` if possible -/
def coerce (N : Numerals F) : Val F → Val F
  | .str s =>
    match N.parseInt s with
    | some i => .int i
    | none =>
      match N.parseFlt s with
      | some x => .flt x
      | none => .str s
  | v => v

/-- attributes every `Config` has before any field is added -/
def reserved : List String := ["_name", "_dict", "_help", "_tex", "_alt"]

/-- one `Config` object: `fields` = the non-reserved part of `__dict__` in insertion order,
`cache` = `_dict`, `alt` = the tuple/set entries of `_alt` (string entries are documentation only) -/
structure Cfg (F : Type) where
  name : String
  fields : List (String × Val F)
  cache : List (String × Val F)
  alt : List (String × List (Val F))
  deriving Repr

def Cfg.empty (name : String) : Cfg F := ⟨name, [], [], []⟩

/-- `key in self.__dict__` -/
def Cfg.hasKey (c : Cfg F) (k : String) : Bool := reserved.contains k || ahas k c.fields

/-- `Config._set` -/
def Cfg.set (N : Numerals F) (c : Cfg F) (k : String) (v : Val F) : Cfg F :=
  { c with fields := aset k (coerce N v) c.fields }

/-- direct attribute assignment `cfg.key = val` (no coercion, no check) -/
def Cfg.setattr (c : Cfg F) (k : String) (v : Val F) : Cfg F :=
  { c with fields := aset k v c.fields }

def Cfg.add1 (N : Numerals F) (c : Cfg F) (kv : String × Val F) : Cfg F :=
  if c.hasKey kv.1 then c else c.set N kv.1 kv.2

/-- `Config.add` / `_add`: existing keys are NOT overwritten -/
def Cfg.add (N : Numerals F) (c : Cfg F) (kvs : List (String × Val F)) : Cfg F :=
  kvs.foldl (Cfg.add1 N) c

/-- the public part of `__dict__` -/
def publicOf (l : List (String × Val F)) : List (String × Val F) :=
  l.filter (fun kv => !startsUnderscore kv.1)

/-- the state after a call of `as_dict(refresh)` -/
def Cfg.asDict (c : Cfg F) (refresh : Bool) : Cfg F :=
  if refresh || c.cache.isEmpty then { c with cache := publicOf c.fields } else c

/-- `val in _alt` for a tuple/set `_alt` whose members are ints or strings -/
def eqMember (N : Numerals F) (v m : Val F) : Bool :=
  match m, v with
  | .int a, .int b => a = b
  | .int a, .flt x => N.fltEqInt x a
  | .int a, .bool b => a = (if b then 1 else 0)
  | .str a, .str b => a = b
  | _, _ => false

def memAlt (N : Numerals F) (v : Val F) (a : List (Val F)) : Bool := a.any (eqMember N v)

/-- first key of `d` whose value is outside its `_alt` -/
def firstBad (N : Numerals F) (alt : List (String × List (Val F))) : List (String × Val F) → Option String
  | [] => none
  | (k, v) :: r =>
    match aget k alt with
    | some a => if memAlt N v a then firstBad N alt r else some k
    | none => firstBad N alt r

/-- `Config.check` (reads `as_dict(refresh=True)`: the live fields; on the pinned tree it read the cached
dictionary, which the constructor's own `check()` had filled — finding `alt-not-rejected-by-update`, repaired) -/
def Cfg.check (N : Numerals F) (c : Cfg F) : Except (Err × String) (Cfg F) :=
  let c' := c.asDict true
  match firstBad N c'.alt c'.cache with
  | some k => .error (Err.notAChoice, k)
  | none => .ok c'

/-- `Config.update`: `_set` every pair, then `check()`.  On an exception the fields stay set. -/
def Cfg.updateFields (N : Numerals F) (c : Cfg F) (kvs : List (String × Val F)) : Cfg F :=
  kvs.foldl (fun c kv => c.set N kv.1 kv.2) c

def Cfg.update (N : Numerals F) (c : Cfg F) (kvs : List (String × Val F)) : Except (Err × String) (Cfg F) :=
  (c.updateFields N kvs).check N

/-! ## `ConfigParser` at the level of key/value texts -/

abbrev Sect := List (String × String)

structure Rc where
  defaults : Sect
  sects : List (String × Sect)
  deriving Repr, DecidableEq

def Rc.empty : Rc := ⟨[], []⟩

def isDefaultName (s : String) : Bool := s = "" || s = "DEFAULT"

/-- `ConfigParser.set(section, key, value)` -/
def Rc.setOpt (rc : Rc) (sec key val : String) : Except Err Rc :=
  if isDefaultName sec then .ok { rc with defaults := aset (lower key) val rc.defaults }
  else match aget sec rc.sects with
    | some own => .ok { rc with sects := aset sec (aset (lower key) val own) rc.sects }
    | none => .error Err.noSection

/-- `ConfigParser.add_section(section)` -/
def Rc.addSection (rc : Rc) (sec : String) : Except Err Rc :=
  if sec = "DEFAULT" then .error Err.badSectionName
  else if ahas sec rc.sects then .error Err.dupSection
  else .ok { rc with sects := rc.sects ++ [(sec, [])] }

/-- `name in config` -/
def Rc.hasName (rc : Rc) (name : String) : Bool := name = "DEFAULT" || ahas name rc.sects

/-- the section's own options (empty for DEFAULT and for absent sections) -/
def Rc.own (rc : Rc) (name : String) : Sect := (aget name rc.sects).getD []

/-- `OrderedDict(config[name])`: own options, then the defaults not shadowed -/
def Rc.items (rc : Rc) (name : String) : Sect :=
  rc.own name ++ rc.defaults.filter (fun kv => !ahas kv.1 (rc.own name))

/-- `config[name][key]` -/
def Rc.lookup (rc : Rc) (name key : String) : Option String :=
  match aget key (rc.own name) with
  | some v => some v
  | none => aget key rc.defaults

/-- `Config.load(config)` -/
def Cfg.load (N : Numerals F) (c : Cfg F) (rc : Option Rc) : Cfg F :=
  match rc with
  | none => c
  | some r => if r.hasName c.name then c.add N ((r.items c.name).map (fun kv => (kv.1, Val.str kv.2))) else c

/-! ## `-O SECTION.FIELD=VALUE` options -/

/-- validation and splitting of one option string -/
def parseOpt (item : String) : Except Err (String × String × String) :=
  if countC '=' item ≠ 1 then .error Err.badAssign
  else
    let p := split1 '=' item
    if countC '.' p.1 ≠ 1 then .error Err.badField
    else
      let q := split1 '.' p.1
      -- an empty section or field name is refused like a missing `.` (on the pinned tree `.x=1` was accepted and
      -- landed in DEFAULT: finding `malformed-option-accepted`, repaired)
      if strip q.1 = "" || strip q.2 = "" then .error Err.badField
      else .ok (strip q.1, strip q.2, strip p.2)

/-- `if section != DEFAULTSECT and not has_section(section): add_section(section)` -/
def Rc.ensureSection (rc : Rc) (sec : String) : Except Err Rc :=
  if sec = "DEFAULT" || ahas sec rc.sects then .ok rc else rc.addSection sec

/-- the loop of `_update_config_object` (after the repair: a section is added exactly when it is missing,
whether or not an rc file was loaded; on the pinned tree the loop called `set` alone with a loaded rc object
and `add_section` unconditionally without one) -/
def applyOpts : Rc → List String → Except Err Rc
  | rc, [] => .ok rc
  | rc, item :: rest =>
    match parseOpt item with
    | .error e => .error e
    | .ok (s, k, v) =>
      match rc.ensureSection s with
      | .error e => .error e
      | .ok rc1 =>
        match rc1.setOpt s k v with
        | .error e => .error e
        | .ok rc2 => applyOpts rc2 rest

/-- `System._update_config_object` -/
def updateRc (rc : Option Rc) (opts : Option (List String)) : Except Err (Option Rc) :=
  match opts with
  | none => .ok rc
  | some [] => .ok rc
  | some os =>
    match rc with
    | some r => (applyOpts r os).map some
    | none => (applyOpts Rc.empty os).map some

/-! ## construction of the configs of a `System` -/

/-- what a class declares: defaults in `add` order, `_alt` tuples/sets -/
structure Decl (F : Type) where
  name : String
  defaults : List (String × Val F)
  alt : List (String × List (Val F))
  deriving Repr

/-- `Config(name, dct)`, `load(rc)`, `add(defaults)`, `add_extra('_alt')` — before `check()` -/
def build (N : Numerals F) (d : Decl F) (dict : List (String × Val F)) (rc : Option Rc) : Cfg F :=
  { (((Cfg.empty d.name).add N dict).load N rc).add N d.defaults with alt := d.alt }

/-- one config object as constructed: `build` followed by `check()` -/
def construct (N : Numerals F) (d : Decl F) (dict : List (String × Val F)) (rc : Option Rc) :
    Except (Err × String) (Cfg F) :=
  (build N d dict rc).check N

/-- all configs: the first declaration is `System` (it alone receives the dictionary) -/
def constructAll (N : Numerals F) (rc : Option Rc) : List (Decl F) → List (String × Val F) →
    Except (Err × String) (List (Cfg F))
  | [], _ => .ok []
  | d :: ds, dict =>
    match construct N d dict rc with
    | .error (e, k) => .error (e, d.name ++ "." ++ k)
    | .ok c =>
      match constructAll N rc ds [] with
      | .error e => .error e
      | .ok cs => .ok (c :: cs)

/-- `System(config=dict, config_path=.., options={'config_option': opts})`, config part -/
def mkSystem (N : Numerals F) (decls : List (Decl F)) (dict : List (String × Val F)) (rc : Option Rc)
    (opts : Option (List String)) : Except (Err × String) (List (Cfg F)) :=
  match updateRc rc opts with
  | .error e => .error (e, "")
  | .ok rc' => constructAll N rc' decls dict

/-! ## saving -/

/-- `str(value)` as `read_dict` applies it; `None` is refused by `set` -/
def printVal (N : Numerals F) : Val F → Except Err String
  | .int i => .ok (N.printInt i)
  | .flt x => .ok (N.printFlt x)
  | .str s => .ok s
  | .bool b => .ok (if b then "True" else "False")
  | .none => .error Err.valueType

/-- the section written for one config (`read_dict`): keys lower-cased, values printed; `seen` = the
lower-cased keys already written (a repeated one raises DuplicateOptionError before its value is looked at) -/
def saveKVs (N : Numerals F) : List (String × Val F) → List String → Except Err Sect
  | [], _ => .ok []
  | (k, v) :: r, seen =>
    if seen.contains (lower k) then .error Err.dupOption
    else
      match printVal N v with
      | .error e => .error e
      | .ok t =>
        match saveKVs N r (lower k :: seen) with
        | .error e => .error e
        | .ok s => .ok ((lower k, t) :: s)

def Cfg.saveSect (N : Numerals F) (c : Cfg F) : Except Err (Cfg F × Sect) :=
  -- `collect_config` reads `as_dict(refresh=True)` (pinned tree: the cached dictionary, finding `save-stale-cache`)
  let c' := c.asDict true
  match saveKVs N c'.cache [] with
  | .error e => .error e
  | .ok s => .ok (c', s)

/-- what a value text becomes after `write` + `read` of the rc file (one line: stripped) -/
def fileText (t : String) : String := strip t

/-- `collect_config` + `write` + `read`: sections with an empty `as_dict()` are skipped, except the
first (`System`), which is always written -/
def saveAll (N : Numerals F) : List (Cfg F) → Bool → Except Err (List (Cfg F) × List (String × Sect))
  | [], _ => .ok ([], [])
  | c :: cs, first =>
    match c.saveSect N with
    | .error e => .error e
    | .ok (c', s) =>
      match saveAll N cs false with
      | .error e => .error e
      | .ok (cs', ss) =>
        let s' := s.map (fun kv => (kv.1, fileText kv.2))
        .ok (c' :: cs', if s.isEmpty && !first then ss else (c.name, s') :: ss)

/-- the rc object a new system reads back from the saved file -/
def savedRc (ss : List (String × Sect)) : Rc := ⟨[], ss⟩

/-! ## which rc file is read (`get_config_path` + the head of `System.__init__`) -/

inductive PathSrc where
  | arg | cwd | home | none
  deriving DecidableEq, Repr

def pickPath (argGiven defaultConfig cwdFile homeFile : Bool) : PathSrc :=
  if defaultConfig then .none
  else if argGiven then .arg
  else if cwdFile then .cwd
  else if homeFile then .home
  else .none

end Andes.Config
