import Andes.Model.Hex
import Andes.Model.TdsLoop
import Andes.Model.Events
/-! Line protocol for the TDS loop model (`Float` instance).

`tds <t0> <tf0> <tstep> <shrinkt> <fixt> <freqRaw> <sysFreq> <sw> <seg>;<seg>;...`
where `<seg>` is `<tf>:<v>,<v>,...` (`-` for none) and a verdict `<v>` is `c<n>` (converged in n
iterations), `x<n>` (converged, stability criterion trips), `f<n>` (not converged), `n<n>` (NaN). -/
namespace Andes.Tds
open Andes.Hex

def verdictOf (s : String) : Option Verdict :=
  match s.toList with
  | k :: rest =>
    match (String.ofList rest).toNat? with
    | some n =>
      if k == 'c' then some ⟨true, n, false, false, false⟩
      else if k == 'x' then some ⟨true, n, false, true, false⟩
      else if k == 'f' then some ⟨false, n, false, false, false⟩
      else if k == 'n' then some ⟨false, n, true, false, false⟩
      else if k == 'e' then some ⟨true, n, false, false, true⟩
      else if k == 'g' then some ⟨false, n, false, false, true⟩
      else none
    | none => none
  | [] => none

def segOf (s : String) : Option (Float × List Verdict) :=
  match s.splitOn ":" with
  | [tf, vs] => do
    let tf ← floatOfHex tf
    let vs ← if vs == "-" then some [] else (vs.splitOn ",").mapM verdictOf
    pure (tf, vs)
  | _ => none

def showSt (c : Cfg Float) (s : St Float) (used : Nat) : String :=
  " ".intercalate [toString used, hexOfFloat s.t, hexOfFloat s.h, hexOfFloat s.deltat, hexOfFloat s.dmin,
    hexOfFloat s.dmax, toString s.idx, toString s.niter, bit s.converged, bit s.busted, bit s.fixt,
    bit (succeed c s), toString s.kcount, bit (guard c s), toString s.connChecks, bit s.customPending]

/-- run the segments one after the other; the first starts from `init`, the others from `resume` -/
def runSegs (c : Cfg Float) (fixt : Bool) : List (Float × List Verdict) → Option (St Float) → List String → St Float × List String
  | [], some s, acc => (s, acc.reverse)
  | [], none, acc => (preInit fixt, acc.reverse)
  | (tf, vs) :: rest, prev, acc =>
    let c' := { c with tf := tf }
    let s0 := match prev with
      | none => init c' fixt
      | some s => resume c' s
    let s1 := run c' s0 vs
    runSegs c fixt rest (some s1) (showSt c' s1 (used c' s0 vs) :: acc)

def handleTds (args : List String) : String :=
  match args with
  | [t0, tstep, shrinkt, fixt, freqRaw, sysFreq, sw, segs, cc] =>
    let r : Option String := do
      let t0 ← floatOfHex t0
      let tstep ← floatOfHex tstep
      let shrinkt ← boolOf shrinkt
      let fixt ← boolOf fixt
      let freqRaw ← floatOfHex freqRaw
      let sysFreq ← floatOfHex sysFreq
      let sw ← floatsOfHex sw
      let segs ← (segs.splitOn ";").mapM segOf
      let cc ← boolOf cc
      let c : Cfg Float := { t0 := t0, tf := 0.0, tstep := tstep, shrinkt := shrinkt, freqRaw := freqRaw,
                             sysFreq := sysFreq, sw := sw, checkConn := cc }
      let (s, outs) := runSegs c fixt segs none []
      pure (" | ".intercalate (outs ++ [hexOfFloats s.stamps.reverse, natsToString s.fired.reverse, hexOfFloats s.customs.reverse]))
    r.getD "bad-op"
  | _ => "bad-op"

/-- `swt <eps> <now> <times>` : `System.store_switch_times` -/
def handleSwt (args : List String) : String :=
  match args with
  | [eps, now, times] =>
    let r : Option String := do
      let eps ← floatOfHex eps
      let now ← floatOfHex now
      let times ← floatsOfHex times
      pure (hexOfFloats (switchTimes eps now times))
    r.getD "bad-op"
  | _ => "bad-op"

end Andes.Tds

namespace Andes.Events
open Andes.Hex

def togOf (s : String) : Option (Toggle Float) :=
  match s.splitOn ":" with
  | [t, u, d] => do
    let t ← floatOfHex t
    let u ← boolOf u
    let d ← d.toNat?
    pure ⟨t, u, d⟩
  | _ => none

/-- `tog <t:u:dev,...> <processed switch times> <initial statuses as 0/1 string>` -/
def handleTog (args : List String) : String :=
  match args with
  | [ts, fired, u0] =>
    let r : Option String := do
      let ts ← if ts == "-" then some [] else (ts.splitOn ",").mapM togOf
      let fired ← floatsOfHex fired
      let u0 := u0.toList.map (· == '1')
      let u := applyRun ts fired (List.range fired.length) u0
      pure (String.ofList (u.map (fun b => if b then '1' else '0')))
    r.getD "bad-op"
  | _ => "bad-op"

end Andes.Events
