import Andes.Model.Hex
import Andes.Model.Registry
/-! Line protocol for the registry model.

`reg <names> <adds> <ops>`

* value: `-` (None) | `n<int>` | `s<hex of utf-8>`
* `<names>`: model names of the group, `,`-separated
* `<adds>`: `;`-separated `m|idx|v,v,...` (`_` for no adds)
* `<ops>`: `;`-separated (`_` for none), evaluated on the group after all adds
  * `u|idx` group idx2uid, `m|idx` group idx2model, `w|m|idx` model idx2uid
  * `f|g or m|keys|allow_none|allow_all|default|q/q/...`  find_idx, `q` = `v,v,...`
  * `b|from>to,from>to,...`   collect_ref: group lists `#` per-model lists
  * `d|isModel|target|addTo|linkKey|nvals|autoFind|autoAdd|u>link,...`  find_or_add
  * `l|v,v,...` link_external of a mandatory indexer
  * `x|allow_none|a,a,...|v,v,...` ExtVar addresses on a group (`a` = address per group uid)

Output: `idx:guid:muid,...` of the added devices, then `;`-separated op results (`E` = error). -/
namespace Andes.Registry
open Andes.Hex

def hexPairs : List Char → Option (List Nat)
  | [] => some []
  | a :: b :: t => do
    let x ← hexDigit a
    let y ← hexDigit b
    let r ← hexPairs t
    pure ((x * 16 + y) :: r)
  | _ => none

def strOfHex (s : String) : Option String := do
  let bs ← hexPairs s.toList
  String.fromUTF8? (ByteArray.mk (bs.map UInt8.ofNat).toArray)

def hexOfStr (s : String) : String :=
  String.ofList (s.toUTF8.toList.flatMap (fun b => [hexChar (b.toNat / 16), hexChar (b.toNat % 16)]))

/-- `some none` = Python `None` -/
def valOf (s : String) : Option Val :=
  if s == "-" then some none
  else match s.toList with
    | 'n' :: r => (String.ofList r).toInt?.map (fun i => some (Idx.num i))
    | 's' :: r => (strOfHex (String.ofList r)).map (fun t => some (Idx.str t))
    | _ => none

def idxOf (s : String) : Option Idx := do
  let v ← valOf s
  v

def showIdx : Idx → String
  | .num i => "n" ++ toString i
  | .str s => "s" ++ hexOfStr s

def showVal : Val → String
  | none => "-"
  | some i => showIdx i

def listOf (sep : String) (s : String) : List String := if s == "_" || s == "" then [] else s.splitOn sep

def showList (sep : String) (l : List String) : String := if l.isEmpty then "_" else sep.intercalate l

def valsOf (s : String) : Option (List Val) := (listOf "," s).mapM valOf

def pairOf (s : String) : Option (Val × Val) :=
  match s.splitOn ">" with
  | [a, b] => do
    let x ← valOf a
    let y ← valOf b
    pure (x, y)
  | _ => none

def addOf (s : String) : Option (Nat × Option Idx × List Val) :=
  match s.splitOn "|" with
  | [m, i, vs] => do
    let m ← m.toNat?
    let i ← valOf i
    let vs ← valsOf vs
    pure (m, i, vs)
  | _ => none

def showAns (r : Option (List (List Val))) : String :=
  match r with
  | none => "E"
  | some ls => showList "/" (ls.map (fun l => showList "," (l.map showVal)))

def showNat? : Option Nat → String
  | none => "E"
  | some k => toString k

def showRefs (ls : List (List Idx)) : String := showList "/" (ls.map (fun l => showList "," (l.map showIdx)))

def showDev (d : Dev) : String :=
  toString d.mdl ++ ":" ++ showIdx d.idx ++ ":" ++ showList "," (d.vals.map showVal) ++ ":" ++ toString d.guid ++ ":" ++ toString d.muid

def runOp (names : List String) (g : Grp) (op : String) : String :=
  let nm := names.length
  let r : Option String :=
    match op.splitOn "|" with
    | ["u", i] => do
      let i ← idxOf i
      pure (showNat? (idx2uid g i))
    | ["m", i] => do
      let i ← idxOf i
      pure (showNat? (idx2model g i))
    | ["w", m, i] => do
      let m ← m.toNat?
      let i ← idxOf i
      pure (showNat? (modelIdx2uid g m i))
    | ["f", scope, keys, an, aa, dflt, qs] => do
      let keys ← natsOfString keys
      let an ← boolOf an
      let aa ← boolOf aa
      let dflt ← valOf dflt
      let qs ← (listOf "/" qs).mapM valsOf
      if scope == "g" then pure (showAns (groupFind g nm keys qs an aa dflt))
      else do
        let m ← scope.toNat?
        pure (showAns (modelFind (rowsOf g m) keys qs an aa dflt))
    | ["b", refs] => do
      let ps ← (listOf "," refs).mapM pairOf
      let rs ← ps.mapM (fun p => match p.1 with | some f => some (f, p.2) | none => none)
      pure (showRefs (collectRef g rs) ++ "#" ++
        "#".intercalate ((List.range nm).map (fun m => showRefs (collectRefM g m rs))))
    | ["d", im, target, addTo, linkKey, nvals, af, aa, entries] => do
      let im ← boolOf im
      let target ← target.toNat?
      let addTo ← addTo.toNat?
      let linkKey ← linkKey.toNat?
      let nvals ← nvals.toNat?
      let af ← boolOf af
      let aa ← boolOf aa
      let es ← (listOf "," entries).mapM pairOf
      let c : FCfg := ⟨im, target, addTo, nm, linkKey, nvals, af, aa⟩
      let r := finder names c g es
      pure (showList "," (r.2.map showVal) ++ "#" ++ showList "," ((r.1.drop g.length).map showDev))
    | ["l", refs] => do
      let rs ← valsOf refs
      pure (match linkAll g rs with
        | none => "E"
        | some us => natsToString us)
    | ["x", an, addrs, refs] => do
      let an ← boolOf an
      let addrs ← natsOfString (if addrs == "_" then "-" else addrs)
      let rs ← valsOf refs
      pure (match rs.mapM (extAddr g (fun k => addrs.getD k 0) an) with
        | none => "E"
        | some us => natsToString us)
    | _ => none
  r.getD "bad-op"

def handleReg (args : List String) : String :=
  match args with
  | [names, adds, ops] =>
    let r : Option String := do
      let names := listOf "," names
      let adds ← (listOf ";" adds).mapM addOf
      let g := adds.foldl (fun g a => addDev names g a.1 a.2.1 a.2.2) []
      let head := showList "," (g.map (fun d => showIdx d.idx ++ ":" ++ toString d.guid ++ ":" ++ toString d.muid ++
        ":" ++ showVal (d.vals.headD none)))
      let outs := (listOf ";" ops).map (runOp names g)
      pure (";".intercalate (head :: outs))
    r.getD "bad-input"
  | _ => "bad-arity"

def handleUniq (args : List String) : String :=
  match args with
  | [vs] =>
    match valsOf vs with
    | some l => showList "," ((uniqueAdds [] l).2.map (fun r => match r with | .ok => "ok" | .dup => "E" | .missing => "M"))
    | none => "bad-input"
  | _ => "bad-arity"

end Andes.Registry
