import Andes.Model.Hex
import Andes.Model.Store
/-! Line protocol for the storage model (`Float` stamps).

* `sto <saveEvery> <limit> <maxStore> <output> <auto> <finalSave> <xidx|*> <yidx|*> <seg>;<seg>;...`
  `<seg>` = `<step>|<step>|...` or `_`; `<step>` = `<t>:<x values>:<y values>` (hex floats, `-` = none).
  Prints the state after every segment (and after the final manual `save_output()` when `finalSave`),
  joined by ` ;; `: `file=<rows|none> mem=<rows> ptr=<n> app=<b> k=<n>`, `<rows>` = `t:v,v|t:v,v`.
* `oidx <models> <rows>`  -> `System.set_output_subidx`
* `qry <idx|*> <addr> <sub|*>` -> columns read by `get_data` / `_process_yidx`
* `lab <xidx|*> <yidx|*> <nx> <ny>` -> labels, variable names abbreviated `x<addr>` / `y<addr>`
* `fnd <names> <patterns>` -> `TDSData.find` with plain substrings
* `csv <saveEvery> <limit> <maxStore> <times>` -> replay steps + storage state (payload = csv row number) -/
namespace Andes.Store
open Andes.Hex

def showRows {ρ : Type} (f : ρ → String) (l : List (Float × ρ)) : String :=
  if l.isEmpty then "-" else "|".intercalate (l.map (fun p => hexOfFloat p.1 ++ ":" ++ f p.2))

def showSt {ρ : Type} (f : ρ → String) (s : St Float ρ) : String :=
  "file=" ++ (match s.file with | none => "none" | some r => showRows f r) ++ " mem=" ++ showRows f s.mem ++
    " ptr=" ++ toString s.idxPtr ++ " app=" ++ bit s.append ++ " k=" ++ toString s.kcount

def selOf (xs ys : String) : Option Sel :=
  if xs == "*" then some none else do
    let xi ← natsOfString xs
    let yi ← natsOfString ys
    pure (some (xi, yi))

def stepOf (sel : Sel) (s : String) : Option (Float × List Float) :=
  match s.splitOn ":" with
  | [t, x, y] => do
    let t ← floatOfHex t
    let x ← floatsOfHex x
    let y ← floatsOfHex y
    pure (t, project sel x y)
  | _ => none

def segOf (sel : Sel) (s : String) : Option (List (Float × List Float)) :=
  if s == "_" then some [] else (s.splitOn "|").mapM (stepOf sel)

def cfgOf (se lim ms out au : String) : Option Cfg := do
  let se ← se.toNat?
  let lim ← boolOf lim
  let ms ← ms.toNat?
  let out ← boolOf out
  let au ← boolOf au
  pure { saveEvery := se, limitStore := lim, maxStore := ms, output := out, auto := au }

def runShow {ρ : Type} (f : ρ → String) (c : Cfg) : St Float ρ → List (List (Float × ρ)) → List String → St Float ρ × List String
  | s, [], acc => (s, acc.reverse)
  | s, seg :: rest, acc => let s1 := runSeg c s seg; runShow f c s1 rest (showSt f s1 :: acc)

def handleSto (args : List String) : String :=
  match args with
  | [se, lim, ms, out, au, fin, xs, ys, segs] =>
    let r : Option String := do
      let c ← cfgOf se lim ms out au
      let fin ← boolOf fin
      let sel ← selOf xs ys
      let segs ← (segs.splitOn ";").mapM (segOf sel)
      let (s, outs) := runShow hexOfFloats c init segs []
      let outs := if fin then outs ++ [showSt hexOfFloats (saveOutput c s)] else outs
      pure (" ;; ".intercalate outs)
    r.getD "bad-op"
  | _ => "bad-op"

/-! `oidx`: models `cls/idx,idx/var~x~a,a+var~y~a&...`, rows `model~var~dev&...` (`*` = not given) -/
def varOf (s : String) : Option VarD :=
  match s.splitOn "~" with
  | [n, c, a] => do
    let a ← natsOfString a
    pure { name := n, isX := c == "x", addr := a }
  | _ => none

def modelOf (s : String) : Option ModelD :=
  match s.splitOn "/" with
  | [c, idx, vars] => do
    let vs ← if vars == "-" then some [] else (vars.splitOn "+").mapM varOf
    pure { cls := c, idx := if idx == "-" then [] else idx.splitOn ",", vars := vs }
  | _ => none

def optOf (s : String) : Option String := if s == "*" then none else some s

def outRowOf (s : String) : Option OutRow :=
  match s.splitOn "~" with
  | [m, v, d] => some { model := m, var := optOf v, dev := optOf d }
  | _ => none

def handleOidx (args : List String) : String :=
  match args with
  | [ms, rs] =>
    let r : Option String := do
      let ms ← if ms == "-" then some [] else (ms.splitOn "&").mapM modelOf
      let rs ← if rs == "-" then some [] else (rs.splitOn "&").mapM outRowOf
      let (xi, yi) := outputIdx ms rs
      pure (natsToString xi ++ " " ++ natsToString yi)
    r.getD "bad-op"
  | _ => "bad-op"

def handleQry (args : List String) : String :=
  match args with
  | [idx, addr, sub] =>
    let r : Option String := do
      let sel ← if idx == "*" then some none else (natsOfString idx).map some
      let addr ← natsOfString addr
      let sub ← if sub == "*" then some none else (natsOfString sub).map some
      pure (match queryCols sel addr sub with
        | none => "err"
        | some cols => natsToString cols ++ " " ++ natsToString (cols.map (colAddr sel)))
    r.getD "bad-op"
  | _ => "bad-op"

def handleLab (args : List String) : String :=
  match args with
  | [xs, ys, nx, ny] =>
    let r : Option String := do
      let sel ← selOf xs ys
      let nx ← nx.toNat?
      let ny ← ny.toNat?
      let l := labels sel ((List.range nx).map (fun i => "x" ++ toString i)) ((List.range ny).map (fun i => "y" ++ toString i))
      pure (if l.isEmpty then "-" else ",".intercalate l)
    r.getD "bad-op"
  | _ => "bad-op"

def handleFnd (args : List String) : String :=
  match args with
  | [names, pats] => natsToString (findNames (names.splitOn ",") (pats.splitOn ","))
  | _ => "bad-op"

def handleCsv (args : List String) : String :=
  match args with
  | [se, lim, ms, times] =>
    let r : Option String := do
      let c ← cfgOf se lim ms "0" "1"
      let times ← floatsOfHex times
      let (steps, hang) := csvSteps times
      let s := runSeg c (init : St Float Nat) steps
      pure ("steps=" ++ showRows toString steps ++ " hang=" ++ bit hang ++ " " ++ showSt toString s)
    r.getD "bad-op"
  | _ => "bad-op"

end Andes.Store
