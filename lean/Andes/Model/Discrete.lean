/-!
# Model of the memory-less discrete components of `andes/core/discrete.py`

Per-device pure functions (NumPy vectorisation = `List.map`; the only cross-device couplings — the
`if not np.all(self.zi)` guard of `AntiWindup.check_eq`, the `ValueError` of `Switcher`, the selection of
`SortedLimiter` — are modelled on lists).

`Limiter.check_var` (= `HardLimiter`, `DeadBand`), `Limiter.do_adjust_lower/upper`, `AntiWindup.check_eq`
with the `x_set` write-back of `System.fg_to_dae` and the `q` zeroing of `daeint.py`, `RateLimiter.check_eq`,
`AntiWindupRate.check_eq`, `SortedLimiter.check_var`/`calc_select`, `LessThan`, `IsEqual`, `Switcher`,
`Selector`, `DeadBandRT`.

Polymorphic in the scalar: at `Float` the driver executes the very same IEEE operation sequence as the
NumPy code (outputs compared bit for bit), at `ℚ` the theorems of `Andes/Props/C09.lean` are proved.
Flags are `Bool` wherever the code stores the result of a comparison / logical operation (NumPy stores
them as `0.`/`1.`); `ofB` converts where the code does arithmetic with them.  No Mathlib import.
-/
namespace Andes.Discrete

section
variable {α : Type} [Add α] [Sub α] [Mul α] [Div α] [Neg α] [LT α] [DecidableLT α] [LE α] [DecidableLE α]
  [BEq α] [OfScientific α]

/-- a flag used in arithmetic -/
def ofB (b : Bool) : α := if b then 1.0 else 0.0
/-- NumPy truthiness of a number (`np.where(x)`, `np.logical_and(x, ..)`) -/
def nz (x : α) : Bool := !(x == 0.0)
/-- Python/NumPy `abs` -/
def pabs (a : α) : α := if a < 0.0 then -a else a

/-! ## Limiter / HardLimiter / DeadBand -/

/-- constructor arguments of `Limiter` -/
structure LimCfg where
  enable : Bool
  noLower : Bool
  noUpper : Bool
  /-- `sign_lower == -1` -/
  negLower : Bool
  /-- `sign_upper == -1` -/
  negUpper : Bool
  equal : Bool
  /-- the constructor's `allow_adjust` -/
  allowAdjust : Bool
deriving Repr

/-- keyword arguments of one `check_var` / `check_eq` call -/
structure Call where
  allowAdjust : Bool
  adjustLower : Bool
  adjustUpper : Bool
  isInit : Bool
deriving Repr

/-- the default call of the simulation loop (`l_update_var`, `l_check_eq(init=False)`) -/
def Call.plain : Call := ⟨true, false, false, false⟩

/-- one device of a limiter: the stored limit parameters and the three flags -/
structure Lim (α : Type) where
  lower : α
  upper : α
  zi : Bool
  zl : Bool
  zu : Bool

/-- `-self.upper.v if self.sign_upper.v == -1 else self.upper.v` -/
def sgn (neg : Bool) (x : α) : α := if neg then -x else x

def adjU (c : LimCfg) (k : Call) : Bool := c.allowAdjust && k.isInit && k.allowAdjust && k.adjustUpper
def adjL (c : LimCfg) (k : Call) : Bool := c.allowAdjust && k.isInit && k.allowAdjust && k.adjustLower

/-- the local array `upper_v` after `do_adjust_upper` (`mask = val > upper; upper[mask] = val[mask]`) -/
def upperEff (c : LimCfg) (k : Call) (u upper : α) : α :=
  if adjU c k && decide (sgn c.negUpper upper < u) then u else sgn c.negUpper upper
/-- the local array `lower_v` after `do_adjust_lower` (`mask = val < lower`) -/
def lowerEff (c : LimCfg) (k : Call) (u lower : α) : α :=
  if adjL c k && decide (u < sgn c.negLower lower) then u else sgn c.negLower lower

/-- `np.greater_equal(u, upper)` / `np.greater(u, upper)` -/
def cmpU (eq : Bool) (u up : α) : Bool := if eq then decide (up ≤ u) else decide (up < u)
/-- `np.less_equal(u, lower)` / `np.less(u, lower)` -/
def cmpL (eq : Bool) (u lo : α) : Bool := if eq then decide (u ≤ lo) else decide (u < lo)

def limZu (c : LimCfg) (k : Call) (s : Lim α) (u : α) : Bool :=
  if !c.enable || c.noUpper then s.zu else cmpU c.equal u (upperEff c k u s.upper)
def limZl (c : LimCfg) (k : Call) (s : Lim α) (u : α) : Bool :=
  if !c.enable || c.noLower then s.zl else cmpL c.equal u (lowerEff c k u s.lower)
def limZi (c : LimCfg) (k : Call) (s : Lim α) (u : α) : Bool :=
  if !c.enable then s.zi else !(limZu c k s u || limZl c k s u)
/-- the stored parameter: the adjustment is in place only when the sign is `+1` (with `-1` the negated
copy is adjusted and thrown away — the `FIXME` in the source) -/
def limUpper (c : LimCfg) (k : Call) (s : Lim α) (u : α) : α :=
  if c.enable && !c.noUpper && !c.negUpper then upperEff c k u s.upper else s.upper
def limLower (c : LimCfg) (k : Call) (s : Lim α) (u : α) : α :=
  if c.enable && !c.noLower && !c.negLower then lowerEff c k u s.lower else s.lower

/-- `Limiter.check_var` for one device -/
def limCheckVar (c : LimCfg) (k : Call) (s : Lim α) (u : α) : Lim α :=
  { lower := limLower c k s u, upper := limUpper c k s u,
    zi := limZi c k s u, zl := limZl c k s u, zu := limZu c k s u }

/-! ## DeadBandRT -/

/-- `self.zur[:] = np.equal(self.zu + self.zi, 2) + self.zur * np.equal(self.zi, self.zi)`
(evaluated with the flags of the CURRENT call — the defect: the previous `zu`/`zi` are not kept) -/
def dbrtRet (zside zi : Bool) (zr : α) : α :=
  ofB ((ofB zside + ofB zi : α) == 2.0) + zr * ofB ((ofB zi : α) == ofB zi)

/-- the documented rule: set when (previous side flag and present `zi`), hold while `zi` is unchanged,
clear otherwise -/
def dbrtRetDoc (prevSide prevZi zi zr : Bool) : Bool :=
  (prevSide && zi) || (zr && (prevZi == zi))

/-- one device of a `DeadBandRT` -/
structure Dbrt (α : Type) where
  lim : Lim α
  zur : α
  zlr : α

/-- the constructor arguments `DeadBand` passes to `Limiter` -/
def dbCfg (enable : Bool) : LimCfg :=
  { enable := enable, noLower := false, noUpper := false, negLower := false, negUpper := false,
    equal := false, allowAdjust := false }

/-- `DeadBandRT.check_var` for one device -/
def dbrtCheckVar (enable : Bool) (s : Dbrt α) (u : α) : Dbrt α :=
  let l := limCheckVar (dbCfg enable) Call.plain s.lim u
  if !enable then { s with lim := l }
  else { lim := l, zur := dbrtRet l.zu l.zi s.zur, zlr := dbrtRet l.zl l.zi s.zlr }

/-! ## AntiWindup -/

/-- one device behind an anti-windup limiter: limits, flags, the state value and its equation value -/
structure Aw (α : Type) where
  lower : α
  upper : α
  zi : Bool
  zl : Bool
  zu : Bool
  zl0 : Bool
  zu0 : Bool
  x : α
  e : α

/-- new `zu`; `lock` is `niter_lock`.  `equal` is not consulted by `check_eq`; `enable` is tested once, before
anything else (`awCheckEqAll`). -/
def awZu (c : LimCfg) (k : Call) (lock niter : Nat) (s : Aw α) (u : α) : Bool :=
  if c.noUpper then s.zu
  else
    let z := decide (upperEff c k u s.upper ≤ u) && decide ((0.0 : α) ≤ s.e)
    if lock < niter then (s.zu || z) else z
def awZl (c : LimCfg) (k : Call) (lock niter : Nat) (s : Aw α) (u : α) : Bool :=
  if c.noLower then s.zl
  else
    let z := decide (u ≤ lowerEff c k u s.lower) && decide (s.e ≤ (0.0 : α))
    if lock < niter then (s.zl || z) else z
def awZu0 (c : LimCfg) (s : Aw α) : Bool := if c.noUpper then s.zu0 else s.zu
def awZl0 (c : LimCfg) (s : Aw α) : Bool := if c.noLower then s.zl0 else s.zl
def awZi (c : LimCfg) (k : Call) (lock niter : Nat) (s : Aw α) (u : α) : Bool :=
  !(awZu c k lock niter s u || awZl c k lock niter s u)

/-- the state value after `check_eq`; `anyPeg` is `not np.all(self.zi)` over all devices -/
def awX (c : LimCfg) (k : Call) (lock niter : Nat) (anyPeg : Bool) (s : Aw α) (u : α) : α :=
  if !anyPeg then s.x
  else
    let a := s.x * ofB (awZi c k lock niter s u)
    let b := if c.noUpper then a else a + upperEff c k u s.upper * ofB (awZu c k lock niter s u)
    if c.noLower then b else b + lowerEff c k u s.lower * ofB (awZl c k lock niter s u)
/-- the equation value after `check_eq` -/
def awE (c : LimCfg) (k : Call) (lock niter : Nat) (anyPeg : Bool) (s : Aw α) (u : α) : α :=
  if !anyPeg then s.e else s.e * ofB (awZi c k lock niter s u)
def awUpper (c : LimCfg) (k : Call) (s : Aw α) (u : α) : α :=
  if !c.noUpper && !c.negUpper then upperEff c k u s.upper else s.upper
def awLower (c : LimCfg) (k : Call) (s : Aw α) (u : α) : α :=
  if !c.noLower && !c.negLower then lowerEff c k u s.lower else s.lower

/-- `AntiWindup.check_eq` for one device, after the `enable` guard -/
def awCheckEq (c : LimCfg) (k : Call) (lock niter : Nat) (anyPeg : Bool) (s : Aw α) (u : α) : Aw α :=
  { lower := awLower c k s u, upper := awUpper c k s u,
    zi := awZi c k lock niter s u, zl := awZl c k lock niter s u, zu := awZu c k lock niter s u,
    zl0 := awZl0 c s, zu0 := awZu0 c s,
    x := awX c k lock niter anyPeg s u, e := awE c k lock niter anyPeg s u }

/-- `not np.all(self.zi)` -/
def awAnyPeg (c : LimCfg) (k : Call) (lock niter : Nat) (ds : List (Aw α × α)) : Bool :=
  ds.any (fun d => !awZi c k lock niter d.1 d.2)

/-- `AntiWindup.check_eq` on all devices (each paired with its input value `u`; `u` is the state itself
unless a separate `state=` was given) -/
def awCheckEqAll (c : LimCfg) (k : Call) (lock niter : Nat) (ds : List (Aw α × α)) : List (Aw α) :=
  if !c.enable then ds.map (·.1)      -- `if not self.enable: return` (since the repair `antiwindup-ignores-enable`)
  else ds.map (fun d => awCheckEq c k lock niter (awAnyPeg c k lock niter ds) d.1 d.2)

/-- `x_set`: (address, value) of the pegged devices (`idx = np.where(self.zi == 0)`) -/
def xSet (addr : List Nat) (ds : List (Aw α)) : List (Nat × α) :=
  ((addr.zip ds).filter (fun p => !p.2.zi)).map (fun p => (p.1, p.2.x))

/-- `np.put(dae.x, key, val)` for every entry of `x_set` (end of `System.fg_to_dae`) -/
def putAll (xs : List α) (sets : List (Nat × α)) : List α :=
  sets.foldl (fun acc p => acc.set p.1 p.2) xs
/-- `np.put(tds.qg, key, 0)` for every entry of `x_set` (`daeint.py`) -/
def zeroAll (q : List α) (sets : List (Nat × α)) : List α :=
  sets.foldl (fun acc p => acc.set p.1 0.0) q

/-! ## RateLimiter / AntiWindupRate -/

structure RateCfg where
  enable : Bool
  noLower : Bool
  noUpper : Bool
  /-- `rate_lower_cond is not None` -/
  hasLowerCond : Bool
  hasUpperCond : Bool
deriving Repr

def rateZlr (c : RateCfg) (zlr e rl cl : α) : α :=
  if !c.enable || c.noLower then zlr
  else if c.hasLowerCond then ofB (decide (e < rl)) * cl else ofB (decide (e < rl))
/-- the equation value after the lower part -/
def rateE1 (c : RateCfg) (zlr e rl cl : α) : α :=
  if !c.enable || c.noLower then e else if nz (rateZlr c zlr e rl cl) then rl else e
def rateZur (c : RateCfg) (zur e1 ru cu : α) : α :=
  if !c.enable || c.noUpper then zur
  else if c.hasUpperCond then ofB (decide (ru < e1)) * cu else ofB (decide (ru < e1))
def rateE2 (c : RateCfg) (zur e1 ru cu : α) : α :=
  if !c.enable || c.noUpper then e1 else if nz (rateZur c zur e1 ru cu) then ru else e1
/-- `RateLimiter.check_eq`: the final equation value -/
def rateE (c : RateCfg) (zlr zur e rl ru cl cu : α) : α :=
  rateE2 c zur (rateE1 c zlr e rl cl) ru cu

/-- one device of an `AntiWindupRate`: the anti-windup part, the rate flags, rate limits and conditions -/
structure Awr (α : Type) where
  aw : Aw α
  zlr : α
  zur : α
  rl : α
  ru : α
  cl : α
  cu : α

/-- the equation value handed from `RateLimiter.check_eq` to `AntiWindup.check_eq` -/
def awrMid (rc : RateCfg) (d : Awr α) : Aw α :=
  { d.aw with e := rateE rc d.zlr d.zur d.aw.e d.rl d.ru d.cl d.cu }

/-- `AntiWindupRate.check_eq`: `RateLimiter.check_eq` then `AntiWindup.check_eq` (input = the state) -/
def awrCheckEqAll (rc : RateCfg) (c : LimCfg) (k : Call) (lock niter : Nat) (ds : List (Awr α)) : List (Awr α) :=
  let mids := ds.map (fun d => (awrMid rc d, d.aw.x))
  let outs := awCheckEqAll c k lock niter mids
  (ds.zip outs).map (fun p =>
    { p.1 with aw := p.2,
               zlr := rateZlr rc p.1.zlr p.1.aw.e p.1.rl p.1.cl,
               zur := rateZur rc p.1.zur (rateE1 rc p.1.zlr p.1.aw.e p.1.rl p.1.cl) p.1.ru p.1.cu })

/-! ## LessThan, IsEqual -/

/-- `LessThan.check_var`: new `z1` (`z0` is its negation); `ev` is `_eval` -/
def ltZ1 (enable cache ev eq : Bool) (z1 : Bool) (u b : α) : Bool :=
  if !enable || (cache && ev) then z1 else cmpL eq u b
def ltZ0 (enable cache ev eq : Bool) (z0 : Bool) (u b : α) : Bool :=
  if !enable || (cache && ev) then z0 else !cmpL eq u b
def ltEval (enable cache ev : Bool) : Bool := if !enable || (cache && ev) then ev else true
def eqZ1 (enable cache ev : Bool) (z1 : Bool) (u b : α) : Bool :=
  if !enable || (cache && ev) then z1 else u == b

/-! ## Switcher, Selector -/

/-- `v not in self.options and not np.isnan(v)` -/
def swInvalid (opts : List α) (v : α) : Bool := !(opts.any (fun o => v == o)) && (v == v)
/-- flags of one device, one per option -/
def swFlags (opts : List α) (v : α) : List Bool := opts.map (fun o => v == o)
/-- `Switcher.check_var` on all devices: `none` = `ValueError` -/
def swCheck (opts : List α) (us : List α) : Option (List (List Bool)) :=
  if us.any (swInvalid opts) then none else some (us.map (swFlags opts))

/-- `np.maximum(a, b)` / `np.minimum(a, b)` (NaN-free) -/
def npMax (a b : α) : α := if b ≤ a then a else b
def npMin (a b : α) : α := if a ≤ b then a else b
/-- `np.maximum.reduce` / `np.minimum.reduce` over the inputs of one device -/
def selOut (isMax : Bool) (ins : List α) : α :=
  match ins with
  | [] => 0.0
  | a :: rest => rest.foldl (if isMax then npMax else npMin) a
def selFlags (isMax : Bool) (ins : List α) : List Bool := ins.map (fun x => x == selOut isMax ins)

/-! ## SortedLimiter -/

/-- `calc_select` -/
def calcSelect (minSel maxSel nzl nzu : Nat) : Nat :=
  let ret := (nzl + nzu) / 2 + 1
  if maxSel < ret then maxSel else if ret < minSel then minSel else ret

/-- `check_iter_err`: `false` = the block is skipped -/
def iterErrOk (niter : Option Nat) (err : Option α) (minIter : Nat) (errTol : α) : Bool :=
  match niter, err with
  | some n, some e => !(decide (n < minIter) && decide (errTol < e))
  | _, _ => true

structure SDev (α : Type) where
  lim : Lim α
  ql : Bool
  qu : Bool

/-- `reset_out`: membership in the first `nsel` entries of an argsort result -/
def inTop (perm : List Nat) (nsel i : Nat) : Bool := (perm.take nsel).contains i

/-- `SortedLimiter.check_var` after the `enable`/`check_iter_err` guards; `asc`, `desc` are the results of
`np.argsort(lower_vio)`, `np.argsort(upper_vio)` (inputs: the sort is NumPy's), `nsel` the selection size -/
def sortedDev (c : LimCfg) (asc desc : List Nat) (nsel i : Nat) (d : SDev α) (u : α) : SDev α :=
  let l := limCheckVar c Call.plain d.lim u
  let r := inTop asc nsel i || inTop desc nsel i
  let zl := (r && l.zl) || d.ql
  let zu := (r && l.zu) || d.qu
  { lim := { l with zl := zl, zu := zu, zi := !(zl || zu) }, ql := zl, qu := zu }

def enumFrom' {β : Type} : Nat → List β → List (Nat × β)
  | _, [] => []
  | n, b :: bs => (n, b) :: enumFrom' (n + 1) bs

/-- the selection size actually used: `n_select`, or `calc_select()` on the plain limiter flags -/
def sortedNsel (c : LimCfg) (auto : Bool) (nsel minSel maxSel : Nat) (ds : List (SDev α × α)) : Nat :=
  if auto then
    calcSelect minSel maxSel
      (ds.countP (fun d => (limCheckVar c Call.plain d.1.lim d.2).zl))
      (ds.countP (fun d => (limCheckVar c Call.plain d.1.lim d.2).zu))
  else nsel

def sortedAll (c : LimCfg) (auto : Bool) (nsel minSel maxSel : Nat) (asc desc : List Nat)
    (ds : List (SDev α × α)) : List (SDev α) :=
  let n := sortedNsel c auto nsel minSel maxSel ds
  (enumFrom' 0 ds).map (fun p => sortedDev c asc desc n p.1 p.2.1 p.2.2)

end
end Andes.Discrete
