/-!
# Parameter records of the power-flow devices and per-unit conversion (C01)

* `LineP`, `PQP`, `GenP`, `ShuntP`, `Flags`: the numeric parameters the declared equation strings of
  `Line`, `PQ`, `PV`, `Slack`, `Shunt` refer to.  The equations themselves are NOT written here: they are
  regenerated from the real model objects into `Andes/Gen/PFlowEqs.lean` on every run.
* `Trig α`: `sin`/`cos` of the scalar type (`Float` to run, `ℝ` to prove).
* `puZ`, `puY`, `lineToSys`, `shuntToSys`: `System.calc_pu_coeff` for a series device (`bus1`, `Vn1`) and a
  shunt-connected device (`bus`, `Vn`): `Zn = Vn**2/Sn`, `Zb = Vb**2/Sb`, `z ↦ vin * (Zn/Zb)`,
  `y ↦ vin * (Zb/Zn)` — the same operation sequence as the Python code (bit-exact on `Float`).

No Mathlib import: executed by the driver.
-/
namespace Andes.PFlow

class Trig (α : Type) where
  sin : α → α
  cos : α → α

instance : Trig Float := ⟨Float.sin, Float.cos⟩

/-- numeric parameters of one `Line` device -/
structure LineP (α : Type) where
  u : α
  r : α
  x : α
  g : α
  b : α
  g1 : α
  b1 : α
  g2 : α
  b2 : α
  tap : α
  phi : α

/-- numeric parameters of one `PQ` device -/
structure PQP (α : Type) where
  u : α
  p0 : α
  q0 : α
  vmin : α
  vmax : α

/-- numeric parameters of one `PV` / `Slack` device -/
structure GenP (α : Type) where
  u : α
  p0 : α
  q0 : α
  v0 : α
  a0 : α
  pmin : α
  pmax : α
  qmin : α
  qmax : α

/-- numeric parameters of one `Shunt` device -/
structure ShuntP (α : Type) where
  u : α
  g : α
  b : α

/-- the three status flags of a `Limiter` / `SortedLimiter` (`zi`, `zl`, `zu`) as numbers -/
structure Flags (α : Type) where
  zi : α
  zl : α
  zu : α

section
variable {α : Type} [Add α] [Sub α] [Mul α] [Div α] [OfScientific α]

/-- `coeffs['z'] = Zn / Zb` with `Zn = Vn ** 2 / Sn`, `Zb = Vb ** 2 / Sb` -/
def puZ (sb vb sn vn : α) : α := (vn * vn / sn) / (vb * vb / sb)
/-- `coeffs['y'] = Zb / Zn` -/
def puY (sb vb sn vn : α) : α := (vb * vb / sb) / (vn * vn / sn)

/-- `Line` parameters on the device base `(sn, vn1)` → system base (`r`,`x`: `z`; all `g`,`b`: `y`) -/
def lineToSys (sb vb sn vn1 : α) (d : LineP α) : LineP α :=
  { u := d.u
    r := d.r * puZ sb vb sn vn1
    x := d.x * puZ sb vb sn vn1
    g := d.g * puY sb vb sn vn1
    b := d.b * puY sb vb sn vn1
    g1 := d.g1 * puY sb vb sn vn1
    b1 := d.b1 * puY sb vb sn vn1
    g2 := d.g2 * puY sb vb sn vn1
    b2 := d.b2 * puY sb vb sn vn1
    tap := d.tap
    phi := d.phi }

/-- `Shunt` parameters on the device base `(sn, vn)` → system base -/
def shuntToSys (sb vb sn vn : α) (d : ShuntP α) : ShuntP α :=
  { u := d.u
    g := d.g * puY sb vb sn vn
    b := d.b * puY sb vb sn vn }

/-- the textbook re-expression of a line on another device base `(sn', vn')`: impedances scale with
`Zn/Zn'`, admittances with `Zn'/Zn` (same ohms / siemens) -/
def lineRebase (sn vn sn' vn' : α) (d : LineP α) : LineP α :=
  let kz := (vn * vn / sn) / (vn' * vn' / sn')
  let ky := (vn' * vn' / sn') / (vn * vn / sn)
  { u := d.u, r := d.r * kz, x := d.x * kz, g := d.g * ky, b := d.b * ky, g1 := d.g1 * ky, b1 := d.b1 * ky,
    g2 := d.g2 * ky, b2 := d.b2 * ky, tap := d.tap, phi := d.phi }

def shuntRebase (sn vn sn' vn' : α) (d : ShuntP α) : ShuntP α :=
  let ky := (vn' * vn' / sn') / (vn * vn / sn)
  { u := d.u, g := d.g * ky, b := d.b * ky }

end
end Andes.PFlow
