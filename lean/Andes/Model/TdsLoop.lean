/-!
# Model of the time-stepping loop of `andes/routines/tds.py`

`TDS.calc_h`, `TDS._calc_h_first`, `TDS.do_switch`, the `while` loop of `TDS.run`, `TDS.init_resume`
and `System.store_switch_times`, with the verdict of the integrator (`itm_step`) as an *arbitrary input*.

The definitions are polymorphic in the scalar type: instantiated at `Float` they are executed by the
driver and compared bit-for-bit with the real code; instantiated at `ℚ` they are what the theorems in
`Andes/Props/C06.lean`, `C14.lean`, `C04.lean`, `C17.lean` are about.  No Mathlib import here.

Python's `max(a, b)` is `a` unless `b > a`; `min(a, b)` is `a` unless `b < a`.
-/
namespace Andes.Tds

section
variable {α : Type} [Add α] [Sub α] [Mul α] [Div α] [LT α] [DecidableLT α] [LE α] [DecidableLE α]
  [BEq α] [OfScientific α]

/-- Python `max(a, b)` -/
def pmax (a b : α) : α := if a < b then b else a
/-- Python `min(a, b)` -/
def pmin (a b : α) : α := if b < a then b else a
/-- Python `abs(a)` -/
def pabs (a : α) : α := if a < 0.0 then 0.0 - a else a

/-- what the routine is asked to do; `sw` is `System.switch_times` -/
structure Cfg (α : Type) where
  t0 : α
  tf : α
  tstep : α
  shrinkt : Bool
  /-- the frequency estimate of `_calc_h_first` before the cap by `system.config.freq` -/
  freqRaw : α
  sysFreq : α
  sw : List α
  /-- `TDS.config.check_conn` -/
  checkConn : Bool := true

/-- outcome of one call of `itm_step` -/
structure Verdict where
  conv : Bool
  niter : Nat
  /-- the integrator found NaN and set `busted` -/
  nan : Bool
  /-- `check_criteria()` returned False after this (accepted) step -/
  crit : Bool
  /-- somebody (a perturbation file, a model) set `TDS.custom_event` during this step -/
  custom : Bool := false
deriving Repr

structure St (α : Type) where
  t : α
  h : α
  deltat : α
  dmin : α
  dmax : α
  fixt : Bool
  idx : Nat
  niter : Nat
  converged : Bool
  busted : Bool
  kcount : Nat
  /-- time of every accepted step, newest first -/
  stamps : List α
  /-- indices into `sw` for which the switch action ran, newest first -/
  fired : List Nat
  /-- `TDS.custom_event` -/
  customPending : Bool := false
  /-- times at which the switch action ran because of a custom event, newest first -/
  customs : List α := []
  /-- number of connectivity re-checks made by `do_switch` -/
  connChecks : Nat := 0

def capFreq (c : Cfg α) : α := if c.sysFreq < c.freqRaw then c.sysFreq else c.freqRaw

/-- `TDS._calc_h_first`: returns `(deltat, dmin, dmax, fixt)` -/
def firstDmax0 (c : Cfg α) : α := pmin (1.0 / capFreq c) (pabs (c.tf - c.t0) / 100.0)
def firstDmin (c : Cfg α) : α := pmin ((1.0 / capFreq c) / 500.0) (firstDmax0 c / 20.0)
def firstFixt (c : Cfg α) (fixt : Bool) : Bool := if c.tstep ≤ 0.0 then false else fixt
def firstDeltat (c : Cfg α) (fixt : Bool) : α := if firstFixt c fixt then c.tstep else firstDmax0 c
def firstDmax (c : Cfg α) (fixt : Bool) : α :=
  if firstFixt c fixt then (if firstDmax0 c < c.tstep then c.tstep else firstDmax0 c) else firstDmax0 c

/-- does `calc_h` take the `_calc_h_first` branch? -/
def isFirst (s : St α) (resume : Bool) : Bool := (s.t == 0.0 && s.niter == 0) || resume

/-- the heuristic step-size update of `calc_h` for a converged step -/
def grow (dmin dmax deltat : α) (niter : Nat) : α :=
  if 15 ≤ niter then pmax (deltat * 0.5) dmin
  else if niter ≤ 6 then pmin (deltat * 1.1) dmax
  else pmax (deltat * 0.95) dmin

def nextDeltat (c : Cfg α) (s : St α) (resume : Bool) : α :=
  if isFirst s resume then firstDeltat c s.fixt
  else if s.fixt && !c.shrinkt && !s.converged then 0.0
  else if s.converged then
    (if s.fixt then pmin c.tstep (grow s.dmin s.dmax s.deltat s.niter) else grow s.dmin s.dmax s.deltat s.niter)
  else (if s.deltat * 0.9 < s.dmin then 0.0 else s.deltat * 0.9)

def nextBusted (c : Cfg α) (s : St α) (resume : Bool) : Bool :=
  if isFirst s resume then s.busted
  else if s.fixt && !c.shrinkt && !s.converged then true
  else if s.converged then s.busted
  else (if s.deltat * 0.9 < s.dmin then true else s.busted)

def nextDmin (c : Cfg α) (s : St α) (resume : Bool) : α := if isFirst s resume then firstDmin c else s.dmin
def nextDmax (c : Cfg α) (s : St α) (resume : Bool) : α := if isFirst s resume then firstDmax c s.fixt else s.dmax
def nextFixt (c : Cfg α) (s : St α) (resume : Bool) : Bool := if isFirst s resume then firstFixt c s.fixt else s.fixt

/-- "skip the first switch at the exact first time step to avoid h == 0" -/
def skipIdx (c : Cfg α) (t : α) (idx : Nat) (resume : Bool) : Nat :=
  match c.sw[idx]? with
  | some x => if !resume && t == x then idx + 1 else idx
  | none => idx

/-- "do not skip over the end time" -/
def hRaw (c : Cfg α) (t d : α) : α := pmax (pmin d (c.tf - t)) 0.0

/-- "do not skip over event switch_times" -/
def clip (c : Cfg α) (t h : α) (idx : Nat) : α :=
  match c.sw[idx]? with
  | some x => if x < t + h then x - t else h
  | none => h

/-- `TDS.calc_h(resume)` -/
def calcH (c : Cfg α) (s : St α) (resume : Bool) : St α :=
  let d := nextDeltat c s resume
  let i := skipIdx c s.t s.idx resume
  { s with deltat := d,
           busted := nextBusted c s resume,
           dmin := nextDmin c s resume,
           dmax := nextDmax c s resume,
           fixt := nextFixt c s resume,
           idx := i,
           h := clip c s.t (hRaw c s.t d) i }

/-- `TDS.do_switch` (refresh_event = 0, no custom event) -/
def doSwitch (c : Cfg α) (s : St α) : St α :=
  match c.sw[s.idx]? with
  | some x => if s.t == x then { s with fired := s.idx :: s.fired, idx := s.idx + 1 } else s
  | none => s

/-- the second half of `TDS.do_switch`: a pending custom event runs the switch action of every model, and
any switching (timed or custom) is followed by a connectivity re-check when `check_conn` is set -/
def customSwitch (c : Cfg α) (s : St α) (switched : Bool) : St α :=
  { s with customs := if s.customPending then s.t :: s.customs else s.customs,
           connChecks := if (switched || s.customPending) && c.checkConn then s.connChecks + 1 else s.connChecks,
           customPending := false }

/-- `TDS.do_switch` as a whole -/
def doSwitch' (c : Cfg α) (s : St α) : St α :=
  customSwitch c (doSwitch c s) ((doSwitch c s).idx != s.idx)

/-- the branch of the loop body taken after `itm_step` returned True -/
def iterOk (c : Cfg α) (s : St α) (v : Verdict) : St α :=
  let s1 := { s with converged := true, niter := v.niter, stamps := s.t :: s.stamps,
                     busted := s.busted || v.crit, customPending := s.customPending || v.custom }
  let s3 := calcH c (doSwitch' c s1) false
  { s3 with t := s3.t + s3.h, kcount := s3.kcount + 1 }

/-- the branch taken after `itm_step` returned False (`keep`: `itm_step` returned early because
`h == 0` and left `converged`/`niter` untouched) -/
def iterFail (c : Cfg α) (s : St α) (v : Verdict) (keep : Bool) : St α :=
  let s1 := if keep then { s with t := s.t - s.h }
            else { s with converged := false, niter := v.niter, t := s.t - s.h, busted := s.busted || v.nan,
                          customPending := s.customPending || v.custom }
  let s3 := calcH c s1 false
  if s3.h == 0.0 then { s3 with busted := true } else { s3 with t := s3.t + s3.h }

/-- the loop guard `(dae.t - h < tf) and not busted` -/
def guard (c : Cfg α) (s : St α) : Bool := decide (s.t - s.h < c.tf) && !s.busted

/-- A pass of the loop entered with `h == 0`: `itm_step` returns False at once without producing a
verdict (and without touching `converged`/`niter`).  Afterwards either `busted` is set or `h ≠ 0`, so
at most one such pass happens in a row. -/
def pre (c : Cfg α) (s : St α) : St α :=
  if guard c s && s.h == 0.0 then iterFail c s ⟨false, 0, false, false, false⟩ true else s

/-- one pass of the `while` loop body that calls the integrator -/
def iter (c : Cfg α) (s : St α) (v : Verdict) : St α :=
  if v.conv then iterOk c s v else iterFail c s v false

/-- the `while` loop, consuming one integrator verdict per pass; stops when the guard fails or the
verdicts run out (every prefix of a run is reachable this way) -/
def run (c : Cfg α) : St α → List Verdict → St α
  | s, [] => pre c s
  | s, v :: vs => if guard c (pre c s) then run c (iter c (pre c s) v) vs else pre c s

/-- number of verdicts consumed by `run` -/
def used (c : Cfg α) : St α → List Verdict → Nat
  | _, [] => 0
  | s, v :: vs => if guard c (pre c s) then used c (iter c (pre c s) v) vs + 1 else 0

/-- the success flag returned by `TDS.run` -/
def succeed (c : Cfg α) (s : St α) : Bool := !s.busted && s.t == c.tf

/-- state after `TDS.reset()` and before the `calc_h()` at the end of `TDS.init()` -/
def preInit (fixt : Bool) : St α :=
  { t := 0.0, h := 0.0, deltat := 0.0, dmin := 0.0, dmax := 0.0, fixt := fixt, idx := 0, niter := 0,
    converged := false, busted := false, kcount := 0, stamps := [], fired := [], customPending := false,
    customs := [], connChecks := 0 }

/-- state at the first loop head: `TDS.init()` ends with `calc_h()` -/
def init (c : Cfg α) (fixt : Bool) : St α := calcH c (preInit fixt) false

/-- what a further call of `TDS.run` does before its loop (possibly with another `tf` in `c`):
`init_resume()`; but when `dae.t < 0` (time went negative because the very first step was rejected)
the code calls `init()` instead, which returns at once because `initialized` is set. -/
def resume (c : Cfg α) (s : St α) : St α :=
  if s.t < 0.0 then s
  else
    let s1 := calcH c s true
    { s1 with t := s1.t + s1.h }

/-! ### `System.store_switch_times` -/

/-- insert into a strictly increasing list, dropping duplicates (`np.argsort` + dict keys) -/
def insertU (x : α) : List α → List α
  | [] => [x]
  | y :: ys => if x < y then x :: y :: ys else if x == y then y :: ys else y :: insertU x ys

def sortU (l : List α) : List α := l.foldr insertU []

/-- every event time `t` contributes `t`, `t - eps`, `t + eps`; only times `≥ now` are kept -/
def switchTimes (eps now : α) (times : List α) : List α :=
  sortU ((times ++ times.map (· - eps) ++ times.map (· + eps)).filter (fun x => decide (now ≤ x)))

end
end Andes.Tds
