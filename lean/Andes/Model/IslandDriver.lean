import Andes.Model.Hex
import Andes.Model.Island
/-! Line protocol for the island / ConnMan model.

`isl <n> <fr,to,u;...|-> <u,bus;...|->`            → `I=..|S=..|N=..|M=..|A=..` or `ERR:<kind>`
`neu <n> <isl> <len g> <i,j;...|->`                 → `<mask of g> <mask of gy>` (z zeroed, e eps, k kept)
`cm <busIdx> <busU bits> <grp/grp/...> <op;op;...>` → one snapshot per op, `;`-separated
   grp = `<nsrc>:<model>|<model>` (`~` for a group without models), model = `<id,u,b1[,b2]>+...` or `-`
   op = `i` | `a` | `s<0|1>:<uids>`;  snapshot = `<err> <busu0> <on> <off> <needed> <device statuses>` -/
namespace Andes.Island
open Andes.Hex

def semis (s : String) : List String := if s == "-" then [] else s.splitOn ";"

def edgeOf (s : String) : Option Edge :=
  match s.splitOn "," with
  | [a, b, c] => do pure ⟨← a.toNat?, ← b.toNat?, ← boolOf c⟩
  | _ => none

def slackOf (s : String) : Option Slack :=
  match s.splitOn "," with
  | [a, b] => do pure ⟨← boolOf a, ← b.toNat?⟩
  | _ => none

def showSets (l : List (List Nat)) : String :=
  if l.isEmpty then "-" else ";".intercalate (l.map natsToString)

def showErr : Err → String
  | .indexError => "IndexError"
  | .keyError => "KeyError"
  | .notImplemented => "NotImplementedError"
  | .fuel => "FUEL"

def handleIsl (args : List String) : String :=
  match args with
  | [n, es, sl] =>
    let r : Option String := do
      let n ← n.toNat?
      let es ← (semis es).mapM edgeOf
      let sl ← (semis sl).mapM slackOf
      match connectivity n es sl with
      | .error e => pure ("ERR:" ++ showErr e)
      | .ok r => pure ("I=" ++ natsToString r.islanded ++ "|S=" ++ showSets r.sets ++ "|N=" ++ natsToString r.nosw
                       ++ "|M=" ++ natsToString r.msw ++ "|A=" ++ showSets r.islands)
    r.getD "bad-args"
  | _ => "bad-args"

def pairOf (s : String) : Option (Nat × Nat) :=
  match s.splitOn "," with
  | [a, b] => do pure (← a.toNat?, ← b.toNat?)
  | _ => none

def handleNeu (args : List String) : String :=
  match args with
  | [n, isl, glen, ps] =>
    let r : Option String := do
      let n ← n.toNat?
      let isl ← natsOfString isl
      let glen ← glen.toNat?
      let ps ← (semis ps).mapM pairOf
      let g := gIslands "z" n isl (List.replicate glen "k")
      let gy := jIslands "z" "e" n isl (ps.map fun p => (p.1, p.2, "k"))
      pure (String.join g ++ " " ++ (if gy.isEmpty then "-" else String.join (gy.map (·.2.2))))
    r.getD "bad-args"
  | _ => "bad-args"

def devOf (s : String) : Option Dev :=
  match s.splitOn "," with
  | id :: u :: bs => do pure ⟨← id.toNat?, ← bs.mapM String.toNat?, ← boolOf u⟩
  | _ => none

def modelOf (s : String) : Option (List Dev) :=
  if s == "-" then some [] else (s.splitOn "+").mapM devOf

def grpOf (s : String) : Option Grp :=
  match s.splitOn ":" with
  | [k, ms] => do
    let k ← k.toNat?
    let ms ← if ms == "~" then some [] else (ms.splitOn "|").mapM modelOf
    pure ⟨k, ms⟩
  | _ => none

def bitsOf (s : String) : Option (List Bool) :=
  if s == "-" then some [] else s.toList.mapM fun c => boolOf (String.singleton c)

def showBits (l : List Bool) : String := if l.isEmpty then "-" else String.join (l.map bit)

def opOf (s : String) : Option Op :=
  if s == "i" then some .init
  else if s == "a" then some .act
  else match s.splitOn ":" with
    | ["s0", u] => do pure (.set (← natsOfString u) false)
    | ["s1", u] => do pure (.set (← natsOfString u) true)
    | _ => none

def snapshot (s : CM) (e : Option Err) : String :=
  " ".intercalate [(e.map showErr).getD "ok", showBits s.busu0, showBits s.on, showBits s.off, bit s.needed,
    showBits (s.grps.flatMap fun g => g.models.flatMap fun m => m.map (·.u))]

def runShow (s : CM) : List Op → List String → List String
  | [], acc => acc.reverse
  | op :: rest, acc => let r := step s op; runShow r.1 rest (snapshot r.1 r.2 :: acc)

def handleCm (args : List String) : String :=
  match args with
  | [bi, bu, gs, ops] =>
    let r : Option String := do
      let bi ← natsOfString bi
      let bu ← bitsOf bu
      let gs ← (gs.splitOn "/").mapM grpOf
      let ops ← (semis ops).mapM opOf
      let s : CM := { busIdx := bi, busU := bu, busu0 := [], on := [], off := [], needed := false, grps := gs }
      pure (";".intercalate (runShow s ops []))
    r.getD "bad-args"
  | _ => "bad-args"

/-- `island isl ...` | `island neu ...` | `island cm ...` -/
def handleIsland (args : List String) : String :=
  match args with
  | "isl" :: rest => handleIsl rest
  | "neu" :: rest => handleNeu rest
  | "cm" :: rest => handleCm rest
  | _ => "bad-op"

end Andes.Island
