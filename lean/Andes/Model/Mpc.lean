/-!
# Model of the MATPOWER and PSS/E RAW record arithmetic of ANDES

Anchors: `andes/io/matpower.py` (`mpc2system`, `system2mpc`), `andes/io/psse.py`
(`_parse_load_v33`, `_parse_fshunt_v33`, `_parse_gen_v33`, `_parse_line_v33`, `_parse_transf_v33`),
and the per-unit conversion that `System.setup` applies afterwards (`System.calc_pu_coeff`:
impedances `* (Vn²/Sn)/(Vb²/Sb)`, admittances `/ that`), because "describes the same network" is a
statement about system-base values.

The model is the code that exists: neither reader passes `Sn` for a `Line` (default 100 MVA) and
`mpc2system` does not pass it for a `Shunt` either, so with a system base other than 100 MVA the
values read from the file are rescaled; `system2mpc` writes loads and shunts by assignment (last device
on a bus wins, `u` ignored).  Polymorphic scalars, no Mathlib.
-/
namespace Andes.Mpc

section
variable {α : Type} [Add α] [Sub α] [Mul α] [Div α] [Neg α] [BEq α] [OfScientific α]

/-- impedance to system base: `r * (Vn²/Sn) / (Vb²/Sb)` (operation order of `calc_pu_coeff`) -/
def zSys (vn sn vb sb r : α) : α := r * ((vn * vn / sn) / (vb * vb / sb))
/-- admittance to system base -/
def ySys (vn sn vb sb y : α) : α := y * ((vb * vb / sb) / (vn * vn / sn))

/-! ## MATPOWER -/

structure BusRec (α : Type) where
  id : Int
  ty : Int
  pd : α
  qd : α
  gs : α
  bs : α
  vm : α
  va : α
  kv : α
  vmax : α
  vmin : α
deriving Repr

structure GenRec (α : Type) where
  bus : Int
  pg : α
  qg : α
  qmax : α
  qmin : α
  vg : α
  status : Int
  pmax : α
  pmin : α
deriving Repr

structure BrRec (α : Type) where
  f : Int
  t : Int
  r : α
  x : α
  b : α
  ra : α
  rb : α
  rc : α
  ratio : α
  angle : α
  status : Int
deriving Repr

/-- input-base (`vin`) data of the devices `mpc2system` adds -/
structure Bus (α : Type) where
  idx : Int
  vn : α
  v0 : α
  a0 : α
  vmax : α
  vmin : α
deriving Repr

structure PQ (α : Type) where
  bus : Int
  u : Int
  p0 : α
  q0 : α
deriving Repr

structure Shunt (α : Type) where
  bus : Int
  u : Int
  sn : α
  g : α
  b : α
deriving Repr

structure Gen (α : Type) where
  bus : Int
  slack : Bool
  u : Int
  v0 : α
  p0 : α
  q0 : α
  pmax : α
  pmin : α
  qmax : α
  qmin : α
deriving Repr

structure Line (α : Type) where
  bus1 : Int
  bus2 : Int
  u : Int
  sn : α
  r : α
  x : α
  b : α
  trans : Bool
  tap : α
  phi : α
  ra : α
  rb : α
  rc : α
deriving Repr

def kvOf (kv : α) : α := if kv == 0.0 then 110.0 else kv

def importBus (d2r : α) (d : BusRec α) : Bus α :=
  ⟨d.id, kvOf d.kv, d.vm, d.va * d2r, d.vmax, d.vmin⟩

/-- `if pd != 0 or qd != 0: add PQ` -/
def importLoad (base : α) (d : BusRec α) : Option (PQ α) :=
  let pd := d.pd / base
  let qd := d.qd / base
  if (pd == 0.0) && (qd == 0.0) then none else some ⟨d.id, 1, pd, qd⟩

/-- `if gs or bs: add Shunt` (no `Sn`: the default 100 MVA) -/
def importShunt (base : α) (d : BusRec α) : Option (Shunt α) :=
  let gs := d.gs / base
  let bs := d.bs / base
  if (gs == 0.0) && (bs == 0.0) then none else some ⟨d.id, 1, 100.0, gs, bs⟩

def importGen (base : α) (sw : List Int) (d : GenRec α) : Gen α :=
  ⟨d.bus, sw.contains d.bus, d.status, d.vg, d.pg / base, d.qg / base, d.pmax / base, d.pmin / base,
   d.qmax / base, d.qmin / base⟩

/-- `mpc2system` (after the repair of the ratio-0 case): a plain line is a record with ratio 0 or 1 AND no shift -/
def isLine (d : BrRec α) : Bool := ((d.ratio == 0.0) || (d.ratio == 1.0)) && (d.angle == 0.0)

/-- a branch record as a `Line` (no `Sn`: the default 100 MVA) -/
def importBranch (d2r : α) (d : BrRec α) : Line α :=
  if isLine d then ⟨d.f, d.t, d.status, 100.0, d.r, d.x, d.b, false, 1.0, 0.0, d.ra, d.rb, d.rc⟩
  else ⟨d.f, d.t, d.status, 100.0, d.r, d.x, d.b, true, (if d.ratio == 0.0 then 1.0 else d.ratio), d.angle * d2r, d.ra, d.rb, d.rc⟩

/-- system-base values of a line (`Vn1` = bus voltage in both readers of this file) -/
def lineV (base : α) (l : Line α) : Line α :=
  { l with r := zSys 1.0 l.sn 1.0 base l.r, x := zSys 1.0 l.sn 1.0 base l.x, b := ySys 1.0 l.sn 1.0 base l.b }

def shuntV (base : α) (s : Shunt α) : Shunt α :=
  { s with g := ySys 1.0 s.sn 1.0 base s.g, b := ySys 1.0 s.sn 1.0 base s.b }

/-- `system2mpc`: branch row from the system-base values of a line -/
def exportLine (r2d : α) (l : Line α) : BrRec α :=
  ⟨l.bus1, l.bus2, l.r, l.x, l.b, l.ra, l.rb, l.rc, l.tap, l.phi * r2d, l.u⟩

def exportGen (base : α) (g : Gen α) : GenRec α :=
  ⟨g.bus, g.p0 * base, g.q0 * base, g.qmax * base, g.qmin * base, g.v0, g.u, g.pmax * base, g.pmin * base⟩

/-- `np.add.at(bus[:, 2], pq_pos, PQ.u.v * PQ.p0.v * base_mva)`: the loads of a bus add up in device order, an
out-of-service load contributes zero (on the pinned tree a fancy assignment: the LAST device on the bus won and `u`
was not read — findings `mpc-export-loads-last-wins`, `mpc-export-offline-load`, repaired) -/
def sumOn (f : PQ α → α) (b : Int) (ps : List (PQ α)) : α :=
  ps.foldl (fun acc p => if p.bus == b then acc + (if p.u == 1 then f p else 0.0) else acc) 0.0

def exportPd (base : α) (pqs : List (PQ α)) (b : Int) : α := sumOn (fun p => p.p0 * base) b pqs
def exportQd (base : α) (pqs : List (PQ α)) (b : Int) : α := sumOn (fun p => p.q0 * base) b pqs

/-- the electrical meaning: total connected constant-power load at a bus -/
def busLoadP : List (PQ α) → Int → α
  | [], _ => 0.0
  | p :: ps, b => if p.bus == b && p.u == 1 then p.p0 + busLoadP ps b else busLoadP ps b

/-- bus row of `system2mpc` restricted to the columns the loads determine, then `mpc2system` on it -/
def roundTripLoadP (base : α) (pqs : List (PQ α)) (b : Int) : List (PQ α) :=
  match importLoad base ⟨b, 1, exportPd base pqs b, exportQd base pqs b, 0.0, 0.0, 1.0, 0.0, 1.0, 1.0, 1.0⟩ with
  | none => []
  | some p => [p]

/-! ## PSS/E RAW (v33) -/

/-- `_parse_load_v33`: `(PL + IP*v0 + YP*v0**2)/mva`, `(QL + IQ*v0 - YQ*v0**2)/mva` -/
def rawLoadP (mva v0 pl ip yp : α) : α := (pl + ip * v0 + yp * (v0 * v0)) / mva
def rawLoadQ (mva v0 ql iq yq : α) : α := (ql + iq * v0 - yq * (v0 * v0)) / mva

/-- fixed shunt: `Sn = mva`, `g = G/mva`, `b = B/mva` -/
def rawShunt (mva g b : α) (bus u : Int) : Shunt α := ⟨bus, u, mva, g / mva, b / mva⟩

/-- non-transformer branch: `r, x, b` as given; GI, BI, GJ, BJ are not read; no `Sn` -/
def rawBranch (i j st : Int) (r x b ra rb rc : α) : Line α :=
  ⟨i, j, st, 100.0, r, x, b, false, 1.0, 0.0, ra, rb, rc⟩

/-- two-winding transformer record (the fields the parser reads) -/
structure X2 (α : Type) where
  i : Int
  j : Int
  cw : Int
  cz : Int
  cm : Int
  mag2 : α
  stat : Int
  r12 : α
  x12 : α
  sbase12 : α
  windv1 : α
  nomv1 : α
  ang1 : α
  ra : α
  rb : α
  rc : α
  windv2 : α
  nomv2 : α
deriving Repr

/-- the `Line` parameters of a two-winding transformer plus its `Vn1`, `Vn2` -/
structure XfLine (α : Type) where
  line : Line α
  vn1 : α
  vn2 : α
deriving Repr

def x2Vn1 (busVn1 : α) (d : X2 α) : α := if d.nomv1 == 0.0 then busVn1 else d.nomv1
def x2Vn2 (busVn2 : α) (d : X2 α) : α := if d.nomv2 == 0.0 then busVn2 else d.nomv2

/-- CW: 1 = pu of bus base kV, 2 = winding kV, 3 = pu of nominal winding kV -/
def x2Tap (busVn1 busVn2 : α) (d : X2 α) : α :=
  if d.cw == 2 then (d.windv1 / busVn1) / (d.windv2 / busVn2)
  else if d.cw == 3 then d.windv1 * (x2Vn1 busVn1 d / busVn1) / (x2Vn2 busVn2 d / busVn2)
  else d.windv1

/-- CZ: 1 = system base, 2 = winding base `SBASE1-2`; any other code leaves the system base -/
def x2Sn (mva : α) (d : X2 α) : α := if d.cz == 2 then d.sbase12 else mva

def rawX2 (mva d2r busVn1 busVn2 : α) (d : X2 α) : XfLine α :=
  ⟨⟨d.i, d.j, d.stat, x2Sn mva d, d.r12, d.x12, d.mag2, true, x2Tap busVn1 busVn2 d, d.ang1 * d2r, d.ra, d.rb, d.rc⟩,
   x2Vn1 busVn1 d, x2Vn2 busVn2 d⟩

/-- system-base values of the transformer branch: `r, x` through `Vn1, Sn`; `b` likewise (a `y` parameter) -/
def xfV (mva busVn1 : α) (t : XfLine α) : Line α :=
  { t.line with r := zSys t.vn1 t.line.sn busVn1 mva t.line.r, x := zSys t.vn1 t.line.sn busVn1 mva t.line.x,
                b := ySys t.vn1 t.line.sn busVn1 mva t.line.b }

/-- three-winding star: `z1 = (z12 + z31 - z23)/2`, `z2 = (z23 + z12 - z31)/2`, `z3 = (z31 + z23 - z12)/2` -/
def star1 (z12 z23 z31 : α) : α := (z12 + z31 - z23) / 2.0
def star2 (z12 z23 z31 : α) : α := (z23 + z12 - z31) / 2.0
def star3 (z12 z23 z31 : α) : α := (z31 + z23 - z12) / 2.0

end
end Andes.Mpc
