/-!
# Model of result storage, off-loading, output selection, queries and csv replay

Anchors in `/repo`:
* `andes/variables/dae.py`: `DAE.store`, `DAETimeSeries` (dict keyed by `t`, `unpack`, cached arrays,
  `reset`, `idx_ptr`), `DAE.write_npz` (whole / first / append), `DAE.write_lst`, `x_name_output`
* `andes/routines/tds.py`: storage branch of `TDS.run` (`save_every`, `kcount`, `limit_store`,
  `max_store`), the end of `TDS.run` (`unpack`, `save_output`), `TDS.save_output`,
  csv replay (`calc_h` csv branch, `_csv_step`, `_csv_data_to_dae`)
* `andes/system.py`: `System.set_output_subidx`; `andes/models/misc/output.py`: `Output.to_output_addr`
* `andes/plot.py`: `TDSData.load_lst/load_npy_or_csv/find/get_values/get_header/export_csv`

The machine is polymorphic in the stamp type `τ` (only `==` is used on it, as the Python dict does) and in
the row payload `ρ` (never inspected).  No Mathlib import.
-/
namespace Andes.Store

/-! ### the time-keyed dict -/
section dict
variable {τ ρ : Type} [BEq τ]

/-- `OrderedDict.__setitem__`: an existing key keeps its position (and its key object), the value is
replaced; a new key is appended.  THIS is why two accepted steps with equal `t` collapse into one row. -/
def dictSet (k : τ) (v : ρ) : List (τ × ρ) → List (τ × ρ)
  | [] => [(k, v)]
  | p :: r => if p.1 == k then (p.1, v) :: r else p :: dictSet k v r

end dict

/-- settings of `[TDS]` and `files` that matter for storage -/
structure Cfg where
  /-- `save_every` (0: store nothing; 1: every step; N: every N-th accepted step, by `dae.kcount`) -/
  saveEvery : Nat
  limitStore : Bool
  maxStore : Nat
  /-- `not system.files.no_output` -/
  output : Bool
  /-- `save_mode == 'auto'` -/
  auto : Bool
deriving Repr

/-- storage state: `dae.ts` + the npz file + `dae._write_append` + `dae.kcount` -/
structure St (τ ρ : Type) where
  /-- `ts._xs/_ys` (same keys, one payload) in insertion order -/
  mem : List (τ × ρ)
  /-- the arrays `ts.t` / `ts.txyz` once they exist as attributes: `__getattr__` unpacks only while the
  attribute is missing, afterwards a plain read returns the (possibly stale) array -/
  cache : Option (List (τ × ρ))
  idxPtr : Nat
  /-- rows of the npz file (`none`: no file yet) -/
  file : Option (List (τ × ρ))
  /-- `dae._write_append` -/
  append : Bool
  kcount : Nat

section machine
variable {τ ρ : Type} [BEq τ]

def init : St τ ρ := { mem := [], cache := none, idxPtr := 0, file := none, append := false, kcount := 0 }

/-- value of a read of `ts.txyz` / `ts.t` -/
def cacheVal (s : St τ ρ) : List (τ × ρ) := s.cache.getD s.mem
/-- state after such a read -/
def touch (s : St τ ρ) : St τ ρ := { s with cache := some (cacheVal s) }
/-- `ts.unpack()` -/
def unpack (s : St τ ρ) : St τ ρ := { s with cache := some s.mem }
/-- `ts.reset()` -/
def reset (s : St τ ρ) : St τ ρ := { s with mem := [], cache := some [], idxPtr := 0 }
def fileRows (s : St τ ρ) : List (τ × ρ) := s.file.getD []

/-- `DAE.write_npz`.  In the append branch `np.vstack((data, new))` and the special case "previous file
is empty" both give `old ++ new`. -/
def writeNpz (c : Cfg) (s : St τ ρ) : St τ ρ :=
  if !c.limitStore then { touch s with file := some (cacheVal s) }
  else if !s.append then
    { touch s with file := some ((cacheVal s).drop s.idxPtr), append := true, idxPtr := (cacheVal s).length }
  else if (s.mem.drop s.idxPtr).isEmpty then unpack s
  else { unpack s with file := some (fileRows s ++ s.mem.drop s.idxPtr), idxPtr := s.mem.length }

/-- `TDS.save_output` -/
def saveOutput (c : Cfg) (s : St τ ρ) : St τ ρ :=
  let s1 := writeNpz c s
  { s1 with idxPtr := (cacheVal s1).length }

/-- is the accepted step number `k` (= `dae.kcount`) stored? -/
def keepNow (c : Cfg) (k : Nat) : Bool := c.saveEvery != 0 && (c.saveEvery == 1 || k % c.saveEvery == 0)

/-- `dae.store()` guarded by `save_every` -/
def store (c : Cfg) (s : St τ ρ) (r : τ × ρ) : St τ ρ :=
  if keepNow c s.kcount then { s with mem := dictSet r.1 r.2 s.mem } else s

/-- "offload if exceeds `max_store`" -/
def offload (c : Cfg) (s : St τ ρ) : St τ ρ :=
  if c.limitStore && decide (c.maxStore ≤ s.mem.length) then reset (if c.output then saveOutput c s else s)
  else s

/-- the storage part of one accepted pass of the `while` loop of `TDS.run` -/
def step (c : Cfg) (s : St τ ρ) (r : τ × ρ) : St τ ρ :=
  let s2 := offload c (store c s r)
  { s2 with kcount := s2.kcount + 1 }

/-- the end of `TDS.run`: `ts.unpack()`, then `save_output()` unless disabled -/
def endRun (c : Cfg) (s : St τ ρ) : St τ ρ :=
  if c.output && c.auto then saveOutput c (unpack s) else unpack s

/-- one call of `TDS.run` with the given accepted steps -/
def runSeg (c : Cfg) (s : St τ ρ) (rows : List (τ × ρ)) : St τ ρ := endRun c (rows.foldl (step c) s)
/-- a run followed by resumed runs -/
def runSegs (c : Cfg) (s : St τ ρ) (segs : List (List (τ × ρ))) : St τ ρ := segs.foldl (runSeg c) s

/-- SPEC: the accepted steps that are to be kept, `k` = number of the first one -/
def kept (c : Cfg) : Nat → List (τ × ρ) → List (τ × ρ)
  | _, [] => []
  | k, r :: rs => if keepNow c k then r :: kept c (k + 1) rs else kept c (k + 1) rs

/-- payload map on a state (used to state that a selection only projects) -/
def mapRows {ρ' : Type} (f : ρ → ρ') (l : List (τ × ρ)) : List (τ × ρ') := l.map (fun p => (p.1, f p.2))
def mapSt {ρ' : Type} (f : ρ → ρ') (s : St τ ρ) : St τ ρ' :=
  { mem := mapRows f s.mem, cache := s.cache.map (mapRows f), idxPtr := s.idxPtr,
    file := s.file.map (mapRows f), append := s.append, kcount := s.kcount }

end machine

/-! ### output selection -/
section selection
variable {α : Type}

/-- insert into a strictly increasing list of addresses, dropping duplicates -/
def insU (x : Nat) : List Nat → List Nat
  | [] => [x]
  | y :: ys => if x < y then x :: y :: ys else if x = y then y :: ys else y :: insU x ys
/-- `sorted(np.unique(addresses))` -/
def sortU (l : List Nat) : List Nat := l.foldr insU []

/-- one variable of a model: name, array code (`true` = state `x`), address of every device -/
structure VarD where
  name : String
  isX : Bool
  addr : List Nat
deriving Repr
/-- a model as `set_output_subidx` sees it: class name, device idx (as strings), `cache.all_vars` -/
structure ModelD where
  cls : String
  idx : List String
  vars : List VarD
deriving Repr
/-- a row of the `Output` table -/
structure OutRow where
  model : String
  var : Option String
  dev : Option String
deriving Repr

def findIdx? (l : List String) (d : String) : Option Nat :=
  let i := l.findIdx (· == d)
  if i < l.length then some i else none

/-- addresses contributed by one variable -/
def varAddrs (v : VarD) (uid : Option Nat) : List Nat :=
  match uid with
  | none => v.addr
  | some u => match v.addr[u]? with | some a => [a] | none => []

/-- addresses (tagged with the array code) requested by one `Output` row; invalid rows are skipped -/
def rowAddrs (models : List ModelD) (r : OutRow) : List (Bool × Nat) :=
  match models.find? (fun m => m.cls == r.model) with
  | none => []
  | some m =>
    let vs : Option (List VarD) := match r.var with
      | none => some m.vars
      | some n => (m.vars.find? (fun v => v.name == n)).map (fun v => [v])
    match vs with
    | none => []
    | some vs =>
      match r.dev with
      | none => vs.flatMap (fun v => (varAddrs v none).map (fun a => (v.isX, a)))
      | some d => match findIdx? m.idx d with
        | none => []
        | some u => vs.flatMap (fun v => (varAddrs v (some u)).map (fun a => (v.isX, a)))

/-- `System.set_output_subidx`: `(Output.xidx, Output.yidx)` -/
def outputIdx (models : List ModelD) (rows : List OutRow) : List Nat × List Nat :=
  let all := rows.flatMap (rowAddrs models)
  (sortU ((all.filter (·.1)).map (·.2)), sortU ((all.filter (fun p => !p.1)).map (·.2)))

/-- the selection in force: `none` when `Output.n == 0` -/
abbrev Sel := Option (List Nat × List Nat)

variable [Inhabited α]

/-- `x[xidx]` (fancy indexing; addresses are in range by construction) -/
def pick (v : List α) (idx : List Nat) : List α := idx.map (fun i => v.getD i default)

/-- the payload written by `DAE.store`: `x[Output.xidx] ++ y[Output.yidx]`, or everything -/
def project (sel : Sel) (x y : List α) : List α :=
  match sel with
  | none => x ++ y
  | some (xi, yi) => pick x xi ++ pick y yi

/-- the labels of `write_lst` / `TDSData.load_dae` after the time column -/
def labels (sel : Sel) (xn yn : List String) : List String :=
  match sel with
  | none => xn ++ yn
  | some (xi, yi) => xi.map (fun i => xn.getD i "") ++ yi.map (fun i => yn.getD i "")

/-- `Output.in1d` + `np.where`: positions `j` of `idx` with `idx[j] ∈ addr`, ascending -/
def toOutputAddr (idx addr : List Nat) : List Nat :=
  (List.range idx.length).filter (fun j => addr.contains (idx.getD j 0))

/-- the columns `DAETimeSeries.get_data(var, a=sub)` / `TDSData._process_yidx` read from the stored
matrix of one array: `indices[a]`; `none` models the `IndexError` -/
def queryCols (sel : Option (List Nat)) (addr : List Nat) (sub : Option (List Nat)) : Option (List Nat) :=
  let ind := match sel with | none => addr | some idx => toOutputAddr idx addr
  if sel.isSome && ind.isEmpty then some []     -- "not found in <Output>, skipped"
  else match sub with
    | none => some ind
    | some a => a.mapM (fun i => ind[i]?)

/-- the address whose values a stored column holds -/
def colAddr (sel : Option (List Nat)) (col : Nat) : Nat :=
  match sel with | none => col | some idx => idx.getD col 0

/-- `TDSData.find` on a list of names: indices (0 = time) whose name contains one of the patterns
(plain substrings; the regular-expression engine itself is not modelled) -/
def isInfix (p s : List Char) : Bool :=
  match s with
  | [] => p.isEmpty
  | _ :: t => p.isPrefixOf s || isInfix p t
def findNames (names : List String) (pats : List String) : List Nat :=
  (List.range names.length).flatMap (fun i =>
    (pats.filter (fun q => isInfix q.toList (names.getD i "").toList)).map (fun _ => i))

end selection

/-! ### csv replay (`TDS.run(from_csv=...)`) -/
section csv
variable {τ : Type} [Add τ] [Sub τ] [LT τ] [DecidableLT τ] [OfScientific τ]

structure CsvSt (τ : Type) where
  t : τ
  h : τ
  /-- `tds.k_csv` -/
  k : Nat

/-- the csv branch at the end of `TDS.calc_h`: whatever step size was computed is overridden -/
def csvCalcH (times : List τ) (s : CsvSt τ) : CsvSt τ :=
  match times[s.k + 1]? with
  | some x => { s with k := s.k + 1, h := x - s.t }
  | none => { s with h := 0.0 }

/-- `TDS.init()` in replay mode: `dae.t = 0`, row 0 is loaded, then `calc_h()` ALREADY advances `k_csv` -/
def csvInit (times : List τ) : CsvSt τ := csvCalcH times { t := 0.0, h := 0.0, k := 0 }

/-- the `while` loop in replay mode: every pass is an accepted step whose values are csv row `k_csv`
and whose stamp is `dae.t`; returns the accepted steps `(t, row number)` and whether the fuel ran out
(the real loop would not terminate) -/
def csvLoop (times : List τ) (tf : τ) : Nat → CsvSt τ → List (τ × Nat) → List (τ × Nat) × Bool
  | 0, s, acc => (acc, decide (s.t - s.h < tf))
  | n + 1, s, acc =>
    if s.t - s.h < tf then
      let s1 := csvCalcH times s
      csvLoop times tf n { s1 with t := s1.t + s1.h } (acc ++ [(s.t, s.k)])
    else (acc, false)

/-- accepted steps of a replay of a csv whose time column is `times` (`tf` = last time) -/
def csvSteps (times : List τ) : List (τ × Nat) × Bool :=
  match times.getLast? with
  | none => ([], false)
  | some tf => csvLoop times tf (times.length + 2) (csvInit times) []

end csv

end Andes.Store
