import Andes.Model.Hex
import Andes.Model.Eig
/-!
Line protocol of the eigenvalue-analysis model.  Floats arrive as 16 hex digits and are converted to the
EXACT rational they denote; results leave as exact rationals `num/den` (the harness compares them with the
floats of the real code: exactly for counts / indices / names, with a stated tolerance for values).

  eigas <n> <m> <fx> <fy> <gx> <gy> <Tf>     matrices row-major, comma separated
      -> `ok <dim> <names> <As row-major> <contract 0/1> <Asc row-major | ->`  or  `err <kind>`
  eigst <c|s> <tol> <re...>                  -> `<n_positive> <n_zeros> <n_negative>`
  eigpf <c|s> <n> <|W|> <|N|>                -> `<pfactor row-major> <W_abs>`
  eigam <row>                                -> index of the most associated state
  eigsw <initialised 0/1> <Tf stored> <values>  -> Tf used in every round of a sweep
-/
namespace Andes.Eig
open Andes.Hex

/-- exact value of an IEEE-754 double given by its bits (`none` for inf / nan) -/
def ratOfBits (b : Nat) : Option Rat :=
  let sign := b >>> 63
  let e := (b >>> 52) % 2048
  let mant := b % (2 ^ 52)
  if e = 2047 then none
  else
    let (mag, ex) : Nat × Int := if e = 0 then (mant, -1074) else (mant + 2 ^ 52, (e : Int) - 1075)
    let v : Rat := if ex ≥ 0 then ((mag * 2 ^ ex.toNat : Nat) : Rat) else Rat.divInt mag ((2 ^ (-ex).toNat : Nat) : Int)
    some (if sign = 1 then -v else v)

def ratOfHex (s : String) : Option Rat :=
  if s.length = 16 then (parseHex s).bind ratOfBits else none

def ratsOfHex (s : String) : Option (List Rat) :=
  if s == "-" then some [] else (s.splitOn ",").mapM ratOfHex

def showRat (r : Rat) : String := if r.den = 1 then toString r.num else toString r.num ++ "/" ++ toString r.den

def showRats (l : List Rat) : String := if l.isEmpty then "-" else ",".intercalate (l.map showRat)

/-- row-major list -> matrix with `c` columns (0 outside) -/
def matOf (c : Nat) (l : List Rat) : Mat :=
  let a := l.toArray
  fun i j => if j < c then a.getD (i * c + j) 0 else 0

def vecOf (l : List Rat) : Vec := let a := l.toArray; fun i => a.getD i 0

def flat (r c : Nat) (A : Mat) : List Rat :=
  (List.range r).flatMap (fun i => (List.range c).map (A i))

def errName : Err → String
  | .singular1 => "singular1" | .index => "index" | .dims => "dims" | .singular2 => "singular2"

/-- the contract of BOTH solves of a successful `calcAs` run, checked exactly -/
def contractsOf (n m : Nat) (fx fy gx gy : Mat) (Tf : Vec) : Bool :=
  match gaussSolve m n gy gx with
  | none => false
  | some gyx =>
    contractOk m n gy gyx gx &&
    (let z := zeroIdx n Tf
     if z.isEmpty then true else
      let nz := n - z.length
      match reoLoop n z nz with
      | none => true
      | some r =>
        let Ap := mmul n (mmul n (permOf r.rows r.cols) (reduceWith m fx fy gyx Tf)) (permOf r.rows r.cols)
        match gaussSolve (n - nz) nz (blkYY nz Ap) (blkYX nz Ap) with
        | none => true
        | some g2 => contractOk (n - nz) nz (blkYY nz Ap) g2 (blkYX nz Ap))

def handleAs (args : List String) : String :=
  match args with
  | [sn, sm, sfx, sfy, sgx, sgy, stf] =>
    match sn.toNat?, sm.toNat?, ratsOfHex sfx, ratsOfHex sfy, ratsOfHex sgx, ratsOfHex sgy, ratsOfHex stf with
    | some n, some m, some lfx, some lfy, some lgx, some lgy, some ltf =>
      if lfx.length ≠ n * n ∨ lfy.length ≠ n * m ∨ lgx.length ≠ m * n ∨ lgy.length ≠ m * m ∨ ltf.length ≠ n then
        "bad-size"
      else
        let fx := matOf n lfx; let fy := matOf m lfy; let gx := matOf n lgx; let gy := matOf m lgy
        let Tf := vecOf ltf
        match calcAs gaussSolve n m fx fy gx gy Tf with
        | .error e => "err " ++ errName e
        | .ok r =>
          "ok " ++ toString r.dim ++ " " ++ natsToString r.names ++ " " ++ showRats (flat r.dim r.dim r.As)
            ++ " " ++ bit (contractsOf n m fx fy gx gy Tf) ++ " "
            ++ (match r.asc with | none => "-" | some a => showRats (flat n n a))
    | _, _, _, _, _, _, _ => "bad-arg"
  | _ => "bad-arity"

def handleSt (args : List String) : String :=
  match args with
  | [v, stol, sre] =>
    match ratOfHex stol, ratsOfHex sre with
    | some tol, some l =>
      let nn := if v == "s" then nNegSpec tol l else nNegCode tol l
      toString (nPos tol l) ++ " " ++ toString (nZero tol l) ++ " " ++ toString nn
    | _, _ => "bad-arg"
  | _ => "bad-arity"

def handlePf (args : List String) : String :=
  match args with
  | [v, sn, sw, sN] =>
    match sn.toNat?, ratsOfHex sw, ratsOfHex sN with
    | some n, some lw, some lN =>
      if lw.length ≠ n * n ∨ lN.length ≠ n * n then "bad-size" else
      let aW := matOf n lw; let aN := matOf n lN
      let P := if v == "s" then pfSpec n aW aN else pfCode n aW aN
      showRats (flat n n P) ++ " " ++ showRats ((List.range n).map (wabs n aW aN))
    | _, _, _ => "bad-arg"
  | _ => "bad-arity"

def handleAm (args : List String) : String :=
  match args with
  | [srow] =>
    match ratsOfHex srow with
    | some l => toString (argmaxFirst l)
    | none => "bad-arg"
  | _ => "bad-arity"

def handleSw (args : List String) : String :=
  match args with
  | [si, stf, svals] =>
    match boolOf si, ratOfHex stf, ratsOfHex svals with
    | some i, some tf, some vals => showRats (sweepTf { initialized := i, tfStored := tf } vals)
    | _, _, _ => "bad-arg"
  | _ => "bad-arity"

end Andes.Eig
