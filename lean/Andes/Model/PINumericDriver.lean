import Andes.Model.Hex
import Andes.Model.PINumeric
/-! Line protocol: `pinum <kp> <ki> <ref> <u> <xi> <y>` (16 hex digits each)
 -> `<g> <f> fyc:xi:u:<v>,gyc:y:u:<v>,gxc:y:xi:<v>,gyc:y:y:<v>` -/
namespace Andes.PINumeric
open Andes.Hex

def handlePinum (args : List String) : String :=
  match args.mapM floatOfHex with
  | some [kp, ki, ref, u, xi, y] =>
    let tr := (triplets kp ki).map (fun (m, r, c, v) => s!"{m}:{r}:{c}:{hexOfFloat v}")
    s!"{hexOfFloat (gRes kp u ref xi y)} {hexOfFloat (fRes ki u ref)} " ++ ",".intercalate tr
  | _ => "bad-op"

end Andes.PINumeric
