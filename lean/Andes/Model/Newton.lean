/-!
# Models of the Newton loops and of the exit-code bookkeeping

* `nrSolve`  : `PFlow.nr_solve` with the mismatch returned by each `nr_step` as an arbitrary input
  (`none` = NaN, for which every comparison is False).
* `stepLoop` : the Newton loop of `ImplicitIter.step` (daeint.py) with the signed largest increment of
  each iteration as an arbitrary input.
* `cliExit`  : exit-code aggregation of `andes.main.run(..., cli=True)` / `run_case` / the routines.
No Mathlib import.
-/
namespace Andes.Newton

section
variable {α : Type} [Add α] [Sub α] [Mul α] [LT α] [DecidableLT α] [LE α] [DecidableLE α] [OfScientific α]

def pabs (a : α) : α := if a < 0.0 then 0.0 - a else a

/-! ### power flow -/

structure NrOut (α : Type) where
  converged : Bool
  niter : Nat
  /-- `PFlow.mis`, oldest first -/
  mis : List α
  /-- number of `nr_step` calls made -/
  calls : Nat

/-- `mis < tol` with NaN (none) comparing False -/
def ltO (a : Option α) (b : α) : Bool := match a with | some x => decide (x < b) | none => false
def gtO (a : Option α) (b : α) : Bool := match a with | some x => decide (b < x) | none => false

/-- one pass of the `while True` loop of `nr_solve`; returns `some out` when the loop exits.
`m0` is `mis[0]` (the first mismatch). -/
def nrExit (tol : α) (maxIter niter : Nat) (m : Option α) (m0 : Option α) : Option Bool :=
  if ltO m tol then some true
  else if maxIter < niter then some false
  else if m.isNone then some false
  else match m0 with
    | some x0 => if gtO m (1.0e4 * x0) then some false else none
    | none => none

/-- the loop, consuming one mismatch per `nr_step`; when the inputs run out the loop is still going
(`none`). `m0` is the first mismatch (`PFlow.mis[0]`). -/
def nrLoop (tol : α) (maxIter : Nat) (m0 : Option α) : Nat → List (Option α) → List (Option α) → Option (Bool × Nat × List (Option α))
  | _, [], _ => none
  | niter, m :: ms, acc =>
    match nrExit tol maxIter niter m m0 with
    | some c => some (c, niter, (m :: acc).reverse)
    | none => nrLoop tol maxIter m0 (niter + 1) ms (m :: acc)

def nrSolve (tol : α) (maxIter : Nat) (ms : List (Option α)) : Option (Bool × Nat × List (Option α)) :=
  nrLoop tol maxIter (ms.head?.getD none) 0 ms []

/-! ### implicit integration step -/

structure StepCfg (α : Type) where
  tol : α
  maxIter : Nat
  chatterIter : Nat

structure StepOut where
  converged : Bool
  niter : Nat
  busted : Bool
  chatter : Bool
  /-- iterations performed (number of linear solves) -/
  solves : Nat
deriving Repr, DecidableEq

/-- one iteration's observable: `none` = NaN in the increment, `some d` = the entry of the increment
with the largest magnitude (signed), after tiny values were zeroed -/
abbrev Inc (α : Type) := Option α

/-- chatter test of iteration `niter` (before it is incremented): `prev` and `cur` are the last two
entries of `tds.mis_inc` (the first entry of that list is stored as an absolute value) -/
def chatterNow (c : StepCfg α) (niter : Nat) (prev cur : α) : Bool :=
  decide (c.chatterIter < niter) && decide (pabs (prev + cur) < 1.0e-6) && decide (1.0e-4 < pabs cur)

/-- the entry appended to `tds.mis_inc` (the first one is stored as an absolute value) -/
def curOf (niter : Nat) (x : α) : α := if niter = 0 then pabs x else x

/-- `tds.chatter` after the chatter test of this iteration -/
def chatOf (c : StepCfg α) (niter : Nat) (prev : Option α) (chat : Bool) (x : α) : Bool :=
  chat || (match prev with
    | some p => chatterNow c niter p (curOf niter x)
    | none => false)

/-- "Error increased too quickly" -/
def blowUp (q0 x : α) : Bool := decide (1.0e6 < pabs x) && decide (1.0e6 * q0 < pabs x)

/-- the loop body from the linear solve on; `prev` is `mis_inc[-1]` before this iteration (none at
the first iteration), `m0` the first recorded `|mis|` (`tds.mis[0]` holds the residual, not the
increment: the blow-up test therefore uses the residual of iteration 0, passed as `q0`) -/
def stepLoop (c : StepCfg α) (q0 : α) : Nat → Option α → Bool → List (Inc α) → Option StepOut
  | _, _, _, [] => none
  | niter, prev, chat, d :: ds =>
    match d with
    | none => some ⟨false, c.maxIter + 1, true, chat, niter + 1⟩
    | some x =>
      let chat' := chatOf c niter prev chat x
      if pabs x ≤ c.tol then some ⟨true, niter + 1, false, chat', niter + 1⟩
      else if chat' then some ⟨true, niter + 1, false, chat', niter + 1⟩
      else if c.maxIter < niter + 1 then some ⟨false, niter + 1, false, chat', niter + 1⟩
      else if blowUp q0 x then some ⟨false, niter + 1, false, chat', niter + 1⟩
      else stepLoop c q0 (niter + 1) (some (curOf niter x)) chat' ds

/-- `ImplicitIter.step` after the `h == 0` test -/
def step (c : StepCfg α) (q0 : α) (chat0 : Bool) (ds : List (Inc α)) : Option StepOut :=
  stepLoop c q0 0 none chat0 ds

end

/-! ### exit code of the command line run -/

inductive Routine | tds | eig
deriving DecidableEq, Repr

/-- what happened at each stage of `andes run <one case> -r ...` -/
structure CliRun where
  /-- the case file was found -/
  found : Bool
  /-- `andes.io.parse` succeeded -/
  parsed : Bool
  /-- `System.setup()` returned True -/
  setupOk : Bool
  /-- `dae.m > 0` -/
  hasElements : Bool
  pflowConverged : Bool
  /-- requested routines after power flow, with: TDS (initialisation test passed, run succeeded) /
  EIG (has states) -/
  routines : List (Routine × Bool × Bool)
deriving Repr

/-- contribution of one routine to `system.exit_code`, given whether power flow converged -/
def routineExit (pf : Bool) : Routine × Bool × Bool → Nat
  | (Routine.tds, initOk, ok) => if !pf then 1 else (if initOk then 0 else 1) + (if ok then 0 else 1)
  | (Routine.eig, hasStates, _) => if !pf then 1 else if hasStates then 0 else 1

/-- `andes.main.run(..., cli=True)` for a single case -/
def cliExit (r : CliRun) : Nat :=
  if !r.found then 1
  else if !r.parsed then 1
  else if !r.setupOk then 1
  else
    let pf := r.hasElements && r.pflowConverged
    (if pf then 0 else 1) + (r.routines.map (routineExit pf)).sum

/-- did this routine succeed? -/
def routineOk : Routine × Bool × Bool → Bool
  | (Routine.tds, initOk, ok) => initOk && ok
  | (Routine.eig, hasStates, _) => hasStates

/-- did every stage succeed? -/
def allOk (r : CliRun) : Bool :=
  r.found && r.parsed && r.setupOk && r.hasElements && r.pflowConverged && r.routines.all routineOk

end Andes.Newton
