import Andes.Model.Hex
import Andes.Model.TdsDriver
import Andes.Model.AddressDriver
import Andes.Model.ConfigDriver
import Andes.Model.RegistryDriver
import Andes.Model.ExprDriver
import Andes.Model.IslandDriver
import Andes.Model.SolverCacheDriver
import Andes.Model.DiscreteDriver
import Andes.Model.NewtonDriver
import Andes.Model.PINumericDriver
/-! One case per input line, one canonical output line; the first word selects the model. -/

def handle (line : String) : String :=
  match line.splitOn " " with
  | "tds" :: args => Andes.Tds.handleTds args
  | "swt" :: args => Andes.Tds.handleSwt args
  | "tog" :: args => Andes.Events.handleTog args
  | "pinum" :: args => Andes.PINumeric.handlePinum args
  | "nr" :: args => Andes.Newton.handleNr args
  | "stp" :: args => Andes.Newton.handleStp args
  | "cli" :: args => Andes.Newton.handleCli args
  | "disc" :: op :: args => Andes.Discrete.handleDisc op args
  | "slv" :: args => Andes.SolverCache.handleSlv args | "pfs" :: args => Andes.SolverCache.handlePfs args | "tdi" :: args => Andes.SolverCache.handleTdi args
  | "island" :: args => Andes.Island.handleIsland args
  | "ev" :: args => Andes.Expr.handleEv args
  | "reg" :: args => Andes.Registry.handleReg args
  | "uniq" :: args => Andes.Registry.handleUniq args
  | "cfg" :: args => Andes.Config.handle args
  | "addr" :: args => Andes.Address.handleAddr args
  | "req" :: args => Andes.Address.handleReq args
  | "gval" :: args => Andes.Address.handleGval args
  | "dsel" :: args => Andes.Address.handleDsel args
  | _ => "bad-op"

partial def loop (h : IO.FS.Stream) : IO Unit := do
  let line ← h.getLine
  if line.isEmpty then return ()
  IO.println (handle (line.trimAscii.toString))
  loop h

def main : IO Unit := do loop (← IO.getStdin)
