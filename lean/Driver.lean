import Andes.Model.Hex
import Andes.Model.TdsDriver
import Andes.Model.IoDriver
import Andes.Model.PINumericDriver
import Andes.Model.AssembleDriver
import Andes.Model.PerUnitDriver
import Andes.Model.EigDriver
import Andes.Model.AddressDriver
import Andes.Model.ConfigDriver
import Andes.Model.RegistryDriver
import Andes.Model.ExprDriver
import Andes.Model.IslandDriver
import Andes.Model.SolverCacheDriver
import Andes.Model.DiscreteDriver
import Andes.Model.NewtonDriver
import Andes.Model.StoreDriver
/-! One case per input line, one canonical output line; the first word selects the model. -/

def handle (line : String) : String :=
  match line.splitOn " " with
  | "tds" :: args => Andes.Tds.handleTds args
  | "swt" :: args => Andes.Tds.handleSwt args
  | "tog" :: args => Andes.Events.handleTog args
  | "nr" :: args => Andes.Newton.handleNr args
  | "stp" :: args => Andes.Newton.handleStp args
  | "cli" :: args => Andes.Newton.handleCli args
  | "disc" :: op :: args => Andes.Discrete.handleDisc op args
  | "slv" :: args => Andes.SolverCache.handleSlv args | "pfs" :: args => Andes.SolverCache.handlePfs args | "tdi" :: args => Andes.SolverCache.handleTdi args
  | "sto" :: args => Andes.Store.handleSto args | "oidx" :: args => Andes.Store.handleOidx args | "qry" :: args => Andes.Store.handleQry args | "lab" :: args => Andes.Store.handleLab args | "fnd" :: args => Andes.Store.handleFnd args | "csv" :: args => Andes.Store.handleCsv args
  | "island" :: args => Andes.Island.handleIsland args
  | "ev" :: args => Andes.Expr.handleEv args
  | "evd" :: args => Andes.Expr.handleEvd args
  | "reg" :: args => Andes.Registry.handleReg args
  | "uniq" :: args => Andes.Registry.handleUniq args
  | "cfg" :: args => Andes.Config.handle args
  | "addr" :: args => Andes.Address.handleAddr args
  | "req" :: args => Andes.Address.handleReq args
  | "gval" :: args => Andes.Address.handleGval args
  | "dsel" :: args => Andes.Address.handleDsel args
  | "eigas" :: args => Andes.Eig.handleAs args | "eigst" :: args => Andes.Eig.handleSt args | "eigpf" :: args => Andes.Eig.handlePf args | "eigam" :: args => Andes.Eig.handleAm args | "eigsw" :: args => Andes.Eig.handleSw args
  | "pu" :: args => Andes.PerUnit.handlePu args | "coef" :: args => Andes.PerUnit.handleCoef args
  | "pfg" :: args => Andes.PFlow.handlePfg args | "pfu" :: args => Andes.PFlow.handlePfu args
  | "pinum" :: args => Andes.PINumeric.handlePinum args
  | "ios" :: args => Andes.Io.handleIos args | "iol" :: args => Andes.Io.handleIol args | "mpb" :: args => Andes.Mpc.handleMpb args | "mpg" :: args => Andes.Mpc.handleMpg args | "mpl" :: args => Andes.Mpc.handleMpl args | "mxl" :: args => Andes.Mpc.handleMxl args | "mxp" :: args => Andes.Mpc.handleMxp args | "rwl" :: args => Andes.Mpc.handleRwl args | "rwx" :: args => Andes.Mpc.handleRwx args | "rw3" :: args => Andes.Mpc.handleRw3 args
  | _ => "bad-op"

partial def loop (h : IO.FS.Stream) : IO Unit := do
  let line ← h.getLine
  if line.isEmpty then return ()
  IO.println (handle (line.trimAscii.toString))
  loop h

def main : IO Unit := do loop (← IO.getStdin)
