import Andes.Model.Hex
import Andes.Model.TdsDriver
import Andes.Model.AddressDriver
/-! One case per input line, one canonical output line; the first word selects the model. -/

def handle (line : String) : String :=
  match line.splitOn " " with
  | "tds" :: args => Andes.Tds.handleTds args
  | "swt" :: args => Andes.Tds.handleSwt args
  | "tog" :: args => Andes.Events.handleTog args
  | "addr" :: args => Andes.Address.handleAddr args
  | "req" :: args => Andes.Address.handleReq args
  | "gval" :: args => Andes.Address.handleGval args
  | "dsel" :: args => Andes.Address.handleDsel args
  | _ => "bad-op"

partial def loop (h : IO.FS.Stream) : IO Unit := do
  let line ← h.getLine
  if line.isEmpty then return ()
  IO.println (handle (line.trimAscii.toString))
  loop h

def main : IO Unit := do loop (← IO.getStdin)
