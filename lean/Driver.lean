import Andes.Model.Hex
import Andes.Model.TdsDriver
import Andes.Model.IslandDriver
import Andes.Model.SolverCacheDriver
import Andes.Model.DiscreteDriver
import Andes.Model.NewtonDriver
import Andes.Model.IoDriver
/-! One case per input line, one canonical output line; the first word selects the model. -/

def handle (line : String) : String :=
  match line.splitOn " " with
  | "tds" :: args => Andes.Tds.handleTds args
  | "swt" :: args => Andes.Tds.handleSwt args
  | "tog" :: args => Andes.Events.handleTog args
  | "nr" :: args => Andes.Newton.handleNr args
  | "stp" :: args => Andes.Newton.handleStp args
  | "cli" :: args => Andes.Newton.handleCli args
  | "disc" :: op :: args => Andes.Discrete.handleDisc op args
  | "slv" :: args => Andes.SolverCache.handleSlv args | "pfs" :: args => Andes.SolverCache.handlePfs args | "tdi" :: args => Andes.SolverCache.handleTdi args
  | "ios" :: args => Andes.Io.handleIos args | "iol" :: args => Andes.Io.handleIol args | "mpb" :: args => Andes.Mpc.handleMpb args | "mpg" :: args => Andes.Mpc.handleMpg args | "mpl" :: args => Andes.Mpc.handleMpl args | "mxl" :: args => Andes.Mpc.handleMxl args | "mxp" :: args => Andes.Mpc.handleMxp args | "rwl" :: args => Andes.Mpc.handleRwl args | "rwx" :: args => Andes.Mpc.handleRwx args | "rw3" :: args => Andes.Mpc.handleRw3 args
  | "island" :: args => Andes.Island.handleIsland args
  | _ => "bad-op"

partial def loop (h : IO.FS.Stream) : IO Unit := do
  let line ← h.getLine
  if line.isEmpty then return ()
  IO.println (handle (line.trimAscii.toString))
  loop h

def main : IO Unit := do loop (← IO.getStdin)
