"""C18 translator: every `Block` subclass of andes/core/block.py -> lean/Andes/Gen/Blocks.lean, on every run.

What is LIVE (taken from the imported classes, never copied):
  * the list of block classes (every subclass of `Block` defined in andes.core.block),
  * each block's equations `e_str`, initial values `v_str`, time constants `t_const`, exported discrete
    components with their flag names and (for `LessThan`) what they test, obtained by instantiating the class with
    symbolic dummy parameters and attaching it to a throw-away host `Model`, so that the real
    `Model.__setattr__` / `Block.__setattr__` / `export()` name-spacing runs,
  * the names under which the host registered everything.
What is SPECIFICATION (written by hand below, one entry per block, from the docstrings of block.py):
  * the documented transfer function `num / den` (python syntax, Laplace variable `s`),
  * the variants (zero_out on/off, ...), the flag settings of the by-pass cases, side conditions.
The translator decides nothing: it prints definitions and theorem statements with a fixed tactic; a block whose
equations stop matching its documented transfer function makes the Lean build fail at that theorem.

Lean shape per variant V (block instance name is always `B`, so exported names are `B_<var>`):
  def V.Laplace (s <params> <flags> <vars> : F) : Prop   -- e_str with  d/dt x  replaced by  s*x  (zero initial state)
  def V.Balanced (<params> <flags> <vars> : F) : Prop    -- every e_str = 0 (time-domain equilibrium)
  def V.Init (<params> <flags> <vars> : F) : Prop        -- every variable equals its v_str
  def V.Flags ... : Prop                                 -- LessThan flags as the code sets them (for T >= 0: [T<=0] = [T=0])
  def V.exported / V.used / V.symbols : List String      -- name-spacing data
  theorem V_tf / V_tf_partial / V_<bypass> / V_steady(_partial) / V_limited_reduces / V_export_namespacing
"""
import ast
import inspect
import os
import re

from translator.pyexpr2lean import lean_num, Untranslatable

BLOCK_NAME = 'B'
LEAN_RESERVED = {'at', 'in', 'from', 'end', 'fun', 'open', 'let', 'have', 'show', 'do', 'if', 'then', 'else', 'by',
                 'with', 'where', 'Type', 'Prop', 'Sort', 'set_option', 'local', 'def', 'theorem', 'variable',
                 'import', 'namespace', 'section', 'instance', 'class', 'structure', 'match', 'return', 'then',
                 'F'}
INPUT_ARGS = ('u', 'u1', 'u2')
NONSYMBOLIC = {'self', 'name', 'tex_name', 'info', 'namespace', 'zero_out', 'no_lower', 'no_upper', 'check_init',
               'no_warn', 'rate_no_lower', 'rate_no_upper', 'rate_lower_cond', 'rate_upper_cond', 'enable',
               'sign_lower', 'sign_upper', 'points', 'funs'}


# --------------------------------------------------------------------------- live extraction

def block_classes():
    from andes.core import block as B
    out = []
    for n, c in inspect.getmembers(B, inspect.isclass):
        if issubclass(c, B.Block) and c is not B.Block and c.__module__ == B.__name__:
            out.append(c)
    return sorted(out, key=lambda c: inspect.getsourcelines(c)[1])


def instantiate(cls, **over):
    """the block with a symbolic dummy (named like the constructor argument) for every value argument"""
    from andes.core.param import NumParam
    from andes.core.var import Algeb
    sig = inspect.signature(cls.__init__)
    kw, symbolic = {}, []
    for pn, p in sig.parameters.items():
        if pn in NONSYMBOLIC or pn in over:
            continue
        if p.kind in (p.VAR_POSITIONAL, p.VAR_KEYWORD):
            continue
        kw[pn] = Algeb(name=pn, tex_name=pn) if pn in INPUT_ARGS else NumParam(name=pn, tex_name=pn)
        symbolic.append(pn)
    kw.update(over)
    return cls(name=BLOCK_NAME, tex_name=BLOCK_NAME, **kw), symbolic


def host_model():
    from andes.core.model import Model, ModelData

    class Host(ModelData, Model):
        def __init__(self):
            ModelData.__init__(self)
            Model.__init__(self, system=None, config=None)
    return Host()


def extract(cls, **over):
    """attach a fresh instance to a throw-away host Model (real name-spacing) and read everything back"""
    from andes.core.discrete import LessThan
    blk, symbolic = instantiate(cls, **over)
    h = host_model()
    before = {k: set(getattr(h, k).keys()) for k in ('states', 'algebs', 'discrete', 'services', 'blocks',
                                                      'services_ops', 'services_var')}
    setattr(h, BLOCK_NAME, blk)
    reg = {k: [n for n in getattr(h, k).keys() if n not in before[k]] for k in before}
    vs = []
    for vn, v in h.vars_decl_order.items():
        tc = getattr(v, 't_const', None)
        kind = type(v).__name__
        vs.append({'name': vn, 'kind': kind, 'T': getattr(tc, 'name', None) if tc is not None else None,
                   'e': None if v.e_str is None else str(v.e_str), 'v': None if v.v_str is None else str(v.v_str),
                   'obj_name': v.name})
    flags, discs = [], []
    for dn in reg['discrete']:
        d = h.discrete[dn]
        names = list(d.get_names())
        flags += names
        rec = {'name': dn, 'cls': type(d).__name__, 'flags': names, 'obj_name': d.name}
        if isinstance(d, LessThan):
            rec.update(u=str(getattr(d.u, 'name', d.u)), bound=str(d.bound.name), equal=bool(d.equal),
                       enable=bool(d.enable), z0=int(d.z0[0]), z1=int(d.z1[0]))
        for a in ('lower', 'upper', 'center'):
            if hasattr(d, a):
                rec[a] = str(getattr(getattr(d, a), 'name', getattr(d, a)))
        if hasattr(d, 'u') and 'u' not in rec:
            rec['u'] = str(getattr(d.u, 'name', d.u))
        discs.append(rec)
    numeric = {k: bool(v) for k, v in blk.flags.__dict__.items() if k in ('f_num', 'g_num', 'j_num')}
    return {'cls': cls.__name__, 'over': {k: repr(v) for k, v in over.items()}, 'symbolic': symbolic, 'vars': vs,
            'flags': flags, 'discrete': discs, 'registered': reg, 'numeric': numeric, 'block': blk, 'host': h}


# --------------------------------------------------------------------------- python expression -> Lean text

class Tr:
    """python expression syntax -> Lean term over a field `F`; collects the identifiers used"""

    def __init__(self):
        self.used = []

    def name(self, n):
        if n not in self.used:
            self.used.append(n)
        return lean_ident(n)

    def expr(self, src):
        return self.go(ast.parse(str(src).strip(), mode='eval').body)

    def cond(self, n):
        if isinstance(n, ast.Constant) and n.value is True:
            return 'True'
        if isinstance(n, ast.Compare) and len(n.ops) == 1:
            op = {ast.Lt: '<', ast.LtE: '≤', ast.Gt: '>', ast.GtE: '≥'}.get(type(n.ops[0]))
            if op is None:
                raise Untranslatable('comparison %s' % type(n.ops[0]).__name__)
            return '(%s %s %s)' % (self.go(n.left), op, self.go(n.comparators[0]))
        raise Untranslatable('condition %s' % type(n).__name__)

    def go(self, n):
        if isinstance(n, ast.Constant):
            return lean_num(n.value)
        if isinstance(n, ast.Name):
            return self.name(n.id)
        if isinstance(n, ast.UnaryOp):
            if isinstance(n.op, ast.USub):
                return '(-%s)' % self.go(n.operand)
            if isinstance(n.op, ast.UAdd):
                return self.go(n.operand)
            raise Untranslatable('unary %s' % type(n.op).__name__)
        if isinstance(n, ast.BinOp):
            op = {ast.Add: '+', ast.Sub: '-', ast.Mult: '*', ast.Div: '/'}.get(type(n.op))
            if op:
                return '(%s %s %s)' % (self.go(n.left), op, self.go(n.right))
            if isinstance(n.op, ast.Pow) and isinstance(n.right, ast.Constant) and isinstance(n.right.value, int) \
                    and n.right.value >= 0:
                return '(%s ^ %d)' % (self.go(n.left), n.right.value)
            raise Untranslatable('binop %s' % type(n.op).__name__)
        if isinstance(n, ast.Call) and isinstance(n.func, ast.Name) and n.func.id == 'Piecewise':
            # Piecewise((e, c), ..., evaluate=False): first true condition wins; sympy's value when none holds
            # does not arise because block.py always closes with (0, True)
            arms = []
            for a in n.args:
                if not (isinstance(a, ast.Tuple) and len(a.elts) == 2):
                    raise Untranslatable('Piecewise arm')
                arms.append((self.go(a.elts[0]), self.cond(a.elts[1])))
            if not arms or arms[-1][1] != 'True':
                raise Untranslatable('Piecewise without a final (e, True) arm')
            out = arms[-1][0]
            for e, c in reversed(arms[:-1]):
                out = '(if %s then %s else %s)' % (c, e, out)
            return out
        raise Untranslatable(type(n).__name__ + ': ' + ast.dump(n)[:60])


def lean_ident(n):
    return n + "'" if n in LEAN_RESERVED else n



# --------------------------------------------------------------------------- direct evaluation of the live strings
# (Python's own `eval`, independent of the Lean translation above; used for the rational witnesses printed next to
#  every theorem and, with complex floats, by the oracle of harness/c18.py)

def _piecewise(*arms, **kw):
    for e, c in arms:
        if c is True or bool(c):
            return e
    raise ValueError('Piecewise: no arm applies')


def _q(x):
    from fractions import Fraction
    return Fraction(x)


PYENV = {'__builtins__': {}, 'Piecewise': _piecewise, 'True': True, '_Q': _q}


class _ExactLiterals(ast.NodeTransformer):
    def visit_Constant(self, n):
        if isinstance(n.value, float):
            return ast.copy_location(ast.Call(func=ast.Name(id='_Q', ctx=ast.Load()),
                                              args=[ast.Constant(value=repr(n.value))], keywords=[]), n)
        return n


def py_eval(src, env, exact=False):
    """evaluate a block string at `env`; exact=True reads decimal literals as exact fractions"""
    tree = ast.parse(str(src).strip(), mode='eval')
    if exact:
        tree = ast.fix_missing_locations(_ExactLiterals().visit(tree))
    return eval(compile(tree, '<block string>', 'eval'), dict(PYENV), env)  # noqa: S307


def laplace_residuals(vars_, env, s, exact=False):
    """T s x - e  for states,  e  for algebraic variables, at the point `env`"""
    out = []
    for v in vars_:
        if v['e'] is None:
            continue
        e = py_eval(v['e'], env, exact)
        if v['kind'] == 'State':
            lhs = s * env[v['name']]
            if v['T']:
                lhs = py_eval(v['T'], env, exact) * lhs
            out.append(lhs - e)
        else:
            out.append(e)
    return out


def solve_linear(A, b, zero, tiny=None):
    """Gaussian elimination over any field type (Fraction, complex); returns None when singular"""
    n = len(A)
    M = [list(r) + [bb] for r, bb in zip(A, b)]
    for c in range(n):
        piv = max(range(c, n), key=lambda r: abs(M[r][c]))
        if M[piv][c] == zero or (tiny is not None and abs(M[piv][c]) < tiny):
            return None
        M[c], M[piv] = M[piv], M[c]
        for r in range(n):
            if r != c and M[r][c] != zero:
                f = M[r][c] / M[c][c]
                M[r] = [a - f * bb for a, bb in zip(M[r], M[c])]
    return [M[i][n] / M[i][i] for i in range(n)]


def solve_laplace(vars_, env, s, zero=0, one=1, tiny=None, exact=False):
    """the block's response in the Laplace domain: solve the (linear) equations for the block variables"""
    names = [v['name'] for v in vars_ if v['e'] is not None]
    e0 = dict(env)
    for n in names:
        e0[n] = zero
    c = laplace_residuals(vars_, e0, s, exact)
    cols = []
    for n in names:
        e1 = dict(e0)
        e1[n] = one
        r = laplace_residuals(vars_, e1, s, exact)
        cols.append([ri - ci for ri, ci in zip(r, c)])
    A = [[cols[j][i] for j in range(len(names))] for i in range(len(names))]
    x = solve_linear(A, [-ci for ci in c], zero, tiny)
    if x is None:
        return None
    return dict(zip(names, x))


def init_values(vars_, env, exact=False):
    """declared initial values, evaluated in declaration order (what the initialisation does)"""
    e = dict(env)
    for v in vars_:
        if v['v'] is not None:
            e[v['name']] = py_eval(v['v'], e, exact)
    return e


def qlean(q):
    from fractions import Fraction
    q = Fraction(q)
    if q.denominator == 1:
        return '(%d)' % q.numerator if q.numerator < 0 else '%d' % q.numerator
    return '(%d / %d)' % (q.numerator, q.denominator)


def witness_env(sg, ob, ex):
    """small distinct positive rationals for the constructor arguments, the flag values of the obligation, its
    equalities applied"""
    from fractions import Fraction
    env = {}
    primes = [2, 3, 5, 7, 11, 13, 17, 19, 23, 29, 31, 37, 41, 43, 47, 53]
    tv = sg['tv']
    for i, a in enumerate(tv['params'] + tv['extra']):
        env[a] = Fraction(primes[i % len(primes)], 2 if i % 2 else 3)
    if 'lower' in env and 'upper' in env and env['lower'] > env['upper']:
        env['lower'], env['upper'] = env['upper'], env['lower']
    for f in tv['flags']:
        env[f] = Fraction(ob['flags'].get(f, 0))
        if f.endswith('_z0') and f[:-1] + '1' in ob['flags']:
            env[f] = 1 - Fraction(ob['flags'][f[:-1] + '1'])
    for a, b in ob['eqs'] + ob.get('excl', []):
        env[a] = Fraction(py_eval(b, env, True))
    return env

# --------------------------------------------------------------------------- the hand-written specification

def V(name, cls, over=None, base=None):
    return {'name': name, 'cls': cls, 'over': over or {}, 'base': base}


# variants: (Lean name, class, constructor overrides).  Every class needs at least one; a class of block.py that
# is missing here is instantiated with defaults and reported as `unspecified` (coverage failure).
PW = {'points': ('p0', 'p1'), 'funs': ('f0', 'f1', 'f2')}
VARIANTS = [
    V('PIController', 'PIController'), V('PIDController', 'PIDController'),
    V('PIAWHardLimit', 'PIAWHardLimit'), V('PIDAWHardLimit', 'PIDAWHardLimit'),
    V('PITrackAW', 'PITrackAW'), V('PIDTrackAW', 'PIDTrackAW'), V('PITrackAWFreeze', 'PITrackAWFreeze'),
    V('PIFreeze', 'PIFreeze'), V('PIControllerNumeric', 'PIControllerNumeric'),
    V('Gain', 'Gain'), V('Integrator', 'Integrator'), V('IntegratorAntiWindup', 'IntegratorAntiWindup'),
    V('Washout', 'Washout'), V('WashoutOrLag', 'WashoutOrLag'), V('WashoutOrLagOff', 'WashoutOrLag', {'zero_out': False}),
    V('Lag', 'Lag'), V('LagFreeze', 'LagFreeze'), V('LagAntiWindup', 'LagAntiWindup'), V('LagAWFreeze', 'LagAWFreeze'),
    V('LagRate', 'LagRate'), V('LagAntiWindupRate', 'LagAntiWindupRate'), V('Lag2ndOrd', 'Lag2ndOrd'),
    V('LeadLag', 'LeadLag', {'zero_out': False}), V('LeadLagZ', 'LeadLag', {'zero_out': True}),
    V('LeadLag2ndOrd', 'LeadLag2ndOrd', {'zero_out': False}), V('LeadLag2ndOrdZ', 'LeadLag2ndOrd', {'zero_out': True}),
    V('LeadLagLimit', 'LeadLagLimit'), V('HVGate', 'HVGate'), V('LVGate', 'LVGate'),
    V('GainLimiter', 'GainLimiter'), V('Piecewise', 'Piecewise', PW), V('DeadBand1', 'DeadBand1'),
]

# documented limits (docstrings of block.py): variant -> [(limiter, limited variable, lower bound, upper bound)].
# "Limits lower and upper are on the final output, and aw_lower aw_upper are on the integrator" (PIAWHardLimit).
DOC_LIMITS = {
    'PIAWHardLimit': [('B_aw', 'B_xi', 'aw_lower', 'aw_upper'), ('B_hl', 'B_yul', 'lower', 'upper')],
    'PIDAWHardLimit': [('B_aw', 'B_xi', 'aw_lower', 'aw_upper'), ('B_hl', 'B_yul', 'lower', 'upper')],
    'PITrackAW': [('B_lim', 'B_ys', 'lower', 'upper')],
    'PIDTrackAW': [('B_lim', 'B_ys', 'lower', 'upper')],
    'PITrackAWFreeze': [('B_lim', 'B_ys', 'lower', 'upper')],
    'IntegratorAntiWindup': [('B_lim', 'B_y', 'lower', 'upper')],
    'LagAntiWindup': [('B_lim', 'B_y', 'lower', 'upper')],
    'LagAWFreeze': [('B_lim', 'B_y', 'lower', 'upper')],
    'LagAntiWindupRate': [('B_lim', 'B_y', 'lower', 'upper')],
    'LeadLagLimit': [('B_lim', 'B_ynl', 'lower', 'upper')],
    'GainLimiter': [('B_lim', 'B_x', 'lower', 'upper')],
}
IN = {'B_lim_zi': 1, 'B_lim_zl': 0, 'B_lim_zu': 0}      # inside the limits of `lim`
INHL = {'B_hl_zi': 1, 'B_hl_zl': 0, 'B_hl_zu': 0}
WASH = {'B_LT_z0': 1, 'B_LT_z1': 0}
LAGM = {'B_LT_z0': 0, 'B_LT_z1': 1}
PI_TF = ('kp * s + ki', 's')
PID_TF = ('(kp * s + ki) * (1 + s * Td) + s * s * kd', 's * (1 + s * Td)')   # kp + ki/s + s kd/(1 + s Td)
LL2_TF = ('1 + s * T3 + s * s * T4', '1 + s * T1 + s * s * T2')


def T(name, num, den, inp='u', out='B_y', flags=None, nz=(), eqs=(), doc='', wit=True, excl=(), key=None, lean=True):
    """transfer-function obligation:  Laplace -> out * den = num * inp   (cleared denominators)"""
    return {'kind': 'tf', 'name': name, 'num': num, 'den': den, 'inp': inp, 'out': out, 'flags': flags or {},
            'nz': list(nz), 'eqs': list(eqs), 'doc': doc, 'wit': wit, 'excl': list(excl), 'key': key, 'lean': lean}


def S(name='steady', flags=None, nz=(), eqs=(), doc='', excl=(), key=None):
    """steady-state obligation:  Init -> Balanced  (with the stated input restriction for integrating blocks)"""
    return {'kind': 'steady', 'name': name, 'flags': flags or {}, 'nz': list(nz), 'eqs': list(eqs), 'doc': doc,
            'excl': list(excl), 'key': key, 'lean': True}


def R(base, flags=None, subst=None, eqs=(), doc='', iff=False, excl=(), key=None):
    """limited_reduces: with the flags inside the limits, V.Laplace implies (iff: is equivalent to) base.Laplace"""
    return {'kind': 'reduces', 'name': 'limited_reduces', 'base': base, 'flags': flags or {}, 'subst': subst or {},
            'eqs': list(eqs), 'doc': doc, 'iff': iff, 'excl': list(excl), 'key': key, 'lean': True}


# SPEC[variant] = list of obligations.  Transfer functions are those DOCUMENTED in the class docstrings of
# andes/core/block.py.  `_partial` = documented relation under an excluding hypothesis (a defect of the code outside
# it, see Props/C18.lean for the counterexample); `_actual` = the relation the code really implements.
UREF = [('u', 'ref')]
SPEC = {
    'Gain': [T('tf', 'K', '1', doc='y = K u'), S()],
    'Integrator': [T('tf', 'K', 's * T', doc='K/(sT)'), S(eqs=[('u', '0')], doc='integrator: balances only with zero input')],
    'IntegratorAntiWindup': [T('tf', 'K', 's * T'), S(eqs=[('u', '0')]), R('Integrator', iff=True)],
    'Washout': [T('tf', 's * K', '1 + s * T', nz=['T'], doc='sK/(1+sT); T = 0 is singular (see Props)'), S()],
    'WashoutOrLag': [T('tf', 's * K', '1 + s * T', nz=['T'], flags=WASH, doc='K > 0: washout'),
                     T('lag_bypass', '1', '1 + s * T', nz=['T'], flags=LAGM, eqs=[('K', '0')], doc='K = 0: sT becomes 1, low-pass 1/(1+sT)'),
                     S(), R('Washout', flags=WASH, iff=True)],
    'WashoutOrLagOff': [T('tf', 's * K', '1 + s * T', nz=['T'], flags=WASH), S(), R('Washout', flags=WASH, iff=True)],
    'Lag': [T('tf', 'K', 'D + s * T', doc='K/(D+sT), every T including T = 0'),
            T('T0_bypass', 'K', 'D', eqs=[('T', '0')], doc='zero time constant: static gain K/D'), S(nz=['D'])],
    'LagFreeze': [T('tf_partial', 'K', 'D + s * T', eqs=[('freeze', '0')], excl=[('D', '1')], key='lagfreeze-ignores-D',
                    doc='DEFECT lagfreeze-ignores-D: documented K/(D+sT) only for D = 1'),
                  T('tf_actual', 'K', '1 + s * T', eqs=[('freeze', '0')], doc='what the code implements: K/(1+sT)'),
                  T('frozen', '0', 'T * s', eqs=[('freeze', '1')], doc='freeze = 1: T dy/dt = 0'),
                  S(doc='own initial value K u / 1 is consistent with the D-less equation')],
    'LagAntiWindup': [T('tf', 'K', 'D + s * T'), S(nz=['D']), R('Lag', iff=True)],
    'LagAWFreeze': [T('tf_partial', 'K', 'D + s * T', eqs=[('freeze', '0')], excl=[('D', '1')], key='lagawfreeze-drops-D',
                      doc='DEFECT lagawfreeze-drops-D: documented K/(D+sT) only for D = 1'),
                    T('tf_actual', 'K', '1 + s * T', eqs=[('freeze', '0')]),
                    T('frozen', '0', 'T * s', eqs=[('freeze', '1')]),
                    S('steady_partial', nz=['D'], excl=[('D', '1')], key='lagawfreeze-drops-D',
                      doc='DEFECT: initial value K u / D, equation K u - y'),
                    R('LagAntiWindup', eqs=[('freeze', '0')], excl=[('D', '1')], key='lagawfreeze-drops-D')],
    'LagRate': [T('tf_partial', 'K', 'D + s * T', excl=[('D', '1')], key='lagrate-ignores-D',
                  doc='DEFECT lagrate-ignores-D: documented K/(D+sT) only for D = 1'),
                T('tf_actual', 'K', '1 + s * T'), S(), R('Lag', excl=[('D', '1')], key='lagrate-ignores-D')],
    'LagAntiWindupRate': [T('tf', 'K', 'D + s * T'), S(nz=['D']), R('Lag', iff=True)],
    'Lag2ndOrd': [T('tf', 'K', '1 + s * T1 + s * s * T2', doc='K/(1+sT1+s^2T2), every T1, T2'), S()],
    'LeadLag': [T('tf', 'K * (1 + s * T1)', '1 + s * T2', nz=['T2'], doc='K(1+sT1)/(1+sT2)'),
                S('steady_partial', excl=[('K', '1')], key='leadlag-init-ignores-K',
                  doc='DEFECT leadlag-init-ignores-K: y0 = u instead of K u')],
    'LeadLagZ': [T('tf', 'K * (1 + s * T1)', '1 + s * T2', nz=['T2'], flags={'B_LT2_z1': 0}, doc='T2 > 0'),
                 T('zero_bypass', 'K', '1', eqs=[('T1', '0'), ('T2', '0')], flags={'B_LT1_z1': 1, 'B_LT2_z1': 1},
                   doc='T1 = T2 = 0 with zero_out: pure gain K'),
                 S('steady_partial', excl=[('K', '1')], key='leadlag-init-ignores-K', doc='DEFECT leadlag-init-ignores-K'),
                 R('LeadLag', flags={'B_LT2_z1': 0}, iff=True)],
    'LeadLag2ndOrd': [T('tf', *LL2_TF, nz=['T2'], doc='(1+sT3+s^2T4)/(1+sT1+s^2T2)'), S()],
    'LeadLag2ndOrdZ': [T('tf', *LL2_TF, nz=['T2'], flags={'B_LT2_z1': 0}),
                       T('zero_bypass', '1', '1', eqs=[('T1', '0'), ('T2', '0'), ('T3', '0'), ('T4', '0')],
                         flags={'B_LT1_z1': 1, 'B_LT2_z1': 1, 'B_LT3_z1': 1, 'B_LT4_z1': 1}, doc='all four zero: y = u'),
                       S(), R('LeadLag2ndOrd', flags={'B_LT2_z1': 0}, iff=True)],
    'LeadLagLimit': [T('tf', '1 + s * T1', '1 + s * T2', nz=['T2'], flags=IN), S(flags=IN),
                     R('LeadLag', flags=IN, subst={'K': '1'}, doc='inside the limits: the LeadLag equations with K = 1')],
    'PIController': [T('tf', *PI_TF, inp='(u - ref)', doc='kp + ki/s on (u - ref)'),
                     S(eqs=UREF, doc='integrating block: balances only with u = ref')],
    'PIFreeze': [T('tf', *PI_TF, inp='(u - ref)', eqs=[('freeze', '0')]), S(eqs=UREF),
                 T('frozen', '0', 's', out='B_xi', eqs=[('freeze', '1')], wit=False,
                   doc='freeze = 1: d xi/dt = 0 (y is then free: no unique witness is printed)'),
                 R('PIController', eqs=[('freeze', '0')], iff=True)],
    'PIAWHardLimit': [T('tf', *PI_TF, inp='(u - ref)', flags=INHL), S(eqs=UREF, flags=INHL), R('PIController', flags=INHL)],
    'PITrackAW': [T('tf', *PI_TF, inp='(u - ref)', flags=IN), S(eqs=UREF, flags=IN), R('PIController', flags=IN)],
    'PITrackAWFreeze': [T('tf', *PI_TF, inp='(u - ref)', flags=IN, eqs=[('freeze', '0')]), S(eqs=UREF, flags=IN),
                        R('PITrackAW', eqs=[('freeze', '0')], iff=True)],
    'PIDController': [T('tf', *PID_TF, inp='(u - ref)', nz=['Td'],
                        doc='Washout(T=Td): documented kp+ki/s+s kd/(1+sTd) (T was kd on the pinned tree: pid-ignores-Td, repaired)'),
                      S(eqs=UREF)],
    'PIDAWHardLimit': [T('tf', *PID_TF, inp='(u - ref)', nz=['Td'], flags=INHL,
                         doc='Washout(T=Td) (pidaw-ignores-Td, repaired)'),
                       S(eqs=UREF, flags=INHL)],
    'PIDTrackAW': [T('tf', *PID_TF, inp='(u - ref)', nz=['Td'], flags=IN, doc='Washout(T=Td): documented PID'),
                   S(eqs=UREF, flags=IN)],
    # non-linear / static blocks: equations exported for the hand-written theorems of Props/C18.lean
    'HVGate': [S(doc='initial value is the same flag-weighted sum')], 'LVGate': [S()],
    'GainLimiter': [T('tf', 'R * K', '1', flags=IN, doc='inside the limits: y = R K u'), S(flags=IN)],
    'Piecewise': [S()], 'DeadBand1': [S()],
    'PIControllerNumeric': [],
}
ORDERED = {'HVGate', 'LVGate', 'Piecewise', 'DeadBand1'}     # need an order on the scalars


# --------------------------------------------------------------------------- generation

def translate_variant(ex):
    """Lean texts of one extracted variant: Laplace / Balanced / Init conjunct lists, argument lists, used names"""
    tr = Tr()
    lap, bal, ini = [], [], []
    varnames = [v['name'] for v in ex['vars']]
    for v in ex['vars']:
        ln = lean_ident(v['name'])
        if v['e'] is not None:
            e = tr.expr(v['e'])
            if v['kind'] == 'State':
                lhs = '%s * (s * %s)' % (tr.name(v['T']), ln) if v['T'] else 's * %s' % ln
                lap.append('%s = %s' % (lhs, e))
            else:
                lap.append('%s = 0' % e)
            bal.append('%s = 0' % e)
        if v['v'] is not None:
            ini.append('%s = %s' % (ln, tr.expr(v['v'])))
    used = list(tr.used)
    flags = [f for f in ex['flags'] if f in used]
    params = [p for p in ex['symbolic'] if p in used or True]
    extra = [n for n in used if n not in params and n not in flags and n not in varnames]
    return {'lap': lap, 'bal': bal, 'ini': ini, 'params': params, 'flags': flags, 'vars': varnames, 'extra': extra,
            'used': used}


def conj(lst):
    return ' ∧ '.join('(%s)' % x for x in lst) if lst else 'True'


def lean_str_list(xs):
    return '[' + ', '.join('"%s"' % x for x in xs) + ']'


def generate(lean_dir, write=True):
    """returns {'theorems': [...], 'variants': {...}, 'problems': [...], 'classes': [...]} and writes Blocks.lean"""
    problems = []
    classes = block_classes()
    cls_by_name = {c.__name__: c for c in classes}
    variants = [dict(v) for v in VARIANTS if v['cls'] in cls_by_name]
    for v in VARIANTS:
        if v['cls'] not in cls_by_name:
            problems.append('specified block class %s no longer exists in andes/core/block.py' % v['cls'])
    covered = {v['cls'] for v in variants}
    for c in classes:
        if c.__name__ not in covered:
            variants.append(V(c.__name__, c.__name__))
            problems.append('block class %s has no documented transfer function in translator/blocks.py (unspecified)'
                            % c.__name__)
    out = ['import Andes.Proofs.Blocks', 'import Mathlib.Algebra.Order.Field.Rat', 'import Mathlib.Tactic.NormNum',
           '/-! GENERATED by translator/blocks.py from the live classes of andes/core/block.py on every run — do not edit.',
           '    Block instance name is `B`; exported names are `B_<var>`; `s` is the Laplace variable (an element of the',
           '    field), state derivatives are replaced by `s * x` (zero initial state). -/',
           'set_option linter.unusedVariables false', 'set_option linter.unusedSectionVars false',
           'set_option linter.unusedTactic false', 'set_option linter.unnecessarySeqFocus false', 'set_option linter.unreachableTactic false',
           'namespace Andes.Gen.Blocks', '']
    theorems, info = [], {}
    sigs = {}
    n_wit = 0
    for v in variants:
        name = v['name']
        try:
            ex = extract(cls_by_name[v['cls']], **v['over'])
            tv = translate_variant(ex)
        except Exception as e:  # noqa
            problems.append('%s: cannot extract/translate: %s: %s' % (name, type(e).__name__, str(e)[:200]))
            continue
        ordered = name in ORDERED
        cls_line = '{F : Type} [Field F] [LinearOrder F] [IsStrictOrderedRing F]' if ordered else '{F : Type} [Field F]'
        args = [lean_ident(a) for a in tv['params'] + tv['extra'] + tv['flags'] + tv['vars']]
        sigs[name] = {'args': args, 'tv': tv, 'ex': ex, 'ordered': ordered, 'cls_line': cls_line}
        binder = '(%s : F)' % ' '.join(args) if args else ''
        out.append('/-! ### %s  (class `%s`%s) -/' % (name, v['cls'], (', ' + ', '.join('%s=%s' % kv for kv in ex['over'].items())) if ex['over'] else ''))
        if tv['lap']:
            out.append('/-- Laplace-domain equations (zero initial state) of `%s`, as extracted -/' % name)
            out.append('def %s.Laplace %s (s : F) %s : Prop :=\n  %s' % (name, cls_line, binder, conj(tv['lap'])))
            out.append('/-- every equation residual vanishes (time-domain equilibrium) -/')
            out.append('def %s.Balanced %s %s : Prop :=\n  %s' % (name, cls_line, binder, conj(tv['bal'])))
            out.append('/-- every variable has its declared initial value `v_str` -/')
            out.append('def %s.Init %s %s : Prop :=\n  %s' % (name, cls_line, binder, conj(tv['ini'])))
        # LessThan flags as the code sets them (the tested quantity is live); for an admissible (non-negative)
        # time constant `T <= 0` is `T = 0`, which is what a field without order can say
        lts = [d for d in ex['discrete'] if d['cls'] == 'LessThan' and d.get('bound') == '0' and d.get('equal')]
        if lts and not ordered:
            cj = []
            for d in lts:
                z0n, z1n = d['flags'][0], d['flags'][1]
                if d['enable']:
                    cj.append('%s = (if %s = 0 then 1 else 0)' % (z1n, lean_ident(d['u'])))
                    cj.append('%s = 1 - %s' % (z0n, z1n))
                else:
                    cj.append('%s = %d' % (z1n, d['z1']))
                    cj.append('%s = %d' % (z0n, d['z0']))
            fargs = sorted(set([lean_ident(d['u']) for d in lts if d['enable']]))
            fl = [f for d in lts for f in d['flags']]
            out.append('/-- the `LessThan` flags as the code computes them, for non-negative tested parameters -/')
            out.append('def %s.Flags {F : Type} [Field F] [DecidableEq F] (%s : F) : Prop :=\n  %s'
                       % (name, ' '.join(fargs + fl), conj(cj)))
            sigs[name]['flag_args'] = fargs + fl
        # name-spacing data
        reg = ex['registered']
        exported = reg['states'] + reg['algebs'] + reg['discrete'] + reg['services'] + reg['services_ops'] + \
            [b for b in reg['blocks'] if b != BLOCK_NAME]
        exported = list(dict.fromkeys(exported))
        objnames = [x['obj_name'] for x in ex['vars']] + [d['obj_name'] for d in ex['discrete']]
        symbols = list(ex['symbolic']) + exported + ex['flags']
        used = [u for u in tv['used']]
        out.append('def %s.exported : List String := %s' % (name, lean_str_list(exported)))
        out.append('def %s.objNames : List String := %s' % (name, lean_str_list(objnames)))
        out.append('def %s.used : List String := %s' % (name, lean_str_list(used)))
        out.append('def %s.symbols : List String := %s' % (name, lean_str_list(symbols + list(PW['points']) + list(PW['funs']) if v['cls'] == 'Piecewise' else symbols)))
        out.append('/-- exported names are `B_<var>`, pairwise distinct, equal to the `name` each object carries, and every '
                   'identifier of the equations is a constructor argument, an exported name or an exported flag -/')
        out.append('theorem %s_export_namespacing :\n    %s.exported.Nodup ∧ (∀ n ∈ %s.exported, "B_".isPrefixOf n = true) ∧\n'
                   '    (∀ n ∈ %s.objNames, n ∈ %s.exported) ∧ (∀ n ∈ %s.used, n ∈ %s.symbols) := by decide +kernel'
                   % (name, name, name, name, name, name, name))
        theorems.append('%s_export_namespacing' % name)
        info[name] = {'cls': v['cls'], 'over': ex['over'], 'vars': [{k: x[k] for k in ('name', 'kind', 'T', 'e', 'v')} for x in ex['vars']],
                      'flags': ex['flags'], 'discrete': ex['discrete'], 'exported': exported, 'params': tv['params'],
                      'extra': tv['extra'], 'numeric': ex['numeric'], 'used': used}
        out.append('')
    # obligations
    for v in variants:
        name = v['name']
        if name not in sigs:
            continue
        sg = sigs[name]
        tv = sg['tv']
        if name not in SPEC:
            continue
        for ob in SPEC[name]:
            if not ob.get('lean', True):
                continue
            thm = '%s_%s' % (name, ob['name'])
            hyps = []
            for k, val in ob['flags'].items():
                if k not in tv['flags']:
                    if k in sg['ex']['flags']:
                        continue          # exported flag that does not occur in the equations
                    problems.append('%s: flag %s of the specification is not exported by the block' % (thm, k))
                    continue
                hyps.append('(hf_%s : %s = %d)' % (k, k, val))
            for a, b in ob['eqs'] + ob.get('excl', []):
                if a not in sg['args'] and lean_ident(a) not in sg['args']:
                    problems.append('%s: %s is not an argument of the block' % (thm, a))
                hyps.append('(he_%s : %s = %s)' % (a, lean_ident(a), b))
            for a in ob.get('nz', []):
                hyps.append('(hnz_%s : %s ≠ 0)' % (a, lean_ident(a)))
            allargs = ' '.join(sg['args'])
            if ob['kind'] == 'tf':
                tr = Tr()
                concl = '%s * (%s) = (%s) * %s' % (lean_ident(ob['out']), tr.expr(ob['den']), tr.expr(ob['num']), tr.expr(ob['inp']))
                missing = [u for u in tr.used if lean_ident(u) not in sg['args'] and u != 's']
                extra_b = ('(%s : F) ' % ' '.join(missing)) if missing else ''
                if ob['doc']:
                    out.append('/-- %s — %s -/' % (v['cls'], ob['doc']))
                out.append("theorem %s %s (s %s : F) %s%s\n    (h : %s.Laplace s %s) :\n    %s := by\n  unfold %s.Laplace at h; subst_vars; grind"
                           % (thm, sg['cls_line'], allargs, extra_b, ' '.join(hyps), name, allargs, concl, name))
            elif ob['kind'] == 'steady':
                if ob['doc']:
                    out.append('/-- %s — %s -/' % (v['cls'], ob['doc']))
                out.append('theorem %s %s (%s : F) %s\n    (h : %s.Init %s) :\n    %s.Balanced %s := by\n'
                           '  unfold %s.Init at h; unfold %s.Balanced; (try obtain ⟨_, _⟩ := h); subst_vars; (try simp only [*]); '
                           '(repeat\' constructor) <;> (first | ring1 | (field_simp; ring1) | grind)'
                           % (thm, sg['cls_line'], allargs, ' '.join(hyps), name, allargs, name, allargs, name, name))
            elif ob['kind'] == 'reduces':
                base = ob['base']
                if base not in sigs:
                    problems.append('%s: base variant %s missing' % (thm, base))
                    continue
                bargs = []
                for a in sigs[base]['args']:
                    if a in ob['subst']:
                        bargs.append('(%s)' % ob['subst'][a])
                    elif a in sg['args']:
                        bargs.append(a)
                    else:
                        problems.append('%s: argument %s of %s has no counterpart' % (thm, a, base))
                        bargs.append(a)
                rel = '↔' if ob['iff'] else '→'
                if ob['doc']:
                    out.append('/-- %s — %s -/' % (v['cls'], ob['doc']))
                out.append("theorem %s %s (s %s : F) %s :\n    %s.Laplace s %s %s %s.Laplace s %s := by\n"
                           '  unfold %s.Laplace %s.Laplace; subst_vars; grind'
                           % (thm, sg['cls_line'], allargs, ' '.join(hyps), name, allargs, rel, base, ' '.join(bargs), name, base))
            theorems.append(thm)
            # non-vacuity: a concrete rational point at which the hypotheses of the theorem hold (solved here with
            # exact fractions from the live strings, CHECKED by Lean with norm_num)
            if not ob.get('wit', True):
                continue
            try:
                from fractions import Fraction
                ex = sg['ex']
                env = witness_env(sg, ob, ex)
                hy = [h[1:-1].split(' : ', 1)[1] for h in hyps]
                if ob['kind'] == 'steady':
                    full = init_values(ex['vars'], env, True)
                    pred, sval = 'Init', []
                    tail = (lean_ident('u') + ' ≠ 0') if ('u' in sg['args'] and full.get('u', 0) != 0) else 'True'
                else:
                    sv = Fraction(1, 2)
                    sol = solve_laplace(ex['vars'], env, sv, Fraction(0), Fraction(1), exact=True)
                    if sol is None:
                        raise ValueError('equations singular at the witness point')
                    full = dict(env, **sol)
                    pred, sval = 'Laplace', [qlean(sv)]
                    tail = (Tr().expr(ob['inp']) + ' ≠ 0') if ob['kind'] == 'tf' else 'True'
                names = tv['params'] + tv['extra'] + tv['flags'] + tv['vars']
                vals = [qlean(full.get(n, 0)) for n in names]
                out.append('example : ∃ (%s : ℚ), %s := by\n  refine ⟨%s, ?_⟩; unfold %s.%s; norm_num'
                           % (' '.join((['s'] if sval else []) + sg['args']),
                              ' ∧ '.join(['(%s)' % h for h in hy] + ['%s.%s %s' % (name, pred, ' '.join((['s'] if sval else []) + sg['args'])),
                                         '(%s)' % tail]),
                              ', '.join(sval + vals), name, pred))
                n_wit += 1
            except Exception as e:  # noqa
                problems.append('%s: no rational witness for the hypotheses: %s' % (thm, str(e)[:120]))
        out.append('')
    out += ['end Andes.Gen.Blocks', '']
    txt = '\n'.join(out)
    path = os.path.join(lean_dir, 'Andes', 'Gen', 'Blocks.lean')
    if write and (not os.path.exists(path) or open(path).read() != txt):
        with open(path, 'w') as fh:
            fh.write(txt)
    return {'theorems': ['Andes.Gen.Blocks.' + t for t in theorems], 'variants': info, 'problems': problems,
            'classes': [c.__name__ for c in classes], 'text': txt, 'witnesses': n_wit}
